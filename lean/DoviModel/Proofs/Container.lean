import DoviModel.Proofs.Block
/-!
# DM containers: write → parse
-/
namespace Dovi

theorem wcat_append_length {l : List (Res Bits)} {out : Bits} (h : wcat l = .ok out) (parts : List Bits)
    (hp : l = parts.map Res.ok) : out.length = (parts.map List.length).sum := by
  subst hp
  rw [wcat_map_ok] at h
  injection h with h
  subst h
  simp [List.length_flatten]

/-- bits emitted by one field writer -/
theorem writeBlockField_length {level w : Nat} {v : Int} {part : Bits} (h : writeBlockField level w v = .ok part) :
    part.length = w := by
  have := readN_writeBlockField (level := level) (w := w) (v := v) [] h
  unfold readN at this
  split at this
  · rename_i hl
    have hle := (hasAtLeast_iff _ _).mp hl
    injection this with this
    injection this with _ h2
    simp at h2 hle
    omega
  · cases this

theorem fields_length (level : Nat) (ws : List Nat) (vs : List Int) (parts : List Bits)
    (h : (ws.zip vs).map (fun (p : Nat × Int) => writeBlockField level p.1 p.2) = parts.map Res.ok) :
    (parts.map List.length).sum = ((ws.zip vs).map (·.1)).sum := by
  induction ws generalizing vs parts with
  | nil => simp at h; subst h; simp
  | cons w ws ih =>
    cases vs with
    | nil => simp at h; subst h; simp
    | cons v vs =>
      cases parts with
      | nil => simp at h
      | cons p ps =>
        simp only [List.zip_cons_cons, List.map_cons, List.cons.injEq] at h
        simp only [List.zip_cons_cons, List.map_cons, List.sum_cons]
        rw [writeBlockField_length h.1, ih vs ps h.2]

/-- the field widths of every level and length variant add up to `required_bits()` -/
theorem layout_sum (level length : Nat) (ws : List Nat) (req : Nat)
    (hl : blockWriteLayout level length = some ws) (hr : blockRequiredBits level length = some req)
    (hv : validBlockLength level length = true) : ws.sum = req := by
  unfold blockWriteLayout at hl
  unfold blockRequiredBits at hr
  unfold validBlockLength at hv
  split at hl <;> simp_all
  all_goals (first
    | (subst hl; subst hr; rfl)
    | (rcases hv with (((rfl | rfl) | rfl) | rfl) | rfl <;> simp_all <;> (subst hl; subst hr; rfl))
    | (rcases hv with rfl | rfl <;> simp_all <;> (subst hl; subst hr; rfl))
    | skip)

end Dovi

namespace Dovi

theorem writeUe_length_pos {v : Nat} {w : Bits} (h : writeUe v = .ok w) : 1 ≤ w.length := by
  unfold writeUe at h
  split at h
  · injection h with h; subst h; simp
  · split at h
    · cases h
    · injection h with h; subst h; simp; omega

theorem writeN_length {n v : Nat} {w : Bits} (h : writeN n v = .ok w) : w.length = n := by
  unfold writeN at h
  split at h
  · injection h with h; subst h; simp
  · cases h

theorem blockBytes_pos (level length : Nat) (req : Nat) (hr : blockRequiredBits level length = some req)
    (hv : validBlockLength level length = true) (h0 : level ≠ 0) : 1 ≤ blockBytes level length := by
  unfold blockRequiredBits at hr
  unfold validBlockLength at hv
  unfold blockBytes
  split at hr <;> simp_all
  all_goals (first | omega | (rcases hv with (((rfl | rfl) | rfl) | rfl) | rfl <;> omega) | (rcases hv with rfl | rfl <;> omega))

/-- every written block occupies at least 17 bits (so a count announced in `num_ext_blocks` passes the
parser's `num_ext_blocks ≤ available / 16` guard) -/
theorem writeBlock_length (b : Block) (w : Bits) (hw : writeBlock b = .ok w) (h0 : b.level ≠ 0)
    (hlen : ∀ ws, blockWriteLayout b.level b.length = some ws → ws.length ≤ (blockWriteVals b).length) :
    17 ≤ w.length := by
  unfold writeBlock at hw
  split at hw
  · cases hw
  · rename_i hv8
    split at hw
    · cases hw
    · rename_i req hreq
      dsimp only at hw
      split at hw
      · cases hw
      · rename_i hpadlen
        obtain ⟨parts, hparts, hout⟩ := wcat_eq_ok hw
        obtain ⟨pLen, pLevel, pFields, pPad, rfl⟩ : ∃ a b c d, parts = [a, b, c, d] := by
          match parts, hparts with
          | [], h => simp at h
          | [_], h => simp at h
          | [_, _], h => simp at h
          | [_, _, _], h => simp at h
          | [a, b, c, d], _ => exact ⟨a, b, c, d, rfl⟩
          | _ :: _ :: _ :: _ :: _ :: _, h => simp at h
        simp only [List.map_cons, List.map_nil, List.cons.injEq, and_true] at hparts
        obtain ⟨hL, hLv, hF, hP⟩ := hparts
        injection hP with hP
        have hvalid : blockValidate b = true := by
          cases hbv : blockValidate b with
          | true => rfl
          | false => simp [hbv] at hF
        simp only [hvalid, if_true] at hF
        obtain ⟨fparts, hfp, hff⟩ := wcat_eq_ok hF
        cases hlay : blockWriteLayout b.level b.length with
        | none =>
          simp [blockWriteFields, hlay] at hfp
          cases fparts <;> simp at hfp
        | some ws =>
          simp only [blockWriteFields, hlay] at hfp
          have hvl : validBlockLength b.level b.length = true := by
            by_cases h8 : (b.level == 8 || b.level == 9 || b.level == 10) = true
            · simp only [Bool.or_eq_true, beq_iff_eq] at h8
              exact blockValidate_length b hvalid (by rcases h8 with (h | h) | h <;> simp [h])
            · unfold validBlockLength
              simp only [Bool.or_eq_true, beq_iff_eq, not_or] at h8
              obtain ⟨⟨h8a, h8b⟩, h8c⟩ := h8
              split <;> first | rfl | (exfalso; omega)
          have hbytes := blockBytes_pos b.level b.length req hreq hvl h0
          have hzipfst : (ws.zip (blockWriteVals b)).map (·.1) = ws := by
            apply List.map_fst_zip
            exact hlen ws hlay
          have hfl := fields_length b.level ws (blockWriteVals b) fparts hfp
          rw [hzipfst, layout_sum b.level b.length ws req hlay hreq hvl] at hfl
          have hpf : pFields.length = req := by
            rw [hff, List.length_flatten]; exact hfl
          subst hout
          subst hP
          simp only [List.flatten_cons, List.flatten_nil, List.append_nil, List.length_append, List.length_replicate]
          have h1 := writeUe_length_pos hL
          have h2 := writeN_length hLv
          omega

end Dovi

namespace Dovi

/-- the blocks of a container that a parse reconstructs -/
def Block.reparsed (b : Block) : Block :=
  { level := b.level, length := blockBytes b.level b.length, vals := reparsedVals b }

def BlockFits (allowed other : List Nat) (b : Block) : Prop :=
  allowed.contains b.level = true ∧ other.contains b.level = false ∧ b.level ≠ 0 ∧
  ∀ ws, blockWriteLayout b.level b.length = some ws → ws.length ≤ (blockWriteVals b).length

/-- a sequence of written blocks is read back block by block -/
theorem repeatP_parseBlock (allowed other : List Nat) (bs : List Block) (w r : Bits)
    (hw : wcat (bs.map writeBlock) = .ok w) (hfit : ∀ b ∈ bs, BlockFits allowed other b) :
    repeatP bs.length (parseBlock allowed other) (w ++ r) = .ok (bs.map Block.reparsed, r) := by
  induction bs generalizing w with
  | nil =>
    simp [wcat] at hw
    subst hw
    rfl
  | cons b bs ih =>
    simp only [List.map_cons, wcat] at hw
    cases hb : writeBlock b with
    | error => simp [hb] at hw
    | panic => simp [hb] at hw
    | ok wb =>
      simp only [hb] at hw
      cases hr : wcat (bs.map writeBlock) with
      | error => simp [hr, Res.bind] at hw
      | panic => simp [hr, Res.bind] at hw
      | ok wr =>
        simp only [hr, Res.bind] at hw
        injection hw with hw
        subst hw
        obtain ⟨h1, h2, _, h4⟩ := hfit b (by simp)
        simp only [List.length_cons, repeatP, List.append_assoc]
        rw [P.bind_of_ok (parseBlock_writeBlock allowed other b wb (wr ++ r) hb h1 h2 h4)]
        rw [P.bind_of_ok (ih wr hr (fun x hx => hfit x (by simp [hx])))]
        rfl

theorem blocks_length (bs : List Block) (w : Bits) (allowed other : List Nat)
    (hw : wcat (bs.map writeBlock) = .ok w) (hfit : ∀ b ∈ bs, BlockFits allowed other b) :
    17 * bs.length ≤ w.length := by
  induction bs generalizing w with
  | nil => simp
  | cons b bs ih =>
    simp only [List.map_cons, wcat] at hw
    cases hb : writeBlock b with
    | error => simp [hb] at hw
    | panic => simp [hb] at hw
    | ok wb =>
      simp only [hb] at hw
      cases hr : wcat (bs.map writeBlock) with
      | error => simp [hr, Res.bind] at hw
      | panic => simp [hr, Res.bind] at hw
      | ok wr =>
        simp only [hr, Res.bind] at hw
        injection hw with hw
        subst hw
        obtain ⟨_, _, h3, h4⟩ := hfit b (by simp)
        have := writeBlock_length b wb hb h3 h4
        have := ih wr hr (fun x hx => hfit x (by simp [hx]))
        simp only [List.length_cons, List.length_append]
        omega

theorem readAlignZero_pad (k : Nat) (rest : Bits) (hk : k < 8) (hmod : (k + rest.length) % 8 = k % 8 + 0 ∨ True)
    (hlen : (List.replicate k false ++ rest).length % 8 = k) :
    readAlignZero (List.replicate k false ++ rest) = .ok ((), rest) := by
  unfold readAlignZero
  simp only [hlen]
  have ht : List.take k (List.replicate k false ++ rest) = List.replicate k false := by
    rw [List.take_left']; simp
  have hd : List.drop k (List.replicate k false ++ rest) = rest := by
    rw [List.drop_left']; simp
  rw [ht, hd]
  simp

/-- **write → parse for a DM container**, at any bit position `pos` of a byte-aligned stream -/
theorem parseContainer_writeContainer (allowed other : List Nat) (pos : Nat) (c : Container) (w r : Bits)
    (hw : writeContainer pos c = .ok w)
    (hn : c.num_ext_blocks = c.blocks.length)
    (hfit : ∀ b ∈ c.blocks, BlockFits allowed other b)
    (halign : (pos + (w ++ r).length) % 8 = 0) :
    parseContainer allowed other (w ++ r) =
      .ok ({ num_ext_blocks := c.blocks.length, blocks := c.blocks.map Block.reparsed }, r) := by
  unfold writeContainer at hw
  cases hu : writeUe c.num_ext_blocks with
  | error => simp [hu, Res.bind] at hw
  | panic => simp [hu, Res.bind] at hw
  | ok un =>
    simp only [hu, Res.bind] at hw
    cases hb : wcat (c.blocks.map writeBlock) with
    | error => simp [hb] at hw
    | panic => simp [hb] at hw
    | ok bs =>
      simp only [hb] at hw
      injection hw with hw
      subst hw
      unfold parseContainer
      simp only [List.append_assoc]
      rw [P.bind_of_ok (readUe_writeUe _ hu)]
      rw [P.bind_of_ok (P.available_apply _)]
      have hbl := blocks_length c.blocks bs allowed other hb hfit
      have hcheck : decide (c.num_ext_blocks ≤ (alignPad (pos + un.length) ++ (bs ++ r)).length / 16) = true := by
        simp only [decide_eq_true_eq, List.length_append]
        rw [hn]
        apply (Nat.le_div_iff_mul_le (by omega)).mpr
        omega
      rw [hcheck]
      rw [P.bind_of_ok (P.ensure_true _)]
      -- alignment
      have hpadlen : (alignPad (pos + un.length)).length = (8 - (pos + un.length) % 8) % 8 := by
        simp [alignPad]
      have hal : (alignPad (pos + un.length) ++ (bs ++ r)).length % 8 = (8 - (pos + un.length) % 8) % 8 := by
        simp only [List.length_append] at halign ⊢
        rw [hpadlen]
        omega
      have hra : readAlignZero (alignPad (pos + un.length) ++ (bs ++ r)) = .ok ((), bs ++ r) := by
        unfold alignPad at hal ⊢
        exact readAlignZero_pad _ _ (by omega) (Or.inr trivial) hal
      rw [P.bind_of_ok hra]
      rw [hn]
      rw [P.bind_of_ok (repeatP_parseBlock allowed other c.blocks bs r hb hfit)]
      rfl

end Dovi
