import DoviModel.Proofs.Block
/-!
# DM containers: write → parse
-/
namespace Dovi

theorem wcat_append_length {l : List (Res Bits)} {out : Bits} (h : wcat l = .ok out) (parts : List Bits)
    (hp : l = parts.map Res.ok) : out.length = (parts.map List.length).sum := by
  subst hp
  rw [wcat_map_ok] at h
  injection h with h
  subst h
  simp [List.length_flatten]

/-- bits emitted by one field writer -/
theorem writeBlockField_length {level w : Nat} {v : Int} {part : Bits} (h : writeBlockField level w v = .ok part) :
    part.length = w := by
  have := readN_writeBlockField (level := level) (w := w) (v := v) [] h
  unfold readN at this
  split at this
  · rename_i hl
    have hle := (hasAtLeast_iff _ _).mp hl
    injection this with this
    injection this with _ h2
    simp at h2 hle
    omega
  · cases this

theorem fields_length (level : Nat) (ws : List Nat) (vs : List Int) (parts : List Bits)
    (h : (ws.zip vs).map (fun (p : Nat × Int) => writeBlockField level p.1 p.2) = parts.map Res.ok) :
    (parts.map List.length).sum = ((ws.zip vs).map (·.1)).sum := by
  induction ws generalizing vs parts with
  | nil => simp at h; subst h; simp
  | cons w ws ih =>
    cases vs with
    | nil => simp at h; subst h; simp
    | cons v vs =>
      cases parts with
      | nil => simp at h
      | cons p ps =>
        simp only [List.zip_cons_cons, List.map_cons, List.cons.injEq] at h
        simp only [List.zip_cons_cons, List.map_cons, List.sum_cons]
        rw [writeBlockField_length h.1, ih vs ps h.2]

/-- the field widths of every level and length variant add up to `required_bits()` -/
theorem layout_sum (level length : Nat) (ws : List Nat) (req : Nat)
    (hl : blockWriteLayout level length = some ws) (hr : blockRequiredBits level length = some req)
    (hv : validBlockLength level length = true) : ws.sum = req := by
  unfold blockWriteLayout at hl
  unfold blockRequiredBits at hr
  unfold validBlockLength at hv
  split at hl <;> simp_all
  all_goals (first
    | (subst hl; subst hr; rfl)
    | (rcases hv with (((rfl | rfl) | rfl) | rfl) | rfl <;> simp_all <;> (subst hl; subst hr; rfl))
    | (rcases hv with rfl | rfl <;> simp_all <;> (subst hl; subst hr; rfl))
    | skip)

end Dovi
