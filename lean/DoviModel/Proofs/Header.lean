import DoviModel.Proofs.DmData
import DoviModel.Proofs.Mapping
/-!
# write → parse for `rpu_data_header`
-/
namespace Dovi

theorem readBit_wbool {b : Bool} {p : Bits} (r : Bits) (h : wbool b = .ok p) : readBit (p ++ r) = .ok (b, r) := by
  simp only [wbool] at h; injection h with h; subst h; rfl

/-- the fields the parser leaves at their defaults when `rpu_format & 0x700 ≠ 0` -/
def Header.fmtDefaults (h : Header) : Bool :=
  h.bl_bit_depth_minus8 == 0 && h.el_bit_depth_minus8 == 0 && h.ext_mapping_idc_0_4 == 0 &&
  h.ext_mapping_idc_5_7 == 0 && h.vdr_bit_depth_minus8 == 0 && !h.spatial_resampling_filter_flag &&
  h.reserved_zero_3bits == 0 && !h.el_spatial_resampling_filter_flag && !h.disable_residual_flag

/-- the fields the parser leaves at their defaults without sequence info -/
def Header.seqDefaults (h : Header) : Bool :=
  !h.chroma_resampling_explicit_filter_flag && h.coefficient_data_type == 0 && h.coefficient_log2_denom == 0 &&
  h.coefficient_log2_denom_length == 0 && h.vdr_rpu_normalized_idc == 0 && !h.bl_video_full_range_flag

/-- shape of a header as the parser builds it (everything not carried by the syntax is at its default, the
derived `coefficient_log2_denom_length` is consistent, the packed `el_bit_depth`/`ext_mapping_idc` bytes are
bytes) -/
def Header.Wf (h : Header) : Bool :=
  h.rpu_type == 2 &&
  (if h.vdr_seq_info_present_flag then
     ((h.coefficient_data_type == 0 && h.coefficient_log2_denom_length == h.coefficient_log2_denom % 2^32) ||
      (h.coefficient_data_type == 1 && h.coefficient_log2_denom == 0 && h.coefficient_log2_denom_length == 32)) &&
     (if h.rpu_format &&& 0x700 == 0 then
        h.el_bit_depth_minus8 < 256 && h.ext_mapping_idc_0_4 < 32 && h.ext_mapping_idc_5_7 < 8
      else h.fmtDefaults)
   else h.seqDefaults && h.fmtDefaults) &&
  (h.use_prev_vdr_rpu_flag || h.prev_vdr_rpu_id == 0)

/-- the packed `(ext_mapping_idc << 8) | el_bit_depth_minus8` value unpacks to its three parts -/
theorem el_pack (e57 e04 el : Nat) (h57 : e57 < 8) (h04 : e04 < 32) (hel : el < 256) :
    let v := (((e57 * 32) % 256) ||| e04) * 256 ||| el
    v ≤ 0xFFFF ∧ v % 256 = el ∧ (v / 256) % 256 % 32 = e04 ∧ (v / 256) % 256 / 32 = e57 := by
  intro v
  have h1 : (e57 * 32) % 256 = e57 * 32 := Nat.mod_eq_of_lt (by omega)
  have h2 : e57 * 32 ||| e04 = e57 * 32 + e04 := by
    have := Nat.shiftLeft_add_eq_or_of_lt (a := e57) (i := 5) (b := e04) (by simpa using h04)
    rw [Nat.shiftLeft_eq] at this
    simpa using this.symm
  have h3 : (e57 * 32 + e04) * 256 ||| el = (e57 * 32 + e04) * 256 + el := by
    have := Nat.shiftLeft_add_eq_or_of_lt (a := e57 * 32 + e04) (i := 8) (b := el) (by simpa using hel)
    rw [Nat.shiftLeft_eq] at this
    simpa using this.symm
  have hv : v = (e57 * 32 + e04) * 256 + el := by
    show (((e57 * 32) % 256) ||| e04) * 256 ||| el = _
    rw [h1, h2, h3]
  rw [hv]
  refine ⟨by omega, by omega, by omega, by omega⟩

end Dovi

namespace Dovi

theorem P.bind_assoc {α β γ} (x : P α) (f : α → P β) (g : β → P γ) :
    ((x >>= f) >>= g) = (x >>= fun a => f a >>= g) := by
  funext s
  show P.bind (P.bind x f) g s = P.bind x (fun a => P.bind (f a) g) s
  unfold P.bind
  cases x s with
  | ok v => rfl
  | error => rfl
  | panic => rfl

theorem pure_bind_P {α β} (a : α) (f : α → P β) : ((pure a : P α) >>= f) = f a := by
  funext s; rfl

theorem parseTail {α} (dmp usep : Bool) (prev : Nat) (o r : Bits) (k : Bool → Bool → Nat → P α)
    (hw : wcat (wbool dmp :: wbool usep :: if usep = true then [writeUe prev] else []) = .ok o)
    (hp : (usep || prev == 0) = true) :
    (readBit >>= fun a => readBit >>= fun b => (if b = true then readUe else pure 0) >>= fun c => k a b c) (o ++ r)
      = k dmp usep prev r := by
  obtain ⟨q1, o1, g1, hw1, rfl⟩ := wcat_cons_ok hw
  obtain ⟨q2, o2, g2, hw2, rfl⟩ := wcat_cons_ok hw1
  simp only [List.append_assoc]
  rw [P.bind_of_ok (readBit_wbool _ g1), P.bind_of_ok (readBit_wbool _ g2)]
  cases usep with
  | false =>
    simp only [Bool.false_eq_true, if_false] at hw2 ⊢
    have := wcat_nil_ok hw2
    subst this
    simp only [Bool.false_or, beq_iff_eq] at hp
    subst hp
    rfl
  | true =>
    simp only [if_true] at hw2 ⊢
    obtain ⟨q3, o3, g3, hw3, rfl⟩ := wcat_cons_ok hw2
    have := wcat_nil_ok hw3
    subst this
    rw [List.append_nil, P.bind_of_ok (readUe_writeUe _ g3)]

theorem parseHeader_writeHeader (h : Header) (w r : Bits) (hw : writeHeader h = .ok w) (hwf : h.Wf = true) :
    parseHeader (w ++ r) = .ok ({ h with rpu_nal_prefix := 0 }, r) := by
  obtain ⟨pfx, ty, fmt, prof, lvl, seq, chroma, cdt, den, denl, norm, full, bl, el, e04, e57, vdr, spat, res3,
    elsp, dis, dmp, usep, prev⟩ := h
  simp only [Header.Wf, Header.fmtDefaults, Header.seqDefaults] at hwf
  unfold writeHeader at hw
  simp only [List.cons_append, List.nil_append] at hw
  obtain ⟨p1, o1, h1, hw1, rfl⟩ := wcat_cons_ok hw
  clear hw
  obtain ⟨p2, o2, h2, hw2, rfl⟩ := wcat_cons_ok hw1
  clear hw1
  obtain ⟨p3, o3, h3, hw3, rfl⟩ := wcat_cons_ok hw2
  clear hw2
  obtain ⟨p4, o4, h4, hw4, rfl⟩ := wcat_cons_ok hw3
  clear hw3
  obtain ⟨p5, o5, h5, hw5, rfl⟩ := wcat_cons_ok hw4
  clear hw4
  dsimp only
  unfold parseHeader
  simp only [List.append_assoc]
  simp only [Bool.and_eq_true, beq_iff_eq] at hwf
  obtain ⟨⟨hty, hseq⟩, hprev⟩ := hwf
  subst hty
  rw [P.bind_of_ok (readN_writeN h1)]
  have e22 : ∀ s : Bits, P.ensure (2 == 2) s = .ok ((), s) := fun _ => rfl
  rw [P.bind_of_ok (e22 _), P.bind_of_ok (readN_writeN h2),
    P.bind_of_ok (readN_writeN h3), P.bind_of_ok (readN_writeN h4), P.bind_of_ok (readBit_wbool _ h5)]
  cases seq with
  | false =>
    simp only [Bool.false_eq_true, if_false, List.nil_append, List.cons_append] at hw5 hseq ⊢
    rw [pure_bind_P]
    rw [parseTail dmp usep prev o5 r _ hw5 hprev]
    simp only [Bool.and_eq_true, beq_iff_eq, Bool.not_eq_true', Bool.not_eq_eq_eq_not, Bool.not_true] at hseq
    obtain ⟨⟨⟨⟨⟨⟨hc, hcdt⟩, hden⟩, hdenl⟩, hnorm⟩, hfull⟩, ⟨⟨⟨⟨⟨⟨⟨⟨hbl, hel⟩, h04⟩, h57⟩, hvdr⟩, hspat⟩, hres⟩, helsp⟩, hdis⟩⟩ := hseq
    subst_vars
    rfl
  | true =>
    simp only [if_true, List.cons_append, List.nil_append, List.append_assoc] at hw5 hseq ⊢
    obtain ⟨p6, o6, h6, hw6, rfl⟩ := wcat_cons_ok hw5
    clear hw5
    obtain ⟨p7, o7, h7, hw7, rfl⟩ := wcat_cons_ok hw6
    clear hw6
    simp only [P.bind_assoc, List.append_assoc]
    rw [P.bind_of_ok (readBit_wbool _ h6), P.bind_of_ok (readN_writeN h7)]
    simp only [Bool.and_eq_true, Bool.or_eq_true, beq_iff_eq] at hseq
    obtain ⟨hcd, hfmt⟩ := hseq
    -- the denominator (only for coefficient_data_type 0)
    have hd : ∃ pd od, o7 = pd ++ od ∧
        wcat (writeN 2 norm :: wbool full ::
          ((if (fmt &&& 1792 == 0) = true then
              [writeUe bl, writeUe ((e57 * 32 % 256 ||| e04) * 256 ||| el), writeUe vdr, wbool spat, writeN 3 res3,
                wbool elsp, wbool dis]
            else []) ++ wbool dmp :: wbool usep :: if usep = true then [writeUe prev] else [])) = .ok od ∧
        (if (cdt == 0) = true then readUe else pure 0) (pd ++ (od ++ r)) = .ok (den, od ++ r) := by
      rcases hcd with ⟨rfl, _⟩ | ⟨⟨rfl, rfl⟩, _⟩
      · simp only [beq_self_eq_true, if_true, List.cons_append, List.nil_append] at hw7 ⊢
        obtain ⟨p8, o8, h8, hw8, rfl⟩ := wcat_cons_ok hw7
        exact ⟨p8, o8, rfl, hw8, readUe_writeUe _ h8⟩
      · simp only [show ((1 : Nat) == 0) = false from rfl, Bool.false_eq_true, if_false, List.nil_append] at hw7 ⊢
        exact ⟨[], o7, rfl, hw7, rfl⟩
    obtain ⟨pd, od, rfl, hw8, hdread⟩ := hd
    clear hw7
    simp only [List.append_assoc]
    rw [P.bind_of_ok hdread]
    obtain ⟨p9, o9, h9, hw9, rfl⟩ := wcat_cons_ok hw8
    clear hw8
    obtain ⟨p10, o10, h10, hw10, rfl⟩ := wcat_cons_ok hw9
    clear hw9
    simp only [List.append_assoc]
    rw [P.bind_of_ok (readN_writeN h9), P.bind_of_ok (readBit_wbool _ h10)]
    obtain ⟨pf, ot, hpf, hwt, rfl⟩ := wcat_append_ok hw10
    clear hw10
    simp only [List.append_assoc]
    obtain ⟨hf, hfeq⟩ : ∃ hf : Header, hf = ({
          rpu_type := 2, rpu_format := fmt, vdr_rpu_profile := prof,
          vdr_rpu_level := lvl,
          vdr_seq_info_present_flag := true, chroma_resampling_explicit_filter_flag := chroma,
          coefficient_data_type := cdt, coefficient_log2_denom := den, vdr_rpu_normalized_idc := norm,
          bl_video_full_range_flag := full, bl_bit_depth_minus8 := bl, el_bit_depth_minus8 := el,
          ext_mapping_idc_0_4 := e04, ext_mapping_idc_5_7 := e57, vdr_bit_depth_minus8 := vdr,
          spatial_resampling_filter_flag := spat, reserved_zero_3bits := res3,
          el_spatial_resampling_filter_flag := elsp, disable_residual_flag := dis } : Header) := ⟨_, rfl⟩
    rw [P.bind_of_ok (a := hf) (s' := ot ++ r) ?fmtblock]
    case fmtblock =>
      subst hfeq
      by_cases hc : fmt &&& 1792 = 0
      · simp only [hc, beq_self_eq_true, if_true] at hpf hfmt ⊢
        simp only [Bool.and_eq_true, decide_eq_true_eq] at hfmt
        obtain ⟨⟨hel, h04⟩, h57⟩ := hfmt
        obtain ⟨q1, r1, g1, hpf1, rfl⟩ := wcat_cons_ok hpf
        obtain ⟨q2, r2, g2, hpf2, rfl⟩ := wcat_cons_ok hpf1
        obtain ⟨q3, r3, g3, hpf3, rfl⟩ := wcat_cons_ok hpf2
        obtain ⟨q4, r4, g4, hpf4, rfl⟩ := wcat_cons_ok hpf3
        obtain ⟨q5, r5, g5, hpf5, rfl⟩ := wcat_cons_ok hpf4
        obtain ⟨q6, r6, g6, hpf6, rfl⟩ := wcat_cons_ok hpf5
        obtain ⟨q7, r7, g7, hpf7, rfl⟩ := wcat_cons_ok hpf6
        have := wcat_nil_ok hpf7
        subst this
        obtain ⟨hle, hm1, hm2, hm3⟩ := el_pack e57 e04 el h57 h04 hel
        simp only [List.append_assoc, List.nil_append]
        rw [P.bind_of_ok (readUe_writeUe _ g1), P.bind_of_ok (readUe_writeUe _ g2)]
        have hens : ∀ s : Bits, P.ensure (decide ((e57 * 32 % 256 ||| e04) * 256 ||| el ≤ 65535)) s = .ok ((), s) := by
          intro s
          have : decide ((e57 * 32 % 256 ||| e04) * 256 ||| el ≤ 65535) = true := decide_eq_true hle
          rw [this]; rfl
        rw [P.bind_of_ok (hens _), P.bind_of_ok (readUe_writeUe _ g3), P.bind_of_ok (readBit_wbool _ g4),
          P.bind_of_ok (readN_writeN g5), P.bind_of_ok (readBit_wbool _ g6), P.bind_of_ok (readBit_wbool _ g7)]
        show Res.ok _ = Res.ok _
        rw [hm1, hm2, hm3]
      · have hc' : (fmt &&& 1792 == 0) = false := by simpa using hc
        simp only [hc, hc', Bool.false_eq_true, if_false] at hpf hfmt ⊢
        have := wcat_nil_ok hpf
        subst this
        simp only [Bool.and_eq_true, beq_iff_eq, Bool.not_eq_true', Bool.not_eq_eq_eq_not, Bool.not_true] at hfmt
        obtain ⟨⟨⟨⟨⟨⟨⟨⟨hbl, hel⟩, h04⟩, h57⟩, hvdr⟩, hspat⟩, hres⟩, helsp⟩, hdis⟩ := hfmt
        subst_vars
        rfl
    -- the derived denominator length
    subst hfeq
    dsimp only
    rcases hcd with ⟨rfl, hdl⟩ | ⟨⟨rfl, rfl⟩, hdl⟩
    · simp only [beq_self_eq_true, if_true]
      rw [pure_bind_P, parseTail dmp usep prev ot r _ hwt hprev]
      subst hdl
      rfl
    · simp only [show ((1 : Nat) == 0) = false from rfl, Bool.false_eq_true, if_false, beq_self_eq_true, if_true]
      rw [pure_bind_P, parseTail dmp usep prev ot r _ hwt hprev]
      subst hdl
      rfl

end Dovi
