import DoviModel.Model.Ops
/-!
# Helper lemmas for C04 — `Rpu.convertWithMode`

Closed forms of every branch of `convert_with_mode` (dovi_rpu.rs:341-392) as record updates of the source
RPU, the algebra of `set_p81_coeffs` (idempotent; which entries of the DM payload it can touch), and the
per-mode success conditions.  Everything is for arbitrary `Rpu` values (lists of arbitrary length).
-/
namespace Dovi.ConvertProof
open Dovi

/-! ## vocabulary -/

/-- the tail of `convert_with_mode`: profile and EL type re-derived from the (edited) header / mapping -/
def fin (r : Rpu) : Rpu :=
  { r with dovi_profile := r.header.getDoviProfile, el_type := r.rpu_data_mapping.bind Mapping.elType }

/-- `self.modified = true` -/
def mark (r : Rpu) : Rpu := { r with modified := true }

/-- header edit of `convert_to_p81` -/
def p81Header (h : Header) : Header :=
  { h with el_spatial_resampling_filter_flag := false, disable_residual_flag := true }

/-- header edit of `convert_to_mel` -/
def melHeader (h : Header) : Header :=
  { h with el_spatial_resampling_filter_flag := true, disable_residual_flag := false }

/-- header edit of `p5_to_p81` -/
def p5Header (h : Header) : Header :=
  { p81Header h with vdr_rpu_profile := 1, bl_video_full_range_flag := false }

/-- header of `convert_to_p84`: `p8_default()` with the two DM signalling fields of the source -/
def p84Header (h : Header) : Header :=
  { p8DefaultHeader with vdr_dm_metadata_present_flag := h.vdr_dm_metadata_present_flag,
                         reserved_zero_3bits := h.reserved_zero_3bits }

/-- mapping edit of `convert_to_p81`: the NLQ and its signalling removed, partitions reset; curves kept -/
def stripNlq (m : Mapping) : Mapping :=
  { m with nlq_method_idc := none, nlq_num_pivots_minus2 := none, nlq_pred_pivot_value := none,
           num_x_partitions_minus1 := 0, num_y_partitions_minus1 := 0, nlq := none }

/-- mapping edit of `convert_to_mel`: NLQ signalling for one linear-deadzone pivot pair, NLQ = the MEL constant -/
def melMapping (m : Mapping) : Mapping :=
  { m with nlq_method_idc := some 0, nlq_num_pivots_minus2 := some 0, nlq_pred_pivot_value := some [0, 1023],
           nlq := some Nlq.melDefault }

/-- the 21 colour-matrix entries written by `set_p81_coeffs` -/
def p81Vals : List Int :=
  [9574, 0, 13802, 9574, -1540, -5348, 9574, 17610, 0, 16777216, 134217728, 134217728,
   7222, 8771, 390, 2654, 12430, 1300, 0, 422, 15962]

/-- profile and EL type are the ones derived from the header / mapping (true of every parsed RPU and of every
output of `convert_with_mode`) -/
def Consistent (r : Rpu) : Prop :=
  r.dovi_profile = r.header.getDoviProfile ∧ r.el_type = r.rpu_data_mapping.bind Mapping.elType

/-! ## `set_p81_coeffs` -/

theorem setP81_main (d : DmData) : d.setP81Coeffs.main = p81Vals ++ (d.main.drop 21).set 5 0 := by
  show (p81Vals ++ d.main.drop 21).set 26 0 = _
  rw [List.set_append_right _ _ (by simp [p81Vals])]
  simp [p81Vals]

theorem setP81_eq (d : DmData) :
    d.setP81Coeffs = { d with main := p81Vals ++ (d.main.drop 21).set 5 0 } := by
  have := setP81_main d
  cases d; simp_all [DmData.setP81Coeffs]

theorem setP81_idem (d : DmData) : d.setP81Coeffs.setP81Coeffs = d.setP81Coeffs := by
  rw [setP81_eq d.setP81Coeffs, setP81_eq d]
  simp [p81Vals]

theorem setP81_idem_map (o : Option DmData) :
    (o.map DmData.setP81Coeffs).map DmData.setP81Coeffs = o.map DmData.setP81Coeffs := by
  cases o <;> simp [setP81_idem]

/-- entries from index 21 on, other than 26 (`signal_color_space`), are kept — for a list of any length -/
theorem setP81_getElem? (d : DmData) (i : Nat) (h21 : 21 ≤ i) (h26 : i ≠ 26) :
    d.setP81Coeffs.main[i]? = d.main[i]? := by
  rw [setP81_main, List.getElem?_append_right (by simp [p81Vals]; omega)]
  have : p81Vals.length = 21 := rfl
  rw [this, List.getElem?_set_ne (by omega), List.getElem?_drop]
  congr 1; omega

theorem setP81_getD (d : DmData) (i : Nat) (h21 : 21 ≤ i) (h26 : i ≠ 26) (x : Int) :
    d.setP81Coeffs.main.getD i x = d.main.getD i x := by
  simp [List.getD, setP81_getElem? d i h21 h26]

theorem setP81_take (d : DmData) : d.setP81Coeffs.main.take 21 = p81Vals := by
  rw [setP81_main]; simp [p81Vals]

theorem setP81_cs (d : DmData) (x : Int) (h : d.setP81Coeffs.main[26]? = some x) : x = 0 := by
  rw [setP81_main, List.getElem?_append_right (by simp [p81Vals])] at h
  have e : 26 - p81Vals.length = 5 := rfl
  rw [e, List.getElem?_set_self'] at h
  cases hq : (List.drop 21 d.main)[5]? <;> simp_all

theorem setP81_length (d : DmData) : d.setP81Coeffs.main.length = max 21 d.main.length := by
  rw [setP81_main]; simp [p81Vals]; omega

/-! ## closed forms of the helpers -/

theorem convertToP81_eq (r : Rpu) :
    r.convertToP81 = { r with modified := true, header := p81Header r.header,
                              rpu_data_mapping := r.rpu_data_mapping.map stripNlq,
                              vdr_dm_data := r.vdr_dm_data.map DmData.setP81Coeffs } := rfl

theorem convertToP84_eq (r : Rpu) :
    r.convertToP84 = { r with modified := true, header := p84Header r.header,
                              rpu_data_mapping := some profile84Mapping,
                              vdr_dm_data := r.vdr_dm_data.map DmData.setP81Coeffs } := rfl

theorem removeMapping_eq (r : Rpu) :
    r.removeMapping = { r with modified := true, rpu_data_mapping := r.rpu_data_mapping.map Mapping.setEmptyP81 } := rfl

/-- `convert_to_mel` succeeds unless there is a mapping without NLQ on a non-profile-8 RPU -/
def melOk (r : Rpu) : Prop :=
  ∀ m, r.rpu_data_mapping = some m → m.nlq = none → r.dovi_profile = 8

instance (r : Rpu) : Decidable (melOk r) := by
  unfold melOk
  cases h : r.rpu_data_mapping with
  | none => exact isTrue (by simp)
  | some m =>
    cases hn : m.nlq with
    | some n => exact isTrue (by intro m' e; cases e; simp [hn])
    | none =>
      exact if h8 : r.dovi_profile = 8 then isTrue (fun _ _ _ => h8)
        else isFalse (fun f => h8 (f m rfl hn))

theorem convertToMel_ok (r : Rpu) (h : melOk r) :
    r.convertToMel = .ok { r with header := melHeader r.header,
                                  rpu_data_mapping := r.rpu_data_mapping.map melMapping } := by
  unfold Rpu.convertToMel
  cases hm : r.rpu_data_mapping with
  | none => rfl
  | some m =>
    simp only
    cases hn : m.nlq with
    | some n => rfl
    | none =>
      have := h m hm hn
      simp [this, melMapping, melHeader]

theorem convertToMel_err (r : Rpu) (h : ¬ melOk r) : r.convertToMel = .error := by
  unfold Rpu.convertToMel
  cases hm : r.rpu_data_mapping with
  | none => exact absurd (by intro m e; simp [hm] at e) h
  | some m =>
    simp only
    cases hn : m.nlq with
    | some n => exact absurd (by intro m' e; rw [hm] at e; cases e; simp [hn]) h
    | none =>
      have : r.dovi_profile ≠ 8 := fun h8 => h (fun _ _ _ => h8)
      simp [this]

theorem convertToMel_never_panics (r : Rpu) : r.convertToMel ≠ .panic := by
  by_cases h : melOk r
  · rw [convertToMel_ok r h]; simp
  · rw [convertToMel_err r h]; simp

/-! ## closed form of every branch of `convert_with_mode` -/

theorem cw_lossless (r : Rpu) : r.convertWithMode .lossless = .ok (fin r) := rfl

theorem cw_toMel_ok (r : Rpu) (hp : r.dovi_profile = 7 ∨ r.dovi_profile = 8) (hm : melOk r) :
    r.convertWithMode .toMel =
      .ok (fin { r with modified := true, header := melHeader r.header,
                        rpu_data_mapping := r.rpu_data_mapping.map melMapping }) := by
  have hm' : melOk (mark r) := hm
  have e : r.convertWithMode .toMel =
      (if r.dovi_profile == 7 || r.dovi_profile == 8 then (mark r).convertToMel.bind (fun x => .ok (fin x)) else .error) := rfl
  rw [e, convertToMel_ok _ hm']
  rcases hp with hp | hp <;> simp [hp, Res.bind, mark]

theorem cw_toMel_err_profile (r : Rpu) (h7 : r.dovi_profile ≠ 7) (h8 : r.dovi_profile ≠ 8) :
    r.convertWithMode .toMel = .error := by
  simp [Rpu.convertWithMode, h7, h8]

theorem cw_toMel_err_nlq (r : Rpu) (hm : ¬ melOk r) : r.convertWithMode .toMel = .error := by
  have hm' : ¬ melOk (mark r) := hm
  have e : r.convertWithMode .toMel =
      (if r.dovi_profile == 7 || r.dovi_profile == 8 then (mark r).convertToMel.bind (fun x => .ok (fin x)) else .error) := rfl
  rw [e, convertToMel_err _ hm']
  split <;> rfl

theorem cw_to81_78 (r : Rpu) (hp : r.dovi_profile = 7 ∨ r.dovi_profile = 8) :
    r.convertWithMode .to81 =
      .ok (fin { r with modified := true, header := p81Header r.header,
                        rpu_data_mapping :=
                          if r.el_type = some .fel then (r.rpu_data_mapping.map stripNlq).map Mapping.setEmptyP81
                          else r.rpu_data_mapping.map stripNlq,
                        vdr_dm_data := r.vdr_dm_data.map DmData.setP81Coeffs }) := by
  by_cases hf : r.el_type = some .fel
  · rcases hp with hp | hp <;>
      simp [Rpu.convertWithMode, hp, hf, convertToP81_eq, removeMapping_eq, fin]
  · rcases hp with hp | hp <;>
      simp [Rpu.convertWithMode, hp, hf, convertToP81_eq, fin]

theorem cw_to81_5 (r : Rpu) (hp : r.dovi_profile = 5) :
    r.convertWithMode .to81 =
      .ok (fin { r with modified := true, dovi_profile := 8, header := p5Header r.header,
                        rpu_data_mapping := (r.rpu_data_mapping.map stripNlq).map Mapping.setEmptyP81,
                        vdr_dm_data := r.vdr_dm_data.map DmData.setP81Coeffs }) := by
  have := setP81_idem_map r.vdr_dm_data
  simp only [Option.map_map] at this
  simp [Rpu.convertWithMode, hp, convertToP81_eq, removeMapping_eq, fin, p5Header, p81Header, this]

theorem cw_to81_err (r : Rpu) (h5 : r.dovi_profile ≠ 5) (h7 : r.dovi_profile ≠ 7) (h8 : r.dovi_profile ≠ 8) :
    r.convertWithMode .to81 = .error := by
  simp [Rpu.convertWithMode, h5, h7, h8]

theorem cw_to84 (r : Rpu) :
    r.convertWithMode .to84 =
      .ok (fin { r with modified := true, header := p84Header r.header,
                        rpu_data_mapping := some profile84Mapping,
                        vdr_dm_data := r.vdr_dm_data.map DmData.setP81Coeffs }) := rfl

theorem cw_to81mp_78 (r : Rpu) (hp : r.dovi_profile = 7 ∨ r.dovi_profile = 8) :
    r.convertWithMode .to81MappingPreserved =
      .ok (fin { r with modified := true, header := p81Header r.header,
                        rpu_data_mapping := r.rpu_data_mapping.map stripNlq,
                        vdr_dm_data := r.vdr_dm_data.map DmData.setP81Coeffs }) := by
  have e : r.convertWithMode .to81MappingPreserved =
      (if r.dovi_profile == 7 || r.dovi_profile == 8 then .ok (fin (mark r).convertToP81) else .error) := rfl
  rw [e]
  rcases hp with hp | hp <;> simp [hp, convertToP81_eq, mark]

theorem cw_to81mp_err (r : Rpu) (h7 : r.dovi_profile ≠ 7) (h8 : r.dovi_profile ≠ 8) :
    r.convertWithMode .to81MappingPreserved = .error := by
  simp [Rpu.convertWithMode, h7, h8]

/-! ## success condition and the result as a function of the source -/

/-- exactly when `convert_with_mode` returns `Ok` -/
def ConvertOk (m : Mode) (r : Rpu) : Prop :=
  match m with
  | .lossless => True
  | .toMel => (r.dovi_profile = 7 ∨ r.dovi_profile = 8) ∧ melOk r
  | .to81 => r.dovi_profile = 5 ∨ r.dovi_profile = 7 ∨ r.dovi_profile = 8
  | .to84 => True
  | .to81MappingPreserved => r.dovi_profile = 7 ∨ r.dovi_profile = 8

instance (m : Mode) (r : Rpu) : Decidable (ConvertOk m r) := by
  cases m <;> unfold ConvertOk <;> infer_instance

/-- the RPU before the final re-derivation of profile / EL type -/
def preTarget (m : Mode) (r : Rpu) : Rpu :=
  match m with
  | .lossless => r
  | .toMel => { r with modified := true, header := melHeader r.header,
                       rpu_data_mapping := r.rpu_data_mapping.map melMapping }
  | .to81 =>
    if r.dovi_profile = 5 then
      { r with modified := true, dovi_profile := 8, header := p5Header r.header,
               rpu_data_mapping := (r.rpu_data_mapping.map stripNlq).map Mapping.setEmptyP81,
               vdr_dm_data := r.vdr_dm_data.map DmData.setP81Coeffs }
    else
      { r with modified := true, header := p81Header r.header,
               rpu_data_mapping :=
                 if r.el_type = some .fel then (r.rpu_data_mapping.map stripNlq).map Mapping.setEmptyP81
                 else r.rpu_data_mapping.map stripNlq,
               vdr_dm_data := r.vdr_dm_data.map DmData.setP81Coeffs }
  | .to84 => { r with modified := true, header := p84Header r.header,
                      rpu_data_mapping := some profile84Mapping,
                      vdr_dm_data := r.vdr_dm_data.map DmData.setP81Coeffs }
  | .to81MappingPreserved =>
      { r with modified := true, header := p81Header r.header,
               rpu_data_mapping := r.rpu_data_mapping.map stripNlq,
               vdr_dm_data := r.vdr_dm_data.map DmData.setP81Coeffs }

theorem cw_ok (m : Mode) (r : Rpu) (h : ConvertOk m r) : r.convertWithMode m = .ok (fin (preTarget m r)) := by
  cases m with
  | lossless => exact cw_lossless r
  | toMel => exact cw_toMel_ok r h.1 h.2
  | to81 =>
    rcases h with h | h
    · rw [cw_to81_5 r h]; simp [preTarget, h]
    · have h5 : r.dovi_profile ≠ 5 := by rcases h with h | h <;> omega
      rw [cw_to81_78 r h]; simp [preTarget, h5]
  | to84 => exact cw_to84 r
  | to81MappingPreserved => exact cw_to81mp_78 r h

theorem cw_err (m : Mode) (r : Rpu) (h : ¬ ConvertOk m r) : r.convertWithMode m = .error := by
  cases m with
  | lossless => exact absurd trivial h
  | toMel =>
    by_cases hm : melOk r
    · have : ¬ (r.dovi_profile = 7 ∨ r.dovi_profile = 8) := fun hp => h ⟨hp, hm⟩
      exact cw_toMel_err_profile r (fun e => this (.inl e)) (fun e => this (.inr e))
    · exact cw_toMel_err_nlq r hm
  | to81 =>
    exact cw_to81_err r (fun e => h (.inl e)) (fun e => h (.inr (.inl e))) (fun e => h (.inr (.inr e)))
  | to84 => exact absurd trivial h
  | to81MappingPreserved => exact cw_to81mp_err r (fun e => h (.inl e)) (fun e => h (.inr e))

theorem cw_ok_iff (m : Mode) (r : Rpu) (r' : Rpu) :
    r.convertWithMode m = .ok r' ↔ ConvertOk m r ∧ r' = fin (preTarget m r) := by
  by_cases h : ConvertOk m r
  · rw [cw_ok m r h]; simp [h, eq_comm]
  · rw [cw_err m r h]; simp [h]

/-! ## profile / EL type of the edited headers and mappings -/

theorem gdp_mel (h : Header) :
    (melHeader h).getDoviProfile =
      if h.vdr_rpu_profile = 0 then (if h.bl_video_full_range_flag then 5 else 0)
      else if h.vdr_rpu_profile = 1 then (if h.vdr_bit_depth_minus8 = 4 then 7 else 4) else 0 := by
  by_cases h0 : h.vdr_rpu_profile = 0 <;> by_cases h1 : h.vdr_rpu_profile = 1 <;>
    simp [Header.getDoviProfile, melHeader, h0, h1]

theorem gdp_p81 (h : Header) :
    (p81Header h).getDoviProfile =
      if h.vdr_rpu_profile = 0 then (if h.bl_video_full_range_flag then 5 else 0)
      else if h.vdr_rpu_profile = 1 then 8 else 0 := by
  by_cases h0 : h.vdr_rpu_profile = 0 <;> by_cases h1 : h.vdr_rpu_profile = 1 <;>
    simp [Header.getDoviProfile, p81Header, h0, h1]

theorem gdp_p5 (h : Header) : (p5Header h).getDoviProfile = 8 := by
  simp [Header.getDoviProfile, p5Header, p81Header]

theorem gdp_p84 (h : Header) : (p84Header h).getDoviProfile = 8 := by
  simp [Header.getDoviProfile, p84Header, p8DefaultHeader]

theorem melDefault_isMel : Nlq.melDefault.isMel = true := by decide

theorem elType_mel (m : Mapping) : (melMapping m).elType = some .mel := by
  simp [Mapping.elType, melMapping, melDefault_isMel]

theorem elType_strip (m : Mapping) : (stripNlq m).elType = none := rfl

theorem elType_empty (m : Mapping) : m.setEmptyP81.elType = m.elType := rfl

theorem elType_p84 : profile84Mapping.elType = none := rfl

theorem mel_mel (m : Mapping) : melMapping (melMapping m) = melMapping m := rfl
theorem strip_strip (m : Mapping) : stripNlq (stripNlq m) = stripNlq m := rfl
theorem strip_empty (m : Mapping) : stripNlq m.setEmptyP81 = (stripNlq m).setEmptyP81 := rfl
theorem strip_p84 : stripNlq profile84Mapping = profile84Mapping := rfl
theorem melH_melH (h : Header) : melHeader (melHeader h) = melHeader h := rfl
theorem p81H_p81H (h : Header) : p81Header (p81Header h) = p81Header h := rfl
theorem p81H_p5H (h : Header) : p81Header (p5Header h) = p5Header h := rfl
theorem p81H_p84H (h : Header) : p81Header (p84Header h) = p84Header h := rfl
theorem p84H_p84H (h : Header) : p84Header (p84Header h) = p84Header h := rfl

theorem fin_consistent (r : Rpu) : Consistent (fin r) := ⟨rfl, rfl⟩

theorem fin_of_consistent (r : Rpu) (h : Consistent r) : fin r = r := by
  cases r; simp_all [fin, Consistent]

/-! ## idempotence -/

theorem fin_fin (r : Rpu) : fin (fin r) = fin r := rfl

theorem bind_strip (o : Option Mapping) : (o.map stripNlq).bind Mapping.elType = none := by
  cases o <;> rfl

theorem bind_strip_empty (o : Option Mapping) :
    ((o.map stripNlq).map Mapping.setEmptyP81).bind Mapping.elType = none := by
  cases o <;> rfl

theorem map_strip_strip (o : Option Mapping) : (o.map stripNlq).map stripNlq = o.map stripNlq := by
  cases o <;> rfl

theorem map_strip_empty_strip (o : Option Mapping) :
    (((o.map stripNlq).map Mapping.setEmptyP81).map stripNlq) = (o.map stripNlq).map Mapping.setEmptyP81 := by
  cases o <;> rfl

theorem map_mel_mel (o : Option Mapping) : (o.map melMapping).map melMapping = o.map melMapping := by
  cases o <;> rfl

theorem melOk_after (r : Rpu) (x : Rpu)
    (hx : x.rpu_data_mapping = r.rpu_data_mapping.map melMapping) : melOk x := by
  intro m hm hn
  rw [hx] at hm
  cases hq : r.rpu_data_mapping with
  | none => simp [hq] at hm
  | some m0 => simp [hq] at hm; subst hm; simp [melMapping] at hn

theorem c_set_set : DmData.setP81Coeffs ∘ DmData.setP81Coeffs = DmData.setP81Coeffs := funext setP81_idem
theorem c_mel_mel : melMapping ∘ melMapping = melMapping := rfl
theorem c_strip_strip : stripNlq ∘ stripNlq = stripNlq := rfl
theorem c_strip_empty_strip : stripNlq ∘ Mapping.setEmptyP81 ∘ stripNlq = Mapping.setEmptyP81 ∘ stripNlq := rfl
theorem c_bind_strip (o : Option Mapping) : (o.map stripNlq).bind Mapping.elType = none := by
  cases o <;> rfl
theorem c_bind_empty_strip (o : Option Mapping) :
    (o.map (Mapping.setEmptyP81 ∘ stripNlq)).bind Mapping.elType = none := by
  cases o <;> rfl

/-- exactly when a successful conversion can be repeated with the same result -/
def IdemCond (m : Mode) (r : Rpu) : Prop :=
  match m with
  | .lossless => True
  | .toMel => r.header.vdr_rpu_profile = 1 ∧ r.header.vdr_bit_depth_minus8 = 4
  | .to81 => r.dovi_profile = 5 ∨ r.header.vdr_rpu_profile = 1
  | .to84 => True
  | .to81MappingPreserved => r.header.vdr_rpu_profile = 1

theorem idem_lossless (r r' : Rpu) (h : r.convertWithMode .lossless = .ok r') :
    r'.convertWithMode .lossless = .ok r' := by
  rw [cw_lossless] at h; cases h; rfl

theorem idem_to84 (r r' : Rpu) (h : r.convertWithMode .to84 = .ok r') :
    r'.convertWithMode .to84 = .ok r' := by
  rw [cw_to84] at h; cases h
  rw [cw_to84]
  simp [fin, p84H_p84H, c_set_set]

theorem idem_toMel (r r' : Rpu) (h : r.convertWithMode .toMel = .ok r')
    (hc : r.header.vdr_rpu_profile = 1 ∧ r.header.vdr_bit_depth_minus8 = 4) :
    r'.convertWithMode .toMel = .ok r' := by
  obtain ⟨_, e⟩ := (cw_ok_iff _ _ _).1 h
  subst e
  have hp : (fin (preTarget .toMel r)).dovi_profile = 7 := by
    show (melHeader r.header).getDoviProfile = 7
    rw [gdp_mel]; simp [hc.1, hc.2]
  rw [cw_toMel_ok _ (.inl hp) (melOk_after r _ rfl)]
  simp [fin, preTarget, melH_melH, c_mel_mel]

theorem idem_toMel_conv (r r' : Rpu) (h : r.convertWithMode .toMel = .ok r')
    (h2 : r'.convertWithMode .toMel = .ok r') :
    r.header.vdr_rpu_profile = 1 ∧ r.header.vdr_bit_depth_minus8 = 4 := by
  obtain ⟨_, e⟩ := (cw_ok_iff _ _ _).1 h
  obtain ⟨⟨hp, _⟩, _⟩ := (cw_ok_iff _ _ _).1 h2
  subst e
  have e : (fin (preTarget .toMel r)).dovi_profile = (melHeader r.header).getDoviProfile := rfl
  rw [e, gdp_mel] at hp
  by_cases h0 : r.header.vdr_rpu_profile = 0
  · simp [h0] at hp; split at hp <;> omega
  · by_cases h1 : r.header.vdr_rpu_profile = 1
    · by_cases h4 : r.header.vdr_bit_depth_minus8 = 4
      · exact ⟨h1, h4⟩
      · simp [h1, h4] at hp
    · simp [h0, h1] at hp

theorem idem_to81mp (r r' : Rpu) (h : r.convertWithMode .to81MappingPreserved = .ok r')
    (hc : r.header.vdr_rpu_profile = 1) :
    r'.convertWithMode .to81MappingPreserved = .ok r' := by
  obtain ⟨_, e⟩ := (cw_ok_iff _ _ _).1 h
  subst e
  have hp : (fin (preTarget .to81MappingPreserved r)).dovi_profile = 8 := by
    show (p81Header r.header).getDoviProfile = 8
    rw [gdp_p81]; simp [hc]
  rw [cw_to81mp_78 _ (.inr hp)]
  simp [fin, preTarget, p81H_p81H, c_strip_strip, c_set_set]

theorem idem_to81mp_conv (r r' : Rpu) (h : r.convertWithMode .to81MappingPreserved = .ok r')
    (h2 : r'.convertWithMode .to81MappingPreserved = .ok r') : r.header.vdr_rpu_profile = 1 := by
  obtain ⟨_, e⟩ := (cw_ok_iff _ _ _).1 h
  obtain ⟨hp, _⟩ := (cw_ok_iff _ _ _).1 h2
  subst e
  have e : (fin (preTarget .to81MappingPreserved r)).dovi_profile = (p81Header r.header).getDoviProfile := rfl
  simp only [ConvertOk] at hp
  rw [e, gdp_p81] at hp
  by_cases h0 : r.header.vdr_rpu_profile = 0
  · simp [h0] at hp; split at hp <;> omega
  · by_cases h1 : r.header.vdr_rpu_profile = 1
    · exact h1
    · simp [h0, h1] at hp

theorem idem_to81 (r r' : Rpu) (h : r.convertWithMode .to81 = .ok r')
    (hc : r.dovi_profile = 5 ∨ r.header.vdr_rpu_profile = 1) :
    r'.convertWithMode .to81 = .ok r' := by
  obtain ⟨_, e⟩ := (cw_ok_iff _ _ _).1 h
  subst e
  by_cases h5 : r.dovi_profile = 5
  · have hp : (fin (preTarget .to81 r)).dovi_profile = 8 := by
      show (preTarget .to81 r).header.getDoviProfile = 8
      simp [preTarget, h5, gdp_p5]
    rw [cw_to81_78 _ (.inr hp)]
    simp [fin, preTarget, h5, p81H_p5H, c_strip_empty_strip, c_set_set, c_bind_empty_strip]
  · have h1 : r.header.vdr_rpu_profile = 1 := by rcases hc with hc | hc; exact absurd hc h5; exact hc
    have hp : (fin (preTarget .to81 r)).dovi_profile = 8 := by
      show (preTarget .to81 r).header.getDoviProfile = 8
      simp [preTarget, h5, gdp_p81, h1]
    rw [cw_to81_78 _ (.inr hp)]
    by_cases hf : r.el_type = some .fel
    · simp [fin, preTarget, h5, hf, p81H_p81H, c_strip_empty_strip, c_set_set, c_bind_empty_strip]
    · simp [fin, preTarget, h5, hf, p81H_p81H, c_strip_strip, c_set_set, c_bind_strip]

theorem idem_to81_conv (r r' : Rpu) (h : r.convertWithMode .to81 = .ok r')
    (h2 : r'.convertWithMode .to81 = .ok r') : r.dovi_profile = 5 ∨ r.header.vdr_rpu_profile = 1 := by
  obtain ⟨_, e⟩ := (cw_ok_iff _ _ _).1 h
  obtain ⟨hp, e2⟩ := (cw_ok_iff _ _ _).1 h2
  by_cases h5 : r.dovi_profile = 5
  · exact .inl h5
  · refine .inr ?_
    have hh : r'.header = p81Header r.header := by subst e; simp [fin, preTarget, h5]
    have hd : r'.dovi_profile = (p81Header r.header).getDoviProfile := by subst e; simp [fin, preTarget, h5]
    simp only [ConvertOk] at hp
    rw [hd, gdp_p81] at hp
    by_cases h0 : r.header.vdr_rpu_profile = 0
    · -- the result is classified as profile 5: the second conversion rewrites `vdr_rpu_profile`
      have hd5 : r'.dovi_profile = 5 := by
        rw [hd, gdp_p81]; simp only [h0, if_true] at hp ⊢
        by_cases hb : r.header.bl_video_full_range_flag = true
        · simp [hb]
        · simp [hb] at hp
      have e3 := congrArg (fun x => x.header.vdr_rpu_profile) e2
      simp [fin, preTarget, hd5, p5Header, hh, p81Header, h0] at e3
    · by_cases h1 : r.header.vdr_rpu_profile = 1
      · exact h1
      · simp [h0, h1] at hp

theorem idem_iff (m : Mode) (r r' : Rpu) (h : r.convertWithMode m = .ok r') :
    r'.convertWithMode m = .ok r' ↔ IdemCond m r := by
  cases m with
  | lossless => exact ⟨fun _ => trivial, fun _ => idem_lossless r r' h⟩
  | toMel => exact ⟨idem_toMel_conv r r' h, idem_toMel r r' h⟩
  | to81 => exact ⟨idem_to81_conv r r' h, idem_to81 r r' h⟩
  | to84 => exact ⟨fun _ => trivial, fun _ => idem_to84 r r' h⟩
  | to81MappingPreserved => exact ⟨idem_to81mp_conv r r' h, idem_to81mp r r' h⟩

/-! ## the validator (`DoviRpu::validate`) accepts every conversion result of a valid consistent source -/

def hdrProfileOk (h : Header) (p : Nat) : Bool :=
  if p == 5 then h.vdr_rpu_profile == 0 && h.bl_video_full_range_flag
  else if p == 7 then h.vdr_rpu_profile == 1
  else if p == 8 then h.vdr_rpu_profile == 1
  else true

def hdrRest (h : Header) : Bool :=
  h.vdr_rpu_level == 0 && h.bl_bit_depth_minus8 == 2 && h.el_bit_depth_minus8 == 2 &&
  h.vdr_bit_depth_minus8 ≤ 6 && h.coefficient_log2_denom ≤ 23

theorem hv_iff (h : Header) (p : Nat) : h.validate p = true ↔ hdrProfileOk h p = true ∧ hdrRest h = true := by
  simp only [Header.validate, hdrProfileOk, hdrRest, Bool.and_eq_true, and_assoc]

def mapNlqOk (m : Mapping) (p : Nat) : Bool :=
  if p == 5 || p == 8 then
    m.nlq_method_idc.isNone && m.nlq_num_pivots_minus2.isNone && m.nlq_pred_pivot_value.isNone
  else if p == 7 then
    (match m.nlq_pred_pivot_value with
     | some pv => (pv.foldl (· + ·) 0) % 65536 == 1023
     | none => false)
  else true

def mapRest (m : Mapping) : Bool :=
  m.curves.all Curve.piecesOk && m.mapping_color_space == 0 && m.mapping_chroma_format_idc == 0

theorem mv_iff (m : Mapping) (p : Nat) : m.validate p = true ↔ mapNlqOk m p = true ∧ mapRest m = true := by
  simp only [Mapping.validate, mapNlqOk, mapRest, Bool.and_eq_true, and_assoc]
  exact Iff.rfl

theorem rv_iff (r : Rpu) : r.validate = true ↔
    r.header.validate r.dovi_profile = true ∧
    (∀ m, r.rpu_data_mapping = some m → m.validate r.dovi_profile = true) ∧
    (∀ d, r.vdr_dm_data = some d → d.validate = true) := by
  unfold Rpu.validate
  cases r.rpu_data_mapping <;> cases r.vdr_dm_data <;> simp [and_assoc]

theorem dv_setP81 (d : DmData) : d.setP81Coeffs.validate = d.validate := by
  unfold DmData.validate
  rw [setP81_getD d 25 (by omega) (by omega), setP81_getD d 21 (by omega) (by omega),
      setP81_getD d 22 (by omega) (by omega), setP81_getD d 23 (by omega) (by omega),
      setP81_getD d 24 (by omega) (by omega)]
  rfl

theorem dm_valid_map (o : Option DmData) (h : ∀ d, o = some d → d.validate = true) :
    ∀ d, o.map DmData.setP81Coeffs = some d → d.validate = true := by
  intro d hd
  cases o with
  | none => simp at hd
  | some d0 => simp at hd; subst hd; rw [dv_setP81]; exact h d0 rfl

theorem mapRest_strip (m : Mapping) : mapRest (stripNlq m) = mapRest m := rfl
theorem mapRest_mel (m : Mapping) : mapRest (melMapping m) = mapRest m := rfl

theorem mapRest_empty (m : Mapping) (h : mapRest m = true) : mapRest m.setEmptyP81 = true := by
  simp only [mapRest, Bool.and_eq_true] at h ⊢
  refine ⟨⟨?_, h.1.2⟩, h.2⟩
  simp [Mapping.setEmptyP81, List.all_map, Curve.piecesOk, p81PolyCurve]

theorem mapNlqOk_strip8 (m : Mapping) : mapNlqOk (stripNlq m) 8 = true := rfl
theorem mapNlqOk_strip_empty8 (m : Mapping) : mapNlqOk (stripNlq m).setEmptyP81 8 = true := rfl

theorem mapNlqOk_mel (m : Mapping) (p : Nat) (hp : p = 7 ∨ p = 4) : mapNlqOk (melMapping m) p = true := by
  rcases hp with hp | hp <;> subst hp <;> rfl

theorem hdrRest_p84 (h : Header) : hdrRest (p84Header h) = true := by
  simp [hdrRest, p84Header, p8DefaultHeader]

theorem p84_validate : profile84Mapping.validate 8 = true := by decide

/-- the validator accepts the result of every successful conversion of a source it accepts, provided the
source's `dovi_profile` is the one derived from its header -/
theorem validate_preserved (m : Mode) (r r' : Rpu) (h : r.convertWithMode m = .ok r')
    (hv : r.validate = true) (hc : r.dovi_profile = r.header.getDoviProfile) : r'.validate = true := by
  obtain ⟨hok, e⟩ := (cw_ok_iff m r r').1 h
  subst e
  obtain ⟨hH, hM, hD⟩ := (rv_iff r).1 hv
  obtain ⟨hHp, hHr⟩ := (hv_iff _ _).1 hH
  rw [rv_iff]
  cases m with
  | lossless =>
    refine ⟨?_, ?_, hD⟩
    · show r.header.validate r.header.getDoviProfile = true
      rw [← hc]; exact hH
    · show ∀ m, r.rpu_data_mapping = some m → m.validate r.header.getDoviProfile = true
      rw [← hc]; exact hM
  | toMel =>
    have hp : r.header.getDoviProfile = 7 ∨ r.header.getDoviProfile = 8 := by rw [← hc]; exact hok.1
    have h1 : r.header.vdr_rpu_profile = 1 := by
      unfold Header.getDoviProfile at hp
      by_cases h0 : r.header.vdr_rpu_profile = 0
      · simp [h0] at hp; split at hp <;> omega
      · by_cases h1 : r.header.vdr_rpu_profile = 1
        · exact h1
        · simp [h0, h1] at hp
    have hp' : (melHeader r.header).getDoviProfile = 7 ∨ (melHeader r.header).getDoviProfile = 4 := by
      rw [gdp_mel]; simp [h1]; omega
    refine ⟨?_, ?_, hD⟩
    · show (melHeader r.header).validate (melHeader r.header).getDoviProfile = true
      rw [hv_iff]
      refine ⟨?_, hHr⟩
      rcases hp' with hp' | hp' <;> rw [hp'] <;> simp [hdrProfileOk, melHeader, h1]
    · show ∀ m, r.rpu_data_mapping.map melMapping = some m → m.validate (melHeader r.header).getDoviProfile = true
      intro m0 hm0
      cases hq : r.rpu_data_mapping with
      | none => simp [hq] at hm0
      | some m1 =>
        simp [hq] at hm0; subst hm0
        rw [mv_iff]
        exact ⟨mapNlqOk_mel m1 _ hp', ((mv_iff _ _).1 (hM m1 hq)).2⟩
  | to84 =>
    refine ⟨?_, ?_, dm_valid_map _ hD⟩
    · show (p84Header r.header).validate (p84Header r.header).getDoviProfile = true
      rw [gdp_p84, hv_iff]
      exact ⟨by simp [hdrProfileOk, p84Header, p8DefaultHeader], hdrRest_p84 _⟩
    · show ∀ m, some profile84Mapping = some m → m.validate (p84Header r.header).getDoviProfile = true
      intro m0 hm0; cases hm0
      rw [gdp_p84]; exact p84_validate
  | to81MappingPreserved =>
    have hp : r.header.getDoviProfile = 7 ∨ r.header.getDoviProfile = 8 := by rw [← hc]; exact hok
    have h1 : r.header.vdr_rpu_profile = 1 := by
      unfold Header.getDoviProfile at hp
      by_cases h0 : r.header.vdr_rpu_profile = 0
      · simp [h0] at hp; split at hp <;> omega
      · by_cases h1 : r.header.vdr_rpu_profile = 1
        · exact h1
        · simp [h0, h1] at hp
    have hp' : (p81Header r.header).getDoviProfile = 8 := by rw [gdp_p81]; simp [h1]
    refine ⟨?_, ?_, dm_valid_map _ hD⟩
    · show (p81Header r.header).validate (p81Header r.header).getDoviProfile = true
      rw [hp', hv_iff]
      exact ⟨by simp [hdrProfileOk, p81Header, h1], hHr⟩
    · show ∀ m, r.rpu_data_mapping.map stripNlq = some m → m.validate (p81Header r.header).getDoviProfile = true
      intro m0 hm0
      cases hq : r.rpu_data_mapping with
      | none => simp [hq] at hm0
      | some m1 =>
        simp [hq] at hm0; subst hm0
        rw [hp', mv_iff]
        exact ⟨mapNlqOk_strip8 m1, ((mv_iff _ _).1 (hM m1 hq)).2⟩
  | to81 =>
    by_cases h5 : r.dovi_profile = 5
    · refine ⟨?_, ?_, ?_⟩
      · show (preTarget .to81 r).header.validate (preTarget .to81 r).header.getDoviProfile = true
        simp only [preTarget, h5, if_true]
        rw [gdp_p5, hv_iff]
        exact ⟨by simp [hdrProfileOk, p5Header], hHr⟩
      · show ∀ m, (preTarget .to81 r).rpu_data_mapping = some m →
            m.validate (preTarget .to81 r).header.getDoviProfile = true
        simp only [preTarget, h5, if_true]
        intro m0 hm0
        cases hq : r.rpu_data_mapping with
        | none => simp [hq] at hm0
        | some m1 =>
          simp [hq] at hm0; subst hm0
          rw [gdp_p5, mv_iff]
          exact ⟨mapNlqOk_strip_empty8 m1, mapRest_empty _ ((mv_iff _ _).1 (hM m1 hq)).2⟩
      · show ∀ d, (preTarget .to81 r).vdr_dm_data = some d → d.validate = true
        simp only [preTarget, h5, if_true]
        exact dm_valid_map _ hD
    · have h78 : r.dovi_profile = 7 ∨ r.dovi_profile = 8 := by rcases hok with h | h; exact absurd h h5; exact h
      have hp : r.header.getDoviProfile = 7 ∨ r.header.getDoviProfile = 8 := by rw [← hc]; exact h78
      have h1 : r.header.vdr_rpu_profile = 1 := by
        unfold Header.getDoviProfile at hp
        by_cases h0 : r.header.vdr_rpu_profile = 0
        · simp [h0] at hp; split at hp <;> omega
        · by_cases h1 : r.header.vdr_rpu_profile = 1
          · exact h1
          · simp [h0, h1] at hp
      have hp' : (p81Header r.header).getDoviProfile = 8 := by rw [gdp_p81]; simp [h1]
      refine ⟨?_, ?_, ?_⟩
      · show (preTarget .to81 r).header.validate (preTarget .to81 r).header.getDoviProfile = true
        simp only [preTarget, h5, if_false]
        rw [hp', hv_iff]
        exact ⟨by simp [hdrProfileOk, p81Header, h1], hHr⟩
      · show ∀ m, (preTarget .to81 r).rpu_data_mapping = some m →
            m.validate (preTarget .to81 r).header.getDoviProfile = true
        simp only [preTarget, h5, if_false]
        intro m0 hm0
        rw [hp']
        cases hq : r.rpu_data_mapping with
        | none => rw [hq] at hm0; split at hm0 <;> simp at hm0
        | some m1 =>
          rw [hq] at hm0
          have hr := ((mv_iff _ _).1 (hM m1 hq)).2
          split at hm0
          · simp at hm0; subst hm0
            rw [mv_iff]; exact ⟨mapNlqOk_strip_empty8 m1, mapRest_empty _ hr⟩
          · simp at hm0; subst hm0
            rw [mv_iff]; exact ⟨mapNlqOk_strip8 m1, hr⟩
      · show ∀ d, (preTarget .to81 r).vdr_dm_data = some d → d.validate = true
        simp only [preTarget, h5, if_false]
        exact dm_valid_map _ hD

end Dovi.ConvertProof
