import DoviModel.Proofs.HevcGeneral
set_option linter.unusedSimpArgs false
namespace Dovi.Hevc
open Dovi

/-! ### frame buffers -/

theorem withSc_pay (a : Bool) (l : List (Nat × Bytes)) : (withSc a l).map pay = l := by
  cases l with
  | nil => rfl
  | cons x xs => simp [withSc, pay, Function.comp_def]

theorem noFirst_pay (a : Bool) (l : List (Nat × Bytes)) : (noFirst a l).map pay = l := by
  simp [noFirst, pay, Function.comp_def]

theorem pre_post_append (body : List (Nat × Bytes)) : preEos body ++ postEos body = body := by
  unfold preEos postEos
  rw [← List.reverse_append, List.takeWhile_append_dropWhile, List.reverse_reverse]

theorem mem_takeWhile_imp' {α : Type} (p : α → Bool) (l : List α) : ∀ x ∈ l.takeWhile p, p x = true := by
  intro x hx
  induction l with
  | nil => simp at hx
  | cons a l ih =>
    simp only [List.takeWhile_cons] at hx
    split at hx
    · rcases List.mem_cons.mp hx with rfl | h
      · assumption
      · exact ih h
    · simp at hx

theorem postEos_all (body : List (Nat × Bytes)) : ∀ x ∈ postEos body, isEos x.1 = true := by
  intro x hx
  unfold postEos at hx
  rw [List.mem_reverse] at hx
  exact mem_takeWhile_imp' _ _ x hx

theorem preEos_last (body : List (Nat × Bytes)) (x : Nat × Bytes) (h : (preEos body).getLast? = some x) :
    isEos x.1 = false := by
  unfold preEos at h
  rw [List.getLast?_reverse] at h
  have := List.head?_dropWhile_not (fun x : Nat × Bytes => isEos x.1) body.reverse
  rw [h] at this
  simpa using this

theorem framesAux_flatten (cur : Nat) (acc : List Item) (items : List Item) :
    (framesAux cur acc items).flatMap (·.2) = acc.reverse ++ items := by
  induction items generalizing cur acc with
  | nil => simp [framesAux]
  | cons it rest ih =>
    simp only [framesAux]
    split
    · rw [ih]; simp
    · simp [List.flatMap_cons, ih]

/-- the frame buffers hold every NAL once, in stream order -/
theorem frames_flatten (items : List Item) : (frames items).flatMap (·.2) = items := by
  simpa [frames] using framesAux_flatten 0 [] items

theorem framesAux_ne_nil (cur : Nat) (acc items : List Item) : framesAux cur acc items ≠ [] := by
  induction items generalizing cur acc with
  | nil => simp [framesAux]
  | cons it rest ih => simp only [framesAux]; split <;> simp [ih]

theorem seiStage_false (items : List Item) : seiStage false items = some items := by
  induction items with
  | nil => rfl
  | cons it rest ih => simp [seiStage, ih]

/-! ### inject-rpu -/

/-- the NALs of a frame buffer other than its RPU -/
def injBody0 (fr : Nat × List Item) : List (Nat × Bytes) :=
  (fr.2.filter (fun it => it.typ ≠ NAL_UNSPEC62)).map payI

/-- … led by the regenerated AUD unless --no-add-aud -/
def injBody (c : ICfg) (aud : Nat → Bytes) (fr : Nat × List Item) : List (Nat × Bytes) :=
  if c.noAddAud then injBody0 fr else (NAL_AUD, aud fr.1) :: injBody0 fr

/-- the frame as written, given its RPU -/
def frameOut (c : ICfg) (aud : Nat → Bytes) (r : Bytes) (fr : Nat × List Item) : List Out :=
  withSc c.annexb (preEos (injBody c aud fr) ++ (NAL_UNSPEC62, r) :: postEos (injBody c aud fr))

theorem dropWhile_eq_nil_iff' {α : Type} (p : α → Bool) (l : List α) : l.dropWhile p = [] ↔ ∀ x ∈ l, p x = true := by
  induction l with
  | nil => simp
  | cons a l ih =>
    simp only [List.dropWhile_cons]
    split
    · rename_i h; simp [ih, h]
    · rename_i h; simp [h]

theorem preEos_ne_nil_iff (l : List (Nat × Bytes)) : preEos l ≠ [] ↔ ∃ y ∈ l, isEos y.1 = false := by
  unfold preEos
  rw [Ne, List.reverse_eq_nil_iff, dropWhile_eq_nil_iff']
  constructor
  · intro h
    apply Classical.byContradiction
    intro hn
    apply h
    intro x hx
    rw [List.mem_reverse] at hx
    cases hx' : isEos x.1 with
    | true => rfl
    | false => exact absurd ⟨x, hx, hx'⟩ hn
  · rintro ⟨y, hy, hye⟩ h
    have := h y (by simpa using hy)
    simp [hye] at this

theorem injectFrame_eq (c : ICfg) (aud : Nat → Bytes) (pres : Nat → Nat) (nFrames : Nat) (rpus : List Bytes) (mm : Bool)
    (last : Option Bytes) (final : Bool) (fr : Nat × List Item) (r : Bytes) (hlt : fr.1 < nFrames)
    (hr : rpus[pres fr.1]? = some r) (hb : preEos (injBody0 fr) ≠ []) :
    injectFrame c aud pres nFrames rpus mm last final fr = some (frameOut c aud r fr, some r) := by
  have hb0 : injBody0 fr ≠ [] := by
    intro h; rw [h] at hb; simp [preEos] at hb
  have hpre : preEos (injBody c aud fr) ≠ [] := by
    rw [preEos_ne_nil_iff] at hb ⊢
    obtain ⟨y, hy, hye⟩ := hb
    refine ⟨y, ?_, hye⟩
    unfold injBody; split
    · exact hy
    · exact List.mem_cons_of_mem _ hy
  unfold injectFrame
  simp only [if_pos hlt, hr]
  have e0 : (List.map payI (List.filter (fun it => decide (it.typ ≠ NAL_UNSPEC62)) fr.2)) = injBody0 fr := rfl
  rw [e0]
  rw [if_neg (by intro h; rcases h.2 with h | h; exact absurd h (by omega); exact hb0 h)]
  rw [if_neg (by intro h; have := h.2; omega)]
  have e1 : (if c.noAddAud = true then injBody0 fr else (NAL_AUD, aud fr.1) :: injBody0 fr) = injBody c aud fr := rfl
  simp only [e1]
  rw [if_neg hpre]
  rfl

theorem injectGo_matched (c : ICfg) (aud : Nat → Bytes) (pres : Nat → Nat) (nFrames : Nat) (rpus : List Bytes) (mm : Bool)
    (last : Option Bytes) (frs : List (Nat × List Item)) (hlt : ∀ fr ∈ frs, fr.1 < nFrames)
    (hr : ∀ fr ∈ frs, pres fr.1 < rpus.length) (hb : ∀ fr ∈ frs, preEos (injBody0 fr) ≠ []) :
    injectGo c aud pres nFrames rpus mm last frs =
      some (frs.flatMap (fun fr => frameOut c aud (rpus.getD (pres fr.1) []) fr)) := by
  induction frs generalizing last with
  | nil => rfl
  | cons fr rest ih =>
    have hfr : rpus[pres fr.1]? = some (rpus.getD (pres fr.1) []) := by
      have := hr fr (by simp)
      simp [List.getD, List.getElem?_eq_getElem this]
    cases rest with
    | nil =>
      simp only [injectGo, injectFrame_eq c aud pres nFrames rpus mm last true fr _ (hlt fr (by simp)) hfr (hb fr (by simp))]
      simp
    | cons fr2 rest2 =>
      simp only [injectGo, injectFrame_eq c aud pres nFrames rpus mm last false fr _ (hlt fr (by simp)) hfr (hb fr (by simp))]
      rw [ih _ (fun x hx => hlt x (by simp [hx])) (fun x hx => hr x (by simp [hx])) (fun x hx => hb x (by simp [hx]))]
      simp

/-- existing AUDs are ignored altogether when AUDs are regenerated -/
def keepAud (c : ICfg) (items : List Item) : List Item :=
  if c.noAddAud then items else items.filter (fun it => it.typ ≠ NAL_AUD)

theorem keepAud_subset (c : ICfg) (items : List Item) : ∀ it ∈ keepAud c items, it ∈ items := by
  intro it h
  unfold keepAud at h
  split at h
  · exact h
  · exact (List.mem_filter.mp h).1

theorem keepAud_append (c : ICfg) (a b : List Item) : keepAud c (a ++ b) = keepAud c a ++ keepAud c b := by
  unfold keepAud; split <;> simp

/-- the number of a frame buffer is 0 (the initial buffer) or the label of a NAL -/
theorem framesAux_label (cur : Nat) (acc items : List Item) :
    ∀ fr ∈ framesAux cur acc items, fr.1 = cur ∨ ∃ it ∈ items, it.au = fr.1 := by
  induction items generalizing cur acc with
  | nil => intro fr h; simp [framesAux] at h; left; rw [h]
  | cons it rest ih =>
    intro fr h
    simp only [framesAux] at h
    split at h
    · rcases ih cur (it :: acc) fr h with h1 | ⟨x, hx, hxe⟩
      · exact Or.inl h1
      · exact Or.inr ⟨x, List.mem_cons_of_mem _ hx, hxe⟩
    · rcases List.mem_cons.mp h with rfl | h
      · exact Or.inl rfl
      · rcases ih it.au [it] fr h with h1 | ⟨x, hx, hxe⟩
        · exact Or.inr ⟨it, by simp, h1.symm⟩
        · exact Or.inr ⟨x, List.mem_cons_of_mem _ hx, hxe⟩

/-- in a stream whose every NAL belongs to a frame (label below the frame count), every frame buffer carries the
number of a frame -/
theorem frames_label_lt (n : Nat) (items : List Item) (hn : n ≠ 0) (h : ∀ it ∈ items, it.au < n) :
    ∀ fr ∈ frames items, fr.1 < n := by
  intro fr hfr
  rcases framesAux_label 0 [] items fr hfr with h0 | ⟨x, hx, hxe⟩
  · omega
  · rw [← hxe]; exact h x hx

/-- inject-rpu with a list that covers every frame (frame-buffer form of the hypothesis) -/
theorem inject_matched_frames (c : ICfg) (aud : Nat → Bytes) (pres : Nat → Nat) (nFrames : Nat) (rpus : List Bytes)
    (items : List Item) (hd : c.drop = false) (hn : nFrames ≠ 0) (hi : items ≠ [])
    (hlt : ∀ fr ∈ frames (keepAud c items), fr.1 < nFrames)
    (hr : ∀ fr ∈ frames (keepAud c items), pres fr.1 < rpus.length)
    (hb : ∀ fr ∈ frames (keepAud c items), preEos (injBody0 fr) ≠ []) :
    inject c aud pres nFrames rpus items =
      some ((frames (keepAud c items)).flatMap (fun fr => frameOut c aud (rpus.getD (pres fr.1) []) fr)) := by
  unfold inject
  rw [if_neg (by simp [hn, hi]), hd, seiStage_false]
  simp only
  exact injectGo_matched c aud pres nFrames rpus _ none _ hlt hr hb

/-- inject-rpu with a list that covers every frame: frame by frame, the RPU of the frame's presentation
number behind the last NAL that is not EOS/EOB — for a stream whose every NAL belongs to a frame -/
theorem inject_matched (c : ICfg) (aud : Nat → Bytes) (pres : Nat → Nat) (nFrames : Nat) (rpus : List Bytes)
    (items : List Item) (hd : c.drop = false) (hn : nFrames ≠ 0) (hi : items ≠ [])
    (hfr : ∀ it ∈ items, it.au < nFrames)
    (hr : ∀ fr ∈ frames (keepAud c items), pres fr.1 < rpus.length)
    (hb : ∀ fr ∈ frames (keepAud c items), preEos (injBody0 fr) ≠ []) :
    inject c aud pres nFrames rpus items =
      some ((frames (keepAud c items)).flatMap (fun fr => frameOut c aud (rpus.getD (pres fr.1) []) fr)) :=
  inject_matched_frames c aud pres nFrames rpus items hd hn hi
    (frames_label_lt nFrames _ hn (fun it h => hfr it (keepAud_subset c items it h))) hr hb

theorem injBody0_no_rpu (fr : Nat × List Item) : ∀ x ∈ injBody0 fr, x.1 ≠ NAL_UNSPEC62 := by
  intro x hx
  simp only [injBody0, List.mem_map, List.mem_filter] at hx
  obtain ⟨it, ⟨_, h⟩, rfl⟩ := hx
  simpa [payI] using h

theorem filter_pay_of_reject (q : Nat → Bool) (t : Nat) (hq : q t = false) (l : List Item) :
    ((l.filter (fun it => it.typ ≠ t)).map payI).filter (fun x => q x.1) = (l.map payI).filter (fun x => q x.1) := by
  induction l with
  | nil => rfl
  | cons it rest ih =>
    by_cases h : it.typ = t
    · have e : decide (it.typ ≠ t) = false := by simp [h]
      have e2 : q (payI it).1 = false := by simp [payI, h, hq]
      simp only [List.filter_cons, e, Bool.false_eq_true, if_false, List.map_cons, e2, ih]
    · have e : decide (it.typ ≠ t) = true := by simp [h]
      simp only [List.filter_cons, e, if_true, List.map_cons, ih]

theorem filter_injBody0 (q : Nat → Bool) (hq : q NAL_UNSPEC62 = false) (fr : Nat × List Item) :
    (injBody0 fr).filter (fun x => q x.1) = (fr.2.map payI).filter (fun x => q x.1) := by
  exact filter_pay_of_reject q NAL_UNSPEC62 hq fr.2

theorem filter_frameOut (q : Nat → Bool) (hq : q NAL_UNSPEC62 = false) (c : ICfg) (aud : Nat → Bytes)
    (r : Bytes) (fr : Nat × List Item) (ha : c.noAddAud = true ∨ q NAL_AUD = false) :
    ((frameOut c aud r fr).map pay).filter (fun x => q x.1) = (fr.2.map payI).filter (fun x => q x.1) := by
  unfold frameOut
  rw [withSc_pay, List.filter_append, List.filter_cons]
  simp only [hq, Bool.false_eq_true, if_false]
  rw [← List.filter_append, pre_post_append, ← filter_injBody0 q hq]
  unfold injBody
  split
  · rfl
  · rename_i h
    rcases ha with ha | ha
    · exact absurd ha h
    · simp [List.filter_cons, ha]

theorem flatMap_filter_pay {α : Type} (q : Nat → Bool) (f g : α → List (Nat × Bytes)) (l : List α)
    (h : ∀ a ∈ l, (f a).filter (fun x => q x.1) = (g a).filter (fun x => q x.1)) :
    (l.flatMap f).filter (fun x => q x.1) = (l.flatMap g).filter (fun x => q x.1) := by
  induction l with
  | nil => rfl
  | cons a l ih =>
    simp only [List.flatMap_cons, List.filter_append]
    rw [h a (by simp), ih (fun b hb => h b (by simp [hb]))]

/-- inject-rpu leaves every other NAL of the video unchanged and in order: any class of NAL types that
excludes the RPUs (and the AUDs, unless --no-add-aud) reads the same before and after -/
theorem inject_conserves (c : ICfg) (aud : Nat → Bytes) (pres : Nat → Nat) (rpus : List Bytes)
    (items : List Item) (q : Nat → Bool) (hq : q NAL_UNSPEC62 = false)
    (ha : c.noAddAud = true ∨ q NAL_AUD = false) :
    (((frames (keepAud c items)).flatMap (fun fr => frameOut c aud (rpus.getD (pres fr.1) []) fr)).map pay).filter
        (fun x => q x.1) = (items.map payI).filter (fun x => q x.1) := by
  rw [List.map_flatMap]
  rw [flatMap_filter_pay q _ (fun fr => fr.2.map payI) _ (fun fr _ => filter_frameOut q hq c aud _ fr ha)]
  rw [← List.map_flatMap, frames_flatten]
  unfold keepAud
  split
  · rfl
  · rename_i h
    rcases ha with ha | ha
    · exact absurd ha h
    · exact filter_pay_of_reject q NAL_AUD ha items

/-- every written frame carries exactly one RPU: the RPUs of the output, in stream order, are those of the
frames' presentation numbers -/
theorem inject_rpus (c : ICfg) (aud : Nat → Bytes) (pres : Nat → Nat) (rpus : List Bytes) (frs : List (Nat × List Item)) :
    ((frs.flatMap (fun fr => frameOut c aud (rpus.getD (pres fr.1) []) fr)).map pay).filter
        (fun x => x.1 == NAL_UNSPEC62) = frs.map (fun fr => (NAL_UNSPEC62, rpus.getD (pres fr.1) [])) := by
  induction frs with
  | nil => rfl
  | cons fr rest ih =>
    simp only [List.flatMap_cons, List.map_append, List.filter_append, List.map_cons]
    rw [ih]
    have : ((frameOut c aud (rpus.getD (pres fr.1) []) fr).map pay).filter (fun x => x.1 == NAL_UNSPEC62)
        = [(NAL_UNSPEC62, rpus.getD (pres fr.1) [])] := by
      unfold frameOut
      rw [withSc_pay, List.filter_append, List.filter_cons]
      have hno : ∀ x ∈ injBody c aud fr, (x.1 == NAL_UNSPEC62) = false := by
        intro x hx
        unfold injBody at hx
        split at hx
        · simpa using injBody0_no_rpu fr x hx
        · rcases List.mem_cons.mp hx with rfl | hx
          · show (NAL_AUD == NAL_UNSPEC62) = false
            decide
          · simpa using injBody0_no_rpu fr x hx
      have h1 : (preEos (injBody c aud fr)).filter (fun x => x.1 == NAL_UNSPEC62) = [] := by
        rw [List.filter_eq_nil_iff]
        intro x hx
        have : x ∈ injBody c aud fr := by rw [← pre_post_append (injBody c aud fr)]; exact List.mem_append_left _ hx
        simp [hno x this]
      have h2 : (postEos (injBody c aud fr)).filter (fun x => x.1 == NAL_UNSPEC62) = [] := by
        rw [List.filter_eq_nil_iff]
        intro x hx
        have : x ∈ injBody c aud fr := by rw [← pre_post_append (injBody c aud fr)]; exact List.mem_append_right _ hx
        simp [hno x this]
      simp [h1, h2]
    rw [this]; rfl

/-! ### NALs behind the last slice: labelled with the frame count, left to `finalize`, not written -/

theorem framesAux_same (cur : Nat) (acc l : List Item) (h : ∀ it ∈ l, it.au = cur) :
    framesAux cur acc l = [(cur, acc.reverse ++ l)] := by
  induction l generalizing acc with
  | nil => simp [framesAux]
  | cons it rest ih =>
    simp only [framesAux, h it (by simp), if_true]
    rw [ih (it :: acc) (fun x hx => h x (by simp [hx]))]
    simp

/-- NALs labelled `n` behind NALs with labels below `n` form one more frame buffer, the last -/
theorem framesAux_append_tail (n cur : Nat) (acc a t : List Item) (hcur : cur < n) (ha : ∀ it ∈ a, it.au < n)
    (ht : ∀ it ∈ t, it.au = n) (hne : t ≠ []) :
    framesAux cur acc (a ++ t) = framesAux cur acc a ++ [(n, t)] := by
  induction a generalizing cur acc with
  | nil =>
    cases t with
    | nil => exact absurd rfl hne
    | cons x t' =>
      have hx : x.au = n := ht x (by simp)
      simp only [List.nil_append, framesAux]
      rw [if_neg (by omega), hx, framesAux_same n [x] t' (fun y hy => ht y (by simp [hy]))]
      simp
  | cons it rest ih =>
    simp only [List.cons_append, framesAux]
    split
    · rw [ih cur (it :: acc) hcur (fun x hx => ha x (by simp [hx]))]
    · rw [ih it.au [it] (ha it (by simp)) (fun x hx => ha x (by simp [hx]))]
      simp

theorem frames_append_tail (n : Nat) (a t : List Item) (hn : n ≠ 0) (ha : ∀ it ∈ a, it.au < n)
    (ht : ∀ it ∈ t, it.au = n) (hne : t ≠ []) : frames (a ++ t) = frames a ++ [(n, t)] :=
  framesAux_append_tail n 0 [] a t (by omega) ha ht hne

/-- a last frame buffer numbered `nFrames` is not written, and the buffer in front of it — closed by its first
NAL instead of by `finalize` — is written as it would be without it when it holds a NAL -/
theorem injectGo_append_dropped (c : ICfg) (aud : Nat → Bytes) (pres : Nat → Nat) (nFrames : Nat) (rpus : List Bytes)
    (mm : Bool) (last : Option Bytes) (frs : List (Nat × List Item)) (g : List Item) (hne : frs ≠ [])
    (hlast : ∀ fr, frs.getLast? = some fr → fr.1 ≠ nFrames ∧ injBody0 fr ≠ []) :
    injectGo c aud pres nFrames rpus mm last (frs ++ [(nFrames, g)]) = injectGo c aud pres nFrames rpus mm last frs := by
  induction frs generalizing last with
  | nil => exact absurd rfl hne
  | cons fr rest ih =>
    cases rest with
    | nil =>
      obtain ⟨h1, h2⟩ := hlast fr (by simp)
      have hf : injectFrame c aud pres nFrames rpus mm last false fr = injectFrame c aud pres nFrames rpus mm last true fr := by
        unfold injectFrame
        have e0 : (List.map payI (List.filter (fun it => decide (it.typ ≠ NAL_UNSPEC62)) fr.2)) = injBody0 fr := rfl
        simp only [e0]
        have n2 : ¬ (True ∧ (fr.1 = nFrames ∨ injBody0 fr = [])) := by
          intro h; rcases h.2 with h | h
          · exact h1 h
          · exact h2 h
        rw [if_neg n2, if_neg (by simp : ¬ (false = true ∧ (fr.1 = nFrames ∨ injBody0 fr = [])))]
      simp only [List.cons_append, List.nil_append, injectGo, hf]
      cases injectFrame c aud pres nFrames rpus mm last true fr with
      | none => rfl
      | some p =>
        obtain ⟨o, l'⟩ := p
        simp [injectFrame]
    | cons fr2 rest2 =>
      have ih' := fun l => ih l (by simp) (by
        intro f hf; apply hlast f; simpa [List.getLast?_cons_cons] using hf)
      simp only [List.cons_append, injectGo] at ih' ⊢
      cases injectFrame c aud pres nFrames rpus mm last false fr with
      | none => rfl
      | some p =>
        obtain ⟨o, l'⟩ := p
        simp only
        rw [ih' l']

/-- **inject-rpu drops the NALs behind the last slice.**  `tail`: NALs labelled with the frame count (what
hevc_parser gives an AUD, prefix SEI, VPS/SPS/PPS … that follows the last slice of the stream), behind a stream
`items` whose every NAL belongs to a frame and whose last frame buffer holds a NAL other than an RPU.  The command
writes what it writes for `items` alone: no NAL of `tail`, no RPU for it. -/
theorem inject_trailing_dropped (c : ICfg) (aud : Nat → Bytes) (pres : Nat → Nat) (nFrames : Nat) (rpus : List Bytes)
    (items tail : List Item) (hd : c.drop = false) (hfr : ∀ it ∈ items, it.au < nFrames)
    (htail : ∀ it ∈ tail, it.au = nFrames)
    (hlast : ∀ fr, (frames (keepAud c items)).getLast? = some fr → injBody0 fr ≠ []) :
    inject c aud pres nFrames rpus (items ++ tail) = inject c aud pres nFrames rpus items := by
  by_cases hn : nFrames = 0
  · simp [inject, hn]
  by_cases hi : items = []
  · -- no NAL in front: the last (and only) buffer of `items` is the empty initial one
    subst hi
    have := hlast (0, []) (by simp [keepAud, frames, framesAux])
    exact absurd rfl this
  have hi2 : items ++ tail ≠ [] := by simp [hi]
  unfold inject
  rw [if_neg (by simp [hn, hi]), if_neg (by simp [hn, hi]), hd, seiStage_false, seiStage_false]
  simp only
  have e1 : (if c.noAddAud = true then items ++ tail else (items ++ tail).filter (fun it => it.typ ≠ NAL_AUD))
      = keepAud c items ++ keepAud c tail := by rw [← keepAud_append]; rfl
  have e2 : (if c.noAddAud = true then items else items.filter (fun it => it.typ ≠ NAL_AUD)) = keepAud c items := rfl
  rw [e1, e2]
  by_cases ht : keepAud c tail = []
  · rw [ht, List.append_nil]
  · rw [frames_append_tail nFrames _ _ hn (fun it h => hfr it (keepAud_subset c items it h))
      (fun it h => htail it (keepAud_subset c tail it h)) ht]
    apply injectGo_append_dropped
    · exact framesAux_ne_nil 0 [] _
    · intro fr hfr'
      refine ⟨?_, hlast fr hfr'⟩
      have := frames_label_lt nFrames _ hn (fun it h => hfr it (keepAud_subset c items it h)) fr (List.mem_of_getLast? hfr')
      omega

end Dovi.Hevc
