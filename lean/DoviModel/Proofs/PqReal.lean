import Mathlib.Analysis.SpecialFunctions.Pow.Real
import DoviModel.Proofs.PqCert
/-!
# SMPTE ST 2084 (PQ) over the reals — property C19

`nitsToPq`, `pqToNits` are `dolby_vision/src/utils.rs` `nits_to_pq`, `pq_to_nits` with `f64` replaced by `ℝ`
(`powf` = `Real.rpow`; `0^m1 = 0` on both sides).  This file proves monotonicity, the two inverse laws, the
end points, and the *lifting lemmas* that turn a successful integer certificate check of `Model/PqTable.lean`
into a real inequality about `nitsToPq`.

Single Mathlib module imported (and what it pulls); the model driver never imports this file.
-/

noncomputable section
namespace Dovi.Pq
open Dovi.PqTable

/-! ## The definitions, as in `utils.rs` -/

def yMax : ℝ := 10000
def m1 : ℝ := 2610 / 16384
def m2 : ℝ := 2523 / 4096 * 128
def c1 : ℝ := 3424 / 4096
def c2 : ℝ := 2413 / 4096 * 32
def c3 : ℝ := 2392 / 4096 * 32

/-- `pq_to_nits`.  `den.max(f64::NEG_INFINITY)` is the identity on numbers and is dropped. -/
def pqToNits (x : ℝ) : ℝ :=
  if x > 0 then
    (max (x ^ (1 / m2) - c1) 0 / (c2 - c3 * x ^ (1 / m2))) ^ (1 / m1) * yMax
  else 0

/-- `nits_to_pq` -/
def nitsToPq (nits : ℝ) : ℝ :=
  ((c1 + c2 * (nits / yMax) ^ m1) / (1 + c3 * (nits / yMax) ^ m1)) ^ m2

/-- the rational (Möbius) step between the two powers -/
def mob (t : ℝ) : ℝ := (c1 + c2 * t) / (1 + c3 * t)

theorem nitsToPq_eq (v : ℝ) : nitsToPq v = mob ((v / 10000) ^ m1) ^ m2 := rfl

/-! ## Constants -/

theorem m1_eq : m1 = 1305 / 8192 := by unfold m1; norm_num
theorem m2_eq : m2 = 2523 / 32 := by unfold m2; norm_num
theorem c1_eq : c1 = 107 / 128 := by unfold c1; norm_num
theorem c2_eq : c2 = 2413 / 128 := by unfold c2; norm_num
theorem c3_eq : c3 = 2392 / 128 := by unfold c3; norm_num

/-- the rationals written in `Model/PqTable.lean` are these constants -/
theorem table_constants :
    m1 = (PqTable.m1.1 : ℝ) / PqTable.m1.2 ∧ m2 = (PqTable.m2.1 : ℝ) / PqTable.m2.2 ∧
    c1 = (PqTable.c1.1 : ℝ) / PqTable.c1.2 ∧ c2 = (PqTable.c2.1 : ℝ) / PqTable.c2.2 ∧
    c3 = (PqTable.c3.1 : ℝ) / PqTable.c3.2 := by
  simp only [PqTable.m1, PqTable.m2, PqTable.c1, PqTable.c2, PqTable.c3, m1_eq, m2_eq, c1_eq, c2_eq, c3_eq]
  norm_num

theorem m1_pos : 0 < m1 := by rw [m1_eq]; norm_num
theorem m2_pos : 0 < m2 := by rw [m2_eq]; norm_num
theorem c1_pos : 0 < c1 := by rw [c1_eq]; norm_num
theorem c2_pos : 0 < c2 := by rw [c2_eq]; norm_num
theorem c3_pos : 0 < c3 := by rw [c3_eq]; norm_num

/-! ## The Möbius step -/

theorem mob_den_pos {t : ℝ} (ht : 0 ≤ t) : 0 < 1 + c3 * t := by
  have := c3_pos; nlinarith

theorem mob_pos {t : ℝ} (ht : 0 ≤ t) : 0 < mob t := by
  unfold mob
  apply div_pos _ (mob_den_pos ht)
  have := c1_pos; have := c2_pos; nlinarith

theorem mob_strictMono {s t : ℝ} (hs : 0 ≤ s) (hst : s < t) : mob s < mob t := by
  unfold mob
  have h1 := mob_den_pos hs
  have h2 := mob_den_pos (hs.trans hst.le)
  rw [div_lt_div_iff₀ h1 h2]
  have hk : c1 * c3 < c2 := by rw [c1_eq, c2_eq, c3_eq]; norm_num
  nlinarith

theorem mob_mono {s t : ℝ} (hs : 0 ≤ s) (hst : s ≤ t) : mob s ≤ mob t := by
  rcases hst.lt_or_eq with h | h
  · exact (mob_strictMono hs h).le
  · exact (congrArg mob h).le

theorem mob_zero : mob 0 = c1 := by unfold mob; simp

theorem mob_one : mob 1 = 1 := by
  unfold mob; rw [c1_eq, c2_eq, c3_eq]; norm_num

/-- `mob t` as a quotient of the integer expressions used by the checkers -/
theorem mob_dyadic (a : ℕ) : mob ((a : ℝ) / 2 ^ KT) = (gNum a : ℝ) / (gDen a : ℝ) := by
  have hp : (0 : ℝ) < 2 ^ KT := by positivity
  unfold mob gNum gDen
  rw [c1_eq, c2_eq, c3_eq]
  push_cast
  rw [div_eq_div_iff (by positivity) (by positivity)]
  field_simp

/-! ## Monotonicity of `nitsToPq` -/

theorem nitsToPq_pos {v : ℝ} (hv : 0 ≤ v) : 0 < nitsToPq v := by
  rw [nitsToPq_eq]
  exact Real.rpow_pos_of_pos (mob_pos (Real.rpow_nonneg (by positivity) _)) _

theorem nitsToPq_strictMono {a b : ℝ} (ha : 0 ≤ a) (hab : a < b) : nitsToPq a < nitsToPq b := by
  rw [nitsToPq_eq, nitsToPq_eq]
  have ha' : (0 : ℝ) ≤ a / 10000 := by positivity
  have hab' : a / 10000 < b / 10000 := by linarith
  have hpow := Real.rpow_lt_rpow ha' hab' m1_pos
  have h0 := Real.rpow_nonneg ha' m1
  exact Real.rpow_lt_rpow (mob_pos h0).le (mob_strictMono h0 hpow) m2_pos

theorem nitsToPq_mono {a b : ℝ} (ha : 0 ≤ a) (hab : a ≤ b) : nitsToPq a ≤ nitsToPq b := by
  rcases hab.lt_or_eq with h | h
  · exact (nitsToPq_strictMono ha h).le
  · exact (congrArg nitsToPq h).le

/-- order reflection: the contrapositive of monotonicity, used to locate `pqToNits` values -/
theorem lt_of_nitsToPq_lt {a b : ℝ} (hb : 0 ≤ b) (h : nitsToPq a < nitsToPq b) : a < b := by
  by_contra hn
  exact absurd (nitsToPq_mono hb (not_lt.mp hn)) (not_le.mpr h)

theorem nitsToPq_zero : nitsToPq 0 = c1 ^ m2 := by
  rw [nitsToPq_eq]
  have : ((0 : ℝ) / 10000) ^ m1 = 0 := by
    rw [zero_div]; exact Real.zero_rpow m1_pos.ne'
  rw [this, mob_zero]

theorem nitsToPq_yMax : nitsToPq 10000 = 1 := by
  rw [nitsToPq_eq]
  have : ((10000 : ℝ) / 10000) ^ m1 = 1 := by
    rw [div_self (by norm_num)]; exact Real.one_rpow _
  rw [this, mob_one, Real.one_rpow]

/-! ## Inverse laws -/

theorem rpow_m2_inv {g : ℝ} (hg : 0 ≤ g) : (g ^ m2) ^ (1 / m2) = g := by
  rw [← Real.rpow_mul hg, mul_one_div_cancel m2_pos.ne', Real.rpow_one]

theorem rpow_inv_m2 {x : ℝ} (hx : 0 ≤ x) : (x ^ (1 / m2)) ^ m2 = x := by
  rw [← Real.rpow_mul hx, one_div_mul_cancel m2_pos.ne', Real.rpow_one]

theorem rpow_m1_inv {y : ℝ} (hy : 0 ≤ y) : (y ^ m1) ^ (1 / m1) = y := by
  rw [← Real.rpow_mul hy, mul_one_div_cancel m1_pos.ne', Real.rpow_one]

theorem rpow_inv_m1 {r : ℝ} (hr : 0 ≤ r) : (r ^ (1 / m1)) ^ m1 = r := by
  rw [← Real.rpow_mul hr, one_div_mul_cancel m1_pos.ne', Real.rpow_one]

/-- nits → PQ → nits is the identity on every non-negative luminance -/
theorem pqToNits_nitsToPq {v : ℝ} (hv : 0 ≤ v) : pqToNits (nitsToPq v) = v := by
  have hy : (0 : ℝ) ≤ v / 10000 := by positivity
  have ht : 0 ≤ (v / 10000) ^ m1 := Real.rpow_nonneg hy _
  have hg := mob_pos ht
  have hP := nitsToPq_pos hv
  unfold pqToNits
  rw [if_pos hP, nitsToPq_eq, rpow_m2_inv hg.le]
  set t := (v / 10000) ^ m1 with htdef
  have hd := mob_den_pos ht
  have hk : c1 * c3 < c2 := by rw [c1_eq, c2_eq, c3_eq]; norm_num
  -- g (1 + c3 t) = c1 + c2 t
  have hgdef : mob t * (1 + c3 * t) = c1 + c2 * t := by
    unfold mob; exact div_mul_cancel₀ _ hd.ne'
  have hnum : mob t - c1 = t * (c2 - c3 * mob t) := by linear_combination hgdef
  have hden : 0 < c2 - c3 * mob t := by
    have : (c2 - c3 * mob t) * (1 + c3 * t) = c2 - c1 * c3 := by
      linear_combination (-c3) * hgdef
    have h2 : 0 < (c2 - c3 * mob t) * (1 + c3 * t) := by rw [this]; linarith
    exact (pos_iff_pos_of_mul_pos h2).mpr hd
  have hge : 0 ≤ mob t - c1 := by rw [hnum]; exact mul_nonneg ht hden.le
  rw [max_eq_left hge, hnum, mul_div_assoc, div_self hden.ne', mul_one, htdef, rpow_m1_inv hy]
  unfold yMax
  field_simp

/-- the range of PQ values on which the clamp `max(.., 0)` of `pq_to_nits` is inactive -/
theorem inv_range {x : ℝ} (hlo : c1 ^ m2 ≤ x) (hhi : x ≤ 1) :
    0 < x ∧ c1 ≤ x ^ (1 / m2) ∧ x ^ (1 / m2) ≤ 1 := by
  have hc : 0 < c1 ^ m2 := Real.rpow_pos_of_pos c1_pos _
  have hx : 0 < x := lt_of_lt_of_le hc hlo
  refine ⟨hx, ?_, ?_⟩
  · have := Real.rpow_le_rpow hc.le hlo (one_div_pos.mpr m2_pos).le
    rwa [rpow_m2_inv c1_pos.le] at this
  · have := Real.rpow_le_rpow hx.le hhi (one_div_pos.mpr m2_pos).le
    rwa [Real.one_rpow] at this

theorem pqToNits_nonneg {x : ℝ} (hhi : x ≤ 1) : 0 ≤ pqToNits x := by
  unfold pqToNits
  split_ifs with hx
  · have hxp : x ^ (1 / m2) ≤ 1 := by
      have := Real.rpow_le_rpow hx.le hhi (one_div_pos.mpr m2_pos).le
      rwa [Real.one_rpow] at this
    have hden : 0 < c2 - c3 * x ^ (1 / m2) := by
      have : c3 < c2 := by rw [c2_eq, c3_eq]; norm_num
      have := c3_pos; nlinarith
    have : 0 ≤ max (x ^ (1 / m2) - c1) 0 / (c2 - c3 * x ^ (1 / m2)) :=
      div_nonneg (le_max_right _ _) hden.le
    have h2 := Real.rpow_nonneg this (1 / m1)
    unfold yMax; positivity
  · exact le_refl _

/-- PQ → nits → PQ is the identity on `[c1^m2, 1]` (below `c1^m2 ≈ 7.3·10⁻⁷` the real code clamps to 0 nits) -/
theorem nitsToPq_pqToNits {x : ℝ} (hlo : c1 ^ m2 ≤ x) (hhi : x ≤ 1) : nitsToPq (pqToNits x) = x := by
  obtain ⟨hx, h1, h2⟩ := inv_range hlo hhi
  unfold pqToNits
  rw [if_pos hx]
  set xp := x ^ (1 / m2) with hxp
  have hc32 : c3 < c2 := by rw [c2_eq, c3_eq]; norm_num
  have hden : 0 < c2 - c3 * xp := by have := c3_pos; nlinarith
  have hnum : 0 ≤ xp - c1 := by linarith
  rw [max_eq_left hnum]
  have hr : 0 ≤ (xp - c1) / (c2 - c3 * xp) := div_nonneg hnum hden.le
  rw [nitsToPq_eq]
  have e1 : ((xp - c1) / (c2 - c3 * xp)) ^ (1 / m1) * yMax / 10000 = ((xp - c1) / (c2 - c3 * xp)) ^ (1 / m1) := by
    unfold yMax; field_simp
  rw [e1, rpow_inv_m1 hr]
  have hk : c1 * c3 < c2 := by rw [c1_eq, c2_eq, c3_eq]; norm_num
  have e2 : mob ((xp - c1) / (c2 - c3 * xp)) = xp := by
    unfold mob
    have hd' : c2 - c3 * xp ≠ 0 := hden.ne'
    have hne : 1 + c3 * ((xp - c1) / (c2 - c3 * xp)) ≠ 0 := by
      have := c3_pos
      have : 0 ≤ c3 * ((xp - c1) / (c2 - c3 * xp)) := mul_nonneg this.le hr
      linarith
    have hrd : (xp - c1) / (c2 - c3 * xp) * (c2 - c3 * xp) = xp - c1 := div_mul_cancel₀ _ hd'
    rw [div_eq_iff hne]
    linear_combination hrd
  rw [e2, hxp, rpow_inv_m2 hx.le]

/-- `pqToNits` is strictly increasing on `[c1^m2, 1]` -/
theorem pqToNits_strictMono {a b : ℝ} (ha : c1 ^ m2 ≤ a) (hab : a < b) (hb : b ≤ 1) : pqToNits a < pqToNits b := by
  apply lt_of_nitsToPq_lt (pqToNits_nonneg hb)
  rw [nitsToPq_pqToNits ha (hab.le.trans hb), nitsToPq_pqToNits (ha.trans hab.le) hb]
  exact hab

/-- below `c1^m2` (≈ 7.3·10⁻⁷, i.e. below code 0.003) the numerator clamp is active and the result is 0 nits -/
theorem pqToNits_clamp {x : ℝ} (hx : x ≤ c1 ^ m2) : pqToNits x = 0 := by
  unfold pqToNits
  split_ifs with h0
  · have hxp : x ^ (1 / m2) ≤ c1 := by
      have := Real.rpow_le_rpow h0.le hx (one_div_pos.mpr m2_pos).le
      rwa [rpow_m2_inv c1_pos.le] at this
    have hm : max (x ^ (1 / m2) - c1) 0 = 0 := max_eq_right (by linarith)
    rw [hm, zero_div, Real.zero_rpow (one_div_pos.mpr m1_pos).ne', zero_mul]
  · rfl

/-- `pqToNits` is non-decreasing on `(-∞, 1]` (constant 0 up to `c1^m2`, then strictly increasing) -/
theorem pqToNits_mono {a b : ℝ} (hab : a ≤ b) (hb : b ≤ 1) : pqToNits a ≤ pqToNits b := by
  rcases le_or_gt a (c1 ^ m2) with h | h
  · rw [pqToNits_clamp h]; exact pqToNits_nonneg hb
  · rcases hab.lt_or_eq with h' | h'
    · exact (pqToNits_strictMono h.le h' hb).le
    · exact (congrArg pqToNits h').le

theorem pqToNits_zero : pqToNits 0 = 0 := by
  unfold pqToNits; simp

theorem pqToNits_one : pqToNits 1 = 10000 := by
  have := pqToNits_nitsToPq (v := 10000) (by norm_num)
  rwa [nitsToPq_yMax] at this

/-! ## Lifting integer power inequalities to `Real.rpow` -/

theorem pow_rpow_m1 {y : ℝ} (hy : 0 ≤ y) : (y ^ m1) ^ 8192 = y ^ 1305 := by
  rw [← Real.rpow_natCast, ← Real.rpow_mul hy, m1_eq]
  have : (1305 / 8192 * ((8192 : ℕ) : ℝ)) = ((1305 : ℕ) : ℝ) := by norm_num
  rw [this, Real.rpow_natCast]

theorem pow_rpow_m2 {g : ℝ} (hg : 0 ≤ g) : (g ^ m2) ^ 32 = g ^ 2523 := by
  rw [← Real.rpow_natCast, ← Real.rpow_mul hg, m2_eq]
  have : (2523 / 32 * ((32 : ℕ) : ℝ)) = ((2523 : ℕ) : ℝ) := by norm_num
  rw [this, Real.rpow_natCast]

theorem rpow_m1_le_of_pow_le {y t : ℝ} (hy : 0 ≤ y) (ht : 0 ≤ t) (h : y ^ 1305 ≤ t ^ 8192) : y ^ m1 ≤ t := by
  rw [← pow_rpow_m1 hy] at h
  exact le_of_pow_le_pow_left₀ (by norm_num) ht h

theorem le_rpow_m1_of_pow_le {y t : ℝ} (hy : 0 ≤ y) (h : t ^ 8192 ≤ y ^ 1305) : t ≤ y ^ m1 := by
  rw [← pow_rpow_m1 hy] at h
  exact le_of_pow_le_pow_left₀ (by norm_num) (Real.rpow_nonneg hy _) h

theorem rpow_m2_lt_of_pow_lt {g p : ℝ} (hg : 0 ≤ g) (hp : 0 ≤ p) (h : g ^ 2523 < p ^ 32) : g ^ m2 < p := by
  rw [← pow_rpow_m2 hg] at h
  exact lt_of_pow_lt_pow_left₀ 32 hp h

theorem lt_rpow_m2_of_pow_lt {g p : ℝ} (hg : 0 ≤ g) (h : p ^ 32 < g ^ 2523) : p < g ^ m2 := by
  rw [← pow_rpow_m2 hg] at h
  exact lt_of_pow_lt_pow_left₀ 32 (Real.rpow_nonneg hg _) h

/-! ## Lifting the certificate checkers -/

/-- integer cross-multiplied power inequality → inequality of powers of quotients (exponents kept symbolic so
that no tactic ever tries to evaluate a power) -/
theorem cast_div_pow_le {a b c d m n : ℕ} (hb : 0 < b) (hd : 0 < d) (h : a ^ m * d ^ n ≤ c ^ n * b ^ m) :
    ((a : ℝ) / b) ^ m ≤ ((c : ℝ) / d) ^ n := by
  have hbR : (0 : ℝ) < b := by exact_mod_cast hb
  have hdR : (0 : ℝ) < d := by exact_mod_cast hd
  rw [div_pow, div_pow, div_le_div_iff₀ (pow_pos hbR m) (pow_pos hdR n)]
  exact_mod_cast h

theorem cast_div_pow_lt {a b c d m n : ℕ} (hb : 0 < b) (hd : 0 < d) (h : a ^ m * d ^ n < c ^ n * b ^ m) :
    ((a : ℝ) / b) ^ m < ((c : ℝ) / d) ^ n := by
  have hbR : (0 : ℝ) < b := by exact_mod_cast hb
  have hdR : (0 : ℝ) < d := by exact_mod_cast hd
  rw [div_pow, div_pow, div_lt_div_iff₀ (pow_pos hbR m) (pow_pos hdR n)]
  exact_mod_cast h

theorem gDen_pos (a : ℕ) : 0 < gDen a := by unfold gDen; positivity
theorem two_pow_KT_pos : 0 < 2 ^ KT := by positivity

theorem cast_two_pow_KT : ((2 ^ KT : ℕ) : ℝ) = 2 ^ KT := by push_cast; rfl

/-- the real content of a `certLt`-style pair of inequalities -/
theorem nitsToPq_lt_of_pows {y t g p : ℝ} (hy : 0 ≤ y) (ht : 0 ≤ t) (hp : 0 ≤ p)
    (h1 : y ^ 1305 ≤ t ^ 8192) (hg : mob t = g) (h2 : g ^ 2523 < p ^ 32) : nitsToPq (10000 * y) < p := by
  have hyt := rpow_m1_le_of_pow_le hy ht h1
  have hm : mob (y ^ m1) ≤ mob t := mob_mono (Real.rpow_nonneg hy _) hyt
  have hg0 : 0 ≤ g := hg ▸ (mob_pos ht).le
  rw [nitsToPq_eq]
  have e : 10000 * y / 10000 = y := by field_simp
  rw [e]
  calc mob (y ^ m1) ^ m2
      ≤ mob t ^ m2 := Real.rpow_le_rpow (mob_pos (Real.rpow_nonneg hy _)).le hm m2_pos.le
    _ = g ^ m2 := by rw [hg]
    _ < p := rpow_m2_lt_of_pow_lt hg0 hp h2

/-- the real content of a `certGt`-style pair of inequalities -/
theorem nitsToPq_gt_of_pows {y t g p : ℝ} (hy : 0 ≤ y) (ht : 0 ≤ t)
    (h1 : t ^ 8192 ≤ y ^ 1305) (hg : mob t = g) (h2 : p ^ 32 < g ^ 2523) : p < nitsToPq (10000 * y) := by
  have hyt := le_rpow_m1_of_pow_le hy h1
  have hm : mob t ≤ mob (y ^ m1) := mob_mono ht hyt
  have hg0 : 0 ≤ g := hg ▸ (mob_pos ht).le
  rw [nitsToPq_eq]
  have e : 10000 * y / 10000 = y := by field_simp
  rw [e]
  calc p < g ^ m2 := lt_rpow_m2_of_pow_lt hg0 h2
    _ = mob t ^ m2 := by rw [hg]
    _ ≤ mob (y ^ m1) ^ m2 := Real.rpow_le_rpow (mob_pos ht).le hm m2_pos.le

set_option exponentiation.threshold 100000 in
/-- a successful `certLt` check proves `nitsToPq (10000 · yn/yd) < pn/pd` -/
theorem nitsToPq_lt_of_certLt {yn yd a pn pd : ℕ} (hyd : 0 < yd) (hpd : 0 < pd)
    (h : certLt yn yd a pn pd = true) : nitsToPq (10000 * ((yn : ℝ) / yd)) < (pn : ℝ) / pd := by
  simp only [certLt, Bool.and_eq_true, decide_eq_true_eq] at h
  have h1 := cast_div_pow_le hyd two_pow_KT_pos h.1
  have h2 := cast_div_pow_lt (gDen_pos a) hpd h.2
  clear h
  rw [cast_two_pow_KT] at h1
  exact nitsToPq_lt_of_pows (by positivity) (by positivity) (by positivity) h1 (mob_dyadic a) h2

set_option exponentiation.threshold 100000 in
/-- a successful `certGt` check proves `pn/pd < nitsToPq (10000 · yn/yd)` -/
theorem nitsToPq_gt_of_certGt {yn yd a pn pd : ℕ} (hyd : 0 < yd) (hpd : 0 < pd)
    (h : certGt yn yd a pn pd = true) : (pn : ℝ) / pd < nitsToPq (10000 * ((yn : ℝ) / yd)) := by
  simp only [certGt, Bool.and_eq_true, decide_eq_true_eq] at h
  have h1 := cast_div_pow_le two_pow_KT_pos hyd h.1
  have h2 := cast_div_pow_lt hpd (gDen_pos a) h.2
  clear h
  rw [cast_two_pow_KT] at h1
  exact nitsToPq_gt_of_pows (by positivity) (by positivity) h1 (mob_dyadic a) h2

/-! ## The certified tie points and brackets -/

/-- the margin `mu` of the tables, in code units -/
def mu : ℝ := 1 / 1000000

/-- lower end (nits) of the certified bracket of code `c ≥ 1` -/
def brLo (c : ℕ) : ℝ := 10000 * ((yUp (c - 1) : ℝ) / ((2 ^ SY : ℕ) : ℝ))
/-- upper end (nits) of the certified bracket of code `c ≤ 4094` -/
def brHi (c : ℕ) : ℝ := 10000 * ((yDown c : ℝ) / ((2 ^ SY : ℕ) : ℝ))

theorem two_pow_SY_pos : 0 < 2 ^ SY := by positivity

theorem brLo_nonneg (c : ℕ) : 0 ≤ brLo c := by unfold brLo; positivity
theorem brHi_nonneg (c : ℕ) : 0 ≤ brHi c := by unfold brHi; positivity

theorem pDen_pos : 0 < pDen := by unfold pDen muDen; norm_num

theorem pDown_cast (j : ℕ) : (pDown j : ℝ) / pDen = ((j : ℝ) + 1 / 2 - mu) / 4095 := by
  have h : pDown j + 1 = (2 * j + 1) * 500000 := by unfold pDown muDen; omega
  have h' : (pDown j : ℝ) = (2 * j + 1) * 500000 - 1 := by
    have := congrArg (Nat.cast : ℕ → ℝ) h
    push_cast at this
    linarith
  rw [h']
  unfold pDen muDen mu
  push_cast
  field_simp
  ring

theorem pUp_cast (j : ℕ) : (pUp j : ℝ) / pDen = ((j : ℝ) + 1 / 2 + mu) / 4095 := by
  have h' : (pUp j : ℝ) = (2 * j + 1) * 500000 + 1 := by
    unfold pUp muDen; push_cast; norm_num
  rw [h']
  unfold pDen muDen mu
  push_cast
  field_simp
  ring

/-- just below tie point `j + 1/2`: the exact code value of `brHi j` is less than `j + 1/2 - mu` -/
theorem bnd_down {j : ℕ} (hj : j < 4095) : 4095 * nitsToPq (brHi j) < (j : ℝ) + 1 / 2 - mu := by
  have h := bnd_ok (Nat.zero_le j) hj
  simp only [bndCheck, Bool.and_eq_true] at h
  have := nitsToPq_lt_of_certLt two_pow_SY_pos pDen_pos h.1
  rw [pDown_cast] at this
  unfold brHi
  linarith

/-- just above tie point `j + 1/2`: the exact code value of `brLo (j+1)` is more than `j + 1/2 + mu` -/
theorem bnd_up {j : ℕ} (hj : j < 4095) : (j : ℝ) + 1 / 2 + mu < 4095 * nitsToPq (brLo (j + 1)) := by
  have h := bnd_ok (Nat.zero_le j) hj
  simp only [bndCheck, Bool.and_eq_true] at h
  have := nitsToPq_gt_of_certGt two_pow_SY_pos pDen_pos h.2
  rw [pUp_cast] at this
  unfold brLo
  rw [Nat.add_sub_cancel]
  linarith

/-- **Every real luminance in the certified bracket of code `c` has exact code value within `1/2 - mu` of `c`.** -/
theorem code_of_real {c : ℕ} (hc : c ≤ 4095) {v : ℝ} (hv0 : 0 ≤ v) (hv1 : v ≤ 10000)
    (hlo : c = 0 ∨ brLo c ≤ v) (hhi : c = 4095 ∨ v ≤ brHi c) :
    |4095 * nitsToPq v - c| < 1 / 2 - mu := by
  have hmu : mu = 1 / 1000000 := rfl
  rw [abs_sub_lt_iff]
  constructor
  · -- upper side
    by_cases h4 : c = 4095
    · have := nitsToPq_mono hv0 hv1
      rw [nitsToPq_yMax] at this
      subst h4
      push_cast
      linarith
    · have h := hhi.resolve_left h4
      have h1 := nitsToPq_mono hv0 h
      have h2 := bnd_down (j := c) (by omega)
      linarith
  · -- lower side
    by_cases h0 : c = 0
    · subst h0
      have := nitsToPq_pos hv0
      push_cast
      linarith
    · have h := hlo.resolve_left h0
      have hc1 : 1 ≤ c := by omega
      have h1 := nitsToPq_mono (brLo_nonneg c) h
      have h2 := bnd_up (j := c - 1) (by omega)
      rw [Nat.sub_add_cancel hc1] at h2
      have : ((c - 1 : ℕ) : ℝ) = (c : ℝ) - 1 := by rw [Nat.cast_sub hc1]; simp
      rw [this] at h2
      linarith

/-- the bracket membership checker, lifted: the rational luminance `yn/yd` (normalised) has code `c` with margin -/
theorem code_of_rat {yn yd c : ℕ} (h : inBracket yn yd c = true) :
    |4095 * nitsToPq (10000 * ((yn : ℝ) / yd)) - c| < 1 / 2 - mu := by
  simp only [inBracket, Bool.and_eq_true, Bool.or_eq_true, decide_eq_true_eq, beq_iff_eq] at h
  obtain ⟨⟨⟨⟨hc, hyd⟩, hyn⟩, hlo⟩, hhi⟩ := h
  have hydR : (0 : ℝ) < yd := by exact_mod_cast hyd
  have hS : (0 : ℝ) < ((2 ^ SY : ℕ) : ℝ) := by exact_mod_cast two_pow_SY_pos
  have hy1 : (yn : ℝ) / yd ≤ 1 := by
    rw [div_le_one hydR]; exact_mod_cast hyn
  apply code_of_real hc (by positivity) (by linarith)
  · rcases hlo with h | h
    · exact Or.inl h
    · right
      unfold brLo
      have : (yUp (c - 1) : ℝ) / ((2 ^ SY : ℕ) : ℝ) ≤ (yn : ℝ) / yd := by
        rw [div_le_div_iff₀ hS hydR]; exact_mod_cast h
      linarith
  · rcases hhi with h | h
    · exact Or.inl h
    · right
      unfold brHi
      have : (yn : ℝ) / yd ≤ (yDown c : ℝ) / ((2 ^ SY : ℕ) : ℝ) := by
        rw [div_le_div_iff₀ hydR hS]; exact_mod_cast h
      linarith

/-- `codeOfRat` only ever answers with a certified code -/
theorem codeOfRat_sound {yn yd c : ℕ} (h : codeOfRat yn yd = some c) :
    |4095 * nitsToPq (10000 * ((yn : ℝ) / yd)) - c| < 1 / 2 - mu := by
  unfold codeOfRat at h
  simp only at h
  split_ifs at h with hb
  cases h
  exact code_of_rat hb

/-- the table of integer nits -/
theorem nits_table_certified {n : ℕ} (hn : n ≤ 10000) : |4095 * nitsToPq n - codeOfNits n| < 1 / 2 - mu := by
  have h := nits_ok (Nat.zero_le n) (by omega : n < 10001)
  rw [nitsCheck, withNat_eq] at h
  have := code_of_rat h
  have e : 10000 * ((n : ℝ) / (10000 : ℕ)) = n := by push_cast; field_simp
  rwa [e] at this

/-- the table of min-luminance values `k/10000` nits -/
theorem minLum_table_certified {k : ℕ} (hk : k ≤ 10000) :
    |4095 * nitsToPq ((k : ℝ) / 10000) - codeOfMinLum k| < 1 / 2 - mu := by
  have h := minLum_ok (Nat.zero_le k) (by omega : k < 10001)
  rw [minLumCheck, withNat_eq] at h
  have := code_of_rat h
  have e : 10000 * ((k : ℝ) / (100000000 : ℕ)) = (k : ℝ) / 10000 := by push_cast; field_simp; ring
  rwa [e] at this

/-! ## Code → nits → code, and where the exact luminance of a code lies -/

/-- `c1^m2 · 4095 < 1/2`: PQ value of 0 nits rounds to code 0, and every code ≥ 1 is above the clamp -/
theorem c1_rpow_m2_lt : c1 ^ m2 < 1 / 8190 := by
  have h : (107 : ℕ) ^ 2523 * 8190 ^ 32 < 1 ^ 32 * 128 ^ 2523 := by decide +kernel
  have h2 := cast_div_pow_lt (a := 107) (b := 128) (c := 1) (d := 8190) (by norm_num) (by norm_num) h
  have h3 : ((107 : ℕ) : ℝ) / (128 : ℕ) = c1 := by rw [c1_eq]; norm_num
  rw [h3] at h2
  have := rpow_m2_lt_of_pow_lt c1_pos.le (by positivity) h2
  simpa using this

theorem code_in_inv_range {c : ℕ} (h1 : 1 ≤ c) (h2 : c ≤ 4095) : c1 ^ m2 ≤ (c : ℝ) / 4095 ∧ (c : ℝ) / 4095 ≤ 1 := by
  have hc1 : (1 : ℝ) ≤ c := by exact_mod_cast h1
  have hc2 : (c : ℝ) ≤ 4095 := by exact_mod_cast h2
  constructor
  · have := c1_rpow_m2_lt
    have : (1 : ℝ) / 8190 ≤ (c : ℝ) / 4095 := by
      rw [div_le_div_iff₀ (by norm_num) (by norm_num)]; linarith
    linarith
  · rw [div_le_one (by norm_num)]; exact hc2

/-- exact code value of the exact luminance of code `c` -/
theorem code_value_of_pqToNits {c : ℕ} (hc : c ≤ 4095) (h1 : 1 ≤ c) :
    4095 * nitsToPq (pqToNits ((c : ℝ) / 4095)) = c := by
  obtain ⟨ha, hb⟩ := code_in_inv_range h1 hc
  rw [nitsToPq_pqToNits ha hb]; field_simp

theorem pqToNits_code_range {c : ℕ} (hc : c ≤ 4095) :
    0 ≤ pqToNits ((c : ℝ) / 4095) ∧ pqToNits ((c : ℝ) / 4095) ≤ 10000 := by
  have hc2 : (c : ℝ) / 4095 ≤ 1 := by
    rw [div_le_one (by norm_num)]; exact_mod_cast hc
  refine ⟨pqToNits_nonneg hc2, ?_⟩
  rcases Nat.eq_zero_or_pos c with h | h
  · subst h; simp [pqToNits_zero]
  · by_contra hn
    have hgt := nitsToPq_strictMono (by norm_num : (0 : ℝ) ≤ 10000) (not_le.mp hn)
    rw [nitsToPq_yMax] at hgt
    have := code_value_of_pqToNits hc h
    have hc' : (c : ℝ) ≤ 4095 := by exact_mod_cast hc
    linarith

/-- the exact luminance of code `c` lies strictly between the neighbouring tie-point witnesses:
above `brHi (c-1)` (whose code value is below `c - 1/2`) and below `brLo (c+1)` (code value above `c + 1/2`) -/
theorem pqToNits_code_between {c : ℕ} (h1 : 1 ≤ c) (hc : c ≤ 4095) :
    brHi (c - 1) < pqToNits ((c : ℝ) / 4095) ∧ (c < 4095 → pqToNits ((c : ℝ) / 4095) < brLo (c + 1)) := by
  have hv := code_value_of_pqToNits hc h1
  have hr := pqToNits_code_range hc
  have hmu : mu = 1 / 1000000 := rfl
  constructor
  · apply lt_of_nitsToPq_lt hr.1
    have h2 := bnd_down (j := c - 1) (by omega)
    have : ((c - 1 : ℕ) : ℝ) = (c : ℝ) - 1 := by rw [Nat.cast_sub h1]; simp
    rw [this] at h2
    nlinarith
  · intro h4
    apply lt_of_nitsToPq_lt (brLo_nonneg _)
    have h2 := bnd_up (j := c) h4
    nlinarith

/-! ## Rounding thresholds (summary strings) -/

theorem thr_cert {i : ℕ} (h1 : 1 ≤ i) (h2 : i ≤ 199) :
    (thrFloor i : ℝ) < 4095 * nitsToPq (50 * i) ∧ 4095 * nitsToPq (50 * i) < (thrFloor i : ℝ) + 1 := by
  have h := thr_ok h1 (by omega : i < 200)
  simp only [thrCheck, Bool.and_eq_true] at h
  have ha := nitsToPq_gt_of_certGt (by norm_num : 0 < 200) (by norm_num : 0 < 4095) h.1
  have hb := nitsToPq_lt_of_certLt (by norm_num : 0 < 200) (by norm_num : 0 < 4095) h.2
  have e : 10000 * ((i : ℝ) / (200 : ℕ)) = 50 * i := by push_cast; field_simp; ring
  rw [e] at ha hb
  push_cast at ha hb
  constructor
  · rw [div_lt_iff₀ (by norm_num)] at ha; linarith
  · rw [lt_div_iff₀ (by norm_num)] at hb; linarith

/-- the exact luminance of code `c` against a threshold `50·i` nits: decided by the floor code of the threshold -/
theorem thr_lt_of_floor_lt {c i : ℕ} (hc1 : 1 ≤ c) (hc : c ≤ 4095) (h1 : 1 ≤ i) (h2 : i ≤ 199)
    (h : thrFloor i < c) : (50 * i : ℝ) < pqToNits ((c : ℝ) / 4095) := by
  apply lt_of_nitsToPq_lt (pqToNits_code_range hc).1
  have hv := code_value_of_pqToNits hc hc1
  have ht := (thr_cert h1 h2).2
  have : (thrFloor i : ℝ) + 1 ≤ c := by exact_mod_cast h
  nlinarith

theorem lt_thr_of_le_floor {c i : ℕ} (hc1 : 1 ≤ c) (hc : c ≤ 4095) (h1 : 1 ≤ i) (h2 : i ≤ 199)
    (h : c ≤ thrFloor i) : pqToNits ((c : ℝ) / 4095) < (50 * i : ℝ) := by
  apply lt_of_nitsToPq_lt (by positivity)
  have hv := code_value_of_pqToNits hc hc1
  have ht := (thr_cert h1 h2).1
  have : (c : ℝ) ≤ thrFloor i := by exact_mod_cast h
  nlinarith

/-- `round (pqToNits (c/4095) / 100)` (the L2 trim "target nits" of the summary) is `nitsRound100 c`, with no tie -/
theorem round100_certified {c : ℕ} (hc : c ≤ 4095) :
    |pqToNits ((c : ℝ) / 4095) / 100 - nitsRound100 c| < 1 / 2 := by
  have h := round100_ok (Nat.zero_le c) (by omega : c < 4096)
  rw [round100Check, withNat_eq] at h
  simp only [Bool.and_eq_true, Bool.or_eq_true, decide_eq_true_eq, beq_iff_eq] at h
  obtain ⟨⟨hk, hlo⟩, hhi⟩ := h
  generalize nitsRound100 c = k at hk hlo hhi ⊢
  have hr := pqToNits_code_range hc
  rw [abs_sub_lt_iff]
  by_cases h0 : c = 0
  · subst h0
    have hk0 : k = 0 := by omega
    subst hk0
    simp [pqToNits_zero]
  have hc1 : 1 ≤ c := by omega
  constructor
  · by_cases h100 : k = 100
    · subst h100; push_cast; linarith [hr.2]
    · have hh := hhi.resolve_left h100
      have := lt_thr_of_le_floor hc1 hc (i := 2 * k + 1) (by omega) (by omega) hh
      push_cast at this
      linarith
  · by_cases hk0 : k = 0
    · subst hk0; push_cast; linarith [hr.1]
    · have hl := hlo.resolve_left hk0
      have := thr_lt_of_floor_lt hc1 hc (i := 2 * k - 1) (by omega) (by omega) hl
      have e : ((2 * k - 1 : ℕ) : ℝ) = 2 * (k : ℝ) - 1 := by
        rw [Nat.cast_sub (by omega)]; push_cast; ring
      rw [e] at this
      linarith

/-- `round (pqToNits (c/4095) / 1000)` (the mastering-display maximum of the summary) is `nitsRound1000 c`, no tie -/
theorem round1000_certified {c : ℕ} (hc : c ≤ 4095) :
    |pqToNits ((c : ℝ) / 4095) / 1000 - nitsRound1000 c| < 1 / 2 := by
  have h := round1000_ok (Nat.zero_le c) (by omega : c < 4096)
  rw [round1000Check, withNat_eq] at h
  simp only [Bool.and_eq_true, Bool.or_eq_true, decide_eq_true_eq, beq_iff_eq] at h
  obtain ⟨⟨hk, hlo⟩, hhi⟩ := h
  generalize nitsRound1000 c = k at hk hlo hhi ⊢
  have hr := pqToNits_code_range hc
  rw [abs_sub_lt_iff]
  by_cases h0 : c = 0
  · subst h0
    have hk0 : k = 0 := by omega
    subst hk0
    simp [pqToNits_zero]
  have hc1 : 1 ≤ c := by omega
  constructor
  · by_cases h10 : k = 10
    · subst h10; push_cast; linarith [hr.2]
    · have hh := hhi.resolve_left h10
      have := lt_thr_of_le_floor hc1 hc (i := 20 * k + 10) (by omega) (by omega) hh
      push_cast at this
      linarith
  · by_cases hk0 : k = 0
    · subst hk0; push_cast; linarith [hr.1]
    · have hl := hlo.resolve_left hk0
      have := thr_lt_of_floor_lt hc1 hc (i := 20 * k - 10) (by omega) (by omega) hl
      have e : ((20 * k - 10 : ℕ) : ℝ) = 20 * (k : ℝ) - 10 := by
        rw [Nat.cast_sub (by omega)]; push_cast; ring
      rw [e] at this
      linarith

end Dovi.Pq
