import Mathlib.Analysis.SpecialFunctions.Pow.Real
import DoviModel.Proofs.PqCert
/-!
# SMPTE ST 2084 (PQ) over the reals — property C19

`nitsToPq`, `pqToNits` are `dolby_vision/src/utils.rs` `nits_to_pq`, `pq_to_nits` with `f64` replaced by `ℝ`
(`powf` = `Real.rpow`; `0^m1 = 0` on both sides).  This file proves monotonicity, the two inverse laws, the
end points, and the *lifting lemmas* that turn a successful integer certificate check of `Model/PqTable.lean`
into a real inequality about `nitsToPq`.

Single Mathlib module imported (and what it pulls); the model driver never imports this file.
-/

noncomputable section
namespace Dovi.Pq
open Dovi.PqTable

/-! ## The definitions, as in `utils.rs` -/

def yMax : ℝ := 10000
def m1 : ℝ := 2610 / 16384
def m2 : ℝ := 2523 / 4096 * 128
def c1 : ℝ := 3424 / 4096
def c2 : ℝ := 2413 / 4096 * 32
def c3 : ℝ := 2392 / 4096 * 32

/-- `pq_to_nits`.  `den.max(f64::NEG_INFINITY)` is the identity on numbers and is dropped. -/
def pqToNits (x : ℝ) : ℝ :=
  if x > 0 then
    (max (x ^ (1 / m2) - c1) 0 / (c2 - c3 * x ^ (1 / m2))) ^ (1 / m1) * yMax
  else 0

/-- `nits_to_pq` -/
def nitsToPq (nits : ℝ) : ℝ :=
  ((c1 + c2 * (nits / yMax) ^ m1) / (1 + c3 * (nits / yMax) ^ m1)) ^ m2

/-- the rational (Möbius) step between the two powers -/
def mob (t : ℝ) : ℝ := (c1 + c2 * t) / (1 + c3 * t)

theorem nitsToPq_eq (v : ℝ) : nitsToPq v = mob ((v / 10000) ^ m1) ^ m2 := rfl

/-! ## Constants -/

theorem m1_eq : m1 = 1305 / 8192 := by unfold m1; norm_num
theorem m2_eq : m2 = 2523 / 32 := by unfold m2; norm_num
theorem c1_eq : c1 = 107 / 128 := by unfold c1; norm_num
theorem c2_eq : c2 = 2413 / 128 := by unfold c2; norm_num
theorem c3_eq : c3 = 2392 / 128 := by unfold c3; norm_num

/-- the rationals written in `Model/PqTable.lean` are these constants -/
theorem table_constants :
    m1 = (PqTable.m1.1 : ℝ) / PqTable.m1.2 ∧ m2 = (PqTable.m2.1 : ℝ) / PqTable.m2.2 ∧
    c1 = (PqTable.c1.1 : ℝ) / PqTable.c1.2 ∧ c2 = (PqTable.c2.1 : ℝ) / PqTable.c2.2 ∧
    c3 = (PqTable.c3.1 : ℝ) / PqTable.c3.2 := by
  simp only [PqTable.m1, PqTable.m2, PqTable.c1, PqTable.c2, PqTable.c3, m1_eq, m2_eq, c1_eq, c2_eq, c3_eq]
  norm_num

theorem m1_pos : 0 < m1 := by rw [m1_eq]; norm_num
theorem m2_pos : 0 < m2 := by rw [m2_eq]; norm_num
theorem c1_pos : 0 < c1 := by rw [c1_eq]; norm_num
theorem c2_pos : 0 < c2 := by rw [c2_eq]; norm_num
theorem c3_pos : 0 < c3 := by rw [c3_eq]; norm_num

/-! ## The Möbius step -/

theorem mob_den_pos {t : ℝ} (ht : 0 ≤ t) : 0 < 1 + c3 * t := by
  have := c3_pos; nlinarith

theorem mob_pos {t : ℝ} (ht : 0 ≤ t) : 0 < mob t := by
  unfold mob
  apply div_pos _ (mob_den_pos ht)
  have := c1_pos; have := c2_pos; nlinarith

theorem mob_strictMono {s t : ℝ} (hs : 0 ≤ s) (hst : s < t) : mob s < mob t := by
  unfold mob
  have h1 := mob_den_pos hs
  have h2 := mob_den_pos (hs.trans hst.le)
  rw [div_lt_div_iff₀ h1 h2]
  have hk : c1 * c3 < c2 := by rw [c1_eq, c2_eq, c3_eq]; norm_num
  nlinarith

theorem mob_mono {s t : ℝ} (hs : 0 ≤ s) (hst : s ≤ t) : mob s ≤ mob t := by
  rcases hst.lt_or_eq with h | h
  · exact (mob_strictMono hs h).le
  · exact (congrArg mob h).le

theorem mob_zero : mob 0 = c1 := by unfold mob; simp

theorem mob_one : mob 1 = 1 := by
  unfold mob; rw [c1_eq, c2_eq, c3_eq]; norm_num

/-- `mob t` as a quotient of the integer expressions used by the checkers -/
theorem mob_dyadic (a : ℕ) : mob ((a : ℝ) / 2 ^ KT) = (gNum a : ℝ) / (gDen a : ℝ) := by
  have hp : (0 : ℝ) < 2 ^ KT := by positivity
  unfold mob gNum gDen
  rw [c1_eq, c2_eq, c3_eq]
  push_cast
  rw [div_eq_div_iff (by positivity) (by positivity)]
  field_simp
  ring

/-! ## Monotonicity of `nitsToPq` -/

theorem nitsToPq_pos {v : ℝ} (hv : 0 ≤ v) : 0 < nitsToPq v := by
  rw [nitsToPq_eq]
  exact Real.rpow_pos_of_pos (mob_pos (Real.rpow_nonneg (by positivity) _)) _

theorem nitsToPq_strictMono {a b : ℝ} (ha : 0 ≤ a) (hab : a < b) : nitsToPq a < nitsToPq b := by
  rw [nitsToPq_eq, nitsToPq_eq]
  have ha' : (0 : ℝ) ≤ a / 10000 := by positivity
  have hab' : a / 10000 < b / 10000 := by linarith
  have hpow := Real.rpow_lt_rpow ha' hab' m1_pos
  have h0 := Real.rpow_nonneg ha' m1
  exact Real.rpow_lt_rpow (mob_pos h0).le (mob_strictMono h0 hpow) m2_pos

theorem nitsToPq_mono {a b : ℝ} (ha : 0 ≤ a) (hab : a ≤ b) : nitsToPq a ≤ nitsToPq b := by
  rcases hab.lt_or_eq with h | h
  · exact (nitsToPq_strictMono ha h).le
  · exact (congrArg nitsToPq h).le

/-- order reflection: the contrapositive of monotonicity, used to locate `pqToNits` values -/
theorem lt_of_nitsToPq_lt {a b : ℝ} (hb : 0 ≤ b) (h : nitsToPq a < nitsToPq b) : a < b := by
  by_contra hn
  exact absurd (nitsToPq_mono hb (not_lt.mp hn)) (not_le.mpr h)

theorem nitsToPq_zero : nitsToPq 0 = c1 ^ m2 := by
  rw [nitsToPq_eq]
  have : ((0 : ℝ) / 10000) ^ m1 = 0 := by
    rw [zero_div]; exact Real.zero_rpow m1_pos.ne'
  rw [this, mob_zero]

theorem nitsToPq_yMax : nitsToPq 10000 = 1 := by
  rw [nitsToPq_eq]
  have : ((10000 : ℝ) / 10000) ^ m1 = 1 := by
    rw [div_self (by norm_num)]; exact Real.one_rpow _
  rw [this, mob_one, Real.one_rpow]

/-! ## Inverse laws -/

theorem rpow_m2_inv {g : ℝ} (hg : 0 ≤ g) : (g ^ m2) ^ (1 / m2) = g := by
  rw [← Real.rpow_mul hg, mul_one_div_cancel m2_pos.ne', Real.rpow_one]

theorem rpow_inv_m2 {x : ℝ} (hx : 0 ≤ x) : (x ^ (1 / m2)) ^ m2 = x := by
  rw [← Real.rpow_mul hx, one_div_mul_cancel m2_pos.ne', Real.rpow_one]

theorem rpow_m1_inv {y : ℝ} (hy : 0 ≤ y) : (y ^ m1) ^ (1 / m1) = y := by
  rw [← Real.rpow_mul hy, mul_one_div_cancel m1_pos.ne', Real.rpow_one]

theorem rpow_inv_m1 {r : ℝ} (hr : 0 ≤ r) : (r ^ (1 / m1)) ^ m1 = r := by
  rw [← Real.rpow_mul hr, one_div_mul_cancel m1_pos.ne', Real.rpow_one]

/-- nits → PQ → nits is the identity on every non-negative luminance -/
theorem pqToNits_nitsToPq {v : ℝ} (hv : 0 ≤ v) : pqToNits (nitsToPq v) = v := by
  have hy : (0 : ℝ) ≤ v / 10000 := by positivity
  have ht : 0 ≤ (v / 10000) ^ m1 := Real.rpow_nonneg hy _
  have hg := mob_pos ht
  have hP := nitsToPq_pos hv
  unfold pqToNits
  rw [if_pos hP, nitsToPq_eq, rpow_m2_inv hg.le]
  set t := (v / 10000) ^ m1 with htdef
  have hd := mob_den_pos ht
  have hk : c1 * c3 < c2 := by rw [c1_eq, c2_eq, c3_eq]; norm_num
  -- g (1 + c3 t) = c1 + c2 t
  have hgdef : mob t * (1 + c3 * t) = c1 + c2 * t := by
    unfold mob; exact div_mul_cancel₀ _ hd.ne'
  have hnum : mob t - c1 = t * (c2 - c3 * mob t) := by linear_combination hgdef
  have hden : 0 < c2 - c3 * mob t := by
    have : (c2 - c3 * mob t) * (1 + c3 * t) = c2 - c1 * c3 := by
      linear_combination (-c3) * hgdef
    have h2 : 0 < (c2 - c3 * mob t) * (1 + c3 * t) := by rw [this]; linarith
    exact (pos_iff_pos_of_mul_pos h2).mpr hd
  have hge : 0 ≤ mob t - c1 := by rw [hnum]; exact mul_nonneg ht hden.le
  rw [max_eq_left hge, hnum, mul_div_assoc, div_self hden.ne', mul_one, htdef, rpow_m1_inv hy]
  unfold yMax
  field_simp

/-- the range of PQ values on which the clamp `max(.., 0)` of `pq_to_nits` is inactive -/
theorem inv_range {x : ℝ} (hlo : c1 ^ m2 ≤ x) (hhi : x ≤ 1) :
    0 < x ∧ c1 ≤ x ^ (1 / m2) ∧ x ^ (1 / m2) ≤ 1 := by
  have hc : 0 < c1 ^ m2 := Real.rpow_pos_of_pos c1_pos _
  have hx : 0 < x := lt_of_lt_of_le hc hlo
  refine ⟨hx, ?_, ?_⟩
  · have := Real.rpow_le_rpow hc.le hlo (one_div_pos.mpr m2_pos).le
    rwa [rpow_m2_inv c1_pos.le] at this
  · have := Real.rpow_le_rpow hx.le hhi (one_div_pos.mpr m2_pos).le
    rwa [Real.one_rpow] at this

theorem pqToNits_nonneg {x : ℝ} (hhi : x ≤ 1) : 0 ≤ pqToNits x := by
  unfold pqToNits
  split_ifs with hx
  · have hxp : x ^ (1 / m2) ≤ 1 := by
      have := Real.rpow_le_rpow hx.le hhi (one_div_pos.mpr m2_pos).le
      rwa [Real.one_rpow] at this
    have hden : 0 < c2 - c3 * x ^ (1 / m2) := by
      have : c3 < c2 := by rw [c2_eq, c3_eq]; norm_num
      have := c3_pos; nlinarith
    have : 0 ≤ max (x ^ (1 / m2) - c1) 0 / (c2 - c3 * x ^ (1 / m2)) :=
      div_nonneg (le_max_right _ _) hden.le
    have h2 := Real.rpow_nonneg this (1 / m1)
    unfold yMax; positivity
  · exact le_refl _

/-- PQ → nits → PQ is the identity on `[c1^m2, 1]` (below `c1^m2 ≈ 7.3·10⁻⁷` the real code clamps to 0 nits) -/
theorem nitsToPq_pqToNits {x : ℝ} (hlo : c1 ^ m2 ≤ x) (hhi : x ≤ 1) : nitsToPq (pqToNits x) = x := by
  obtain ⟨hx, h1, h2⟩ := inv_range hlo hhi
  unfold pqToNits
  rw [if_pos hx]
  set xp := x ^ (1 / m2) with hxp
  have hc32 : c3 < c2 := by rw [c2_eq, c3_eq]; norm_num
  have hden : 0 < c2 - c3 * xp := by have := c3_pos; nlinarith
  have hnum : 0 ≤ xp - c1 := by linarith
  rw [max_eq_left hnum]
  have hr : 0 ≤ (xp - c1) / (c2 - c3 * xp) := div_nonneg hnum hden.le
  rw [nitsToPq_eq]
  have e1 : ((xp - c1) / (c2 - c3 * xp)) ^ (1 / m1) * yMax / 10000 = ((xp - c1) / (c2 - c3 * xp)) ^ (1 / m1) := by
    unfold yMax; field_simp
  rw [e1, rpow_inv_m1 hr]
  have hk : c1 * c3 < c2 := by rw [c1_eq, c2_eq, c3_eq]; norm_num
  have e2 : mob ((xp - c1) / (c2 - c3 * xp)) = xp := by
    unfold mob
    have hd' : c2 - c3 * xp ≠ 0 := hden.ne'
    have hne : 1 + c3 * ((xp - c1) / (c2 - c3 * xp)) ≠ 0 := by
      have := c3_pos
      have : 0 ≤ c3 * ((xp - c1) / (c2 - c3 * xp)) := mul_nonneg this.le hr
      linarith
    have hrd : (xp - c1) / (c2 - c3 * xp) * (c2 - c3 * xp) = xp - c1 := div_mul_cancel₀ _ hd'
    rw [div_eq_iff hne]
    linear_combination hrd
  rw [e2, hxp, rpow_inv_m2 hx.le]

/-- `pqToNits` is strictly increasing on `[c1^m2, 1]` -/
theorem pqToNits_strictMono {a b : ℝ} (ha : c1 ^ m2 ≤ a) (hab : a < b) (hb : b ≤ 1) : pqToNits a < pqToNits b := by
  apply lt_of_nitsToPq_lt (pqToNits_nonneg hb)
  rw [nitsToPq_pqToNits ha (hab.le.trans hb), nitsToPq_pqToNits (ha.trans hab.le) hb]
  exact hab

theorem pqToNits_zero : pqToNits 0 = 0 := by
  unfold pqToNits; simp

theorem pqToNits_one : pqToNits 1 = 10000 := by
  have := pqToNits_nitsToPq (v := 10000) (by norm_num)
  rwa [nitsToPq_yMax] at this

/-! ## Lifting integer power inequalities to `Real.rpow` -/

theorem pow_rpow_m1 {y : ℝ} (hy : 0 ≤ y) : (y ^ m1) ^ 8192 = y ^ 1305 := by
  rw [← Real.rpow_natCast, ← Real.rpow_mul hy, m1_eq]
  have : (1305 / 8192 * ((8192 : ℕ) : ℝ)) = ((1305 : ℕ) : ℝ) := by norm_num
  rw [this, Real.rpow_natCast]

theorem pow_rpow_m2 {g : ℝ} (hg : 0 ≤ g) : (g ^ m2) ^ 32 = g ^ 2523 := by
  rw [← Real.rpow_natCast, ← Real.rpow_mul hg, m2_eq]
  have : (2523 / 32 * ((32 : ℕ) : ℝ)) = ((2523 : ℕ) : ℝ) := by norm_num
  rw [this, Real.rpow_natCast]

theorem rpow_m1_le_of_pow_le {y t : ℝ} (hy : 0 ≤ y) (ht : 0 ≤ t) (h : y ^ 1305 ≤ t ^ 8192) : y ^ m1 ≤ t := by
  rw [← pow_rpow_m1 hy] at h
  exact le_of_pow_le_pow_left₀ (by norm_num) ht h

theorem le_rpow_m1_of_pow_le {y t : ℝ} (hy : 0 ≤ y) (h : t ^ 8192 ≤ y ^ 1305) : t ≤ y ^ m1 := by
  rw [← pow_rpow_m1 hy] at h
  exact le_of_pow_le_pow_left₀ (by norm_num) (Real.rpow_nonneg hy _) h

theorem rpow_m2_lt_of_pow_lt {g p : ℝ} (hg : 0 ≤ g) (hp : 0 ≤ p) (h : g ^ 2523 < p ^ 32) : g ^ m2 < p := by
  rw [← pow_rpow_m2 hg] at h
  exact lt_of_pow_lt_pow_left₀ 32 hp h

theorem lt_rpow_m2_of_pow_lt {g p : ℝ} (hg : 0 ≤ g) (h : p ^ 32 < g ^ 2523) : p < g ^ m2 := by
  rw [← pow_rpow_m2 hg] at h
  exact lt_of_pow_lt_pow_left₀ 32 (Real.rpow_nonneg hg _) h

/-! ## Lifting the certificate checkers -/

/-- a successful `certLt` check proves `nitsToPq (10000 · yn/yd) < pn/pd` -/
theorem nitsToPq_lt_of_certLt {yn yd a pn pd : ℕ} (hyd : 0 < yd) (hpd : 0 < pd)
    (h : certLt yn yd a pn pd = true) : nitsToPq (10000 * ((yn : ℝ) / yd)) < (pn : ℝ) / pd := by
  simp only [certLt, Bool.and_eq_true, decide_eq_true_eq] at h
  obtain ⟨h1, h2⟩ := h
  have hydR : (0 : ℝ) < yd := by exact_mod_cast hyd
  have hpdR : (0 : ℝ) < pd := by exact_mod_cast hpd
  have hKT : (0 : ℝ) < 2 ^ KT := by positivity
  have hy : (0 : ℝ) ≤ (yn : ℝ) / yd := by positivity
  have ht : (0 : ℝ) ≤ (a : ℝ) / 2 ^ KT := by positivity
  have h1' : ((yn : ℝ) / yd) ^ 1305 ≤ ((a : ℝ) / 2 ^ KT) ^ 8192 := by
    rw [div_pow, div_pow, div_le_div_iff₀ (pow_pos hydR _) (pow_pos hKT _)]
    exact_mod_cast h1
  have hyt := rpow_m1_le_of_pow_le hy ht h1'
  have hgd : (0 : ℝ) < (gDen a : ℝ) := by
    have : 0 < gDen a := by unfold gDen; positivity
    exact_mod_cast this
  have hgn : (0 : ℝ) ≤ (gNum a : ℝ) := by positivity
  have h2' : ((gNum a : ℝ) / gDen a) ^ 2523 < ((pn : ℝ) / pd) ^ 32 := by
    rw [div_pow, div_pow, div_lt_div_iff₀ (pow_pos hgd _) (pow_pos hpdR _)]
    exact_mod_cast h2
  have hm : mob (((yn : ℝ) / yd) ^ m1) ≤ mob ((a : ℝ) / 2 ^ KT) := mob_mono (Real.rpow_nonneg hy _) hyt
  rw [nitsToPq_eq]
  have e : 10000 * ((yn : ℝ) / yd) / 10000 = (yn : ℝ) / yd := by field_simp
  rw [e]
  calc mob (((yn : ℝ) / yd) ^ m1) ^ m2
      ≤ mob ((a : ℝ) / 2 ^ KT) ^ m2 := Real.rpow_le_rpow (mob_pos (Real.rpow_nonneg hy _)).le hm m2_pos.le
    _ = ((gNum a : ℝ) / gDen a) ^ m2 := by rw [mob_dyadic]
    _ < (pn : ℝ) / pd := rpow_m2_lt_of_pow_lt (by positivity) (by positivity) h2'

/-- a successful `certGt` check proves `pn/pd < nitsToPq (10000 · yn/yd)` -/
theorem nitsToPq_gt_of_certGt {yn yd a pn pd : ℕ} (hyd : 0 < yd) (hpd : 0 < pd)
    (h : certGt yn yd a pn pd = true) : (pn : ℝ) / pd < nitsToPq (10000 * ((yn : ℝ) / yd)) := by
  simp only [certGt, Bool.and_eq_true, decide_eq_true_eq] at h
  obtain ⟨h1, h2⟩ := h
  have hydR : (0 : ℝ) < yd := by exact_mod_cast hyd
  have hpdR : (0 : ℝ) < pd := by exact_mod_cast hpd
  have hKT : (0 : ℝ) < 2 ^ KT := by positivity
  have hy : (0 : ℝ) ≤ (yn : ℝ) / yd := by positivity
  have ht : (0 : ℝ) ≤ (a : ℝ) / 2 ^ KT := by positivity
  have h1' : ((a : ℝ) / 2 ^ KT) ^ 8192 ≤ ((yn : ℝ) / yd) ^ 1305 := by
    rw [div_pow, div_pow, div_le_div_iff₀ (pow_pos hKT _) (pow_pos hydR _)]
    exact_mod_cast h1
  have hyt := le_rpow_m1_of_pow_le hy h1'
  have hgd : (0 : ℝ) < (gDen a : ℝ) := by
    have : 0 < gDen a := by unfold gDen; positivity
    exact_mod_cast this
  have hgn : (0 : ℝ) ≤ (gNum a : ℝ) := by positivity
  have h2' : ((pn : ℝ) / pd) ^ 32 < ((gNum a : ℝ) / gDen a) ^ 2523 := by
    rw [div_pow, div_pow, div_lt_div_iff₀ (pow_pos hpdR _) (pow_pos hgd _)]
    exact_mod_cast h2
  have hm : mob ((a : ℝ) / 2 ^ KT) ≤ mob (((yn : ℝ) / yd) ^ m1) := mob_mono ht hyt
  rw [nitsToPq_eq]
  have e : 10000 * ((yn : ℝ) / yd) / 10000 = (yn : ℝ) / yd := by field_simp
  rw [e]
  calc (pn : ℝ) / pd < ((gNum a : ℝ) / gDen a) ^ m2 := lt_rpow_m2_of_pow_lt (by positivity) h2'
    _ = mob ((a : ℝ) / 2 ^ KT) ^ m2 := by rw [mob_dyadic]
    _ ≤ mob (((yn : ℝ) / yd) ^ m1) ^ m2 := Real.rpow_le_rpow (mob_pos ht).le hm m2_pos.le

end Dovi.Pq
