import DoviModel.Proofs.Rpu
/-!
# The writer reports, never repairs: a block that cannot be written makes the whole RPU write fail

Lifts the block-level facts (`validate()` false, a value that does not fit its field) through the container,
`vdr_dm_data`, the body and `write_rpu_data`.
-/
namespace Dovi.WriteErrors
open Dovi

theorem wcat_ok_mem {l : List (Res Bits)} {out : Bits} (h : wcat l = .ok out) (x : Res Bits) (hx : x ∈ l) :
    ∃ w, x = .ok w := by
  obtain ⟨parts, hp, _⟩ := wcat_eq_ok h
  subst hp
  obtain ⟨w, _, rfl⟩ := List.mem_map.mp hx
  exact ⟨w, rfl⟩

/-- a container with a block that is not written is not written -/
theorem writeContainer_block (pos : Nat) (c : Container) (b : Block) (hb : b ∈ c.blocks)
    (hbw : ∀ w, writeBlock b ≠ .ok w) : ∀ w, writeContainer pos c ≠ .ok w := by
  intro w hw
  unfold writeContainer at hw
  obtain ⟨n, _, h2⟩ := Res.bind_eq_ok' hw
  obtain ⟨bs, hbs, _⟩ := Res.bind_eq_ok' h2
  obtain ⟨wb, hwb⟩ := wcat_ok_mem hbs (writeBlock b) (List.mem_map.mpr ⟨b, hb, rfl⟩)
  exact hbw wb hwb

/-- … nor is the DM payload that holds the container -/
theorem writeDmData_block (pos : Nat) (d : DmData) (c : Container) (b : Block)
    (hc : d.cmv29 = some c ∨ d.cmv40 = some c) (hb : b ∈ c.blocks)
    (hbw : ∀ w, writeBlock b ≠ .ok w) : ∀ w, writeDmData pos d ≠ .ok w := by
  intro w hw
  unfold writeDmData at hw
  obtain ⟨a, _, h2⟩ := Res.bind_eq_ok' hw
  obtain ⟨x, hx, h3⟩ := Res.bind_eq_ok' h2
  obtain ⟨y, hy, _⟩ := Res.bind_eq_ok' h3
  rcases hc with hc | hc
  · rw [hc] at hx
    exact writeContainer_block _ c b hb hbw x hx
  · rw [hc] at hy
    exact writeContainer_block _ c b hb hbw y hy

/-- … nor the RPU, when the DM payload is part of what is written (`rpu_type = 2`, DM metadata present) -/
theorem writeRpu_block (r : Rpu) (d : DmData) (c : Container) (b : Block)
    (ht : r.header.rpu_type = 2) (hf : r.header.vdr_dm_metadata_present_flag = true)
    (hd : r.vdr_dm_data = some d) (hc : d.cmv29 = some c ∨ d.cmv40 = some c) (hb : b ∈ c.blocks)
    (hbw : ∀ w, writeBlock b ≠ .ok w) : ∀ out, writeRpu r ≠ .ok out := by
  intro out hw
  unfold writeRpu at hw
  split at hw
  · cases hw
  · obtain ⟨body, hbody, _⟩ := Res.bind_eq_ok' hw
    unfold writeBody at hbody
    obtain ⟨a, _, h2⟩ := Res.bind_eq_ok' hbody
    obtain ⟨bc, hbc, _⟩ := Res.bind_eq_ok' h2
    simp only [ht, beq_self_eq_true, if_true] at hbc
    obtain ⟨m, _, h4⟩ := Res.bind_eq_ok' hbc
    obtain ⟨dm, hdm, _⟩ := Res.bind_eq_ok' h4
    simp only [hf, if_true, hd] at hdm
    exact writeDmData_block _ d c b hc hb hbw dm hdm

/-- a block whose values violate the level's `validate()` is not written -/
theorem writeBlock_invalid (b : Block) (h : blockValidate b = false) : ∀ w, writeBlock b ≠ .ok w := by
  intro w hw
  unfold writeBlock at hw
  simp only [h, Bool.not_false, Bool.and_true, Bool.false_eq_true, if_false] at hw
  split at hw
  · cases hw
  · split at hw
    · cases hw
    · split at hw
      · cases hw
      · cases ha : writeUe (blockBytes b.level b.length) <;> cases hb2 : writeN 8 b.level <;>
          simp [ha, hb2, wcat, Res.bind] at hw

/-- a field value that does not fit its width makes the block unwritable (no truncation); `i` = position of the
field in the level's layout; every field except L2's signed `ms_weight` -/
theorem writeBlock_field_overflow (b : Block) (ws : List Nat) (i : Nat) (w : Nat) (v : Int)
    (hlay : blockWriteLayout b.level b.length = some ws) (hw : ws[i]? = some w) (hv : (blockWriteVals b)[i]? = some v)
    (hns : ¬ (b.level = 2 ∧ w = 13)) (hbig : 2 ^ w ≤ v.toNat) : ∀ out, writeBlock b ≠ .ok out := by
  intro out ho
  cases hval : blockValidate b with
  | false => exact writeBlock_invalid b hval out ho
  | true =>
    unfold writeBlock at ho
    simp only [hval, Bool.not_true, Bool.and_false, Bool.false_eq_true, if_false, if_true] at ho
    cases hreq : blockRequiredBits b.level b.length with
    | none => simp [hreq] at ho
    | some req =>
      simp only [hreq] at ho
      by_cases hlt : blockBytes b.level b.length * 8 < req
      · simp [hlt] at ho
      · simp only [hlt, if_false] at ho
        obtain ⟨_, wl, _, h2, _⟩ := wcat_cons_ok ho
        obtain ⟨_, wl2, _, h3, _⟩ := wcat_cons_ok h2
        obtain ⟨wf, _, hf, _, _⟩ := wcat_cons_ok h3
        unfold blockWriteFields at hf
        rw [hlay] at hf
        have hmem : writeBlockField b.level w v ∈
            (ws.zip (blockWriteVals b)).map fun (w, v) => writeBlockField b.level w v := by
          refine List.mem_map.mpr ⟨(w, v), ?_, rfl⟩
          have : (ws.zip (blockWriteVals b))[i]? = some (w, v) := by
            simp [List.getElem?_zip_eq_some, hw, hv]
          exact List.mem_of_getElem? this
        obtain ⟨x, hx⟩ := wcat_ok_mem hf _ hmem
        unfold writeBlockField at hx
        have hcond : (b.level == 2 && w == 13) = false := by
          cases h1 : b.level == 2 <;> cases h2 : w == 13 <;> simp_all
        simp only [hcond, Bool.false_eq_true, if_false] at hx
        unfold writeN at hx
        split at hx
        · omega
        · cases hx

end Dovi.WriteErrors
