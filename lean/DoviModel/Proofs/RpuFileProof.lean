import DoviModel.Model.RpuFile
import DoviModel.Proofs.Esc
/-!
# Helper lemmas for C14 — the chunked RPU-file reader (`Model/RpuFile.lean`)

* `findSC4` algebra (shift, append, prefix), `NoSC` = "contains no `00 00 00 01`";
* `renderFile` = what `write_rpu_file` writes; `take_renderFile` = what a read chunk of it looks like;
* `step_spec` = one loop iteration on a structured file `pre ++ renderFile es`;
* `loop_total` (success for large enough chunk sizes) and `loop_partial` (any chunk size: a successful
  result is the parse of *all* slices);
* `exists_decomp` = every byte string is `pre ++ renderFile es` with start-code-free `pre`, `es`.
-/
namespace Dovi.RpuFileProof
open Dovi Dovi.RpuFile

/-! ## `findSC4` -/

theorem findSC4_cons (i : Nat) (a : UInt8) (rest : Bytes) :
    findSC4 i (a :: rest) =
      if (a :: rest).take 4 = [0, 0, 0, 1] then i :: findSC4 (i+1) rest else findSC4 (i+1) rest := by
  rw [findSC4.eq_def]
  split
  · rename_i h
    injection h with h1 h2
    subst h1 h2
    simp
  · rename_i x r hno h
    injection h with h1 h2
    subst h1 h2
    have : ¬ (a :: rest).take 4 = [0, 0, 0, 1] := by
      intro ht
      rcases rest with _ | ⟨b, _ | ⟨c, _ | ⟨d, r'⟩⟩⟩ <;> simp at ht
      obtain ⟨rfl, rfl, rfl, rfl⟩ := ht
      exact hno _ rfl rfl
    simp only [this, if_false]
  · rename_i h; cases h

@[simp] theorem findSC4_nil (i : Nat) : findSC4 i [] = [] := by
  rw [findSC4.eq_def]

theorem findSC4_shift (i : Nat) (l : Bytes) : findSC4 i l = (findSC4 0 l).map (· + i) := by
  induction l generalizing i with
  | nil => simp
  | cons a rest ih =>
    rw [findSC4_cons i, findSC4_cons 0, ih (i+1), ih (0+1)]
    split <;> simp [List.map_map, Function.comp_def] <;> intros <;> omega

/-- contains no `00 00 00 01` -/
def NoSC (l : Bytes) : Prop := findSC4 0 l = []

instance (l : Bytes) : Decidable (NoSC l) := by unfold NoSC; infer_instance

theorem findSC4_of_noSC {l : Bytes} (h : NoSC l) (i : Nat) : findSC4 i l = [] := by
  rw [findSC4_shift, h]; rfl

theorem noSC_nil : NoSC [] := by simp [NoSC]

theorem noSC_cons (a : UInt8) (l : Bytes) :
    NoSC (a :: l) ↔ ¬ (a :: l).take 4 = [0, 0, 0, 1] ∧ NoSC l := by
  unfold NoSC
  rw [findSC4_cons]
  split
  · simp_all
  · rename_i h
    simp only [h, not_false_eq_true, true_and]
    rw [findSC4_shift]; simp

theorem NoSC.tail {a : UInt8} {l : Bytes} (h : NoSC (a :: l)) : NoSC l := ((noSC_cons a l).mp h).2

theorem NoSC.suffix {l1 l2 : Bytes} (h : NoSC (l1 ++ l2)) : NoSC l2 := by
  induction l1 with
  | nil => simpa using h
  | cons a l ih => exact ih (NoSC.tail h)

/-- a continuation that cannot complete a start code begun earlier: empty, or starting with `00 00 00` -/
def ZStart (R : Bytes) : Prop := R = [] ∨ ∃ Y, R = 0 :: 0 :: 0 :: Y

theorem findSC4_append_noSC {e : Bytes} (he : NoSC e) {R : Bytes} (hR : ZStart R) (j : Nat) :
    findSC4 j (e ++ R) = findSC4 (j + e.length) R := by
  induction e generalizing j with
  | nil => simp
  | cons a e' ih =>
    have h1 := (noSC_cons a e').mp he
    rw [List.cons_append, findSC4_cons, ih h1.2 (j+1)]
    have : ¬ (a :: (e' ++ R)).take 4 = [0, 0, 0, 1] := by
      intro ht
      apply h1.1
      rcases e' with _ | ⟨b, _ | ⟨c, _ | ⟨d, r'⟩⟩⟩
      · rcases hR with rfl | ⟨Y, rfl⟩ <;> simp at ht
      · rcases hR with rfl | ⟨Y, rfl⟩ <;> simp at ht
      · rcases hR with rfl | ⟨Y, rfl⟩ <;> simp at ht
      · simpa using ht
    simp only [this, if_false, List.length_cons]
    congr 1; omega

theorem noSC_append_zeros {e : Bytes} (he : NoSC e) : NoSC (e ++ [0, 0, 0]) := by
  unfold NoSC
  rw [findSC4_append_noSC he (Or.inr ⟨[], rfl⟩)]
  simp [findSC4_cons]

theorem NoSC.take {l : Bytes} (h : NoSC l) (n : Nat) : NoSC (l.take n) := by
  induction l generalizing n with
  | nil => simpa using h
  | cons a l ih =>
    cases n with
    | zero => simpa using noSC_nil
    | succ n =>
      have h1 := (noSC_cons a l).mp h
      rw [List.take_succ_cons, noSC_cons]
      refine ⟨?_, ih h1.2 n⟩
      intro ht
      apply h1.1
      rw [← List.take_succ_cons, List.take_take] at ht
      have hl := congrArg List.length ht
      simp only [List.length_take, List.length_cons] at hl
      have : min 4 (n+1) = 4 := by
        simp only [List.length_nil] at hl; omega
      rwa [this] at ht

/-- block `00 00 00 01 ++ e` followed by nothing or by another start code -/
theorem findSC4_block {e : Bytes} (he : NoSC e) {R : Bytes} (hR : ZStart R) (i : Nat) :
    findSC4 i (0 :: 0 :: 0 :: 1 :: (e ++ R)) = i :: findSC4 (i + 4 + e.length) R := by
  rw [findSC4_cons, findSC4_cons (i+1), findSC4_cons (i+1+1), findSC4_cons (i+1+1+1),
    findSC4_append_noSC he hR]
  simp

/-- the start-code test the real reader applies one byte before the next offset (`size - 1` branch) can
never succeed: two start codes cannot begin at adjacent positions -/
theorem adjacent_start_codes_impossible (l : Bytes) (b : Nat) (h : (l.drop (b+1)).take 4 = [0, 0, 0, 1]) :
    (l.drop b).take 4 ≠ [0, 0, 0, 1] := by
  intro h2
  have e : l.drop (b+1) = (l.drop b).drop 1 := by simp [List.drop_drop]
  rw [e] at h
  generalize l.drop b = m at h h2
  rcases m with _ | ⟨a, _ | ⟨b, _ | ⟨c, _ | ⟨d, r'⟩⟩⟩⟩ <;> simp at h h2
  obtain ⟨rfl, rfl, rfl, rfl⟩ := h2
  rcases r' with _ | ⟨x, r⟩ <;> simp at h


/-! ## the written file -/

/-- one written entry: 4-byte start code ++ escaped RPU payload (`NALUnit::write_with_preset(.., Four, ..)`) -/
abbrev blk (e : Bytes) : Bytes := 0 :: 0 :: 0 :: 1 :: e

/-- what `write_rpu_file` writes for the list of (escaped) payloads -/
def renderFile (entries : List Bytes) : Bytes := entries.flatMap (fun e => [0, 0, 0, 1] ++ e)

@[simp] theorem renderFile_nil : renderFile [] = [] := rfl
theorem renderFile_cons (e : Bytes) (es : List Bytes) :
    renderFile (e :: es) = 0 :: 0 :: 0 :: 1 :: (e ++ renderFile es) := by
  simp [renderFile]
theorem renderFile_append (a b : List Bytes) : renderFile (a ++ b) = renderFile a ++ renderFile b := by
  simp [renderFile]

theorem renderFile_length_cons (e : Bytes) (es : List Bytes) :
    (renderFile (e :: es)).length = e.length + 4 + (renderFile es).length := by
  rw [renderFile_cons]; simp; omega

theorem zstart_renderFile (es : List Bytes) : ZStart (renderFile es) := by
  cases es with
  | nil => exact Or.inl rfl
  | cons e es => exact Or.inr ⟨_, renderFile_cons e es⟩

theorem zstart_renderFile_append (es : List Bytes) {R : Bytes} (hR : ZStart R) : ZStart (renderFile es ++ R) := by
  cases es with
  | nil => simpa using hR
  | cons e es => exact Or.inr ⟨_, by rw [renderFile_cons]; rfl⟩

/-- the block start positions -/
def starts (i : Nat) : List Bytes → List Nat
  | [] => []
  | e :: es => i :: starts (i + 4 + e.length) es

@[simp] theorem starts_length (i : Nat) (es : List Bytes) : (starts i es).length = es.length := by
  induction es generalizing i with
  | nil => rfl
  | cons e es ih => simp [starts, ih]

theorem findSC4_renderFile_append {es : List Bytes} (hes : ∀ e ∈ es, NoSC e) {R : Bytes} (hR : ZStart R)
    (i : Nat) :
    findSC4 i (renderFile es ++ R) = starts i es ++ findSC4 (i + (renderFile es).length) R := by
  induction es generalizing i with
  | nil => simp [starts]
  | cons e es ih =>
    have he : NoSC e := hes e (by simp)
    have hes' : ∀ e ∈ es, NoSC e := fun x hx => hes x (by simp [hx])
    rw [renderFile_cons, List.cons_append, List.cons_append, List.cons_append, List.cons_append,
      List.append_assoc, findSC4_block he (zstart_renderFile_append es hR), ih hes']
    simp only [starts, List.cons_append, List.length_cons, List.length_append]
    congr 3; omega

theorem findSC4_pre_renderFile {pre : Bytes} (hpre : NoSC pre) {es : List Bytes} (hes : ∀ e ∈ es, NoSC e)
    {R : Bytes} (hR : ZStart R) :
    findSC4 0 (pre ++ (renderFile es ++ R)) =
      starts pre.length es ++ findSC4 (pre.length + (renderFile es).length) R := by
  rw [findSC4_append_noSC hpre (zstart_renderFile_append es hR), findSC4_renderFile_append hes hR]
  simp

/-- a read chunk of a written file: whole entries, then a start code and less than (next entry + 4) bytes -/
theorem take_renderFile (es : List Bytes) (hes : es ≠ []) (m : Nat) (hm : 4 ≤ m) :
    ∃ done last more q, es = done ++ last :: more ∧
      (renderFile es).take m = renderFile done ++ blk q ∧
      q ++ (renderFile es).drop m = last ++ renderFile more ∧
      q.length < last.length + 4 := by
  induction es generalizing m with
  | nil => exact absurd rfl hes
  | cons e es' ih =>
    by_cases hcase : es' = [] ∨ m < e.length + 8
    · refine ⟨[], e, es', (e ++ renderFile es').take (m - 4), rfl, ?_, ?_, ?_⟩
      · obtain ⟨m', rfl⟩ : ∃ m', m = m' + 4 := ⟨m - 4, by omega⟩
        rw [renderFile_cons]
        simp
      · obtain ⟨m', rfl⟩ : ∃ m', m = m' + 4 := ⟨m - 4, by omega⟩
        rw [renderFile_cons]
        simp
      · rcases hcase with rfl | h
        · simp only [renderFile_nil, List.append_nil, List.length_take]; omega
        · simp only [List.length_take]; omega
    · have h1 : es' ≠ [] := fun h => hcase (Or.inl h)
      have h2 : e.length + 8 ≤ m := by
        rcases Nat.lt_or_ge m (e.length + 8) with h | h
        · exact absurd (Or.inr h) hcase
        · exact h
      obtain ⟨done, last, more, q, h3, h4, h5, h6⟩ := ih h1 (m - 4 - e.length) (by omega)
      refine ⟨e :: done, last, more, q, by rw [h3]; rfl, ?_, ?_, h6⟩
      · obtain ⟨m', rfl⟩ : ∃ m', m = m' + 4 := ⟨m - 4, by omega⟩
        rw [renderFile_cons, renderFile_cons]
        simp only [List.take_succ_cons, List.cons_append, blk]
        rw [List.take_append, List.take_of_length_le (by omega)]
        have : m' + 4 - 4 - e.length = m' - e.length := by omega
        rw [this] at h4
        rw [h4]; simp [blk]
      · obtain ⟨m', rfl⟩ : ∃ m', m = m' + 4 := ⟨m - 4, by omega⟩
        have : m' + 4 - 4 - e.length = m' - e.length := by omega
        rw [this] at h5
        rw [renderFile_cons]
        simp only [List.drop_succ_cons]
        rw [List.drop_append, List.drop_of_length_le (by omega)]
        simpa using h5

/-! ## slices -/

/-- the slices the reader takes: from each listed offset to the next one, the last up to `endb` -/
def sl (chunk : Bytes) (offs : List Nat) (endb : Nat) : List Bytes :=
  (offs.zip ((offs ++ [endb]).drop 1)).map fun (a, b) => (chunk.drop a).take (b - a)

@[simp] theorem sl_length (chunk : Bytes) (offs : List Nat) (endb : Nat) : (sl chunk offs endb).length = offs.length := by
  simp [sl]

theorem sl_renderFile (pre : Bytes) (done : List Bytes) (X : Bytes) :
    sl (pre ++ (renderFile done ++ X)) (starts pre.length done) (pre.length + (renderFile done).length)
      = done.map blk := by
  induction done generalizing pre with
  | nil => simp [sl, starts]
  | cons e d ih =>
    have ih' := ih (pre ++ blk e)
    have hl : (pre ++ blk e).length = pre.length + 4 + e.length := by simp; omega
    rw [hl] at ih'
    have hch : pre ++ (renderFile (e :: d) ++ X) = (pre ++ blk e) ++ (renderFile d ++ X) := by
      rw [renderFile_cons]; simp [blk]
    have hlen : pre.length + (renderFile (e :: d)).length = pre.length + 4 + e.length + (renderFile d).length := by
      rw [renderFile_length_cons]; omega
    rw [hch, hlen]
    have hfirst : (((pre ++ blk e) ++ (renderFile d ++ X)).drop pre.length).take (4 + e.length) = blk e := by
      rw [List.append_assoc, List.drop_left]
      have : (blk e).length = 4 + e.length := by simp; omega
      rw [← this, List.take_left]
    cases d with
    | nil =>
      simp only [starts, sl, List.map_cons, List.map_nil, renderFile_nil, List.length_nil, Nat.add_zero,
        List.cons_append, List.nil_append, List.drop_succ_cons, List.drop_zero, List.zip_cons_cons,
        List.zip_nil_right]
      have : pre.length + 4 + e.length - pre.length = 4 + e.length := by omega
      rw [this]
      simp only [renderFile_nil, List.nil_append] at hfirst
      rw [hfirst]
    | cons e2 d2 =>
      simp only [starts, sl, List.cons_append, List.drop_succ_cons, List.drop_zero, List.zip_cons_cons,
        List.map_cons] at ih' ⊢
      have : pre.length + 4 + e.length - pre.length = 4 + e.length := by omega
      rw [this, hfirst]
      congr 1

/-! ## `parseSlices` -/

theorem parseSlices_cons (d : Bytes) (ds : List Bytes) :
    parseSlices (d :: ds) =
      match parseNalu d with
      | .ok r => (r :: (parseSlices ds).1, (parseSlices ds).2.1, (parseSlices ds).2.2)
      | .error => ((parseSlices ds).1, true, (parseSlices ds).2.2)
      | .panic => ((parseSlices ds).1, (parseSlices ds).2.1, true) := by
  rw [parseSlices]
  split
  rename_i heq
  rw [heq]
  cases parseNalu d <;> rfl

theorem parseSlices_length_le (l : List Bytes) : (parseSlices l).1.length ≤ l.length := by
  induction l with
  | nil => simp [parseSlices]
  | cons d ds ih =>
    rw [parseSlices_cons]
    split <;> simp <;> omega

theorem parseSlices_failed (l : List Bytes) (h : (parseSlices l).2.1 = true) :
    (parseSlices l).1.length < l.length := by
  induction l with
  | nil => simp [parseSlices] at h
  | cons d ds ih =>
    have hle := parseSlices_length_le ds
    rw [parseSlices_cons] at h ⊢
    split at h <;> simp at h ⊢
    · exact ih h
    · omega
    · have := ih h; omega

/-- no failure, no panic: every slice parsed, and the results are the returned list in order -/
theorem parseSlices_ok_iff (l : List Bytes) (rs : List Rpu) :
    parseSlices l = (rs, false, false) ↔ l.map parseNalu = rs.map .ok := by
  induction l generalizing rs with
  | nil =>
    simp only [parseSlices, List.map_nil]
    constructor
    · intro h; injection h with h1 _; subst h1; rfl
    · intro h
      have : rs = [] := by simpa using h.symm
      rw [this]
  | cons d ds ih =>
    rw [parseSlices_cons]
    cases hd : parseNalu d with
    | ok r =>
      simp only [List.map_cons, hd]
      constructor
      · intro h
        injection h with h1 h2
        injection h2 with h2 h3
        subst h1
        have := (ih (parseSlices ds).1).mp (Prod.ext rfl (Prod.ext h2 h3))
        simp [this]
      · intro h
        cases rs with
        | nil => simp at h
        | cons r' rs' =>
          simp only [List.map_cons, List.cons.injEq, Res.ok.injEq] at h
          have := (ih rs').mpr h.2
          rw [this, h.1]
    | error =>
      simp only [List.map_cons, hd]
      constructor
      · intro h; injection h with _ h2; injection h2 with h2 _; cases h2
      · intro h
        cases rs with
        | nil => simp at h
        | cons r' rs' => simp at h
    | panic =>
      simp only [List.map_cons, hd]
      constructor
      · intro h; injection h with _ h2; injection h2 with _ h3; cases h3
      · intro h
        cases rs with
        | nil => simp at h
        | cons r' rs' => simp at h


/-! ## one loop iteration -/

/-- the part of `step` after the slices have been determined -/
def stepTail (s : St) (n : Nat) (slices : List Bytes) (endBuf rest' : Bytes) : Step :=
  if (parseSlices slices).2.2 then .panic
  else if (parseSlices slices).2.1 then
    .done { s with rpus := s.rpus ++ (parseSlices slices).1, offsetsCount := s.offsetsCount + n, warned := true }
  else if (s.rpus ++ (parseSlices slices).1).isEmpty then .bail
  else .continue_ { rest := rest', chunk := endBuf, rpus := s.rpus ++ (parseSlices slices).1,
                    offsetsCount := s.offsetsCount + n, warned := false }

theorem step_nonfinal (c : Nat) (s : St) (offsets : List Nat) (lastOff : Nat) (hc : 1 ≤ c)
    (hfull : c ≤ s.rest.length)
    (ho : findSC4 0 (s.chunk ++ s.rest.take c) = offsets) (hl : offsets.getLast? = some lastOff) :
    step c s = stepTail s offsets.dropLast.length (sl (s.chunk ++ s.rest.take c) offsets.dropLast lastOff)
      ((s.chunk ++ s.rest.take c).drop lastOff) (s.rest.drop c) := by
  have hlen : (s.rest.take c).length = c := by simp; omega
  unfold step
  simp only [hlen, ho, hl]
  have h0 : (c == 0) = false := by simp; omega
  simp only [h0, Bool.false_and, Bool.false_eq_true, if_false, Nat.lt_irrefl]
  unfold stepTail sl
  generalize parseSlices _ = ps
  obtain ⟨rs, failed, pan⟩ := ps
  simp only

theorem step_final (c : Nat) (s : St) (offsets : List Nat) (lastOff : Nat)
    (hshort : s.rest.length < c) (hne : ¬ (s.rest = [] ∧ s.chunk = []))
    (ho : findSC4 0 (s.chunk ++ s.rest) = offsets) (hl : offsets.getLast? = some lastOff) :
    step c s = stepTail s offsets.length (sl (s.chunk ++ s.rest) offsets (s.chunk ++ s.rest).length)
      [] (s.rest.drop c) := by
  have htake : s.rest.take c = s.rest := List.take_of_length_le (by omega)
  unfold step
  simp only [htake, ho, hl]
  have h0 : (s.rest.length == 0 && s.chunk.isEmpty) = false := by
    cases hr : s.rest <;> cases hk : s.chunk <;> simp_all
  simp only [h0, Bool.false_eq_true, if_false, hshort, if_true]
  unfold stepTail sl
  generalize parseSlices _ = ps
  obtain ⟨rs, failed, pan⟩ := ps
  simp only

theorem step_bail (c : Nat) (s : St) (hne : ¬ (s.rest.take c = [] ∧ s.chunk = []))
    (ho : findSC4 0 (s.chunk ++ s.rest.take c) = []) : step c s = .bail := by
  unfold step
  have h0 : ((s.rest.take c).length == 0 && s.chunk.isEmpty) = false := by
    cases hr : s.rest.take c <;> cases hk : s.chunk <;> simp_all
  simp only [h0, ho, Bool.false_eq_true, if_false, List.getLast?_nil]

theorem step_done (c : Nat) (s : St) (h1 : s.rest = []) (h2 : s.chunk = []) : step c s = .done s := by
  unfold step
  simp [h1, h2]

/-- a start-code-free string followed by a written file, cut before the first start code is complete -/
theorem noSC_take_append_render {e : Bytes} (he : NoSC e) (es : List Bytes) (n : Nat) (hn : n < e.length + 4) :
    NoSC ((e ++ renderFile es).take n) := by
  cases es with
  | nil => simpa using he.take n
  | cons e2 es2 =>
    have h1 : (e ++ renderFile (e2 :: es2)).take n = (e ++ [0, 0, 0]).take n := by
      have e1 : e ++ renderFile (e2 :: es2) = (e ++ [0, 0, 0]) ++ (1 :: (e2 ++ renderFile es2)) := by
        rw [renderFile_cons]; simp
      have hmin : n = min n (e ++ [0, 0, 0]).length := by simp; omega
      rw [e1, hmin, ← List.take_take, List.take_left]
      rw [← hmin]
    rw [h1]
    exact (noSC_append_zeros he).take n

theorem findSC4_blk {q : Bytes} (hq : NoSC q) (j : Nat) : findSC4 j (blk q) = [j] := by
  have := findSC4_block hq (Or.inl rfl : ZStart []) j
  simpa using this

theorem step_spec (c : Nat) (s : St) (pre : Bytes) (es : List Bytes) (hc : 1 ≤ c)
    (hinv : s.chunk ++ s.rest = pre ++ renderFile es) (hpre : NoSC pre) (hes : ∀ e ∈ es, NoSC e)
    (hne : ¬ (s.rest = [] ∧ s.chunk = [])) :
    (s.rest.length < c ∧ es = [] ∧ step c s = .bail) ∨
    (s.rest.length < c ∧ es ≠ [] ∧ step c s = stepTail s es.length (es.map blk) [] (s.rest.drop c)) ∨
    (c ≤ s.rest.length ∧ (es = [] ∨ s.chunk.length + c < pre.length + 4) ∧ step c s = .bail) ∨
    (c ≤ s.rest.length ∧ ∃ done last more q, es = done ++ last :: more ∧
      q ++ s.rest.drop c = last ++ renderFile more ∧ q.length < last.length + 4 ∧
      s.chunk.length + c = pre.length + (renderFile done).length + 4 + q.length ∧
      step c s = stepTail s done.length (done.map blk) (blk q) (s.rest.drop c)) := by
  rcases Nat.lt_or_ge s.rest.length c with hshort | hfull
  · -- final read
    have htake : s.rest.take c = s.rest := List.take_of_length_le (by omega)
    have hoff : findSC4 0 (s.chunk ++ s.rest) = starts pre.length es := by
      have := findSC4_pre_renderFile hpre hes (Or.inl rfl : ZStart [])
      simpa [hinv] using this
    by_cases he : es = []
    · refine Or.inl ⟨hshort, he, ?_⟩
      apply step_bail
      · rw [htake]; exact hne
      · rw [htake, hoff, he]; rfl
    · refine Or.inr (Or.inl ⟨hshort, he, ?_⟩)
      obtain ⟨lastOff, hlast⟩ : ∃ x, (starts pre.length es).getLast? = some x := by
        cases es with
        | nil => exact absurd rfl he
        | cons e es' => simp [starts, List.getLast?_cons]
      rw [step_final c s _ lastOff hshort hne hoff hlast, hinv, starts_length]
      have := sl_renderFile pre es []
      simp only [List.append_nil] at this
      rw [List.length_append, this]
  · -- full read
    have hchunk : s.chunk ++ s.rest.take c = (pre ++ renderFile es).take (s.chunk.length + c) := by
      rw [← hinv, List.take_append, List.take_of_length_le (l := s.chunk) (by omega)]
      congr 2; omega
    have hrest : s.rest.drop c = (pre ++ renderFile es).drop (s.chunk.length + c) := by
      rw [← hinv, List.drop_append, List.drop_of_length_le (l := s.chunk) (by omega)]
      simp
    have hne' : ¬ (s.rest.take c = [] ∧ s.chunk = []) := by
      intro h
      have := congrArg List.length h.1
      rw [List.length_take, List.length_nil] at this; omega
    by_cases hsmall : es = [] ∨ s.chunk.length + c < pre.length + 4
    · refine Or.inr (Or.inr (Or.inl ⟨hfull, hsmall, ?_⟩))
      apply step_bail _ _ hne'
      rw [hchunk]
      rcases hsmall with rfl | hlt
      · simpa [NoSC] using hpre.take (s.chunk.length + c)
      · exact noSC_take_append_render hpre es _ hlt
    · refine Or.inr (Or.inr (Or.inr ⟨hfull, ?_⟩))
      have he : es ≠ [] := fun h => hsmall (Or.inl h)
      have hm : pre.length + 4 ≤ s.chunk.length + c := by
        rcases Nat.lt_or_ge (s.chunk.length + c) (pre.length + 4) with h | h
        · exact absurd (Or.inr h) hsmall
        · exact h
      obtain ⟨done, last, more, q, h1, h2, h3, h4⟩ :=
        take_renderFile es he (s.chunk.length + c - pre.length) (by omega)
      have hdone : ∀ e ∈ done, NoSC e := fun e he' => hes e (by rw [h1]; simp [he'])
      have hlastSC : NoSC last := hes last (by rw [h1]; simp)
      have hchunk2 : s.chunk ++ s.rest.take c = pre ++ (renderFile done ++ blk q) := by
        rw [hchunk, List.take_append, List.take_of_length_le (by omega), h2]
      have hrest2 : q ++ s.rest.drop c = last ++ renderFile more := by
        rw [hrest, List.drop_append, List.drop_of_length_le (by omega)]
        simpa using h3
      have hq : NoSC q := by
        have e1 : q = (q ++ s.rest.drop c).take q.length := by simp
        rw [e1, hrest2]
        exact noSC_take_append_render hlastSC more _ h4
      have hlen : s.chunk.length + c = pre.length + (renderFile done).length + 4 + q.length := by
        have := congrArg List.length hchunk2
        simp only [List.length_append, List.length_take, List.length_cons] at this
        omega
      refine ⟨done, last, more, q, h1, hrest2, h4, hlen, ?_⟩
      have hoff : findSC4 0 (s.chunk ++ s.rest.take c)
          = starts pre.length done ++ [pre.length + (renderFile done).length] := by
        rw [hchunk2, findSC4_pre_renderFile hpre hdone (Or.inr ⟨_, rfl⟩ : ZStart (blk q)), findSC4_blk hq]
      rw [step_nonfinal c s _ (pre.length + (renderFile done).length) hc hfull hoff (by simp)]
      simp only [List.dropLast_concat, starts_length]
      rw [hchunk2, sl_renderFile]
      congr 1
      rw [← List.append_assoc]
      have : pre.length + (renderFile done).length = (pre ++ renderFile done).length := by simp
      rw [this, List.drop_left]


/-! ## the loop -/

theorem parseSlices_map_ok (f : Bytes → Rpu) (l : List Bytes) (h : ∀ e ∈ l, parseNalu (blk e) = .ok (f e)) :
    parseSlices (l.map blk) = (l.map f, false, false) := by
  rw [parseSlices_ok_iff]
  simp only [List.map_map]
  apply List.map_congr_left
  intro e he
  exact h e he

theorem renderFile_ne_nil (e : Bytes) (es : List Bytes) : renderFile (e :: es) ≠ [] := by
  rw [renderFile_cons]; simp

theorem loop_succ (c fuel : Nat) (s : St) :
    loop c (fuel+1) s = match step c s with
      | .continue_ s' => loop c fuel s'
      | .done s' => .ok s'
      | .bail => .error
      | .panic => .panic := rfl

/-- total correctness: on a written file (possibly preceded by start-code-free bytes `pre`) whose entries all
parse, with a chunk size that lets the first read see two start codes (or the whole file), the loop ends with
all RPUs -/
theorem loop_total (c : Nat) (hc : 1 ≤ c) (f : Bytes → Rpu) :
    ∀ (fuel : Nat) (s : St) (pre : Bytes) (l : List Bytes) (e0 : Bytes), l.head? = some e0 → NoSC pre →
      (∀ e ∈ l, NoSC e) → (∀ e ∈ l, parseNalu (blk e) = .ok (f e)) →
      s.chunk ++ s.rest = pre ++ renderFile l →
      (s.rpus = [] → s.chunk = [] ∧ (pre.length + e0.length + 8 ≤ c ∨ s.rest.length < c)) →
      (s.rpus ≠ [] → pre = [] ∧ 4 ≤ s.chunk.length) →
      s.rest.length + 2 ≤ fuel →
      loop c fuel s = .ok { rest := [], chunk := [], rpus := s.rpus ++ l.map f,
                            offsetsCount := s.offsetsCount + l.length, warned := false } := by
  intro fuel
  induction fuel with
  | zero => intro s pre l e0 _ _ _ _ _ _ _ hf; omega
  | succ fuel ih =>
    intro s pre l e0 hhead hpre hsc hp hinv hfirst hlater hfuel
    have hl : l ≠ [] := by intro h; rw [h] at hhead; cases hhead
    have hne : ¬ (s.rest = [] ∧ s.chunk = []) := by
      intro h
      rw [h.1, h.2] at hinv
      cases l with
      | nil => exact hl rfl
      | cons a b =>
        have := congrArg List.length hinv
        simp only [List.length_append, renderFile_length_cons, List.length_nil] at this
        omega
    rw [loop_succ]
    rcases step_spec c s pre l hc hinv hpre hsc hne with
      ⟨_, h2, _⟩ | ⟨hshort, _, hstep⟩ | ⟨hfull, hsmall, _⟩ | ⟨hfull, done, last, more, q, h1, h2, h3, h4, hstep⟩
    · exact absurd h2 hl
    · rw [hstep]
      have hps := parseSlices_map_ok f l hp
      have hemp : (s.rpus ++ l.map f).isEmpty = false := by
        cases l with
        | nil => exact absurd rfl hl
        | cons a b => simp
      simp only [stepTail, hps, Bool.false_eq_true, if_false, hemp]
      have hdrop : s.rest.drop c = [] := List.drop_of_length_le (by omega)
      rw [hdrop]
      obtain ⟨fuel', rfl⟩ : ∃ k, fuel = k + 1 := ⟨fuel - 1, by omega⟩
      rw [loop_succ, step_done _ _ rfl rfl]
    · exfalso
      rcases hsmall with h | h
      · exact hl h
      · by_cases hr : s.rpus = []
        · obtain ⟨hk, hb⟩ := hfirst hr
          rw [hk] at h
          simp only [List.length_nil] at h
          omega
        · obtain ⟨hp0, hk⟩ := hlater hr
          rw [hp0] at h
          simp only [List.length_nil] at h
          omega
    · rw [hstep]
      have hdone : ∀ e ∈ done, parseNalu (blk e) = .ok (f e) := fun e he => hp e (by rw [h1]; simp [he])
      have hps := parseSlices_map_ok f done hdone
      have hemp : (s.rpus ++ done.map f).isEmpty = false := by
        by_cases hr : s.rpus = []
        · obtain ⟨hk, hb⟩ := hfirst hr
          cases done with
          | nil =>
            exfalso
            rw [h1] at hhead
            simp only [List.nil_append, List.head?_cons, Option.some.injEq] at hhead
            subst hhead
            rw [hk] at h4
            simp only [List.length_nil, renderFile_nil] at h4
            omega
          | cons a b => simp
        · cases hs : s.rpus with
          | nil => exact absurd hs hr
          | cons a b => simp
      simp only [stepTail, hps, Bool.false_eq_true, if_false, hemp]
      have hne2 : s.rpus ++ done.map f ≠ [] := by
        intro h; rw [h] at hemp; simp at hemp
      rw [ih _ [] (last :: more) last rfl noSC_nil
        (fun e he => hsc e (by rw [h1]; simp only [List.mem_append]; exact Or.inr he))
        (fun e he => hp e (by rw [h1]; simp only [List.mem_append]; exact Or.inr he))
        (by simp only [blk]; rw [renderFile_cons, ← h2]; simp)
        (fun h => absurd h hne2)
        (fun _ => ⟨rfl, by simp⟩)
        (by simp only [List.length_drop]; omega)]
      simp only [h1, List.map_append, List.append_assoc, List.length_append, List.length_cons]
      congr 2
      omega

/-- partial correctness, every chunk size ≥ 1, any start-code-structured content: if the loop ends normally,
either fewer RPUs than start codes were collected (an error is reported), or all slices parsed and the
collected RPUs are their parses, in order -/
theorem loop_partial (c : Nat) (hc : 1 ≤ c) :
    ∀ (fuel : Nat) (s : St) (pre : Bytes) (es : List Bytes) (s' : St),
      NoSC pre → (∀ e ∈ es, NoSC e) → s.chunk ++ s.rest = pre ++ renderFile es →
      s.rpus.length = s.offsetsCount → s.rest.length + 2 ≤ fuel → loop c fuel s = .ok s' →
      s'.rpus.length < s'.offsetsCount ∨
        ∃ rs, s'.rpus = s.rpus ++ rs ∧ s'.offsetsCount = s.offsetsCount + es.length ∧
          (es.map blk).map parseNalu = rs.map .ok := by
  intro fuel
  induction fuel with
  | zero => intro s pre es s' _ _ _ _ hf; omega
  | succ fuel ih =>
    intro s pre es s' hpre hsc hinv hcnt hfuel hloop
    rw [loop_succ] at hloop
    by_cases hne : s.rest = [] ∧ s.chunk = []
    · rw [step_done _ _ hne.1 hne.2] at hloop
      injection hloop with hloop
      subst hloop
      have hes : es = [] := by
        rw [hne.1, hne.2] at hinv
        cases es with
        | nil => rfl
        | cons a b =>
          exfalso
          have := congrArg List.length hinv
          simp only [List.length_append, renderFile_length_cons, List.length_nil] at this
          omega
      exact Or.inr ⟨[], by simp, by simp [hes], by simp [hes]⟩
    · rcases step_spec c s pre es hc hinv hpre hsc hne with
        ⟨_, _, hstep⟩ | ⟨hshort, _, hstep⟩ | ⟨_, _, hstep⟩ | ⟨hfull, done, last, more, q, h1, h2, h3, h4, hstep⟩
      · rw [hstep] at hloop; cases hloop
      · rw [hstep] at hloop
        unfold stepTail at hloop
        by_cases hpan : (parseSlices (es.map blk)).2.2 = true
        · simp only [hpan, if_true] at hloop; cases hloop
        · by_cases hfail : (parseSlices (es.map blk)).2.1 = true
          · simp only [hpan, hfail, if_true, Bool.false_eq_true, if_false] at hloop
            injection hloop with hloop
            subst hloop
            left
            have := parseSlices_failed _ hfail
            simp only [List.length_append, List.length_map] at this ⊢
            omega
          · simp only [hpan, hfail, Bool.false_eq_true, if_false] at hloop
            by_cases hemp : (s.rpus ++ (parseSlices (es.map blk)).1).isEmpty = true
            · simp only [hemp, if_true] at hloop; cases hloop
            · simp only [hemp, Bool.false_eq_true, if_false] at hloop
              obtain ⟨fuel', rfl⟩ : ∃ k, fuel = k + 1 := ⟨fuel - 1, by omega⟩
              have hdrop : s.rest.drop c = [] := List.drop_of_length_le (by omega)
              rw [hdrop, loop_succ, step_done _ _ rfl rfl] at hloop
              injection hloop with hloop
              subst hloop
              right
              refine ⟨(parseSlices (es.map blk)).1, rfl, rfl, ?_⟩
              rw [← parseSlices_ok_iff]
              exact Prod.ext rfl (Prod.ext (by simpa using hfail) (by simpa using hpan))
      · rw [hstep] at hloop; cases hloop
      · rw [hstep] at hloop
        unfold stepTail at hloop
        by_cases hpan : (parseSlices (done.map blk)).2.2 = true
        · simp only [hpan, if_true] at hloop; cases hloop
        · by_cases hfail : (parseSlices (done.map blk)).2.1 = true
          · simp only [hpan, hfail, if_true, Bool.false_eq_true, if_false] at hloop
            injection hloop with hloop
            subst hloop
            left
            have := parseSlices_failed _ hfail
            simp only [List.length_append, List.length_map] at this ⊢
            omega
          · simp only [hpan, hfail, Bool.false_eq_true, if_false] at hloop
            by_cases hemp : (s.rpus ++ (parseSlices (done.map blk)).1).isEmpty = true
            · simp only [hemp, if_true] at hloop; cases hloop
            · simp only [hemp, Bool.false_eq_true, if_false] at hloop
              have hok : (done.map blk).map parseNalu = (parseSlices (done.map blk)).1.map .ok := by
                rw [← parseSlices_ok_iff]
                exact Prod.ext rfl (Prod.ext (by simpa using hfail) (by simpa using hpan))
              have hlen1 : (parseSlices (done.map blk)).1.length = done.length := by
                have := congrArg List.length hok
                simpa using this.symm
              have hinv2 : blk q ++ s.rest.drop c = [] ++ renderFile (last :: more) := by
                simp only [blk]; rw [renderFile_cons, ← h2]; simp
              rcases ih _ [] (last :: more) s' noSC_nil
                (fun e he => hsc e (by rw [h1]; simp only [List.mem_append]; exact Or.inr he))
                hinv2 (by simp only [List.length_append]; omega)
                (by simp only [List.length_drop]; omega) hloop with hlt | ⟨rs2, hr1, hr2, hr3⟩
              · exact Or.inl hlt
              · right
                refine ⟨(parseSlices (done.map blk)).1 ++ rs2, ?_, ?_, ?_⟩
                · rw [hr1]; simp
                · rw [hr2, h1]; simp only [List.length_append, List.length_cons]; omega
                · rw [h1, List.map_append, List.map_append, List.map_append, hok, hr3]


/-! ## every byte string is `pre ++ renderFile es` -/

theorem exists_decomp (file : Bytes) :
    ∃ pre es, file = pre ++ renderFile es ∧ NoSC pre ∧ ∀ e ∈ es, NoSC e := by
  induction file with
  | nil => exact ⟨[], [], rfl, noSC_nil, by simp⟩
  | cons a file' ih =>
    obtain ⟨pre', es', hf, hp, he⟩ := ih
    by_cases hsc : (a :: file').take 4 = [0, 0, 0, 1]
    · -- a start code begins here: `pre'` is `00 00 01 ++ e`
      have h3 : ∃ e, pre' = 0 :: 0 :: 1 :: e ∧ a = 0 := by
        rw [hf] at hsc
        rcases pre' with _ | ⟨x, _ | ⟨y, _ | ⟨z, e⟩⟩⟩
        · cases es' with
          | nil => simp at hsc
          | cons e1 r => rw [renderFile_cons] at hsc; simp at hsc
        · cases es' with
          | nil => simp at hsc
          | cons e1 r => rw [renderFile_cons] at hsc; simp at hsc
        · cases es' with
          | nil => simp at hsc
          | cons e1 r => rw [renderFile_cons] at hsc; simp at hsc
        · simp at hsc
          obtain ⟨rfl, rfl, rfl, rfl⟩ := hsc
          exact ⟨e, rfl, rfl⟩
      obtain ⟨e, rfl, rfl⟩ := h3
      refine ⟨[], e :: es', ?_, noSC_nil, ?_⟩
      · rw [hf, renderFile_cons]; simp
      · intro x hx
        rcases List.mem_cons.mp hx with rfl | hx
        · exact hp.tail.tail.tail
        · exact he x hx
    · refine ⟨a :: pre', es', by rw [hf]; rfl, ?_, he⟩
      rw [noSC_cons]
      refine ⟨?_, hp⟩
      intro ht
      apply hsc
      rw [hf]
      rcases pre' with _ | ⟨x, _ | ⟨y, _ | ⟨z, e⟩⟩⟩ <;> simp at ht
      simpa using ht

theorem findSC4_structured {pre : Bytes} (hpre : NoSC pre) {es : List Bytes} (hes : ∀ e ∈ es, NoSC e) :
    findSC4 0 (pre ++ renderFile es) = starts pre.length es := by
  have := findSC4_pre_renderFile hpre hes (Or.inl rfl : ZStart [])
  simpa using this

theorem sl_structured (pre : Bytes) (es : List Bytes) :
    sl (pre ++ renderFile es) (starts pre.length es) (pre ++ renderFile es).length = es.map blk := by
  have := sl_renderFile pre es []
  simp only [List.append_nil] at this
  rw [List.length_append, this]

/-! ## `parseRpuFile` -/

theorem parseRpuFile_zero (file : Bytes) : parseRpuFile 0 file = .error := by
  unfold parseRpuFile
  rw [loop_succ]
  unfold step
  simp

/-- success, also with start-code-free bytes `pre` in front of the first start code (they are ignored) -/
theorem parseRpuFile_pre_render_ok (c : Nat) (f : Bytes → Rpu) (pre : Bytes) (l : List Bytes) (e0 : Bytes)
    (hhead : l.head? = some e0) (hpre : NoSC pre) (hsc : ∀ e ∈ l, NoSC e)
    (hp : ∀ e ∈ l, parseNalu (blk e) = .ok (f e))
    (hc : pre.length + e0.length + 8 ≤ c ∨ (pre ++ renderFile l).length < c) :
    parseRpuFile c (pre ++ renderFile l) = .ok (l.map f) := by
  have hc1 : 1 ≤ c := by omega
  have hl : l ≠ [] := by intro h; rw [h] at hhead; cases hhead
  unfold parseRpuFile
  rw [loop_total c hc1 f _ _ pre l e0 hhead hpre hsc hp (by simp) (fun _ => ⟨rfl, hc⟩)
    (fun h => absurd rfl h) (by simp)]
  have : 0 < l.length := List.length_pos_iff.mpr hl
  simp
  omega

theorem parseRpuFile_render_ok (c : Nat) (f : Bytes → Rpu) (l : List Bytes) (e0 : Bytes)
    (hhead : l.head? = some e0) (hsc : ∀ e ∈ l, NoSC e) (hp : ∀ e ∈ l, parseNalu (blk e) = .ok (f e))
    (hc : e0.length + 8 ≤ c ∨ (renderFile l).length < c) :
    parseRpuFile c (renderFile l) = .ok (l.map f) := by
  have := parseRpuFile_pre_render_ok c f [] l e0 hhead noSC_nil hsc hp (by simpa using hc)
  simpa using this

/-- the chunk-size bound is sharp: a first read that does not contain the whole file and not two complete
start codes makes the reader give up ("No NALU start codes found in chunk" / "No valid RPUs parsed for chunk") -/
theorem parseRpuFile_render_small (c : Nat) (l : List Bytes) (e0 : Bytes)
    (hhead : l.head? = some e0) (hsc : ∀ e ∈ l, NoSC e)
    (hc1 : c < e0.length + 8) (hc2 : c ≤ (renderFile l).length) :
    parseRpuFile c (renderFile l) = .error := by
  rcases Nat.eq_zero_or_pos c with rfl | hpos
  · exact parseRpuFile_zero _
  have hl : l ≠ [] := by intro h; rw [h] at hhead; cases hhead
  have hne : renderFile l ≠ [] := by
    cases l with
    | nil => exact absurd rfl hl
    | cons a b => exact renderFile_ne_nil a b
  unfold parseRpuFile
  rw [loop_succ]
  rcases step_spec c { rest := renderFile l, chunk := [], rpus := [], offsetsCount := 0, warned := false }
      [] l hpos (by simp) noSC_nil hsc (by simp [hne]) with
    ⟨h, _, _⟩ | ⟨h, _, _⟩ | ⟨_, _, hstep⟩ | ⟨_, done, last, more, q, h1, h2, h3, h4, hstep⟩
  · simp only at h; omega
  · simp only at h; omega
  · rw [hstep]
  · rw [hstep]
    cases done with
    | nil => simp [stepTail, parseSlices]
    | cons a b =>
      exfalso
      rw [h1] at hhead
      simp only [List.cons_append, List.head?_cons, Option.some.injEq] at hhead
      subst hhead
      rw [renderFile_length_cons] at h4
      simp only [List.length_nil] at h4
      omega

/-- every chunk size, any content: a successful read is the parse of every start-code-delimited slice of
the whole file, in order -/
theorem parseRpuFile_ok_whole (c : Nat) (file : Bytes) (rs : List Rpu) (h : parseRpuFile c file = .ok rs) :
    (sl file (findSC4 0 file) file.length).map parseNalu = rs.map .ok := by
  rcases Nat.eq_zero_or_pos c with rfl | hpos
  · rw [parseRpuFile_zero] at h; cases h
  obtain ⟨pre, es, rfl, hpre, hes⟩ := exists_decomp file
  rw [findSC4_structured hpre hes, sl_structured]
  unfold parseRpuFile at h
  split at h
  · rename_i s' hloop
    split at h
    · rename_i hcond
      injection h with h
      subst h
      simp only [Bool.and_eq_true, decide_eq_true_eq, beq_iff_eq] at hcond
      rcases loop_partial c hpos _ _ pre es s' hpre hes (by simp) (by simp) (by simp) hloop with hlt | ⟨rs, h1, _, h3⟩
      · omega
      · simp only [List.nil_append] at h1
        rw [h1]; exact h3
    · cases h
  · cases h
  · cases h

/-! ## link to the escaper (`Proofs/Esc.lean`) -/

open Dovi.Esc in
theorem noSC_of_noEmul (z : Nat) (l : Bytes) (h : NoEmul z l) : NoSC l := by
  induction l generalizing z with
  | nil => exact noSC_nil
  | cons b rest ih =>
    rw [noSC_cons]
    refine ⟨?_, ih _ h.2⟩
    intro ht
    rcases rest with _ | ⟨b1, _ | ⟨b2, _ | ⟨b3, r⟩⟩⟩ <;> simp at ht
    obtain ⟨rfl, rfl, rfl, rfl⟩ := ht
    simp only [NoEmul, if_true] at h
    have : (0 : UInt8) ≥ 3 := h.2.2.1 (by omega)
    exact absurd this (by decide)

/-- an escaped payload with non-zero first byte (every RPU: `0x19`) contains no `00 00 00 01` -/
theorem noSC_escape (b0 : UInt8) (xs : Bytes) (h0 : b0 ≠ 0) : NoSC (Esc.escape (b0 :: xs)) := by
  apply noSC_of_noEmul 0
  simp only [Esc.escape, Esc.esc]
  simp only [show ¬ (0 > 2 ∧ 0 ≥ 2 ∧ b0 ≤ 3) by omega, if_false, if_neg h0, Nat.zero_add]
  refine ⟨by omega, ?_⟩
  rw [if_neg h0]
  exact Esc.esc_noEmul 1 0 xs (by omega)

end Dovi.RpuFileProof
