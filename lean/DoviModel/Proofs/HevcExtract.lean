import DoviModel.Proofs.HevcGeneral
set_option linter.unusedSimpArgs false
namespace Dovi.Hevc
open Dovi

/-! ### extract-rpu: the stable sort by presentation number -/

theorem insertK_perm (x : Nat × Bytes) (l : List (Nat × Bytes)) : (insertK x l).Perm (x :: l) := by
  induction l with
  | nil => simp [insertK]
  | cons y ys ih =>
    simp only [insertK]
    split
    · exact List.Perm.refl _
    · exact (List.Perm.cons y ih).trans (List.Perm.swap x y ys)

theorem sortK_perm (l : List (Nat × Bytes)) : (sortK l).Perm l := by
  induction l with
  | nil => exact List.Perm.refl _
  | cons x xs ih => exact (insertK_perm x (sortK xs)).trans (List.Perm.cons x ih)

def SortedK (l : List (Nat × Bytes)) : Prop := l.Pairwise (fun a b => a.1 ≤ b.1)

theorem insertK_sorted (x : Nat × Bytes) (l : List (Nat × Bytes)) (h : SortedK l) : SortedK (insertK x l) := by
  induction l with
  | nil => simp [insertK, SortedK]
  | cons y ys ih =>
    simp only [insertK]
    unfold SortedK at h ih ⊢
    rw [List.pairwise_cons] at h
    split
    · rename_i hle
      rw [List.pairwise_cons]
      refine ⟨?_, List.pairwise_cons.mpr h⟩
      intro z hz
      rcases List.mem_cons.mp hz with rfl | hz
      · exact hle
      · exact Nat.le_trans hle (h.1 z hz)
    · rename_i hle
      rw [List.pairwise_cons]
      refine ⟨?_, ih h.2⟩
      intro z hz
      have := (insertK_perm x ys).mem_iff.mp hz
      rcases List.mem_cons.mp this with rfl | hz
      · omega
      · exact h.1 z hz

theorem sortK_sorted (l : List (Nat × Bytes)) : SortedK (sortK l) := by
  induction l with
  | nil => simp [sortK, SortedK]
  | cons x xs ih => exact insertK_sorted x _ ih

/-- a `≤`-sorted list that is a permutation of a `<`-sorted list is that list -/
theorem eq_of_perm_sorted (l1 l2 : List Nat) (h1 : l1.Pairwise (· ≤ ·)) (h2 : l2.Pairwise (· < ·))
    (hp : l1.Perm l2) : l1 = l2 := by
  induction l1 generalizing l2 with
  | nil => exact (List.Perm.nil_eq hp)
  | cons a t1 ih =>
    cases l2 with
    | nil => exact absurd hp.length_eq (by simp)
    | cons b t2 =>
      rw [List.pairwise_cons] at h1 h2
      have ha : a ∈ b :: t2 := hp.mem_iff.mp (by simp)
      have hb : b ∈ a :: t1 := hp.mem_iff.mpr (by simp)
      have hab : a = b := by
        rcases List.mem_cons.mp ha with h | h
        · exact h
        · rcases List.mem_cons.mp hb with h' | h'
          · exact h'.symm
          · have := h2.1 a h; have := h1.1 b h'; omega
      subst hab
      rw [ih t2 h1.2 h2.2 (List.Perm.cons_inv hp)]

theorem keyed_fst (pres : Nat → Nat) (k : Nat) (rs : List Bytes) :
    (keyed pres k rs).map Prod.fst = (List.range' k rs.length).map pres := by
  induction rs generalizing k with
  | nil => simp [keyed]
  | cons r rs ih => simp [keyed, ih, List.range'_succ]

theorem keyed_getElem (pres : Nat → Nat) (k : Nat) (rs : List Bytes) (i : Nat) (r : Bytes)
    (h : rs[i]? = some r) : (pres (k + i), r) ∈ keyed pres k rs := by
  induction rs generalizing k i with
  | nil => simp at h
  | cons r0 rs ih =>
    cases i with
    | zero => simp at h; subst h; simp [keyed]
    | succ i =>
      simp at h
      have := ih (k + 1) i h
      simp only [keyed, List.mem_cons]
      right
      have e : k + (i + 1) = k + 1 + i := by omega
      rw [e]; exact this

/-- sorting by presentation number puts the RPU collected k-th (decode order) at position `pres k`, whenever
`pres` permutes the frame numbers -/
theorem sortK_display_order (pres : Nat → Nat) (rs : List Bytes)
    (hperm : ((List.range rs.length).map pres).Perm (List.range rs.length)) (k : Nat) (r : Bytes)
    (hk : rs[k]? = some r) :
    ((sortK (keyed pres 0 rs)).map Prod.snd)[pres k]? = some r := by
  have hkeys : (sortK (keyed pres 0 rs)).map Prod.fst = List.range rs.length := by
    apply eq_of_perm_sorted
    · have := sortK_sorted (keyed pres 0 rs)
      unfold SortedK at this
      exact List.pairwise_map.mpr this
    · exact List.pairwise_lt_range
    · refine ((sortK_perm _).map Prod.fst).trans ?_
      rw [keyed_fst, List.range'_eq_map_range]
      simpa using hperm
  have hmem : (pres k, r) ∈ sortK (keyed pres 0 rs) := by
    apply (sortK_perm _).mem_iff.mpr
    have := keyed_getElem pres 0 rs k r hk
    simpa using this
  obtain ⟨j, hj, hjv⟩ := List.mem_iff_getElem.mp hmem
  have : ((sortK (keyed pres 0 rs)).map Prod.fst)[j]? = some (pres k) := by
    rw [List.getElem?_map, List.getElem?_eq_getElem hj, hjv]; rfl
  rw [hkeys] at this
  have hjk : j = pres k := by
    have hl : (sortK (keyed pres 0 rs)).length = rs.length := by
      have := congrArg List.length hkeys; simpa using this
    rw [List.getElem?_range (by omega)] at this
    simpa using this
  rw [List.getElem?_map, ← hjk, List.getElem?_eq_getElem hj, hjv]; rfl

end Dovi.Hevc
