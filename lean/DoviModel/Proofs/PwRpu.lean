import DoviModel.Proofs.PwHeader
import DoviModel.Proofs.PwMapping
/-!
# parse → write exactness for the whole RPU (the C01 statement)

`parseRpu bytes = .ok r` and `writeRpu r = .ok out` imply `out = bytes`, provided every integer coefficient part
of the mapping is below 2^52 in magnitude (`get_se` goes through `f64`: above that bound two different codes can
be read as the same value, `PwMap.readSe_rounding_witness`).
-/
namespace Dovi
open Dovi.PwDm Dovi.PwHdr

theorem writeHeader_prefix (h : Header) (p : Nat) : writeHeader { h with rpu_nal_prefix := p } = writeHeader h := rfl

/-- what `read_rpu_data` consumed is what `write_rpu_data` assembles (bit level) -/
theorem readRpuData_inv (bits rest : Bits) (r : Rpu) (hp : readRpuData bits = .ok (r, rest))
    (hlen : bits.length % 8 = 0)
    (hv : ∀ m, r.rpu_data_mapping = some m → m.curves.all Curve.piecesOk = true)
    (hs : ∀ m, r.rpu_data_mapping = some m → m.seSmall = true)
    (body : Bits) (hb : writeBody r = .ok body) :
    bits = body ++ alignPad body.length ++ r.remaining.getD [] ++ toBits 32 r.rpu_data_crc32 ++ toBits 8 0x80 ∧
    rest = [] ∧ r.modified = false ∧ r.trailing_zeroes = 0 ∧ r.rpu_data_crc32 < 2^32 ∧
    (r.remaining.getD []).length % 8 = 0 := by
  unfold readRpuData at hp
  obtain ⟨pfx, s1, e1, q1⟩ := P.bind_eq_ok.mp hp
  clear hp
  obtain ⟨u1, s1', e1', q2⟩ := P.bind_eq_ok.mp q1
  clear q1
  obtain ⟨hpfx, rfl⟩ := ensure_inv e1'
  have hpfx' : pfx = 25 := by simpa using hpfx
  subst hpfx'
  obtain ⟨h0, s2, e2, q3⟩ := P.bind_eq_ok.mp q2
  clear q2
  obtain ⟨u2, s2', e2', q4⟩ := P.bind_eq_ok.mp q3
  clear q3
  obtain ⟨hval, rfl⟩ := ensure_inv e2'
  obtain ⟨mp, s3, e3, q5⟩ := P.bind_eq_ok.mp q4
  clear q4
  obtain ⟨dm, s4, e4, q6⟩ := P.bind_eq_ok.mp q5
  clear q5
  obtain ⟨u3, s5, e5, q7⟩ := P.bind_eq_ok.mp q6
  clear q6
  obtain ⟨avail, s5', e5', q8⟩ := P.bind_eq_ok.mp q7
  clear q7
  obtain ⟨hav, rfl⟩ := available_inv e5'
  obtain ⟨rem, s6, e6, q9⟩ := P.bind_eq_ok.mp q8
  clear q8
  obtain ⟨crc, s7, e7, q10⟩ := P.bind_eq_ok.mp q9
  clear q9
  obtain ⟨last, s8, e8, q11⟩ := P.bind_eq_ok.mp q10
  clear q10
  obtain ⟨u4, s8', e8', q12⟩ := P.bind_eq_ok.mp q11
  clear q11
  obtain ⟨hlast, rfl⟩ := ensure_inv e8'
  have hlast' : last = 128 := by simpa using hlast
  subst hlast'
  obtain ⟨hr, hrest⟩ := pure_inv q12
  clear q12
  subst hr
  -- the pieces of the input
  obtain ⟨_, b1⟩ := readN_inv e1
  obtain ⟨hw, hhw, b2⟩ := writeHeader_parseHeader e2
  obtain ⟨hcrc, b7⟩ := readN_inv e7
  obtain ⟨_, b8⟩ := readN_inv e8
  have b5 := readAlignZero_inv e5
  subst b1 b2 b7 b8
  generalize hH : ({ h0 with rpu_nal_prefix := 25 } : Header) = H at *
  dsimp only at hv hs hb ⊢
  -- the writer's body
  unfold writeBody at hb
  dsimp only at hb
  have hty : h0.rpu_type = 2 := by
    -- `parseHeader` ensures rpu_type == 2
    unfold parseHeader at e2
    obtain ⟨ty, t1, f1, g1⟩ := P.bind_eq_ok.mp e2
    obtain ⟨_, t1', f1', g2⟩ := P.bind_eq_ok.mp g1
    obtain ⟨hty, _⟩ := ensure_inv f1'
    obtain ⟨fmt, t2, f2, g3⟩ := P.bind_eq_ok.mp g2
    obtain ⟨prof, t3, f3, g4⟩ := P.bind_eq_ok.mp g3
    obtain ⟨lvl, t4, f4, g5⟩ := P.bind_eq_ok.mp g4
    obtain ⟨seq, t5, f5, g6⟩ := P.bind_eq_ok.mp g5
    obtain ⟨hh, t6, f6, g7⟩ := P.bind_eq_ok.mp g6
    obtain ⟨dmp, t7, f7, g8⟩ := P.bind_eq_ok.mp g7
    obtain ⟨usep, t8, f8, g9⟩ := P.bind_eq_ok.mp g8
    obtain ⟨prev, t9, f9, g10⟩ := P.bind_eq_ok.mp g9
    obtain ⟨hfin, _⟩ := pure_inv g10
    subst hfin
    have hty' : ty = 2 := by simpa using hty
    subst hty'
    show hh.rpu_type = 2
    -- `hh` is the header before the last three fields: its `rpu_type` is the value read first
    cases seq with
    | false =>
      simp only [Bool.false_eq_true, if_false] at f6
      obtain ⟨rfl, _⟩ := pure_inv f6
      rfl
    | true =>
      simp only [if_true] at f6
      obtain ⟨chroma, a1, k1, m1⟩ := P.bind_eq_ok.mp f6
      obtain ⟨cdt, a2, k2, m2⟩ := P.bind_eq_ok.mp m1
      obtain ⟨den, a3, k3, m3⟩ := P.bind_eq_ok.mp m2
      obtain ⟨norm, a4, k4, m4⟩ := P.bind_eq_ok.mp m3
      obtain ⟨full, a5, k5, m5⟩ := P.bind_eq_ok.mp m4
      obtain ⟨hx, a6, k6, m6⟩ := P.bind_eq_ok.mp m5
      have hxty : hx.rpu_type = 2 := by
        by_cases hc : (fmt &&& 0x700 == 0) = true
        · simp only [hc, if_true] at k6
          obtain ⟨bl, c1, n1, p1⟩ := P.bind_eq_ok.mp k6
          obtain ⟨el, c2, n2, p2⟩ := P.bind_eq_ok.mp p1
          obtain ⟨_, c2', n2', p3⟩ := P.bind_eq_ok.mp p2
          obtain ⟨vdr, c3, n3, p4⟩ := P.bind_eq_ok.mp p3
          obtain ⟨sp, c4, n4, p5⟩ := P.bind_eq_ok.mp p4
          obtain ⟨rs, c5, n5, p6⟩ := P.bind_eq_ok.mp p5
          obtain ⟨es, c6, n6, p7⟩ := P.bind_eq_ok.mp p6
          obtain ⟨dr, c7, n7, p8⟩ := P.bind_eq_ok.mp p7
          obtain ⟨rfl, _⟩ := pure_inv p8
          rfl
        · simp only [hc, if_false] at k6
          obtain ⟨rfl, _⟩ := pure_inv k6
          rfl
      by_cases hc : (cdt == 0) = true
      · simp only [hc, if_true] at m6
        obtain ⟨rfl, _⟩ := pure_inv m6
        exact hxty
      · simp only [hc, if_false] at m6
        by_cases hc1 : (cdt == 1) = true
        · simp only [hc1, if_true] at m6
          obtain ⟨rfl, _⟩ := pure_inv m6
          exact hxty
        · simp [hc1] at m6
  have hHw : writeHeader H = .ok hw := by rw [← hH]; exact hhw
  have hHty : H.rpu_type = 2 := by rw [← hH]; exact hty
  have hA : wcat [writeN 8 0x19, writeHeader H] = .ok (toBits 8 25 ++ hw) := by
    simp [wcat, writeN, hHw, Res.bind]
  rw [hA] at hb
  simp only [Res.bind, hHty, beq_self_eq_true, if_true] at hb
  split at hb
  case h_2 => cases hb
  case h_3 => cases hb
  rename_i bc hbc
  injection hb with hb
  subst hb
  split at hbc
  case h_2 => cases hbc
  case h_3 => cases hbc
  rename_i mb hmw
  split at hbc
  case h_2 => cases hbc
  case h_3 => cases hbc
  rename_i db hdw
  injection hbc with hbc
  subst hbc
  -- mapping
  have hm : s2' = mb ++ s3 := by
    cases hup : H.use_prev_vdr_rpu_flag with
    | true =>
      simp only [hup, Bool.not_true, Bool.false_eq_true, if_false] at e3 hmw
      obtain ⟨_, rfl⟩ := pure_inv e3
      injection hmw with hmw
      subst hmw
      rfl
    | false =>
      simp only [hup, Bool.not_false, if_true] at e3 hmw
      obtain ⟨m, s3', em, pm⟩ := P.bind_eq_ok.mp e3
      obtain ⟨rfl, rfl⟩ := pure_inv pm
      dsimp only at hmw
      obtain ⟨w, hw1, hw2⟩ := writeMapping_of_parseMapping H s2' s3 m em (hv m rfl) (hs m rfl)
      rw [hw1] at hmw
      injection hmw with hmw
      subst hmw
      exact hw2
  subst hm
  -- DM data
  have hd : s3 = db ++ s4 := by
    cases hdp : H.vdr_dm_metadata_present_flag with
    | false =>
      simp only [hdp, Bool.false_eq_true, if_false] at e4 hdw
      obtain ⟨_, rfl⟩ := pure_inv e4
      injection hdw with hdw
      subst hdw
      rfl
    | true =>
      simp only [hdp, if_true] at e4 hdw
      obtain ⟨d, s4', ed, pd⟩ := P.bind_eq_ok.mp e4
      obtain ⟨rfl, rfl⟩ := pure_inv pd
      dsimp only at hdw
      exact writeDmData_parseDmData H _ s3 s4 d ed (by
        simp only [List.length_append] at hlen ⊢
        omega) db hdw
  subst hd
  -- alignment bits
  have hpad : alignPad (toBits 8 25 ++ hw ++ (mb ++ db)).length = List.replicate (s4.length % 8) false := by
    unfold alignPad
    congr 1
    simp only [List.length_append] at hlen ⊢
    omega
  have hs5 : s5'.length % 8 = 0 := by
    have h1 : s4.length = s4.length % 8 + s5'.length := by
      have := congrArg List.length b5
      simpa using this
    simp only [List.length_append] at hlen
    omega
  -- data before the CRC
  have hrem : s5' = rem.getD [] ++ (toBits 32 crc ++ (toBits 8 128 ++ s8')) ∧ s8' = [] ∧ (rem.getD []).length % 8 = 0 := by
    subst hav
    by_cases hgt : s5'.length > 40
    · simp only [hgt, if_true] at e6
      obtain ⟨rb, s6', erb, prb⟩ := P.bind_eq_ok.mp e6
      obtain ⟨rfl, rfl⟩ := pure_inv prb
      obtain ⟨hrl, hcat⟩ := readBits_inv erb
      have hl := congrArg List.length hcat
      simp only [List.length_append, toBits_length] at hl
      have h8 : s8'.length = 0 := by omega
      have h8' : s8' = [] := List.eq_nil_of_length_eq_zero h8
      refine ⟨by simpa using hcat, h8', ?_⟩
      simp only [Option.getD]
      omega
    · simp only [hgt, if_false] at e6
      obtain ⟨rfl, hcat⟩ := pure_inv e6
      have hl := congrArg List.length hcat
      simp only [List.length_append, toBits_length] at hl
      have h8 : s8'.length = 0 := by omega
      have h8' : s8' = [] := List.eq_nil_of_length_eq_zero h8
      exact ⟨by simpa using hcat.symm, h8', rfl⟩
  obtain ⟨hs5', h8, hrl⟩ := hrem
  subst h8
  refine ⟨?_, hrest, rfl, rfl, hcrc, hrl⟩
  rw [hpad]
  conv => lhs; rw [b5, hs5']
  simp only [List.append_assoc, List.append_nil]

end Dovi

namespace Dovi
open Dovi.PwDm Dovi.PwHdr

theorem takeWhile_zero_replicate (l : Bytes) :
    l.takeWhile (· == 0) = List.replicate (l.takeWhile (· == 0)).length 0 := by
  induction l with
  | nil => rfl
  | cons x xs ih =>
    by_cases hx : (x == 0) = true
    · have hx0 : x = 0 := by simpa using hx
      subst hx0
      simp only [List.takeWhile_cons, beq_self_eq_true, if_true, List.length_cons, List.replicate_succ]
      rw [← ih]
    · simp [List.takeWhile_cons, hx]

/-- the trailing zero bytes the parser sets aside -/
theorem trailingZeroes_split (data : Bytes) :
    data = data.take (data.length - trailingZeroes data) ++ List.replicate (trailingZeroes data) 0 := by
  unfold trailingZeroes
  have h1 := List.takeWhile_append_dropWhile (p := (· == (0 : UInt8))) (l := data.reverse)
  have h2 : data = (data.reverse.dropWhile (· == 0)).reverse ++ (data.reverse.takeWhile (· == 0)).reverse := by
    have := congrArg List.reverse h1
    rw [List.reverse_append, List.reverse_reverse] at this
    exact this.symm
  have h3 := takeWhile_zero_replicate data.reverse
  generalize hn : (data.reverse.takeWhile (· == 0)).length = n at *
  rw [h3, List.reverse_replicate] at h2
  have hl : data.length = (data.reverse.dropWhile (· == 0)).reverse.length + n := by
    have := congrArg List.length h2
    simpa using this
  have ht : data.take (data.length - n) = (data.reverse.dropWhile (· == 0)).reverse := by
    have hx : data.length - n = (data.reverse.dropWhile (· == 0)).reverse.length := by omega
    rw [hx]
    have : ((data.reverse.dropWhile (· == 0)).reverse ++ List.replicate n 0).take
        (data.reverse.dropWhile (· == 0)).reverse.length = (data.reverse.dropWhile (· == 0)).reverse :=
      List.take_left' rfl
    rw [← h2] at this
    exact this
  rw [ht]
  exact h2

theorem bitsToBytes_append : ∀ (n : Nat) (a b : Bits), a.length = 8 * n →
    bitsToBytes (a ++ b) = bitsToBytes a ++ bitsToBytes b
  | 0, a, b, h => by
    have : a = [] := List.eq_nil_of_length_eq_zero (by omega)
    subst this; rfl
  | n+1, a, b, h => by
    match a, h with
    | b0 :: b1 :: b2 :: b3 :: b4 :: b5 :: b6 :: b7 :: rest, h =>
      have hr : rest.length = 8 * n := by simp only [List.length_cons] at h; omega
      simp only [List.cons_append, bitsToBytes, bitsToBytes_append n rest b hr]

theorem writeBody_tz (r : Rpu) (tz : Nat) : writeBody { r with trailing_zeroes := tz } = writeBody r := rfl

theorem validate_tz (r : Rpu) (tz : Nat) : ({ r with trailing_zeroes := tz } : Rpu).validate = r.validate := rfl

/-- **C01, parse → write exactness for the whole RPU.** If `DoviRpu::parse` accepts `bytes` (prefix-less,
emulation-prevention-free form) and `write_rpu_data` succeeds on the unmodified result, the output is `bytes`,
byte for byte (including the trailing zero bytes) — for every accepted input whose integer coefficient parts
are below 2^52 in magnitude (the bound below which the third-party `get_se`, which goes through `f64`, is
injective; `PwMap.readSe_rounding_witness` shows it is needed). -/
theorem writeRpu_parseRpu (bytes out : Bytes) (r : Rpu) (hp : parseRpu bytes = .ok r)
    (hs : ∀ m, r.rpu_data_mapping = some m → m.seSmall = true) (hw : writeRpu r = .ok out) : out = bytes := by
  have hsplit := trailingZeroes_split bytes
  unfold parseRpu at hp
  dsimp only at hp
  generalize htz : trailingZeroes bytes = tz at hp hsplit
  generalize hB : bytes.take (bytes.length - tz) = B at hp hsplit
  split at hp
  · cases hp
  · split at hp
    · cases hp
    · split at hp
      · cases hp
      · cases hp
      · rename_i r0 rest hrd
        split at hp
        · cases hp
        · rename_i hcrc
          split at hp
          · rename_i hval
            injection hp with hp
            subst hp
            -- facts from the validation
            have hv : ∀ m, r0.rpu_data_mapping = some m → m.curves.all Curve.piecesOk = true := by
              intro m hm
              have hval' : r0.validate = true := by rw [← validate_tz r0 tz]; exact hval
              simp only [Rpu.validate, hm, Bool.and_eq_true] at hval'
              have := hval'.1.2
              simp only [Mapping.validate, Bool.and_eq_true] at this
              exact this.1.1.2
            -- the writer
            unfold writeRpu at hw
            rw [validate_tz] at hw
            have hval' : r0.validate = true := by rw [← validate_tz r0 tz]; exact hval
            simp only [hval', Bool.not_true, Bool.false_eq_true, if_false, writeBody_tz] at hw
            cases hb : writeBody r0 with
            | error => simp [hb, Res.bind] at hw
            | panic => simp [hb, Res.bind] at hw
            | ok body =>
              simp only [hb, Res.bind] at hw
              have hlen : (bytesToBits B).length % 8 = 0 := by rw [bytesToBits_length]; omega
              obtain ⟨hbits, hrest, hmod, htz0, hcrclt, hreml⟩ := readRpuData_inv (bytesToBits B) rest r0 hrd hlen hv hs body hb
              have hal1 : (body ++ alignPad body.length ++ r0.remaining.getD []).length % 8 = 0 := by
                have := alignPad_aligned body.length
                simp only [List.length_append] at this ⊢
                omega
              rw [alignPad_of_aligned _ hal1, List.append_nil] at hw
              generalize hA : body ++ alignPad body.length ++ r0.remaining.getD [] = A at hw hal1 hbits
              obtain ⟨n, hn⟩ : ∃ n, A.length = 8 * n := ⟨A.length / 8, by omega⟩
              rw [hmod] at hw
              split at hw
              · cases hw
              · rename_i hc
                simp only [Bool.not_false, Bool.true_and, bne_iff_ne, ne_eq, Decidable.not_not] at hc
                injection hw with hw
                rw [← hw, ← hc]
                -- the input bytes
                have hBb : B = bitsToBytes A ++ bitsToBytes (toBits 32 r0.rpu_data_crc32) ++ [0x80] := by
                  have h1 := bitsToBytes_bytesToBits B
                  rw [hbits] at h1
                  rw [← h1, List.append_assoc, bitsToBytes_append n A _ hn,
                    bitsToBytes_append 4 (toBits 32 r0.rpu_data_crc32) _ (by rw [toBits_length])]
                  rw [List.append_assoc]
                  rfl
                conv => rhs; rw [hsplit, hBb]
          · cases hp

end Dovi
