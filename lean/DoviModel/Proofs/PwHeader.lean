import DoviModel.Proofs.Rpu
import DoviModel.Proofs.PwDm
/-!
# parse → write exactness: `rpu_data_header`

`parseHeader s = .ok (h, t)` implies that `writeHeader h` succeeds and re-creates exactly the consumed bits.
-/
namespace Dovi.PwHdr
open Dovi Dovi.PwDm

theorem readBit_inv {s t : Bits} {b : Bool} (h : readBit s = .ok (b, t)) : s = b :: t := by
  cases s with
  | nil => simp [readBit] at h
  | cons x r =>
    simp only [readBit] at h
    injection h with h
    injection h with h1 h2
    rw [h1, h2]

theorem writeN_ok {n v : Nat} (h : v < 2 ^ n) : writeN n v = .ok (toBits n v) := by
  simp [writeN, h]

theorem wcat_append_of_ok {l1 l2 : List (Res Bits)} {a b : Bits} (h1 : wcat l1 = .ok a) (h2 : wcat l2 = .ok b) :
    wcat (l1 ++ l2) = .ok (a ++ b) := by
  induction l1 generalizing a with
  | nil =>
    have := wcat_nil_ok h1
    subst this
    simpa using h2
  | cons x xs ih =>
    obtain ⟨p, q, hx, hq, rfl⟩ := wcat_cons_ok h1
    subst hx
    simp only [List.cons_append, wcat, ih hq, Res.bind, List.append_assoc]

theorem wcat_cons_of_ok {x : Res Bits} {l : List (Res Bits)} {a b : Bits} (h1 : x = .ok a) (h2 : wcat l = .ok b) :
    wcat (x :: l) = .ok (a ++ b) := by
  subst h1
  simp only [wcat, h2, Res.bind]

/-- packing then unpacking the `el_bit_depth_minus8` ue(v) value (≤ 0xFFFF) -/
theorem el_unpack (v : Nat) (hv : v ≤ 0xFFFF) :
    (((v / 256 % 256 / 32) * 32 % 256) ||| (v / 256 % 256 % 32)) * 256 ||| (v % 256) = v := by
  have h := el_pack (v / 256 % 256 / 32) (v / 256 % 256 % 32) (v % 256) (by omega) (by omega) (by omega)
  -- compute the packed value through the same lemmas as `el_pack`
  have e57 : v / 256 % 256 / 32 < 8 := by omega
  have h1 : (v / 256 % 256 / 32 * 32) % 256 = v / 256 % 256 / 32 * 32 := Nat.mod_eq_of_lt (by omega)
  have h2 : v / 256 % 256 / 32 * 32 ||| v / 256 % 256 % 32 = v / 256 % 256 / 32 * 32 + v / 256 % 256 % 32 := by
    have := Nat.shiftLeft_add_eq_or_of_lt (a := v / 256 % 256 / 32) (i := 5) (b := v / 256 % 256 % 32) (by omega)
    rw [Nat.shiftLeft_eq] at this
    simpa using this.symm
  have h3 : (v / 256 % 256 / 32 * 32 + v / 256 % 256 % 32) * 256 ||| v % 256 =
      (v / 256 % 256 / 32 * 32 + v / 256 % 256 % 32) * 256 + v % 256 := by
    have := Nat.shiftLeft_add_eq_or_of_lt (a := v / 256 % 256 / 32 * 32 + v / 256 % 256 % 32) (i := 8) (b := v % 256) (by omega)
    rw [Nat.shiftLeft_eq] at this
    simpa using this.symm
  rw [h1, h2, h3]
  omega

/-- the last three syntax elements of the header -/
theorem tail_inv {dmp usep : Bool} {prev : Nat} {s s1 s2 t : Bits}
    (e1 : readBit s = .ok (dmp, s1)) (e2 : readBit s1 = .ok (usep, s2))
    (e3 : (if usep = true then readUe else pure 0) s2 = .ok (prev, t)) :
    ∃ b, wcat ([wbool dmp, wbool usep] ++ (if usep = true then [writeUe prev] else [])) = .ok b ∧ s = b ++ t := by
  have h1 := readBit_inv e1
  have h2 := readBit_inv e2
  subst h1 h2
  cases usep with
  | false =>
    simp only [Bool.false_eq_true, if_false] at e3 ⊢
    obtain ⟨_, rfl⟩ := pure_inv e3
    exact ⟨[dmp, false], by simp [wcat, wbool, Res.bind], by simp⟩
  | true =>
    simp only [if_true] at e3 ⊢
    obtain ⟨w, hw, rfl⟩ := readUe_inv e3
    exact ⟨[dmp, true] ++ w, by simp [wcat, wbool, hw, Res.bind], by simp⟩

end Dovi.PwHdr

namespace Dovi
open Dovi.PwDm Dovi.PwHdr

/-- **parse → write for `rpu_data_header`**: the writer succeeds on every parsed header and emits exactly the
bits the parser consumed -/
theorem writeHeader_parseHeader {s t : Bits} {h : Header} (hp : parseHeader s = .ok (h, t)) :
    ∃ w, writeHeader h = .ok w ∧ s = w ++ t := by
  unfold parseHeader at hp
  obtain ⟨ty, s1, e1, q1⟩ := P.bind_eq_ok.mp hp
  clear hp
  obtain ⟨u, s1', e1', q2⟩ := P.bind_eq_ok.mp q1
  clear q1
  obtain ⟨hty, rfl⟩ := ensure_inv e1'
  obtain ⟨fmt, s2, e2, q3⟩ := P.bind_eq_ok.mp q2
  clear q2
  obtain ⟨prof, s3, e3, q4⟩ := P.bind_eq_ok.mp q3
  clear q3
  obtain ⟨lvl, s4, e4, q5⟩ := P.bind_eq_ok.mp q4
  clear q4
  obtain ⟨seq, s5, e5, q6⟩ := P.bind_eq_ok.mp q5
  clear q5
  obtain ⟨hh, s6, e6, q7⟩ := P.bind_eq_ok.mp q6
  clear q6
  obtain ⟨dmp, s7, e7, q8⟩ := P.bind_eq_ok.mp q7
  clear q7
  obtain ⟨usep, s8, e8, q9⟩ := P.bind_eq_ok.mp q8
  clear q8
  obtain ⟨prev, s9, e9, q10⟩ := P.bind_eq_ok.mp q9
  clear q9
  obtain ⟨hfin, rfl⟩ := pure_inv q10
  clear q10
  subst hfin
  obtain ⟨bt, hbt, rfl⟩ := tail_inv e7 e8 e9
  -- the five leading fields
  obtain ⟨l1, r1⟩ := readN_inv e1
  obtain ⟨l2, r2⟩ := readN_inv e2
  obtain ⟨l3, r3⟩ := readN_inv e3
  obtain ⟨l4, r4⟩ := readN_inv e4
  have r5 := readBit_inv e5
  subst r1 r2 r3 r4 r5
  have hlead : wcat [writeN 6 ty, writeN 11 fmt, writeN 4 prof, writeN 4 lvl, wbool seq] =
      .ok (toBits 6 ty ++ (toBits 11 fmt ++ (toBits 4 prof ++ (toBits 4 lvl ++ [seq])))) := by
    simp [wcat, writeN_ok l1, writeN_ok l2, writeN_ok l3, writeN_ok l4, wbool, Res.bind]
  -- the sequence-info part
  have hseqpart : ∃ bs, wcat (if hh.vdr_seq_info_present_flag = true then
        [wbool hh.chroma_resampling_explicit_filter_flag, writeN 2 hh.coefficient_data_type] ++
        (if hh.coefficient_data_type == 0 then [writeUe hh.coefficient_log2_denom] else []) ++
        [writeN 2 hh.vdr_rpu_normalized_idc, wbool hh.bl_video_full_range_flag] ++
        (if hh.rpu_format &&& 0x700 == 0 then
          [writeUe hh.bl_bit_depth_minus8,
           writeUe ((((hh.ext_mapping_idc_5_7 * 32) % 256) ||| hh.ext_mapping_idc_0_4) * 256 ||| hh.el_bit_depth_minus8),
           writeUe hh.vdr_bit_depth_minus8, wbool hh.spatial_resampling_filter_flag,
           writeN 3 hh.reserved_zero_3bits, wbool hh.el_spatial_resampling_filter_flag,
           wbool hh.disable_residual_flag]
         else [])
       else []) = .ok bs ∧ s5 = bs ++ (bt ++ t) ∧
       hh.rpu_type = ty ∧ hh.rpu_format = fmt ∧ hh.vdr_rpu_profile = prof ∧ hh.vdr_rpu_level = lvl ∧
       hh.vdr_seq_info_present_flag = seq := by
    cases seq with
    | false =>
      simp only [Bool.false_eq_true, if_false] at e6
      obtain ⟨rfl, rfl⟩ := pure_inv e6
      exact ⟨[], by simp [wcat], by simp, rfl, rfl, rfl, rfl, rfl⟩
    | true =>
      simp only [if_true] at e6
      obtain ⟨chroma, a1, f1, g1⟩ := P.bind_eq_ok.mp e6
      clear e6
      obtain ⟨cdt, a2, f2, g2⟩ := P.bind_eq_ok.mp g1
      clear g1
      obtain ⟨den, a3, f3, g3⟩ := P.bind_eq_ok.mp g2
      clear g2
      obtain ⟨norm, a4, f4, g4⟩ := P.bind_eq_ok.mp g3
      clear g3
      obtain ⟨full, a5, f5, g5⟩ := P.bind_eq_ok.mp g4
      clear g4
      obtain ⟨hx, a6, f6, g6⟩ := P.bind_eq_ok.mp g5
      clear g5
      have c1 := readBit_inv f1
      obtain ⟨lc, c2⟩ := readN_inv f2
      obtain ⟨ln, c4⟩ := readN_inv f4
      have c5 := readBit_inv f5
      subst c1 c2 c4 c5
      -- denominator
      have hden : ∃ bd, wcat (if (cdt == 0) = true then [writeUe den] else []) = .ok bd ∧ a2 = bd ++ (toBits 2 norm ++ full :: a5) := by
        by_cases hc : (cdt == 0) = true
        · simp only [hc, if_true] at f3 ⊢
          obtain ⟨w, hw, hs⟩ := readUe_inv f3
          exact ⟨w, by simp [wcat, hw, Res.bind], hs⟩
        · simp only [hc, if_false] at f3 ⊢
          obtain ⟨_, hs⟩ := pure_inv f3
          exact ⟨[], by simp [wcat], by simp [hs]⟩
      obtain ⟨bd, hbd, rfl⟩ := hden
      -- format-dependent block
      have hfmt : ∃ bf, hx.rpu_type = ty ∧ hx.rpu_format = fmt ∧ hx.vdr_rpu_profile = prof ∧ hx.vdr_rpu_level = lvl ∧
          hx.vdr_seq_info_present_flag = true ∧ hx.chroma_resampling_explicit_filter_flag = chroma ∧
          hx.coefficient_data_type = cdt ∧ hx.coefficient_log2_denom = den ∧ hx.vdr_rpu_normalized_idc = norm ∧
          hx.bl_video_full_range_flag = full ∧
          wcat (if (fmt &&& 0x700 == 0) = true then
            [writeUe hx.bl_bit_depth_minus8,
             writeUe ((((hx.ext_mapping_idc_5_7 * 32) % 256) ||| hx.ext_mapping_idc_0_4) * 256 ||| hx.el_bit_depth_minus8),
             writeUe hx.vdr_bit_depth_minus8, wbool hx.spatial_resampling_filter_flag,
             writeN 3 hx.reserved_zero_3bits, wbool hx.el_spatial_resampling_filter_flag,
             wbool hx.disable_residual_flag] else []) = .ok bf ∧ a5 = bf ++ a6 := by
        by_cases hc : (fmt &&& 0x700 == 0) = true
        · simp only [hc, if_true] at f6 ⊢
          obtain ⟨bl, b1, k1, m1⟩ := P.bind_eq_ok.mp f6
          clear f6
          obtain ⟨el, b2, k2, m2⟩ := P.bind_eq_ok.mp m1
          clear m1
          obtain ⟨u2, b2', k2', m3⟩ := P.bind_eq_ok.mp m2
          clear m2
          obtain ⟨hel, rfl⟩ := ensure_inv k2'
          obtain ⟨vdr, b3, k3, m4⟩ := P.bind_eq_ok.mp m3
          clear m3
          obtain ⟨spat, b4, k4, m5⟩ := P.bind_eq_ok.mp m4
          clear m4
          obtain ⟨res3, b5, k5, m6⟩ := P.bind_eq_ok.mp m5
          clear m5
          obtain ⟨elsp, b6, k6, m7⟩ := P.bind_eq_ok.mp m6
          clear m6
          obtain ⟨dis, b7, k7, m8⟩ := P.bind_eq_ok.mp m7
          clear m7
          obtain ⟨rfl, rfl⟩ := pure_inv m8
          obtain ⟨w1, hw1, rfl⟩ := readUe_inv k1
          obtain ⟨w2, hw2, rfl⟩ := readUe_inv k2
          obtain ⟨w3, hw3, rfl⟩ := readUe_inv k3
          have d4 := readBit_inv k4
          obtain ⟨l5, d5⟩ := readN_inv k5
          have d6 := readBit_inv k6
          have d7 := readBit_inv k7
          subst d4 d5 d6 d7
          have hel' : el ≤ 0xFFFF := by simpa using hel
          refine ⟨w1 ++ (w2 ++ (w3 ++ ([spat] ++ (toBits 3 res3 ++ ([elsp] ++ [dis]))))), rfl, rfl, rfl, rfl, rfl, rfl, rfl, rfl, rfl, rfl, ?_, by simp⟩
          dsimp only
          rw [el_unpack el hel']
          simp [wcat, hw1, hw2, hw3, wbool, writeN_ok l5, Res.bind]
        · simp only [hc, if_false] at f6 ⊢
          obtain ⟨rfl, rfl⟩ := pure_inv f6
          exact ⟨[], rfl, rfl, rfl, rfl, rfl, rfl, rfl, rfl, rfl, rfl, by simp [wcat], by simp⟩
      obtain ⟨bf, x1, x2, x3, x4, x5, x6, x7, x8, x9, x10, hbf, rfl⟩ := hfmt
      -- the derived length: only `coefficient_log2_denom_length` changes
      have hfinal : hh.rpu_type = ty ∧ hh.rpu_format = fmt ∧ hh.vdr_rpu_profile = prof ∧ hh.vdr_rpu_level = lvl ∧
          hh.vdr_seq_info_present_flag = true ∧ hh.chroma_resampling_explicit_filter_flag = chroma ∧
          hh.coefficient_data_type = cdt ∧ hh.coefficient_log2_denom = den ∧ hh.vdr_rpu_normalized_idc = norm ∧
          hh.bl_video_full_range_flag = full ∧ hh.bl_bit_depth_minus8 = hx.bl_bit_depth_minus8 ∧
          hh.el_bit_depth_minus8 = hx.el_bit_depth_minus8 ∧ hh.ext_mapping_idc_0_4 = hx.ext_mapping_idc_0_4 ∧
          hh.ext_mapping_idc_5_7 = hx.ext_mapping_idc_5_7 ∧ hh.vdr_bit_depth_minus8 = hx.vdr_bit_depth_minus8 ∧
          hh.spatial_resampling_filter_flag = hx.spatial_resampling_filter_flag ∧
          hh.reserved_zero_3bits = hx.reserved_zero_3bits ∧
          hh.el_spatial_resampling_filter_flag = hx.el_spatial_resampling_filter_flag ∧
          hh.disable_residual_flag = hx.disable_residual_flag ∧ a6 = bt ++ t := by
        by_cases hc : (cdt == 0) = true
        · simp only [hc, if_true] at g6
          obtain ⟨rfl, rfl⟩ := pure_inv g6
          exact ⟨x1, x2, x3, x4, x5, x6, x7, x8, x9, x10, rfl, rfl, rfl, rfl, rfl, rfl, rfl, rfl, rfl, rfl⟩
        · simp only [hc, if_false] at g6
          by_cases hc1 : (cdt == 1) = true
          · simp only [hc1, if_true] at g6
            obtain ⟨rfl, rfl⟩ := pure_inv g6
            exact ⟨x1, x2, x3, x4, x5, x6, x7, x8, x9, x10, rfl, rfl, rfl, rfl, rfl, rfl, rfl, rfl, rfl, rfl⟩
          · simp [hc1] at g6
      obtain ⟨y1, y2, y3, y4, y5, y6, y7, y8, y9, y10, y11, y12, y13, y14, y15, y16, y17, y18, y19, rfl⟩ := hfinal
      refine ⟨[chroma] ++ (toBits 2 cdt ++ (bd ++ (toBits 2 norm ++ ([full] ++ bf)))), ?_, by simp, y1, y2, y3, y4, y5⟩
      rw [y5, y6, y7, y8, y9, y10, y11, y12, y13, y14, y15, y16, y17, y18, y19, y2]
      simp only [if_true]
      have hA : wcat [wbool chroma, writeN 2 cdt] = .ok ([chroma] ++ toBits 2 cdt) := by
        simp [wcat, wbool, writeN_ok lc, Res.bind]
      have hB : wcat [writeN 2 norm, wbool full] = .ok (toBits 2 norm ++ [full]) := by
        simp [wcat, wbool, writeN_ok ln, Res.bind]
      have := wcat_append_of_ok (wcat_append_of_ok (wcat_append_of_ok hA hbd) hB) hbf
      simpa [List.append_assoc] using this
  obtain ⟨bs, hbs, rfl, z1, z2, z3, z4, z5⟩ := hseqpart
  refine ⟨(toBits 6 ty ++ (toBits 11 fmt ++ (toBits 4 prof ++ (toBits 4 lvl ++ [seq])))) ++ bs ++ bt, ?_, by simp⟩
  unfold writeHeader
  dsimp only
  rw [z1, z2, z3, z4, z5]
  have := wcat_append_of_ok (wcat_append_of_ok hlead hbs) hbt
  rw [z5, z2] at this
  simpa [List.append_assoc] using this

end Dovi
