import DoviModel.Model.Hevc
/-! convert / demux / remove / extract-rpu (`write_nals`): helper lemmas for Props/C05.lean, C07.lean, C18.lean -/
set_option linter.unusedSimpArgs false
namespace Dovi.Hevc
open Dovi

/-- `mapM` in `Option`, structurally -/
def optMap {α β : Type} (f : α → Option β) : List α → Option (List β)
  | [] => some []
  | a :: as =>
    match f a, optMap f as with
    | some b, some bs => some (b :: bs)
    | _, _ => none

theorem optMap_some {α β : Type} (f : α → β) (l : List α) : optMap (fun a => some (f a)) l = some (l.map f) := by
  induction l with
  | nil => rfl
  | cons a l ih => simp [optMap, ih]

/-- what convert writes for one NAL, as (type, bytes): the RPU rewritten by the library when a mode / edit
config is set, every other NAL itself -/
def slSpec (convSet : Bool) (conv : Bytes → Option Bytes) (it : Item) : Option (Nat × Bytes) :=
  if it.typ = NAL_UNSPEC62 ∧ convSet then (conv it.data).map (fun m => (it.typ, m)) else some (payI it)

/-- the state after a NAL that was neither dropped nor an RPU recorded by demux / extract -/
def nxt (st : GState) (it : Item) : GState :=
  { idx := st.idx + 1, prevFrame := (firstFlag st it.au).2, prevRpu := st.prevRpu }

theorem step_sl (c : Cfg) (conv : Bytes → Option Bytes) (st : GState) (it : Item)
    (hsl : c.sl = true) (hdrop : c.drop = false) (hp : st.prevRpu = 0) :
    step c conv st it =
      if it.typ = NAL_UNSPEC63 ∧ c.discard = true then some (nxt st it, {})
      else (slSpec c.convSet conv it).map (fun pb =>
        (nxt st it, { sl := [⟨scLen c.annexb it.typ (firstFlag st it.au).1, pb.1, pb.2⟩] })) := by
  have h0 : ¬ (st.prevRpu > 0 ∧ it.typ = NAL_UNSPEC62 ∧ it.au = st.prevRpu) := by omega
  simp only [step, hdrop, Bool.false_and, Bool.false_eq_true, if_false, if_neg h0, hsl, if_true, nxt, slSpec]
  split
  · rfl
  · split
    · cases conv it.data <;> rfl
    · rfl

theorem run_sl_spec (c : Cfg) (conv : Bytes → Option Bytes) (st : GState) (items : List Item)
    (hsl : c.sl = true) (hdrop : c.drop = false) (hp : st.prevRpu = 0) :
    (run c conv st items).map (fun s => s.sl.map pay) =
      optMap (slSpec c.convSet conv) (items.filter (fun it => ¬ (it.typ = NAL_UNSPEC63 ∧ c.discard = true))) := by
  induction items generalizing st with
  | nil => simp [run, optMap]
  | cons it rest ih =>
    have ih' := ih (nxt st it) (by simp [nxt, hp])
    simp only [run, step_sl c conv st it hsl hdrop hp, List.filter_cons]
    by_cases h63 : it.typ = NAL_UNSPEC63 ∧ c.discard = true
    · have hk : (decide ¬(it.typ = NAL_UNSPEC63 ∧ c.discard = true)) = false := by simp [h63]
      simp only [if_pos h63, hk, Bool.false_eq_true, if_false]
      rw [← ih']
      cases run c conv (nxt st it) rest <;> simp [Sinks.append]
    · have hk : (decide ¬(it.typ = NAL_UNSPEC63 ∧ c.discard = true)) = true := by simp [h63]
      simp only [if_neg h63, hk, if_true, optMap]
      rw [← ih']
      cases slSpec c.convSet conv it with
      | none => simp
      | some pb =>
        simp only [Option.map_some]
        cases run c conv (nxt st it) rest <;> simp [Sinks.append, pay]

/-! ### demux / remove / extract-rpu -/

def isRpu (it : Item) : Bool := it.typ == NAL_UNSPEC62
def isElNal (it : Item) : Bool := it.typ == NAL_UNSPEC63
/-- goes to the EL file of demux: wrapped EL NALs and RPUs -/
def isEl (it : Item) : Bool := it.typ == NAL_UNSPEC62 || it.typ == NAL_UNSPEC63
/-- goes to the BL file -/
def isBl (it : Item) : Bool := !(it.typ == NAL_UNSPEC62 || it.typ == NAL_UNSPEC63)

/-- frame labels of the RPUs, stream order -/
def rpuAus (items : List Item) : List Nat := (items.filter isRpu).map (·.au)

/-- the duplicate-RPU rule of `write_nals` never fires on this sequence of RPU frame labels, starting from
`previous_rpu_index = prev`: no RPU is attributed to the same non-zero frame as the RPU before it -/
def NoDupFrom (prev : Nat) : List Nat → Prop
  | [] => True
  | a :: rest => (prev = 0 ∨ a ≠ prev) ∧ NoDupFrom a rest

instance decNoDupFrom : (prev : Nat) → (l : List Nat) → Decidable (NoDupFrom prev l)
  | _, [] => isTrue trivial
  | _, a :: rest => @instDecidableAnd _ _ inferInstance (decNoDupFrom a rest)

/-- at most one RPU per access unit implies it -/
theorem noDupFrom_of_pairwise (prev : Nat) (l : List Nat) (hp : l.Pairwise (· ≠ ·))
    (h0 : prev = 0 ∨ ∀ a ∈ l, a ≠ prev) : NoDupFrom prev l := by
  induction l generalizing prev with
  | nil => trivial
  | cons a rest ih =>
    rw [List.pairwise_cons] at hp
    refine ⟨?_, ih a hp.2 (Or.inr fun b hb => (hp.1 b hb).symm)⟩
    rcases h0 with h | h
    · exact Or.inl h
    · exact Or.inr (h a (by simp))

def rpuConv (convSet : Bool) (conv : Bytes → Option Bytes) (d : Bytes) : Option Bytes :=
  if convSet then conv d else some d

theorem step_nsl (c : Cfg) (conv : Bytes → Option Bytes) (st : GState) (it : Item)
    (hsl : c.sl = false) (hdrop : c.drop = false)
    (hnd : ¬ (st.prevRpu > 0 ∧ it.typ = NAL_UNSPEC62 ∧ it.au = st.prevRpu)) :
    step c conv st it =
      if it.typ = NAL_UNSPEC63 then
        some (nxt st it, if c.el then { el := [⟨4, nalType (it.data.drop 2), it.data.drop 2⟩] } else {})
      else if it.typ = NAL_UNSPEC62 then
        (rpuConv c.convSet conv it.data).map (fun m =>
          ({ nxt st it with prevRpu := it.au },
           if c.rpu then { rpu := [m.drop 2] }
           else if c.el then { el := [⟨scLen c.annexb it.typ false, it.typ, m⟩] } else {}))
      else some (nxt st it, if c.bl then { bl := [⟨scLen c.annexb it.typ (firstFlag st it.au).1, it.typ, it.data⟩] } else {}) := by
  simp only [step, hdrop, Bool.false_and, Bool.false_eq_true, if_false, if_neg hnd, hsl, nxt, rpuConv]
  split
  · rfl
  · split
    · cases (if c.convSet = true then conv it.data else some it.data) with
      | none => rfl
      | some m =>
        simp only [Option.map_some]
        split
        · rfl
        · split <;> rfl
    · rfl

theorem rpuAus_cons_rpu (it : Item) (rest : List Item) (h : it.typ = NAL_UNSPEC62) :
    rpuAus (it :: rest) = it.au :: rpuAus rest := by
  simp [rpuAus, isRpu, h]

theorem rpuAus_cons_other (it : Item) (rest : List Item) (h : ¬ it.typ = NAL_UNSPEC62) :
    rpuAus (it :: rest) = rpuAus rest := by
  simp [rpuAus, isRpu, h]

theorem noDup_step (st : GState) (it : Item) (rest : List Item)
    (hnd : NoDupFrom st.prevRpu (rpuAus (it :: rest))) :
    ¬ (st.prevRpu > 0 ∧ it.typ = NAL_UNSPEC62 ∧ it.au = st.prevRpu) := by
  rintro ⟨h1, h2, h3⟩
  rw [rpuAus_cons_rpu it rest h2] at hnd
  rcases hnd.1 with h | h <;> omega

/-- the BL file: every NAL that is neither RPU nor EL, itself, in order (the command fails iff the library
refuses one of the RPUs, also when no writer takes them) -/
theorem run_bl_spec (c : Cfg) (conv : Bytes → Option Bytes) (st : GState) (items : List Item)
    (hsl : c.sl = false) (hdrop : c.drop = false) (hnd : NoDupFrom st.prevRpu (rpuAus items)) :
    (run c conv st items).map (fun s => s.bl.map pay) =
      (optMap (fun it => rpuConv c.convSet conv it.data) (items.filter isRpu)).map
        (fun _ => if c.bl then (items.filter isBl).map payI else []) := by
  induction items generalizing st with
  | nil => simp [run, optMap]
  | cons it rest ih =>
    simp only [run, step_nsl c conv st it hsl hdrop (noDup_step st it rest hnd), List.filter_cons]
    by_cases h63 : it.typ = NAL_UNSPEC63
    · have h62 : ¬ it.typ = NAL_UNSPEC62 := by rw [h63]; decide
      have ih' := ih (nxt st it) (by rw [rpuAus_cons_other it rest h62] at hnd; exact hnd)
      have e1 : (it.typ == NAL_UNSPEC62) = false := by simpa using h62
      have e2 : (it.typ == NAL_UNSPEC63) = true := by simpa using h63
      simp only [if_pos h63, isRpu, isBl, e1, e2, Bool.false_or, Bool.not_true, Bool.false_eq_true, if_false]
      rw [← ih']
      cases run c conv (nxt st it) rest with
      | none => rfl
      | some s' => cases c.el <;> simp [Sinks.append]
    · by_cases h62 : it.typ = NAL_UNSPEC62
      · have hnd' : NoDupFrom it.au (rpuAus rest) := by rw [rpuAus_cons_rpu it rest h62] at hnd; exact hnd.2
        have ih' := ih { nxt st it with prevRpu := it.au } hnd'
        have e1 : (it.typ == NAL_UNSPEC62) = true := by simpa using h62
        simp only [if_neg h63, if_pos h62, isRpu, isBl, e1, Bool.true_or, Bool.not_true, Bool.false_eq_true,
          if_false, if_true, optMap]
        cases hc : rpuConv c.convSet conv it.data with
        | none => simp
        | some m =>
          simp only [Option.map_some]
          cases hr : run c conv { nxt st it with prevRpu := it.au } rest <;>
          cases ho : optMap (fun it => rpuConv c.convSet conv it.data) (List.filter isRpu rest) <;>
          simp [hr, ho] at ih' ⊢
          rw [← ih']
          cases c.rpu <;> cases c.el <;> simp [Sinks.append]
      · have ih' := ih (nxt st it) (by rw [rpuAus_cons_other it rest h62] at hnd; exact hnd)
        have e1 : (it.typ == NAL_UNSPEC62) = false := by simpa using h62
        have e2 : (it.typ == NAL_UNSPEC63) = false := by simpa using h63
        simp only [if_neg h63, if_neg h62, isRpu, isBl, e1, e2, Bool.false_or, Bool.not_false, Bool.false_eq_true, if_false, if_true]
        cases hr : run c conv (nxt st it) rest <;>
        cases ho : optMap (fun it => rpuConv c.convSet conv it.data) (List.filter isRpu rest) <;>
        simp [hr, ho] at ih' ⊢
        cases hb : c.bl <;> simp [hb, Sinks.append, pay, payI] at ih' ⊢ <;> exact ih'

/-- what demux writes to the EL file for one EL-bound NAL: the wrapped NAL without its 2-byte UNSPEC63
header, the RPU itself or its library rewrite -/
def elSpec (convSet : Bool) (conv : Bytes → Option Bytes) (it : Item) : Option (Nat × Bytes) :=
  if it.typ = NAL_UNSPEC63 then some (nalType (it.data.drop 2), it.data.drop 2)
  else (rpuConv convSet conv it.data).map (fun m => (it.typ, m))

theorem run_el_spec (c : Cfg) (conv : Bytes → Option Bytes) (st : GState) (items : List Item)
    (hsl : c.sl = false) (hdrop : c.drop = false) (hrpu : c.rpu = false) (hel : c.el = true)
    (hnd : NoDupFrom st.prevRpu (rpuAus items)) :
    (run c conv st items).map (fun s => s.el.map pay) = optMap (elSpec c.convSet conv) (items.filter isEl) := by
  induction items generalizing st with
  | nil => simp [run, optMap]
  | cons it rest ih =>
    simp only [run, step_nsl c conv st it hsl hdrop (noDup_step st it rest hnd), List.filter_cons]
    by_cases h63 : it.typ = NAL_UNSPEC63
    · have h62 : ¬ it.typ = NAL_UNSPEC62 := by rw [h63]; decide
      have ih' := ih (nxt st it) (by rw [rpuAus_cons_other it rest h62] at hnd; exact hnd)
      have e2 : (it.typ == NAL_UNSPEC63) = true := by simpa using h63
      simp only [if_pos h63, isEl, e2, Bool.or_true, if_true, optMap, elSpec, hel]
      cases hr : run c conv (nxt st it) rest <;>
      cases ho : optMap (elSpec c.convSet conv) (List.filter isEl rest) <;>
      simp [hr, ho] at ih' ⊢
      simp [Sinks.append, pay, ih']
    · by_cases h62 : it.typ = NAL_UNSPEC62
      · have hnd' : NoDupFrom it.au (rpuAus rest) := by rw [rpuAus_cons_rpu it rest h62] at hnd; exact hnd.2
        have ih' := ih { nxt st it with prevRpu := it.au } hnd'
        have e1 : (it.typ == NAL_UNSPEC62) = true := by simpa using h62
        simp only [if_neg h63, if_pos h62, isEl, e1, Bool.true_or, if_true, optMap, elSpec, hel, hrpu, Bool.false_eq_true, if_false]
        cases hc : rpuConv c.convSet conv it.data with
        | none => simp
        | some m =>
          simp only [Option.map_some]
          cases hr : run c conv { nxt st it with prevRpu := it.au } rest <;>
          cases ho : optMap (elSpec c.convSet conv) (List.filter isEl rest) <;>
          simp [hr, ho] at ih' ⊢
          simp [Sinks.append, pay, ih']
      · have ih' := ih (nxt st it) (by rw [rpuAus_cons_other it rest h62] at hnd; exact hnd)
        have e1 : (it.typ == NAL_UNSPEC62) = false := by simpa using h62
        have e2 : (it.typ == NAL_UNSPEC63) = false := by simpa using h63
        simp only [if_neg h63, if_neg h62, isEl, e1, e2, Bool.false_or, Bool.false_eq_true, if_false]
        cases hr : run c conv (nxt st it) rest <;>
        cases ho : optMap (elSpec c.convSet conv) (List.filter isEl rest) <;>
        simp [hr, ho] at ih' ⊢
        cases hb : c.bl <;> simp [hb, Sinks.append, pay, payI] at ih' ⊢ <;> exact ih'

/-- extract-rpu collects, in stream (= decode) order, every RPU (rewritten by the library when a mode is
set) without its 2-byte NAL header -/
theorem run_rpu_spec (c : Cfg) (conv : Bytes → Option Bytes) (st : GState) (items : List Item)
    (hsl : c.sl = false) (hdrop : c.drop = false) (hrpu : c.rpu = true)
    (hnd : NoDupFrom st.prevRpu (rpuAus items)) :
    (run c conv st items).map (fun s => s.rpu) =
      optMap (fun it => (rpuConv c.convSet conv it.data).map (fun m => m.drop 2)) (items.filter isRpu) := by
  induction items generalizing st with
  | nil => simp [run, optMap]
  | cons it rest ih =>
    simp only [run, step_nsl c conv st it hsl hdrop (noDup_step st it rest hnd), List.filter_cons]
    by_cases h63 : it.typ = NAL_UNSPEC63
    · have h62 : ¬ it.typ = NAL_UNSPEC62 := by rw [h63]; decide
      have ih' := ih (nxt st it) (by rw [rpuAus_cons_other it rest h62] at hnd; exact hnd)
      have e1 : (it.typ == NAL_UNSPEC62) = false := by simpa using h62
      simp only [if_pos h63, isRpu, e1, Bool.false_eq_true, if_false]
      cases hr : run c conv (nxt st it) rest <;>
      cases ho : optMap (fun it => (rpuConv c.convSet conv it.data).map (fun m => m.drop 2)) (List.filter isRpu rest) <;>
      simp [hr, ho] at ih' ⊢
      cases he : c.el <;> simp [he, Sinks.append] at ih' ⊢ <;> exact ih'
    · by_cases h62 : it.typ = NAL_UNSPEC62
      · have hnd' : NoDupFrom it.au (rpuAus rest) := by rw [rpuAus_cons_rpu it rest h62] at hnd; exact hnd.2
        have ih' := ih { nxt st it with prevRpu := it.au } hnd'
        have e1 : (it.typ == NAL_UNSPEC62) = true := by simpa using h62
        simp only [if_neg h63, if_pos h62, isRpu, e1, if_true, optMap, hrpu]
        cases hc : rpuConv c.convSet conv it.data with
        | none => simp
        | some m =>
          simp only [Option.map_some]
          cases hr : run c conv { nxt st it with prevRpu := it.au } rest <;>
          cases ho : optMap (fun it => (rpuConv c.convSet conv it.data).map (fun m => m.drop 2)) (List.filter isRpu rest) <;>
          simp [hr, ho] at ih' ⊢
          simp [Sinks.append, ih']
      · have ih' := ih (nxt st it) (by rw [rpuAus_cons_other it rest h62] at hnd; exact hnd)
        have e1 : (it.typ == NAL_UNSPEC62) = false := by simpa using h62
        simp only [if_neg h63, if_neg h62, isRpu, e1, Bool.false_eq_true, if_false]
        cases hr : run c conv (nxt st it) rest <;>
        cases ho : optMap (fun it => (rpuConv c.convSet conv it.data).map (fun m => m.drop 2)) (List.filter isRpu rest) <;>
        simp [hr, ho] at ih' ⊢
        cases hb : c.bl <;> simp [hb, Sinks.append] at ih' ⊢ <;> exact ih'


/-! ### independence lemmas -/

def clearEl (s : Sinks) : Sinks := { s with el := [] }

theorem step_el_indep (c : Cfg) (e e' : Bool) (conv : Bytes → Option Bytes) (st : GState) (it : Item) :
    (step { c with el := e } conv st it).map (fun p => (p.1, clearEl p.2)) =
    (step { c with el := e' } conv st it).map (fun p => (p.1, clearEl p.2)) := by
  simp only [step]
  generalize (if (c.drop && it.typ == NAL_SEI_PREFIX) = true then Sei.dropHdr10plus it.data else Sei.Res.keep it.data) = r
  cases r with
  | err => rfl
  | dropped => rfl
  | keep d =>
    simp only
    generalize (if c.convSet = true then conv it.data else some it.data) = m
    generalize conv it.data = m2
    by_cases h1 : st.prevRpu > 0 ∧ it.typ = NAL_UNSPEC62 ∧ it.au = st.prevRpu
    · simp only [if_pos h1]
    · simp only [if_neg h1]
      cases c.sl with
      | true => simp only [if_true]
      | false =>
        simp only [Bool.false_eq_true, if_false]
        by_cases h63 : it.typ = NAL_UNSPEC63
        · simp only [if_pos h63]; cases e <;> cases e' <;> rfl
        · simp only [if_neg h63]
          by_cases h62 : it.typ = NAL_UNSPEC62
          · simp only [if_pos h62]
            cases m with
            | none => rfl
            | some mm => cases c.rpu <;> cases e <;> cases e' <;> rfl
          · simp only [if_neg h62]

theorem run_el_indep (c : Cfg) (e e' : Bool) (conv : Bytes → Option Bytes) (st : GState) (items : List Item) :
    (run { c with el := e } conv st items).map clearEl = (run { c with el := e' } conv st items).map clearEl := by
  induction items generalizing st with
  | nil => rfl
  | cons it rest ih =>
    have hs := step_el_indep c e e' conv st it
    simp only [run]
    cases h1 : step { c with el := e } conv st it with
    | none =>
      cases h2 : step { c with el := e' } conv st it with
      | none => rfl
      | some p2 => simp [h1, h2] at hs
    | some p1 =>
      cases h2 : step { c with el := e' } conv st it with
      | none => simp [h1, h2] at hs
      | some p2 =>
        simp only [h1, h2, Option.map_some, Option.some.injEq, Prod.mk.injEq] at hs
        obtain ⟨hst, hcl⟩ := hs
        have ih' := ih p1.1
        rw [hst] at ih'
        obtain ⟨st1, s1⟩ := p1
        obtain ⟨st2, s2⟩ := p2
        simp only at hst hcl ih' ⊢
        subst hst
        cases hr1 : run { c with el := e } conv st1 rest <;>
        cases hr2 : run { c with el := e' } conv st1 rest <;>
        simp [hr1, hr2] at ih' ⊢
        simp only [clearEl, Sinks.append] at hcl ih' ⊢
        cases s1; cases s2; simp_all

/-- remove writes exactly the BL file of demux -/
theorem run_bl_indep_el (c : Cfg) (e e' : Bool) (conv : Bytes → Option Bytes) (st : GState) (items : List Item) :
    (run { c with el := e } conv st items).map (·.bl) = (run { c with el := e' } conv st items).map (·.bl) := by
  have := congrArg (Option.map (·.bl)) (run_el_indep c e e' conv st items)
  simpa [Option.map_map, Function.comp_def, clearEl] using this


/-- the (type, bytes) view of everything written -/
def payS (s : Sinks) : List (Nat × Bytes) × List (Nat × Bytes) × List (Nat × Bytes) × List Bytes :=
  (s.sl.map pay, s.bl.map pay, s.el.map pay, s.rpu)

theorem payS_append (a b : Sinks) :
    payS (a.append b) = ((payS a).1 ++ (payS b).1, (payS a).2.1 ++ (payS b).2.1, (payS a).2.2.1 ++ (payS b).2.2.1,
      (payS a).2.2.2 ++ (payS b).2.2.2) := by
  simp [payS, Sinks.append]

/-- start-code bookkeeping (`idx`, `previous_frame_index`) never influences which bytes are written where -/
theorem step_pay_indep (c : Cfg) (conv : Bytes → Option Bytes) (st st' : GState) (it : Item)
    (h : st.prevRpu = st'.prevRpu) :
    (step c conv st it).map (fun p => (p.1.prevRpu, payS p.2)) =
    (step c conv st' it).map (fun p => (p.1.prevRpu, payS p.2)) := by
  simp only [step, h]
  generalize (if (c.drop && it.typ == NAL_SEI_PREFIX) = true then Sei.dropHdr10plus it.data else Sei.Res.keep it.data) = r
  cases r with
  | err => rfl
  | dropped => rfl
  | keep d =>
    simp only
    generalize (if c.convSet = true then conv it.data else some it.data) = m
    generalize conv it.data = m2
    by_cases h1 : st'.prevRpu > 0 ∧ it.typ = NAL_UNSPEC62 ∧ it.au = st'.prevRpu
    · simp only [if_pos h1]; rfl
    · simp only [if_neg h1]
      cases c.sl with
      | true =>
        simp only [if_true]
        by_cases h63 : it.typ = NAL_UNSPEC63 ∧ c.discard = true
        · simp only [if_pos h63]; rfl
        · simp only [if_neg h63]
          by_cases h62 : it.typ = NAL_UNSPEC62 ∧ c.convSet = true
          · simp only [if_pos h62]; cases m2 <;> rfl
          · simp only [if_neg h62]; rfl
      | false =>
        simp only [Bool.false_eq_true, if_false]
        by_cases h63 : it.typ = NAL_UNSPEC63
        · simp only [if_pos h63]; rfl
        · simp only [if_neg h63]
          by_cases h62 : it.typ = NAL_UNSPEC62
          · simp only [if_pos h62]
            cases m with
            | none => rfl
            | some mm => cases c.rpu <;> cases c.el <;> rfl
          · simp only [if_neg h62]; cases c.bl <;> rfl

theorem run_pay_indep (c : Cfg) (conv : Bytes → Option Bytes) (st st' : GState) (items : List Item)
    (h : st.prevRpu = st'.prevRpu) :
    (run c conv st items).map payS = (run c conv st' items).map payS := by
  induction items generalizing st st' with
  | nil => rfl
  | cons it rest ih =>
    have hs := step_pay_indep c conv st st' it h
    simp only [run]
    cases h1 : step c conv st it with
    | none =>
      cases h2 : step c conv st' it with
      | none => rfl
      | some p2 => simp [h1, h2] at hs
    | some p1 =>
      cases h2 : step c conv st' it with
      | none => simp [h1, h2] at hs
      | some p2 =>
        simp only [h1, h2, Option.map_some, Option.some.injEq, Prod.mk.injEq] at hs
        obtain ⟨hst, hcl⟩ := hs
        have ih' := ih p1.1 p2.1 hst
        obtain ⟨st1, s1⟩ := p1
        obtain ⟨st2, s2⟩ := p2
        simp only at hst hcl ih' ⊢
        cases hr1 : run c conv st1 rest <;>
        cases hr2 : run c conv st2 rest <;>
        simp [hr1, hr2] at ih' ⊢
        rw [payS_append, payS_append, hcl, ih']

/-- a prefix SEI NAL whose rewrite is `d`, processed with the option = the NAL with bytes `d` without it -/
theorem step_drop_keep (c : Cfg) (conv : Bytes → Option Bytes) (st : GState) (it : Item) (d : Bytes)
    (ht : it.typ = NAL_SEI_PREFIX) (hk : Sei.dropHdr10plus it.data = .keep d) :
    step { c with drop := true } conv st it = step { c with drop := false } conv st { it with data := d } := by
  have h62 : ¬ it.typ = NAL_UNSPEC62 := by rw [ht]; decide
  have h63 : ¬ it.typ = NAL_UNSPEC63 := by rw [ht]; decide
  have e : (it.typ == NAL_SEI_PREFIX) = true := by simpa using ht
  simp only [step, e, Bool.and_self, Bool.true_and, if_true, hk, Bool.false_and, Bool.false_eq_true, if_false,
    h62, h63, false_and, and_false]

theorem step_drop_other (c : Cfg) (conv : Bytes → Option Bytes) (st : GState) (it : Item)
    (ht : ¬ it.typ = NAL_SEI_PREFIX) :
    step { c with drop := true } conv st it = step { c with drop := false } conv st it := by
  have e : (it.typ == NAL_SEI_PREFIX) = false := by simpa using ht
  simp only [step, e, Bool.and_false, Bool.false_eq_true, if_false]

theorem run_cons_tail (A B : Cfg) (conv : Bytes → Option Bytes) (st st' : GState) (it it' : Item)
    (rest : List Item) (X : Option (List Item))
    (hstep : (step A conv st it).map (fun p => (p.1.prevRpu, payS p.2)) =
             (step B conv st' it').map (fun p => (p.1.prevRpu, payS p.2)))
    (ih : ∀ s s' : GState, s.prevRpu = s'.prevRpu →
      (run A conv s rest).map payS = X.bind (fun its => (run B conv s' its).map payS)) :
    (run A conv st (it :: rest)).map payS = X.bind (fun its => (run B conv st' (it' :: its)).map payS) := by
  simp only [run]
  cases h1 : step A conv st it with
  | none =>
    cases h2 : step B conv st' it' with
    | none => cases X <;> rfl
    | some p2 => simp [h1, h2] at hstep
  | some p1 =>
    cases h2 : step B conv st' it' with
    | none => simp [h1, h2] at hstep
    | some p2 =>
      simp only [h1, h2, Option.map_some, Option.some.injEq, Prod.mk.injEq] at hstep
      have := ih p1.1 p2.1 hstep.1
      obtain ⟨st1, s1⟩ := p1
      obtain ⟨st2, s2⟩ := p2
      simp only at hstep this ⊢
      cases X with
      | none =>
        simp only [Option.bind_none] at this ⊢
        cases hr1 : run A conv st1 rest with
        | none => rfl
        | some s => rw [hr1] at this; simp at this
      | some r =>
        simp only [Option.bind_some] at this ⊢
        cases hr1 : run A conv st1 rest <;> cases hr2 : run B conv st2 r <;> simp [hr1, hr2] at this ⊢
        rw [payS_append, payS_append, hstep.2, this]

/-- `--drop-hdr10plus` = rewriting the prefix SEI NALs one by one, then the same command without the option
(on the bytes written; start-code lengths aside) -/
theorem run_drop_stage (c : Cfg) (conv : Bytes → Option Bytes) (st st' : GState) (items : List Item)
    (h : st.prevRpu = st'.prevRpu) :
    (run { c with drop := true } conv st items).map payS =
      (seiStage true items).bind (fun its => (run { c with drop := false } conv st' its).map payS) := by
  induction items generalizing st st' with
  | nil => simp [run, seiStage]
  | cons it rest ih =>
    by_cases ht : it.typ = NAL_SEI_PREFIX
    · have e : (it.typ == NAL_SEI_PREFIX) = true := by simpa using ht
      simp only [seiStage, e, Bool.and_self, if_true]
      cases hk : Sei.dropHdr10plus it.data with
      | err =>
        simp only [run, step, e, Bool.and_self, if_true, hk]
        rfl
      | dropped =>
        simp only [run, step, e, Bool.and_self, if_true, hk]
        have := ih { idx := st.idx + 1, prevFrame := st.prevFrame, prevRpu := st.prevRpu } st' h
        cases hr : run { c with drop := true } conv { idx := st.idx + 1, prevFrame := st.prevFrame, prevRpu := st.prevRpu } rest with
        | none => rw [hr] at this; simpa using this
        | some s =>
          rw [hr] at this
          simp only [Option.map_some] at this ⊢
          rw [← this]
          simp [payS, Sinks.append]
      | keep d =>
        simp only
        have hst : (step { c with drop := true } conv st it).map (fun p => (p.1.prevRpu, payS p.2)) =
            (step { c with drop := false } conv st' { it with data := d }).map (fun p => (p.1.prevRpu, payS p.2)) := by
          rw [step_drop_keep c conv st it d ht hk]
          exact step_pay_indep _ conv st st' _ h
        have := run_cons_tail _ _ conv st st' it { it with data := d } rest (seiStage true rest) hst ih
        rw [this]
        cases seiStage true rest <;> rfl
    · have e : (it.typ == NAL_SEI_PREFIX) = false := by simpa using ht
      simp only [seiStage, e, Bool.and_false, Bool.false_eq_true, if_false]
      have hst : (step { c with drop := true } conv st it).map (fun p => (p.1.prevRpu, payS p.2)) =
          (step { c with drop := false } conv st' it).map (fun p => (p.1.prevRpu, payS p.2)) := by
        rw [step_drop_other c conv st it ht]
        exact step_pay_indep _ conv st st' _ h
      have := run_cons_tail _ _ conv st st' it it rest (seiStage true rest) hst ih
      rw [this]
      cases seiStage true rest <;> rfl


end Dovi.Hevc
