import DoviModel.Model.XmlDoc
import DoviModel.Proofs.XmlMoreProof
import DoviModel.Proofs.GenerateEntryProof
/-!
# Helper lemmas for the document-level C11 theorems (`Model/XmlDoc.lean`: `configOfDoc`, `generateDoc`)

Core Lean only.
-/
namespace Dovi.XmlDocProof
open Dovi Dovi.Gen Dovi.Xml Dovi.XmlMore Dovi.PqTable Dovi.EditGenProof.Gen Dovi.XmlDoc

/-! ## target displays -/

theorem parseTargets_ok (v5 : Bool) : ∀ (l ts : List Target), parseTargets v5 l = .ok ts →
    ts = l.filter (fun t => !v5 || t.home == some true) ∧
    ∀ t ∈ l, t.peak ≤ 65535 ∧ t.prim.length = 8 ∧ (v5 = true → t.home.isSome = true) := by
  intro l
  induction l with
  | nil =>
    intro ts h
    simp only [parseTargets, Res.ok.injEq] at h
    subst h
    exact ⟨rfl, fun t ht => by cases ht⟩
  | cons t rest ih =>
    intro ts h
    simp only [parseTargets] at h
    split at h
    · cases h
    · rename_i h1
      split at h
      · cases h
      · rename_i h2
        split at h
        · cases h
        · rename_i h3
          simp only [bind_ok_iff, Res.ok.injEq] at h
          obtain ⟨m, hm, hts⟩ := h
          obtain ⟨e, hall⟩ := ih m hm
          refine ⟨?_, ?_⟩
          · rw [List.filter_cons, ← e, ← hts]
          · intro u hu
            rcases List.mem_cons.1 hu with rfl | hu
            · refine ⟨by omega, by simpa using h2, ?_⟩
              intro hv
              cases hh : u.home with
              | none => simp [hv, hh] at h3
              | some _ => rfl
            · exact hall u hu

theorem parseTargets_ne_panic (v5 : Bool) : ∀ (l : List Target), (∀ t ∈ l, t.peak ≤ 65535) →
    parseTargets v5 l ≠ .panic := by
  intro l
  induction l with
  | nil => intro _ h; cases h
  | cons t rest ih =>
    intro hp h
    have ht := hp t List.mem_cons_self
    simp only [parseTargets] at h
    split at h
    · omega
    · split at h
      · cases h
      · split at h
        · cases h
        · rw [bind_panic_iff] at h
          rcases h with h | ⟨_, _, h⟩
          · exact ih (fun u hu => hp u (List.mem_cons_of_mem _ hu)) h
          · cases h

theorem parseTargets_total (v5 : Bool) : ∀ (l : List Target),
    (∀ t ∈ l, t.peak ≤ 65535 ∧ t.prim.length = 8 ∧ (v5 = true → t.home.isSome = true)) →
    parseTargets v5 l = .ok (l.filter (fun t => !v5 || t.home == some true)) := by
  intro l
  induction l with
  | nil => intro _; rfl
  | cons t rest ih =>
    intro hp
    obtain ⟨h1, h2, h3⟩ := hp t List.mem_cons_self
    have := ih (fun u hu => hp u (List.mem_cons_of_mem _ hu))
    simp only [parseTargets, this]
    have e1 : ¬ t.peak > 65535 := by omega
    have e2 : (t.prim.length != 8) = false := by simp [h2]
    have e3 : (v5 && t.home.isNone) = false := by
      cases v5
      · rfl
      · have := h3 rfl
        cases hh : t.home with
        | none => simp [hh] at this
        | some _ => rfl
    rw [if_neg e1, e2, e3]
    simp only [Bool.false_eq_true, if_false, ok_bind, List.filter_cons]

/-! ## `lookup` / `knownTarget` -/

theorem lookup_some {ts : List Target} {id : Nat} {t : Target} (h : lookup ts id = some t) : t ∈ ts ∧ t.id = id := by
  unfold lookup at h
  exact ⟨List.mem_reverse.1 (List.mem_of_find?_eq_some h), by simpa using List.find?_some h⟩

theorem lookup_isSome (ts : List Target) (id : Nat) : (lookup ts id).isSome = true ↔ ∃ t ∈ ts, t.id = id := by
  unfold lookup
  rw [List.find?_isSome]
  constructor
  · rintro ⟨t, ht, he⟩
    exact ⟨t, List.mem_reverse.1 ht, by simpa using he⟩
  · rintro ⟨t, ht, he⟩
    exact ⟨t, List.mem_reverse.2 ht, by simpa using he⟩

theorem knownTarget_isSome (ts : List Target) (tid : Option Nat) :
    (knownTarget ts tid).isSome = true ↔ ∃ id, tid = some id ∧ ∃ t ∈ ts, t.id = id := by
  unfold knownTarget
  cases tid with
  | none => simp
  | some id => simp [lookup_isSome]

theorem knownTarget_some {ts : List Target} {tid : Option Nat} {t : Target} (h : knownTarget ts tid = some t) :
    t ∈ ts ∧ tid = some t.id := by
  unfold knownTarget at h
  cases tid with
  | none => cases h
  | some id =>
    obtain ⟨a, b⟩ := lookup_some h
    exact ⟨a, by rw [b]⟩

/-! ## shots: sorting a sorted list, sums -/

theorem sortShots_of_sorted : ∀ (l : List Shot), l.Pairwise (fun a b => a.start ≤ b.start) → sortShots l = l := by
  intro l
  induction l with
  | nil => intro _; rfl
  | cons s rest ih =>
    intro h
    rw [List.pairwise_cons] at h
    simp only [sortShots, ih h.2]
    cases rest with
    | nil => rfl
    | cons x xs =>
      have := h.1 x List.mem_cons_self
      simp only [insertShot]
      rw [if_neg (by omega)]

theorem insertShot_sorted' (s : Shot) (l : List Shot) (h : l.Pairwise (fun a b => a.start ≤ b.start)) :
    (insertShot s l).Pairwise (fun a b => a.start ≤ b.start) := by
  induction l with
  | nil => simp [insertShot]
  | cons x xs ih =>
    rw [List.pairwise_cons] at h
    simp only [insertShot]
    split
    · rename_i hlt
      rw [List.pairwise_cons]
      refine ⟨?_, ih h.2⟩
      intro y hy
      have hperm : (insertShot s xs).Perm (s :: xs) := by
        clear ih h hy
        induction xs with
        | nil => exact List.Perm.refl _
        | cons z zs ihz =>
          simp only [insertShot]
          split
          · exact (List.Perm.cons z ihz).trans (List.Perm.swap s z zs)
          · exact List.Perm.refl _
      rcases List.mem_cons.1 (hperm.mem_iff.1 hy) with rfl | hy'
      · omega
      · exact h.1 y hy'
    · rename_i hge
      rw [List.pairwise_cons]
      refine ⟨?_, List.pairwise_cons.2 h⟩
      intro y hy
      rcases List.mem_cons.1 hy with rfl | hy'
      · omega
      · have := h.1 y hy'; omega

theorem sortShots_sorted' (l : List Shot) : (sortShots l).Pairwise (fun a b => a.start ≤ b.start) := by
  induction l with
  | nil => simp [sortShots]
  | cons s rest ih => exact insertShot_sorted' s _ ih

theorem sortShots_idem (l : List Shot) : sortShots (sortShots l) = sortShots l :=
  sortShots_of_sorted _ (sortShots_sorted' l)

theorem sumDurations_map (cx : Ctx) (l : List ShotNode) :
    sumDurations (l.map (shotOf cx)) = (l.map ShotNode.duration).sum := by
  induction l with
  | nil => rfl
  | cons s rest ih => simp only [List.map_cons, sumDurations, List.sum_cons, ih]; rfl

theorem insertShot_sum' (s : Shot) (l : List Shot) : sumDurations (insertShot s l) = s.duration + sumDurations l := by
  induction l with
  | nil => rfl
  | cons x xs ih =>
    simp only [insertShot]
    split
    · simp only [sumDurations, ih]; omega
    · rfl

theorem sortShots_sum' (l : List Shot) : sumDurations (sortShots l) = sumDurations l := by
  induction l with
  | nil => rfl
  | cons s rest ih => simp only [sortShots, insertShot_sum', sumDurations, ih]

theorem insertShot_perm' (s : Shot) (l : List Shot) : (insertShot s l).Perm (s :: l) := by
  induction l with
  | nil => exact List.Perm.refl _
  | cons x xs ih =>
    simp only [insertShot]
    split
    · exact (List.Perm.cons x ih).trans (List.Perm.swap s x xs)
    · exact List.Perm.refl _

theorem sortShots_perm' (l : List Shot) : (sortShots l).Perm l := by
  induction l with
  | nil => exact List.Perm.refl _
  | cons s rest ih => exact (insertShot_perm' s _).trans (List.Perm.cons s ih)

/-! ## writing the list -/

theorem writeAll_get : ∀ (rs : List Rpu) (out : List Bytes), writeAll rs = .ok out →
    out.length = rs.length ∧ ∀ (j : Nat) (r : Rpu), rs[j]? = some r → ∃ b, out[j]? = some b ∧ writeRpu r = .ok b := by
  intro rs
  induction rs with
  | nil =>
    intro out h
    simp only [writeAll, Res.ok.injEq] at h
    subst h
    exact ⟨rfl, fun j r hj => by simp at hj⟩
  | cons r rest ih =>
    intro out h
    simp only [writeAll, bind_ok_iff, Res.ok.injEq] at h
    obtain ⟨o, h1, t, h2, h3⟩ := h
    subst h3
    obtain ⟨hl, hg⟩ := ih t h2
    refine ⟨by simp [hl], ?_⟩
    intro j r' hj
    cases j with
    | zero =>
      simp only [List.getElem?_cons_zero, Option.some.injEq] at hj
      subst hj
      exact ⟨o, by simp, h1⟩
    | succ j =>
      simp only [List.getElem?_cons_succ] at hj
      obtain ⟨b, hb1, hb2⟩ := hg j r' hj
      exact ⟨b, by simpa using hb1, hb2⟩

/-! ## `configOfDoc`: when it succeeds, fails, panics -/

/-- the kept targets, as a function of the classified version -/
def keptOf (rev : Nat) (ts : List Target) : List Target := ts.filter fun t => !isV5 rev || t.home == some true

/-- the L10 default blocks of the document: one per kept target with a custom id, CM v4.0 only -/
def docL10 (d : Doc) : List Block :=
  if isCmv4 d.rev then
    l10Defaults ((lastOcc d.kept).map fun t => (t.id, pqOfNits t.peak, minPqOfDecimal t.minNits, t.prim))
  else []

/-- the `GenerateConfig` of a document the parser accepts (`configOfDoc_ok_iff`) -/
def docConfig (o : Opts) (d : Doc) : Config :=
  { cmv40 := isCmv4 d.rev,
    length := sumDurations (d.shotNodes.map (shotOf (d.ctx o))),
    sourceMinPq := some (minPqOfDecimal (masteringMin d.video * 100)),
    sourceMaxPq := some (pqOfNitsRaw (masteringPeak d.video)),
    level5 := level5OfOutput o (d.output.getD {}),
    level6 := some (level6OfVideo d.video),
    defaults := level11OfVideo d.video ++ docL10 d,
    shots := sortShots (d.shotNodes.map (shotOf (d.ctx o))) }

/-- no `bail!` / `ensure!` / `?` fires: a supported version, `Output` and `Video` nodes, every target display with
8 primaries values (and an `ApplicationType` from XML 5.0 on), every level node of every shot and frame edit well
formed (`nodeOk`) -/
def docValid (o : Opts) (d : Doc) : Prop :=
  (∃ comps, d.version = some comps ∧ versionRev comps = .ok d.rev) ∧ versionSupported d.rev = true ∧
  (∃ out v, d.output = some out ∧ out.video = some v) ∧
  (∀ t ∈ d.targetNodes, t.prim.length = 8 ∧ (isV5 d.rev = true → t.home.isSome = true)) ∧
  (∀ s ∈ d.shotNodes, shotOk (d.ctx o) s = true)

/-- no integer conversion `unwrap()`s on an out-of-range value: the mastering peak and every target's peak fit a
`u16`, the L254 / L11 values a `u8`, and (CM v4.0 documents, where L10 blocks are built) every kept target id a `u8` -/
def docFits (d : Doc) : Prop :=
  globalsFit d.video = true ∧ (∀ t ∈ d.targetNodes, t.peak ≤ 65535) ∧
  (isCmv4 d.rev = true → ∀ t ∈ d.kept, t.id ≤ 255)

theorem lastOcc_sub : ∀ (l : List Target) (t : Target), t ∈ lastOcc l → t ∈ l := by
  intro l
  induction l with
  | nil => intro t h; cases h
  | cons x xs ih =>
    intro t h
    simp only [lastOcc] at h
    split at h
    · exact List.mem_cons_of_mem _ (ih t h)
    · rcases List.mem_cons.1 h with rfl | h
      · exact List.mem_cons_self
      · exact List.mem_cons_of_mem _ (ih t h)

theorem lastOcc_id : ∀ (l : List Target) (t : Target), t ∈ l → ∃ u ∈ lastOcc l, u.id = t.id := by
  intro l
  induction l with
  | nil => intro t h; cases h
  | cons x xs ih =>
    intro t h
    simp only [lastOcc]
    split
    · rename_i hany
      rcases List.mem_cons.1 h with rfl | h
      · obtain ⟨u, hu, he⟩ := List.any_eq_true.1 hany
        obtain ⟨w, hw, hwe⟩ := ih u hu
        exact ⟨w, hw, by rw [hwe]; simpa using he⟩
      · exact ih t h
    · rcases List.mem_cons.1 h with rfl | h
      · exact ⟨t, List.mem_cons_self, rfl⟩
      · obtain ⟨u, hu, he⟩ := ih t h
        exact ⟨u, List.mem_cons_of_mem _ hu, he⟩

theorem lastOcc_any_big (l : List Target) :
    (lastOcc l).any (fun t => decide (t.id > 255)) = false ↔ ∀ t ∈ l, t.id ≤ 255 := by
  rw [Bool.eq_false_iff, Ne, List.any_eq_true]
  constructor
  · intro h t ht
    obtain ⟨u, hu, he⟩ := lastOcc_id l t ht
    apply Nat.le_of_not_lt
    intro hlt
    exact h ⟨u, hu, by simpa [he] using hlt⟩
  · rintro h ⟨u, hu, hb⟩
    have := h u (lastOcc_sub l u hu)
    simp at hb
    omega

theorem lastOcc_distinct : ∀ (l : List Target), (lastOcc l).Pairwise (fun a b => a.id ≠ b.id) := by
  intro l
  induction l with
  | nil => exact List.Pairwise.nil
  | cons x xs ih =>
    simp only [lastOcc]
    split
    · exact ih
    · rename_i hany
      rw [List.pairwise_cons]
      refine ⟨?_, ih⟩
      intro u hu he
      apply hany
      exact List.any_eq_true.2 ⟨u, lastOcc_sub xs u hu, by simpa using he.symm⟩

theorem l10Blocks_ok_iff (ts : List Target) (l : List Block) :
    l10Blocks ts = .ok l ↔ (∀ t ∈ ts, t.id ≤ 255) ∧
      l = l10Defaults ((lastOcc ts).map fun t => (t.id, pqOfNits t.peak, minPqOfDecimal t.minNits, t.prim)) := by
  unfold l10Blocks
  rw [← lastOcc_any_big]
  cases h : (lastOcc ts).any (fun t => decide (t.id > 255))
  · simp [eq_comm]
  · simp

theorem l10Blocks_ne_error (ts : List Target) : l10Blocks ts ≠ .error := by
  unfold l10Blocks
  split <;> simp

/-- the config `configOfVideo` builds when nothing fails -/
def videoConfig (o : Opts) (rev : Nat) (out : Output) (v : Video) : Config :=
  { cmv40 := isCmv4 rev,
    length := sumDurations (v.shots.map (shotOf (ctxOf o rev (keptOf rev v.targets)))),
    sourceMinPq := some (minPqOfDecimal (masteringMin v * 100)),
    sourceMaxPq := some (pqOfNitsRaw (masteringPeak v)),
    level5 := level5OfOutput o out,
    level6 := some (level6OfVideo v),
    defaults := level11OfVideo v ++
      (if isCmv4 rev then
        l10Defaults ((lastOcc (keptOf rev v.targets)).map fun t => (t.id, pqOfNits t.peak, minPqOfDecimal t.minNits, t.prim))
       else []),
    shots := sortShots (v.shots.map (shotOf (ctxOf o rev (keptOf rev v.targets)))) }

theorem configOfVideo_ok_iff (o : Opts) (rev : Nat) (out : Output) (v : Video) (c : Config) :
    configOfVideo o rev out v = .ok c ↔
      globalsFit v = true ∧
      (∀ t ∈ v.targets, t.peak ≤ 65535 ∧ t.prim.length = 8 ∧ (isV5 rev = true → t.home.isSome = true)) ∧
      v.shots.all (shotOk (ctxOf o rev (keptOf rev v.targets))) = true ∧
      (isCmv4 rev = true → ∀ t ∈ keptOf rev v.targets, t.id ≤ 255) ∧
      c = videoConfig o rev out v := by
  unfold configOfVideo videoConfig
  cases hg : globalsFit v
  · simp
  · simp only [Bool.not_true, Bool.false_eq_true, if_false, true_and]
    constructor
    · intro h
      rw [bind_ok_iff] at h
      obtain ⟨ts, hts, h⟩ := h
      obtain ⟨e, hall⟩ := parseTargets_ok _ _ _ hts
      have e' : ts = keptOf rev v.targets := e
      subst e'
      refine ⟨hall, ?_⟩
      cases hs : v.shots.all (shotOk (ctxOf o rev (keptOf rev v.targets)))
      · simp [hs] at h
      · simp only [hs, Bool.not_true, Bool.false_eq_true, if_false] at h
        rw [bind_ok_iff] at h
        obtain ⟨l10, hl, h⟩ := h
        simp only [Res.ok.injEq] at h
        cases hc : isCmv4 rev
        · simp only [hc, Bool.false_eq_true, if_false, Res.ok.injEq] at hl
          subst hl
          simp [hc, ← h]
        · simp only [hc, if_true] at hl
          obtain ⟨h1, h2⟩ := (l10Blocks_ok_iff _ _).1 hl
          subst h2
          simp [hc, ← h]
          exact h1
    · rintro ⟨hall, hs, hid, hc⟩
      have hts := parseTargets_total (isV5 rev) v.targets hall
      have hts' : parseTargets (isV5 rev) v.targets = .ok (keptOf rev v.targets) := hts
      rw [hts', ok_bind, hs]
      simp only [Bool.not_true, Bool.false_eq_true, if_false]
      cases hcm : isCmv4 rev
      · simp only [Bool.false_eq_true, if_false, ok_bind]
        rw [hc]; simp [hcm]
      · simp only [if_true]
        rw [(l10Blocks_ok_iff _ _).2 ⟨hid hcm, rfl⟩, ok_bind, hc]
        simp [hcm]

theorem configOfVideo_ne_panic (o : Opts) (rev : Nat) (out : Output) (v : Video)
    (hg : globalsFit v = true) (hp : ∀ t ∈ v.targets, t.peak ≤ 65535)
    (hid : isCmv4 rev = true → ∀ t ∈ keptOf rev v.targets, t.id ≤ 255) :
    configOfVideo o rev out v ≠ .panic := by
  unfold configOfVideo
  simp only [hg, Bool.not_true, Bool.false_eq_true, if_false]
  intro h
  rw [bind_panic_iff] at h
  rcases h with h | ⟨ts, hts, h⟩
  · exact parseTargets_ne_panic _ _ hp h
  · obtain ⟨e, _⟩ := parseTargets_ok _ _ _ hts
    have e' : ts = keptOf rev v.targets := e
    subst e'
    split at h
    · cases h
    · rw [bind_panic_iff] at h
      rcases h with h | ⟨_, _, h⟩
      · split at h
        · rename_i hc
          unfold l10Blocks at h
          rw [(lastOcc_any_big _).2 (hid hc)] at h
          simp at h
        · cases h
      · cases h

/-- **`configOfDoc` succeeds exactly on the valid documents whose integers fit, with the config `docConfig`** -/
theorem configOfDoc_ok_iff (o : Opts) (d : Doc) (c : Config) :
    configOfDoc o d = .ok c ↔ docValid o d ∧ docFits d ∧ c = docConfig o d := by
  unfold configOfDoc docValid docFits
  cases hv : d.version with
  | none => simp
  | some comps =>
    simp only [Option.some.injEq, exists_eq_left']
    cases hr : versionRev comps with
    | error => simp [Res.bind]
    | panic => simp [Res.bind]
    | ok rev =>
      have hrev : d.rev = rev := by simp [Doc.rev, hv, hr]
      simp only [ok_bind, hrev, true_and]
      cases hs : versionSupported rev
      · simp
      · simp only [Bool.not_true, Bool.false_eq_true, if_false, true_and]
        cases hout : d.output with
        | none => simp
        | some out =>
          simp only [Option.some.injEq]
          cases hvid : out.video with
          | none => simp [hvid]
          | some v =>
            have hvideo : d.video = v := by simp [Doc.video, hout, hvid]
            have hkept : d.kept = keptOf rev v.targets := by simp [Doc.kept, Doc.targetNodes, hvideo, hrev, keptOf]
            have hctx : d.ctx o = ctxOf o rev (keptOf rev v.targets) := by simp [Doc.ctx, hrev, hkept]
            have hcfg : docConfig o d = videoConfig o rev out v := by
              simp [docConfig, videoConfig, docL10, Doc.shotNodes, hvideo, hrev, hkept, hctx, hout]
            simp only []
            rw [configOfVideo_ok_iff, hcfg]
            simp only [Doc.targetNodes, Doc.shotNodes, hvideo, hkept, hctx, List.all_eq_true]
            constructor
            · rintro ⟨a, b, c', e, f⟩
              exact ⟨⟨⟨out, v, rfl, hvid⟩, fun t ht => ⟨(b t ht).2.1, (b t ht).2.2⟩, c'⟩, ⟨a, fun t ht => (b t ht).1, e⟩, f⟩
            · rintro ⟨⟨_, a, b⟩, ⟨c', e, f⟩, g⟩
              exact ⟨c', fun t ht => ⟨e t ht, (a t ht).1, (a t ht).2⟩, b, f, g⟩

/-- **`configOfDoc` does not panic** when the version fold does not and the integers fit -/
theorem configOfDoc_ne_panic (o : Opts) (d : Doc) (hver : ∀ comps, d.version = some comps → versionRev comps ≠ .panic)
    (hf : docFits d) : configOfDoc o d ≠ .panic := by
  unfold configOfDoc
  obtain ⟨hg, hp, hid⟩ := hf
  cases hv : d.version with
  | none => simp
  | some comps =>
    simp only []
    cases hr : versionRev comps with
    | error => simp [Res.bind]
    | panic => exact absurd hr (hver comps hv)
    | ok rev =>
      have hrev : d.rev = rev := by simp [Doc.rev, hv, hr]
      simp only [ok_bind]
      cases hs : versionSupported rev
      · simp
      · simp only [Bool.not_true, Bool.false_eq_true, if_false]
        cases hout : d.output with
        | none => simp
        | some out =>
          simp only []
          cases hvid : out.video with
          | none => simp
          | some v =>
            have hvideo : d.video = v := by simp [Doc.video, hout, hvid]
            have hkept : d.kept = keptOf rev v.targets := by simp [Doc.kept, Doc.targetNodes, hvideo, hrev, keptOf]
            simp only []
            apply configOfVideo_ne_panic
            · rw [← hvideo]; exact hg
            · rw [← hvideo]; exact hp
            · rw [← hkept, ← hrev]; exact hid

/-- the version fold: the invariant `rev < 16^i` excludes every overflow for components up to 15 -/
theorem versionFold_ne_panic : ∀ (l : List Nat) (i rev : Nat), (∀ v ∈ l, v ≤ 15) → i + l.length ≤ 4 → rev < 16 ^ i →
    versionFold l i rev ≠ .panic := by
  intro l
  induction l with
  | nil => intro i rev _ _ _ h; cases h
  | cons v rest ih =>
    intro i rev hv hlen hrev
    have hv15 := hv v List.mem_cons_self
    simp only [List.length_cons] at hlen
    have hi : i ≤ 3 := by omega
    have hsh : v <<< (4 * i) = v * 16 ^ i := by
      rw [Nat.shiftLeft_eq, Nat.pow_mul]
    have hpow : 16 ^ i ≤ 4096 := by
      have : 16 ^ i ≤ 16 ^ 3 := Nat.pow_le_pow_right (by decide) hi
      simpa using this
    have hle : v * 16 ^ i ≤ 15 * 16 ^ i := Nat.mul_le_mul_right _ hv15
    have hmod : (v * 16 ^ i) % 65536 = v * 16 ^ i := Nat.mod_eq_of_lt (by omega)
    simp only [versionFold]
    rw [if_neg (by omega), if_neg (by omega), hsh, hmod, if_neg (by omega)]
    apply ih (i + 1) _ (fun w hw => hv w (List.mem_cons_of_mem _ hw)) (by omega)
    rw [Nat.pow_succ]
    omega

theorem versionRev_ne_panic (comps : List Nat) (h1 : comps.length ≤ 4) (h2 : ∀ v ∈ comps, v ≤ 15) :
    versionRev comps ≠ .panic :=
  versionFold_ne_panic _ 0 0 (fun v hv => h2 v (List.mem_reverse.1 hv)) (by simpa using h1) (by decide)

/-! ## trims -/

/-- the blocks of the `Frame` of a shot that applies at offset `i`: the FIRST `Frame` child with that
`EditOffset` (none: no blocks) -/
def frameTrims (cx : Ctx) (n : ShotNode) (i : Nat) : List Block :=
  match n.frames.find? (fun f => f.offset == i) with
  | some f => trimsOf cx f.levels
  | none => []

theorem editBlocks_shotOf (cx : Ctx) (n : ShotNode) (i : Nat) : editBlocks (shotOf cx n) i = frameTrims cx n i := by
  unfold editBlocks frameTrims shotOf
  simp only [List.find?_map]
  cases h : n.frames.find? (fun f => f.offset == i) with
  | none =>
    have : List.find? ((fun (e : FrameEdit) => e.offset == i) ∘ fun (f : FrameNode) =>
        ({ offset := f.offset, blocks := trimsOf cx f.levels } : FrameEdit)) n.frames = none := h
    rw [this]; rfl
  | some f =>
    have : List.find? ((fun (e : FrameEdit) => e.offset == i) ∘ fun (f : FrameNode) =>
        ({ offset := f.offset, blocks := trimsOf cx f.levels } : FrameEdit)) n.frames = some f := h
    rw [this]; rfl

theorem l1Block_level (cm : Bool) (a b c : Int) : (l1Block cm a b c).level = 1 := by
  simp [l1Block, clampL1]

theorem l9OfXml_level (p : List Int) : (l9OfXml p).level = 9 := by
  unfold l9OfXml
  simp only
  split <;> rfl

theorem l10OfXml_level (tid mx mn : Nat) (p : List Int) : (l10OfXml tid mx mn p).level = 10 := by
  unfold l10OfXml
  simp only
  split <;> rfl

theorem l10OfXml_key (tid mx mn : Nat) (p : List Int) : (l10OfXml tid mx mn p).vals.getD 0 0 = (tid : Int) := by
  unfold l10OfXml
  simp only
  split <;> rfl

/-- a level node yields a block of its own level -/
theorem nodeBlock_level (cx : Ctx) (n : LevelNode) (b : Block) (h : nodeBlock cx n = some b) :
    b.level = 1 ∨ b.level = 2 ∨ b.level = 3 ∨ b.level = 5 ∨ b.level = 8 ∨ b.level = 9 := by
  cases n with
  | l1 vals =>
    simp only [nodeBlock, Option.some.injEq] at h
    subst h; exact .inl (l1Block_level _ _ _ _)
  | l2 tid trim =>
    simp only [nodeBlock, Option.map_eq_some_iff] at h
    obtain ⟨t, _, rfl⟩ := h
    exact .inr (.inl rfl)
  | l3 vals =>
    simp only [nodeBlock, Option.some.injEq] at h
    subst h; exact .inr (.inr (.inl rfl))
  | l5 ratios =>
    simp only [nodeBlock, Option.some.injEq] at h
    subst h; exact .inr (.inr (.inr (.inl rfl)))
  | l8 tid trim mid clip sat hue =>
    simp only [nodeBlock, Option.map_eq_some_iff] at h
    obtain ⟨t, _, rfl⟩ := h
    exact .inr (.inr (.inr (.inr (.inl rfl))))
  | l9 prim =>
    simp only [nodeBlock, Option.some.injEq] at h
    subst h; exact .inr (.inr (.inr (.inr (.inr (l9OfXml_level _)))))
  | other => simp [nodeBlock] at h

theorem trimsOf_level (cx : Ctx) (l : Option (List LevelNode)) (b : Block) (h : b ∈ trimsOf cx l) :
    b.level = 1 ∨ b.level = 2 ∨ b.level = 3 ∨ b.level = 5 ∨ b.level = 8 ∨ b.level = 9 := by
  unfold trimsOf at h
  obtain ⟨n, _, hn⟩ := List.mem_filterMap.1 h
  exact nodeBlock_level cx n b hn

theorem frameTrims_level (cx : Ctx) (n : ShotNode) (i : Nat) (b : Block) (h : b ∈ frameTrims cx n i) :
    b.level = 1 ∨ b.level = 2 ∨ b.level = 3 ∨ b.level = 5 ∨ b.level = 8 ∨ b.level = 9 := by
  unfold frameTrims at h
  split at h
  · exact trimsOf_level cx _ b h
  · cases h

/-- blocks of other levels are not touched by a list of trims -/
theorem all_not_sameKey_of_level (bs : List Block) (x : Block)
    (h : ∀ b ∈ bs, b.level ≠ x.level) : bs.all (fun b => !sameKey b x) = true := by
  rw [List.all_eq_true]
  intro b hb
  have : sameKey b x = false := sameKey_false_of_level (h b hb)
  simp [this]

/-! ## the generated list -/

theorem docConfig_shots_sorted (o : Opts) (d : Doc) : sortShots (docConfig o d).shots = (docConfig o d).shots :=
  sortShots_idem _

theorem generateListDoc_ok (o : Opts) (d : Doc) (rs : List Rpu) (h : generateListDoc o d = .ok rs) :
    docValid o d ∧ docFits d ∧ configOfDoc o d = .ok (docConfig o d) ∧
      generateListXml (docConfig o d) (l254OfDoc d) = .ok rs := by
  unfold generateListDoc at h
  rw [bind_ok_iff] at h
  obtain ⟨c, hc, hg⟩ := h
  obtain ⟨a, b, e⟩ := (configOfDoc_ok_iff o d c).1 hc
  subst e
  exact ⟨a, b, hc, hg⟩

theorem generateDoc_ok (o : Opts) (d : Doc) (out : List Bytes) (h : generateDoc o d = .ok out) :
    ∃ rs, generateListDoc o d = .ok rs ∧ writeAll rs = .ok out := by
  unfold generateDoc generateXml at h
  rw [bind_ok_iff] at h
  obtain ⟨c, hc, hg⟩ := h
  rw [bind_ok_iff] at hg
  obtain ⟨rs, hrs, hw⟩ := hg
  refine ⟨rs, ?_, hw⟩
  unfold generateListDoc
  rw [hc]; exact hrs

/-- every RPU of the generated list is the frame of some shot at some offset -/
theorem mem_generateListXml (c : Config) (l254 : Option (Nat × Nat)) (rs : List Rpu)
    (h : generateListXml c l254 = .ok rs) (r : Rpu) (hr : r ∈ rs) :
    ∃ dm0, dmFromXmlConfig c l254 = .ok dm0 ∧ ∃ s ∈ sortShots c.shots, ∃ i, i < s.duration ∧
      frameRpu c (baseXml dm0) s i = .ok r := by
  obtain ⟨dm0, h1, h2⟩ := (generateListXml_ok c l254 rs).1 h
  refine ⟨dm0, h1, ?_⟩
  have hs := allFrames_structure c (baseXml dm0) (sortShots c.shots) rs h2
  have hm : Res.ok r ∈ rs.map Res.ok := List.mem_map.2 ⟨r, hr, rfl⟩
  rw [hs, List.mem_flatMap] at hm
  obtain ⟨s, hs1, hs2⟩ := hm
  obtain ⟨i, hi1, hi2⟩ := List.mem_map.1 hs2
  exact ⟨s, hs1, i, List.mem_range.1 hi1, hi2⟩

/-! ## the base DM data of a document -/

theorem find_last_of_noDup {l : List Block} (hn : NoDup l) (x : Block) :
    l.reverse.find? (sameKey x) = some x ↔ x ∈ l := by
  constructor
  · intro h; exact (lastWins_mem h).1
  · intro hx
    cases hf : l.reverse.find? (sameKey x) with
    | none =>
      rw [List.find?_eq_none] at hf
      have := hf x (List.mem_reverse.2 hx)
      simp [sameKey_refl] at this
    | some y =>
      obtain ⟨hy, hk⟩ := lastWins_mem hf
      rw [hn.unique hx hy hk]

/-- the L10 block of a kept target -/
theorem docL10_mem (d : Doc) (x : Block) :
    x ∈ docL10 d ↔ isCmv4 d.rev = true ∧ ∃ t ∈ lastOcc d.kept, t.id ∉ presetTargets ∧ x = l10OfTarget t := by
  unfold docL10
  cases hc : isCmv4 d.rev
  · simp
  · simp only [if_true, true_and, l10Defaults, List.mem_map, List.mem_filter]
    constructor
    · rintro ⟨p, ⟨⟨t, ht, rfl⟩, hp⟩, rfl⟩
      exact ⟨t, ht, by simpa using hp, rfl⟩
    · rintro ⟨t, ht, hp, rfl⟩
      exact ⟨_, ⟨⟨t, ht, rfl⟩, by simpa using hp⟩, rfl⟩

theorem docL10_level (d : Doc) (x : Block) (h : x ∈ docL10 d) : x.level = 10 := by
  obtain ⟨_, t, _, _, rfl⟩ := (docL10_mem d x).1 h
  exact l10OfXml_level _ _ _ _

theorem docL10_noDup (d : Doc) : NoDup (docL10 d) := by
  unfold docL10
  split
  · unfold l10Defaults NoDup
    rw [List.pairwise_map]
    apply List.Pairwise.filter
    rw [List.pairwise_map]
    apply List.Pairwise.imp _ (lastOcc_distinct d.kept)
    intro a b hab
    simp only [sameKey, l10OfXml_level, l10OfXml_key, beq_self_eq_true, keyed, Bool.true_and]
    have : ¬ ((a.id : Int) = (b.id : Int)) := by omega
    simp [this]
  · exact List.Pairwise.nil

theorem level11OfVideo_cases (v : Video) :
    (level11OfVideo v = [] ∨ ∃ ct wp, level11OfVideo v = [l11OfXml ct wp]) := by
  unfold level11OfVideo
  split
  · exact .inr ⟨_, _, rfl⟩
  · exact .inl rfl

theorem level11OfVideo_level (v : Video) (b : Block) (h : b ∈ level11OfVideo v) : b.level = 11 := by
  rcases level11OfVideo_cases v with e | ⟨ct, wp, e⟩
  · rw [e] at h; cases h
  · rw [e] at h; simp only [List.mem_singleton] at h; subst h; rfl

theorem docConfig_defaultBlocks (o : Opts) (d : Doc) :
    defaultBlocks (docConfig o d) = level11OfVideo d.video ++ docL10 d := by
  unfold defaultBlocks
  show (level11OfVideo d.video ++ docL10 d).filter _ = _
  rw [List.filter_eq_self]
  intro b hb
  rcases List.mem_append.1 hb with h | h
  · simp [level11OfVideo_level _ b h]
  · simp [docL10_level d b h]


theorem statics_level (c : Config) (b : Block) (h : b ∈ statics c) :
    b.level = 5 ∨ b.level = 6 ∨ b.level = 9 ∨ b.level = 11 := by
  unfold statics at h
  cases hl : c.level6 with
  | none =>
    simp only [hl, List.append_nil, List.cons_append, List.nil_append, List.mem_cons, List.not_mem_nil, or_false] at h
    rcases h with rfl | rfl | rfl
    · exact .inl rfl
    · exact .inr (.inr (.inl rfl))
    · exact .inr (.inr (.inr rfl))
  | some v =>
    simp only [hl, List.cons_append, List.nil_append, List.mem_cons, List.not_mem_nil, or_false] at h
    rcases h with rfl | rfl | rfl | rfl
    · exact .inl rfl
    · exact .inr (.inl rfl)
    · exact .inr (.inr (.inl rfl))
    · exact .inr (.inr (.inr rfl))

/-- **L10 of the base DM data**: exactly the L10 blocks of the kept custom-id targets (none for CM v2.9) -/
theorem base_l10 (o : Opts) (d : Doc) (dm0 : DmData) (h : dmFromXmlConfig (docConfig o d) (l254OfDoc d) = .ok dm0)
    (x : Block) (hx : x.level = 10) : x ∈ dm0.levelBlocks 10 ↔ x ∈ docL10 d := by
  obtain ⟨_, _, hh, _, _, _, _, hm⟩ := dmFromXmlConfig_spec _ _ dm0 h
  have hholds : holds dm0 10 ↔ isCmv4 d.rev = true := by
    rw [hh]
    show ((10 : Nat) ∈ cmv29Levels ∨ (isCmv4 d.rev = true ∧ (10 : Nat) ∈ cmv40Levels)) ↔ _
    simp [cmv29Levels, cmv40Levels]
  have h11 : (level11OfVideo d.video).reverse.find? (sameKey x) = none := by
    rw [List.find?_eq_none]
    intro b hb
    have := level11OfVideo_level _ b (List.mem_reverse.1 hb)
    have : sameKey x b = false := sameKey_false_of_level (by rw [hx, this]; decide)
    simp [this]
  have hfind : (defaultBlocks (docConfig o d)).reverse.find? (sameKey x) = (docL10 d).reverse.find? (sameKey x) := by
    rw [docConfig_defaultBlocks, List.reverse_append, List.find?_append, h11, Option.or_none]
  have hst : (statics (docConfig o d)).reverse.find? (sameKey x) ≠ some x := by
    intro hs
    obtain ⟨hy, _⟩ := lastWins_mem hs
    have := statics_level _ x hy
    omega
  have := hm x
  rw [hx] at this
  rw [this, hfind, find_last_of_noDup (docL10_noDup d), hholds]
  constructor
  · rintro (⟨_, a⟩ | ⟨_, _, a⟩ | ⟨_, _, _, a⟩)
    · exact a
    · exact absurd a hst
    · rw [a] at hx; cases hx
  · intro a
    exact .inl ⟨((docL10_mem d x).1 a).1, a⟩

theorem level_of_mem_levelBlocks {dm : DmData} {x : Block} {lv : Nat} (h : x ∈ dm.levelBlocks lv) : x.level = lv := by
  obtain ⟨_, _, _, _, _, e⟩ := (mem_levelBlocks dm x lv).1 h
  exact e

/-! ## the XML generation path never panics -/

section nopanic
open Dovi.GenerateEntryProof

theorem countOk_dmInitXml (c : Config) (l254 : Option (Nat × Nat)) : CountOk (dmInitXml c l254) := by
  intro w k h
  cases w
  · simp only [dmInitXml, DmData.get, Option.some.injEq] at h; subst h; rfl
  · simp only [dmInitXml, DmData.get] at h
    split at h
    · cases h; rfl
    · cases h

theorem dmFromXmlConfig_count (c : Config) (l254 : Option (Nat × Nat)) (dm0 : DmData)
    (h : dmFromXmlConfig c l254 = .ok dm0) :
    CountOk dm0 ∧ dm0.affected_dm_metadata_id = 0 ∧ dm0.current_dm_metadata_id = 0 := by
  rw [dmFromXmlConfig_eq] at h
  simp only [bind_ok_iff, Res.ok.injEq] at h
  obtain ⟨d1, h1, h2⟩ := h
  subst h2
  have hc := replaceBlocks_count _ _ _ (countOk_dmInitXml c l254) h1
  obtain ⟨_, hs, _, _⟩ := replaceBlocks_spec _ _ _ (uniq_dmInitXml c l254) h1
  have hs2 := csl_shell d1 c.sourceMinPq c.sourceMaxPq
  refine ⟨?_, ?_, ?_⟩
  · intro w k hk
    rw [csl_get] at hk
    exact hc w k hk
  · have a := congrArg DmData.affected_dm_metadata_id hs2
    have b := congrArg DmData.affected_dm_metadata_id hs
    simp only [shell] at a b
    rw [a, b]; rfl
  · have a := congrArg DmData.current_dm_metadata_id hs2
    have b := congrArg DmData.current_dm_metadata_id hs
    simp only [shell] at a b
    rw [a, b]; rfl

theorem generateListXml_ne_panic (c : Config) (l254 : Option (Nat × Nat)) : generateListXml c l254 ≠ .panic := by
  unfold generateListXml baseRpuXml
  intro h
  simp only [bind_assoc, bind_panic_iff] at h
  rcases h with h | ⟨d, _, h⟩
  · rw [dmFromXmlConfig_eq] at h
    simp only [bind_panic_iff, reduceCtorEq, and_false, exists_false, or_false] at h
    exact replaceBlocks_ne_panic _ _ h
  · rcases h with h | ⟨a, _, h⟩
    · cases h
    · exact allFrames_ne_panic _ _ _ h

/-- the writer never panics on a frame generated from an XML-derived config -/
theorem xml_writeRpu_ne_panic (c : Config) (l254 : Option (Nat × Nat)) (l : List Rpu)
    (h : generateListXml c l254 = .ok l) (r : Rpu) (hr : r ∈ l) : writeRpu r ≠ .panic := by
  obtain ⟨dm0, h4, s, _, i, _, hri⟩ := mem_generateListXml c l254 l h r hr
  obtain ⟨hu, hf, _⟩ := dmFromXmlConfig_spec c l254 dm0 h4
  obtain ⟨hcnt0, ha0, hc0⟩ := dmFromXmlConfig_count c l254 dm0 h4
  obtain ⟨d, e1, _, e3, _, _⟩ := frameRpu_spec c (baseXml dm0) s i r dm0 rfl hf hu hri
  obtain ⟨d', hd', hcnt⟩ := frameRpu_count c (baseXml dm0) s i r dm0 rfl hf hcnt0 hri
  have hdd : d' = d := by rw [e1] at hd'; simpa using hd'.symm
  subst hdd
  have ea : d'.affected_dm_metadata_id = 0 := by
    have := congrArg DmData.affected_dm_metadata_id e3; exact this.trans ha0
  have ec : d'.current_dm_metadata_id = 0 := by
    have := congrArg DmData.current_dm_metadata_id e3; exact this.trans hc0
  have ef : d'.scene_refresh_flag = cutFlag c i := congrArg DmData.scene_refresh_flag e3
  have hhdr : r.header = (baseOf { profile := .p81 } default).header := by rw [e1]; rfl
  have hmap : r.rpu_data_mapping = (baseOf { profile := .p81 } default).rpu_data_mapping := by rw [e1]; rfl
  apply writeRpu_ne_panic_of
  intro hv
  have hdv : d'.validate = true := by
    simp only [Rpu.validate, hd', Bool.and_eq_true] at hv; exact hv.2
  simp only [DmData.validate, Bool.and_eq_true] at hdv
  obtain ⟨⟨_, v29⟩, v40⟩ := hdv
  refine writeBody_ne_panic_of r .p81 hhdr hmap d' hd' (fun pos => ?_)
  refine writeDmData_ne_panic pos d' (by rw [ea]; decide) (by rw [ec]; decide) ?_ ?_ ?_
  · rw [ef]; unfold cutFlag; split <;> decide
  · intro k hk
    rw [hk] at v29
    exact validate29_contOk k (hcnt .v29 k hk) v29
  · intro k hk
    rw [hk] at v40
    exact validate40_contOk k (hcnt .v40 k hk) v40

/-- **`generateXml` never panics** (config → bytes) -/
theorem generateXml_ne_panic (c : Config) (l254 : Option (Nat × Nat)) : generateXml c l254 ≠ .panic := by
  unfold generateXml
  intro h
  rw [bind_panic_iff] at h
  rcases h with h | ⟨l, hl, hw⟩
  · exact generateListXml_ne_panic c l254 h
  · obtain ⟨r, hr, hp⟩ := writeAll_panic l hw
    exact xml_writeRpu_ne_panic c l254 l hl r hr hp

/-- `generateDoc` panics only where `configOfDoc` does -/
theorem generateDoc_panic_iff (o : Opts) (d : Doc) : generateDoc o d = .panic ↔ configOfDoc o d = .panic := by
  unfold generateDoc
  rw [bind_panic_iff]
  constructor
  · rintro (h | ⟨c, _, h⟩)
    · exact h
    · exact absurd h (generateXml_ne_panic _ _)
  · intro h; exact .inl h

end nopanic

/-! ## the PQ codes used by `configOfDoc` are the certified ones -/

/-- wherever the certified search decides, the total function is that value -/
theorem minPqOfDecimal_certified (mn c : Nat) (h : pqOfDecimal mn = some c) : minPqOfDecimal mn = c := by
  unfold pqOfDecimal codeOfRat at h
  simp only at h
  split at h
  · injection h
  · cases h

theorem pqOfNitsRaw_table (n : Nat) (hn : n ≤ 10000) : pqOfNitsRaw n = codeOfNits n ∧ pqOfNitsRaw n = pqOfNits n := by
  unfold pqOfNitsRaw pqOfNits
  rw [if_pos hn, if_pos hn]
  exact ⟨rfl, rfl⟩

end Dovi.XmlDocProof
