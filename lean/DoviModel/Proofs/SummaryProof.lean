import DoviModel.Model.Export
/-!
# Helper lemmas for the `info --summary` clause of C16

Order-preserving de-duplication (`unique()`), the running maximum, and the summary fields of `Model/Export.lean`.
-/
namespace Dovi.SummaryProof
open Dovi Dovi.Export

/-! ## `unique()` : first-appearance de-duplication -/

/-- the fold the model uses for itertools' `unique()` -/
def uniq {α} [BEq α] (xs : List α) : List α :=
  xs.foldl (fun acc x => if acc.contains x then acc else acc ++ [x]) []

theorem foldl_uniq_spec {α} [BEq α] [LawfulBEq α] (xs acc : List α) (hacc : acc.Nodup) :
    (xs.foldl (fun acc x => if acc.contains x then acc else acc ++ [x]) acc).Nodup ∧
    ∀ x, x ∈ xs.foldl (fun acc x => if acc.contains x then acc else acc ++ [x]) acc ↔ x ∈ acc ∨ x ∈ xs := by
  induction xs generalizing acc with
  | nil => exact ⟨hacc, by simp⟩
  | cons y ys ih =>
    simp only [List.foldl_cons]
    by_cases hy : acc.contains y = true
    · simp only [hy, if_true]
      obtain ⟨h1, h2⟩ := ih acc hacc
      refine ⟨h1, fun x => ?_⟩
      rw [h2 x]
      have hy' : y ∈ acc := by simpa using hy
      constructor
      · rintro (h | h)
        · exact Or.inl h
        · exact Or.inr (List.mem_cons_of_mem _ h)
      · rintro (h | h)
        · exact Or.inl h
        · rcases List.mem_cons.mp h with rfl | h
          · exact Or.inl hy'
          · exact Or.inr h
    · have hy' : acc.contains y = false := by simpa using hy
      have hny : y ∉ acc := by simpa using hy'
      simp only [hy', Bool.false_eq_true, if_false]
      have hnd : (acc ++ [y]).Nodup := by
        rw [List.nodup_append]
        refine ⟨hacc, by simp, ?_⟩
        intro a ha b hb
        simp only [List.mem_singleton] at hb; subst hb
        intro hab; subst hab; exact hny ha
      obtain ⟨h1, h2⟩ := ih (acc ++ [y]) hnd
      refine ⟨h1, fun x => ?_⟩
      rw [h2 x]
      simp only [List.mem_append, List.mem_cons, List.not_mem_nil, or_false]
      constructor
      · rintro ((h | h) | h)
        · exact Or.inl h
        · exact Or.inr (Or.inl h)
        · exact Or.inr (Or.inr h)
      · rintro (h | h | h)
        · exact Or.inl (Or.inl h)
        · exact Or.inl (Or.inr h)
        · exact Or.inr h

theorem uniq_nodup {α} [BEq α] [LawfulBEq α] (xs : List α) : (uniq xs).Nodup :=
  (foldl_uniq_spec xs [] List.nodup_nil).1

theorem mem_uniq {α} [BEq α] [LawfulBEq α] (xs : List α) (x : α) : x ∈ uniq xs ↔ x ∈ xs := by
  have := (foldl_uniq_spec xs [] List.nodup_nil).2 x
  simpa [uniq] using this

/-! ## running maximum -/

theorem foldl_max_ge (xs : List Int) (a : Int) : a ≤ xs.foldl max a ∧ ∀ x ∈ xs, x ≤ xs.foldl max a := by
  induction xs generalizing a with
  | nil => simp
  | cons y ys ih =>
    simp only [List.foldl_cons]
    obtain ⟨h1, h2⟩ := ih (max a y)
    refine ⟨by omega, ?_⟩
    intro x hx
    rcases List.mem_cons.mp hx with rfl | hx
    · omega
    · exact h2 x hx

theorem foldl_max_mem (xs : List Int) (a : Int) : xs.foldl max a = a ∨ xs.foldl max a ∈ xs := by
  induction xs generalizing a with
  | nil => simp
  | cons y ys ih =>
    simp only [List.foldl_cons]
    rcases ih (max a y) with h | h
    · rw [h]
      rcases Int.le_total a y with hle | hle
      · right; rw [Int.max_eq_right hle]; simp
      · left; exact Int.max_eq_left hle
    · right; exact List.mem_cons_of_mem _ h

/-- on a non-empty list `maxOf` is an element of the list and dominates every element -/
theorem maxOf_spec (xs : List Int) (hne : xs ≠ []) : maxOf xs ∈ xs ∧ ∀ x ∈ xs, x ≤ maxOf xs := by
  cases xs with
  | nil => exact absurd rfl hne
  | cons y ys =>
    unfold maxOf
    simp only [List.headD_cons]
    obtain ⟨h1, h2⟩ := foldl_max_ge (y :: ys) y
    refine ⟨?_, h2⟩
    rcases foldl_max_mem (y :: ys) y with h | h
    · rw [h]; simp
    · exact h

theorem maxOf_nil : maxOf [] = 0 := rfl

/-! ## the summary fields -/

/-- the frame has a CM v2.9 / CM v4.0 container -/
def hasCm29 (r : Rpu) : Bool := (r.vdr_dm_data.bind (·.cmv29)).isSome
def hasCm40 (r : Rpu) : Bool := (r.vdr_dm_data.bind (·.cmv40)).isSome

/-- number of frames with a CM v2.9 / CM v4.0 container (`dmv1_count`, `dmv2_count`) -/
def v1Count (l : List Rpu) : Nat := (l.filter hasCm29).length
def v2Count (l : List Rpu) : Nat := (l.filter hasCm40).length

/-- the CM version the summary assumes for frames without L1 (`CmVersion::V40` iff some frame has CM v4.0) -/
def cm40Any (l : List Rpu) : Bool := decide (v2Count l > 0)

/-- a proof about a field that does not depend on the DM-version case split -/
theorem summary_cases (l : List Rpu) (P : Summary → Prop)
    (h : ∀ counts ver, P
      { count := l.length, profiles := profilesStr l, dmVersion := ver, dmCounts := counts,
        sceneCount := (scenes l).length,
        l6 := uniq (l.filterMap fun r => r.vdr_dm_data.bind fun d => (d.getBlock 6).map (·.vals)),
        l2Targets := uniq (l.filterMap fun r => r.vdr_dm_data.map fun d => (d.levelBlocks 2).map fun b => b.vals.getD 0 0).flatten,
        sourcePq := (uniq (l.filterMap fun r => r.vdr_dm_data.map fun d => (d.main.getD 29 0, d.main.getD 30 0))).mergeSort
                      (fun a b => a.1 < b.1 || (a.1 == b.1 && a.2 ≤ b.2)),
        maxL1 := (maxOf ((l.map (l1Of (cm40Any l))).map (·.getD 0 0)), maxOf ((l.map (l1Of (cm40Any l))).map (·.getD 1 0)),
                  maxOf ((l.map (l1Of (cm40Any l))).map (·.getD 2 0))) }) : P (summary l) := by
  unfold summary
  simp only
  split
  · exact h _ _
  · split
    · exact h _ _
    · exact h _ _

/-- the L6 values of a frame, if it has an L6 block -/
def l6Of (r : Rpu) : Option (List Int) := r.vdr_dm_data.bind fun d => (d.getBlock 6).map (·.vals)

/-- the L2 target codes (`target_max_pq`) of a frame -/
def l2Of (r : Rpu) : List Int :=
  match r.vdr_dm_data with
  | some d => (d.levelBlocks 2).map fun b => b.vals.getD 0 0
  | none => []

/-- the (source_min_pq, source_max_pq) of a frame with DM data -/
def srcOf (r : Rpu) : Option (Int × Int) := r.vdr_dm_data.map fun d => (d.main.getD 29 0, d.main.getD 30 0)

theorem summary_l6 (l : List Rpu) : (summary l).l6 = uniq (l.filterMap l6Of) :=
  summary_cases l (fun s => s.l6 = uniq (l.filterMap l6Of)) (fun _ _ => rfl)

theorem summary_l2 (l : List Rpu) : (summary l).l2Targets = uniq (l.flatMap l2Of) := by
  refine summary_cases l (fun s => s.l2Targets = uniq (l.flatMap l2Of)) (fun _ _ => ?_)
  simp only
  congr 1
  induction l with
  | nil => rfl
  | cons r rs ih =>
    cases hd : r.vdr_dm_data with
    | none =>
      simp only [List.filterMap_cons, hd, Option.map_none, List.flatMap_cons, l2Of, List.nil_append]
      exact ih
    | some d =>
      simp only [List.filterMap_cons, hd, Option.map_some, List.flatten_cons, List.flatMap_cons, l2Of]
      rw [ih]

theorem summary_src (l : List Rpu) :
    (summary l).sourcePq = (uniq (l.filterMap srcOf)).mergeSort (fun a b => a.1 < b.1 || (a.1 == b.1 && a.2 ≤ b.2)) :=
  summary_cases l (fun s => s.sourcePq = _) (fun _ _ => rfl)

theorem summary_maxL1 (l : List Rpu) :
    (summary l).maxL1 =
      (maxOf ((l.map (l1Of (cm40Any l))).map (·.getD 0 0)), maxOf ((l.map (l1Of (cm40Any l))).map (·.getD 1 0)),
       maxOf ((l.map (l1Of (cm40Any l))).map (·.getD 2 0))) :=
  summary_cases l (fun s => s.maxL1 = _) (fun _ _ => rfl)

theorem summary_dm (l : List Rpu) :
    ((summary l).dmCounts, (summary l).dmVersion) =
      if v2Count l = v1Count l then (none, "2 (CM v4.0)")
      else if v2Count l = 0 then (none, "1 (CM v2.9)")
      else (some (v1Count l, v2Count l), "1 + 2 (CM 2.9 and 4.0)") := by
  unfold summary
  simp only
  have e1 : (l.filter fun r => (r.vdr_dm_data.bind (·.cmv29)).isSome).length = v1Count l := rfl
  have e2 : (l.filter fun r => (r.vdr_dm_data.bind (·.cmv40)).isSome).length = v2Count l := rfl
  rw [e1, e2]
  by_cases h1 : v2Count l = v1Count l
  · simp [h1]
  · by_cases h2 : v2Count l = 0
    · simp [h2]
    · simp [h1, h2]

/-! ## sorted distinct lists -/

theorem uniqSorted_eq (xs : List Nat) : uniqSorted xs = (uniq xs).mergeSort (· ≤ ·) := rfl

theorem mem_uniqSorted (xs : List Nat) (x : Nat) : x ∈ uniqSorted xs ↔ x ∈ xs := by
  rw [uniqSorted_eq, (List.mergeSort_perm _ _).mem_iff, mem_uniq]

theorem uniqSorted_nodup (xs : List Nat) : (uniqSorted xs).Nodup := by
  rw [uniqSorted_eq, (List.mergeSort_perm _ _).nodup_iff]; exact uniq_nodup xs

theorem uniqSorted_ascending (xs : List Nat) : (uniqSorted xs).Pairwise (· < ·) := by
  have h1 : (uniqSorted xs).Pairwise (fun a b => decide (a ≤ b) = true) := by
    rw [uniqSorted_eq]
    apply List.pairwise_mergeSort
    · intro a b c h1 h2; simp at h1 h2 ⊢; omega
    · intro a b; simp; omega
  have h2 := uniqSorted_nodup xs
  rw [List.Nodup] at h2
  have := h1.and h2
  exact this.imp (fun ⟨a, b⟩ => by simp at a; omega)

/-! ## the two DM-version counts -/

theorem count_partition (p q : Rpu → Bool) (l : List Rpu) (hq : ∀ r ∈ l, q r = true → p r = true) :
    (l.filter fun r => p r && !q r).length + (l.filter q).length = (l.filter p).length := by
  induction l with
  | nil => rfl
  | cons r rs ih =>
    have ih' := ih (fun r hr => hq r (List.mem_cons_of_mem _ hr))
    have hq' := hq r (by simp)
    simp only [List.filter_cons]
    cases hp : p r <;> cases hqr : q r <;> simp_all <;> omega

/-- when every frame with DM data has a CM v2.9 container (true of every parsed RPU): the first count is the number
of frames with DM data, and it splits into the frames with CM v2.9 only and the frames with CM v4.0 -/
theorem dm_counts_partition (l : List Rpu) (h : ∀ r ∈ l, ∀ d, r.vdr_dm_data = some d → d.cmv29.isSome = true) :
    v1Count l = (l.filter fun r => r.vdr_dm_data.isSome).length ∧
    (l.filter fun r => hasCm29 r && !hasCm40 r).length + v2Count l = v1Count l ∧ v2Count l ≤ v1Count l := by
  have hq : ∀ r ∈ l, hasCm40 r = true → hasCm29 r = true := by
    intro r hr h40
    unfold hasCm40 at h40; unfold hasCm29
    cases hd : r.vdr_dm_data with
    | none => simp [hd] at h40
    | some d => simpa [hd] using h r hr d hd
  have hp := count_partition hasCm29 hasCm40 l hq
  refine ⟨?_, hp, ?_⟩
  · unfold v1Count
    congr 1
    apply List.filter_congr
    intro r hr
    unfold hasCm29
    cases hd : r.vdr_dm_data with
    | none => simp
    | some d => simpa using h r hr d hd
  · unfold v1Count v2Count at *; omega

end Dovi.SummaryProof
