import DoviModel.Model.Av1
import DoviModel.Proofs.PwRpu
/-!
# AV1 ITU-T T.35 / EMDF wrapping: `wrap` then `unwrap` (helper lemmas for C15)
-/
namespace Dovi.Av1Proof
open Dovi Dovi.Av1

/-! ## `variable_bits(n)` -/

/-- write → read for `variable_bits(n)`: one written string works for every fuel ≥ 2 and every suffix -/
theorem vb_roundtrip (n v : Nat) (hv : v ≤ 2^n * 2^n + 2^n - 1) (h32 : v < 2^32) :
    ∃ w, writeVB n v = .ok w ∧ ∀ (fuel : Nat) (r : Bits), 2 ≤ fuel → parseVB n fuel 0 (w ++ r) = .ok (v, r) := by
  have hp : 0 < 2^n := Nat.two_pow_pos n
  by_cases hge : v ≥ 2^n
  · -- two groups
    have hq1 : 1 ≤ v / 2^n := (Nat.le_div_iff_mul_le hp).mpr (by omega)
    have hq2 : v / 2^n - 1 < 2^n := by
      have : v / 2^n < 2^n + 1 := by
        apply (Nat.div_lt_iff_lt_mul hp).mpr
        have : (2^n + 1) * 2^n = 2^n * 2^n + 2^n := by rw [Nat.add_mul]; omega
        omega
      omega
    have hm : v % 2^n < 2^n := Nat.mod_lt _ hp
    have hdm := Nat.div_add_mod v (2^n)
    refine ⟨toBits n (v / 2^n - 1) ++ ([true] ++ (toBits n (v % 2^n) ++ ([false] ++ []))), ?_, ?_⟩
    · simp [writeVB, hge, writeN, hq2, hm, wcat, Res.bind]
    · intro fuel r hf
      obtain ⟨f1, rfl⟩ : ∃ f1, fuel = f1 + 2 := ⟨fuel - 2, by omega⟩
      have hmul : (v / 2^n - 1 + 1) * 2^n = v - v % 2^n := by
        rw [Nat.sub_add_cancel hq1, Nat.mul_comm]; omega
      have e1 : (toBits n (v / 2^n - 1) ++ ([true] ++ (toBits n (v % 2^n) ++ ([false] ++ [])))) ++ r =
          toBits n (v / 2^n - 1) ++ (true :: (toBits n (v % 2^n) ++ (false :: r))) := by simp
      rw [e1]
      simp only [parseVB]
      rw [P.bind_of_ok (readN_toBits n _ _ hq2)]
      have c1 : decide (0 + (v / 2^n - 1) < 2^32) = true := by simp; omega
      simp only [c1]
      rw [P.bind_of_ok (P.ensure_true _)]
      rw [P.bind_of_ok (readBit_cons true _)]
      simp only [Bool.not_true, Bool.false_eq_true, if_false]
      have c2 : (decide (0 + (v / 2^n - 1) + 1 < 2^32) && decide ((0 + (v / 2^n - 1) + 1) * 2^n < 2^32)) = true := by
        simp only [Nat.zero_add, hmul, Bool.and_eq_true, decide_eq_true_eq]
        omega
      simp only [c2]
      rw [P.bind_of_ok (P.ensure_true _)]
      rw [P.bind_of_ok (readN_toBits n _ _ hm)]
      have c3 : decide ((0 + (v / 2^n - 1) + 1) * 2^n + v % 2^n < 2^32) = true := by
        simp only [Nat.zero_add, hmul, decide_eq_true_eq]; omega
      simp only [c3]
      rw [P.bind_of_ok (P.ensure_true _)]
      rw [P.bind_of_ok (readBit_cons false _)]
      simp only [Bool.not_false, if_true, Nat.zero_add, hmul]
      have := Nat.mod_le v (2^n)
      show Res.ok (v - v % 2^n + v % 2^n, r) = _
      congr 2; omega
  · -- one group
    have hlt : v < 2^n := by omega
    refine ⟨toBits n v ++ ([false] ++ []), ?_, ?_⟩
    · simp [writeVB, hge, writeN, hlt, wcat, Res.bind]
    · intro fuel r hf
      obtain ⟨f1, rfl⟩ : ∃ f1, fuel = f1 + 2 := ⟨fuel - 2, by omega⟩
      have e1 : (toBits n v ++ ([false] ++ [])) ++ r = toBits n v ++ (false :: r) := by simp
      rw [e1]
      simp only [parseVB]
      rw [P.bind_of_ok (readN_toBits n _ _ hlt)]
      have c1 : decide (0 + v < 2^32) = true := by simp; omega
      simp only [c1]
      rw [P.bind_of_ok (P.ensure_true _)]
      rw [P.bind_of_ok (readBit_cons false _)]
      simp only [Bool.not_false, if_true, Nat.zero_add]
      rfl

/-- the number of bits `write_variable_bits` emits: one group of `n+1`, or two -/
theorem writeVB_length {n v : Nat} {w : Bits} (h : writeVB n v = .ok w) :
    w.length = if v ≥ 2^n then 2 * n + 2 else n + 1 := by
  unfold writeVB at h
  split at h
  · rename_i hge
    simp only [hge, if_true]
    by_cases h1 : v / 2^n - 1 < 2^n
    · by_cases h2 : v % 2^n < 2^n
      · simp only [writeN, h1, h2, if_true, wcat, Res.bind] at h
        cases h
        simp; omega
      · simp [writeN, h1, h2, wcat, Res.bind] at h
    · simp [writeN, h1, wcat] at h
  · rename_i hge
    simp only [hge, if_false]
    by_cases h1 : v < 2^n
    · simp only [writeN, h1, if_true, wcat, Res.bind] at h
      cases h
      simp
    · simp [writeN, h1, wcat] at h

/-- beyond the two-group maximum `write_variable_bits` fails: the first group value needs more than `n` bits
("excessive value for bits written") -/
theorem writeVB_too_big (n v : Nat) (h : v ≥ 2^n * 2^n + 2^n) : writeVB n v = .error := by
  have hp : 0 < 2^n := Nat.two_pow_pos n
  have hge : v ≥ 2^n := by
    have : 2^n * 2^n ≥ 0 := Nat.zero_le _
    omega
  have hq : ¬ v / 2^n - 1 < 2^n := by
    have : 2^n + 1 ≤ v / 2^n := by
      apply (Nat.le_div_iff_mul_le hp).mpr
      rw [Nat.add_mul]; omega
    omega
  simp [writeVB, hge, writeN, hq, wcat]

/-- a size that `write_variable_bits(·, 8)` accepts is at most 65791 and is read back exactly -/
theorem writeVB8_ok {size : Nat} {vb : Bits} (h : writeVB 8 size = .ok vb) :
    size ≤ 65791 ∧ ∀ (fuel : Nat) (r : Bits), 2 ≤ fuel → parseVB 8 fuel 0 (vb ++ r) = .ok (size, r) := by
  have hle : size ≤ 65791 := by
    by_cases hc : size ≤ 65791
    · exact hc
    · rw [writeVB_too_big 8 size (by omega)] at h
      cases h
  obtain ⟨w, hw, hp⟩ := vb_roundtrip 8 size (by omega) (by omega)
  rw [h] at hw
  cases hw
  exact ⟨hle, hp⟩

/-! ## the written bit string -/

/-- the 75 fixed bits in front of the size field: the nine header bytes and `001` -/
def preBits : Bits := bytesToBits headerBytes ++ [false, false, true]

/-- the 17 bits after the payload: `emdf_payload_id = 0` (end of container) and `emdf_protection` -/
def tailBits : Bits := toBits 5 0 ++ (toBits 2 1 ++ (toBits 2 0 ++ toBits 8 0))

/-- everything `convert_regular_rpu_to_av1_payload` writes before the alignment padding -/
def body (vb : Bits) (p : Bytes) : Bits := preBits ++ (vb ++ (bytesToBits p ++ tailBits))

theorem prefix_written :
    wcat [writeN 16 0x3B, writeN 32 0x800, writeEmdfHeader] = .ok preBits := by decide

theorem emdfHeader_written :
    writeEmdfHeader = .ok [false, false, true, true, false, true, true, true, true, true,
      false, false, true, true, false, true, false, false, false, false, true, false,
      false, false, false, false, true] := by decide

theorem preBits_eq :
    toBits 16 0x3B ++ (toBits 32 0x800 ++ [false, false, true, true, false, true, true, true, true, true,
      false, false, true, true, false, true, false, false, false, false, true, false,
      false, false, false, false, true]) = preBits := by decide

theorem preBits_length : preBits.length = 75 := by decide
theorem tailBits_length : tailBits.length = 17 := by decide

theorem wrapBits_written {p : Bytes} {vb : Bits} (hvb : writeVB 8 p.length = .ok vb) :
    wcat [writeN 16 0x3B, writeN 32 0x800, writeEmdf p] = .ok (body vb p) := by
  have h16 : writeN 16 0x3B = .ok (toBits 16 0x3B) := rfl
  have h32 : writeN 32 0x800 = .ok (toBits 32 0x800) := rfl
  have h5 : writeN 5 0 = .ok (toBits 5 0) := rfl
  have h21 : writeN 2 1 = .ok (toBits 2 1) := rfl
  have h20 : writeN 2 0 = .ok (toBits 2 0) := rfl
  have h8 : writeN 8 0 = .ok (toBits 8 0) := rfl
  unfold writeEmdf
  rw [h16, h32, h5, h21, h20, h8, hvb, emdfHeader_written]
  simp only [wcat, Res.bind]
  unfold body tailBits
  rw [← preBits_eq]
  simp only [List.append_assoc, List.append_nil]

theorem body_length {p : Bytes} {vb : Bits} (hvb : writeVB 8 p.length = .ok vb) :
    (body vb p).length = 8 * p.length + (if p.length ≥ 256 then 110 else 101) := by
  have hl := writeVB_length hvb
  unfold body
  simp only [List.length_append, preBits_length, tailBits_length, bytesToBits_length, hl]
  split <;> omega

theorem padOnes_length (n : Nat) : (padOnes n).length = (8 - n % 8) % 8 := by
  simp [padOnes]

/-! ## reading it back -/

theorem map_ofNat_toNat (p : Bytes) : (p.map (·.toNat)).map UInt8.ofNat = p := by
  induction p with
  | nil => rfl
  | cons b q ih => simp only [List.map_cons, ih, UInt8.ofNat_toNat]

/-- `write_variable_bits(225, 5)`: groups `6`, `1` -/
def w5 : Bits := [false, false, true, true, false, true, false, false, false, false, true, false]

theorem w5_written : writeVB 5 225 = .ok w5 := by decide

theorem w5_read (fuel : Nat) (r : Bits) (hf : 2 ≤ fuel) : parseVB 5 fuel 0 (w5 ++ r) = .ok (225, r) := by
  obtain ⟨w, hw, hp⟩ := vb_roundtrip 5 225 (by decide) (by decide)
  rw [w5_written] at hw
  cases hw
  exact hp fuel r hf

theorem preBits_split (r : Bits) :
    preBits ++ r = toBits 16 0x3B ++ (toBits 32 0x800 ++ (toBits 2 0 ++ (toBits 3 6 ++ (toBits 5 31 ++
      (w5 ++ (false :: false :: false :: false :: true :: r)))))) := by
  have h : preBits = toBits 16 0x3B ++ (toBits 32 0x800 ++ (toBits 2 0 ++ (toBits 3 6 ++ (toBits 5 31 ++
      (w5 ++ [false, false, false, false, true]))))) := by decide
  rw [h]
  simp only [List.append_assoc, List.cons_append, List.nil_append]

/-- `parse_emdf_container` on the written header followed by a written size field -/
theorem parseEmdf_written {size : Nat} {vb : Bits} (r : Bits) (hl : 1 ≤ vb.length)
    (hvb : ∀ (fuel : Nat) (r : Bits), 2 ≤ fuel → parseVB 8 fuel 0 (vb ++ r) = .ok (size, r)) :
    parseEmdf (toBits 2 0 ++ (toBits 3 6 ++ (toBits 5 31 ++
      (w5 ++ (false :: false :: false :: false :: true :: (vb ++ r)))))) = .ok (size, r) := by
  unfold parseEmdf
  rw [P.bind_of_ok (readN_toBits 2 0 _ (by decide))]
  rw [P.bind_of_ok (show P.ensure ((0 : Nat) == 0) _ = .ok ((), _) from rfl)]
  rw [P.bind_of_ok (readN_toBits 3 6 _ (by decide))]
  rw [P.bind_of_ok (show P.ensure ((6 : Nat) == 6) _ = .ok ((), _) from rfl)]
  rw [P.bind_of_ok (readN_toBits 5 31 _ (by decide))]
  rw [P.bind_of_ok (show P.ensure ((31 : Nat) == 31) _ = .ok ((), _) from rfl)]
  rw [P.bind_of_ok (P.available_apply _)]
  rw [P.bind_of_ok (w5_read _ _ (by simp [w5]))]
  rw [P.bind_of_ok (show P.ensure ((225 : Nat) == 225) _ = .ok ((), _) from rfl)]
  rw [P.bind_of_ok (readBit_cons false _)]
  rw [P.bind_of_ok (show P.ensure (!false) _ = .ok ((), _) from rfl)]
  rw [P.bind_of_ok (readBit_cons false _)]
  rw [P.bind_of_ok (show P.ensure (!false) _ = .ok ((), _) from rfl)]
  rw [P.bind_of_ok (readBit_cons false _)]
  rw [P.bind_of_ok (show P.ensure (!false) _ = .ok ((), _) from rfl)]
  rw [P.bind_of_ok (readBit_cons false _)]
  rw [P.bind_of_ok (show P.ensure (!false) _ = .ok ((), _) from rfl)]
  rw [P.bind_of_ok (readBit_cons true _)]
  rw [P.bind_of_ok (show P.ensure true _ = .ok ((), _) from rfl)]
  rw [P.bind_of_ok (P.available_apply _)]
  exact hvb _ _ (by simp only [List.length_append]; omega)

/-- `convert_av1_rpu_payload_to_regular` on the written bits followed by any padding: the payload comes back
with the `0x19` prefix; the 17 trailer bits and the padding are left unread -/
theorem unwrapBits_written {p : Bytes} {vb : Bits} (pad : Bits) (hl : 1 ≤ vb.length)
    (hvb : ∀ (fuel : Nat) (r : Bits), 2 ≤ fuel → parseVB 8 fuel 0 (vb ++ r) = .ok (p.length, r)) :
    unwrapBits (body vb p ++ pad) = .ok (0x19 :: p, tailBits ++ pad) := by
  have e : body vb p ++ pad = preBits ++ (vb ++ (bytesToBits p ++ (tailBits ++ pad))) := by
    simp only [body, List.append_assoc]
  rw [e, preBits_split]
  unfold unwrapBits
  rw [P.bind_of_ok (readN_toBits 16 0x3B _ (by decide))]
  rw [P.bind_of_ok (show P.ensure ((0x3B : Nat) == 0x3B) _ = .ok ((), _) from rfl)]
  rw [P.bind_of_ok (readN_toBits 32 0x800 _ (by decide))]
  rw [P.bind_of_ok (show P.ensure ((0x800 : Nat) == 0x800) _ = .ok ((), _) from rfl)]
  rw [P.bind_of_ok (parseEmdf_written _ hl hvb)]
  rw [P.bind_of_ok (P.available_apply _)]
  have c : decide (p.length ≤ (bytesToBits p ++ (tailBits ++ pad)).length / 8) = true := by
    simp only [List.length_append, bytesToBits_length, decide_eq_true_eq]
    omega
  rw [c, P.bind_of_ok (P.ensure_true _)]
  rw [P.bind_of_ok (repeatP_readN8 p _)]
  rw [map_ofNat_toNat]
  rfl

/-! ## bytes: `wrapPayload` and `unwrap` -/

/-- the bytes `wrapPayload` returns -/
def outBytes (vb : Bits) (p : Bytes) : Bytes := bitsToBytes (body vb p ++ padOnes (body vb p).length)

theorem wrapPayload_written {p : Bytes} {vb : Bits} (hvb : writeVB 8 p.length = .ok vb) :
    wrapPayload p = .ok (outBytes vb p) := by
  unfold wrapPayload
  rw [wrapBits_written hvb]
  rfl

/-- `wrapPayload` succeeds exactly when the size field can be written -/
theorem wrapPayload_ok_iff (p o : Bytes) :
    wrapPayload p = .ok o ↔ ∃ vb, writeVB 8 p.length = .ok vb ∧ o = outBytes vb p := by
  constructor
  · intro h
    cases hvb : writeVB 8 p.length with
    | ok vb =>
      rw [wrapPayload_written hvb] at h
      cases h
      exact ⟨vb, rfl, rfl⟩
    | error =>
      have h16 : writeN 16 0x3B = .ok (toBits 16 0x3B) := rfl
      have h32 : writeN 32 0x800 = .ok (toBits 32 0x800) := rfl
      simp [wrapPayload, writeEmdf, hvb, h16, h32, emdfHeader_written, wcat, Res.bind] at h
    | panic =>
      have h16 : writeN 16 0x3B = .ok (toBits 16 0x3B) := rfl
      have h32 : writeN 32 0x800 = .ok (toBits 32 0x800) := rfl
      simp [wrapPayload, writeEmdf, hvb, h16, h32, emdfHeader_written, wcat, Res.bind] at h
  · rintro ⟨vb, hvb, rfl⟩
    exact wrapPayload_written hvb

/-- a payload of 65792 bytes or more is rejected (the size does not fit two groups of `variable_bits(8)`) -/
theorem wrapPayload_too_big (p : Bytes) (h : 65792 ≤ p.length) : wrapPayload p = .error := by
  have hvb : writeVB 8 p.length = .error := writeVB_too_big 8 p.length (by omega)
  have h16 : writeN 16 0x3B = .ok (toBits 16 0x3B) := rfl
  have h32 : writeN 32 0x800 = .ok (toBits 32 0x800) := rfl
  simp [wrapPayload, writeEmdf, hvb, h16, h32, emdfHeader_written, wcat, Res.bind]

theorem padded_length {p : Bytes} {vb : Bits} (hvb : writeVB 8 p.length = .ok vb) :
    (body vb p ++ padOnes (body vb p).length).length =
      8 * (p.length + (if p.length ≥ 256 then 14 else 13)) := by
  rw [List.length_append, padOnes_length, body_length hvb]
  split <;> omega

/-- the output is the payload plus 13 bytes (one size group) or 14 bytes (two) -/
theorem outBytes_length {p : Bytes} {vb : Bits} (hvb : writeVB 8 p.length = .ok vb) :
    (outBytes vb p).length = p.length + (if p.length ≥ 256 then 14 else 13) :=
  bitsToBytes_length _ _ (padded_length hvb)

/-- the bits of the output bytes are the written bits and the padding -/
theorem outBytes_bits {p : Bytes} {vb : Bits} (hvb : writeVB 8 p.length = .ok vb) :
    bytesToBits (outBytes vb p) = body vb p ++ padOnes (body vb p).length :=
  bytesToBits_bitsToBytes _ _ (padded_length hvb)

/-- the output starts with the nine fixed header bytes -/
theorem outBytes_header (vb : Bits) (p : Bytes) :
    outBytes vb p = headerBytes ++
      bitsToBytes ([false, false, true] ++ (vb ++ (bytesToBits p ++ tailBits)) ++ padOnes (body vb p).length) := by
  have e : body vb p ++ padOnes (body vb p).length = bytesToBits headerBytes ++
      ([false, false, true] ++ (vb ++ (bytesToBits p ++ tailBits)) ++ padOnes (body vb p).length) := by
    simp only [body, preBits, List.append_assoc]
  unfold outBytes
  rw [e, bitsToBytes_append 9 _ _ (by decide), bitsToBytes_bytesToBits]

theorem trim_header (rest : Bytes) (h : 34 ≤ (headerBytes ++ rest).length) :
    trim (headerBytes ++ rest) = .ok (headerBytes ++ rest) := by
  have h1 : ¬ (headerBytes ++ rest).length < 34 := by omega
  unfold trim
  rw [if_neg h1]
  have h2 : (headerBytes ++ rest).take 9 = headerBytes := List.take_left' rfl
  show (if (headerBytes ++ rest).take 9 == headerBytes then Res.ok (headerBytes ++ rest) else .error) = _
  simp only [h2, beq_self_eq_true, if_true]

theorem trim_b5_header (rest : Bytes) (h : 33 ≤ (headerBytes ++ rest).length) :
    trim (0xB5 :: (headerBytes ++ rest)) = .ok (headerBytes ++ rest) := by
  have h1 : ¬ (0xB5 :: (headerBytes ++ rest)).length < 34 := by simp only [List.length_cons]; omega
  unfold trim
  rw [if_neg h1]
  have h2 : (headerBytes ++ rest).take 9 = headerBytes := List.take_left' rfl
  simp only [h2, beq_self_eq_true, if_true]

/-- **payload level**: `unwrap` of what `wrapPayload` wrote (21 ≤ size ≤ 65791) is the payload with the `0x19`
prefix, with or without the `0xB5` country code (which needs only 20 ≤ size) -/
theorem unwrap_outBytes {p : Bytes} {vb : Bits} (hvb : writeVB 8 p.length = .ok vb)
    (hrd : ∀ (fuel : Nat) (r : Bits), 2 ≤ fuel → parseVB 8 fuel 0 (vb ++ r) = .ok (p.length, r)) :
    (21 ≤ p.length → unwrap (outBytes vb p) = .ok (0x19 :: p)) ∧
    (20 ≤ p.length → unwrap (0xB5 :: outBytes vb p) = .ok (0x19 :: p)) := by
  have hlen := outBytes_length hvb
  have hbits := outBytes_bits hvb
  have hl : 1 ≤ vb.length := by
    have := writeVB_length hvb
    split at this <;> omega
  have hu := unwrapBits_written (padOnes (body vb p).length) hl hrd
  rw [← hbits] at hu
  have hhd := outBytes_header vb p
  generalize outBytes vb p = o at *
  generalize bitsToBytes ([false, false, true] ++ (vb ++ (bytesToBits p ++ tailBits)) ++
    padOnes (body vb p).length) = rest at hhd
  subst hhd
  constructor
  · intro h21
    unfold unwrap
    rw [trim_header rest (by split at hlen <;> omega)]
    simp only [Res.bind, hu]
  · intro h20
    unfold unwrap
    rw [trim_b5_header rest (by split at hlen <;> omega)]
    simp only [Res.bind, hu]

theorem wrapPayload_roundtrip (p : Bytes) (hhi : p.length ≤ 65791) :
    ∃ o, wrapPayload p = .ok o ∧ o.length = p.length + (if p.length ≥ 256 then 14 else 13) ∧
      (∃ rest, o = headerBytes ++ rest) ∧
      (21 ≤ p.length → unwrap o = .ok (0x19 :: p)) ∧
      (20 ≤ p.length → unwrap (0xB5 :: o) = .ok (0x19 :: p)) := by
  obtain ⟨vb, hvb, hrd⟩ := vb_roundtrip 8 p.length (by omega) (by omega)
  have h := unwrap_outBytes hvb hrd
  exact ⟨outBytes vb p, wrapPayload_written hvb, outBytes_length hvb, ⟨_, outBytes_header vb p⟩, h.1, h.2⟩

/-! ## `convert_regular_rpu_to_av1_payload` on RPU bytes -/

/-- the part of `data` that is wrapped: everything up to the trailing zero bytes -/
abbrev rpuEnd (data : Bytes) : Nat := data.length - trailingZeroes data

theorem take_rpuEnd_length (data : Bytes) : (data.take (rpuEnd data)).length = rpuEnd data := by
  simp only [rpuEnd, List.length_take]; omega

theorem cons_drop_take {data : Bytes} (h19 : data.head? = some 0x19) (h1 : 1 ≤ rpuEnd data) :
    0x19 :: (data.take (rpuEnd data)).drop 1 = data.take (rpuEnd data) := by
  cases data with
  | nil => simp at h19
  | cons b rest =>
    simp only [List.head?_cons, Option.some.injEq] at h19
    subst h19
    obtain ⟨k, hk⟩ : ∃ k, rpuEnd ((0x19 : UInt8) :: rest) = k + 1 := ⟨rpuEnd (0x19 :: rest) - 1, by omega⟩
    rw [hk]
    simp

theorem payload_length (data : Bytes) : ((data.take (rpuEnd data)).drop 1).length = rpuEnd data - 1 := by
  rw [List.length_drop, take_rpuEnd_length]

theorem wrap_cons (b : UInt8) (rest : Bytes) :
    wrap (b :: rest) = if b != 0x19 then .error
      else if ((b :: rest).take (rpuEnd (b :: rest))).getLast?.getD 0 != 0x80 then .error
      else wrapPayload (((b :: rest).take (rpuEnd (b :: rest))).drop 1) := rfl

/-- `wrap` accepts exactly the buffers that start with `0x19` and end (before the zero padding) with `0x80`,
and then it is `wrapPayload` of what lies between the prefix and the padding -/
theorem wrap_ok_iff (data o : Bytes) :
    wrap data = .ok o ↔ data.head? = some 0x19 ∧ (data.take (rpuEnd data)).getLast? = some 0x80 ∧
      wrapPayload ((data.take (rpuEnd data)).drop 1) = .ok o := by
  cases data with
  | nil => simp [wrap]
  | cons b rest =>
    rw [wrap_cons]
    generalize List.take (rpuEnd (b :: rest)) (b :: rest) = t
    by_cases hb : b = 0x19
    · subst hb
      simp only [bne_self_eq_false, Bool.false_eq_true, if_false, List.head?_cons, true_and]
      cases hl : t.getLast? with
      | none => simp
      | some l =>
        by_cases h80 : l = 0x80
        · subst h80; simp
        · simp [h80]
    · simp [hb]

theorem wrap_eq {data : Bytes} (h19 : data.head? = some 0x19)
    (hlast : (data.take (rpuEnd data)).getLast? = some 0x80) :
    wrap data = wrapPayload ((data.take (rpuEnd data)).drop 1) := by
  cases data with
  | nil => simp at h19
  | cons b rest =>
    simp only [List.head?_cons, Option.some.injEq] at h19
    subst h19
    rw [wrap_cons, hlast]
    simp

/-! ## composition with `DoviRpu::parse` -/

theorem trailingZeroes_of_last {body : Bytes} (h : body.getLast? = some 0x80) : trailingZeroes body = 0 := by
  obtain ⟨xs, rfl⟩ := List.getLast?_eq_some_iff.mp h
  have := trailingZeroes_tail xs 0
  simpa using this

/-- `DoviRpu::parse` as a function of the trailing-zero count, the end offset and the bytes before it -/
def parseCore (tz e : Nat) (body : Bytes) : Res Rpu :=
  if e ≤ 5 then .error
  else
    let lastByte := body.getLast?.getD 0
    let received := crc32 ((body.drop 1).take (e - 6))
    if lastByte != 0x80 then .error
    else
      match readRpuData (bytesToBits body) with
      | .error => .error
      | .panic => .panic
      | .ok (r, _) =>
        if received != r.rpu_data_crc32 then .error
        else
          let r := { r with trailing_zeroes := tz }
          if r.validate then .ok r else .error

theorem parseRpu_core (data : Bytes) :
    parseRpu data = parseCore (trailingZeroes data) (rpuEnd data) (data.take (rpuEnd data)) := rfl

theorem parseCore_zero (tz e : Nat) (body : Bytes) :
    parseCore 0 e body = (parseCore tz e body).bind fun r => .ok { r with trailing_zeroes := 0 } := by
  unfold parseCore
  dsimp only
  by_cases h5 : e ≤ 5
  · simp only [h5, if_true]; rfl
  · simp only [h5, if_false]
    by_cases hl : (body.getLast?.getD 0 != 0x80) = true
    · simp only [hl, if_true]; rfl
    · simp only [hl]
      cases hr : readRpuData (bytesToBits body) with
      | error => rfl
      | panic => rfl
      | ok pr =>
        obtain ⟨r, rest⟩ := pr
        dsimp only
        by_cases hc : (crc32 ((body.drop 1).take (e - 6)) != r.rpu_data_crc32) = true
        · simp only [hc, if_true]; rfl
        · simp only [hc]
          rw [validate_tz r 0, validate_tz r tz]
          cases hv : r.validate with
          | false => rfl
          | true => rfl

/-- `DoviRpu::parse` of the buffer without its trailing zero bytes: the same RPU with `trailing_zeroes = 0` -/
theorem parseRpu_take (data : Bytes) (hlast : (data.take (rpuEnd data)).getLast? = some 0x80) :
    parseRpu (data.take (rpuEnd data)) = (parseRpu data).bind fun r => .ok { r with trailing_zeroes := 0 } := by
  have htz := trailingZeroes_of_last hlast
  have hlen := take_rpuEnd_length data
  have he : rpuEnd (data.take (rpuEnd data)) = rpuEnd data := by
    show (data.take (rpuEnd data)).length - trailingZeroes (data.take (rpuEnd data)) = _
    rw [htz, hlen]; rfl
  rw [parseRpu_core (data.take (rpuEnd data)), he, htz, parseRpu_core data]
  have ht : (data.take (rpuEnd data)).take (rpuEnd data) = data.take (rpuEnd data) := by
    rw [List.take_take, Nat.min_self]
  rw [ht]
  exact parseCore_zero _ _ _

/-- whatever `DoviRpu::parse` accepts starts with `0x19`, ends (before the zero padding) with `0x80`, and has at
least six bytes -/
theorem parseRpu_ok_shape {data : Bytes} {r : Rpu} (h : parseRpu data = .ok r) :
    data.head? = some 0x19 ∧ (data.take (rpuEnd data)).getLast? = some 0x80 ∧ 6 ≤ rpuEnd data := by
  have hlen := take_rpuEnd_length data
  unfold parseRpu at h
  dsimp only at h
  simp only [rpuEnd] at hlen ⊢
  generalize data.length - trailingZeroes data = e at *
  by_cases h5 : e ≤ 5
  · simp [h5] at h
  · simp only [h5, if_false] at h
    cases hl : (List.take e data).getLast? with
    | none => simp [hl] at h
    | some l =>
      by_cases h80 : l = 0x80
      · subst h80
        refine ⟨?_, rfl, by omega⟩
        cases hr : readRpuData (bytesToBits (List.take e data)) with
        | error => simp [hl, hr] at h
        | panic => simp [hl, hr] at h
        | ok pr =>
          obtain ⟨r', rest⟩ := pr
          unfold readRpuData at hr
          obtain ⟨pfx, s1, e1, q1⟩ := P.bind_eq_ok.mp hr
          obtain ⟨u1, s1', e1', _⟩ := P.bind_eq_ok.mp q1
          cases data with
          | nil => simp at hlen; omega
          | cons b q =>
            obtain ⟨k, rfl⟩ : ∃ k, e = k + 1 := ⟨e - 1, by omega⟩
            have hb : b.toNat < 2^8 := b.toNat_lt
            have eb : bytesToBits (List.take (k + 1) (b :: q)) = toBits 8 b.toNat ++ bytesToBits (List.take k q) := by
              simp [bytesToBits]
            rw [eb, readN_toBits 8 _ _ hb] at e1
            cases e1
            have h25 : b.toNat = 25 := by
              by_cases hx : b.toNat = 25
              · exact hx
              · have : (b.toNat == 25) = false := by simp [hx]
                rw [this] at e1'
                cases e1'
            have : b = 25 := UInt8.toNat_inj.mp h25
            subst this
            rfl
      · simp [hl, h80] at h

end Dovi.Av1Proof
