import DoviModel.Proofs.Container
/-!
# vdr_dm_data: write → parse
-/
namespace Dovi

theorem main_layouts_agree : dmMainParseLayout = dmMainWriteLayout := by decide

/-- the wire value of a main-payload field -/
def fldRaw (f : Fld) (v : Int) : Nat :=
  match f with
  | .u _ => v.toNat
  | .s16 => (v % 65536).toNat

theorem readN_writeFld {f : Fld} {v : Int} {part : Bits} (r : Bits) (h : writeFld f v = .ok part) :
    readN f.width (part ++ r) = .ok (fldRaw f v, r) := by
  cases f with
  | u n => exact readN_writeN h
  | s16 =>
    simp only [writeFld, writeSigned16, if_true] at h
    injection h with h; subst h
    simp only [Fld.width, fldRaw]
    apply readN_toBits
    have : 0 ≤ v % 65536 ∧ v % 65536 < 65536 := ⟨Int.emod_nonneg _ (by omega), Int.emod_lt_of_pos _ (by omega)⟩
    omega

theorem readFlds_writeFlds (fs : List Fld) (vs : List Int) (parts : List Bits) (r : Bits)
    (h : (fs.zip vs).map (fun (p : Fld × Int) => writeFld p.1 p.2) = parts.map Res.ok) :
    readFlds ((fs.zip vs).map (·.1)) (parts.flatten ++ r) =
      .ok ((fs.zip vs).map (fun p => p.1.decode (fldRaw p.1 p.2)), r) := by
  induction fs generalizing vs parts with
  | nil =>
    simp at h; subst h
    simp only [List.zip_nil_left, List.map_nil, readFlds, List.flatten_nil, List.nil_append]; rfl
  | cons f fs ih =>
    cases vs with
    | nil =>
      simp at h; subst h
      simp only [List.zip_nil_right, List.map_nil, readFlds, List.flatten_nil, List.nil_append]; rfl
    | cons v vs =>
      cases parts with
      | nil => simp at h
      | cons p ps =>
        simp only [List.zip_cons_cons, List.map_cons, List.cons.injEq] at h
        obtain ⟨hp, hrest⟩ := h
        simp only [List.zip_cons_cons, List.map_cons, List.flatten_cons, List.append_assoc, readFlds]
        have h1 : readFld f (p ++ (ps.flatten ++ r)) = .ok (f.decode (fldRaw f v), ps.flatten ++ r) := by
          unfold readFld
          rw [P.bind_of_ok (readN_writeFld _ hp)]
          rfl
        rw [P.bind_of_ok h1, P.bind_of_ok (ih vs ps hrest)]
        rfl

/-- a value in the range of its field type comes back unchanged -/
def fldInRange (f : Fld) (v : Int) : Prop :=
  match f with
  | .u _ => 0 ≤ v
  | .s16 => -32768 ≤ v ∧ v < 32768

theorem decode_fldRaw (f : Fld) (v : Int) (h : fldInRange f v) : f.decode (fldRaw f v) = v := by
  cases f with
  | u n =>
    have h' : 0 ≤ v := h
    show ((v.toNat : Nat) : Int) = v
    omega
  | s16 =>
    have h' : -32768 ≤ v ∧ v < 32768 := h
    have h1 : 0 ≤ v % 65536 ∧ v % 65536 < 65536 := ⟨Int.emod_nonneg _ (by omega), Int.emod_lt_of_pos _ (by omega)⟩
    show (if (v % 65536).toNat ≥ 32768 then (((v % 65536).toNat : Nat) : Int) - 65536 else (((v % 65536).toNat : Nat) : Int)) = v
    split <;> omega

theorem zip_decode_id (fs : List Fld) (vs : List Int) (hl : vs.length = fs.length)
    (hr : ∀ p ∈ fs.zip vs, fldInRange p.1 p.2) :
    (fs.zip vs).map (fun p => p.1.decode (fldRaw p.1 p.2)) = vs := by
  induction fs generalizing vs with
  | nil => cases vs <;> simp_all
  | cons f fs ih =>
    cases vs with
    | nil => simp at hl
    | cons v vs =>
      simp only [List.zip_cons_cons, List.map_cons]
      rw [decode_fldRaw f v (hr (f, v) (by simp)), ih vs (by simpa using hl) (fun p hp => hr p (by simp [hp]))]

end Dovi

namespace Dovi

def Container.reparsed (c : Container) : Container :=
  { num_ext_blocks := c.blocks.length, blocks := c.blocks.map Block.reparsed }

/-- what the parser reconstructs from a written DM payload -/
def DmData.reparsed (d : DmData) : DmData :=
  { compressed := d.compressed,
    affected_dm_metadata_id := d.affected_dm_metadata_id,
    current_dm_metadata_id := d.current_dm_metadata_id,
    scene_refresh_flag := d.scene_refresh_flag,
    main := if d.compressed then List.replicate 32 0
            else (dmMainWriteLayout.zip d.main).map (fun p => p.1.decode (fldRaw p.1 p.2)),
    cmv29 := d.cmv29.map Container.reparsed,
    cmv40 := d.cmv40.map Container.reparsed }

structure ContainerOk (allowed other : List Nat) (c : Container) : Prop where
  count : c.num_ext_blocks = c.blocks.length
  fits : ∀ b ∈ c.blocks, BlockFits allowed other b

theorem writeContainer_length_ge (pos : Nat) (c : Container) (w : Bits) (allowed other : List Nat)
    (hw : writeContainer pos c = .ok w) (hok : ContainerOk allowed other c) :
    1 + 17 * c.blocks.length ≤ w.length := by
  unfold writeContainer at hw
  cases hu : writeUe c.num_ext_blocks with
  | error => simp [hu, Res.bind] at hw
  | panic => simp [hu, Res.bind] at hw
  | ok un =>
    simp only [hu, Res.bind] at hw
    cases hb : wcat (c.blocks.map writeBlock) with
    | error => simp [hb] at hw
    | panic => simp [hb] at hw
    | ok bs =>
      simp only [hb] at hw
      injection hw with hw
      subst hw
      have h1 := writeUe_length_pos hu
      have h2 := blocks_length c.blocks bs allowed other hb hok.fits
      simp only [List.length_append]
      omega

/-- **write → parse for the whole `vdr_dm_data` payload** (ids, the 32 main fields unless the DM header is
compressed, CM v2.9 container, CM v4.0 container iff present), at any bit position of a byte-aligned stream.
`r` is what follows (alignment bits, data before the CRC, CRC-32, 0x80): the parser decides on the presence of
CM v4.0 by `available ≥ 56`, so with CM v4.0 at least the 40 CRC/terminator bits must follow, and without it
fewer than 56 bits may follow (no extra data before the CRC — finding F16). -/
theorem parseDmData_writeDmData (h : Header) (pos : Nat) (d : DmData) (c29 : Container) (w r : Bits)
    (hw : writeDmData pos d = .ok w)
    (hcomp : (h.reserved_zero_3bits == 1) = d.compressed)
    (h29 : d.cmv29 = some c29) (hok29 : ContainerOk cmv29Levels cmv40Levels c29)
    (h40 : ∀ c40, d.cmv40 = some c40 → ContainerOk cmv40Levels cmv29Levels c40 ∧ c40.blocks ≠ [] ∧ 40 ≤ r.length)
    (h40n : d.cmv40 = none → r.length < 56)
    (hmain : d.main.length = 32)
    (halign : (pos + (w ++ r).length) % 8 = 0) :
    parseDmData h (w ++ r) = .ok (d.reparsed, r) := by
  unfold writeDmData at hw
  cases ha : wcat ([writeUe d.affected_dm_metadata_id, writeUe d.current_dm_metadata_id, writeUe d.scene_refresh_flag] ++
      (if !d.compressed then dmMainWriteFields d else [])) with
  | error => rw [ha] at hw; simp [Res.bind] at hw
  | panic => rw [ha] at hw; simp [Res.bind] at hw
  | ok a =>
    rw [ha] at hw
    simp only [Res.bind, h29] at hw
    cases hb : writeContainer (pos + a.length) c29 with
    | error => simp [hb] at hw
    | panic => simp [hb] at hw
    | ok b =>
      simp only [hb] at hw
      obtain ⟨parts, hparts, hout⟩ := wcat_eq_ok ha
      -- the three ids
      match parts, hparts with
      | pA :: pC :: pS :: pM, hparts =>
        simp only [List.cons_append, List.nil_append, List.map_cons, List.cons.injEq] at hparts
        obtain ⟨hA, hC, hS, hM⟩ := hparts
        -- CM v4.0 part
        cases h40c : d.cmv40 with
        | none =>
          simp only [h40c] at hw
          injection hw with hw
          subst hw
          subst hout
          have hr56 := h40n h40c
          unfold parseDmData
          simp only [List.flatten_cons, List.append_assoc, List.append_nil]
          rw [P.bind_of_ok (readUe_writeUe _ hA), P.bind_of_ok (readUe_writeUe _ hC), P.bind_of_ok (readUe_writeUe _ hS)]
          simp only [hcomp]
          have hmainread : (if d.compressed = true then pure (List.replicate 32 (0 : Int)) else readFlds dmMainParseLayout)
              (pM.flatten ++ (b ++ r)) =
              .ok ((if d.compressed then List.replicate 32 0
                    else (dmMainWriteLayout.zip d.main).map (fun p => p.1.decode (fldRaw p.1 p.2))), b ++ r) := by
            cases hcmp : d.compressed with
            | true =>
              simp only [hcmp, Bool.not_true, Bool.false_eq_true, if_false, if_true] at hM ⊢
              have : pM = [] := by
                cases pM with
                | nil => rfl
                | cons x xs => simp at hM
              subst this
              rfl
            | false =>
              simp only [hcmp, Bool.not_false, if_true, Bool.false_eq_true, if_false] at hM ⊢
              have hz : (dmMainWriteLayout.zip d.main).map (·.1) = dmMainWriteLayout := by
                apply List.map_fst_zip
                rw [hmain]; decide
              have := readFlds_writeFlds dmMainWriteLayout d.main pM (b ++ r) hM
              rw [hz] at this
              rw [main_layouts_agree]
              exact this
          rw [P.bind_of_ok hmainread]
          have hal29 : (pos + (pA ++ (pC ++ (pS ++ pM.flatten))).length + (b ++ r).length) % 8 = 0 := by
            simp only [List.length_append, List.flatten_cons, List.append_nil] at halign ⊢
            omega
          have hp29 := parseContainer_writeContainer cmv29Levels cmv40Levels _ c29 b r
            (by simpa [List.flatten_cons] using hb) hok29.count hok29.fits
            (by simpa [List.flatten_cons, List.length_append, Nat.add_assoc] using hal29)
          rw [P.bind_of_ok hp29]
          rw [P.bind_of_ok (P.available_apply _)]
          have : ¬ r.length ≥ 56 := by omega
          simp only [this, if_false, decide_false, Bool.false_eq_true]
          simp only [DmData.reparsed, h29, h40c, Option.map, Container.reparsed]
          rfl
        | some c40 =>
          obtain ⟨hok40, hne40, hr40⟩ := h40 c40 h40c
          simp only [h40c] at hw
          cases hc : writeContainer (pos + a.length + b.length) c40 with
          | error => simp [hc] at hw
          | panic => simp [hc] at hw
          | ok c =>
            simp only [hc] at hw
            injection hw with hw
            subst hw
            subst hout
            unfold parseDmData
            simp only [List.flatten_cons, List.append_assoc, List.append_nil]
            rw [P.bind_of_ok (readUe_writeUe _ hA), P.bind_of_ok (readUe_writeUe _ hC), P.bind_of_ok (readUe_writeUe _ hS)]
            simp only [hcomp]
            have hmainread : (if d.compressed = true then pure (List.replicate 32 (0 : Int)) else readFlds dmMainParseLayout)
                (pM.flatten ++ (b ++ (c ++ r))) =
                .ok ((if d.compressed then List.replicate 32 0
                      else (dmMainWriteLayout.zip d.main).map (fun p => p.1.decode (fldRaw p.1 p.2))), b ++ (c ++ r)) := by
              cases hcmp : d.compressed with
              | true =>
                simp only [hcmp, Bool.not_true, Bool.false_eq_true, if_false, if_true] at hM ⊢
                have : pM = [] := by
                  cases pM with
                  | nil => rfl
                  | cons x xs => simp at hM
                subst this
                rfl
              | false =>
                simp only [hcmp, Bool.not_false, if_true, Bool.false_eq_true, if_false] at hM ⊢
                have hz : (dmMainWriteLayout.zip d.main).map (·.1) = dmMainWriteLayout := by
                  apply List.map_fst_zip
                  rw [hmain]; decide
                have := readFlds_writeFlds dmMainWriteLayout d.main pM (b ++ (c ++ r)) hM
                rw [hz] at this
                rw [main_layouts_agree]
                exact this
            rw [P.bind_of_ok hmainread]
            have hal29 : (pos + (pA ++ (pC ++ (pS ++ pM.flatten))).length + (b ++ (c ++ r)).length) % 8 = 0 := by
              simp only [List.length_append, List.flatten_cons, List.append_nil] at halign ⊢
              omega
            have hp29 := parseContainer_writeContainer cmv29Levels cmv40Levels _ c29 b (c ++ r)
              (by simpa [List.flatten_cons] using hb) hok29.count hok29.fits
              (by simpa [List.flatten_cons, List.length_append, Nat.add_assoc] using hal29)
            rw [P.bind_of_ok hp29]
            rw [P.bind_of_ok (P.available_apply _)]
            have hclen := writeContainer_length_ge _ c40 c cmv40Levels cmv29Levels hc hok40
            have hpos : 1 ≤ c40.blocks.length := by
              cases hbl : c40.blocks with
              | nil => exact absurd hbl hne40
              | cons _ _ => simp
            have hav : (c ++ r).length ≥ 56 := by
              simp only [List.length_append]; omega
            simp only [hav, if_true, decide_true]
            have hal40 : (pos + (pA ++ (pC ++ (pS ++ pM.flatten))).length + b.length + (c ++ r).length) % 8 = 0 := by
              simp only [List.length_append, List.flatten_cons, List.append_nil] at halign ⊢
              omega
            have hp40 := parseContainer_writeContainer cmv40Levels cmv29Levels _ c40 c r
              (by simpa [List.flatten_cons] using hc) hok40.count hok40.fits
              (by simpa [List.flatten_cons, List.length_append, Nat.add_assoc] using hal40)
            rw [P.bind_of_ok (by rw [P.bind_of_ok hp40]; rfl)]
            simp only [DmData.reparsed, h29, h40c, Option.map, Container.reparsed]
            rfl
      | [], hparts => simp at hparts
      | [_], hparts => simp at hparts
      | [_, _], hparts => simp at hparts

end Dovi
