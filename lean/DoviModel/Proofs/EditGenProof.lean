import DoviModel.Model.Export
import DoviModel.Model.Generate
import DoviModel.Props.C12
/-!
# Helper lemmas for C09 (editor), C10 (generator), C16 (export views)

Everything here is about the executable models `Model/Editor.lean`, `Model/Export.lean`, `Model/Ops.lean`.
The central notion is `PW R l out`: the list-wide pass that produced `out` from `l` kept the length and acted
on every position `j` by the relation `R j` (a *frame-local* description of the pass).
-/
namespace Dovi.EditGenProof
open Dovi Dovi.Editor Dovi.Export

/-! ## `Res` plumbing -/

theorem bind_ok_iff {α β} {x : Res α} {f : α → Res β} {b : β} :
    x.bind f = .ok b ↔ ∃ a, x = .ok a ∧ f a = .ok b := by
  cases x <;> simp [Res.bind]

theorem bind_ne_panic {α β} {x : Res α} {f : α → Res β} (hx : x ≠ .panic)
    (hf : ∀ a, x = .ok a → f a ≠ .panic) : x.bind f ≠ .panic := by
  cases x with
  | ok a => simpa [Res.bind] using hf a rfl
  | error => simp [Res.bind]
  | panic => exact absurd rfl hx

theorem bind_eq_panic {α β} {x : Res α} {f : α → Res β} (h : x.bind f = .panic) :
    x = .panic ∨ ∃ a, x = .ok a ∧ f a = .panic := by
  cases x with
  | ok a => right; exact ⟨a, rfl, by simpa [Res.bind] using h⟩
  | error => simp [Res.bind] at h
  | panic => left; rfl

/-! ## frame-local description of a pass -/

/-- `out` has the length of `l` and position `j` of `l` is related to position `j` of `out` by `R (i + j)` -/
def PWo (i : Nat) (R : Nat → Option Rpu → Option Rpu → Prop) (l out : List (Option Rpu)) : Prop :=
  out.length = l.length ∧ ∀ j x, l[j]? = some x → ∃ y, out[j]? = some y ∧ R (i + j) x y

abbrev PW := PWo 0

/-- a removed frame stays removed; a present frame `r` at position `j` becomes `g j r` -/
def Lift (g : Nat → Rpu → Res Rpu) (j : Nat) (x y : Option Rpu) : Prop :=
  match x with
  | none => y = none
  | some r => ∃ r', g j r = .ok r' ∧ y = some r'

theorem PWo.nil (i : Nat) (R) : PWo i R [] [] := ⟨rfl, by simp⟩

theorem PWo.cons {i : Nat} {R} {x y : Option Rpu} {l out : List (Option Rpu)}
    (h0 : R i x y) (ht : PWo (i + 1) R l out) : PWo i R (x :: l) (y :: out) := by
  refine ⟨by simp [ht.1], ?_⟩
  intro j z hz
  cases j with
  | zero => simp at hz; subst hz; exact ⟨y, by simp, by simpa using h0⟩
  | succ j =>
    simp at hz
    obtain ⟨w, hw, hr⟩ := ht.2 j z hz
    refine ⟨w, by simpa using hw, ?_⟩
    have : i + (j + 1) = i + 1 + j := by omega
    rw [this]; exact hr

theorem PW.trans {R S : Nat → Option Rpu → Option Rpu → Prop} {l m out : List (Option Rpu)}
    (h1 : PW R l m) (h2 : PW S m out) : PW (fun j x z => ∃ y, R j x y ∧ S j y z) l out := by
  refine ⟨h2.1.trans h1.1, ?_⟩
  intro j x hx
  obtain ⟨y, hy, hr⟩ := h1.2 j x hx
  obtain ⟨z, hz, hs⟩ := h2.2 j y hy
  exact ⟨z, hz, y, hr, hs⟩

theorem PW.mono {R S : Nat → Option Rpu → Option Rpu → Prop} {l out : List (Option Rpu)}
    (h : PW R l out) (hrs : ∀ j x y, j < l.length → R j x y → S j x y) : PW S l out := by
  refine ⟨h.1, ?_⟩
  intro j x hx
  obtain ⟨y, hy, hr⟩ := h.2 j x hx
  have hj : j < l.length := (List.getElem?_eq_some_iff.mp hx).1
  exact ⟨y, hy, hrs _ _ _ (by simpa using hj) hr⟩

theorem PW.refl (l : List (Option Rpu)) : PW (fun _ x y => y = x) l l :=
  ⟨rfl, fun _ x hx => ⟨x, hx, rfl⟩⟩

/-- the present/removed pattern is kept by every `Lift` pass -/
theorem Lift.isSome {g j x y} (h : Lift g j x y) : y.isSome = x.isSome := by
  cases x with
  | none => simp [Lift] at h; simp [h]
  | some r => obtain ⟨r', _, rfl⟩ := h; rfl

/-! ## removal -/

theorem setNone_length (l : List (Option Rpu)) (a b : Nat) : (setNone l a b).length = l.length := by
  simp [setNone]

theorem setNone_get (l : List (Option Rpu)) (a b j : Nat) (x : Option Rpu) (h : l[j]? = some x) :
    (setNone l a b)[j]? = some (if a ≤ j ∧ j ≤ b then none else x) := by
  obtain ⟨hj, hx⟩ := List.getElem?_eq_some_iff.mp h
  simp [setNone, hj, hx]

/-- frame `j` is listed by the `remove` entry `r` (a single index or an inclusive range) -/
def removedBy (r : String) (j : Nat) : Bool :=
  if r.toList.contains '-' then
    match rangeTuple r with
    | some (s, e) => s ≤ j && j ≤ e
    | none => false
  else match parseUsize r with
    | some i => i == j
    | none => false

/-- frame `j` is listed by some entry of the `remove` list -/
def removed (rs : List String) (j : Nat) : Bool := rs.any (removedBy · j)

theorem removeFrames_spec (rs : List String) (l out : List (Option Rpu)) (h : removeFrames rs l = .ok out) :
    PW (fun j x y => y = if removed rs j then none else x) l out := by
  induction rs generalizing l with
  | nil =>
    simp [removeFrames] at h; subst h
    exact (PW.refl l).mono (by intro j x y _ h; simpa [removed] using h)
  | cons r rest ih =>
    unfold removeFrames at h
    split at h
    · rename_i hc
      split at h
      · cases h
      · rename_i s e ht
        split at h
        · cases h
        · split at h
          · cases h
          · have h1 := ih _ h
            refine ⟨by rw [h1.1, setNone_length], ?_⟩
            intro j x hx
            obtain ⟨y, hy, hr⟩ := h1.2 j _ (setNone_get l s e j x hx)
            refine ⟨y, hy, ?_⟩
            simp only [Nat.zero_add] at hr ⊢
            rw [hr]
            simp only [removed, List.any_cons, removedBy, hc, if_true, ht]
            by_cases hin : s ≤ j ∧ j ≤ e
            · simp [hin]
            · have : (decide (s ≤ j) && decide (j ≤ e)) = false := by simpa using hin
              simp [hin, this]
    · rename_i hc
      split at h
      · rename_i i hp
        split at h
        · have h1 := ih _ h
          refine ⟨by rw [h1.1, setNone_length], ?_⟩
          intro j x hx
          obtain ⟨y, hy, hr⟩ := h1.2 j _ (setNone_get l i i j x hx)
          refine ⟨y, hy, ?_⟩
          simp only [Nat.zero_add] at hr ⊢
          rw [hr]
          simp only [removed, List.any_cons, removedBy, hc, hp]
          by_cases hin : i = j
          · subst hin; simp
          · have : ¬ (i ≤ j ∧ j ≤ i) := by omega
            simp [hin, this]
        · cases h
      · rename_i hp
        have h1 := ih _ h
        refine h1.mono ?_
        intro j x y _ hr
        rw [hr]
        have hb : removedBy r j = false := by unfold removedBy; rw [if_neg hc]; simp [hp]
        simp [removed, List.any_cons, hb]

/-! ## per-frame passes -/

theorem mapSome_spec (f : Rpu → Res Rpu) (i : Nat) (l out : List (Option Rpu)) (h : mapSome f l = .ok out) :
    PWo i (Lift fun _ r => f r) l out := by
  induction l generalizing i out with
  | nil => simp [mapSome] at h; subst h; exact PWo.nil _ _
  | cons x xs ih =>
    cases x with
    | none =>
      simp only [mapSome, bind_ok_iff] at h
      obtain ⟨t, ht, h2⟩ := h
      injection h2 with h2; subst h2
      exact PWo.cons (by simp [Lift]) (ih _ _ ht)
    | some r =>
      simp only [mapSome, bind_ok_iff] at h
      obtain ⟨r', hr, t, ht, h2⟩ := h
      injection h2 with h2; subst h2
      exact PWo.cons ⟨r', hr, rfl⟩ (ih _ _ ht)

theorem mapRange_go_spec (f : Rpu → Res Rpu) (a b i : Nat) (l out : List (Option Rpu))
    (h : mapRange.go f a b i l = .ok out) :
    PWo i (Lift fun j r => if a ≤ j ∧ j ≤ b then f r else .ok r) l out := by
  induction l generalizing i out with
  | nil => simp [mapRange.go] at h; subst h; exact PWo.nil _ _
  | cons x xs ih =>
    simp only [mapRange.go, bind_ok_iff] at h
    obtain ⟨x', hx', t, ht, h2⟩ := h
    injection h2 with h2; subst h2
    refine PWo.cons ?_ (ih _ _ ht)
    cases x with
    | none => simp at hx'; subst hx'; simp [Lift]
    | some r =>
      simp only at hx'
      by_cases hin : a ≤ i ∧ i ≤ b
      · have : (decide (a ≤ i) && decide (i ≤ b)) = true := by simpa using hin
        simp only [this, if_true, bind_ok_iff] at hx'
        obtain ⟨r', hr', h3⟩ := hx'
        injection h3 with h3; subst h3
        exact ⟨r', by simp [hin, hr'], rfl⟩
      · have : (decide (a ≤ i) && decide (i ≤ b)) = false := by simpa using hin
        simp [this] at hx'
        subst hx'
        exact ⟨r, by simp [hin], rfl⟩

theorem mapRange_spec (f : Rpu → Res Rpu) (a b : Nat) (l out : List (Option Rpu))
    (h : mapRange f a b l = .ok out) :
    PW (Lift fun j r => if a ≤ j ∧ j ≤ b then f r else .ok r) l out :=
  mapRange_go_spec f a b 0 l out h

/-- `mapRange` with a total `f` succeeds -/
theorem mapRange_go_total (f : Rpu → Res Rpu) (hf : ∀ r, ∃ r', f r = .ok r') (a b i : Nat) (l : List (Option Rpu)) :
    ∃ out, mapRange.go f a b i l = .ok out := by
  induction l generalizing i with
  | nil => exact ⟨[], rfl⟩
  | cons x xs ih =>
    obtain ⟨t, ht⟩ := ih (i + 1)
    cases x with
    | none => exact ⟨none :: t, by simp [mapRange.go, ht, Res.bind]⟩
    | some r =>
      obtain ⟨r', hr'⟩ := hf r
      by_cases hin : (decide (a ≤ i) && decide (i ≤ b)) = true
      · exact ⟨some r' :: t, by simp [mapRange.go, ht, Res.bind, hin, hr']⟩
      · exact ⟨some r :: t, by simp [mapRange.go, ht, Res.bind, hin]⟩

/-! ## scene-cut ranges -/

/-- set the scene-refresh flag of a frame (frames without DM data are left alone) -/
def setCut (v : Bool) (r : Rpu) : Rpu :=
  match r.vdr_dm_data with
  | some d => { r with modified := true, vdr_dm_data := some { d with scene_refresh_flag := if v then 1 else 0 } }
  | none => r

/-- what the list-wide scene-cut pass does to the frame at position `j`: every entry whose inclusive range
contains `j` sets the flag, in list order -/
def scFrame : List (String × Bool) → Nat → Rpu → Rpu
  | [], _, r => r
  | (k, v) :: rest, j, r =>
    if k.toLower == "all" then scFrame rest j r
    else match rangeTuple k with
      | none => scFrame rest j r
      | some (s, e) => scFrame rest j (if s ≤ j ∧ j ≤ e then setCut v r else r)

theorem Lift.comp {g1 g2 : Nat → Rpu → Res Rpu} {j x y z} (h1 : Lift g1 j x y) (h2 : Lift g2 j y z) :
    Lift (fun j r => (g1 j r).bind (g2 j)) j x z := by
  cases x with
  | none => simp [Lift] at h1; subst h1; simpa [Lift] using h2
  | some r =>
    obtain ⟨r', hr', rfl⟩ := h1
    obtain ⟨r'', hr'', rfl⟩ := h2
    exact ⟨r'', by simp [hr', Res.bind, hr''], rfl⟩

theorem sceneCutRanges_spec (edits : List (String × Bool)) (l out : List (Option Rpu))
    (h : sceneCutRanges edits l = .ok out) : PW (Lift fun j r => .ok (scFrame edits j r)) l out := by
  induction edits generalizing l with
  | nil =>
    simp [sceneCutRanges] at h; subst h
    exact (PW.refl l).mono (by intro j x y _ h; rw [h]; cases x <;> simp [Lift, scFrame])
  | cons kv rest ih =>
    obtain ⟨k, v⟩ := kv
    unfold sceneCutRanges at h
    split at h
    · rename_i hall
      exact (ih _ h).mono (by intro j x y _ hr; simpa [scFrame, hall] using hr)
    · rename_i hall
      split at h
      · cases h
      · rename_i s e ht
        split at h
        · cases h
        · split at h
          · cases h
          · rw [bind_ok_iff] at h
            obtain ⟨m, hm, h2⟩ := h
            have h1 := mapRange_spec _ _ _ _ _ hm
            have h3 := ih _ h2
            refine (h1.trans h3).mono ?_
            intro j x z _ ⟨y, hxy, hyz⟩
            have := Lift.comp hxy hyz
            cases x with
            | none => simpa [Lift] using this
            | some r =>
              obtain ⟨r', hr', rfl⟩ := this
              refine ⟨r', ?_, rfl⟩
              rw [← hr']
              simp only [scFrame, hall, ht]
              by_cases hin : s ≤ j ∧ j ≤ e
              · simp only [hin, and_self, if_true]
                cases hd : r.vdr_dm_data <;> simp [hd, setCut, Res.bind]
              · simp [hin, Res.bind]

/-! ## level-5 replacement -/

theorem head_filter_unique {α} (p : α → Bool) (l : List α) (b : α) (hb : b ∈ l) (hp : p b = true)
    (hu : ∀ x ∈ l, p x = true → x = b) : (l.filter p).head? = some b := by
  have hm : b ∈ l.filter p := List.mem_filter.mpr ⟨hb, hp⟩
  cases hf : l.filter p with
  | nil => rw [hf] at hm; cases hm
  | cons y ys =>
    have hy : y ∈ l.filter p := by rw [hf]; simp
    obtain ⟨h1, h2⟩ := List.mem_filter.mp hy
    simp [hu y h1 h2]

/-- replacing the L5 block never fails; with a CM v2.9 container the new block is *the* L5 block afterwards and
nothing but that container changes; without one nothing changes at all -/
theorem replaceBlock_l5 (d : DmData) (blk : Block) (hl : blk.level = 5) :
    (d.cmv29 = none ∧ d.replaceBlock blk = .ok d) ∨
    (∃ c', d.cmv29.isSome ∧ d.replaceBlock blk = .ok { d with cmv29 := some c' } ∧
           ({ d with cmv29 := some c' } : DmData).getBlock 5 = some blk) := by
  have hw : whichContainer 5 = some .v29 := by decide
  cases hc : d.cmv29 with
  | none =>
    left
    refine ⟨rfl, ?_⟩
    simp [DmData.replaceBlock, hl, DmData.replaceLevel, DmData.removeLevel, hw, DmData.get, hc, DmData.addBlock]
  | some c =>
    right
    refine ⟨({ (c.removeLevel 5) with blocks := (c.removeLevel 5).blocks ++ [blk] } : Container).update, rfl, ?_, ?_⟩
    · simp [DmData.replaceBlock, hl, DmData.replaceLevel, DmData.removeLevel, hw, DmData.get, hc, DmData.addBlock,
        DmData.set, Container.addBlock, allowedOf, cmv29Levels, Res.bind]
    · simp only [DmData.getBlock, DmData.levelBlocks, hw, DmData.get]
      apply head_filter_unique
      · simp [Container.update, C12.mem_sortBlocks]
      · simp [hl]
      · intro x hx hp
        simp only [Container.update, C12.mem_sortBlocks, List.mem_append, List.mem_singleton] at hx
        rcases hx with hx | hx
        · have := (C12.removeLevel_spec c 5 x hx).2
          simp at this hp
          exact absurd hp this
        · exact hx

/-! ## active-area offsets -/

/-- the frame has DM data with a CM v2.9 container (the place an L5 block lives in) -/
def HasV29 (r : Rpu) : Prop := ∃ d, r.vdr_dm_data = some d ∧ d.cmv29.isSome

theorem setOffsets_total (r : Rpu) (p : Preset) : ∃ r', setOffsets r p = .ok r' := by
  unfold setOffsets withDm
  cases hd : r.vdr_dm_data with
  | none => exact ⟨_, rfl⟩
  | some d =>
    rcases replaceBlock_l5 d (l5Block p.left p.right p.top p.bottom) rfl with ⟨_, h⟩ | ⟨c', _, h, _⟩
    · simp only [h, Res.bind]; exact ⟨_, rfl⟩
    · simp only [h, Res.bind]; exact ⟨_, rfl⟩

/-- after `setOffsets` a frame with a CM v2.9 container carries exactly the preset's offsets -/
theorem setOffsets_l5 (r r' : Rpu) (p : Preset) (hv : HasV29 r) (h : setOffsets r p = .ok r') :
    l5Of r' = [(p.left : Int), p.right, p.top, p.bottom] ∧ HasV29 r' := by
  obtain ⟨d, hd, hc⟩ := hv
  unfold setOffsets withDm at h
  simp only [hd] at h
  rcases replaceBlock_l5 d (l5Block p.left p.right p.top p.bottom) rfl with ⟨hn, _⟩ | ⟨c', _, h1, h2⟩
  · simp [hn] at hc
  · simp only [h1, Res.bind] at h
    injection h with h; subst h
    refine ⟨?_, _, rfl, rfl⟩
    simp [l5Of, h2, l5Block]

/-- frames without DM data are only marked modified by `setOffsets` -/
theorem setOffsets_nodm (r : Rpu) (p : Preset) (h : r.vdr_dm_data = none) :
    setOffsets r p = .ok { r with modified := true } := by
  simp [setOffsets, withDm, h]

/-- what the list-wide active-area pass does to the frame at position `j`: every entry whose inclusive range
contains `j` sets its preset's offsets, in list order -/
def aaFrame (ps : List Preset) : List (String × Nat) → Nat → Rpu → Res Rpu
  | [], _, r => .ok r
  | (k, id) :: rest, j, r =>
    if k.toLower == "all" then aaFrame ps rest j r
    else match rangeTuple k with
      | none => .error
      | some (s, e) =>
        match ps.find? (fun p => p.id == id) with
        | none => .error
        | some p => if s ≤ j ∧ j ≤ e then (setOffsets r p).bind (aaFrame ps rest j) else aaFrame ps rest j r

theorem activeAreaRanges_spec (ps : List Preset) (edits : List (String × Nat)) (l out : List (Option Rpu))
    (h : activeAreaRanges ps edits l = .ok out) : PW (Lift (aaFrame ps edits)) l out := by
  induction edits generalizing l with
  | nil =>
    simp [activeAreaRanges] at h; subst h
    exact (PW.refl l).mono (by intro j x y _ h; rw [h]; cases x <;> simp [Lift, aaFrame])
  | cons kv rest ih =>
    obtain ⟨k, id⟩ := kv
    unfold activeAreaRanges at h
    split at h
    · rename_i hall
      exact (ih _ h).mono (by intro j x y _ hr; simpa [aaFrame, hall] using hr)
    · rename_i hall
      split at h
      · cases h
      · rename_i s e ht
        split at h
        · cases h
        · split at h
          · cases h
          · split at h
            · cases h
            · rename_i p hp
              rw [bind_ok_iff] at h
              obtain ⟨m, hm, h2⟩ := h
              have h1 := mapRange_spec _ _ _ _ _ hm
              have h3 := ih _ h2
              refine (h1.trans h3).mono ?_
              intro j x z _ ⟨y, hxy, hyz⟩
              have := Lift.comp hxy hyz
              cases x with
              | none => simpa [Lift] using this
              | some r =>
                obtain ⟨r', hr', rfl⟩ := this
                refine ⟨r', ?_, rfl⟩
                rw [← hr']
                simp only [aaFrame, hall, ht, hp]
                by_cases hin : s ≤ j ∧ j ≤ e
                · simp [hin]
                · simp [hin, Res.bind]

/-- the active-area pass succeeds when every non-`all` entry is a valid inclusive range with a known preset -/
theorem activeAreaRanges_total (ps : List Preset) (edits : List (String × Nat)) (l : List (Option Rpu))
    (hv : ∀ kv ∈ edits, kv.1.toLower ≠ "all" →
       ∃ s e p, rangeTuple kv.1 = some (s, e) ∧ s ≤ e ∧ e < l.length ∧ ps.find? (fun p => p.id == kv.2) = some p) :
    ∃ out, activeAreaRanges ps edits l = .ok out := by
  induction edits generalizing l with
  | nil => exact ⟨l, rfl⟩
  | cons kv rest ih =>
    obtain ⟨k, id⟩ := kv
    unfold activeAreaRanges
    by_cases hall : k.toLower = "all"
    · simp only [hall, beq_self_eq_true, if_true]
      exact ih l (fun kv hkv => hv kv (List.mem_cons_of_mem _ hkv))
    · obtain ⟨s, e, p, ht, hse, hel, hp⟩ := hv (k, id) (by simp) hall
      have h1 : ¬ e ≥ l.length := by omega
      obtain ⟨m, hm⟩ := mapRange_go_total (fun r => setOffsets r p) (fun r => setOffsets_total r p) s e 0 l
      have hm' : mapRange (fun r => setOffsets r p) s e l = .ok m := hm
      have hml : m.length = l.length := (mapRange_spec _ _ _ _ _ hm').1
      obtain ⟨out, hout⟩ := ih m (by
        intro kv hkv hne
        obtain ⟨s', e', p', a1, a2, a3, a4⟩ := hv kv (List.mem_cons_of_mem _ hkv) hne
        exact ⟨s', e', p', a1, a2, by omega, a4⟩)
      refine ⟨out, ?_⟩
      simp only [beq_iff_eq, hall, if_false, ht, h1, hse, hp, hm', Res.bind, hout]
      simp

/-! ## the map view of a JSON object (`asMap`) -/

theorem mem_insertByKey {α} (e x : String × α) (l : List (String × α)) (h : x ∈ insertByKey e l) :
    x = e ∨ x ∈ l := by
  induction l with
  | nil => simp [insertByKey] at h; exact Or.inl h
  | cons y ys ih =>
    simp only [insertByKey] at h
    split at h
    · simpa using h
    · split at h
      · simp at h; rcases h with h | h
        · exact Or.inl h
        · exact Or.inr (List.mem_cons_of_mem _ h)
      · simp at h; rcases h with h | h
        · exact Or.inr (by simp [h])
        · rcases ih h with h | h
          · exact Or.inl h
          · exact Or.inr (List.mem_cons_of_mem _ h)

theorem insertByKey_self {α} (e : String × α) (l : List (String × α)) : e ∈ insertByKey e l := by
  induction l with
  | nil => simp [insertByKey]
  | cons y ys ih =>
    simp only [insertByKey]
    split
    · simp
    · split
      · simp
      · simp [ih]

theorem insertByKey_keeps_key {α} (e x : String × α) (l : List (String × α)) (h : x ∈ l) :
    ∃ y ∈ insertByKey e l, y.1 = x.1 := by
  induction l with
  | nil => cases h
  | cons z zs ih =>
    simp only [insertByKey]
    split
    · exact ⟨x, by simp [List.mem_cons.mp h], rfl⟩
    · split
      · rename_i heq
        have heq' : e.1 = z.1 := by simpa using heq
        rcases List.mem_cons.mp h with h | h
        · exact ⟨e, by simp, by rw [h, heq']⟩
        · exact ⟨x, by simp [h], rfl⟩
      · rcases List.mem_cons.mp h with h | h
        · exact ⟨x, by simp [h], rfl⟩
        · obtain ⟨y, hy, hk⟩ := ih h
          exact ⟨y, by simp [hy], hk⟩

theorem foldl_insertByKey_sub {α} (l acc : List (String × α)) (x : String × α)
    (h : x ∈ l.foldl (fun acc e => insertByKey e acc) acc) : x ∈ acc ∨ x ∈ l := by
  induction l generalizing acc with
  | nil => exact Or.inl h
  | cons e es ih =>
    rcases ih _ h with h | h
    · rcases mem_insertByKey e x acc h with h | h
      · exact Or.inr (by simp [h])
      · exact Or.inl h
    · exact Or.inr (List.mem_cons_of_mem _ h)

theorem foldl_insertByKey_key {α} (l acc : List (String × α)) (x : String × α) (h : x ∈ acc ∨ x ∈ l) :
    ∃ y ∈ l.foldl (fun acc e => insertByKey e acc) acc, y.1 = x.1 := by
  induction l generalizing acc x with
  | nil => simp at h; exact ⟨x, h, rfl⟩
  | cons e es ih =>
    simp only [List.foldl_cons]
    rcases h with h | h
    · obtain ⟨y, hy, hk⟩ := insertByKey_keeps_key e x acc h
      obtain ⟨z, hz, hk2⟩ := ih (insertByKey e acc) y (Or.inl hy)
      exact ⟨z, hz, hk2.trans hk⟩
    · rcases List.mem_cons.mp h with h | h
      · subst h
        exact ih (insertByKey x acc) x (Or.inl (insertByKey_self x acc))
      · exact ih _ x (Or.inr h)

/-- every entry of the map comes from the object … -/
theorem asMap_sub {α} (l : List (String × α)) (x : String × α) (h : x ∈ asMap l) : x ∈ l := by
  rcases foldl_insertByKey_sub l [] x h with h | h
  · cases h
  · exact h

/-- … and every key of the object is a key of the map -/
theorem asMap_key {α} (l : List (String × α)) (x : String × α) (h : x ∈ l) : ∃ y ∈ asMap l, y.1 = x.1 :=
  foldl_insertByKey_key l [] x (Or.inr h)

theorem asMap_nil {α} : asMap ([] : List (String × α)) = [] := rfl

/-! ## run-length groups of the level-5 export -/

/-- end of the first group: one before the next group's start, or `last` -/
def headEnd (last : Nat) : List (List Int × Nat) → Nat
  | [] => last
  | (_, s') :: _ => s' - 1

/-- (key, start, end) of every group -/
def trip (last : Nat) : List (List Int × Nat) → List (List Int × Nat × Nat)
  | [] => []
  | (k, s) :: gt => (k, s, headEnd last gt) :: trip last gt

theorem zip_ends_eq_trip (last : Nat) (gs : List (List Int × Nat)) :
    (gs.zip (((gs.map (·.2)).drop 1).map (· - 1) ++ [last])) = (trip last gs).map fun (k, s, e) => ((k, s), e) := by
  induction gs with
  | nil => simp [trip]
  | cons g gt ih =>
    obtain ⟨k, s⟩ := g
    cases gt with
    | nil => simp [trip, headEnd]
    | cons g2 gt2 =>
      obtain ⟨k2, s2⟩ := g2
      simp only [List.map_cons, List.drop_succ_cons, List.drop_zero, List.cons_append, List.zip_cons_cons, trip,
        List.cons.injEq]
      refine ⟨rfl, ?_⟩
      simpa [trip] using ih

/-- the groups of `ks` numbered from `i`: the first group starts at `i` with the first key; every group is a
non-empty inclusive range inside `[i, i + n - 1]` on which `ks` is constantly the group's key; the groups cover
every position -/
theorem groupsFrom_spec (i : Nat) (ks : List (List Int)) (hne : ks ≠ []) :
    (∃ gt, groupsFrom i ks = (ks.headD [], i) :: gt) ∧
    (∀ t ∈ trip (i + ks.length - 1) (groupsFrom i ks),
        i ≤ t.2.1 ∧ t.2.1 ≤ t.2.2 ∧ t.2.2 ≤ i + ks.length - 1 ∧
        ∀ j, t.2.1 ≤ j → j ≤ t.2.2 → ks[j - i]? = some t.1) ∧
    (∀ j, i ≤ j → j < i + ks.length → ∃ t ∈ trip (i + ks.length - 1) (groupsFrom i ks), t.2.1 ≤ j ∧ j ≤ t.2.2) := by
  induction ks generalizing i with
  | nil => exact absurd rfl hne
  | cons k rest ih =>
    cases rest with
    | nil =>
      refine ⟨⟨[], rfl⟩, ?_, ?_⟩
      · intro t ht
        simp [groupsFrom, trip, headEnd] at ht
        subst ht
        refine ⟨Nat.le_refl _, Nat.le_refl _, by simp, ?_⟩
        intro j h1 h2
        have : j = i := by simp at h1 h2; omega
        subst this; simp
      · intro j h1 h2
        refine ⟨(k, i, i), by simp [groupsFrom, trip, headEnd], ?_⟩
        simp at h2 ⊢; omega
    | cons k2 rest2 =>
      obtain ⟨⟨gt, hg⟩, ih2, ih3⟩ := ih (i + 1) (by simp)
      have hlast : i + 1 + (k2 :: rest2).length - 1 = i + (k :: k2 :: rest2).length - 1 := by
        simp only [List.length_cons]; omega
      rw [hlast] at ih2 ih3
      simp only [List.headD_cons] at hg
      have shift : ∀ j, i + 1 ≤ j → (k :: k2 :: rest2)[j - i]? = (k2 :: rest2)[j - (i + 1)]? := by
        intro j hj
        have : j - i = (j - (i + 1)) + 1 := by omega
        rw [this, List.getElem?_cons_succ]
      by_cases hk : (k == k2) = true
      · have hkk : k = k2 := by simpa using hk
        have hgs : groupsFrom i (k :: k2 :: rest2) = (k, i) :: gt := by
          simp only [groupsFrom, hg, hk, if_true]
        rw [hgs]
        rw [hg] at ih2 ih3
        simp only [trip, List.mem_cons] at ih2 ih3 ⊢
        refine ⟨⟨gt, rfl⟩, ?_, ?_⟩
        · intro t ht
          rcases ht with ht | ht
          · subst ht
            obtain ⟨a1, a2, a3, a4⟩ := ih2 _ (Or.inl rfl)
            simp only at a1 a2 a3 a4 ⊢
            refine ⟨Nat.le_refl _, by omega, a3, ?_⟩
            intro j h1 h2
            by_cases hji : j = i
            · subst hji; simp
            · rw [shift j (by omega), a4 j (by omega) h2, hkk]
          · obtain ⟨a1, a2, a3, a4⟩ := ih2 t (Or.inr ht)
            refine ⟨by omega, a2, a3, ?_⟩
            intro j h1 h2
            rw [shift j (by omega)]; exact a4 j h1 h2
        · intro j h1 h2
          by_cases hji : j = i
          · subst hji
            obtain ⟨a1, a2, _, _⟩ := ih2 _ (Or.inl rfl)
            exact ⟨_, Or.inl rfl, Nat.le_refl _, by simp only at a1 a2 ⊢; omega⟩
          · obtain ⟨t, ht, b1, b2⟩ := ih3 j (by omega) (by simp only [List.length_cons] at h2 ⊢; omega)
            rcases ht with ht | ht
            · subst ht
              exact ⟨_, Or.inl rfl, by simp only; omega, b2⟩
            · exact ⟨t, Or.inr ht, b1, b2⟩
      · have hgs : groupsFrom i (k :: k2 :: rest2) = (k, i) :: (k2, i + 1) :: gt := by
          simp only [groupsFrom, hg, hk]; simp
        rw [hgs]
        rw [hg] at ih2 ih3
        refine ⟨⟨_, rfl⟩, ?_, ?_⟩
        · intro t ht
          simp only [trip, List.mem_cons] at ht
          rcases ht with ht | ht
          · subst ht
            simp only [headEnd]
            refine ⟨Nat.le_refl _, by omega, by simp only [List.length_cons]; omega, ?_⟩
            intro j h1 h2
            have : j = i := by omega
            subst this; simp
          · obtain ⟨a1, a2, a3, a4⟩ := ih2 t (by simpa [trip] using ht)
            refine ⟨by omega, a2, a3, ?_⟩
            intro j h1 h2
            rw [shift j (by omega)]; exact a4 j h1 h2
        · intro j h1 h2
          by_cases hji : j = i
          · subst hji
            exact ⟨(k, j, headEnd (j + (k :: k2 :: rest2).length - 1) ((k2, j + 1) :: gt)), by simp [trip],
              Nat.le_refl _, by simp [headEnd]⟩
          · obtain ⟨t, ht, b1, b2⟩ := ih3 j (by omega) (by simp only [List.length_cons] at h2 ⊢; omega)
            exact ⟨t, by simp only [trip, List.mem_cons] at ht ⊢; exact Or.inr ht, b1, b2⟩

/-! ## the exported level-5 config as an editor config -/

theorem mem_foldl_dedup (ks acc : List (List Int)) (k : List Int) :
    k ∈ ks.foldl (fun acc k => if acc.contains k then acc else acc ++ [k]) acc ↔ k ∈ acc ∨ k ∈ ks := by
  induction ks generalizing acc with
  | nil => simp
  | cons x xs ih =>
    simp only [List.foldl_cons, ih, List.mem_cons]
    by_cases hx : acc.contains x = true
    · simp only [hx, if_true]
      have hx' : x ∈ acc := by simpa using hx
      constructor
      · rintro (h | h)
        · exact Or.inl h
        · exact Or.inr (Or.inr h)
      · rintro (h | h | h)
        · exact Or.inl h
        · exact Or.inl (h ▸ hx')
        · exact Or.inr h
    · have hx' : acc.contains x = false := by simpa using hx
      simp only [hx', Bool.false_eq_true, if_false, List.mem_append, List.mem_singleton]
      constructor
      · rintro ((h | h) | h)
        · exact Or.inl h
        · exact Or.inr (Or.inl h)
        · exact Or.inr (Or.inr h)
      · rintro (h | h | h)
        · exact Or.inl (Or.inl h)
        · exact Or.inl (Or.inr h)
        · exact Or.inr h

theorem mem_dedup (ks : List (List Int)) (k : List Int) : k ∈ dedup ks ↔ k ∈ ks := by
  unfold dedup; rw [mem_foldl_dedup]; simp

theorem getElem?_idxOf_of_mem (ps : List (List Int)) (k : List Int) (h : k ∈ ps) : ps[ps.idxOf k]? = some k := by
  have hlt : ps.idxOf k < ps.length := List.idxOf_lt_length_iff.mpr h
  rw [List.getElem?_eq_getElem hlt, List.getElem_idxOf]

/-- a preset object of the exported config: id = position in the preset list, offsets = the L5 values -/
def presetOf (id : Nat) (k : List Int) : Preset :=
  { id := id, left := (k.getD 0 0).toNat, right := (k.getD 1 0).toNat, top := (k.getD 2 0).toNat,
    bottom := (k.getD 3 0).toNat }

def presetsFrom (i : Nat) : List (List Int) → List Preset
  | [] => []
  | k :: ks => presetOf i k :: presetsFrom (i + 1) ks

theorem presetsFrom_find (i n : Nat) (ps : List (List Int)) :
    (presetsFrom i ps).find? (fun p => p.id == i + n) = (ps[n]?).map (presetOf (i + n)) := by
  induction ps generalizing i n with
  | nil => simp [presetsFrom]
  | cons k ks ih =>
    cases n with
    | zero => simp [presetsFrom, presetOf]
    | succ n =>
      have h2 : i + (n + 1) = i + 1 + n := by omega
      have hb : ((presetOf i k).id == i + 1 + n) = false := by simp [presetOf]; omega
      simp only [presetsFrom, List.find?_cons, List.getElem?_cons_succ]
      rw [h2]
      simp only [hb]
      exact ih (i + 1) n

/-- the editor config a user gets from `export -d level5`: `{"active_area": {"crop": true, "presets": …,
"edits": {"s-e": id, …}}}`; `key s e` is the text of the range key (`format!("{}-{}", s, e)` in the tool) -/
def l5EditorConfig (key : Nat → Nat → String) (cfg : List (List Int) × List (Nat × Nat × Nat)) : Editor.Config :=
  { hasActiveArea := true, crop := true, presets := some (presetsFrom 0 cfg.1),
    aaEdits := some (cfg.2.map fun (s, e, id) => (key s e, id)) }

/-- the L5 offsets of a frame are four non-negative numbers (true of every parsed RPU) -/
def L5Wf (r : Rpu) : Prop := ∃ a b c d : Nat, l5Of r = [(a : Int), b, c, d]

theorem presetOf_vals (id : Nat) (k : List Int) (h : ∃ a b c d : Nat, k = [(a : Int), b, c, d]) :
    [((presetOf id k).left : Int), (presetOf id k).right, (presetOf id k).top, (presetOf id k).bottom] = k := by
  obtain ⟨a, b, c, d, rfl⟩ := h
  simp [presetOf]

/-- the edits of the exported config, in terms of the groups -/
theorem level5Config_edits (l : List Rpu) :
    (level5Config l).2 =
      (trip (l.length - 1) (groupsFrom 0 (l.map l5Of))).map fun (k, s, e) => (s, e, (level5Config l).1.idxOf k) := by
  simp only [level5Config]
  rw [zip_ends_eq_trip]
  simp [List.map_map, Function.comp_def]

theorem level5Config_presets (l : List Rpu) :
    (level5Config l).1 = dedup ((groupsFrom 0 (l.map l5Of)).map (·.1)) := rfl

theorem trip_keys (last : Nat) (gs : List (List Int × Nat)) : (trip last gs).map (·.1) = gs.map (·.1) := by
  induction gs with
  | nil => rfl
  | cons g gt ih => obtain ⟨k, s⟩ := g; simp [trip, ih]

/-- the three facts about the exported edits the replay theorem needs -/
theorem level5Config_spec (l : List Rpu) (hne : l ≠ []) :
    (∀ t ∈ (level5Config l).2, t.1 ≤ t.2.1 ∧ t.2.1 < l.length ∧
        ∀ j, t.1 ≤ j → j ≤ t.2.1 → ∃ r, l[j]? = some r ∧ (level5Config l).1[t.2.2]? = some (l5Of r)) ∧
    (∀ j, j < l.length → ∃ t ∈ (level5Config l).2, t.1 ≤ j ∧ j ≤ t.2.1) := by
  have hks : l.map l5Of ≠ [] := by simpa using hne
  have hlen : 0 < l.length := List.length_pos_iff.mpr hne
  obtain ⟨_, g2, g3⟩ := groupsFrom_spec 0 (l.map l5Of) hks
  simp only [List.length_map, Nat.zero_add] at g2 g3
  rw [level5Config_edits]
  constructor
  · intro t ht
    simp only [List.mem_map] at ht
    obtain ⟨⟨k, s, e⟩, hm, rfl⟩ := ht
    obtain ⟨_, a2, a3, a4⟩ := g2 _ hm
    simp only at a2 a3 a4 ⊢
    refine ⟨a2, by omega, ?_⟩
    intro j h1 h2
    have := a4 j h1 h2
    simp only [Nat.sub_zero, List.getElem?_map, Option.map_eq_some_iff] at this
    obtain ⟨r, hr, hk⟩ := this
    refine ⟨r, hr, ?_⟩
    rw [hk]
    apply getElem?_idxOf_of_mem
    rw [level5Config_presets, mem_dedup, ← trip_keys (l.length - 1)]
    exact List.mem_map.mpr ⟨_, hm, rfl⟩
  · intro j hj
    obtain ⟨t, ht, b1, b2⟩ := g3 j (Nat.zero_le _) hj
    exact ⟨_, List.mem_map.mpr ⟨t, ht, rfl⟩, b1, b2⟩

/-! ## the last covering edit wins -/

/-- the entry is a range entry whose inclusive range contains `j` -/
def covers (kv : String × Nat) (j : Nat) : Prop :=
  kv.1.toLower ≠ "all" ∧ ∃ s e, rangeTuple kv.1 = some (s, e) ∧ s ≤ j ∧ j ≤ e

theorem aaFrame_l5 (ps : List Preset) (j : Nat) (target : List Int) (edits : List (String × Nat))
    (hall : ∀ kv ∈ edits, covers kv j → ∀ p, ps.find? (fun p => p.id == kv.2) = some p →
              [(p.left : Int), p.right, p.top, p.bottom] = target)
    (r r' : Rpu) (hv : HasV29 r) (h : aaFrame ps edits j r = .ok r')
    (hc : l5Of r = target ∨ ∃ kv ∈ edits, covers kv j) : l5Of r' = target ∧ HasV29 r' := by
  induction edits generalizing r with
  | nil =>
    simp [aaFrame] at h; subst h
    rcases hc with hc | ⟨kv, hkv, _⟩
    · exact ⟨hc, hv⟩
    · cases hkv
  | cons kv rest ih =>
    obtain ⟨k, id⟩ := kv
    have hall' : ∀ kv ∈ rest, covers kv j → ∀ p, ps.find? (fun p => p.id == kv.2) = some p →
        [(p.left : Int), p.right, p.top, p.bottom] = target :=
      fun kv hkv => hall kv (List.mem_cons_of_mem _ hkv)
    unfold aaFrame at h
    split at h
    · rename_i hk
      refine ih hall' r hv h ?_
      rcases hc with hc | ⟨kv, hkv, hcov⟩
      · exact Or.inl hc
      · rcases List.mem_cons.mp hkv with rfl | hkv
        · exact absurd (by simpa using hk) hcov.1
        · exact Or.inr ⟨kv, hkv, hcov⟩
    · rename_i hk
      split at h
      · cases h
      · rename_i s e ht
        split at h
        · cases h
        · rename_i p hp
          split at h
          · rename_i hin
            rw [bind_ok_iff] at h
            obtain ⟨r1, hr1, h2⟩ := h
            obtain ⟨hl5, hv1⟩ := setOffsets_l5 r r1 p hv hr1
            refine ih hall' r1 hv1 h2 (Or.inl ?_)
            rw [hl5]
            exact hall (k, id) (by simp) ⟨by simpa using hk, s, e, ht, hin.1, hin.2⟩ p hp
          · rename_i hin
            refine ih hall' r hv h ?_
            rcases hc with hc | ⟨kv, hkv, hcov⟩
            · exact Or.inl hc
            · rcases List.mem_cons.mp hkv with rfl | hkv
              · obtain ⟨_, s', e', ht', h1, h2⟩ := hcov
                simp only [ht] at ht'
                injection ht' with ht'
                injection ht' with e1 e2
                subst e1; subst e2
                exact absurd ⟨h1, h2⟩ hin
              · exact Or.inr ⟨kv, hkv, hcov⟩

/-- `crop` is `setOffsets` with zero offsets -/
theorem crop_eq_setOffsets (r : Rpu) : r.crop = setOffsets r ⟨0, 0, 0, 0, 0⟩ := by
  unfold Rpu.crop setOffsets withDm
  cases hd : r.vdr_dm_data <;> simp <;> rfl

/-- the per-frame part of the active-area section does nothing with range-only edits -/
theorem activeAreaSingle_go_noall (ps : List Preset) (r : Rpu) (edits : List (String × Nat))
    (h : ∀ kv ∈ edits, kv.1.toLower ≠ "all") : activeAreaSingle.go ps r edits = .ok r := by
  induction edits with
  | nil => rfl
  | cons kv rest ih =>
    obtain ⟨k, id⟩ := kv
    have hk : k.toLower ≠ "all" := h (k, id) (by simp)
    simp only [activeAreaSingle.go, beq_iff_eq, hk, if_false]
    exact ih (fun kv hkv => h kv (List.mem_cons_of_mem _ hkv))

/-! ## replaying the exported level-5 config -/

/-- the text of the range keys: on the ranges that occur (`s ≤ e < n`) the editor reads `key s e` back as the
range `(s, e)`, and it is not the word `all` -/
def KeyOk (n : Nat) (key : Nat → Nat → String) : Prop :=
  ∀ s e, s ≤ e → e < n → rangeTuple (key s e) = some (s, e) ∧ (key s e).toLower ≠ "all"

theorem mapSome_total (f : Rpu → Res Rpu) (hf : ∀ r, ∃ r', f r = .ok r') (l : List (Option Rpu)) :
    ∃ out, mapSome f l = .ok out := by
  induction l with
  | nil => exact ⟨[], rfl⟩
  | cons x xs ih =>
    obtain ⟨t, ht⟩ := ih
    cases x with
    | none => exact ⟨none :: t, by simp [mapSome, ht, Res.bind]⟩
    | some r =>
      obtain ⟨r', hr'⟩ := hf r
      exact ⟨some r' :: t, by simp [mapSome, ht, Res.bind, hr']⟩

theorem executeSingle_l5cfg (key : Nat → Nat → String) (cfg : List (List Int) × List (Nat × Nat × Nat)) (r : Rpu)
    (hk : ∀ kv ∈ cfg.2.map (fun (s, e, id) => (key s e, id)), kv.1.toLower ≠ "all") :
    executeSingle (l5EditorConfig key cfg) r = r.crop := by
  obtain ⟨r1, hr1⟩ := setOffsets_total r ⟨0, 0, 0, 0, 0⟩
  rw [← crop_eq_setOffsets] at hr1
  have hgo := activeAreaSingle_go_noall (presetsFrom 0 cfg.1) r1 (asMap (cfg.2.map fun (s, e, id) => (key s e, id)))
    (fun kv hkv => hk kv (asMap_sub _ _ hkv))
  simp [executeSingle, l5EditorConfig, Res.bind, activeAreaSingle, hr1, hgo]

theorem l5_replay (key : Nat → Nat → String) (l target : List Rpu) (hkey : KeyOk l.length key)
    (hlen : target.length = l.length) (hwf : ∀ r ∈ l, L5Wf r) (hv : ∀ r ∈ target, HasV29 r) :
    ∃ out, execute (l5EditorConfig key (level5Config l)) (target.map some) = .ok out ∧ out.length = l.length ∧
      ∀ (i : Nat) (r : Rpu), l[i]? = some r → ∃ r', out[i]? = some (some r') ∧ l5Of r' = l5Of r := by
  by_cases hne : l = []
  · subst hne
    have : target = [] := List.length_eq_zero_iff.mp hlen
    subst this
    exact ⟨[], by simp [execute, l5EditorConfig, level5Config, groupsFrom, mapSome, Res.bind], rfl, by simp⟩
  · obtain ⟨S1, S2⟩ := level5Config_spec l hne
    have hpos : 0 < l.length := List.length_pos_iff.mpr hne
    generalize hcfg : level5Config l = cfg at S1 S2
    -- facts about the entries of the edit object
    have F1 : ∀ kv ∈ cfg.2.map (fun (s, e, id) => (key s e, id)),
        ∃ t ∈ cfg.2, kv = (key t.1 t.2.1, t.2.2) ∧ rangeTuple kv.1 = some (t.1, t.2.1) ∧ kv.1.toLower ≠ "all" := by
      intro kv hkv
      obtain ⟨⟨s, e, id⟩, ht, rfl⟩ := List.mem_map.mp hkv
      obtain ⟨a1, a2, _⟩ := S1 _ ht
      exact ⟨_, ht, rfl, (hkey s e a1 a2).1, (hkey s e a1 a2).2⟩
    have hnoall : ∀ kv ∈ cfg.2.map (fun (s, e, id) => (key s e, id)), kv.1.toLower ≠ "all" :=
      fun kv hkv => by obtain ⟨_, _, _, _, h⟩ := F1 kv hkv; exact h
    -- pass 1: every frame is cropped
    obtain ⟨m, hm⟩ := mapSome_total (executeSingle (l5EditorConfig key cfg))
      (fun r => by rw [executeSingle_l5cfg key cfg r hnoall, crop_eq_setOffsets]; exact setOffsets_total _ _)
      (target.map some)
    have hm1 := mapSome_spec _ 0 _ _ hm
    have hml : m.length = l.length := by rw [hm1.1]; simp [hlen]
    -- pass 2: the ranges
    obtain ⟨out, hout⟩ := activeAreaRanges_total (presetsFrom 0 cfg.1)
      (asMap (cfg.2.map fun (s, e, id) => (key s e, id))) m (by
        intro kv hkv _
        obtain ⟨t, ht, heq, hr, _⟩ := F1 kv (asMap_sub _ _ hkv)
        obtain ⟨a1, a2, a3⟩ := S1 t ht
        obtain ⟨r, _, hr2⟩ := a3 t.1 (Nat.le_refl _) a1
        refine ⟨t.1, t.2.1, presetOf t.2.2 (l5Of r), hr, a1, by omega, ?_⟩
        have := presetsFrom_find 0 t.2.2 cfg.1
        simp only [Nat.zero_add] at this
        rw [heq]; simp only
        rw [this, hr2]; rfl)
    have hout1 := activeAreaRanges_spec _ _ _ _ hout
    have hnonempty : (cfg.2.map fun (s, e, id) => (key s e, id)).isEmpty = false := by
      obtain ⟨t, ht, _⟩ := S2 0 hpos
      cases hc : cfg.2 with
      | nil => rw [hc] at ht; cases ht
      | cons _ _ => rfl
    refine ⟨out, ?_, by rw [hout1.1, hml], ?_⟩
    · simp only [execute, l5EditorConfig] at hm ⊢
      simp only [Res.bind, hm, hnonempty, hout, if_true, Bool.false_eq_true, if_false]
    · intro i r hr
      have hi : i < l.length := (List.getElem?_eq_some_iff.mp hr).1
      have hit : i < target.length := by omega
      have htr : (target.map some)[i]? = some (some target[i]) := by simp [hit]
      obtain ⟨y, hy, hly⟩ := hm1.2 i _ htr
      obtain ⟨r1, hr1, rfl⟩ := hly
      simp only at hr1
      rw [executeSingle_l5cfg key cfg _ hnoall, crop_eq_setOffsets] at hr1
      have hv1 : HasV29 r1 := (setOffsets_l5 _ _ _ (hv _ (List.getElem_mem hit)) hr1).2
      obtain ⟨z, hz, hlz⟩ := hout1.2 i _ hy
      obtain ⟨r', hr', rfl⟩ := hlz
      simp only [Nat.zero_add] at hr'
      refine ⟨r', hz, ?_⟩
      refine (aaFrame_l5 (presetsFrom 0 cfg.1) i (l5Of r) _ ?_ r1 r' hv1 hr' (Or.inr ?_)).1
      · intro kv hkv hcov p hp
        obtain ⟨t, ht, hkv2, hrt, _⟩ := F1 kv (asMap_sub _ _ hkv)
        obtain ⟨_, s, e, hse, h1, h2⟩ := hcov
        rw [hrt] at hse
        injection hse with hse; injection hse with e1 e2
        subst e1; subst e2
        obtain ⟨_, _, a3⟩ := S1 t ht
        obtain ⟨r2, hr2, hp2⟩ := a3 i h1 h2
        rw [hr] at hr2; injection hr2 with hr2; subst hr2
        have := presetsFrom_find 0 t.2.2 cfg.1
        simp only [Nat.zero_add, hp2, Option.map_some] at this
        rw [hkv2] at hp; simp only at hp
        rw [this] at hp; injection hp with hp; subst hp
        exact presetOf_vals _ _ (hwf r (List.mem_of_getElem? hr))
      · obtain ⟨t, ht, b1, b2⟩ := S2 i hi
        have hmem : (key t.1 t.2.1, t.2.2) ∈ cfg.2.map (fun (s, e, id) => (key s e, id)) :=
          List.mem_map.mpr ⟨t, ht, rfl⟩
        obtain ⟨y, hy, hk⟩ := asMap_key _ _ hmem
        obtain ⟨a1, a2, _⟩ := S1 t ht
        simp only at hk
        refine ⟨y, hy, ?_, t.1, t.2.1, ?_, b1, b2⟩
        · rw [hk]; exact (hkey _ _ a1 a2).2
        · rw [hk]; exact (hkey _ _ a1 a2).1

/-! ## scene list -/

/-- the frame is a scene cut: it has DM data with `scene_refresh_flag = 1` -/
def isCut (r : Rpu) : Bool :=
  match r.vdr_dm_data with
  | some d => d.scene_refresh_flag == 1
  | none => false

/-- frame `i` of the list exists and is a scene cut -/
def cutAt (l : List Rpu) (i : Nat) : Bool :=
  match l[i]? with
  | some r => isCut r
  | none => false

theorem scenes_aux (i : Nat) (l : List Rpu) :
    ((List.range' i l.length).zip l).filterMap (fun (x : Nat × Rpu) =>
        match x.2.vdr_dm_data with
        | some d => if d.scene_refresh_flag == 1 then some x.1 else none
        | none => none)
      = (List.range' i l.length).filter fun j => cutAt l (j - i) := by
  induction l generalizing i with
  | nil => simp
  | cons r rs ih =>
    have htail : (List.range' (i + 1) rs.length).filter (fun j => cutAt (r :: rs) (j - i)) =
        (List.range' (i + 1) rs.length).filter (fun j => cutAt rs (j - (i + 1))) := by
      apply List.filter_congr
      intro j hj
      have hj' : i + 1 ≤ j := (List.mem_range'_1.mp hj).1
      have : j - i = (j - (i + 1)) + 1 := by omega
      simp [cutAt, this]
    simp only [List.length_cons, List.range'_succ, List.zip_cons_cons, List.filterMap_cons, List.filter_cons,
      Nat.sub_self]
    rw [htail, ← ih (i + 1)]
    cases hd : r.vdr_dm_data with
    | none => simp [cutAt, isCut, hd]
    | some d =>
      by_cases hf : (d.scene_refresh_flag == 1) = true
      · simp [cutAt, isCut, hd, hf]
      · simp [cutAt, isCut, hd, hf]

theorem scenes_eq_filter (l : List Rpu) : scenes l = (List.range l.length).filter (cutAt l) := by
  have := scenes_aux 0 l
  simp only [Nat.sub_zero] at this
  rw [List.range_eq_range']
  unfold scenes
  rw [List.range_eq_range']
  exact this

/-! ## the editor model never panics before encoding -/

theorem replaceBlock_np (d : DmData) (b : Block) : d.replaceBlock b ≠ .panic := by
  unfold DmData.replaceBlock
  split
  · split
    · simp
    · split <;> simp
  · split
    · simp
    · unfold DmData.replaceLevel DmData.addBlock
      split
      · simp
      · split
        · simp
        · apply bind_ne_panic
          · unfold Container.addBlock; split <;> simp
          · intros; simp

theorem replaceBlocks_np (d : DmData) (bs : List Block) : d.replaceBlocks bs ≠ .panic := by
  induction bs generalizing d with
  | nil => simp [DmData.replaceBlocks]
  | cons b bs ih =>
    simp only [DmData.replaceBlocks]
    exact bind_ne_panic (replaceBlock_np d b) (fun d' _ => ih d')

theorem withDm_np (r : Rpu) (f : DmData → Res DmData) (hf : ∀ d, f d ≠ .panic) : withDm r f ≠ .panic := by
  unfold withDm
  split
  · simp
  · exact bind_ne_panic (hf _) (by intros; simp)

theorem setOffsets_np (r : Rpu) (p : Preset) : setOffsets r p ≠ .panic :=
  withDm_np _ _ (fun d => replaceBlock_np d _)

theorem crop_np (r : Rpu) : r.crop ≠ .panic := by rw [crop_eq_setOffsets]; exact setOffsets_np _ _

theorem replaceIfDm_np (r : Rpu) (b : Block) (a : Bool) : replaceIfDm r b a ≠ .panic := by
  unfold replaceIfDm
  split
  · simp
  · exact bind_ne_panic (replaceBlock_np _ _) (by intros; simp)

theorem convertToMel_np (r : Rpu) : r.convertToMel ≠ .panic := by
  unfold Rpu.convertToMel
  simp only
  split
  · simp
  · split
    · simp
    · split <;> simp

theorem convertWithMode_np (r : Rpu) (m : Mode) : r.convertWithMode m ≠ .panic := by
  unfold Rpu.convertWithMode
  cases m <;> simp only [] <;> (repeat' split) <;>
    first
    | (simp; done)
    | exact bind_ne_panic (convertToMel_np _) (by intros; simp)

theorem activeAreaSingle_go_np (ps : List Preset) (r : Rpu) (edits : List (String × Nat)) :
    activeAreaSingle.go ps r edits ≠ .panic := by
  induction edits generalizing r with
  | nil => simp [activeAreaSingle.go]
  | cons kv rest ih =>
    obtain ⟨k, id⟩ := kv
    simp only [activeAreaSingle.go]
    split
    · split
      · exact bind_ne_panic (setOffsets_np _ _) (fun r' _ => ih r')
      · simp
    · exact ih r

theorem activeAreaSingle_np (c : Config) (r : Rpu) : activeAreaSingle c r ≠ .panic := by
  unfold activeAreaSingle
  apply bind_ne_panic
  · split
    · exact crop_np r
    · simp
  · intro r1 _
    apply bind_ne_panic
    · split
      · simp
      · simp only
        (repeat' split) <;> simp
    · intro r2 _
      split
      · exact activeAreaSingle_go_np _ _ _
      · simp

theorem executeSingle_np (c : Config) (r : Rpu) : executeSingle c r ≠ .panic := by
  unfold executeSingle
  apply bind_ne_panic (by split <;> simp); intro r _
  apply bind_ne_panic (by split; exact convertWithMode_np _ _; simp); intro r _
  apply bind_ne_panic (by split <;> simp); intro r _
  apply bind_ne_panic (by split <;> simp); intro r _
  apply bind_ne_panic (by split; exact replaceIfDm_np _ _ _; simp); intro r _
  apply bind_ne_panic (by split; exact replaceIfDm_np _ _ _; simp); intro r _
  apply bind_ne_panic (by split; exact replaceIfDm_np _ _ _; simp); intro r _
  apply bind_ne_panic (by split; exact replaceIfDm_np _ _ _; simp); intro r _
  apply bind_ne_panic (by split <;> simp); intro r _
  split
  · exact activeAreaSingle_np c r
  · simp

theorem removeFrames_np (rs : List String) (l : List (Option Rpu)) : removeFrames rs l ≠ .panic := by
  induction rs generalizing l with
  | nil => simp [removeFrames]
  | cons r rest ih =>
    unfold removeFrames
    (repeat' split) <;> first | (simp; done) | exact ih _

theorem mapSome_np (f : Rpu → Res Rpu) (hf : ∀ r, f r ≠ .panic) (l : List (Option Rpu)) :
    mapSome f l ≠ .panic := by
  induction l with
  | nil => simp [mapSome]
  | cons x xs ih =>
    cases x with
    | none => exact bind_ne_panic ih (by intros; simp)
    | some r => exact bind_ne_panic (hf r) (fun _ _ => bind_ne_panic ih (by intros; simp))

theorem mapRange_go_np (f : Rpu → Res Rpu) (hf : ∀ r, f r ≠ .panic) (a b i : Nat) (l : List (Option Rpu)) :
    mapRange.go f a b i l ≠ .panic := by
  induction l generalizing i with
  | nil => simp [mapRange.go]
  | cons x xs ih =>
    simp only [mapRange.go]
    apply bind_ne_panic
    · split
      · split
        · exact bind_ne_panic (hf _) (by intros; simp)
        · simp
      · simp
    · intro _ _
      exact bind_ne_panic (ih _) (by intros; simp)

theorem sceneCutRanges_np (edits : List (String × Bool)) (l : List (Option Rpu)) :
    sceneCutRanges edits l ≠ .panic := by
  induction edits generalizing l with
  | nil => simp [sceneCutRanges]
  | cons kv rest ih =>
    obtain ⟨k, v⟩ := kv
    unfold sceneCutRanges
    split
    · exact ih l
    · split
      · simp
      · split
        · simp
        · split
          · simp
          · refine bind_ne_panic (mapRange_go_np _ ?_ _ _ _ _) (fun m _ => ih m)
            intro r; split <;> simp

theorem activeAreaRanges_np (ps : List Preset) (edits : List (String × Nat)) (l : List (Option Rpu)) :
    activeAreaRanges ps edits l ≠ .panic := by
  induction edits generalizing l with
  | nil => simp [activeAreaRanges]
  | cons kv rest ih =>
    obtain ⟨k, id⟩ := kv
    unfold activeAreaRanges
    split
    · exact ih l
    · split
      · simp
      · split
        · simp
        · split
          · simp
          · split
            · simp
            · exact bind_ne_panic (mapRange_go_np _ (fun r => setOffsets_np r _) _ _ _ _) (fun m _ => ih m)

theorem replaceLevelsFrom_go_np (sd d : DmData) (ls : List Nat) : Rpu.replaceLevelsFrom.go sd d ls ≠ .panic := by
  induction ls generalizing d with
  | nil => simp [Rpu.replaceLevelsFrom.go]
  | cons l ls ih =>
    simp only [Rpu.replaceLevelsFrom.go]
    exact bind_ne_panic (replaceBlocks_np _ _) (fun d' _ => ih d')

theorem replaceLevelsFrom_np (r s : Rpu) (ls : List Nat) : r.replaceLevelsFrom s ls ≠ .panic := by
  unfold Rpu.replaceLevelsFrom
  split
  · simp
  · split
    · exact bind_ne_panic (replaceLevelsFrom_go_np _ _ _) (by intros; simp)
    · simp

theorem replaceFromSource_np (lv : List Nat) (l : List (Option Rpu)) (src : List Rpu) :
    replaceFromSource lv l src ≠ .panic := by
  induction l generalizing src with
  | nil => simp [replaceFromSource]
  | cons x xs ih =>
    cases x with
    | none => exact bind_ne_panic (ih _) (by intros; simp)
    | some r =>
      cases src with
      | nil => exact bind_ne_panic (ih _) (by intros; simp)
      | cons s src =>
        exact bind_ne_panic (replaceLevelsFrom_np _ _ _) (fun _ _ => bind_ne_panic (ih _) (by intros; simp))

/-- **no panic**: the editor model before encoding (`EditConfig::execute`) never panics -/
theorem execute_np (c : Config) (l : List (Option Rpu)) : execute c l ≠ .panic := by
  unfold execute
  apply bind_ne_panic (by split; exact removeFrames_np _ _; simp); intro l _
  apply bind_ne_panic (mapSome_np _ (executeSingle_np c) _); intro l _
  apply bind_ne_panic (by split; exact sceneCutRanges_np _ _; simp); intro l _
  apply bind_ne_panic
  · (repeat' split) <;> first | (simp; done) | exact activeAreaRanges_np _ _ _
  · intro l _
    (repeat' split) <;> first | (simp; done) | exact replaceFromSource_np _ _ _

theorem duplicateAll_np (dups : List (Nat × Nat × Nat)) (data : List Bytes) : duplicateAll dups data ≠ .panic := by
  induction dups generalizing data with
  | nil => simp [duplicateAll]
  | cons d rest ih =>
    obtain ⟨s, o, n⟩ := d
    unfold duplicateAll
    split
    · simp
    · exact ih _

theorem encodeAll_panic (l : List (Option Rpu)) (h : encodeAll l = .panic) :
    ∃ r, some r ∈ l ∧ writeRpu r = .panic := by
  induction l with
  | nil => simp [encodeAll] at h
  | cons x xs ih =>
    cases x with
    | none =>
      obtain ⟨r, hr, hw⟩ := ih (by simpa [encodeAll] using h)
      exact ⟨r, List.mem_cons_of_mem _ hr, hw⟩
    | some r =>
      simp only [encodeAll] at h
      rcases bind_eq_panic h with h1 | ⟨o, _, h2⟩
      · exact ⟨r, by simp, h1⟩
      · rcases bind_eq_panic h2 with h3 | ⟨t, _, h4⟩
        · obtain ⟨r', hr', hw⟩ := ih h3
          exact ⟨r', List.mem_cons_of_mem _ hr', hw⟩
        · cases h4

/-- the whole editor can only panic inside the RPU writer, on a frame it is about to write -/
theorem edit_panic (c : Config) (rpus : List Rpu) (h : edit c rpus = .panic) :
    ∃ out r, execute c (rpus.map some) = .ok out ∧ some r ∈ out ∧ writeRpu r = .panic := by
  unfold edit at h
  rcases bind_eq_panic h with h1 | ⟨out, ho, h2⟩
  · exact absurd h1 (execute_np _ _)
  · rcases bind_eq_panic h2 with h3 | ⟨data, _, h4⟩
    · obtain ⟨r, hr, hw⟩ := encodeAll_panic out h3
      exact ⟨out, r, ho, hr, hw⟩
    · split at h4
      · exact absurd h4 (duplicateAll_np _ _)
      · cases h4

/-! ## frame accounting -/

/-- the pass kept the present / removed pattern -/
abbrev SameShape (_ : Nat) (x y : Option Rpu) : Prop := y.isSome = x.isSome

theorem PW.shape_of_lift {g : Nat → Rpu → Res Rpu} {l out : List (Option Rpu)} (h : PW (Lift g) l out) :
    PW SameShape l out := h.mono (fun _ _ _ _ hl => hl.isSome)

theorem replaceFromSource_shape (lv : List Nat) (i : Nat) (l out : List (Option Rpu)) (src : List Rpu)
    (h : replaceFromSource lv l src = .ok out) : PWo i SameShape l out := by
  induction l generalizing src out i with
  | nil => simp [replaceFromSource] at h; subst h; exact PWo.nil _ _
  | cons x xs ih =>
    cases x with
    | none =>
      simp only [replaceFromSource, bind_ok_iff] at h
      obtain ⟨t, ht, h2⟩ := h
      injection h2 with h2; subst h2
      exact PWo.cons rfl (ih _ _ _ ht)
    | some r =>
      cases src with
      | nil =>
        simp only [replaceFromSource, bind_ok_iff] at h
        obtain ⟨t, ht, h2⟩ := h
        injection h2 with h2; subst h2
        exact PWo.cons rfl (ih _ _ _ ht)
      | cons s src =>
        simp only [replaceFromSource, bind_ok_iff] at h
        obtain ⟨r', _, t, ht, h2⟩ := h
        injection h2 with h2; subst h2
        exact PWo.cons rfl (ih _ _ _ ht)

/-- `execute` keeps the list length; a position is empty afterwards iff it was empty or is listed in `remove` -/
theorem execute_shape (c : Config) (l out : List (Option Rpu)) (h : execute c l = .ok out) :
    PW (fun j x y => y.isSome = (x.isSome && !removed (c.remove.getD []) j)) l out := by
  unfold execute at h
  simp only [bind_ok_iff] at h
  obtain ⟨l1, h1, l2, h2, l3, h3, l4, h4, h5⟩ := h
  have p1 : PW (fun j x y => y.isSome = (x.isSome && !removed (c.remove.getD []) j)) l l1 := by
    cases hrs : c.remove with
    | some rs =>
      simp only [hrs] at h1
      refine (removeFrames_spec rs l l1 h1).mono ?_
      intro j x y _ hy
      simp only [Option.getD_some]
      rw [hy]; cases removed rs j <;> simp
    | none =>
      simp only [hrs] at h1
      injection h1 with h1; subst h1
      exact (PW.refl l).mono (by intro j x y _ hy; rw [hy]; simp [removed])
  have p2 : PW SameShape l1 l2 := PW.shape_of_lift (mapSome_spec _ 0 _ _ h2)
  have p3 : PW SameShape l2 l3 := by
    split at h3
    · exact PW.shape_of_lift (sceneCutRanges_spec _ _ _ h3)
    · injection h3 with h3; subst h3; exact (PW.refl _).mono (by intro _ _ _ _ hy; rw [hy])
  have p4 : PW SameShape l3 l4 := by
    have hrefl : ∀ m, Res.ok l3 = Res.ok m → PW SameShape l3 m := by
      intro m hm; injection hm with hm; subst hm
      exact (PW.refl _).mono (by intro _ _ _ _ hy; rw [hy])
    split at h4
    · split at h4
      · split at h4
        · exact hrefl _ h4
        · split at h4
          · exact PW.shape_of_lift (activeAreaRanges_spec _ _ _ _ h4)
          · exact hrefl _ h4
      · exact hrefl _ h4
    · exact hrefl _ h4
  have p5 : PW SameShape l4 out := by
    split at h5
    · injection h5 with h5; subst h5; exact (PW.refl _).mono (by intro _ _ _ _ hy; rw [hy])
    · split at h5
      · cases h5
      · split at h5
        · cases h5
        · exact replaceFromSource_shape _ 0 _ _ _ h5
  refine ((((p1.trans p2).trans p3).trans p4).trans p5).mono ?_
  intro j x y _ ⟨y4, ⟨y3, ⟨y2, ⟨y1, a1, a2⟩, a3⟩, a4⟩, a5⟩
  simp only [SameShape] at a2 a3 a4 a5
  rw [a5, a4, a3, a2, a1]

theorem encodeAll_length (l : List (Option Rpu)) (data : List Bytes) (h : encodeAll l = .ok data) :
    data.length = l.countP Option.isSome := by
  induction l generalizing data with
  | nil => simp [encodeAll] at h; subst h; rfl
  | cons x xs ih =>
    cases x with
    | none => simpa [encodeAll] using ih data (by simpa [encodeAll] using h)
    | some r =>
      simp only [encodeAll, bind_ok_iff] at h
      obtain ⟨o, _, t, ht, h2⟩ := h
      injection h2 with h2; subst h2
      simp [ih t ht]

/-- number of `duplicate` copies requested -/
def dupTotal : List (Nat × Nat × Nat) → Nat
  | [] => 0
  | (_, _, len) :: t => len + dupTotal t

theorem dupTotal_append (a b : List (Nat × Nat × Nat)) : dupTotal (a ++ b) = dupTotal a + dupTotal b := by
  induction a with
  | nil => simp [dupTotal]
  | cons x xs ih => obtain ⟨s, o, n⟩ := x; simp [dupTotal, ih]; omega

theorem dupTotal_reverse (a : List (Nat × Nat × Nat)) : dupTotal a.reverse = dupTotal a := by
  induction a with
  | nil => rfl
  | cons x xs ih => obtain ⟨s, o, n⟩ := x; simp [dupTotal_append, dupTotal, ih]; omega

theorem dupTotal_insertDup (d : Nat × Nat × Nat) (l : List (Nat × Nat × Nat)) :
    dupTotal (insertDup d l) = d.2.2 + dupTotal l := by
  induction l with
  | nil => obtain ⟨s, o, n⟩ := d; simp [insertDup, dupTotal]
  | cons x xs ih =>
    obtain ⟨s, o, n⟩ := d; obtain ⟨s', o', n'⟩ := x
    simp only [insertDup]
    split
    · simp only [dupTotal, ih]; omega
    · simp [dupTotal]

theorem dupTotal_sortDups (l : List (Nat × Nat × Nat)) : dupTotal (sortDups l) = dupTotal l := by
  unfold sortDups
  rw [dupTotal_reverse]
  induction l with
  | nil => rfl
  | cons x xs ih =>
    obtain ⟨s, o, n⟩ := x
    simp only [List.foldr_cons, dupTotal_insertDup, ih, dupTotal]

theorem duplicateAll_length (dups : List (Nat × Nat × Nat)) (data out : List Bytes)
    (h : duplicateAll dups data = .ok out) : out.length = data.length + dupTotal dups := by
  induction dups generalizing data with
  | nil => simp [duplicateAll] at h; subst h; simp [dupTotal]
  | cons d rest ih =>
    obtain ⟨s, o, n⟩ := d
    unfold duplicateAll at h
    split at h
    · cases h
    · rename_i hc
      have ho : o ≤ data.length := by simp at hc; exact hc.2
      rw [ih _ h]
      simp only [List.length_append, List.length_take, List.length_replicate, List.length_drop, dupTotal]
      omega

/-- number of distinct in-range positions listed in `remove` -/
def removedCount (rs : List String) (n : Nat) : Nat := ((List.range n).filter (removed rs)).length

theorem removedCount_le (rs : List String) (n : Nat) : removedCount rs n ≤ n := by
  unfold removedCount
  calc _ ≤ (List.range n).length := List.length_filter_le _ _
    _ = n := List.length_range

theorem countP_shape (rs : List String) (rpus : List Rpu) (out : List (Option Rpu))
    (h : PW (fun j x y => y.isSome = (x.isSome && !removed rs j)) (rpus.map some) out) :
    out.countP Option.isSome + removedCount rs rpus.length = rpus.length := by
  have hlen : out.length = rpus.length := by rw [h.1]; simp
  have hmap : out.map Option.isSome = (List.range rpus.length).map (fun j => !removed rs j) := by
    apply List.ext_getElem?
    intro j
    by_cases hj : j < rpus.length
    · have : (rpus.map some)[j]? = some (some rpus[j]) := by simp [hj]
      obtain ⟨y, hy, hs⟩ := h.2 j _ this
      simp only [Nat.zero_add, Option.isSome_some, Bool.true_and] at hs
      simp [hy, hs, hj]
    · have h1 : out.length ≤ j := by omega
      simp [h1, hj]
  have h1 : out.countP Option.isSome = (List.range rpus.length).countP (fun j => !removed rs j) := by
    have := congrArg (List.countP (fun b => b)) hmap
    simpa [List.countP_map, Function.comp_def] using this
  have h2 := List.length_eq_countP_add_countP (removed rs) (l := List.range rpus.length)
  simp only [List.length_range] at h2
  rw [h1, removedCount, ← List.countP_eq_length_filter]
  have h3 : List.countP (fun j => !removed rs j) (List.range rpus.length) =
      List.countP (fun a => decide ¬removed rs a = true) (List.range rpus.length) := by
    apply List.countP_congr; intro a _; simp
  omega

/-- **frame accounting**: a successful edit writes `input − removed + duplicated` NALs -/
theorem edit_length_add (c : Config) (rpus : List Rpu) (out : List Bytes) (h : edit c rpus = .ok out) :
    out.length + removedCount (c.remove.getD []) rpus.length = rpus.length + dupTotal (c.duplicate.getD []) := by
  unfold edit at h
  simp only [bind_ok_iff] at h
  obtain ⟨l1, h1, data, h2, h3⟩ := h
  have hs := countP_shape _ rpus l1 (execute_shape c _ _ h1)
  have hd := encodeAll_length _ _ h2
  cases hdup : c.duplicate with
  | none =>
    simp only [hdup] at h3
    injection h3 with h3; subst h3
    simp only [Option.getD_none, dupTotal]
    omega
  | some d =>
    simp only [hdup] at h3
    have := duplicateAll_length _ _ _ h3
    rw [dupTotal_sortDups] at this
    simp only [Option.getD_some]
    omega

/-! ## frame-local semantics of `execute` -/

/-- the range key `k` is a range entry (not `all`) whose inclusive range contains `j` -/
def coversKey (k : String) (j : Nat) : Prop :=
  k.toLower ≠ "all" ∧ ∃ s e, rangeTuple k = some (s, e) ∧ s ≤ j ∧ j ≤ e

theorem covers_iff (kv : String × Nat) (j : Nat) : covers kv j ↔ coversKey kv.1 j := Iff.rfl

/-- the scene-cut entries as the tool holds them (a map: key order, later duplicates win) -/
def scEdits (c : Config) : List (String × Bool) :=
  match c.sceneCuts with
  | some e => asMap e
  | none => []

/-- the active-area range entries that the list-wide pass applies -/
def aaEditsOf (c : Config) : List (String × Nat) :=
  if c.hasActiveArea then
    match c.aaEdits, c.presets with
    | some e, some _ => asMap e
    | _, _ => []
  else []

def presetsOf (c : Config) : List Preset := c.presets.getD []

theorem asMap_isEmpty {α} (e : List (String × α)) (h : e.isEmpty = true) : asMap e = [] := by
  cases e with
  | nil => rfl
  | cons _ _ => simp at h

/-- what `execute` does to the present frame at position `j` (config without `source_rpu`): the per-frame
operations, then every covering scene-cut entry, then every covering active-area entry -/
def frameSem (c : Config) (j : Nat) (r : Rpu) : Res Rpu :=
  (executeSingle c r).bind fun r => aaFrame (presetsOf c) (aaEditsOf c) j (scFrame (scEdits c) j r)

/-- **frame-local semantics of the editor** (no `source_rpu`): the result has the input's length; position `j` is
empty iff it was empty or is listed in `remove`; otherwise it holds `frameSem c j` of the input frame -/
theorem execute_frame (c : Config) (hsrc : c.source = none) (l out : List (Option Rpu))
    (h : execute c l = .ok out) :
    PW (fun j x y => if removed (c.remove.getD []) j then y = none else Lift (frameSem c) j x y) l out := by
  unfold execute at h
  rw [hsrc] at h
  simp only [bind_ok_iff] at h
  obtain ⟨l1, h1, l2, h2, l3, h3, l4, h4, h5⟩ := h
  injection h5 with h5; subst h5
  have p1 : PW (fun j x y => y = if removed (c.remove.getD []) j then none else x) l l1 := by
    cases hrs : c.remove with
    | some rs => simp only [hrs] at h1; exact removeFrames_spec rs l l1 h1
    | none =>
      simp only [hrs] at h1
      injection h1 with h1; subst h1
      exact (PW.refl l).mono (by intro j x y _ hy; rw [hy]; simp [removed])
  have p2 := mapSome_spec _ 0 _ _ h2
  have h3' : sceneCutRanges (scEdits c) l2 = .ok l3 := by
    unfold scEdits
    cases hs : c.sceneCuts with
    | none => simp only [hs] at h3 ⊢; simpa [sceneCutRanges] using h3
    | some e => simp only [hs] at h3 ⊢; exact h3
  have h4' : activeAreaRanges (presetsOf c) (aaEditsOf c) l3 = .ok l4 := by
    unfold aaEditsOf presetsOf
    cases ha : c.hasActiveArea with
    | false => simp only [ha] at h4 ⊢; simpa [activeAreaRanges] using h4
    | true =>
      cases he : c.aaEdits with
      | none => simp only [ha, he] at h4 ⊢; simpa [activeAreaRanges] using h4
      | some e =>
        cases hp : c.presets with
        | none =>
          simp only [ha, he, hp] at h4 ⊢
          cases hem : e.isEmpty <;> simp only [hem] at h4 <;> simpa [activeAreaRanges] using h4
        | some ps =>
          simp only [ha, he, hp, if_true] at h4 ⊢
          by_cases hem : e.isEmpty = true
          · simp only [hem, if_true] at h4
            simpa [asMap_isEmpty e hem, activeAreaRanges] using h4
          · simp only [hem] at h4
            simpa using h4
  have p3 := sceneCutRanges_spec _ _ _ h3'
  have p4 := activeAreaRanges_spec _ _ _ _ h4'
  refine (((PW.trans p1 p2).trans p3).trans p4).mono ?_
  intro j x y _ ⟨y3, ⟨y2, ⟨y1, a1, a2⟩, a3⟩, a4⟩
  have a23 := Lift.comp (Lift.comp a2 a3) a4
  by_cases hr : removed (c.remove.getD []) j = true
  · simp only [hr, if_true] at a1 ⊢
    subst a1
    simpa [Lift] using a23
  · simp only [hr, Bool.false_eq_true, if_false] at a1 ⊢
    subst a1
    cases y1 with
    | none => simpa [Lift] using a23
    | some r =>
      obtain ⟨r', hr', rfl⟩ := a23
      refine ⟨r', ?_, rfl⟩
      rw [← hr']
      unfold frameSem
      cases hes : executeSingle c r <;> simp [Res.bind, hes]

theorem scFrame_nocover (edits : List (String × Bool)) (j : Nat) (r : Rpu)
    (h : ∀ kv ∈ edits, ¬ coversKey kv.1 j) : scFrame edits j r = r := by
  induction edits with
  | nil => rfl
  | cons kv rest ih =>
    obtain ⟨k, v⟩ := kv
    have ih' := ih (fun kv hkv => h kv (List.mem_cons_of_mem _ hkv))
    unfold scFrame
    split
    · exact ih'
    · rename_i hk
      split
      · exact ih'
      · rename_i s e ht
        have : ¬ (s ≤ j ∧ j ≤ e) := fun hin =>
          h (k, v) (by simp) ⟨by simpa using hk, s, e, ht, hin.1, hin.2⟩
        simp only [this, if_false]
        exact ih'

theorem aaFrame_nocover (ps : List Preset) (edits : List (String × Nat)) (j : Nat) (r r' : Rpu)
    (h : ∀ kv ∈ edits, ¬ coversKey kv.1 j) (hr : aaFrame ps edits j r = .ok r') : r' = r := by
  induction edits with
  | nil => simp [aaFrame] at hr; exact hr.symm
  | cons kv rest ih =>
    obtain ⟨k, id⟩ := kv
    have ih' := ih (fun kv hkv => h kv (List.mem_cons_of_mem _ hkv))
    unfold aaFrame at hr
    split at hr
    · exact ih' hr
    · rename_i hk
      split at hr
      · cases hr
      · rename_i s e ht
        split at hr
        · cases hr
        · have : ¬ (s ≤ j ∧ j ≤ e) := fun hin =>
            h (k, id) (by simp) ⟨by simpa using hk, s, e, ht, hin.1, hin.2⟩
          simp only [this, if_false] at hr
          exact ih' hr

/-! ## configs without per-frame global options -/

/-- the config has no option that applies to every frame: only `remove`, range-keyed scene cuts, range-keyed
active-area edits, `duplicate` (and possibly `source_rpu`) -/
structure Plain (c : Config) : Prop where
  mode : c.mode = 0
  removeCmv4 : c.removeCmv4 = false
  removeMapping : c.removeMapping = false
  minPq : c.minPq = none
  maxPq : c.maxPq = none
  level6 : c.level6 = none
  level9 : c.level9 = none
  level11 : c.level11 = none
  level255 : c.level255 = none
  crop : c.crop = false
  dropL5 : c.dropL5 = none
  scNoAll : ∀ e, c.sceneCuts = some e → ∀ kv ∈ e, kv.1.toLower ≠ "all"
  aaNoAll : ∀ e, c.aaEdits = some e → ∀ kv ∈ e, kv.1.toLower ≠ "all"

theorem foldl_id_of {β} (f : Rpu → β → Rpu) (P : β → Prop) (hf : ∀ r e, P e → f r e = r) (edits : List β)
    (h : ∀ e ∈ edits, P e) (r : Rpu) : edits.foldl f r = r := by
  induction edits with
  | nil => rfl
  | cons e rest ih =>
    simp only [List.foldl_cons, hf r e (h e (by simp))]
    exact ih (fun e he => h e (List.mem_cons_of_mem _ he))

theorem executeSingle_plain (c : Config) (hp : Plain c) (r : Rpu) : executeSingle c r = .ok r := by
  have hsc : ∀ e, c.sceneCuts = some e → ∀ kv ∈ asMap e, kv.1.toLower ≠ "all" :=
    fun e he kv hkv => hp.scNoAll e he kv (asMap_sub _ _ hkv)
  have haa : ∀ e, c.aaEdits = some e → ∀ kv ∈ asMap e, kv.1.toLower ≠ "all" :=
    fun e he kv hkv => hp.aaNoAll e he kv (asMap_sub _ _ hkv)
  have hact : activeAreaSingle c r = .ok r := by
    unfold activeAreaSingle
    simp only [hp.crop, hp.dropL5, Res.bind, Bool.false_eq_true, if_false]
    cases hps : c.presets with
    | none => rfl
    | some ps =>
      cases hes : c.aaEdits with
      | none => rfl
      | some e => exact activeAreaSingle_go_noall ps r (asMap e) (haa e hes)
  unfold executeSingle
  simp only [hp.removeCmv4, hp.mode, hp.minPq, hp.maxPq, hp.removeMapping, hp.level6, hp.level9, hp.level11,
    hp.level255, Res.bind, Bool.false_eq_true, if_false, Nat.lt_irrefl, Option.isSome_none, Bool.or_self, gt_iff_lt]
  cases hs : c.sceneCuts with
  | none => simp only; split <;> first | exact hact | rfl
  | some e =>
    simp only
    rw [foldl_id_of _ (fun (kv : String × Bool) => kv.1.toLower ≠ "all") ?_ _ (hsc e hs)]
    · split <;> first | exact hact | rfl
    · intro r kv hkv
      simp only [beq_iff_eq, hkv, if_false]

/-! ## positions in the written file -/

/-- the NAL written for a frame -/
def nalOf (o : Bytes) : Bytes := 0x7C :: 0x01 :: Esc.escape o

theorem encodeAll_get (l : List (Option Rpu)) (data : List Bytes) (h : encodeAll l = .ok data) (j : Nat) (r : Rpu)
    (hj : l[j]? = some (some r)) :
    ∃ o, writeRpu r = .ok o ∧ data[(l.take j).countP Option.isSome]? = some (nalOf o) := by
  induction l generalizing data j with
  | nil => simp at hj
  | cons x xs ih =>
    cases x with
    | none =>
      cases j with
      | zero => simp at hj
      | succ j =>
        have h' : encodeAll xs = .ok data := by simpa [encodeAll] using h
        obtain ⟨o, ho, hd⟩ := ih data h' j (by simpa using hj)
        exact ⟨o, ho, by simpa using hd⟩
    | some r0 =>
      simp only [encodeAll, bind_ok_iff] at h
      obtain ⟨o0, ho0, t, ht, h2⟩ := h
      injection h2 with h2; subst h2
      cases j with
      | zero =>
        simp at hj; subst hj
        exact ⟨o0, ho0, by simp [nalOf]⟩
      | succ j =>
        obtain ⟨o, ho, hd⟩ := ih t ht j (by simpa using hj)
        refine ⟨o, ho, ?_⟩
        simp only [List.take_succ_cons, List.countP_cons, Option.isSome_some, if_true]
        simpa using hd

theorem PW.take {R : Nat → Option Rpu → Option Rpu → Prop} {l out : List (Option Rpu)} (h : PW R l out) (n : Nat) :
    PW R (l.take n) (out.take n) := by
  refine ⟨by simp [h.1], ?_⟩
  intro j x hx
  rw [List.getElem?_take] at hx
  split at hx
  · rename_i hjn
    obtain ⟨y, hy, hr⟩ := h.2 j x hx
    exact ⟨y, by rw [List.getElem?_take]; simp [hjn, hy], hr⟩
  · cases hx

/-- number of present frames before position `j` after `execute` = `j` minus the removed positions before `j` -/
theorem countP_take_shape (rs : List String) (rpus : List Rpu) (out : List (Option Rpu))
    (h : PW (fun j x y => y.isSome = (x.isSome && !removed rs j)) (rpus.map some) out) (j : Nat)
    (hj : j ≤ rpus.length) : (out.take j).countP Option.isSome + removedCount rs j = j := by
  have := countP_shape rs (rpus.take j) (out.take j) (by simpa [List.map_take] using h.take j)
  simpa [List.length_take, Nat.min_eq_left hj] using this

/-- one `duplicate` entry: positions before `off` stay, `len` copies follow, the rest moves up by `len` -/
theorem splice_get (data : List Bytes) (off len : Nat) (s : Bytes) (p : Nat) (ho : off ≤ data.length) :
    (data.take off ++ List.replicate len s ++ data.drop off)[p]? =
      if p < off then data[p]? else if p < off + len then some s else data[p - len]? := by
  by_cases h1 : p < off
  · simp only [h1, if_true]
    rw [List.append_assoc, List.getElem?_append_left (by simp; omega), List.getElem?_take]
    simp [h1]
  · simp only [h1, if_false]
    by_cases h2 : p < off + len
    · simp only [h2, if_true]
      rw [List.getElem?_append_left (by simp; omega), List.getElem?_append_right (by simp; omega)]
      simp only [List.length_take, Nat.min_eq_left ho]
      rw [List.getElem?_replicate]; simp; omega
    · simp only [h2, if_false]
      rw [List.getElem?_append_right (by simp; omega)]
      simp only [List.length_append, List.length_take, Nat.min_eq_left ho, List.length_replicate, List.getElem?_drop]
      congr 1; omega

/-! ## one range entry: exactly the frames `a..b` -/

theorem bind_total {α β} {x : Res α} {f : α → Res β} (hx : ∃ a, x = .ok a) (hf : ∀ a, ∃ b, f a = .ok b) :
    ∃ b, x.bind f = .ok b := by
  obtain ⟨a, rfl⟩ := hx
  exact hf a

theorem sceneCutRanges_single (k : String) (v : Bool) (a b : Nat) (l : List (Option Rpu))
    (hk : k.toLower ≠ "all") (ht : rangeTuple k = some (a, b)) (hab : a ≤ b) (hb : b < l.length) :
    ∃ out, sceneCutRanges [(k, v)] l = .ok out ∧ out.length = l.length ∧
      ∀ (j : Nat) (x : Option Rpu), l[j]? = some x →
        out[j]? = some (if a ≤ j ∧ j ≤ b then x.map (setCut v) else x) := by
  have hb' : ¬ b ≥ l.length := by omega
  have hex : ∃ m, sceneCutRanges [(k, v)] l = .ok m := by
    unfold sceneCutRanges
    simp only [beq_iff_eq, hk, if_false, ht, hb', hab, Bool.not_true, Bool.false_eq_true, decide_true]
    apply bind_total
    · exact mapRange_go_total _ (fun r => by split <;> exact ⟨_, rfl⟩) a b 0 l
    · intro m; exact ⟨m, rfl⟩
  obtain ⟨m, hrun⟩ := hex
  have hs := sceneCutRanges_spec _ _ _ hrun
  refine ⟨m, hrun, hs.1, ?_⟩
  intro j x hx
  obtain ⟨y, hy, hl⟩ := hs.2 j x hx
  rw [hy]
  cases x with
  | none => simp [Lift] at hl; subst hl; simp
  | some r =>
    obtain ⟨r', hr', rfl⟩ := hl
    simp only [Nat.zero_add, scFrame, beq_iff_eq, hk, if_false, ht] at hr'
    injection hr' with hr'; subst hr'
    by_cases hin : a ≤ j ∧ j ≤ b <;> simp [hin]

theorem activeAreaRanges_single (ps : List Preset) (k : String) (id : Nat) (p : Preset) (a b : Nat)
    (l : List (Option Rpu)) (hk : k.toLower ≠ "all") (ht : rangeTuple k = some (a, b)) (hab : a ≤ b)
    (hb : b < l.length) (hp : ps.find? (fun p => p.id == id) = some p) :
    ∃ out, activeAreaRanges ps [(k, id)] l = .ok out ∧ out.length = l.length ∧
      ∀ (j : Nat) (x : Option Rpu), l[j]? = some x →
        (¬ (a ≤ j ∧ j ≤ b) → out[j]? = some x) ∧
        (a ≤ j ∧ j ≤ b → x = none → out[j]? = some none) ∧
        (a ≤ j ∧ j ≤ b → ∀ r, x = some r → ∃ r', setOffsets r p = .ok r' ∧ out[j]? = some (some r')) := by
  obtain ⟨out, hrun⟩ := activeAreaRanges_total ps [(k, id)] l (by
    intro kv hkv _
    simp only [List.mem_singleton] at hkv; subst hkv
    exact ⟨a, b, p, ht, hab, hb, hp⟩)
  have hs := activeAreaRanges_spec _ _ _ _ hrun
  refine ⟨out, hrun, hs.1, ?_⟩
  intro j x hx
  obtain ⟨y, hy, hl⟩ := hs.2 j x hx
  rw [hy]
  cases x with
  | none => simp [Lift] at hl; subst hl; simp
  | some r =>
    obtain ⟨r', hr', rfl⟩ := hl
    simp only [Nat.zero_add, aaFrame, beq_iff_eq, hk, if_false, ht, hp] at hr'
    by_cases hin : a ≤ j ∧ j ≤ b
    · simp only [hin, and_self, if_true, bind_ok_iff] at hr'
      obtain ⟨r1, hr1, h2⟩ := hr'
      injection h2 with h2; subst h2
      refine ⟨?_, ?_, ?_⟩
      · intro h; exact absurd hin h
      · intro _ h; cases h
      · intro _ r0 h0; injection h0 with h0; subst h0
        exact ⟨r1, hr1, rfl⟩
    · simp only [hin, if_false] at hr'
      injection hr' with hr'; subst hr'
      refine ⟨fun _ => rfl, ?_, ?_⟩
      · intro h; exact absurd h hin
      · intro h; exact absurd h hin

end Dovi.EditGenProof

/-!
# Part 2 — helper lemmas for C10 (generator): keyed block replacement, precedence, frame structure
-/
namespace Dovi.EditGenProof.Gen
open Dovi Dovi.Gen

/-! ## `Res.bind` -/

theorem bind_ok_iff {α β} (x : Res α) (f : α → Res β) (b : β) :
    x.bind f = .ok b ↔ ∃ a, x = .ok a ∧ f a = .ok b := by
  cases x <;> simp [Res.bind]

theorem bind_panic_iff {α β} (x : Res α) (f : α → Res β) :
    x.bind f = .panic ↔ x = .panic ∨ ∃ a, x = .ok a ∧ f a = .panic := by
  cases x <;> simp [Res.bind]

/-! ## keys -/

/-- levels whose blocks are addressed by (level, first value): L2 target_max_pq, L8/L10 target display index -/
def keyed (lv : Nat) : Bool := lv == 2 || lv == 8 || lv == 10

/-- two blocks occupy the same slot: same level and, for keyed levels, same first value -/
def sameKey (a b : Block) : Bool :=
  a.level == b.level && (!keyed a.level || a.vals.getD 0 0 == b.vals.getD 0 0)

theorem sameKey_refl (a : Block) : sameKey a a = true := by simp [sameKey]

theorem sameKey_level {a b : Block} (h : sameKey a b = true) : a.level = b.level := by
  simp only [sameKey, Bool.and_eq_true, beq_iff_eq] at h; exact h.1

theorem sameKey_symm (a b : Block) : sameKey a b = sameKey b a := by
  rw [Bool.eq_iff_iff]
  simp only [sameKey, Bool.and_eq_true, beq_iff_eq, Bool.or_eq_true, Bool.not_eq_true']
  constructor
  · rintro ⟨h1, h2⟩; rw [h1] at h2; exact ⟨h1.symm, h2.imp id Eq.symm⟩
  · rintro ⟨h1, h2⟩; rw [h1] at h2; exact ⟨h1.symm, h2.imp id Eq.symm⟩

theorem sameKey_trans {a b c : Block} (h1 : sameKey a b = true) (h2 : sameKey b c = true) :
    sameKey a c = true := by
  simp only [sameKey, Bool.and_eq_true, beq_iff_eq, Bool.or_eq_true, Bool.not_eq_true'] at *
  obtain ⟨l1, k1⟩ := h1
  obtain ⟨l2, k2⟩ := h2
  refine ⟨l1.trans l2, ?_⟩
  rw [← l1] at k2
  rcases k1 with k1 | k1
  · exact .inl k1
  · rcases k2 with k2 | k2
    · exact .inl k2
    · exact .inr (k1.trans k2)

/-- `sameKey x` and `sameKey y` are the same predicate when `x`, `y` have the same key -/
theorem sameKey_congr {x y : Block} (h : sameKey x y = true) (z : Block) : sameKey x z = sameKey y z := by
  rw [Bool.eq_iff_iff]
  constructor
  · intro h1; exact sameKey_trans (by rw [sameKey_symm]; exact h) h1
  · intro h1; exact sameKey_trans h h1

theorem sameKey_false_of_level {a b : Block} (h : a.level ≠ b.level) : sameKey a b = false := by
  simp [sameKey, h]

theorem sameKey_unkeyed {a b : Block} (h : keyed a.level = false) : sameKey a b = (a.level == b.level) := by
  simp [sameKey, h]

/-! ## sorting is a permutation -/

theorem insertSorted_perm (b : Block) (l : List Block) : (insertSorted b l).Perm (b :: l) := by
  induction l with
  | nil => exact .refl _
  | cons x xs ih =>
    simp only [insertSorted]
    split
    · exact (List.Perm.cons x ih).trans (List.Perm.swap b x xs)
    · exact .refl _

theorem sortBlocks_perm (l : List Block) : (sortBlocks l).Perm l := by
  induction l with
  | nil => exact .refl _
  | cons x xs ih =>
    have : sortBlocks (x :: xs) = insertSorted x (sortBlocks xs) := rfl
    rw [this]
    exact (insertSorted_perm x _).trans (List.Perm.cons x ih)

/-! ## no two blocks with the same key -/

/-- no two blocks of the list share a key -/
def NoDup (l : List Block) : Prop := l.Pairwise (fun a b => sameKey a b = false)

theorem NoDup.perm {l₁ l₂ : List Block} (p : l₁.Perm l₂) : NoDup l₁ ↔ NoDup l₂ :=
  List.Perm.pairwise_iff (fun {x y} h => by rw [sameKey_symm]; exact h) p

theorem noDup_sort (l : List Block) : NoDup (sortBlocks l) ↔ NoDup l := NoDup.perm (sortBlocks_perm l)

/-- in a duplicate-free list a key determines the block -/
theorem NoDup.unique {l : List Block} (hu : NoDup l) {x y : Block} (hx : x ∈ l) (hy : y ∈ l)
    (h : sameKey x y = true) : x = y := by
  induction l with
  | nil => cases hx
  | cons z zs ih =>
    rw [NoDup, List.pairwise_cons] at hu
    rcases List.mem_cons.1 hx with rfl | hx'
    · rcases List.mem_cons.1 hy with rfl | hy'
      · rfl
      · rw [hu.1 y hy'] at h; cases h
    · rcases List.mem_cons.1 hy with rfl | hy'
      · rw [sameKey_symm, hu.1 x hx'] at h; cases h
      · exact ih hu.2 hx' hy'

/-- upsert in a duplicate-free list -/
theorem rfop_spec (b : Block) (p : Block → Bool) (hp : ∀ x, p x = sameKey b x) (l : List Block)
    (hu : NoDup l) :
    NoDup (replaceFirstOrPush p b l) ∧
    ∀ x, x ∈ replaceFirstOrPush p b l ↔ x = b ∨ (x ∈ l ∧ sameKey b x = false) := by
  induction l with
  | nil => simp [replaceFirstOrPush, NoDup]
  | cons y ys ih =>
    rw [NoDup, List.pairwise_cons] at hu
    obtain ⟨hy, hys⟩ := hu
    simp only [replaceFirstOrPush]
    split
    · rename_i hpy
      rw [hp] at hpy
      have hb : ∀ z ∈ ys, sameKey b z = false := by
        intro z hz
        cases hbz : sameKey b z with
        | false => rfl
        | true =>
          have := sameKey_trans (by rw [sameKey_symm]; exact hpy) hbz
          rw [hy z hz] at this; cases this
      refine ⟨?_, ?_⟩
      · rw [NoDup, List.pairwise_cons]; exact ⟨hb, hys⟩
      · intro x
        simp only [List.mem_cons]
        constructor
        · rintro (h | h)
          · exact .inl h
          · exact .inr ⟨.inr h, hb x h⟩
        · rintro (h | ⟨h | h, hk⟩)
          · exact .inl h
          · subst h; rw [hpy] at hk; cases hk
          · exact .inr h
    · rename_i hpy
      rw [hp] at hpy
      simp only [Bool.not_eq_true] at hpy
      obtain ⟨ih1, ih2⟩ := ih hys
      refine ⟨?_, ?_⟩
      · rw [NoDup, List.pairwise_cons]
        refine ⟨?_, ih1⟩
        intro z hz
        rcases (ih2 z).1 hz with rfl | ⟨hz', _⟩
        · rw [sameKey_symm]; exact hpy
        · exact hy z hz'
      · intro x
        simp only [List.mem_cons, ih2]
        constructor
        · rintro (h | h | ⟨h, hk⟩)
          · subst h; exact .inr ⟨.inl rfl, hpy⟩
          · exact .inl h
          · exact .inr ⟨.inr h, hk⟩
        · rintro (h | ⟨h | h, hk⟩)
          · exact .inr (.inl h)
          · exact .inl h
          · exact .inr (.inr ⟨h, hk⟩)

/-- keyed upsert of a container -/
theorem replaceKeyed_spec (c : Container) (b : Block) (hk : keyed b.level = true) (hu : NoDup c.blocks) :
    NoDup (c.replaceKeyed b).blocks ∧
    ∀ x, x ∈ (c.replaceKeyed b).blocks ↔ x = b ∨ (x ∈ c.blocks ∧ sameKey b x = false) := by
  have hp : ∀ x : Block, (x.level == b.level && x.vals.getD 0 0 == b.vals.getD 0 0) = sameKey b x := by
    intro x
    rw [sameKey_symm]
    simp only [sameKey]
    by_cases hl : x.level = b.level
    · simp [hl, hk]
    · have hf : (x.level == b.level) = false := by simpa using hl
      simp only [hf, Bool.false_and]
  obtain ⟨h1, h2⟩ := rfop_spec b _ hp c.blocks hu
  simp only [Container.replaceKeyed, Container.update]
  refine ⟨(noDup_sort _).2 h1, ?_⟩
  intro x
  rw [C12.mem_sortBlocks]; exact h2 x

/-- level replacement (remove all of the level, append) of a block list, for un-keyed levels -/
theorem replaceLevel_spec (l : List Block) (b : Block) (hk : keyed b.level = false) (hu : NoDup l) :
    NoDup (sortBlocks (sortBlocks (l.filter (fun x => x.level != b.level)) ++ [b])) ∧
    ∀ x, x ∈ sortBlocks (sortBlocks (l.filter (fun x => x.level != b.level)) ++ [b]) ↔
      x = b ∨ (x ∈ l ∧ sameKey b x = false) := by
  have hperm : (sortBlocks (sortBlocks (l.filter (fun x => x.level != b.level)) ++ [b])).Perm
      (b :: l.filter (fun x => x.level != b.level)) := by
    refine (sortBlocks_perm _).trans ?_
    refine (List.perm_append_singleton _ _).trans ?_
    exact List.Perm.cons b (sortBlocks_perm _)
  have hs : ∀ x : Block, sameKey b x = false ↔ x.level ≠ b.level := by
    intro x; rw [sameKey_unkeyed hk]; simp only [beq_eq_false_iff_ne, ne_eq]
    exact ⟨fun h e => h e.symm, fun h e => h e.symm⟩
  refine ⟨(NoDup.perm hperm).2 ?_, ?_⟩
  · rw [NoDup, List.pairwise_cons]
    refine ⟨?_, List.Pairwise.filter _ hu⟩
    intro z hz
    rw [hs]; simpa using (List.mem_filter.1 hz).2
  · intro x
    rw [hperm.mem_iff, List.mem_cons, List.mem_filter, hs]; simp

/-! ## DmData level -/

theorem get_set (d : DmData) (w w' : Which) (c : Container) :
    (d.set w c).get w' = if w' = w then some c else d.get w' := by
  cases w <;> cases w' <;> simp [DmData.set, DmData.get]

theorem set_set (d : DmData) (w : Which) (c1 c2 : Container) : (d.set w c1).set w c2 = d.set w c2 := by
  cases w <;> rfl

theorem which_allowed {lv : Nat} {w : Which} (h : whichContainer lv = some w) :
    (allowedOf w).contains lv = true := by
  unfold whichContainer at h
  split at h
  · cases h; assumption
  · split at h
    · cases h; assumption
    · cases h

/-- every present container is duplicate-free (no two blocks with the same (level, target) key) -/
def Uniq (d : DmData) : Prop := ∀ w c, d.get w = some c → NoDup c.blocks

/-- the container that stores blocks of level `lv` exists -/
def holds (d : DmData) (lv : Nat) : Prop := ∃ w c, whichContainer lv = some w ∧ d.get w = some c

/-- everything of the DM data except the contents of the present containers -/
def shell (d : DmData) : DmData :=
  { d with cmv29 := d.cmv29.map fun _ => {}, cmv40 := d.cmv40.map fun _ => {} }

theorem shell_set (d : DmData) (w : Which) (c c0 : Container) (h : d.get w = some c0) :
    shell (d.set w c) = shell d := by
  cases w <;> simp only [DmData.get] at h <;> simp [shell, DmData.set, h]

theorem mem_levelBlocks (d : DmData) (x : Block) (lv : Nat) :
    x ∈ d.levelBlocks lv ↔
      ∃ w c, whichContainer lv = some w ∧ d.get w = some c ∧ x ∈ c.blocks ∧ x.level = lv := by
  unfold DmData.levelBlocks
  cases hw : whichContainer lv with
  | none => simp
  | some w =>
    cases hc : d.get w with
    | none => simp [hc]
    | some c => simp [hc, List.mem_filter]

theorem holds_of_mem {d : DmData} {x : Block} {lv : Nat} (h : x ∈ d.levelBlocks lv) : holds d lv := by
  obtain ⟨w, c, h1, h2, _⟩ := (mem_levelBlocks d x lv).1 h
  exact ⟨w, c, h1, h2⟩

/-- the two possible outcomes of a successful `replace_metadata_block` -/
theorem replaceBlock_cases (d d' : DmData) (b : Block) (hu : Uniq d) (h : d.replaceBlock b = .ok d') :
    (∃ w c c', whichContainer b.level = some w ∧ d.get w = some c ∧ d' = d.set w c' ∧
        NoDup c'.blocks ∧ ∀ x, x ∈ c'.blocks ↔ x = b ∨ (x ∈ c.blocks ∧ sameKey b x = false))
    ∨ (d' = d ∧ ¬ holds d b.level) := by
  unfold DmData.replaceBlock at h
  split at h
  · rename_i hk
    cases hw : whichContainer b.level with
    | none => simp [hw] at h
    | some w =>
      cases hc : d.get w with
      | none => simp [hw, hc] at h
      | some c =>
        simp only [hw, hc, Res.ok.injEq] at h
        obtain ⟨h1, h2⟩ := replaceKeyed_spec c b (by simpa [keyed] using hk) (hu w c hc)
        exact .inl ⟨w, c, _, rfl, hc, h.symm, h1, h2⟩
  · rename_i hk
    have hk' : keyed b.level = false := by simpa [keyed] using hk
    split at h
    · cases h
    · unfold DmData.replaceLevel DmData.removeLevel at h
      cases hw : whichContainer b.level with
      | none =>
        simp only [hw, DmData.addBlock, Res.ok.injEq] at h
        refine .inr ⟨h.symm, ?_⟩
        rintro ⟨w, c, h1, _⟩; rw [hw] at h1; cases h1
      | some w =>
        cases hc : d.get w with
        | none =>
          simp only [hw, hc, DmData.addBlock, Res.ok.injEq] at h
          refine .inr ⟨h.symm, ?_⟩
          rintro ⟨w', c, h1, h2⟩; rw [hw] at h1; cases h1; rw [hc] at h2; cases h2
        | some c =>
          simp only [hw, hc, DmData.addBlock, get_set, if_true, Container.addBlock, which_allowed hw,
            Res.bind, set_set, Res.ok.injEq] at h
          obtain ⟨h1, h2⟩ := replaceLevel_spec c.blocks b hk' (hu w c hc)
          exact .inl ⟨w, c, _, rfl, hc, h.symm, h1, h2⟩

theorem replaceBlock_shell (d d' : DmData) (b : Block) (hu : Uniq d) (h : d.replaceBlock b = .ok d') :
    shell d' = shell d := by
  rcases replaceBlock_cases d d' b hu h with ⟨w, c, c', _, hc, rfl, _⟩ | ⟨rfl, _⟩
  · exact shell_set d w c' c hc
  · rfl

theorem replaceBlock_uniq (d d' : DmData) (b : Block) (hu : Uniq d) (h : d.replaceBlock b = .ok d') :
    Uniq d' := by
  rcases replaceBlock_cases d d' b hu h with ⟨w, c, c', _, hc, rfl, hn, _⟩ | ⟨rfl, _⟩
  · intro w' c'' hg
    rw [get_set] at hg
    split at hg
    · cases hg; exact hn
    · exact hu w' c'' hg
  · exact hu

theorem replaceBlock_holds (d d' : DmData) (b : Block) (hu : Uniq d) (h : d.replaceBlock b = .ok d')
    (lv : Nat) : holds d' lv ↔ holds d lv := by
  rcases replaceBlock_cases d d' b hu h with ⟨w, c, c', _, hc, rfl, _⟩ | ⟨rfl, _⟩
  · unfold holds
    constructor
    · rintro ⟨w', c'', h1, h2⟩
      rw [get_set] at h2
      split at h2
      · rename_i e; subst e; exact ⟨w', c, h1, hc⟩
      · exact ⟨w', c'', h1, h2⟩
    · rintro ⟨w', c'', h1, h2⟩
      by_cases e : w' = w
      · subst e; exact ⟨w', c', h1, by rw [get_set]; simp⟩
      · exact ⟨w', c'', h1, by rw [get_set]; simp [e, h2]⟩
  · exact Iff.rfl

/-- **one override**: after replacing with `b`, the blocks are `b` (if its container exists) and the
old blocks with a different key -/
theorem replaceBlock_mem (d d' : DmData) (b : Block) (hu : Uniq d) (h : d.replaceBlock b = .ok d')
    (x : Block) :
    x ∈ d'.levelBlocks x.level ↔
      (holds d x.level ∧ x = b) ∨ (sameKey b x = false ∧ x ∈ d.levelBlocks x.level) := by
  rcases replaceBlock_cases d d' b hu h with ⟨w, c, c', hw, hc, rfl, _, hm⟩ | ⟨rfl, hn⟩
  · simp only [mem_levelBlocks, holds, get_set]
    constructor
    · rintro ⟨w', c'', h1, h2, h3, _⟩
      split at h2
      · rename_i e; subst e; cases h2
        rcases (hm x).1 h3 with rfl | ⟨h4, h5⟩
        · exact .inl ⟨⟨w', c, hw, hc⟩, rfl⟩
        · exact .inr ⟨h5, w', c, h1, hc, h4, trivial⟩
      · rename_i e
        refine .inr ⟨?_, w', c'', h1, h2, h3, trivial⟩
        apply sameKey_false_of_level
        intro hl; rw [hl, h1] at hw; cases hw; exact e rfl
    · rintro (⟨_, rfl⟩ | ⟨h5, w', c'', h1, h2, h3, _⟩)
      · exact ⟨w, c', hw, by simp, (hm x).2 (.inl rfl), trivial⟩
      · by_cases e : w' = w
        · subst e; rw [hc] at h2; cases h2
          exact ⟨w', c', h1, by simp, (hm x).2 (.inr ⟨h3, h5⟩), trivial⟩
        · exact ⟨w', c'', h1, by simp [e, h2], h3, trivial⟩
  · constructor
    · intro hx
      refine .inr ⟨?_, hx⟩
      cases hs : sameKey b x with
      | false => rfl
      | true =>
        exfalso; apply hn; rw [sameKey_level hs]; exact holds_of_mem hx
    · rintro (⟨hh, rfl⟩ | ⟨_, hx⟩)
      · exact absurd hh hn
      · exact hx

/-! ## a list of overrides: the last block with a key wins -/

theorem all_not_iff_find_none (bs : List Block) (x : Block) :
    bs.all (fun b => !sameKey b x) = true ↔ bs.reverse.find? (sameKey x) = none := by
  rw [List.find?_eq_none, List.all_eq_true]
  constructor
  · intro h y hy; rw [sameKey_symm]; simpa using h y (List.mem_reverse.1 hy)
  · intro h y hy; have := h y (List.mem_reverse.2 hy); rw [sameKey_symm] at this; simpa using this

theorem lastWins_cons (b : Block) (bs : List Block) (x : Block) :
    (b :: bs).reverse.find? (sameKey x) = some x ↔
      bs.reverse.find? (sameKey x) = some x ∨ (bs.all (fun b => !sameKey b x) = true ∧ x = b) := by
  rw [all_not_iff_find_none, List.reverse_cons, List.find?_append]
  cases hf : List.find? (sameKey x) bs.reverse with
  | some y => simp
  | none =>
    simp only [Option.none_or, List.find?_cons, List.find?_nil, reduceCtorEq, false_or, true_and]
    constructor
    · intro h; split at h
      · cases h; rfl
      · cases h
    · rintro rfl; simp [sameKey_refl]

theorem lastWins_mem {bs : List Block} {x y : Block} (h : bs.reverse.find? (sameKey x) = some y) :
    y ∈ bs ∧ sameKey x y = true := by
  have h1 := List.mem_of_find?_eq_some h
  have h2 := List.find?_some h
  exact ⟨List.mem_reverse.1 h1, h2⟩

/-- **a list of overrides**: the last block of `bs` with a given key wins, untouched keys keep the old block -/
theorem replaceBlocks_spec (bs : List Block) : ∀ (d d' : DmData), Uniq d → d.replaceBlocks bs = .ok d' →
    Uniq d' ∧ shell d' = shell d ∧ (∀ lv, holds d' lv ↔ holds d lv) ∧
    ∀ x, x ∈ d'.levelBlocks x.level ↔
      (holds d x.level ∧ bs.reverse.find? (sameKey x) = some x) ∨
      (bs.all (fun b => !sameKey b x) = true ∧ x ∈ d.levelBlocks x.level) := by
  induction bs with
  | nil =>
    intro d d' hu h
    simp only [DmData.replaceBlocks, Res.ok.injEq] at h
    subst h
    exact ⟨hu, rfl, fun _ => Iff.rfl, fun x => by simp⟩
  | cons b bs ih =>
    intro d d' hu h
    simp only [DmData.replaceBlocks, bind_ok_iff] at h
    obtain ⟨d1, h1, h2⟩ := h
    have hu1 := replaceBlock_uniq d d1 b hu h1
    obtain ⟨i1, i2, i3, i4⟩ := ih d1 d' hu1 h2
    have hh := replaceBlock_holds d d1 b hu h1
    refine ⟨i1, i2.trans (replaceBlock_shell d d1 b hu h1), fun lv => (i3 lv).trans (hh lv), ?_⟩
    intro x
    rw [i4 x, replaceBlock_mem d d1 b hu h1 x, hh, lastWins_cons, List.all_cons]
    simp only [Bool.and_eq_true, Bool.not_eq_true']
    constructor
    · rintro (⟨a, b⟩ | ⟨a, ⟨b, c⟩ | ⟨b, c⟩⟩)
      · exact .inl ⟨a, .inl b⟩
      · exact .inl ⟨b, .inr ⟨a, c⟩⟩
      · exact .inr ⟨⟨b, a⟩, c⟩
    · rintro (⟨a, b | ⟨b, c⟩⟩ | ⟨⟨a, b⟩, c⟩)
      · exact .inl ⟨a, b⟩
      · exact .inr ⟨b, .inl ⟨a, c⟩⟩
      · exact .inr ⟨b, .inr ⟨a, c⟩⟩

/-- under `Uniq` a key determines the block of the DM data -/
theorem levelBlocks_unique {d : DmData} (hu : Uniq d) {x y : Block}
    (hx : x ∈ d.levelBlocks x.level) (hy : y ∈ d.levelBlocks y.level) (h : sameKey x y = true) : x = y := by
  obtain ⟨w, c, h1, h2, h3, _⟩ := (mem_levelBlocks d x _).1 hx
  obtain ⟨w', c', h1', h2', h3', _⟩ := (mem_levelBlocks d y _).1 hy
  rw [sameKey_level h, h1'] at h1; cases h1
  rw [h2'] at h2; cases h2
  exact (hu w c h2').unique h3 h3' h

/-! ## two layers of overrides -/

theorem bind_assoc {α β γ} (x : Res α) (f : α → Res β) (g : β → Res γ) :
    (x.bind f).bind g = x.bind fun a => (f a).bind g := by
  cases x <;> rfl

theorem replaceBlocks_append (l1 l2 : List Block) (d : DmData) :
    d.replaceBlocks (l1 ++ l2) = (d.replaceBlocks l1).bind fun d1 => d1.replaceBlocks l2 := by
  induction l1 generalizing d with
  | nil => simp [DmData.replaceBlocks, Res.bind]
  | cons b bs ih =>
    simp only [List.cons_append, DmData.replaceBlocks, bind_assoc]
    congr; funext d1; exact ih d1

/-- **two layers**: `l2` applied after `l1`; `l2` wins over `l1`, which wins over the old blocks -/
theorem replaceBlocks2_spec (l1 l2 : List Block) (d d1 d2 : DmData) (hu : Uniq d)
    (h1 : d.replaceBlocks l1 = .ok d1) (h2 : d1.replaceBlocks l2 = .ok d2) :
    Uniq d2 ∧ shell d2 = shell d ∧ (∀ lv, holds d2 lv ↔ holds d lv) ∧
    ∀ x, x ∈ d2.levelBlocks x.level ↔
      (holds d x.level ∧ l2.reverse.find? (sameKey x) = some x) ∨
      (l2.all (fun b => !sameKey b x) = true ∧ holds d x.level ∧ l1.reverse.find? (sameKey x) = some x) ∨
      (l2.all (fun b => !sameKey b x) = true ∧ l1.all (fun b => !sameKey b x) = true ∧
        x ∈ d.levelBlocks x.level) := by
  obtain ⟨a1, a2, a3, a4⟩ := replaceBlocks_spec l1 d d1 hu h1
  obtain ⟨b1, b2, b3, b4⟩ := replaceBlocks_spec l2 d1 d2 a1 h2
  refine ⟨b1, b2.trans a2, fun lv => (b3 lv).trans (a3 lv), ?_⟩
  intro x
  rw [b4 x, a4 x, a3]
  constructor
  · rintro (h | ⟨n2, h | h⟩)
    · exact .inl h
    · exact .inr (.inl ⟨n2, h⟩)
    · exact .inr (.inr ⟨n2, h⟩)
  · rintro (h | ⟨n2, h⟩ | ⟨n2, h⟩)
    · exact .inl h
    · exact .inr ⟨n2, .inl h⟩
    · exact .inr ⟨n2, .inr h⟩

/-- a present block stays present (possibly replaced by a block with the same key) -/
theorem replaceBlocks_present (bs : List Block) (d d' : DmData) (hu : Uniq d)
    (h : d.replaceBlocks bs = .ok d') (x0 : Block) (hx : x0 ∈ d.levelBlocks x0.level) :
    ∃ x, x ∈ d'.levelBlocks x.level ∧ sameKey x0 x = true := by
  obtain ⟨_, _, _, hm⟩ := replaceBlocks_spec bs d d' hu h
  cases hf : bs.reverse.find? (sameKey x0) with
  | none =>
    exact ⟨x0, (hm x0).2 (.inr ⟨(all_not_iff_find_none bs x0).2 hf, hx⟩), sameKey_refl x0⟩
  | some y =>
    obtain ⟨_, hs⟩ := lastWins_mem hf
    refine ⟨y, (hm y).2 (.inl ⟨?_, ?_⟩), hs⟩
    · rw [← sameKey_level hs]; exact holds_of_mem hx
    · rw [← hf]
      have : sameKey y = sameKey x0 := by
        funext z; exact (sameKey_congr hs z).symm
      rw [this]

/-! ## the base DM data (`from_generate_config`) -/

/-- the L254 block every CM v4.0 container starts with -/
def l254 : Block := { level := 254, length := 2, vals := [0, 2] }

/-- the static blocks of `set_static_metadata`, in the order they are applied -/
def statics (c : Config) : List Block :=
  [{ level := 5, length := 7, vals := c.level5.map Int.ofNat }] ++
  (match c.level6 with
   | some v => [{ level := 6, length := 8, vals := v.map Int.ofNat }]
   | none => []) ++
  [{ level := 9, length := 1, vals := [0, 0, 0, 0, 0, 0, 0, 0, 0] },
   { level := 11, length := 4, vals := [1, 0, 1, 0, 0] }]

/-- the config's default blocks that are applied (L5 / L6 defaults are ignored) -/
def defaultBlocks (c : Config) : List Block := c.defaults.filter fun b => b.level != 5 && b.level != 6

/-- the DM data before any block is applied -/
def dmInit (c : Config) : DmData :=
  { main := dmMainOf c.profile, cmv29 := some {},
    cmv40 := if c.cmv40 then some { num_ext_blocks := 1, blocks := [l254] } else none }

theorem ok_bind {α β} (a : α) (f : α → Res β) : (Res.ok a).bind f = f a := rfl

theorem dmFromConfig_eq (c : Config) :
    dmFromConfig c = ((dmInit c).replaceBlocks (statics c ++ defaultBlocks c)).bind fun d =>
      .ok (d.changeSourceLevels c.sourceMinPq c.sourceMaxPq) := by
  rw [replaceBlocks_append]
  unfold dmFromConfig statics
  cases c.level6 <;>
    simp only [List.cons_append, List.nil_append, DmData.replaceBlocks, bind_assoc, ok_bind] <;> rfl

theorem csl_eq (d : DmData) (a b : Option Nat) :
    d.changeSourceLevels a b = { d with main := (d.changeSourceLevels a b).main } := by
  unfold DmData.changeSourceLevels
  simp only []
  split <;> rfl

theorem csl_length (d : DmData) (a b : Option Nat) :
    (d.changeSourceLevels a b).main.length = d.main.length := by
  unfold DmData.changeSourceLevels
  cases a <;> cases b <;> simp only [] <;> (repeat' split) <;> simp

theorem csl_other (d : DmData) (a b : Option Nat) (j : Nat) (h1 : j ≠ 29) (h2 : j ≠ 30) :
    (d.changeSourceLevels a b).main[j]? = d.main[j]? := by
  have h1' : ¬ 29 = j := fun h => h1 h.symm
  have h2' : ¬ 30 = j := fun h => h2 h.symm
  unfold DmData.changeSourceLevels
  cases a <;> cases b <;> simp only [] <;> (repeat' split) <;> simp [h1', h2']

theorem csl_min (d : DmData) (v : Nat) (b : Option Nat) (h : 29 < d.main.length) :
    (d.changeSourceLevels (some v) b).main[29]? = some (v : Int) := by
  unfold DmData.changeSourceLevels
  cases b <;> simp only [] <;> (repeat' split) <;> simp [h] <;> simp_all

theorem csl_max (d : DmData) (a : Option Nat) (v : Nat) (h : 30 < d.main.length) :
    (d.changeSourceLevels a (some v)).main[30]? = some (v : Int) := by
  unfold DmData.changeSourceLevels
  cases a <;> simp only [] <;> (repeat' split) <;> simp [h] <;> simp_all

theorem csl_get (d : DmData) (a b : Option Nat) (w : Which) : (d.changeSourceLevels a b).get w = d.get w := by
  rw [csl_eq]; cases w <;> rfl

theorem csl_levelBlocks (d : DmData) (a b : Option Nat) (lv : Nat) :
    (d.changeSourceLevels a b).levelBlocks lv = d.levelBlocks lv := by
  unfold DmData.levelBlocks; simp only [csl_get]

theorem csl_holds (d : DmData) (a b : Option Nat) (lv : Nat) :
    holds (d.changeSourceLevels a b) lv ↔ holds d lv := by
  unfold holds; simp only [csl_get]

theorem csl_uniq (d : DmData) (a b : Option Nat) : Uniq (d.changeSourceLevels a b) ↔ Uniq d := by
  unfold Uniq; simp only [csl_get]

theorem csl_shell (d : DmData) (a b : Option Nat) :
    shell (d.changeSourceLevels a b) = { shell d with main := (d.changeSourceLevels a b).main } := by
  rw [csl_eq]; rfl

theorem uniq_dmInit (c : Config) : Uniq (dmInit c) := by
  intro w k h
  cases w
  · simp only [dmInit, DmData.get, Option.some.injEq] at h; subst h; exact List.Pairwise.nil
  · simp only [dmInit, DmData.get] at h
    split at h
    · cases h; exact List.pairwise_singleton _ _
    · cases h

theorem holds_dmInit (c : Config) (lv : Nat) :
    holds (dmInit c) lv ↔ (lv ∈ cmv29Levels ∨ (c.cmv40 = true ∧ lv ∈ cmv40Levels)) := by
  unfold holds whichContainer
  by_cases h1 : lv ∈ cmv29Levels
  · simp [h1, dmInit, DmData.get]
  · by_cases h2 : lv ∈ cmv40Levels
    · cases hc : c.cmv40 <;> simp [h1, h2, dmInit, DmData.get, hc]
    · simp [h1, h2]

theorem mem_dmInit (c : Config) (x : Block) :
    x ∈ (dmInit c).levelBlocks x.level ↔ (c.cmv40 = true ∧ x = l254) := by
  rw [mem_levelBlocks]
  constructor
  · rintro ⟨w, k, h1, h2, h3, _⟩
    cases w
    · simp only [dmInit, DmData.get, Option.some.injEq] at h2; subst h2; cases h3
    · simp only [dmInit, DmData.get] at h2
      split at h2
      · cases h2; simp only [List.mem_singleton] at h3; exact ⟨by assumption, h3⟩
      · cases h2
  · rintro ⟨hc, rfl⟩
    exact ⟨.v40, { num_ext_blocks := 1, blocks := [l254] }, rfl, by simp only [dmInit, DmData.get, hc, if_true], List.mem_singleton.2 rfl, rfl⟩

theorem dmMainOf_length (p : Profile) : (dmMainOf p).length = 32 := by cases p <;> rfl

/-- **the base DM data**: default blocks win over the static blocks, which win over the initial L254 -/
theorem dmFromConfig_spec (c : Config) (dm0 : DmData) (h : dmFromConfig c = .ok dm0) :
    Uniq dm0 ∧
    (∀ lv, holds dm0 lv ↔ (lv ∈ cmv29Levels ∨ (c.cmv40 = true ∧ lv ∈ cmv40Levels))) ∧
    shell dm0 = { shell (dmInit c) with main := dm0.main } ∧
    dm0.main.length = 32 ∧
    (∀ j, j ≠ 29 → j ≠ 30 → dm0.main[j]? = (dmMainOf c.profile)[j]?) ∧
    (∀ v, c.sourceMinPq = some v → dm0.main[29]? = some (v : Int)) ∧
    (∀ v, c.sourceMaxPq = some v → dm0.main[30]? = some (v : Int)) ∧
    ∀ x, x ∈ dm0.levelBlocks x.level ↔
      (holds dm0 x.level ∧ (defaultBlocks c).reverse.find? (sameKey x) = some x) ∨
      ((defaultBlocks c).all (fun b => !sameKey b x) = true ∧ holds dm0 x.level ∧
        (statics c).reverse.find? (sameKey x) = some x) ∨
      ((defaultBlocks c).all (fun b => !sameKey b x) = true ∧ (statics c).all (fun b => !sameKey b x) = true ∧
        c.cmv40 = true ∧ x = l254) := by
  rw [dmFromConfig_eq, replaceBlocks_append] at h
  simp only [bind_assoc, bind_ok_iff, Res.ok.injEq] at h
  obtain ⟨d1, h1, d2, h2, h3⟩ := h
  obtain ⟨a1, a2, a3, a4⟩ := replaceBlocks2_spec _ _ _ _ _ (uniq_dmInit c) h1 h2
  subst h3
  have hm : d2.main = dmMainOf c.profile := by
    have := congrArg DmData.main a2
    simpa [shell, dmInit] using this
  have hlen : d2.main.length = 32 := by rw [hm, dmMainOf_length]
  refine ⟨(csl_uniq _ _ _).2 a1, ?_, ?_, ?_, ?_, ?_, ?_, ?_⟩
  · intro lv; rw [csl_holds, a3, holds_dmInit]
  · rw [csl_shell, a2]
  · rw [csl_length, hlen]
  · intro j j1 j2; rw [csl_other _ _ _ _ j1 j2, hm]
  · intro v hv; rw [hv]; exact csl_min _ _ _ (by omega)
  · intro v hv; rw [hv]; exact csl_max _ _ _ (by omega)
  · intro x
    rw [csl_levelBlocks, a4 x, mem_dmInit, csl_holds, a3]

/-! ## one frame -/

/-- the blocks of the frame edit that applies at offset `i` of the shot: those of the FIRST edit
with that offset (later edits with the same offset are ignored), none if there is no such edit -/
def editBlocks (s : Shot) (i : Nat) : List Block :=
  match s.edits.find? (fun (e : FrameEdit) => e.offset == i) with
  | some e => e.blocks
  | none => []

/-- the scene-refresh flag of the frame at offset `i` -/
def cutFlag (c : Config) (i : Nat) : Nat := if i = 0 ∨ c.longPlay = true then 1 else 0

def withFlag (d : DmData) (f : Nat) : DmData := { d with scene_refresh_flag := f }

theorem withFlag_get (d : DmData) (f : Nat) (w : Which) : (withFlag d f).get w = d.get w := by
  cases w <;> rfl

theorem frameRpu_eq (c : Config) (base : Rpu) (s : Shot) (i : Nat) (dm0 : DmData)
    (hb : base.vdr_dm_data = some dm0) (hf : dm0.scene_refresh_flag = 0) :
    frameRpu c base s i =
      ((withFlag dm0 (cutFlag c i)).replaceBlocks s.blocks).bind fun d1 =>
      (d1.replaceBlocks (editBlocks s i)).bind fun d2 => .ok { base with vdr_dm_data := some d2 } := by
  unfold frameRpu editBlocks
  simp only [hb]
  have e : (if (i == 0 || c.longPlay) = true then { dm0 with scene_refresh_flag := 1 } else dm0) =
      withFlag dm0 (cutFlag c i) := by
    unfold withFlag cutFlag
    by_cases hc : i = 0 ∨ c.longPlay = true
    · have : (i == 0 || c.longPlay) = true := by simpa using hc
      rw [if_pos this, if_pos hc]
    · have : ¬ (i == 0 || c.longPlay) = true := by simpa using hc
      rw [if_neg this, if_neg hc, ← hf]
  rw [e]
  cases List.find? (fun (e : FrameEdit) => e.offset == i) s.edits <;> rfl

/-- **one frame**: frame-edit blocks win over shot blocks, which win over the base DM's blocks;
everything else of the RPU is the base RPU's, the DM data differs only in the flag and the blocks -/
theorem frameRpu_spec (c : Config) (base : Rpu) (s : Shot) (i : Nat) (r : Rpu) (dm0 : DmData)
    (hb : base.vdr_dm_data = some dm0) (hf : dm0.scene_refresh_flag = 0) (hu : Uniq dm0)
    (h : frameRpu c base s i = .ok r) :
    ∃ d, r = { base with vdr_dm_data := some d } ∧ Uniq d ∧
      shell d = { shell dm0 with scene_refresh_flag := cutFlag c i } ∧
      (∀ lv, holds d lv ↔ holds dm0 lv) ∧
      ∀ x, x ∈ d.levelBlocks x.level ↔
        (holds dm0 x.level ∧ (editBlocks s i).reverse.find? (sameKey x) = some x) ∨
        ((editBlocks s i).all (fun b => !sameKey b x) = true ∧ holds dm0 x.level ∧
          s.blocks.reverse.find? (sameKey x) = some x) ∨
        ((editBlocks s i).all (fun b => !sameKey b x) = true ∧ s.blocks.all (fun b => !sameKey b x) = true ∧
          x ∈ dm0.levelBlocks x.level) := by
  rw [frameRpu_eq c base s i dm0 hb hf] at h
  simp only [bind_ok_iff, Res.ok.injEq] at h
  obtain ⟨d1, h1, d2, h2, h3⟩ := h
  have hu' : Uniq (withFlag dm0 (cutFlag c i)) := by
    intro w k hk; rw [withFlag_get] at hk; exact hu w k hk
  have hh : ∀ lv, holds (withFlag dm0 (cutFlag c i)) lv ↔ holds dm0 lv := by
    intro lv; unfold holds; simp only [withFlag_get]
  have hl : ∀ lv, (withFlag dm0 (cutFlag c i)).levelBlocks lv = dm0.levelBlocks lv := by
    intro lv; unfold DmData.levelBlocks; simp only [withFlag_get]
  obtain ⟨a1, a2, a3, a4⟩ := replaceBlocks2_spec _ _ _ _ _ hu' h1 h2
  refine ⟨d2, h3.symm, a1, a2, fun lv => (a3 lv).trans (hh lv), ?_⟩
  intro x
  rw [a4 x, hh, hl]

/-! ## traversal of shots and frames -/

theorem shotFrames_map {β} (G : Rpu → β) (g : Nat → β) (c : Config) (base : Rpu) (s : Shot) :
    ∀ (n i : Nat) (l : List Rpu), shotFrames c base s n i = .ok l →
      (∀ j r, i ≤ j → j < i + n → frameRpu c base s j = .ok r → G r = g j) →
      l.map G = (List.range' i n).map g := by
  intro n
  induction n with
  | zero =>
    intro i l h _
    simp only [shotFrames, Res.ok.injEq] at h; subst h; rfl
  | succ n ih =>
    intro i l h hg
    simp only [shotFrames, bind_ok_iff, Res.ok.injEq] at h
    obtain ⟨r, h1, t, h2, h3⟩ := h
    subst h3
    rw [List.range'_succ, List.map_cons, List.map_cons, hg i r (Nat.le_refl _) (by omega) h1,
      ih (i + 1) t h2 (fun j r' a b => hg j r' (by omega) (by omega))]

theorem allFrames_map {β} (G : Rpu → β) (g : Shot → Nat → β) (c : Config) (base : Rpu) :
    ∀ (shots : List Shot) (l : List Rpu), allFrames c base shots = .ok l →
      (∀ s ∈ shots, ∀ j r, j < s.duration → frameRpu c base s j = .ok r → G r = g s j) →
      l.map G = shots.flatMap fun s => (List.range s.duration).map (g s) := by
  intro shots
  induction shots with
  | nil =>
    intro l h _
    simp only [allFrames, Res.ok.injEq] at h; subst h; rfl
  | cons s rest ih =>
    intro l h hg
    simp only [allFrames, bind_ok_iff, Res.ok.injEq] at h
    obtain ⟨a, h1, b, h2, h3⟩ := h
    subst h3
    rw [List.map_append, List.flatMap_cons, List.range_eq_range',
      shotFrames_map G (g s) c base s _ _ a h1
        (fun j r _ hj => hg s (List.mem_cons_self) j r (by omega)),
      ih b h2 (fun s' hs' => hg s' (List.mem_cons_of_mem _ hs'))]

/-- the generated list is exactly the per-shot, per-offset frames, all of which succeed -/
theorem allFrames_structure (c : Config) (base : Rpu) (shots : List Shot) (l : List Rpu)
    (h : allFrames c base shots = .ok l) :
    l.map Res.ok = shots.flatMap fun s => (List.range s.duration).map (frameRpu c base s) :=
  allFrames_map Res.ok (frameRpu c base) c base shots l h (fun _ _ _ _ _ hr => hr.symm)

theorem getElem?_flatMap_range {α β} (dur : α → Nat) (g : α → Nat → β) :
    ∀ (shots : List α) (k i : Nat) (hk : k < shots.length), i < dur shots[k] →
      (shots.flatMap fun s => (List.range (dur s)).map (g s))[((shots.take k).map dur).sum + i]? =
        some (g shots[k] i) := by
  intro shots
  induction shots with
  | nil => intro k i hk; cases hk
  | cons s rest ih =>
    intro k i hk hi
    cases k with
    | zero =>
      simp only [List.getElem_cons_zero] at hi
      simp only [List.take_zero, List.map_nil, List.sum_nil, Nat.zero_add, List.flatMap_cons,
        List.getElem_cons_zero]
      rw [List.getElem?_append_left (by simpa using hi), List.getElem?_map, List.getElem?_range hi]; rfl
    | succ k =>
      simp only [List.getElem_cons_succ] at hi
      simp only [List.take_succ_cons, List.map_cons, List.sum_cons, List.flatMap_cons, List.getElem_cons_succ]
      rw [List.getElem?_append_right (by simp; omega)]
      have := ih k i (by simpa using hk) hi
      simp only [List.length_map, List.length_range]
      rw [show dur s + ((List.take k rest).map dur).sum + i - dur s = ((List.take k rest).map dur).sum + i by omega]
      exact this


/-! ## the base RPU and `generate_rpu_list` -/

/-- the base RPU of a profile around given DM data -/
def baseOf (c : Config) (d : DmData) : Rpu :=
  match c.profile with
  | .p5 => { dovi_profile := 5, modified := true,
             header := { p8DefaultHeader with vdr_rpu_profile := 0, bl_video_full_range_flag := true },
             rpu_data_mapping := some p81Mapping, vdr_dm_data := some d }
  | .p81 => { dovi_profile := 8, modified := true, header := p8DefaultHeader,
              rpu_data_mapping := some p81Mapping, vdr_dm_data := some d }
  | .p84 => { dovi_profile := 8, modified := true, header := p8DefaultHeader,
              rpu_data_mapping := some profile84Mapping, vdr_dm_data := some d }

theorem baseOf_dm (c : Config) (d : DmData) : (baseOf c d).vdr_dm_data = some d := by
  unfold baseOf; cases c.profile <;> rfl

theorem baseRpu_ok (c : Config) (base : Rpu) :
    baseRpu c = .ok base ↔ ∃ dm0, dmFromConfig c = .ok dm0 ∧ base = baseOf c dm0 := by
  unfold baseRpu
  simp only [bind_ok_iff, Res.ok.injEq]
  constructor
  · rintro ⟨d, h1, h2⟩; exact ⟨d, h1, h2.symm⟩
  · rintro ⟨d, h1, h2⟩; exact ⟨d, h1, h2.symm⟩

theorem generateList_ok (c : Config) (l : List Rpu) :
    generateList c = .ok l ↔
      ∃ base, baseRpu c = .ok base ∧ c.length = (c.shots.map (·.duration)).foldl (· + ·) 0 ∧
        allFrames c base c.shots = .ok l := by
  unfold generateList
  simp only [bind_ok_iff]
  constructor
  · rintro ⟨base, h1, h2⟩
    split at h2
    · cases h2
    · rename_i hl
      exact ⟨base, h1, by simpa using hl, h2⟩
  · rintro ⟨base, h1, h2, h3⟩
    refine ⟨base, h1, ?_⟩
    rw [if_neg (by simpa using h2)]; exact h3

/-! ## no panics -/

theorem replaceBlock_ne_panic (d : DmData) (b : Block) : d.replaceBlock b ≠ .panic := by
  unfold DmData.replaceBlock DmData.replaceLevel DmData.removeLevel DmData.addBlock Container.addBlock
  repeat' split
  all_goals simp [Res.bind]


theorem replaceBlocks_ne_panic (bs : List Block) : ∀ d : DmData, d.replaceBlocks bs ≠ .panic := by
  induction bs with
  | nil => intro d h; cases h
  | cons b bs ih =>
    intro d h
    simp only [DmData.replaceBlocks, bind_panic_iff] at h
    rcases h with h | ⟨d1, _, h⟩
    · exact replaceBlock_ne_panic d b h
    · exact ih d1 h

theorem dmFromConfig_ne_panic (c : Config) : dmFromConfig c ≠ .panic := by
  rw [dmFromConfig_eq]
  intro h
  simp only [bind_panic_iff, reduceCtorEq, and_false, exists_false, or_false] at h
  exact replaceBlocks_ne_panic _ _ h

theorem baseRpu_ne_panic (c : Config) : baseRpu c ≠ .panic := by
  unfold baseRpu
  intro h
  simp only [bind_panic_iff, reduceCtorEq, and_false, exists_false, or_false] at h
  exact dmFromConfig_ne_panic c h

theorem frameRpu_ne_panic (c : Config) (base : Rpu) (s : Shot) (i : Nat) : frameRpu c base s i ≠ .panic := by
  unfold frameRpu
  split
  · intro h; cases h
  · intro h
    simp only [bind_panic_iff, reduceCtorEq, and_false, exists_false, or_false] at h
    rcases h with h | ⟨d1, _, h⟩
    · exact replaceBlocks_ne_panic _ _ h
    · split at h
      · exact replaceBlocks_ne_panic _ _ h
      · cases h

theorem shotFrames_ne_panic (c : Config) (base : Rpu) (s : Shot) :
    ∀ n i, shotFrames c base s n i ≠ .panic := by
  intro n
  induction n with
  | zero => intro i h; cases h
  | succ n ih =>
    intro i h
    simp only [shotFrames, bind_panic_iff, reduceCtorEq, and_false, exists_false, or_false] at h
    rcases h with h | ⟨r, _, h⟩
    · exact frameRpu_ne_panic c base s i h
    · exact ih _ h

theorem allFrames_ne_panic (c : Config) (base : Rpu) : ∀ shots, allFrames c base shots ≠ .panic := by
  intro shots
  induction shots with
  | nil => intro h; cases h
  | cons s rest ih =>
    intro h
    simp only [allFrames, bind_panic_iff, reduceCtorEq, and_false, exists_false, or_false] at h
    rcases h with h | ⟨r, _, h⟩
    · exact shotFrames_ne_panic c base s _ _ h
    · exact ih h

theorem generateList_ne_panic (c : Config) : generateList c ≠ .panic := by
  unfold generateList
  intro h
  simp only [bind_panic_iff] at h
  rcases h with h | ⟨base, _, h⟩
  · exact baseRpu_ne_panic c h
  · split at h
    · cases h
    · exact allFrames_ne_panic c base _ h


/-! ## presence and uniqueness corollaries -/

theorem dmFromConfig_present (c : Config) (dm0 : DmData) (h : dmFromConfig c = .ok dm0) (hc : c.cmv40 = true) :
    ∃ x, x ∈ dm0.levelBlocks 254 := by
  rw [dmFromConfig_eq] at h
  simp only [bind_ok_iff, Res.ok.injEq] at h
  obtain ⟨d1, h1, h2⟩ := h
  subst h2
  obtain ⟨x, hx, hs⟩ := replaceBlocks_present _ _ _ (uniq_dmInit c) h1 l254 ((mem_dmInit c l254).2 ⟨hc, rfl⟩)
  have hl : x.level = 254 := (sameKey_level hs).symm
  rw [hl] at hx
  exact ⟨x, by rw [csl_levelBlocks]; exact hx⟩

theorem frameRpu_present (c : Config) (base : Rpu) (s : Shot) (i : Nat) (r : Rpu) (dm0 : DmData)
    (hb : base.vdr_dm_data = some dm0) (hf : dm0.scene_refresh_flag = 0) (hu : Uniq dm0)
    (h : frameRpu c base s i = .ok r) (x0 : Block) (hx0 : x0 ∈ dm0.levelBlocks x0.level) :
    ∃ d x, r.vdr_dm_data = some d ∧ x ∈ d.levelBlocks x0.level ∧ sameKey x0 x = true := by
  rw [frameRpu_eq c base s i dm0 hb hf] at h
  simp only [bind_ok_iff, Res.ok.injEq] at h
  obtain ⟨d1, h1, d2, h2, h3⟩ := h
  have hu' : Uniq (withFlag dm0 (cutFlag c i)) := by
    intro w k hk; rw [withFlag_get] at hk; exact hu w k hk
  have hl : ∀ lv, (withFlag dm0 (cutFlag c i)).levelBlocks lv = dm0.levelBlocks lv := by
    intro lv; unfold DmData.levelBlocks; simp only [withFlag_get]
  obtain ⟨u1, _, _, _⟩ := replaceBlocks_spec _ _ _ hu' h1
  obtain ⟨x1, hx1, hs1⟩ := replaceBlocks_present _ _ _ hu' h1 x0 (by rw [hl]; exact hx0)
  obtain ⟨x2, hx2, hs2⟩ := replaceBlocks_present _ _ _ u1 h2 x1 hx1
  have hs := sameKey_trans hs1 hs2
  refine ⟨d2, x2, by rw [← h3], ?_, hs⟩
  rw [sameKey_level hs]; exact hx2

theorem NoDup.length_le_one {l : List Block} (hp : NoDup l) (lv : Nat) (hk : keyed lv = false)
    (hl : ∀ a ∈ l, a.level = lv) : l.length ≤ 1 := by
  cases l with
  | nil => simp
  | cons a t =>
    cases t with
    | nil => simp
    | cons b t =>
      exfalso
      rw [NoDup, List.pairwise_cons] at hp
      have ha' : a.level = lv := hl a (by simp)
      have hb' : b.level = lv := hl b (by simp)
      have := hp.1 b (by simp)
      rw [sameKey_unkeyed (by rw [ha']; exact hk), ha', hb'] at this
      simp at this

/-- under `Uniq` an un-keyed level has at most one block -/
theorem levelBlocks_length_le_one {d : DmData} (hu : Uniq d) (lv : Nat) (hk : keyed lv = false) :
    (d.levelBlocks lv).length ≤ 1 := by
  unfold DmData.levelBlocks
  cases hw : whichContainer lv with
  | none => simp
  | some w =>
    cases hc : d.get w with
    | none => simp [hc]
    | some k =>
      simp only [hc]
      exact NoDup.length_le_one (List.Pairwise.filter _ (hu w k hc)) lv hk
        (fun a ha => by simpa using (List.mem_filter.1 ha).2)

/-- under `Uniq`, `get_block` of an un-keyed level returns the level's only block -/
theorem getBlock_iff {d : DmData} (hu : Uniq d) (lv : Nat) (hk : keyed lv = false) (x : Block) :
    d.getBlock lv = some x ↔ x ∈ d.levelBlocks lv := by
  have h := levelBlocks_length_le_one hu lv hk
  unfold DmData.getBlock
  cases hl : d.levelBlocks lv with
  | nil => simp
  | cons a t =>
    cases t with
    | nil => simp [eq_comm]
    | cons b t => rw [hl] at h; simp at h


/-! ## exactly when the operations succeed -/

/-- a block that `replace_metadata_block` accepts on `d`: not Reserved, and for keyed levels (2, 8, 10) the
container must exist -/
def okFor (d : DmData) (b : Block) : Prop := b.level ≠ 0 ∧ (keyed b.level = true → holds d b.level)

theorem keyed_which {lv : Nat} (h : keyed lv = true) : ∃ w, whichContainer lv = some w := by
  simp only [keyed, Bool.or_eq_true, beq_iff_eq] at h
  rcases h with (h | h) | h <;> subst h
  · exact ⟨.v29, rfl⟩
  · exact ⟨.v40, rfl⟩
  · exact ⟨.v40, rfl⟩

theorem replaceLevel_ok (d : DmData) (b : Block) : ∃ d', d.replaceLevel b = .ok d' := by
  unfold DmData.replaceLevel DmData.removeLevel
  cases hw : whichContainer b.level with
  | none => exact ⟨d, by simp [DmData.addBlock, hw]⟩
  | some w =>
    cases hc : d.get w with
    | none => exact ⟨d, by simp [DmData.addBlock, hw, hc]⟩
    | some k =>
      simp only [hc, DmData.addBlock, hw, get_set, if_true, Container.addBlock, which_allowed hw, Res.bind]
      exact ⟨_, rfl⟩

theorem replaceBlock_ok_iff (d : DmData) (b : Block) : (∃ d', d.replaceBlock b = .ok d') ↔ okFor d b := by
  unfold okFor DmData.replaceBlock
  by_cases hk : keyed b.level = true
  · have hk' : (b.level == 2 || b.level == 8 || b.level == 10) = true := hk
    have h0 : b.level ≠ 0 := by
      intro h0; rw [h0] at hk; cases hk
    obtain ⟨w, hw⟩ := keyed_which hk
    rw [if_pos hk']
    cases hc : d.get w with
    | none =>
      simp only [hw, hc, reduceCtorEq, exists_false, false_iff]
      rintro ⟨_, hh⟩
      obtain ⟨w', k, h1, h2⟩ := hh hk
      rw [hw] at h1; cases h1; rw [hc] at h2; cases h2
    | some k =>
      simp only [hw, hc, Res.ok.injEq, exists_eq', true_iff]
      exact ⟨h0, fun _ => ⟨w, k, hw, hc⟩⟩
  · have hk' : ¬ (b.level == 2 || b.level == 8 || b.level == 10) = true := hk
    rw [if_neg hk']
    by_cases h0 : b.level = 0
    · have : (b.level == 0) = true := by simpa using h0
      rw [if_pos this]
      simp [h0]
    · have : ¬ (b.level == 0) = true := by simpa using h0
      rw [if_neg this]
      constructor
      · intro _; exact ⟨h0, fun h => absurd h hk⟩
      · intro _; exact replaceLevel_ok d b

theorem replaceBlocks_ok_iff (bs : List Block) : ∀ (d : DmData), Uniq d →
    ((∃ d', d.replaceBlocks bs = .ok d') ↔ ∀ b ∈ bs, okFor d b) := by
  induction bs with
  | nil => intro d _; simp [DmData.replaceBlocks]
  | cons b bs ih =>
    intro d hu
    simp only [DmData.replaceBlocks, bind_ok_iff, List.mem_cons, forall_eq_or_imp]
    constructor
    · rintro ⟨d', d1, h1, h2⟩
      refine ⟨(replaceBlock_ok_iff d b).1 ⟨d1, h1⟩, ?_⟩
      have := (ih d1 (replaceBlock_uniq d d1 b hu h1)).1 ⟨d', h2⟩
      intro x hx
      obtain ⟨a1, a2⟩ := this x hx
      exact ⟨a1, fun hk => (replaceBlock_holds d d1 b hu h1 _).1 (a2 hk)⟩
    · rintro ⟨hb, hbs⟩
      obtain ⟨d1, h1⟩ := (replaceBlock_ok_iff d b).2 hb
      have : ∀ x ∈ bs, okFor d1 x := by
        intro x hx
        obtain ⟨a1, a2⟩ := hbs x hx
        exact ⟨a1, fun hk => (replaceBlock_holds d d1 b hu h1 _).2 (a2 hk)⟩
      obtain ⟨d', h2⟩ := (ih d1 (replaceBlock_uniq d d1 b hu h1)).2 this
      exact ⟨d', d1, h1, h2⟩

/-- a block the generator accepts under config `c`: not Reserved (level 0), and L8 / L10 only with CM v4.0 -/
def accepts (c : Config) (b : Block) : Prop :=
  b.level ≠ 0 ∧ (b.level = 8 ∨ b.level = 10 → c.cmv40 = true)

theorem okFor_of_holds_iff (c : Config) (d : DmData)
    (hh : ∀ lv, holds d lv ↔ (lv ∈ cmv29Levels ∨ (c.cmv40 = true ∧ lv ∈ cmv40Levels))) (b : Block) :
    okFor d b ↔ accepts c b := by
  unfold okFor accepts
  refine and_congr Iff.rfl ?_
  rw [hh]
  simp only [keyed, Bool.or_eq_true, beq_iff_eq]
  constructor
  · intro h h8
    rcases h8 with h8 | h8
    · rcases h (.inl (.inr h8)) with h' | h'
      · rw [h8] at h'; simp [cmv29Levels] at h'
      · exact h'.1
    · rcases h (.inr h8) with h' | h'
      · rw [h8] at h'; simp [cmv29Levels] at h'
      · exact h'.1
  · intro h hk
    rcases hk with (hk | hk) | hk
    · left; rw [hk]; simp [cmv29Levels]
    · right; exact ⟨h (.inl hk), by rw [hk]; simp [cmv40Levels]⟩
    · right; exact ⟨h (.inr hk), by rw [hk]; simp [cmv40Levels]⟩

theorem statics_accepted (c : Config) : ∀ b ∈ statics c, accepts c b := by
  intro b hb
  unfold statics at hb
  cases h6 : c.level6 <;> simp only [h6, List.cons_append, List.nil_append, List.mem_cons, List.not_mem_nil,
    or_false] at hb
  · rcases hb with rfl | rfl | rfl <;> simp [accepts]
  · rcases hb with rfl | rfl | rfl | rfl <;> simp [accepts]

theorem dmFromConfig_ok_iff (c : Config) :
    (∃ dm0, dmFromConfig c = .ok dm0) ↔ ∀ b ∈ defaultBlocks c, accepts c b := by
  rw [dmFromConfig_eq]
  simp only [bind_ok_iff, Res.ok.injEq]
  rw [show (∃ dm0 a, (dmInit c).replaceBlocks (statics c ++ defaultBlocks c) = .ok a ∧
      a.changeSourceLevels c.sourceMinPq c.sourceMaxPq = dm0) ↔
      ∃ a, (dmInit c).replaceBlocks (statics c ++ defaultBlocks c) = .ok a from
    ⟨fun ⟨_, a, h, _⟩ => ⟨a, h⟩, fun ⟨a, h⟩ => ⟨_, a, h, rfl⟩⟩]
  rw [replaceBlocks_ok_iff _ _ (uniq_dmInit c)]
  simp only [okFor_of_holds_iff c (dmInit c) (holds_dmInit c), List.mem_append]
  constructor
  · intro h b hb; exact h b (.inr hb)
  · intro h b hb
    rcases hb with hb | hb
    · exact statics_accepted c b hb
    · exact h b hb


theorem frameRpu_ok_iff (c : Config) (base : Rpu) (s : Shot) (i : Nat) (dm0 : DmData)
    (hb : base.vdr_dm_data = some dm0) (hf : dm0.scene_refresh_flag = 0) (hu : Uniq dm0)
    (hh : ∀ lv, holds dm0 lv ↔ (lv ∈ cmv29Levels ∨ (c.cmv40 = true ∧ lv ∈ cmv40Levels))) :
    (∃ r, frameRpu c base s i = .ok r) ↔ ∀ b ∈ s.blocks ++ editBlocks s i, accepts c b := by
  have hu' : Uniq (withFlag dm0 (cutFlag c i)) := by
    intro w k hk; rw [withFlag_get] at hk; exact hu w k hk
  have hh' : ∀ lv, holds (withFlag dm0 (cutFlag c i)) lv ↔
      (lv ∈ cmv29Levels ∨ (c.cmv40 = true ∧ lv ∈ cmv40Levels)) := by
    intro lv; rw [← hh]; unfold holds; simp only [withFlag_get]
  rw [frameRpu_eq c base s i dm0 hb hf]
  have : (∃ r, (((withFlag dm0 (cutFlag c i)).replaceBlocks s.blocks).bind fun d1 =>
        (d1.replaceBlocks (editBlocks s i)).bind fun d2 =>
          (Res.ok { base with vdr_dm_data := some d2 } : Res Rpu)) = .ok r) ↔
      ∃ d2, (withFlag dm0 (cutFlag c i)).replaceBlocks (s.blocks ++ editBlocks s i) = .ok d2 := by
    rw [replaceBlocks_append]
    simp only [bind_ok_iff, Res.ok.injEq]
    constructor
    · rintro ⟨_, d1, h1, d2, h2, _⟩; exact ⟨d2, d1, h1, h2⟩
    · rintro ⟨d2, d1, h1, h2⟩; exact ⟨_, d1, h1, d2, h2, rfl⟩
  rw [this, replaceBlocks_ok_iff _ _ hu']
  simp only [okFor_of_holds_iff c _ hh']

theorem shotFrames_ok_iff (c : Config) (base : Rpu) (s : Shot) : ∀ n i,
    (∃ l, shotFrames c base s n i = .ok l) ↔ ∀ j, i ≤ j → j < i + n → ∃ r, frameRpu c base s j = .ok r := by
  intro n
  induction n with
  | zero =>
    intro i
    simp only [shotFrames, Res.ok.injEq, exists_eq', true_iff]
    intro j h1 h2; omega
  | succ n ih =>
    intro i
    simp only [shotFrames, bind_ok_iff, Res.ok.injEq]
    constructor
    · rintro ⟨_, r, h1, t, h2, _⟩ j hj1 hj2
      by_cases e : j = i
      · subst e; exact ⟨r, h1⟩
      · exact (ih (i + 1)).1 ⟨t, h2⟩ j (by omega) (by omega)
    · intro h
      obtain ⟨r, h1⟩ := h i (Nat.le_refl _) (by omega)
      obtain ⟨t, h2⟩ := (ih (i + 1)).2 (fun j a b => h j (by omega) (by omega))
      exact ⟨_, r, h1, t, h2, rfl⟩

theorem allFrames_ok_iff (c : Config) (base : Rpu) : ∀ shots,
    (∃ l, allFrames c base shots = .ok l) ↔
      ∀ s ∈ shots, ∀ j, j < s.duration → ∃ r, frameRpu c base s j = .ok r := by
  intro shots
  induction shots with
  | nil => simp [allFrames]
  | cons s rest ih =>
    simp only [allFrames, bind_ok_iff, Res.ok.injEq, List.mem_cons, forall_eq_or_imp]
    constructor
    · rintro ⟨_, a, h1, b, h2, _⟩
      refine ⟨fun j hj => (shotFrames_ok_iff c base s _ _).1 ⟨a, h1⟩ j (Nat.zero_le _) (by omega), ?_⟩
      exact ih.1 ⟨b, h2⟩
    · rintro ⟨h1, h2⟩
      obtain ⟨a, ha⟩ := (shotFrames_ok_iff c base s s.duration 0).2 (fun j _ hj => h1 j (by omega))
      obtain ⟨b, hb⟩ := ih.2 h2
      exact ⟨_, a, ha, b, hb, rfl⟩

/-- **exactly when generation succeeds** -/
theorem generateList_ok_iff (c : Config) :
    (∃ l, generateList c = .ok l) ↔
      c.length = (c.shots.map (·.duration)).foldl (· + ·) 0 ∧
      (∀ b ∈ defaultBlocks c, accepts c b) ∧
      ∀ s ∈ c.shots, ∀ i, i < s.duration → ∀ b ∈ s.blocks ++ editBlocks s i, accepts c b := by
  constructor
  · rintro ⟨l, h⟩
    obtain ⟨base, h1, h2, h3⟩ := (generateList_ok c l).1 h
    obtain ⟨dm0, h4, h5⟩ := (baseRpu_ok c base).1 h1
    obtain ⟨hu, hh, hs, _⟩ := dmFromConfig_spec c dm0 h4
    have hf : dm0.scene_refresh_flag = 0 := congrArg DmData.scene_refresh_flag hs
    have hb : base.vdr_dm_data = some dm0 := by rw [h5]; exact baseOf_dm c dm0
    refine ⟨h2, (dmFromConfig_ok_iff c).1 ⟨dm0, h4⟩, ?_⟩
    intro s hs' i hi
    exact (frameRpu_ok_iff c base s i dm0 hb hf hu hh).1 ((allFrames_ok_iff c base c.shots).1 ⟨l, h3⟩ s hs' i hi)
  · rintro ⟨h2, hd, hs'⟩
    obtain ⟨dm0, h4⟩ := (dmFromConfig_ok_iff c).2 hd
    obtain ⟨hu, hh, hs, _⟩ := dmFromConfig_spec c dm0 h4
    have hf : dm0.scene_refresh_flag = 0 := congrArg DmData.scene_refresh_flag hs
    have hb : (baseOf c dm0).vdr_dm_data = some dm0 := baseOf_dm c dm0
    obtain ⟨l, h3⟩ := (allFrames_ok_iff c (baseOf c dm0) c.shots).2
      (fun s hs'' i hi => (frameRpu_ok_iff c _ s i dm0 hb hf hu hh).2 (hs' s hs'' i hi))
    exact ⟨l, (generateList_ok c l).2 ⟨_, (baseRpu_ok c _).2 ⟨dm0, h4, rfl⟩, h2, h3⟩⟩

/-- a block whose container is absent (or whose level has no container), of an un-keyed level other
than 0, is silently dropped -/
theorem replaceBlock_dropped (d : DmData) (b : Block) (hk : keyed b.level = false) (h0 : b.level ≠ 0)
    (hh : ¬ holds d b.level) : d.replaceBlock b = .ok d := by
  unfold DmData.replaceBlock
  have hk' : ¬ (b.level == 2 || b.level == 8 || b.level == 10) = true := by
    intro e; have : keyed b.level = true := e; rw [hk] at this; cases this
  have h0' : ¬ (b.level == 0) = true := by simpa using h0
  rw [if_neg hk', if_neg h0']
  unfold DmData.replaceLevel DmData.removeLevel
  cases hw : whichContainer b.level with
  | none => simp [DmData.addBlock, hw]
  | some w =>
    cases hc : d.get w with
    | none => simp [DmData.addBlock, hw, hc]
    | some k => exact absurd ⟨w, k, hw, hc⟩ hh


end Dovi.EditGenProof.Gen

/-!
# Part 3 — the text of the range keys: `format!("{}-{}", s, e)` is read back by `range_string_to_tuple` as `(s, e)`

`String.splitOn` (legacy, by well-founded recursion on byte positions) is unfolded through its equation lemma on
ASCII strings; the decimal printer / parser round trip comes from core (`Nat.ofDigitChars_ten_toDigits`).
-/
namespace Dovi.EditGenProof.Str
open String Dovi Dovi.Editor

/-- every character is a single UTF-8 byte -/
def Ascii (cs : List Char) : Prop := ∀ c ∈ cs, c.utf8Size = 1

theorem Ascii.tail {c : Char} {cs : List Char} (h : Ascii (c :: cs)) : Ascii cs :=
  fun x hx => h x (List.mem_cons_of_mem _ hx)

theorem Ascii.head {c : Char} {cs : List Char} (h : Ascii (c :: cs)) : c.utf8Size = 1 := h c (by simp)

theorem Ascii.append {a b : List Char} (ha : Ascii a) (hb : Ascii b) : Ascii (a ++ b) := by
  intro c hc
  rcases List.mem_append.mp hc with h | h
  · exact ha c h
  · exact hb c h

theorem utf8Size_of_isDigit (c : Char) (h : c.isDigit = true) : c.utf8Size = 1 := by
  simp only [Char.isDigit, Bool.and_eq_true, decide_eq_true_eq] at h
  simp only [Char.utf8Size]
  have : c.val ≤ 127 := by
    have := h.2
    exact UInt32.le_trans this (by decide)
  simp [this]

theorem byteSize_ofList (cs : List Char) (h : Ascii cs) : (String.ofList cs).utf8ByteSize = cs.length := by
  induction cs with
  | nil => simp
  | cons c cs ih =>
    rw [String.ofList_cons, String.utf8ByteSize_append, String.utf8ByteSize_singleton, ih h.tail, h.head]
    simp; omega

theorem byteSize_of_toList (s : String) (cs : List Char) (hs : s.toList = cs) (h : Ascii cs) :
    s.utf8ByteSize = cs.length := by
  rw [← String.ofList_toList (s := s), hs]; exact byteSize_ofList cs h

theorem getAux_ascii (cs : List Char) (h : Ascii cs) (k i : Nat) (hi : i < cs.length) :
    Pos.Raw.utf8GetAux cs ⟨k⟩ ⟨k + i⟩ = cs[i] := by
  induction cs generalizing k i with
  | nil => simp at hi
  | cons c cs ih =>
    cases i with
    | zero => simp [Pos.Raw.utf8GetAux]
    | succ i =>
      have hne : ¬ ((⟨k⟩ : Pos.Raw) = ⟨k + (i + 1)⟩) := by
        intro hh; injection hh with hh; omega
      simp only [Pos.Raw.utf8GetAux, hne, if_false, List.getElem_cons_succ]
      have : (⟨k⟩ : Pos.Raw) + c = ⟨k + 1⟩ := by
        apply Pos.Raw.ext; simp [h.head]
      rw [this]
      have h2 : k + (i + 1) = (k + 1) + i := by omega
      rw [h2]
      exact ih h.tail (k + 1) i (by simpa using hi)

theorem get_ascii (s : String) (cs : List Char) (hs : s.toList = cs) (h : Ascii cs) (i : Nat) (hi : i < cs.length) :
    Pos.Raw.get s ⟨i⟩ = cs[i] := by
  unfold Pos.Raw.get
  rw [hs]
  have := getAux_ascii cs h 0 i hi
  simpa using this

theorem next_ascii (s : String) (cs : List Char) (hs : s.toList = cs) (h : Ascii cs) (i : Nat) (hi : i < cs.length) :
    Pos.Raw.next s ⟨i⟩ = ⟨i + 1⟩ := by
  unfold Pos.Raw.next
  rw [get_ascii s cs hs h i hi]
  apply Pos.Raw.ext
  simp [h cs[i] (List.getElem_mem hi)]

theorem atEnd_ascii (s : String) (cs : List Char) (hs : s.toList = cs) (h : Ascii cs) (i : Nat) :
    Pos.Raw.atEnd s ⟨i⟩ = decide (cs.length ≤ i) := by
  unfold Pos.Raw.atEnd
  simp [byteSize_of_toList s cs hs h]

theorem go2_ascii (cs : List Char) (h : Ascii cs) (k m : Nat) :
    Pos.Raw.extract.go₂ cs ⟨k⟩ ⟨k + m⟩ = cs.take m := by
  induction cs generalizing k m with
  | nil => simp [Pos.Raw.extract.go₂]
  | cons c cs ih =>
    cases m with
    | zero => simp [Pos.Raw.extract.go₂]
    | succ m =>
      have hne : ¬ ((⟨k⟩ : Pos.Raw) = ⟨k + (m + 1)⟩) := by
        intro hh; injection hh with hh; omega
      have : (⟨k⟩ : Pos.Raw) + c = ⟨k + 1⟩ := by
        apply Pos.Raw.ext; simp [h.head]
      simp only [Pos.Raw.extract.go₂, hne, if_false, List.take_succ_cons, this]
      have h2 : k + (m + 1) = (k + 1) + m := by omega
      rw [h2, ih h.tail]

theorem go1_ascii (cs : List Char) (h : Ascii cs) (k b m : Nat) (hb : b ≤ cs.length) :
    Pos.Raw.extract.go₁ cs ⟨k⟩ ⟨k + b⟩ ⟨k + b + m⟩ = (cs.drop b).take m := by
  induction cs generalizing k b with
  | nil => simp [Pos.Raw.extract.go₁]
  | cons c cs ih =>
    cases b with
    | zero =>
      simp only [Pos.Raw.extract.go₁, Nat.add_zero, if_true, List.drop_zero]
      exact go2_ascii (c :: cs) h k m
    | succ b =>
      have hne : ¬ ((⟨k⟩ : Pos.Raw) = ⟨k + (b + 1)⟩) := by
        intro hh; injection hh with hh; omega
      have : (⟨k⟩ : Pos.Raw) + c = ⟨k + 1⟩ := by
        apply Pos.Raw.ext; simp [h.head]
      simp only [Pos.Raw.extract.go₁, hne, if_false, List.drop_succ_cons, this]
      have h2 : k + (b + 1) = (k + 1) + b := by omega
      rw [h2]
      exact ih h.tail (k + 1) b (by simpa using hb)

theorem extract_ascii (s : String) (cs : List Char) (hs : s.toList = cs) (h : Ascii cs) (b e : Nat)
    (hb : b ≤ cs.length) :
    Pos.Raw.extract s ⟨b⟩ ⟨e⟩ = String.ofList ((cs.drop b).take (e - b)) := by
  unfold Pos.Raw.extract
  by_cases hbe : b ≥ e
  · have : e - b = 0 := by omega
    simp [hbe, this]
  · simp only [ge_iff_le, hbe, if_false, hs]
    have := go1_ascii cs h 0 b (e - b) hb
    have h2 : 0 + b + (e - b) = e := by omega
    simp only [Nat.zero_add] at this h2
    rw [h2] at this
    rw [← this]; rfl

theorem dash_toList : ("-" : String).toList = ['-'] := by simp
theorem dash_ascii : Ascii ['-'] := by intro c hc; simp at hc; subst hc; decide

theorem scan (s : String) (cs : List Char) (hs : s.toList = cs) (h : Ascii cs) (b m : Nat) (r : List String)
    (hm : m ≤ cs.length) (d i : Nat) (hd : m - i = d) (him : i ≤ m)
    (hno : ∀ t (ht : t < cs.length), i ≤ t → t < m → cs[t] ≠ '-') :
    s.splitOnAux "-" ⟨b⟩ ⟨i⟩ 0 r = s.splitOnAux "-" ⟨b⟩ ⟨m⟩ 0 r := by
  induction d generalizing i with
  | zero => have : i = m := by omega
            subst this; rfl
  | succ d ih =>
    have hi : i < cs.length := by omega
    rw [String.splitOnAux.eq_1 s "-" ⟨b⟩ ⟨i⟩]
    have h1 : Pos.Raw.atEnd s ⟨i⟩ = false := by rw [atEnd_ascii s cs hs h]; simp; omega
    have h2 : Pos.Raw.get s ⟨i⟩ = cs[i] := get_ascii s cs hs h i hi
    have h3 : Pos.Raw.get "-" (0 : Pos.Raw) = '-' := get_ascii "-" ['-'] dash_toList dash_ascii 0 (by simp)
    have h4 : (cs[i] == '-') = false := by simpa using hno i hi (Nat.le_refl _) (by omega)
    have h5 : ((⟨i⟩ : Pos.Raw).unoffsetBy 0) = ⟨i⟩ := by apply Pos.Raw.ext; simp
    simp only [h1, h2, h3, h4, h5, Bool.false_eq_true, if_false, next_ascii s cs hs h i hi]
    exact ih (i + 1) (by omega) (by omega) (fun t ht h6 h7 => hno t ht (by omega) h7)

theorem hit (s : String) (cs : List Char) (hs : s.toList = cs) (h : Ascii cs) (b i : Nat) (r : List String)
    (hi : i < cs.length) (hc : cs[i] = '-') :
    s.splitOnAux "-" ⟨b⟩ ⟨i⟩ 0 r = s.splitOnAux "-" ⟨i + 1⟩ ⟨i + 1⟩ 0 (Pos.Raw.extract s ⟨b⟩ ⟨i⟩ :: r) := by
  rw [String.splitOnAux.eq_1 s "-" ⟨b⟩ ⟨i⟩]
  have h1 : Pos.Raw.atEnd s ⟨i⟩ = false := by rw [atEnd_ascii s cs hs h]; simp; omega
  have h2 : Pos.Raw.get s ⟨i⟩ = '-' := by rw [get_ascii s cs hs h i hi, hc]
  have h3 : Pos.Raw.get "-" (0 : Pos.Raw) = '-' := get_ascii "-" ['-'] dash_toList dash_ascii 0 (by simp)
  have h4 : Pos.Raw.next "-" (0 : Pos.Raw) = ⟨1⟩ := next_ascii "-" ['-'] dash_toList dash_ascii 0 (by simp)
  have h5 : Pos.Raw.atEnd "-" ⟨1⟩ = true := by rw [atEnd_ascii "-" ['-'] dash_toList dash_ascii]; simp
  have h6 : ((⟨i + 1⟩ : Pos.Raw).unoffsetBy ⟨1⟩) = ⟨i⟩ := by apply Pos.Raw.ext; simp
  simp only [h1, h2, h3, h4, h5, h6, Bool.false_eq_true, if_false, next_ascii s cs hs h i hi, beq_self_eq_true, if_true]

theorem fin (s : String) (cs : List Char) (hs : s.toList = cs) (h : Ascii cs) (b : Nat) (r : List String) :
    s.splitOnAux "-" ⟨b⟩ ⟨cs.length⟩ 0 r = (Pos.Raw.extract s ⟨b⟩ ⟨cs.length⟩ :: r).reverse := by
  rw [String.splitOnAux.eq_1 s "-" ⟨b⟩ ⟨cs.length⟩]
  have h1 : Pos.Raw.atEnd s ⟨cs.length⟩ = true := by rw [atEnd_ascii s cs hs h]; simp
  simp only [h1, if_true]

/-- splitting `A-B` (ASCII, no dash in `A` or `B`) on the dash gives `[A, B]` -/
theorem splitOn_dash (s : String) (A B : List Char) (hs : s.toList = A ++ '-' :: B) (hA : Ascii A) (hB : Ascii B)
    (hnA : '-' ∉ A) (hnB : '-' ∉ B) : s.splitOn "-" = [String.ofList A, String.ofList B] := by
  have h : Ascii (A ++ '-' :: B) := hA.append (by
    intro c hc; rcases List.mem_cons.mp hc with rfl | hc
    · decide
    · exact hB c hc)
  have hlen : (A ++ '-' :: B).length = A.length + 1 + B.length := by simp; omega
  unfold String.splitOn
  have hsep : (("-" : String) == "") = false := by decide
  simp only [hsep, Bool.false_eq_true, if_false]
  show s.splitOnAux "-" ⟨0⟩ ⟨0⟩ 0 [] = _
  rw [scan s _ hs h 0 A.length [] (by omega) A.length 0 (by omega) (by omega) (by
    intro t ht _ h2
    rw [List.getElem_append_left h2]
    intro hc; exact hnA (hc ▸ List.getElem_mem h2))]
  rw [hit s _ hs h 0 A.length [] (by omega) (by simp)]
  rw [scan s _ hs h (A.length + 1) (A ++ '-' :: B).length _ (Nat.le_refl _) B.length (A.length + 1) (by omega) (by omega) (by
    intro t ht h1 _ hc
    have h2 : (A ++ '-' :: B)[t]? = some '-' := by rw [List.getElem?_eq_getElem ht, hc]
    obtain ⟨u, hu⟩ : ∃ u, t - A.length = u + 1 := ⟨t - A.length - 1, by omega⟩
    rw [List.getElem?_append_right (by omega), hu, List.getElem?_cons_succ] at h2
    exact hnB (List.mem_of_getElem? h2))]
  rw [fin s _ hs h]
  rw [extract_ascii s _ hs h 0 A.length (by omega), extract_ascii s _ hs h (A.length + 1) _ (by omega)]
  simp [hlen]

theorem digits_ascii (n : Nat) : Ascii (Nat.toDigits 10 n) :=
  fun c hc => utf8Size_of_isDigit c (Nat.isDigit_of_mem_toDigits (by omega) (by omega) hc)

theorem digits_no_dash (n : Nat) : '-' ∉ Nat.toDigits 10 n := by
  intro hc
  have := Nat.isDigit_of_mem_toDigits (b := 10) (by omega) (by omega) hc
  revert this; decide

theorem parseUsize_digits (n : Nat) (hn : n < 2 ^ 64) : parseUsize (String.ofList (Nat.toDigits 10 n)) = some n := by
  have hall : (Nat.toDigits 10 n).all Char.isDigit = true := by
    rw [List.all_eq_true]; intro c hc; exact Nat.isDigit_of_mem_toDigits (by omega) (by omega) hc
  have hne : (Nat.toDigits 10 n).isEmpty = false := by
    cases h : Nat.toDigits 10 n with
    | nil => exact absurd h Nat.toDigits_ne_nil
    | cons _ _ => rfl
  have hval : (Nat.toDigits 10 n).foldl (fun acc c => acc * 10 + (c.toNat - '0'.toNat)) 0 = n := by
    have h1 := Nat.ofDigitChars_ten_toDigits (n := n)
    rw [Nat.ofDigitChars_eq_foldl] at h1
    have : (fun (acc : Nat) (c : Char) => acc * 10 + (c.toNat - '0'.toNat)) =
        (fun sofar c => 10 * sofar + (c.toNat - '0'.toNat)) := by
      funext a c; rw [Nat.mul_comm]
    rw [this]; exact h1
  unfold parseUsize
  simp only [String.toList_ofList]
  split
  · rename_i rest heq
    have : '+' ∈ Nat.toDigits 10 n := by rw [heq]; simp
    have hd : '+'.isDigit = true := Nat.isDigit_of_mem_toDigits (b := 10) (by omega) (by omega) this
    exact absurd hd (by decide)
  · simp only [hne, hall, Bool.not_true, Bool.or_self, Bool.false_eq_true, if_false, hval, hn, if_true]

/-- the tool's key text `format!("{}-{}", s, e)` -/
def fmtKey (s e : Nat) : String := toString s ++ "-" ++ toString e

theorem fmtKey_toList (s e : Nat) : (fmtKey s e).toList = Nat.toDigits 10 s ++ '-' :: Nat.toDigits 10 e := by
  simp [fmtKey, String.toList_append]

/-- the editor reads the key back as the range it was printed from (both numbers fit `usize`) -/
theorem rangeTuple_fmtKey (s e : Nat) (hs : s < 2 ^ 64) (he : e < 2 ^ 64) : rangeTuple (fmtKey s e) = some (s, e) := by
  have hsplit := splitOn_dash (fmtKey s e) _ _ (fmtKey_toList s e) (digits_ascii s) (digits_ascii e)
    (digits_no_dash s) (digits_no_dash e)
  unfold rangeTuple
  simp only [fmtKey_toList, hsplit]
  simp [parseUsize_digits s hs, parseUsize_digits e he]

theorem fmtKey_not_all (s e : Nat) : (fmtKey s e).toLower ≠ "all" := by
  intro h
  have h1 := congrArg String.toList h
  simp only [String.toLower, String.toList_map, fmtKey_toList] at h1
  have : '-' ∈ List.map Char.toLower (Nat.toDigits 10 s ++ '-' :: Nat.toDigits 10 e) := by
    simp only [List.map_append, List.map_cons, List.mem_append, List.mem_cons]
    right; left; decide
  rw [h1] at this
  revert this; simp

end Dovi.EditGenProof.Str

namespace Dovi.EditGenProof
open Dovi Dovi.Editor Dovi.Export

/-- the tool's own key text satisfies `KeyOk` for every list the tool can hold (`usize` positions) -/
theorem keyOk_fmtKey (n : Nat) (hn : n ≤ 2 ^ 64) : KeyOk n Str.fmtKey := by
  intro s e hse he
  exact ⟨Str.rangeTuple_fmtKey s e (by omega) (by omega), Str.fmtKey_not_all s e⟩

/-- a `remove` entry written as a decimal index lists exactly that position -/
theorem removedBy_index_text (i j : Nat) (hi : i < 2 ^ 64) : removedBy (toString i) j = (i == j) := by
  have htl : (toString i).toList = Nat.toDigits 10 i := by simp
  have hc : (toString i).toList.contains '-' = false := by
    rw [htl]; simpa using Str.digits_no_dash i
  have hp : parseUsize (toString i) = some i := Str.parseUsize_digits i hi
  unfold removedBy
  simp only [hc, Bool.false_eq_true, if_false, hp]

/-- a `remove` entry written as `a-b` lists exactly the positions `a..b` inclusive -/
theorem removedBy_range_text (a b j : Nat) (ha : a < 2 ^ 64) (hb : b < 2 ^ 64) :
    removedBy (Str.fmtKey a b) j = (decide (a ≤ j) && decide (j ≤ b)) := by
  have hc : (Str.fmtKey a b).toList.contains '-' = true := by
    rw [Str.fmtKey_toList]; simp
  unfold removedBy
  simp only [hc, if_true, Str.rangeTuple_fmtKey a b ha hb]

/-- a range key written as `a-b` covers exactly the positions `a..b` inclusive -/
theorem coversKey_range_text (a b j : Nat) (ha : a < 2 ^ 64) (hb : b < 2 ^ 64) :
    coversKey (Str.fmtKey a b) j ↔ a ≤ j ∧ j ≤ b := by
  unfold coversKey
  rw [Str.rangeTuple_fmtKey a b ha hb]
  constructor
  · rintro ⟨_, s, e, h, h1, h2⟩
    injection h with h; injection h with e1 e2
    subst e1; subst e2; exact ⟨h1, h2⟩
  · intro h
    exact ⟨Str.fmtKey_not_all a b, a, b, rfl, h.1, h.2⟩

/-! ## level replacement from a source list -/

/-- `replace_from_rpus`, frame by frame: the present frame at position `j` takes its levels from the source frame
whose index is the number of *present* frames before `j` (the remaining frames are zipped with the source list
from its start), and is left alone when the source list is exhausted -/
theorem replaceFromSource_spec (lv : List Nat) (l out : List (Option Rpu)) (src : List Rpu)
    (h : replaceFromSource lv l src = .ok out) :
    out.length = l.length ∧ ∀ (j : Nat) (x : Option Rpu), l[j]? = some x →
      (x = none → out[j]? = some none) ∧
      (∀ r, x = some r → ∃ r', out[j]? = some (some r') ∧
         match src[(l.take j).countP Option.isSome]? with
         | some s => r.replaceLevelsFrom s lv = .ok r'
         | none => r' = r) := by
  induction l generalizing src out with
  | nil => simp [replaceFromSource] at h; subst h; simp
  | cons x xs ih =>
    cases x with
    | none =>
      simp only [replaceFromSource, bind_ok_iff] at h
      obtain ⟨t, ht, h2⟩ := h
      injection h2 with h2; subst h2
      obtain ⟨i1, i2⟩ := ih _ _ ht
      refine ⟨by simp [i1], ?_⟩
      intro j y hy
      cases j with
      | zero => simp at hy; subst hy; simp
      | succ j =>
        simp only [List.getElem?_cons_succ] at hy ⊢
        have := i2 j y hy
        simpa using this
    | some r0 =>
      cases src with
      | nil =>
        simp only [replaceFromSource, bind_ok_iff] at h
        obtain ⟨t, ht, h2⟩ := h
        injection h2 with h2; subst h2
        obtain ⟨i1, i2⟩ := ih _ _ ht
        refine ⟨by simp [i1], ?_⟩
        intro j y hy
        cases j with
        | zero => simp at hy; subst hy; simp
        | succ j =>
          simp only [List.getElem?_cons_succ] at hy ⊢
          have := i2 j y hy
          simpa using this
      | cons s src =>
        simp only [replaceFromSource, bind_ok_iff] at h
        obtain ⟨r', hr', t, ht, h2⟩ := h
        injection h2 with h2; subst h2
        obtain ⟨i1, i2⟩ := ih _ _ ht
        refine ⟨by simp [i1], ?_⟩
        intro j y hy
        cases j with
        | zero => simp at hy; subst hy; simpa using hr'
        | succ j =>
          simp only [List.getElem?_cons_succ] at hy ⊢
          have := i2 j y hy
          simp only [List.take_succ_cons, List.countP_cons, Option.isSome_some, if_true, List.getElem?_cons_succ]
          exact this

end Dovi.EditGenProof
