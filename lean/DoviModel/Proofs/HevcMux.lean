import DoviModel.Proofs.HevcInject
import DoviModel.Proofs.HevcOptMap
set_option linter.unusedSimpArgs false
namespace Dovi.Hevc
open Dovi

/-! ### mux -/

/-- one muxed frame: the BL part written before the EL, the EL frame, the EOS/EOB held back -/
def muxFrame (c : MCfg) (aud : Nat → Bytes) (fr : Nat × List Item) (e : List Out) : List Out :=
  (blSplit c aud fr).1 ++ e ++ (blSplit c aud fr).2

/-- equal frame counts: frame k of the output is BL frame k, EL frame k, held-back EOS/EOB; no error -/
theorem muxGo_aligned (c : MCfg) (aud : Nat → Bytes) (nFrames : Nat) (frs : List (Nat × List Item)) (els : List (List Out))
    (hlen : frs.length = els.length) (hlast : ∀ fr, frs.getLast? = some fr → fr.1 ≠ nFrames ∧ blBody c fr.2 ≠ []) :
    muxGo c aud nFrames frs els = ((frs.zip els).flatMap (fun p => muxFrame c aud p.1 p.2), false) := by
  induction frs generalizing els with
  | nil => cases els <;> simp [muxGo] at *
  | cons fr rest ih =>
    cases rest with
    | nil =>
      cases els with
      | nil => simp at hlen
      | cons e els' =>
        cases els' with
        | cons _ _ => simp at hlen
        | nil =>
          have := hlast fr (by simp)
          simp [muxGo, this.1, this.2, muxFrame]
    | cons fr2 rest2 =>
      cases els with
      | nil => simp at hlen
      | cons e els' =>
        cases els' with
        | nil => simp at hlen
        | cons e2 els'' =>
          have ih' := ih (e2 :: els'') (by simpa using hlen) (by
            intro f hf; apply hlast f; simpa [List.getLast?_cons_cons] using hf)
          simp only [muxGo, ih', List.zip_cons_cons, List.flatMap_cons, muxFrame, List.append_assoc]

/-- EL longer than BL: the output is the aligned interleave of the BL with the first EL frames (trimmed to
the BL length) and the command reports an error -/
theorem muxGo_el_longer (c : MCfg) (aud : Nat → Bytes) (nFrames : Nat) (frs : List (Nat × List Item)) (els : List (List Out))
    (hne : frs ≠ []) (hlen : frs.length < els.length)
    (hlast : ∀ fr, frs.getLast? = some fr → fr.1 ≠ nFrames ∧ blBody c fr.2 ≠ []) :
    muxGo c aud nFrames frs els = ((frs.zip els).flatMap (fun p => muxFrame c aud p.1 p.2), true) := by
  induction frs generalizing els with
  | nil => exact absurd rfl hne
  | cons fr rest ih =>
    cases rest with
    | nil =>
      cases els with
      | nil => simp at hlen
      | cons e els' =>
        cases els' with
        | nil => simp at hlen
        | cons e2 els'' =>
          have := hlast fr (by simp)
          simp [muxGo, this.1, this.2, muxFrame]
    | cons fr2 rest2 =>
      cases els with
      | nil => simp at hlen
      | cons e els' =>
        cases els' with
        | nil => simp at hlen
        | cons e2 els'' =>
          have ih' := ih (e2 :: els'') (by simp) (by simpa using hlen) (by
            intro f hf; apply hlast f; simpa [List.getLast?_cons_cons] using hf)
          simp only [muxGo, ih', List.zip_cons_cons, List.flatMap_cons, muxFrame, List.append_assoc]

/-- the NALs of a BL frame as mux buffers them, led by the regenerated AUD unless --no-add-aud -/
def muxBody (c : MCfg) (aud : Nat → Bytes) (fr : Nat × List Item) : List (Nat × Bytes) :=
  if c.noAddAud then blBody c fr.2 else (NAL_AUD, aud fr.1) :: blBody c fr.2

/-- **frame structure**: the BL NALs of the frame (EOS/EOB held back), the EL frame, the held-back EOS/EOB —
or, with --eos-before-el, all BL NALs then the EL frame -/
theorem muxFrame_pay (c : MCfg) (aud : Nat → Bytes) (fr : Nat × List Item) (e : List Out) :
    (muxFrame c aud fr e).map pay =
      if c.eosBeforeEl then muxBody c aud fr ++ e.map pay
      else (muxBody c aud fr).filter (fun x => !isEos x.1) ++ e.map pay ++ (muxBody c aud fr).filter (fun x => isEos x.1) := by
  unfold muxFrame blSplit muxBody
  cases c.eosBeforeEl <;> simp [withSc_pay, noFirst_pay]

/-- what mux writes for one EL NAL: nothing with --discard unless it is the RPU, the NAL wrapped as UNSPEC63
(`7E 01` in front), the RPU itself or its library rewrite -/
def elPaySpec (c : MCfg) (conv : Bytes → Option Bytes) (it : Item) : Option (List (Nat × Bytes)) :=
  if c.discard ∧ it.typ ≠ NAL_UNSPEC62 then some []
  else if it.typ ≠ NAL_UNSPEC62 then some [(NAL_UNSPEC63, EL_PREFIX ++ it.data)]
  else (rpuConv c.convSet conv it.data).map (fun m => [(NAL_UNSPEC62, m)])

theorem elNal_pay (c : MCfg) (conv : Bytes → Option Bytes) (it : Item) :
    (elNal c conv it).map (fun o => (o.map pay).toList) = elPaySpec c conv it := by
  unfold elNal elPaySpec rpuConv
  split
  · rfl
  · split
    · rfl
    · cases (if c.convSet = true then conv it.data else some it.data) <;> rfl

theorem elFrame_pay (c : MCfg) (conv : Bytes → Option Bytes) (l : List Item) :
    (elFrame c conv l).map (fun e => e.map pay) = (optMap (elPaySpec c conv) l).map List.flatten := by
  induction l with
  | nil => rfl
  | cons it rest ih =>
    simp only [elFrame, optMap, ← elNal_pay]
    cases hn : elNal c conv it with
    | none => simp
    | some oo =>
      cases hr : elFrame c conv rest <;> cases ho : optMap (elPaySpec c conv) rest <;> simp [hr, ho] at ih
      · cases oo <;> simp
      · cases oo <;> simp [ih]

/-! ### demux of a muxed stream -/

/-- EL-bound, on (type, bytes) -/
def isElP (x : Nat × Bytes) : Bool := x.1 == NAL_UNSPEC62 || x.1 == NAL_UNSPEC63

theorem isEl_payI (it : Item) : isEl it = isElP (payI it) := rfl
theorem isBl_payI (it : Item) : isBl it = !isElP (payI it) := rfl

theorem muxBody_not_el (c : MCfg) (aud : Nat → Bytes) (fr : Nat × List Item) :
    ∀ x ∈ muxBody c aud fr, isElP x = false := by
  have hb : ∀ x ∈ blBody c fr.2, isElP x = false := by
    intro x hx
    simp only [blBody, List.mem_map, List.mem_filter] at hx
    obtain ⟨it, ⟨_, h⟩, rfl⟩ := hx
    simp only [decide_eq_true_eq] at h
    simp [isElP, payI, h.1, h.2.1]
  intro x hx
  unfold muxBody at hx
  split at hx
  · exact hb x hx
  · rcases List.mem_cons.mp hx with rfl | hx
    · rfl
    · exact hb x hx

theorem filter_eq_nil_of_all_false {α : Type} (p : α → Bool) (l : List α) (h : ∀ x ∈ l, p x = false) :
    l.filter p = [] := by
  rw [List.filter_eq_nil_iff]; intro x hx; simp [h x hx]

theorem filter_eq_self_of_all_true {α : Type} (p : α → Bool) (l : List α) (h : ∀ x ∈ l, p x = true) :
    l.filter p = l := by
  rw [List.filter_eq_self]; exact h

/-- the BL part of a muxed frame: its buffered NALs, EOS/EOB moved behind unless --eos-before-el -/
def muxBlPart (c : MCfg) (aud : Nat → Bytes) (fr : Nat × List Item) : List (Nat × Bytes) :=
  if c.eosBeforeEl then muxBody c aud fr
  else (muxBody c aud fr).filter (fun x => !isEos x.1) ++ (muxBody c aud fr).filter (fun x => isEos x.1)

theorem muxBlPart_not_el (c : MCfg) (aud : Nat → Bytes) (fr : Nat × List Item) :
    ∀ x ∈ muxBlPart c aud fr, isElP x = false := by
  intro x hx
  unfold muxBlPart at hx
  split at hx
  · exact muxBody_not_el c aud fr x hx
  · rcases List.mem_append.mp hx with h | h
    · exact muxBody_not_el c aud fr x (List.mem_filter.mp h).1
    · exact muxBody_not_el c aud fr x (List.mem_filter.mp h).1

theorem muxFrame_filter (c : MCfg) (aud : Nat → Bytes) (fr : Nat × List Item) (e : List Out)
    (he : ∀ o ∈ e, isElP (pay o) = true) :
    ((muxFrame c aud fr e).map pay).filter isElP = e.map pay ∧
    ((muxFrame c aud fr e).map pay).filter (fun x => !isElP x) = muxBlPart c aud fr := by
  have hb := muxBody_not_el c aud fr
  have he' : ∀ x ∈ e.map pay, isElP x = true := by
    intro x hx; obtain ⟨o, ho, rfl⟩ := List.mem_map.mp hx; exact he o ho
  have hbf : ∀ (p : (Nat × Bytes) → Bool), ∀ x ∈ (muxBody c aud fr).filter p, isElP x = false :=
    fun p x hx => hb x (List.mem_filter.mp hx).1
  have hE1 : (e.map pay).filter isElP = e.map pay := filter_eq_self_of_all_true isElP _ he'
  have hE2 : (e.map pay).filter (fun x => !isElP x) = [] :=
    filter_eq_nil_of_all_false _ _ (fun x hx => by simp [he' x hx])
  have hB1 : (muxBody c aud fr).filter isElP = [] := filter_eq_nil_of_all_false isElP _ hb
  have hB2 : (muxBody c aud fr).filter (fun x => !isElP x) = muxBody c aud fr :=
    filter_eq_self_of_all_true _ _ (fun x hx => by simp [hb x hx])
  have hF1 : ∀ p : (Nat × Bytes) → Bool, ((muxBody c aud fr).filter p).filter isElP = [] :=
    fun p => filter_eq_nil_of_all_false isElP _ (hbf p)
  have hF2 : ∀ p : (Nat × Bytes) → Bool, ((muxBody c aud fr).filter p).filter (fun x => !isElP x) = (muxBody c aud fr).filter p :=
    fun p => filter_eq_self_of_all_true _ _ (fun x hx => by simp [hbf p x hx])
  rw [muxFrame_pay]
  unfold muxBlPart
  cases c.eosBeforeEl with
  | true => simp only [if_true, List.filter_append, hE1, hE2, hB1, hB2, List.nil_append, List.append_nil, and_self]
  | false =>
    simp only [Bool.false_eq_true, if_false, List.filter_append, hE1, hE2, hF1, hF2, List.nil_append, List.append_nil,
      and_self]

/-- the muxed stream, split by layer -/
theorem muxed_filter (c : MCfg) (aud : Nat → Bytes) (frs : List (Nat × List Item)) (els : List (List Out))
    (hlen : frs.length = els.length) (hels : ∀ e ∈ els, ∀ o ∈ e, isElP (pay o) = true) :
    (((frs.zip els).flatMap (fun p => muxFrame c aud p.1 p.2)).map pay).filter isElP = els.flatten.map pay ∧
    (((frs.zip els).flatMap (fun p => muxFrame c aud p.1 p.2)).map pay).filter (fun x => !isElP x)
      = frs.flatMap (muxBlPart c aud) := by
  induction frs generalizing els with
  | nil => cases els <;> simp at hlen ⊢
  | cons fr rest ih =>
    cases els with
    | nil => simp at hlen
    | cons e els' =>
      have ih' := ih els' (by simpa using hlen) (fun x hx => hels x (by simp [hx]))
      have hf := muxFrame_filter c aud fr e (hels e (by simp))
      simp only [List.zip_cons_cons, List.flatMap_cons, List.map_append, List.filter_append, List.flatten_cons]
      rw [hf.1, hf.2, ih'.1, ih'.2]
      exact ⟨rfl, rfl⟩

theorem elNal_typ (c : MCfg) (conv : Bytes → Option Bytes) (it : Item) (o : Out)
    (h : elNal c conv it = some (some o)) : isElP (pay o) = true := by
  unfold elNal at h
  split at h
  · cases h
  · split at h
    · simp only [Option.some.injEq] at h; subst h; rfl
    · cases hc : (if c.convSet = true then conv it.data else some it.data) with
      | none => simp [hc] at h
      | some m => simp only [hc, Option.some.injEq] at h; subst h; rfl

theorem elFrame_typ (c : MCfg) (conv : Bytes → Option Bytes) (l : List Item) (e : List Out)
    (h : elFrame c conv l = some e) : ∀ o ∈ e, isElP (pay o) = true := by
  induction l generalizing e with
  | nil => simp [elFrame] at h; subst h; simp
  | cons it rest ih =>
    simp only [elFrame] at h
    cases hn : elNal c conv it with
    | none => simp [hn] at h
    | some oo =>
      cases hr : elFrame c conv rest with
      | none => cases oo <;> simp [hn, hr] at h
      | some os =>
        cases oo with
        | none => simp [hn, hr] at h; subst h; exact ih os hr
        | some o =>
          simp [hn, hr] at h; subst h
          intro x hx
          rcases List.mem_cons.mp hx with rfl | hx
          · exact elNal_typ c conv it _ hn
          · exact ih os hr x hx

theorem elFrames_typ (c : MCfg) (conv : Bytes → Option Bytes) (gs : List (Nat × List Item)) (els : List (List Out))
    (h : elFrames c conv gs = some els) : ∀ e ∈ els, ∀ o ∈ e, isElP (pay o) = true := by
  induction gs generalizing els with
  | nil => simp [elFrames] at h; subst h; simp
  | cons g rest ih =>
    simp only [elFrames] at h
    cases hf : elFrame c conv g.2 with
    | none => simp [hf] at h
    | some f =>
      cases hr : elFrames c conv rest with
      | none => simp [hf, hr] at h
      | some fs =>
        simp [hf, hr] at h; subst h
        intro e he
        rcases List.mem_cons.mp he with rfl | he
        · exact elFrame_typ c conv g.2 _ hf
        · exact ih fs hr e he

theorem elFrames_length (c : MCfg) (conv : Bytes → Option Bytes) (gs : List (Nat × List Item)) (els : List (List Out))
    (h : elFrames c conv gs = some els) : els.length = gs.length := by
  induction gs generalizing els with
  | nil => simp [elFrames] at h; subst h; rfl
  | cons g rest ih =>
    simp only [elFrames] at h
    cases hf : elFrame c conv g.2 with
    | none => simp [hf] at h
    | some f =>
      cases hr : elFrames c conv rest with
      | none => simp [hf, hr] at h
      | some fs => simp [hf, hr] at h; subst h; simp [ih fs hr]

/-- one EL NAL as mux writes it without --discard and without a mode -/
def wrapEl (it : Item) : Nat × Bytes :=
  if it.typ ≠ NAL_UNSPEC62 then (NAL_UNSPEC63, EL_PREFIX ++ it.data) else (NAL_UNSPEC62, it.data)

theorem elFrame_plain (c : MCfg) (conv : Bytes → Option Bytes) (l : List Item)
    (hd : c.discard = false) (hcs : c.convSet = false) :
    (elFrame c conv l).map (fun e => e.map pay) = some (l.map wrapEl) := by
  induction l with
  | nil => rfl
  | cons it rest ih =>
    simp only [elFrame]
    cases hr : elFrame c conv rest with
    | none => rw [hr] at ih; cases ih
    | some os =>
      rw [hr] at ih
      simp only [Option.map_some, Option.some.injEq] at ih
      by_cases h62 : it.typ = NAL_UNSPEC62
      · have : elNal c conv it = some (some ⟨scLen c.annexb NAL_UNSPEC62 false, NAL_UNSPEC62, it.data⟩) := by
          simp [elNal, hd, hcs, h62]
        simp [this, wrapEl, h62, pay, ih]
      · have : elNal c conv it = some (some ⟨scLen c.annexb NAL_UNSPEC63 false, NAL_UNSPEC63, EL_PREFIX ++ it.data⟩) := by
          simp [elNal, hd, h62]
        simp [this, wrapEl, h62, pay, ih]

theorem elFrames_plain (c : MCfg) (conv : Bytes → Option Bytes) (gs : List (Nat × List Item))
    (hd : c.discard = false) (hcs : c.convSet = false) :
    (elFrames c conv gs).map (fun els => els.map (fun e => e.map pay)) = some (gs.map (fun g => g.2.map wrapEl)) := by
  induction gs with
  | nil => rfl
  | cons g rest ih =>
    simp only [elFrames]
    have hf := elFrame_plain c conv g.2 hd hcs
    cases hf' : elFrame c conv g.2 with
    | none => rw [hf'] at hf; cases hf
    | some f =>
      cases hr : elFrames c conv rest with
      | none => rw [hr] at ih; cases ih
      | some fs =>
        rw [hf'] at hf; rw [hr] at ih
        simp only [Option.map_some, Option.some.injEq] at hf ih
        simp [hf, ih]

theorem runs_flatten (el : List Item) : (runs el).flatMap (·.2) = el := by
  cases el with
  | nil => rfl
  | cons it rest => simpa [runs] using framesAux_flatten it.au [it] rest

theorem muxAudFramesOk_of_lt (c : MCfg) (n : Nat) (frs : List (Nat × List Item)) (h : ∀ fr ∈ frs, fr.1 < n) :
    muxAudFramesOk c n frs = true := by
  induction frs with
  | nil => rfl
  | cons fr rest ih =>
    have h1 := h fr (by simp)
    cases rest with
    | nil => simp [muxAudFramesOk]; omega
    | cons fr2 rest2 =>
      simp only [muxAudFramesOk, ih (fun x hx => h x (by simp [hx])), Bool.and_true, Bool.or_eq_true, decide_eq_true_eq]
      exact Or.inr h1

/-- a BL whose last frame buffer holds a kept NAL is not empty -/
theorem frames_last_body_ne (c : MCfg) (bl : List Item)
    (hlast : ∀ fr, (frames bl).getLast? = some fr → blBody c fr.2 ≠ []) : bl ≠ [] := by
  intro h
  subst h
  exact hlast (0, []) (by simp [frames, framesAux]) (by simp [blBody])

/-- a BL whose every NAL belongs to a frame and whose last frame buffer holds a kept NAL: every frame buffer
carries the number of a frame -/
theorem mux_frames_lt (c : MCfg) (nFrames : Nat) (bl : List Item) (hfr : ∀ it ∈ bl, it.au < nFrames)
    (hlast : ∀ fr, (frames bl).getLast? = some fr → blBody c fr.2 ≠ []) : ∀ fr ∈ frames bl, fr.1 < nFrames := by
  have hne := frames_last_body_ne c bl hlast
  have hn : nFrames ≠ 0 := by
    cases bl with
    | nil => exact absurd rfl hne
    | cons it _ => have := hfr it (by simp); omega
  exact frames_label_lt nFrames bl hn hfr

/-- mux with equal frame counts -/
theorem mux_aligned (c : MCfg) (aud : Nat → Bytes) (conv : Bytes → Option Bytes) (nFrames : Nat) (bl el : List Item)
    (els : List (List Out)) (hdrop : c.drop = false) (hels : elFrames c conv (runs el) = some els)
    (hlen : (frames bl).length = (runs el).length)
    (hfr : ∀ it ∈ bl, it.au < nFrames)
    (hlast : ∀ fr, (frames bl).getLast? = some fr → blBody c fr.2 ≠ []) :
    mux c aud conv nFrames bl el = some (((frames bl).zip els).flatMap (fun p => muxFrame c aud p.1 p.2), false) := by
  have hlt := mux_frames_lt c nFrames bl hfr hlast
  unfold mux
  rw [hdrop, seiStage_false, hels]
  simp only
  rw [if_pos (muxAudFramesOk_of_lt c nFrames _ hlt)]
  rw [muxGo_aligned c aud nFrames (frames bl) els (by rw [elFrames_length c conv _ _ hels, hlen])
    (fun fr h => ⟨by have := hlt fr (List.mem_of_getLast? h); omega, hlast fr h⟩)]

theorem mux_el_longer (c : MCfg) (aud : Nat → Bytes) (conv : Bytes → Option Bytes) (nFrames : Nat) (bl el : List Item)
    (els : List (List Out)) (hdrop : c.drop = false) (hels : elFrames c conv (runs el) = some els)
    (hlen : (frames bl).length < (runs el).length)
    (hfr : ∀ it ∈ bl, it.au < nFrames)
    (hlast : ∀ fr, (frames bl).getLast? = some fr → blBody c fr.2 ≠ []) :
    mux c aud conv nFrames bl el = some (((frames bl).zip els).flatMap (fun p => muxFrame c aud p.1 p.2), true) := by
  have hlt := mux_frames_lt c nFrames bl hfr hlast
  unfold mux
  rw [hdrop, seiStage_false, hels]
  simp only
  rw [if_pos (muxAudFramesOk_of_lt c nFrames _ hlt)]
  rw [muxGo_el_longer c aud nFrames (frames bl) els (framesAux_ne_nil 0 [] bl)
    (by rw [elFrames_length c conv _ _ hels]; exact hlen)
    (fun fr h => ⟨by have := hlt fr (List.mem_of_getLast? h); omega, hlast fr h⟩)]

/-! ### BL NALs behind the last slice: labelled with the frame count, left to `finalize`, not written -/

theorem muxAudFramesOk_trailing (c : MCfg) (n : Nat) (frs : List (Nat × List Item)) (g : List Item)
    (h : ∀ fr ∈ frs, fr.1 < n) : muxAudFramesOk c n (frs ++ [(n, g)]) = true := by
  induction frs with
  | nil => simp [muxAudFramesOk]
  | cons fr rest ih =>
    have h1 := h fr (by simp)
    have ih' := ih (fun x hx => h x (by simp [hx]))
    cases rest with
    | nil =>
      simp only [List.cons_append, List.nil_append, muxAudFramesOk] at ih' ⊢
      simp [ih', h1]
    | cons fr2 rest2 =>
      simp only [List.cons_append, muxAudFramesOk] at ih' ⊢
      simp [ih', h1]

/-- equal frame counts, and one more BL frame buffer numbered `nFrames` at the end: that buffer is not written, and
the last frame — closed by a NAL instead of by `finalize`, with no EL frame queued behind its own — goes without
its EL frame, which is never written; no error -/
theorem muxGo_trailing (c : MCfg) (aud : Nat → Bytes) (nFrames : Nat) (frs : List (Nat × List Item)) (els : List (List Out))
    (g : List Item) (hne : frs ≠ []) (hlen : frs.length = els.length) :
    muxGo c aud nFrames (frs ++ [(nFrames, g)]) els =
      ((frs.zip (els.dropLast ++ [[]])).flatMap (fun p => muxFrame c aud p.1 p.2), false) := by
  induction frs generalizing els with
  | nil => exact absurd rfl hne
  | cons fr rest ih =>
    cases rest with
    | nil =>
      cases els with
      | nil => simp at hlen
      | cons e els' =>
        cases els' with
        | cons _ _ => simp at hlen
        | nil => simp [muxGo, muxFrame]
    | cons fr2 rest2 =>
      cases els with
      | nil => simp at hlen
      | cons e els' =>
        cases els' with
        | nil => simp at hlen
        | cons e2 els'' =>
          have ih' := ih (e2 :: els'') (by simp) (by simpa using hlen)
          simp only [List.cons_append] at ih' ⊢
          simp only [muxGo, ih', List.dropLast_cons₂, List.cons_append, List.zip_cons_cons, List.flatMap_cons, muxFrame,
            List.append_assoc]

/-- **mux drops the BL NALs behind the last slice, and with them the last EL frame.**  `tail`: at least one NAL
labelled with the frame count of the BL (what hevc_parser gives an AUD, prefix SEI, VPS/SPS/PPS … that follows the
last slice), behind a BL whose every NAL belongs to a frame; as many EL frames as BL frame buffers.  The output is
the aligned interleave of `bl` alone with the last EL frame left out: no NAL of `tail` is written (not even under
--no-add-aud), the EL frame of the last picture is lost, and the exit status is 0. -/
theorem mux_trailing_dropped (c : MCfg) (aud : Nat → Bytes) (conv : Bytes → Option Bytes) (nFrames : Nat)
    (bl tail el : List Item) (els : List (List Out)) (hdrop : c.drop = false)
    (hels : elFrames c conv (runs el) = some els) (hlen : (frames bl).length = (runs el).length)
    (hn : nFrames ≠ 0) (hfr : ∀ it ∈ bl, it.au < nFrames)
    (htail : ∀ it ∈ tail, it.au = nFrames) (hne : tail ≠ []) :
    mux c aud conv nFrames (bl ++ tail) el =
      some (((frames bl).zip (els.dropLast ++ [[]])).flatMap (fun p => muxFrame c aud p.1 p.2), false) := by
  have hlt := frames_label_lt nFrames bl hn hfr
  unfold mux
  rw [hdrop, seiStage_false, hels]
  simp only
  rw [frames_append_tail nFrames bl tail hn hfr htail hne]
  rw [if_pos (muxAudFramesOk_trailing c nFrames _ tail hlt)]
  rw [muxGo_trailing c aud nFrames (frames bl) els tail (framesAux_ne_nil 0 [] bl)
    (by rw [elFrames_length c conv _ _ hels, hlen])]

/-- what demux returns for an EL-bound NAL, on (type, bytes) -/
def unwrapEl (x : Nat × Bytes) : Nat × Bytes :=
  if x.1 = NAL_UNSPEC63 then (nalType (x.2.drop 2), x.2.drop 2) else x

theorem elSpec_plain (conv : Bytes → Option Bytes) (it : Item) : elSpec false conv it = some (unwrapEl (payI it)) := by
  unfold elSpec unwrapEl rpuConv payI
  split <;> simp_all

theorem unwrap_wrap (it : Item) :
    unwrapEl (wrapEl it) = if it.typ ≠ NAL_UNSPEC62 then (nalType it.data, it.data) else (NAL_UNSPEC62, it.data) := by
  by_cases h : it.typ = NAL_UNSPEC62
  · have : ¬ (NAL_UNSPEC62 = NAL_UNSPEC63) := by decide
    simp [unwrapEl, wrapEl, h, this]
  · simp [unwrapEl, wrapEl, h, EL_PREFIX]

/-- **demux(mux(BL, EL)) returns both layers.**  With equal frame counts (no --discard, no mode): whatever
frame labels the muxed stream is read back with, the EL file of demux holds exactly the NALs of the EL that was
muxed in (every byte; the RPUs in place), and the BL file holds, frame by frame, the buffered BL NALs
(`muxBlPart`: regenerated AUD first unless --no-add-aud, EOS/EOB moved behind the frame unless --eos-before-el). -/
theorem mux_demux (c : MCfg) (aud : Nat → Bytes) (conv conv' : Bytes → Option Bytes) (nFrames : Nat) (bl el : List Item)
    (out : List Out) (e : Bool) (mo : List Item) (s : Sinks) (annexb' : Bool)
    (hdrop : c.drop = false) (hd : c.discard = false) (hcs : c.convSet = false)
    (hlen : (frames bl).length = (runs el).length)
    (hfr : ∀ it ∈ bl, it.au < nFrames)
    (hlast : ∀ fr, (frames bl).getLast? = some fr → blBody c fr.2 ≠ [])
    (hmux : mux c aud conv nFrames bl el = some (out, e))
    (hmo : mo.map payI = out.map pay) (hnd : NoDupFrom 0 (rpuAus mo))
    (hdemux : general { cfgDemux false with annexb := annexb' } conv' mo = some s) :
    e = false ∧
    s.el.map pay = el.map (fun it => if it.typ ≠ NAL_UNSPEC62 then (nalType it.data, it.data) else (NAL_UNSPEC62, it.data)) ∧
    s.bl.map pay = (frames bl).flatMap (muxBlPart c aud) := by
  have hp := elFrames_plain c conv (runs el) hd hcs
  cases hels : elFrames c conv (runs el) with
  | none => rw [hels] at hp; cases hp
  | some els =>
    rw [hels] at hp
    simp only [Option.map_some, Option.some.injEq] at hp
    rw [mux_aligned c aud conv nFrames bl el els hdrop hels hlen hfr hlast] at hmux
    simp only [Option.some.injEq, Prod.mk.injEq] at hmux
    obtain ⟨hout, he⟩ := hmux
    refine ⟨he.symm, ?_⟩
    have hf := muxed_filter c aud (frames bl) els (by rw [elFrames_length c conv _ _ hels, hlen])
      (elFrames_typ c conv _ _ hels)
    rw [hout, ← hmo] at hf
    -- the two files of demux
    have hb := run_bl_spec { cfgDemux false with annexb := annexb' } conv' {} mo rfl rfl hnd
    have hel := run_el_spec { cfgDemux false with annexb := annexb' } conv' {} mo rfl rfl rfl rfl hnd
    rw [general] at hdemux
    rw [hdemux] at hb hel
    simp only [Option.map_some] at hb hel
    have hconv : optMap (fun it => rpuConv ({ cfgDemux false with annexb := annexb' } : Cfg).convSet conv' it.data) (mo.filter isRpu)
        = some ((mo.filter isRpu).map (·.data)) := by
      have : (fun it : Item => rpuConv ({ cfgDemux false with annexb := annexb' } : Cfg).convSet conv' it.data) = fun it => some it.data := by
        funext it; simp [rpuConv, cfgDemux]
      rw [this, optMap_some]
    rw [hconv] at hb
    simp only [Option.map_some, Option.some.injEq, cfgDemux, Bool.not_false, if_true] at hb
    constructor
    · have hspec : elSpec ({ cfgDemux false with annexb := annexb' } : Cfg).convSet conv' = fun it => some (unwrapEl (payI it)) := by
        funext it; exact elSpec_plain conv' it
      rw [hspec, optMap_some] at hel
      simp only [Option.some.injEq] at hel
      rw [hel]
      have e1 : (mo.filter isEl).map (fun it => unwrapEl (payI it)) = ((mo.map payI).filter isElP).map unwrapEl := by
        rw [List.filter_map, List.map_map]; rfl
      rw [e1, hf.1]
      have e2 : els.flatten.map pay = (els.map (fun e => e.map pay)).flatten := by
        rw [List.map_flatten]
      rw [e2, hp, ← List.flatMap_def, List.map_flatMap]
      have e3 : ((runs el).flatMap fun g => (g.2.map wrapEl).map unwrapEl) =
          ((runs el).flatMap (·.2)).map (fun it => unwrapEl (wrapEl it)) := by
        rw [List.map_flatMap]; congr 1; funext g; rw [List.map_map]; rfl
      rw [e3, runs_flatten]
      congr 1; funext it; exact unwrap_wrap it
    · rw [hb]
      have e1 : (mo.filter isBl).map payI = (mo.map payI).filter (fun x => !isElP x) := by
        rw [List.filter_map]; rfl
      rw [e1, hf.2]

end Dovi.Hevc
