import DoviModel.Model.Av1
import DoviModel.Proofs.Bits
/-!
# The model parser panics only through the third-party exp-Golomb readers

`Good s`: the remaining input contains no run of 63 zero bits. It is closed under taking suffixes, so it is
an invariant of every read. Under it `get_ue` never sees 64 leading zeros and `get_se` never reaches
`i64::MIN`; nothing else in the parser model can panic.
-/
namespace Dovi

/-- no run of `n` consecutive zero bits starting within the first… anywhere in `s` -/
def zeroRunAt : Nat → Bits → Bool
  | 0, _ => true
  | _+1, [] => false
  | n+1, b :: t => !b && zeroRunAt n t

def Good : Bits → Prop
  | [] => True
  | b :: t => zeroRunAt 63 (b :: t) = false ∧ Good t

def Good.dec : (s : Bits) → Decidable (Good s)
  | [] => isTrue trivial
  | b :: t =>
    match Good.dec t with
    | isTrue h =>
      if hz : zeroRunAt 63 (b :: t) = false then isTrue ⟨hz, h⟩ else isFalse (fun h' => hz h'.1)
    | isFalse h => isFalse (fun h' => h h'.2)

instance : DecidablePred Good := Good.dec

theorem Good.tail {b : Bool} {t : Bits} (h : Good (b :: t)) : Good t := h.2

theorem Good.drop (n : Nat) {s : Bits} (h : Good s) : Good (s.drop n) := by
  induction n generalizing s with
  | zero => simpa using h
  | succ n ih =>
    cases s with
    | nil => simp [Good]
    | cons b t => simpa using ih h.tail

/-- a parser that does not panic on good input and leaves good input -/
structure NoPanicP {α} (p : P α) : Prop where
  h : ∀ s, Good s → p s ≠ .panic ∧ ∀ a s', p s = .ok (a, s') → Good s'

namespace NoPanicP

theorem pure {α} (a : α) : NoPanicP (Pure.pure a : P α) := by
  refine ⟨fun s hs => ?_⟩
  refine ⟨by simp [Pure.pure, P.pure], ?_⟩
  intro a' s' h
  simp [Pure.pure, P.pure] at h
  obtain ⟨_, rfl⟩ := h
  exact hs

theorem fail {α} : NoPanicP (P.fail : P α) := by
  refine ⟨fun s _ => ?_⟩; simp [P.fail]

theorem ensure (c : Bool) : NoPanicP (P.ensure c) := by
  refine ⟨fun s hs => ?_⟩
  unfold P.ensure
  split
  · refine ⟨by simp, ?_⟩
    intro a s' h; simp at h; obtain ⟨_, rfl⟩ := h; exact hs
  · simp

theorem available : NoPanicP P.available := by
  refine ⟨fun s hs => ?_⟩
  refine ⟨by simp [P.available], ?_⟩
  intro a s' h; simp [P.available] at h; obtain ⟨_, rfl⟩ := h; exact hs

theorem bind {α β} {x : P α} {f : α → P β} (hx : NoPanicP x) (hf : ∀ a, NoPanicP (f a)) :
    NoPanicP (x >>= f) := by
  refine ⟨fun s hs => ?_⟩
  obtain ⟨h1, h2⟩ := hx.h s hs
  rw [P.bind_apply]
  cases hxs : x s with
  | ok p =>
    obtain ⟨a, s1⟩ := p
    exact (hf a).h s1 (h2 a s1 hxs)
  | error => simp
  | panic => exact absurd hxs h1

theorem readN (n : Nat) : NoPanicP (readN n) := by
  refine ⟨fun s hs => ?_⟩
  unfold Dovi.readN
  split
  · refine ⟨by simp, ?_⟩
    intro a s' h; simp at h; obtain ⟨_, rfl⟩ := h; exact hs.drop n
  · simp

theorem readBits (n : Nat) : NoPanicP (readBits n) := by
  refine ⟨fun s hs => ?_⟩
  unfold Dovi.readBits
  split
  · refine ⟨by simp, ?_⟩
    intro a s' h; simp at h; obtain ⟨_, rfl⟩ := h; exact hs.drop n
  · simp

theorem readBit : NoPanicP readBit := by
  refine ⟨fun s hs => ?_⟩
  cases s with
  | nil => simp [Dovi.readBit]
  | cons b t =>
    refine ⟨by simp [Dovi.readBit], ?_⟩
    intro a s' h; simp [Dovi.readBit] at h; obtain ⟨_, rfl⟩ := h; exact hs.tail

theorem readAlignZero : NoPanicP readAlignZero := by
  refine ⟨fun s hs => ?_⟩
  unfold Dovi.readAlignZero
  simp only
  split
  · refine ⟨by simp, ?_⟩
    intro a s' h; simp at h; obtain ⟨_, rfl⟩ := h; exact hs.drop _
  · simp

theorem ite {α} (c : Prop) [Decidable c] {p q : P α} (hp : NoPanicP p) (hq : NoPanicP q) :
    NoPanicP (if c then p else q) := by
  split <;> assumption

end NoPanicP

/-- `readUnary` from a good string: fewer than 63 zeros can follow `z` zeros already counted -/
theorem readUnary_good (k : Nat) (s : Bits) (z : Nat) (hz : z ≤ 62)
    (hrun : zeroRunAt (63 - z) s = false) (hs : Good s) :
    readUnary k s ≠ .panic ∧ ∀ r s', readUnary k s = .ok (r, s') → r ≤ k + (62 - z) ∧ Good s' := by
  show readUnaryAux k s ≠ .panic ∧ ∀ r s', readUnaryAux k s = .ok (r, s') → r ≤ k + (62 - z) ∧ Good s'
  induction s generalizing k z with
  | nil => simp [readUnaryAux]
  | cons b t ih =>
    cases b with
    | true =>
      refine ⟨by simp [readUnaryAux], ?_⟩
      intro r s' h
      simp [readUnaryAux] at h
      obtain ⟨rfl, rfl⟩ := h
      exact ⟨by omega, hs.tail⟩
    | false =>
      simp only [readUnaryAux]
      have e : 63 - z = (62 - z) + 1 := by omega
      rw [e] at hrun
      simp only [zeroRunAt, Bool.not_false, Bool.true_and] at hrun
      by_cases hz62 : z = 62
      · subst hz62
        simp [zeroRunAt] at hrun
      · have e2 : 62 - z = 63 - (z + 1) := by omega
        rw [e2] at hrun
        have := ih (k+1) (z+1) (by omega) hrun hs.tail
        refine ⟨this.1, ?_⟩
        intro r s' h
        obtain ⟨h1, h2⟩ := this.2 r s' h
        exact ⟨by omega, h2⟩

theorem good_zeroRun {s : Bits} (hs : Good s) : zeroRunAt 63 s = false := by
  cases s with
  | nil => rfl
  | cons b t => exact hs.1

namespace NoPanicP

theorem readUe : NoPanicP readUe := by
  refine ⟨fun s hs => ?_⟩
  have hu := readUnary_good 0 s 0 (by omega) (good_zeroRun hs) hs
  unfold Dovi.readUe
  rw [P.bind_apply]
  cases hr : readUnary 0 s with
  | panic => exact absurd hr hu.1
  | error => simp
  | ok p =>
    obtain ⟨k, s1⟩ := p
    obtain ⟨hk, hg⟩ := hu.2 k s1 hr
    simp only
    by_cases hk0 : k = 0
    · simp only [hk0, if_true]
      exact (NoPanicP.pure 0).h s1 hg
    · simp only [hk0, if_false]
      have hk64 : ¬ k > 64 := by omega
      simp only [hk64, if_false]
      have hne : ¬ k = 64 := by omega
      have : NoPanicP (Dovi.readN k >>= fun v => if k = 64 then P.panic else Pure.pure (v + 2 ^ k - 1)) := by
        apply NoPanicP.bind (NoPanicP.readN k)
        intro v
        simp only [hne, if_false]
        exact NoPanicP.pure _
      exact this.h s1 hg

/-- on good input every code number read by `get_ue` is below 2^63 -/
theorem readUe_bound (s : Bits) (hs : Good s) (v : Nat) (s' : Bits) (h : Dovi.readUe s = .ok (v, s')) :
    v < 2^63 := by
  have hu := readUnary_good 0 s 0 (by omega) (good_zeroRun hs) hs
  unfold Dovi.readUe at h
  rw [P.bind_apply] at h
  cases hr : readUnary 0 s with
  | panic => simp [hr] at h
  | error => simp [hr] at h
  | ok p =>
    obtain ⟨k, s1⟩ := p
    obtain ⟨hk, _⟩ := hu.2 k s1 hr
    simp only [hr] at h
    by_cases hk0 : k = 0
    · simp only [hk0, if_true, P.pure_apply] at h
      injection h with h
      injection h with h1 h2
      omega
    · have hk64 : ¬ k > 64 := by omega
      have hne : ¬ k = 64 := by omega
      simp only [hk0, if_false, hk64] at h
      rw [P.bind_apply] at h
      cases hn : Dovi.readN k s1 with
      | panic => simp [hn] at h
      | error => simp [hn] at h
      | ok q =>
        obtain ⟨w, s2⟩ := q
        simp only [hn, hne, if_false, P.pure_apply] at h
        injection h with h
        injection h with h1 h2
        have hw := readN_lt hn
        have hp : 2^k ≤ 2^62 := Nat.pow_le_pow_right (by omega) (by omega)
        omega

end NoPanicP

end Dovi

namespace Dovi

/-- `u64 as f64` never exceeds the next power of two -/
theorem roundToF64_le_pow (n : Nat) (hn : n ≠ 0) : roundToF64 n ≤ 2^(n.log2 + 1) := by
  unfold roundToF64
  split
  · exact Nat.le_of_lt Nat.lt_log2_self
  · rename_i h53
    simp only
    have hL : 53 ≤ n.log2 := by
      apply Decidable.byContradiction
      intro hc
      have : n < 2^53 := by
        have h1 : n < 2^(n.log2 + 1) := Nat.lt_log2_self
        have h2 : 2^(n.log2 + 1) ≤ 2^53 := Nat.pow_le_pow_right (by omega) (by omega)
        omega
      exact h53 this
    generalize hLe : n.log2 = L at *
    have he : L + 1 - 53 + 53 = L + 1 := by omega
    generalize hE : L + 1 - 53 = e at *
    have hpow : 2^53 * 2^e = 2^(L+1) := by rw [← Nat.pow_add]; congr 1; omega
    have hnlt : n < 2^(L+1) := by rw [← hLe]; exact Nat.lt_log2_self
    have hq : n / 2^e < 2^53 := by
      apply (Nat.div_lt_iff_lt_mul (Nat.two_pow_pos e)).mpr
      rw [hpow]; exact hnlt
    have hq' : (if n % 2^e > 2^(e-1) ∨ (n % 2^e = 2^(e-1) ∧ n / 2^e % 2 = 1) then n / 2^e + 1 else n / 2^e) ≤ 2^53 := by
      split <;> omega
    calc _ ≤ 2^53 * 2^e := Nat.mul_le_mul_right _ hq'
      _ = 2^(L+1) := hpow

/-- for `n ≤ 2^63` half of the rounded value stays below `2^63` -/
theorem roundToF64_half_lt (n : Nat) (hn : n ≠ 0) (h : n ≤ 2^63) : roundToF64 n / 2 < 2^63 := by
  by_cases he : n = 2^63
  · subst he; decide +kernel
  · have hlt : n < 2^63 := by omega
    have hlog : n.log2 + 1 ≤ 63 := by
      have := (Nat.log2_lt hn (k := 63)).mpr hlt
      omega
    have h1 := roundToF64_le_pow n hn
    have h2 : 2^(n.log2 + 1) ≤ 2^63 := Nat.pow_le_pow_right (by omega) hlog
    omega

end Dovi

namespace Dovi
namespace NoPanicP

theorem readSe : NoPanicP readSe := by
  refine ⟨fun s hs => ?_⟩
  unfold Dovi.readSe
  rw [P.bind_apply]
  have hu := NoPanicP.readUe.h s hs
  cases hr : Dovi.readUe s with
  | panic => exact absurd hr hu.1
  | error => simp
  | ok p =>
    obtain ⟨code, s1⟩ := p
    have hb := readUe_bound s hs code s1 hr
    have hg := hu.2 code s1 hr
    have hm : ¬ roundToF64 (code + 1) / 2 ≥ 2^63 := by
      have := roundToF64_half_lt (code + 1) (by omega) (by omega)
      omega
    simp only [hm, if_false]
    split
    · exact (NoPanicP.pure _).h s1 hg
    · exact (NoPanicP.pure _).h s1 hg

theorem repeatP {α} (n : Nat) {p : P α} (hp : NoPanicP p) : NoPanicP (repeatP n p) := by
  induction n with
  | zero => exact NoPanicP.pure _
  | succ n ih =>
    unfold Dovi.repeatP
    exact NoPanicP.bind hp fun a => NoPanicP.bind ih fun as => NoPanicP.pure _

theorem readFld (f : Fld) : NoPanicP (readFld f) := by
  unfold Dovi.readFld
  exact NoPanicP.bind (NoPanicP.readN _) fun v => NoPanicP.pure _

theorem readFlds (fs : List Fld) : NoPanicP (readFlds fs) := by
  induction fs with
  | nil => exact NoPanicP.pure _
  | cons f fs ih =>
    unfold Dovi.readFlds
    exact NoPanicP.bind (NoPanicP.readFld f) fun v => NoPanicP.bind ih fun vs => NoPanicP.pure _

end NoPanicP
end Dovi

namespace Dovi
namespace NoPanicP

/-- one step of the structural argument: binds, reads, pures, conditionals -/
macro "np_step" : tactic => `(tactic| first
  | exact NoPanicP.pure _
  | exact NoPanicP.fail
  | exact NoPanicP.ensure _
  | exact NoPanicP.available
  | exact NoPanicP.readN _
  | exact NoPanicP.readBit
  | exact NoPanicP.readBits _
  | exact NoPanicP.readUe
  | exact NoPanicP.readSe
  | exact NoPanicP.readAlignZero
  | exact NoPanicP.readFlds _
  | (apply NoPanicP.bind)
  | (intro _)
  | (split)
  | (dsimp only))

macro "np" : tactic => `(tactic| repeat' np_step)

theorem parseHeader : NoPanicP parseHeader := by
  unfold Dovi.parseHeader
  np

theorem parseCoef (h : Header) : NoPanicP (parseCoef h) := by
  unfold Dovi.parseCoef
  np

theorem parsePolyPiece (h : Header) (c : PolyCurve) : NoPanicP (parsePolyPiece h c) := by
  unfold Dovi.parsePolyPiece
  np
  all_goals first | exact NoPanicP.repeatP _ (parseCoef h) | skip

theorem parseMmrPiece (h : Header) (c : MmrCurve) : NoPanicP (parseMmrPiece h c) := by
  unfold Dovi.parseMmrPiece
  np
  all_goals first
    | exact parseCoef h
    | exact NoPanicP.repeatP _ (NoPanicP.repeatP _ (parseCoef h))
    | skip

theorem parsePieces (h : Header) (n : Nat) (c : Curve) : NoPanicP (parsePieces h n c) := by
  induction n generalizing c with
  | zero => exact NoPanicP.pure _
  | succ n ih =>
    unfold Dovi.parsePieces
    np
    all_goals first
      | exact parsePolyPiece h _
      | exact parseMmrPiece h _
      | exact ih _
      | exact NoPanicP.repeatP _ (parseCoef h)
      | exact NoPanicP.repeatP _ (NoPanicP.repeatP _ (parseCoef h))
      | exact parseCoef h
      | skip

theorem parsePivots (bl : Nat) : NoPanicP (parsePivots bl) := by
  unfold Dovi.parsePivots
  np
  all_goals first | exact NoPanicP.repeatP _ (NoPanicP.readN _) | skip

theorem parseCurvePieces (h : Header) (cs : List Curve) : NoPanicP (parseCurvePieces h cs) := by
  induction cs with
  | nil => exact NoPanicP.pure _
  | cons c cs ih =>
    unfold Dovi.parseCurvePieces
    np
    all_goals first | exact parsePieces h _ _ | exact ih | exact NoPanicP.repeatP _ (parseCoef h) | exact NoPanicP.repeatP _ (NoPanicP.repeatP _ (parseCoef h)) | exact parseCoef h | skip

theorem parseNlqComp (h : Header) : NoPanicP (parseNlqComp h) := by
  unfold Dovi.parseNlqComp
  np

theorem parseNlq (h : Header) : NoPanicP (parseNlq h) := by
  unfold Dovi.parseNlq
  np
  all_goals first | exact NoPanicP.repeatP _ (parseNlqComp h) | skip

theorem parseMapping (h : Header) : NoPanicP (parseMapping h) := by
  unfold Dovi.parseMapping
  np
  all_goals first
    | exact NoPanicP.repeatP _ (parsePivots _)
    | exact NoPanicP.repeatP _ (NoPanicP.readN _)
    | exact parseCurvePieces h _
    | exact parseNlq h
    | skip

end NoPanicP
end Dovi

namespace Dovi

/-- for a level its container accepts and a length its `parse` accepts, `required_bits()` is defined -/
theorem blockRequiredBits_some (allowed : List Nat) (ha : allowed = cmv29Levels ∨ allowed = cmv40Levels)
    (level len : Nat) (hl : allowed.contains level = true) (hv : validBlockLength level len = true) :
    blockRequiredBits level len ≠ none := by
  have hmem : level ∈ [1, 2, 4, 5, 6, 255, 3, 8, 9, 10, 11, 254] := by
    rcases ha with rfl | rfl
    · simp [cmv29Levels] at hl ⊢; omega
    · simp [cmv40Levels] at hl ⊢; omega
  simp only [List.mem_cons, List.mem_nil_iff, or_false] at hmem
  rcases hmem with rfl | rfl | rfl | rfl | rfl | rfl | rfl | rfl | rfl | rfl | rfl | rfl <;>
    simp [blockRequiredBits, validBlockLength] at hv ⊢
  · rcases hv with (((rfl | rfl) | rfl) | rfl) | rfl <;> simp
  · rcases hv with rfl | rfl <;> simp
  · rcases hv with rfl | rfl <;> simp

namespace NoPanicP

theorem bind_ensure {β} (c : Bool) {p : P β} (hp : c = true → NoPanicP p) :
    NoPanicP (P.ensure c >>= fun _ => p) := by
  refine ⟨fun s hs => ?_⟩
  rw [P.bind_apply]
  cases c with
  | false => simp
  | true => simpa using (hp rfl).h s hs

theorem parseBlock (allowed other : List Nat) (ha : allowed = cmv29Levels ∨ allowed = cmv40Levels) :
    NoPanicP (parseBlock allowed other) := by
  unfold Dovi.parseBlock
  apply NoPanicP.bind NoPanicP.readUe; intro len
  apply NoPanicP.bind (NoPanicP.readN 8); intro level
  split
  · exact NoPanicP.fail
  · split
    · exact NoPanicP.fail
    · rename_i hother hallowed
      apply bind_ensure; intro hvalid
      split
      · exact NoPanicP.fail
      · apply NoPanicP.bind (NoPanicP.readFlds _); intro raw
        dsimp only
        apply bind_ensure; intro _
        split
        · rename_i hnone
          have hc : allowed.contains level = true := by
            simpa using hallowed
          exact absurd hnone (blockRequiredBits_some allowed ha level len hc hvalid)
        · np

theorem parseContainer (allowed other : List Nat) (ha : allowed = cmv29Levels ∨ allowed = cmv40Levels) :
    NoPanicP (parseContainer allowed other) := by
  unfold Dovi.parseContainer
  repeat' (first | exact NoPanicP.repeatP _ (parseBlock allowed other ha) | np_step)

theorem parseDmData (h : Header) : NoPanicP (parseDmData h) := by
  unfold Dovi.parseDmData
  repeat' (first
    | exact parseContainer _ _ (Or.inl rfl)
    | exact parseContainer _ _ (Or.inr rfl)
    | np_step)

theorem readRpuData : NoPanicP readRpuData := by
  unfold Dovi.readRpuData
  repeat' (first
    | exact parseHeader
    | exact parseMapping _
    | exact parseDmData _
    | np_step)

end NoPanicP

/-- **the model parser never panics on input whose syntax bits contain no run of 63 zero bits** — i.e. the only
panics of the RPU parser are the two third-party exp-Golomb sites (64 leading zeros in `get_ue`, `i64::MIN` in
`get_se`), both of which need such a run -/
theorem parseRpu_no_panic (data : Bytes)
    (hg : Good (bytesToBits (data.take (data.length - trailingZeroes data)))) : parseRpu data ≠ .panic := by
  unfold parseRpu
  simp only
  split
  · simp
  · split
    · simp
    · have := (NoPanicP.readRpuData.h _ hg).1
      cases hr : readRpuData (bytesToBits (List.take (data.length - trailingZeroes data) data)) with
      | panic => exact absurd hr this
      | error => simp
      | ok p =>
        obtain ⟨r, s⟩ := p
        simp only
        split
        · simp
        · split <;> simp

end Dovi
