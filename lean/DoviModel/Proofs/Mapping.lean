import DoviModel.Model.RpuWrite
import DoviModel.Proofs.Bits
import DoviModel.Proofs.Block
import DoviModel.Proofs.Container
/-!
# rpu_data_mapping + NLQ: write → parse

* `parseMapping_writeMapping`: whatever `writeMapping` emits for a mapping of the shape the parser produces
  (`MappingWf`) is parsed back by `parseMapping` to exactly the same value, consuming exactly the written bits.
* `readSe_writeSe`: `get_se ∘ write_se = id` under the exact condition `seExact` (`f64` round trip of the code
  number; implied by `|v| < 2^52`).
* non-vacuity: `exMap81`, `exMap7` (multi-piece polynomial + MMR + NLQ), `exMapF` (`coefficient_data_type = 1`).
* `parseMapping_shape`: every parse result that passes `Curve.piecesOk` satisfies `MappingShape` (= `MappingWf`
  without the `seExact` bound); `parseMapping_writeMapping_of_parse`: parse → write → parse.
* `exMixed`: a component mixing polynomial and MMR pieces is accepted by `parseMapping` but makes the writer panic.
-/
namespace Dovi

/-! ## generic helpers -/

@[simp] theorem Res.ok_bind {α β} (a : α) (f : α → Res β) : (Res.ok a).bind f = f a := rfl

theorem pure_ok {α} (a : α) (s : Bits) : (Pure.pure a : P α) s = .ok (a, s) := rfl

theorem Res.bind_eq_ok' {α β} {x : Res α} {f : α → Res β} {b : β} (h : x.bind f = .ok b) :
    ∃ a, x = .ok a ∧ f a = .ok b := by
  cases x with
  | ok a => exact ⟨a, rfl, h⟩
  | error => cases h
  | panic => cases h

theorem idx_of {α} {l : List α} {i : Nat} {a : α} (h : l[i]? = some a) : idx l i = .ok a := by
  simp [idx, h]

theorem idx_eq_ok {α} {l : List α} {i : Nat} {a : α} (h : idx l i = .ok a) : l[i]? = some a := by
  unfold idx at h
  split at h
  · rename_i b hb; injection h with h; subst h; exact hb
  · cases h

theorem idx_bind_ok {α β} {l : List α} {i : Nat} {f : α → Res β} {b : β} (h : (idx l i).bind f = .ok b) :
    ∃ a, l[i]? = some a ∧ f a = .ok b := by
  obtain ⟨a, ha, hf⟩ := Res.bind_eq_ok' h
  exact ⟨a, idx_eq_ok ha, hf⟩

theorem getD_of_getElem? {α} {l : List α} {i : Nat} {a d : α} (h : l[i]? = some a) : l.getD i d = a := by
  simp [List.getD_eq_getElem?_getD, h]

theorem getElem?_getD_of_lt {α} {l : List α} {i : Nat} (d : α) (h : i < l.length) : l[i]? = some (l.getD i d) := by
  simp [List.getD_eq_getElem?_getD, List.getElem?_eq_getElem h]

theorem take_succ_of_getElem? {α} {l : List α} {i : Nat} {a : α} (h : l[i]? = some a) :
    l.take i ++ [a] = l.take (i + 1) := by
  rw [List.take_add_one, h]; rfl

theorem range_map_getD {α} (l : List α) (n : Nat) (d : α) (hl : l.length = n) :
    (List.range n).map (fun j => l.getD j d) = l := by
  apply List.ext_getElem?
  intro i
  by_cases hi : i < n
  · simp [List.getD_eq_getElem?_getD, hi, List.getElem?_eq_getElem (hl ▸ hi)]
  · have : l.length ≤ i := by omega
    simp [hi, List.getElem?_eq_none this]

/-! ### `wcat` -/

theorem wcat_cons_ok {a : Res Bits} {l : List (Res Bits)} {w : Bits} (h : wcat (a :: l) = .ok w) :
    ∃ wa wl, a = .ok wa ∧ wcat l = .ok wl ∧ w = wa ++ wl := by
  cases a with
  | error => simp [wcat] at h
  | panic => simp [wcat] at h
  | ok b =>
    simp only [wcat] at h
    obtain ⟨rest, hr, hb⟩ := Res.bind_eq_ok' h
    injection hb with hb
    exact ⟨b, rest, rfl, hr, hb.symm⟩

theorem wcat_nil_ok {w : Bits} (h : wcat [] = .ok w) : w = [] := by
  simp [wcat] at h; exact h

theorem wcat_append_ok {l1 l2 : List (Res Bits)} {w : Bits} (h : wcat (l1 ++ l2) = .ok w) :
    ∃ w1 w2, wcat l1 = .ok w1 ∧ wcat l2 = .ok w2 ∧ w = w1 ++ w2 := by
  induction l1 generalizing w with
  | nil => exact ⟨[], w, rfl, h, rfl⟩
  | cons a l1 ih =>
    obtain ⟨wa, wl, ha, hl, rfl⟩ := wcat_cons_ok (by simpa using h)
    obtain ⟨w1, w2, h1, h2, rfl⟩ := ih hl
    subst ha
    refine ⟨wa ++ w1, w2, ?_, h2, by simp⟩
    simp [wcat, h1]

theorem wcat_singleton_ok {a : Res Bits} {w : Bits} (h : wcat [a] = .ok w) : a = .ok w := by
  obtain ⟨wa, wl, ha, hl, rfl⟩ := wcat_cons_ok h
  have := wcat_nil_ok hl
  subst this
  simpa using ha

/-- `wcat` of a `flatMap` is the `wcat` of the inner `wcat`s -/
theorem wcat_flatMap_ok {ι} (l : List ι) (g : ι → List (Res Bits)) {w : Bits}
    (h : wcat (l.flatMap g) = .ok w) : wcat (l.map fun j => wcat (g j)) = .ok w := by
  induction l generalizing w with
  | nil => simpa using h
  | cons a l ih =>
    rw [List.flatMap_cons] at h
    obtain ⟨w1, w2, h1, h2, rfl⟩ := wcat_append_ok h
    simp [wcat, h1, ih h2]

/-- total length of the output of a list of fixed-width writes -/
theorem wcat_writeN_length (n : Nat) (l : List Nat) {w : Bits} (h : wcat (l.map (writeN n)) = .ok w) :
    w.length = l.length * n := by
  induction l generalizing w with
  | nil => have := wcat_nil_ok (by simpa using h); subst this; simp
  | cons a l ih =>
    obtain ⟨wa, wl, ha, hl, rfl⟩ := wcat_cons_ok (by simpa using h)
    rw [List.length_append, writeN_length ha, ih hl, List.length_cons, Nat.succ_mul]
    omega

/-! ### `repeatP` over a list of written parts -/

/-- if the `i`-th written part parses (with `p`) to `f i`, the concatenation parses to `l.map f` -/
theorem repeatP_wcat_map {α ι} (p : P α) (wr : ι → Res Bits) (f : ι → α) (l : List ι) (w r : Bits)
    (hw : wcat (l.map wr) = .ok w)
    (hstep : ∀ i ∈ l, ∀ wi r', wr i = .ok wi → p (wi ++ r') = .ok (f i, r')) :
    repeatP l.length p (w ++ r) = .ok (l.map f, r) := by
  induction l generalizing w with
  | nil =>
    have := wcat_nil_ok (by simpa using hw); subst this
    rfl
  | cons a l ih =>
    obtain ⟨wa, wl, ha, hl, rfl⟩ := wcat_cons_ok (by simpa using hw)
    simp only [List.length_cons, repeatP, List.append_assoc, List.map_cons]
    rw [P.bind_of_ok (hstep a (by simp) wa _ ha)]
    rw [P.bind_of_ok (ih wl hl (fun i hi => hstep i (by simp [hi])))]
    rfl

theorem repeatP_wcat_range {α} (p : P α) (wr : Nat → Res Bits) (f : Nat → α) (n : Nat) (w r : Bits)
    (hw : wcat ((List.range n).map wr) = .ok w)
    (hstep : ∀ i, i < n → ∀ wi r', wr i = .ok wi → p (wi ++ r') = .ok (f i, r')) :
    repeatP n p (w ++ r) = .ok ((List.range n).map f, r) := by
  have := repeatP_wcat_map p wr f (List.range n) w r hw (fun i hi => hstep i (List.mem_range.mp hi))
  rwa [List.length_range] at this

/-! ## se(v) -/

/-- the exp-Golomb code number `signed_to_unsigned` assigns to `v` -/
def seCode (v : Int) : Nat := if v > 0 then (2 * v - 1).toNat else (-2 * v).toNat

/-- **exact** condition under which `get_se` inverts `write_se`: the `f64` round trip of `code + 1` must
still halve to `|v|`. Holds for every `|v| < 2^52` (`seExact_of_natAbs_lt`) and for some larger values. -/
def seExact (v : Int) : Bool := roundToF64 (seCode v + 1) / 2 == v.natAbs

theorem roundToF64_small {n : Nat} (h : n < 2^53) : roundToF64 n = n := by
  simp [roundToF64, h]

theorem seExact_of_natAbs_lt {v : Int} (h : v.natAbs < 2^52) : seExact v = true := by
  have hc : seCode v + 1 < 2^53 := by unfold seCode; split <;> omega
  unfold seExact
  rw [roundToF64_small hc, beq_iff_eq]
  unfold seCode; split <;> omega

theorem writeSe_eq {v : Int} {w : Bits} (h : writeSe v = .ok w) :
    writeUe (seCode v) = .ok w ∧ (if v > 0 then 2 * v < 2^63 else -2 * v < 2^63) := by
  unfold writeSe at h
  unfold seCode
  split at h
  · rename_i hv
    split at h
    · cases h
    · simp only [hv, if_true]; exact ⟨h, by omega⟩
  · rename_i hv
    split at h
    · cases h
    · simp only [hv, if_false]; exact ⟨h, by omega⟩

/-- write → read for se(v): whatever `write_se` emits is read back by `get_se`, provided the code number
survives the `f64` round trip (`seExact`, e.g. `|v| < 2^52`) -/
theorem readSe_writeSe {v : Int} {w : Bits} (r : Bits) (h : writeSe v = .ok w) (hx : seExact v = true) :
    readSe (w ++ r) = .ok (v, r) := by
  obtain ⟨hu, hb⟩ := writeSe_eq h
  unfold readSe
  rw [P.bind_of_ok (readUe_writeUe r hu)]
  unfold seExact at hx
  rw [beq_iff_eq] at hx
  simp only [hx]
  unfold seCode at *
  by_cases hv : v > 0
  · simp only [hv, if_true] at hb ⊢
    have h1 : ¬ ((2 * v - 1).toNat % 2 = 0) := by omega
    have h2 : ¬ (v.natAbs ≥ 2^63) := by omega
    simp only [h1, h2, if_false]
    show Res.ok (((v.natAbs : Nat) : Int), r) = _
    congr 2; omega
  · simp only [hv, if_false] at hb ⊢
    have h1 : (-2 * v).toNat % 2 = 0 := by omega
    have h2 : ¬ (v.natAbs ≥ 2^63) := by omega
    simp only [h1, h2, if_true, if_false]
    show Res.ok (-((v.natAbs : Nat) : Int), r) = _
    congr 2; omega


/-! ## well-formedness: exactly the shape `parseMapping` produces

The helper predicates take the condition `q` imposed on every *coded* integer coefficient part (`se(v)`):
`MappingWf` uses `q = seExact` (needed for write → parse), `MappingShape` uses no condition (what every parse
result satisfies, `parseMapping_shape`). -/

/-- a row of integer coefficient parts: `n` entries satisfying `q` when they are coded
(`coefficient_data_type = 0`), no entries otherwise (the parser's `optInts` drops the absent ones) -/
def coefIntsOk (q : Int → Bool) (h : Header) (n : Nat) (ints : List Int) : Bool :=
  if h.coefficient_data_type == 0 then ints.length == n && ints.all q else ints.isEmpty

def polyPieceWf (q : Int → Bool) (h : Header) (p : PolyCurve) (i : Nat) : Bool :=
  match p.poly_order_minus1[i]?, p.linear_interp_flag[i]?, p.poly_coef_int[i]?, p.poly_coef[i]? with
  | some order, some lin, some ints, some fracs =>
    decide (order ≤ 1) && !lin && fracs.length == order + 2 && coefIntsOk q h (order + 2) ints
  | _, _, _, _ => false

/-- a polynomial curve of `n` pieces -/
def PolyWf (q : Int → Bool) (h : Header) (n : Nat) (p : PolyCurve) : Bool :=
  p.poly_order_minus1.length == n && p.linear_interp_flag.length == n &&
  p.poly_coef_int.length == n && p.poly_coef.length == n &&
  (List.range n).all (polyPieceWf q h p)

def mmrPieceWf (q : Int → Bool) (h : Header) (m : MmrCurve) (i : Nat) : Bool :=
  match m.mmr_order_minus1[i]?, m.mmr_constant[i]?, m.mmr_coef_int[i]?, m.mmr_coef[i]? with
  | some order, some _, some irows, some frows =>
    decide (order ≤ 2) &&
    (if h.coefficient_data_type == 0 then
      (match m.mmr_constant_int[i]? with | some v => q v | none => false)
     else m.mmr_constant_int.isEmpty) &&
    frows.length == order + 1 && frows.all (fun row => row.length == 7) &&
    irows.length == order + 1 && irows.all (coefIntsOk q h 7)
  | _, _, _, _ => false

/-- an MMR curve of `n` pieces -/
def MmrWf (q : Int → Bool) (h : Header) (n : Nat) (m : MmrCurve) : Bool :=
  m.mmr_order_minus1.length == n && m.mmr_constant.length == n &&
  m.mmr_coef_int.length == n && m.mmr_coef.length == n &&
  (if h.coefficient_data_type == 0 then m.mmr_constant_int.length == n else m.mmr_constant_int.isEmpty) &&
  (List.range n).all (mmrPieceWf q h m)

/-- one component: `num_pivots_minus2 + 2` pivots, and `num_pivots_minus2 + 1` pieces that are either all
polynomial or all MMR, with `mapping_idc` saying which -/
def CurveWf (q : Int → Bool) (h : Header) (c : Curve) : Bool :=
  c.pivots.length == c.num_pivots_minus2 + 2 &&
  (match c.mapping_idc, c.polynomial, c.mmr with
   | .polynomial, some p, none => PolyWf q h (c.num_pivots_minus2 + 1) p
   | .mmr, none, some m => MmrWf q h (c.num_pivots_minus2 + 1) m
   | _, _, _ => false)

/-- an NLQ integer column: three `ue` values when coded, zeros otherwise (the parser's `pure 0`) -/
def nlqIntsOk (h : Header) (l : List Nat) : Bool :=
  if h.coefficient_data_type == 0 then l.length == 3 else l == [0, 0, 0]

def NlqWf (h : Header) (n : Nlq) : Bool :=
  n.nlq_offset.length == 3 && n.vdr_in_max.length == 3 && n.linear_deadzone_slope.length == 3 &&
  n.linear_deadzone_threshold.length == 3 &&
  nlqIntsOk h n.vdr_in_max_int && nlqIntsOk h n.linear_deadzone_slope_int &&
  nlqIntsOk h n.linear_deadzone_threshold_int

def MappingWfG (q : Int → Bool) (h : Header) (m : Mapping) : Bool :=
  m.curves.length == 3 && m.curves.all (CurveWf q h) &&
  (if h.rpu_format &&& 0x700 == 0 && !h.disable_residual_flag then
    m.nlq_method_idc == some 0 && m.nlq_num_pivots_minus2 == some 0 &&
    (match m.nlq_pred_pivot_value with | some pv => pv.length == 2 | none => false) &&
    (match m.nlq with | some n => NlqWf h n | none => false)
   else
    m.nlq_method_idc == none && m.nlq_num_pivots_minus2 == none &&
    m.nlq_pred_pivot_value == none && m.nlq == none)

/-- decidable well-formedness of a `Mapping` relative to its header: exactly the shape the parser produces
(three components, each with `num_pivots_minus2 + 2` pivots and `num_pivots_minus2 + 1` pieces of one method
with the list shapes the parser builds; NLQ fields present iff the header says so), plus `seExact` on every
coded integer coefficient part -/
def MappingWf (h : Header) (m : Mapping) : Bool := MappingWfG seExact h m

/-- the shape alone, without a condition on the integer coefficient parts -/
def MappingShape (h : Header) (m : Mapping) : Bool := MappingWfG (fun _ => true) h m

/-! ## coefficients -/

/-- one `(coef_int, coef)` pair as written: optional `se` integer part, then the fractional part -/
def coefW (h : Header) (wi wf : Res Bits) : Res Bits :=
  wcat ((if h.coefficient_data_type == 0 then [wi] else []) ++ [wf])

theorem parseCoef_coefW (h : Header) (wi wf : Res Bits) (vi : Int) (vf : Nat) (w r : Bits)
    (hw : coefW h wi wf = .ok w)
    (hi : h.coefficient_data_type = 0 → ∀ b r', wi = .ok b → readSe (b ++ r') = .ok (vi, r'))
    (hf : ∀ b r', wf = .ok b → readN h.coefficient_log2_denom_length (b ++ r') = .ok (vf, r')) :
    parseCoef h (w ++ r) =
      .ok (((if h.coefficient_data_type == 0 then some vi else none : Option Int), vf), r) := by
  unfold coefW at hw
  unfold parseCoef
  by_cases hc : h.coefficient_data_type = 0
  · simp only [hc, beq_self_eq_true, if_true, List.cons_append, List.nil_append] at hw ⊢
    obtain ⟨bi, wl, hbi, hl, rfl⟩ := wcat_cons_ok hw
    have hbf := wcat_singleton_ok hl
    simp only [List.append_assoc]
    rw [P.bind_of_ok (a := some vi) (s' := wl ++ r) (by rw [P.bind_of_ok (hi hc bi _ hbi)]; rfl)]
    rw [P.bind_of_ok (hf wl r hbf)]
    rfl
  · have hc' : (h.coefficient_data_type == 0) = false := by simpa using hc
    simp only [hc', Bool.false_eq_true, if_false, List.nil_append] at hw ⊢
    have hbf := wcat_singleton_ok hw
    rw [P.bind_of_ok (a := none) (s' := w ++ r) rfl]
    rw [P.bind_of_ok (hf w r hbf)]
    rfl

/-- the row of pairs the parser builds from integer parts `ints` and fractional parts `fracs` -/
def coefRow (h : Header) (ints : List Int) (fracs : List Nat) (n : Nat) : List (Option Int × Nat) :=
  (List.range n).map fun j =>
    ((if h.coefficient_data_type == 0 then some (ints.getD j 0) else none : Option Int), fracs.getD j 0)

theorem coefRow_snd (h : Header) (ints : List Int) (fracs : List Nat) (n : Nat) (hl : fracs.length = n) :
    (coefRow h ints fracs n).map (·.2) = fracs := by
  unfold coefRow
  rw [List.map_map]
  exact range_map_getD fracs n 0 hl

theorem coefRow_optInts (h : Header) (ints : List Int) (fracs : List Nat) (n : Nat)
    (hok : coefIntsOk seExact h n ints = true) : optInts (coefRow h ints fracs n) = ints := by
  unfold coefIntsOk at hok
  unfold coefRow optInts
  by_cases hc : h.coefficient_data_type = 0
  · simp only [hc, beq_self_eq_true, if_true, Bool.and_eq_true, beq_iff_eq] at hok ⊢
    rw [List.filterMap_map]
    have : ((fun (x : Option Int × Nat) => x.1) ∘ fun j => (some (ints.getD j 0), fracs.getD j 0)) =
        fun j => some (ints.getD j 0) := rfl
    rw [this]
    have e : (fun j => some (ints.getD j 0)) = (some ∘ fun j => ints.getD j 0) := rfl
    rw [e, ← List.filterMap_map, List.filterMap_some]
    exact range_map_getD ints n 0 hok.1
  · have hc' : (h.coefficient_data_type == 0) = false := by simpa using hc
    simp only [hc', Bool.false_eq_true, if_false, List.isEmpty_iff] at hok ⊢
    subst hok
    rw [List.filterMap_map]
    simp

/-- a written row of `n` coefficient pairs is read back as `coefRow` -/
theorem repeatP_parseCoef_row (h : Header) (n : Nat) (ints : List Int) (fracs : List Nat) (w r : Bits)
    (hw : wcat ((List.range n).map fun j =>
            coefW h ((idx ints j).bind writeSe) ((idx fracs j).bind (writeN h.coefficient_log2_denom_length))) = .ok w)
    (hok : coefIntsOk seExact h n ints = true) :
    repeatP n (parseCoef h) (w ++ r) = .ok (coefRow h ints fracs n, r) := by
  unfold coefRow
  apply repeatP_wcat_range (parseCoef h) _ _ n w r hw
  intro j hj wi r' hwi
  apply parseCoef_coefW h _ _ _ _ wi r' hwi
  · intro hc b r'' hb
    obtain ⟨v, hv, hwv⟩ := idx_bind_ok hb
    unfold coefIntsOk at hok
    simp only [hc, beq_self_eq_true, if_true, Bool.and_eq_true, beq_iff_eq, List.all_eq_true] at hok
    rw [getD_of_getElem? hv]
    exact readSe_writeSe r'' hwv (hok.2 v (List.mem_of_getElem? hv))
  · intro b r'' hb
    obtain ⟨v, hv, hwv⟩ := idx_bind_ok hb
    rw [getD_of_getElem? hv]
    exact readN_writeN hwv


/-! ## one polynomial piece -/

/-- the curve holding the first `k` pieces of `p` (the parser's accumulator after `k` pieces) -/
def polyTake (k : Nat) (p : PolyCurve) : PolyCurve :=
  { poly_order_minus1 := p.poly_order_minus1.take k, linear_interp_flag := p.linear_interp_flag.take k,
    poly_coef_int := p.poly_coef_int.take k, poly_coef := p.poly_coef.take k }

theorem polyTake_zero (p : PolyCurve) : polyTake 0 p = {} := by simp [polyTake]

theorem polyTake_full (h : Header) (n : Nat) (p : PolyCurve) (hwf : PolyWf seExact h n p = true) : polyTake n p = p := by
  simp only [PolyWf, Bool.and_eq_true, beq_iff_eq] at hwf
  obtain ⟨⟨⟨⟨h1, h2⟩, h3⟩, h4⟩, _⟩ := hwf
  obtain ⟨a, b, c, d⟩ := p
  simp only at h1 h2 h3 h4
  simp only [polyTake, ← h1, List.take_length]
  simp only [h1, ← h2, List.take_length]
  simp only [h2, ← h3, List.take_length]
  simp only [h3, ← h4, List.take_length]

theorem parsePolyPiece_writePolyPiece (h : Header) (p : PolyCurve) (i : Nat) (w r : Bits)
    (hw : writePolyPiece h p i = .ok w) (hwf : polyPieceWf seExact h p i = true) :
    parsePolyPiece h (polyTake i p) (w ++ r) = .ok (polyTake (i + 1) p, r) := by
  unfold polyPieceWf at hwf
  split at hwf
  · rename_i order lin ints fracs ho hl hi hf
    simp only [Bool.and_eq_true, decide_eq_true_eq, Bool.not_eq_true', beq_iff_eq] at hwf
    obtain ⟨⟨⟨hord, hlin⟩, hfl⟩, hints⟩ := hwf
    subst hlin
    unfold writePolyPiece at hw
    simp only [idx_of ho, idx_of hl, Res.ok_bind] at hw
    have hcoefs : ∀ w' r', wcat ((List.range (order + 2)).map (writeCoef h p.poly_coef_int p.poly_coef i)) = .ok w' →
        repeatP (order + 2) (parseCoef h) (w' ++ r') = .ok (coefRow h ints fracs (order + 2), r') := by
      intro w' r' hw'
      apply repeatP_parseCoef_row h _ ints fracs w' r' _ hints
      have : (writeCoef h p.poly_coef_int p.poly_coef i) = fun j =>
          coefW h ((idx ints j).bind writeSe) ((idx fracs j).bind (writeN h.coefficient_log2_denom_length)) := by
        funext j; simp only [writeCoef, coefW, idx_of hi, idx_of hf, Res.ok_bind]
      rw [← this]; exact hw'
    have e1 : decide (order ≤ 1) = true := by simp [hord]
    have hres : ({ poly_order_minus1 := (polyTake i p).poly_order_minus1 ++ [order],
                   linear_interp_flag := (polyTake i p).linear_interp_flag ++ [false],
                   poly_coef_int := (polyTake i p).poly_coef_int ++ [optInts (coefRow h ints fracs (order + 2))],
                   poly_coef := (polyTake i p).poly_coef ++ [(coefRow h ints fracs (order + 2)).map (·.2)] } : PolyCurve)
                = polyTake (i + 1) p := by
      simp only [polyTake]
      rw [coefRow_optInts h ints fracs _ hints, coefRow_snd h ints fracs _ hfl, take_succ_of_getElem? ho,
        take_succ_of_getElem? hl, take_succ_of_getElem? hi, take_succ_of_getElem? hf]
    unfold parsePolyPiece
    cases hb0 : (order == 0) with
    | true =>
      simp only [hb0, if_true, Bool.false_eq_true, if_false, List.cons_append, List.nil_append] at hw
      obtain ⟨wu, w1, hu, h1, rfl⟩ := wcat_cons_ok hw
      obtain ⟨wb, w2, hb, h2, rfl⟩ := wcat_cons_ok h1
      have hc := wcat_singleton_ok h2
      simp only [wbool, Res.ok.injEq] at hb
      subst hb
      simp only [List.append_assoc, List.cons_append, List.nil_append]
      rw [P.bind_of_ok (readUe_writeUe _ hu), e1, P.bind_of_ok (P.ensure_true _)]
      rw [hb0]
      simp only [if_true]
      rw [P.bind_of_ok (readBit_cons _ _)]
      simp only [Bool.and_false, Bool.false_eq_true, if_false]
      rw [P.bind_of_ok (hcoefs _ _ hc)]
      rw [← hres]
      rfl
    | false =>
      simp only [hb0, Bool.false_eq_true, if_false, List.cons_append, List.nil_append, List.append_nil] at hw
      obtain ⟨wu, w1, hu, h1, rfl⟩ := wcat_cons_ok hw
      have hc := wcat_singleton_ok h1
      simp only [List.append_assoc]
      rw [P.bind_of_ok (readUe_writeUe _ hu), e1, P.bind_of_ok (P.ensure_true _)]
      rw [hb0]
      simp only [Bool.false_eq_true, if_false]
      rw [P.bind_of_ok (pure_ok _ _)]
      simp only [Bool.and_false, Bool.false_eq_true, if_false]
      rw [P.bind_of_ok (hcoefs _ _ hc)]
      rw [← hres]
      rfl
  · cases hwf


/-! ## one MMR piece -/

def mmrTake (k : Nat) (m : MmrCurve) : MmrCurve :=
  { mmr_order_minus1 := m.mmr_order_minus1.take k, mmr_constant_int := m.mmr_constant_int.take k,
    mmr_constant := m.mmr_constant.take k, mmr_coef_int := m.mmr_coef_int.take k,
    mmr_coef := m.mmr_coef.take k }

theorem mmrTake_zero (m : MmrCurve) : mmrTake 0 m = {} := by simp [mmrTake]

theorem mmrTake_full (h : Header) (n : Nat) (m : MmrCurve) (hwf : MmrWf seExact h n m = true) : mmrTake n m = m := by
  simp only [MmrWf, Bool.and_eq_true, beq_iff_eq] at hwf
  obtain ⟨⟨⟨⟨⟨h1, h2⟩, h3⟩, h4⟩, h5⟩, _⟩ := hwf
  obtain ⟨a, b, c, d, e⟩ := m
  simp only at h1 h2 h3 h4 h5
  have hb : b.take n = b := by
    split at h5
    · rw [beq_iff_eq] at h5; rw [← h5, List.take_length]
    · rw [List.isEmpty_iff] at h5; subst h5; simp
  simp only [mmrTake, hb]
  simp only [← h1, List.take_length]
  simp only [h1, ← h2, List.take_length]
  simp only [h2, ← h3, List.take_length]
  simp only [h3, ← h4, List.take_length]

theorem rows_optInts (h : Header) (irows : List (List Int)) (frows : List (List Nat)) (n : Nat)
    (hl : irows.length = n) (hall : irows.all (coefIntsOk seExact h 7) = true) :
    ((List.range n).map fun j => coefRow h (irows.getD j []) (frows.getD j []) 7).map optInts = irows := by
  rw [List.map_map]
  calc _ = (List.range n).map (fun j => irows.getD j []) := by
        apply List.map_congr_left
        intro j hj
        have hj' : j < irows.length := by rw [hl]; exact List.mem_range.mp hj
        exact coefRow_optInts h _ _ 7
          (List.all_eq_true.mp hall _ (List.mem_of_getElem? (getElem?_getD_of_lt [] hj')))
    _ = irows := range_map_getD irows n [] hl

theorem rows_snd (h : Header) (irows : List (List Int)) (frows : List (List Nat)) (n : Nat)
    (hl : frows.length = n) (hall : frows.all (fun row => row.length == 7) = true) :
    ((List.range n).map fun j => coefRow h (irows.getD j []) (frows.getD j []) 7).map (·.map (·.2)) = frows := by
  rw [List.map_map]
  calc _ = (List.range n).map (fun j => frows.getD j []) := by
        apply List.map_congr_left
        intro j hj
        have hj' : j < frows.length := by rw [hl]; exact List.mem_range.mp hj
        have := List.all_eq_true.mp hall _ (List.mem_of_getElem? (getElem?_getD_of_lt [] hj'))
        exact coefRow_snd h _ _ 7 (by simpa using this)
    _ = frows := range_map_getD frows n [] hl

theorem parseMmrPiece_writeMmrPiece (h : Header) (m : MmrCurve) (i : Nat) (w r : Bits)
    (hw : writeMmrPiece h m i = .ok w) (hwf : mmrPieceWf seExact h m i = true) :
    parseMmrPiece h (mmrTake i m) (w ++ r) = .ok (mmrTake (i + 1) m, r) := by
  unfold mmrPieceWf at hwf
  split at hwf
  · rename_i order cst irows frows ho hc hi hf
    simp only [Bool.and_eq_true, decide_eq_true_eq, beq_iff_eq] at hwf
    obtain ⟨⟨⟨⟨⟨hord, hcint⟩, hfl⟩, hfall⟩, hil⟩, hiall⟩ := hwf
    unfold writeMmrPiece at hw
    simp only [idx_of ho, idx_of hc, idx_of hi, idx_of hf, Res.ok_bind] at hw
    obtain ⟨w1, w2, hw1, hw2, rfl⟩ := wcat_append_ok hw
    have hw2 := wcat_flatMap_ok _ _ hw2
    rw [List.append_assoc, List.singleton_append] at hw1
    obtain ⟨wo, wc, hwo, hwc, rfl⟩ := wcat_cons_ok hw1
    -- the constant
    have hconst : parseCoef h (wc ++ (w2 ++ r)) =
        .ok (((if h.coefficient_data_type == 0 then some (m.mmr_constant_int.getD i 0) else none : Option Int), cst),
             w2 ++ r) := by
      apply parseCoef_coefW h _ _ _ _ wc (w2 ++ r) hwc
      · intro hc0 b r' hb
        obtain ⟨v, hv, hwv⟩ := idx_bind_ok hb
        simp only [hc0, if_true, hv] at hcint
        rw [getD_of_getElem? hv]
        exact readSe_writeSe r' hwv hcint
      · intro b r' hb
        exact readN_writeN hb
    -- the rows
    have hrows : repeatP (order + 1) (repeatP 7 (parseCoef h)) (w2 ++ r) =
        .ok ((List.range (order + 1)).map fun j => coefRow h (irows.getD j []) (frows.getD j []) 7, r) := by
      apply repeatP_wcat_range _ _ _ (order + 1) w2 r hw2
      intro j hj wj r' hwj
      have hji : j < irows.length := by omega
      have hjf : j < frows.length := by omega
      apply repeatP_parseCoef_row h 7 (irows.getD j []) (frows.getD j []) wj r'
      · simp only [idx_of (getElem?_getD_of_lt ([] : List Int) hji),
          idx_of (getElem?_getD_of_lt ([] : List Nat) hjf), Res.ok_bind] at hwj
        exact hwj
      · exact List.all_eq_true.mp hiall _ (List.mem_of_getElem? (getElem?_getD_of_lt [] hji))
    have e1 : decide (order ≤ 2) = true := by simp [hord]
    unfold parseMmrPiece
    simp only [List.append_assoc]
    rw [P.bind_of_ok (readN_writeN hwo), e1, P.bind_of_ok (P.ensure_true _)]
    rw [P.bind_of_ok hconst, P.bind_of_ok hrows]
    simp only [mmrTake]
    rw [pure_ok, rows_optInts h irows frows _ hil hiall, rows_snd h irows frows _ hfl hfall,
      take_succ_of_getElem? ho, take_succ_of_getElem? hc, take_succ_of_getElem? hi, take_succ_of_getElem? hf]
    by_cases hc0 : h.coefficient_data_type = 0
    · rw [if_pos hc0] at hcint
      split at hcint
      · rename_i v hv
        simp only [hc0, beq_self_eq_true, if_true, getD_of_getElem? (d := 0) hv, take_succ_of_getElem? hv]
      · cases hcint
    · rw [if_neg hc0, List.isEmpty_iff] at hcint
      have hc' : (h.coefficient_data_type == 0) = false := by simpa using hc0
      simp only [hc', Bool.false_eq_true, if_false, hcint, List.take_nil, List.append_nil]
  · cases hwf


/-! ## the pieces loop of one component -/

/-- polynomial pieces `k … k+n-1`, starting from an accumulator that holds the first `k` pieces -/
theorem parsePieces_poly (h : Header) (p : PolyCurve) (n : Nat) : ∀ (k : Nat) (c : Curve) (w r : Bits),
    c.polynomial.getD {} = polyTake k p →
    wcat ((List.range' k n).map fun i => wcat [writeUe 0, writePolyPiece h p i]) = .ok w →
    (∀ i, k ≤ i → i < k + n → polyPieceWf seExact h p i = true) →
    parsePieces h n c (w ++ r) =
      .ok (if n = 0 then c
           else { c with mapping_idc := .polynomial, polynomial := some (polyTake (k + n) p) }, r) := by
  induction n with
  | zero =>
    intro k c w r _ hw _
    have := wcat_nil_ok (by simpa using hw); subst this
    rfl
  | succ n ih =>
    intro k c w r hc hw hwf
    rw [List.range'_succ, List.map_cons] at hw
    obtain ⟨wk, wl, hk, hl, rfl⟩ := wcat_cons_ok hw
    obtain ⟨wu, wp', hu, hp', rfl⟩ := wcat_cons_ok hk
    have hp := wcat_singleton_ok hp'
    simp only [parsePieces, List.append_assoc]
    rw [P.bind_of_ok (readUe_writeUe _ hu)]
    simp only [Nat.zero_le, decide_true, beq_self_eq_true, if_true]
    rw [P.bind_of_ok (P.ensure_true _)]
    rw [hc, P.bind_of_ok (parsePolyPiece_writePolyPiece h p k wp' _ hp (hwf k (Nat.le_refl _) (by omega)))]
    rw [ih (k + 1) _ wl r rfl hl (fun i h1 h2 => hwf i (by omega) (by omega))]
    have e : k + 1 + n = k + (n + 1) := by omega
    rw [e, if_neg (Nat.succ_ne_zero n)]
    split
    · rename_i h0; subst h0; rfl
    · rfl

/-- MMR pieces `k … k+n-1`, starting from an accumulator that holds the first `k` pieces -/
theorem parsePieces_mmr (h : Header) (m : MmrCurve) (n : Nat) : ∀ (k : Nat) (c : Curve) (w r : Bits),
    c.mmr.getD {} = mmrTake k m →
    wcat ((List.range' k n).map fun i => wcat [writeUe 1, writeMmrPiece h m i]) = .ok w →
    (∀ i, k ≤ i → i < k + n → mmrPieceWf seExact h m i = true) →
    parsePieces h n c (w ++ r) =
      .ok (if n = 0 then c
           else { c with mapping_idc := .mmr, mmr := some (mmrTake (k + n) m) }, r) := by
  induction n with
  | zero =>
    intro k c w r _ hw _
    have := wcat_nil_ok (by simpa using hw); subst this
    rfl
  | succ n ih =>
    intro k c w r hc hw hwf
    rw [List.range'_succ, List.map_cons] at hw
    obtain ⟨wk, wl, hk, hl, rfl⟩ := wcat_cons_ok hw
    obtain ⟨wu, wp', hu, hp', rfl⟩ := wcat_cons_ok hk
    have hp := wcat_singleton_ok hp'
    simp only [parsePieces, List.append_assoc]
    rw [P.bind_of_ok (readUe_writeUe _ hu)]
    simp only [Nat.le_refl, decide_true, show ((1 : Nat) == 0) = false from rfl, Bool.false_eq_true, if_false]
    rw [P.bind_of_ok (P.ensure_true _)]
    rw [hc, P.bind_of_ok (parseMmrPiece_writeMmrPiece h m k wp' _ hp (hwf k (Nat.le_refl _) (by omega)))]
    rw [ih (k + 1) _ wl r rfl hl (fun i h1 h2 => hwf i (by omega) (by omega))]
    have e : k + 1 + n = k + (n + 1) := by omega
    rw [e, if_neg (Nat.succ_ne_zero n)]
    split
    · rename_i h0; subst h0; rfl
    · rfl

/-- what `parsePivots` leaves of a curve: the pivots only -/
def Curve.strip (c : Curve) : Curve := { num_pivots_minus2 := c.num_pivots_minus2, pivots := c.pivots }

/-- **write → parse for the pieces of one component** -/
theorem parsePieces_writeCurvePieces (h : Header) (c : Curve) (w r : Bits)
    (hw : writeCurvePieces h c = .ok w) (hwf : CurveWf seExact h c = true) :
    parsePieces h (c.num_pivots_minus2 + 1) c.strip (w ++ r) = .ok (c, r) := by
  obtain ⟨n, pv, idc, poly, mmr⟩ := c
  simp only [CurveWf, Bool.and_eq_true] at hwf
  obtain ⟨_, hwf⟩ := hwf
  unfold writeCurvePieces at hw
  simp only [Curve.strip]
  rw [List.range_eq_range'] at hw
  split at hwf
  · rename_i p
    simp only [MappingMethod.toNat] at hw
    have hfull := polyTake_full h _ p hwf
    simp only [PolyWf, Bool.and_eq_true, List.all_eq_true, List.mem_range] at hwf
    rw [parsePieces_poly h p (n + 1) 0 { num_pivots_minus2 := n, pivots := pv } w r (polyTake_zero p).symm hw (fun i _ hi => hwf.2 i (by omega))]
    rw [if_neg (Nat.succ_ne_zero n), Nat.zero_add, hfull]
  · rename_i m
    simp only [MappingMethod.toNat] at hw
    have hfull := mmrTake_full h _ m hwf
    simp only [MmrWf, Bool.and_eq_true, List.all_eq_true, List.mem_range] at hwf
    rw [parsePieces_mmr h m (n + 1) 0 { num_pivots_minus2 := n, pivots := pv } w r (mmrTake_zero m).symm hw (fun i _ hi => hwf.2 i (by omega))]
    rw [if_neg (Nat.succ_ne_zero n), Nat.zero_add, hfull]
  · cases hwf


/-! ## pivots -/

/-- the pivots of one component as written are read back; the written pivot fields themselves satisfy the
parser's `num_pivots_minus2 < available / bl_bit_depth` guard -/
theorem parsePivots_written (bl : Nat) (c : Curve) (w r : Bits) (hbl : 0 < bl)
    (hw : wcat ([writeUe c.num_pivots_minus2] ++ c.pivots.map (writeN bl)) = .ok w)
    (hl : c.pivots.length = c.num_pivots_minus2 + 2) :
    parsePivots bl (w ++ r) = .ok (c.strip, r) := by
  rw [List.singleton_append] at hw
  obtain ⟨wu, wp, hu, hp, rfl⟩ := wcat_cons_ok hw
  have hlen := wcat_writeN_length bl c.pivots hp
  unfold parsePivots
  simp only [List.append_assoc]
  rw [P.bind_of_ok (readUe_writeUe _ hu), P.bind_of_ok (P.available_apply _)]
  have hcheck : decide (c.num_pivots_minus2 < (wp ++ r).length / bl) = true := by
    rw [decide_eq_true_eq]
    apply (Nat.le_div_iff_mul_le hbl).mpr
    rw [List.length_append, hlen, hl]
    have : Nat.succ c.num_pivots_minus2 * bl ≤ (c.num_pivots_minus2 + 2) * bl :=
      Nat.mul_le_mul_right _ (by omega)
    omega
  rw [hcheck, P.bind_of_ok (P.ensure_true _)]
  have := repeatP_wcat_map (readN bl) (writeN bl) id c.pivots wp r hp
    (fun i _ wi r' hwi => readN_writeN hwi)
  rw [hl, List.map_id] at this
  rw [P.bind_of_ok this]
  rfl

/-! ## NLQ -/

/-- one `(int, frac)` pair of an NLQ component -/
def nlqRd (h : Header) : P (Nat × Nat) := do
  let i ← (if h.coefficient_data_type == 0 then readUe else pure 0)
  let f ← readN h.coefficient_log2_denom_length
  pure (i, f)

theorem parseNlqComp_eq (h : Header) : parseNlqComp h = (do
    let off ← readN (h.el_bit_depth_minus8 + 8)
    let a ← nlqRd h
    let b ← nlqRd h
    let c ← nlqRd h
    pure [off, a.1, a.2, b.1, b.2, c.1, c.2]) := rfl

theorem nlqRd_coefW (h : Header) (li lf : List Nat) (cmp : Nat) (w r : Bits)
    (hw : coefW h ((idx li cmp).bind writeUe) ((idx lf cmp).bind (writeN h.coefficient_log2_denom_length)) = .ok w) :
    nlqRd h (w ++ r) = .ok ((if h.coefficient_data_type == 0 then li.getD cmp 0 else 0, lf.getD cmp 0), r) := by
  unfold coefW at hw
  unfold nlqRd
  have hfrac : ∀ b r', (idx lf cmp).bind (writeN h.coefficient_log2_denom_length) = .ok b →
      readN h.coefficient_log2_denom_length (b ++ r') = .ok (lf.getD cmp 0, r') := by
    intro b r' hb
    obtain ⟨v, hv, hwv⟩ := idx_bind_ok hb
    rw [getD_of_getElem? hv]
    exact readN_writeN hwv
  cases hc : (h.coefficient_data_type == 0) with
  | true =>
    simp only [hc, if_true, List.cons_append, List.nil_append] at hw ⊢
    obtain ⟨bi, wl, hbi, hl, rfl⟩ := wcat_cons_ok hw
    have hbf := wcat_singleton_ok hl
    obtain ⟨v, hv, hwv⟩ := idx_bind_ok hbi
    simp only [List.append_assoc]
    rw [P.bind_of_ok (readUe_writeUe _ hwv), P.bind_of_ok (hfrac wl r hbf), getD_of_getElem? hv]
    rfl
  | false =>
    simp only [hc, Bool.false_eq_true, if_false, List.nil_append] at hw ⊢
    have hbf := wcat_singleton_ok hw
    rw [P.bind_of_ok (pure_ok _ _), P.bind_of_ok (hfrac w r hbf)]
    rfl

/-- the bits of one NLQ component -/
def writeNlqComp (h : Header) (m : Mapping) (n : Nlq) (cmp : Nat) : Res Bits :=
  wcat ([(idx n.nlq_offset cmp).bind (writeN (h.el_bit_depth_minus8 + 8))] ++
    (if h.coefficient_data_type == 0 then [(idx n.vdr_in_max_int cmp).bind writeUe] else []) ++
    [(idx n.vdr_in_max cmp).bind (writeN h.coefficient_log2_denom_length)] ++
    (if m.nlq_method_idc == some 0 then
      (if h.coefficient_data_type == 0 then [(idx n.linear_deadzone_slope_int cmp).bind writeUe] else []) ++
      [(idx n.linear_deadzone_slope cmp).bind (writeN h.coefficient_log2_denom_length)] ++
      (if h.coefficient_data_type == 0 then [(idx n.linear_deadzone_threshold_int cmp).bind writeUe] else []) ++
      [(idx n.linear_deadzone_threshold cmp).bind (writeN h.coefficient_log2_denom_length)]
     else []))

theorem writeNlq_eq (h : Header) (m : Mapping) (n : Nlq) :
    writeNlq h m n = wcat ((List.range 3).map (writeNlqComp h m n)) := rfl

/-- the seven values of component `cmp`, in syntax order -/
def nlqCompVals (h : Header) (n : Nlq) (cmp : Nat) : List Nat :=
  [n.nlq_offset.getD cmp 0,
   if h.coefficient_data_type == 0 then n.vdr_in_max_int.getD cmp 0 else 0, n.vdr_in_max.getD cmp 0,
   if h.coefficient_data_type == 0 then n.linear_deadzone_slope_int.getD cmp 0 else 0,
   n.linear_deadzone_slope.getD cmp 0,
   if h.coefficient_data_type == 0 then n.linear_deadzone_threshold_int.getD cmp 0 else 0,
   n.linear_deadzone_threshold.getD cmp 0]

theorem parseNlqComp_writeNlqComp (h : Header) (m : Mapping) (n : Nlq) (cmp : Nat) (w r : Bits)
    (hm : m.nlq_method_idc = some 0) (hw : writeNlqComp h m n cmp = .ok w) :
    parseNlqComp h (w ++ r) = .ok (nlqCompVals h n cmp, r) := by
  unfold writeNlqComp at hw
  simp only [hm, beq_self_eq_true, if_true] at hw
  obtain ⟨w1, w2, hw1, hw2, rfl⟩ := wcat_append_ok hw
  rw [List.append_assoc, List.singleton_append] at hw1
  obtain ⟨wo, wa, hwo, hwa, rfl⟩ := wcat_cons_ok hw1
  rw [List.append_assoc (_ ++ _) _ [_]] at hw2
  obtain ⟨wb, wc, hwb, hwc, rfl⟩ := wcat_append_ok hw2
  obtain ⟨v, hv, hwv⟩ := idx_bind_ok hwo
  rw [parseNlqComp_eq]
  simp only [List.append_assoc]
  rw [P.bind_of_ok (readN_writeN hwv)]
  rw [P.bind_of_ok (nlqRd_coefW h _ _ cmp wa _ hwa)]
  rw [P.bind_of_ok (nlqRd_coefW h _ _ cmp wb _ hwb)]
  rw [P.bind_of_ok (nlqRd_coefW h _ _ cmp wc _ hwc)]
  rw [pure_ok, nlqCompVals, getD_of_getElem? hv]

theorem nlq_col_ints (h : Header) (l : List Nat) (hok : nlqIntsOk h l = true) :
    (List.range 3).map (fun cmp => if h.coefficient_data_type == 0 then l.getD cmp 0 else 0) = l := by
  unfold nlqIntsOk at hok
  cases hc : (h.coefficient_data_type == 0) with
  | true =>
    simp only [hc, if_true, beq_iff_eq] at hok ⊢
    exact range_map_getD l 3 0 hok
  | false =>
    simp only [hc, Bool.false_eq_true, if_false, beq_iff_eq] at hok ⊢
    subst hok
    rfl

/-- **write → parse for the NLQ payload** -/
theorem parseNlq_writeNlq (h : Header) (m : Mapping) (n : Nlq) (w r : Bits)
    (hm : m.nlq_method_idc = some 0) (hw : writeNlq h m n = .ok w) (hwf : NlqWf h n = true) :
    parseNlq h (w ++ r) = .ok (n, r) := by
  rw [writeNlq_eq] at hw
  have hcomps := repeatP_wcat_range (parseNlqComp h) (writeNlqComp h m n) (nlqCompVals h n) 3 w r hw
    (fun cmp _ wi r' hwi => parseNlqComp_writeNlqComp h m n cmp wi r' hm hwi)
  unfold parseNlq
  rw [P.bind_of_ok hcomps]
  simp only [NlqWf, Bool.and_eq_true, beq_iff_eq] at hwf
  obtain ⟨⟨⟨⟨⟨⟨h0, h2⟩, h4⟩, h6⟩, h1⟩, h3⟩, h5⟩ := hwf
  obtain ⟨l0, l1, l2, l3, l4, l5, l6⟩ := n
  simp only at h0 h1 h2 h3 h4 h5 h6
  simp only [pure_ok, List.map_map, nlqCompVals, Function.comp_def, List.getD_cons_zero, List.getD_cons_succ]
  rw [range_map_getD l0 3 0 h0, range_map_getD l2 3 0 h2, range_map_getD l4 3 0 h4, range_map_getD l6 3 0 h6,
    nlq_col_ints h l1 h1, nlq_col_ints h l3 h3, nlq_col_ints h l5 h5]


/-! ## the whole mapping -/

theorem range3_idx_map {α} (l : List α) (g : α → Res Bits) (hl : l.length = 3) :
    (List.range 3).map (fun cmp => (idx l cmp).bind g) = l.map g := by
  match l, hl with
  | [a, b, c], _ => rfl

theorem parseCurvePieces_written (h : Header) (cs : List Curve) (w r : Bits)
    (hw : wcat (cs.map (writeCurvePieces h)) = .ok w) (hwf : ∀ c ∈ cs, CurveWf seExact h c = true) :
    parseCurvePieces h (cs.map Curve.strip) (w ++ r) = .ok (cs, r) := by
  induction cs generalizing w with
  | nil =>
    have := wcat_nil_ok (by simpa using hw); subst this
    rfl
  | cons c cs ih =>
    obtain ⟨wa, wl, ha, hl, rfl⟩ := wcat_cons_ok (by simpa using hw)
    simp only [List.map_cons, parseCurvePieces, List.append_assoc]
    rw [P.bind_of_ok (show parsePieces h (c.strip.num_pivots_minus2 + 1) c.strip (wa ++ (wl ++ r)) = _ from
      parsePieces_writeCurvePieces h c wa _ ha (hwf c (by simp)))]
    rw [P.bind_of_ok (ih wl hl (fun x hx => hwf x (by simp [hx])))]
    rfl

/-- **write → parse for `rpu_data_mapping` + NLQ**: whatever the writer emits for a well-formed mapping,
followed by any bits `r`, is parsed back to exactly the same `Mapping`, consuming exactly the written bits. -/
theorem parseMapping_writeMapping (h : Header) (m : Mapping) (w r : Bits)
    (hw : writeMapping h m = .ok w) (hwf : MappingWf h m = true) :
    parseMapping h (w ++ r) = .ok (m, r) := by
  obtain ⟨rid, cs, cf, nx, ny, curves, nmi, nnp, npv, nlq⟩ := m
  unfold MappingWf MappingWfG at hwf
  unfold writeMapping at hw
  simp only at hwf hw
  have hbl : 0 < h.bl_bit_depth_minus8 + 8 := by omega
  rw [Bool.and_eq_true, Bool.and_eq_true, beq_iff_eq, List.all_eq_true] at hwf
  obtain ⟨⟨hlen, hcw⟩, hnlq⟩ := hwf
  rw [range3_idx_map _ _ hlen, range3_idx_map _ _ hlen] at hw
  obtain ⟨w5, wF, h5, hF, rfl⟩ := wcat_append_ok hw
  obtain ⟨w4, wE, h4, hE, rfl⟩ := wcat_append_ok h5
  obtain ⟨w3, wD, h3, hD, rfl⟩ := wcat_append_ok h4
  obtain ⟨w2, wC, h2, hC, rfl⟩ := wcat_append_ok h3
  obtain ⟨wA, wB, hA, hB, rfl⟩ := wcat_append_ok h2
  obtain ⟨wa1, wA', ha1, hA', rfl⟩ := wcat_cons_ok hA
  obtain ⟨wa2, wA'', ha2, hA'', rfl⟩ := wcat_cons_ok hA'
  have ha3 := wcat_singleton_ok hA''
  obtain ⟨wd1, wD', hd1, hD', rfl⟩ := wcat_cons_ok hD
  have hd2 := wcat_singleton_ok hD'
  -- pivots
  have hpiv : repeatP 3 (parsePivots (h.bl_bit_depth_minus8 + 8)) (wB ++ (wC ++ (wd1 ++ (wD' ++ (wE ++ (wF ++ r)))))) =
      .ok (curves.map Curve.strip, wC ++ (wd1 ++ (wD' ++ (wE ++ (wF ++ r))))) := by
    have := repeatP_wcat_map (parsePivots (h.bl_bit_depth_minus8 + 8)) _ Curve.strip curves wB
      (wC ++ (wd1 ++ (wD' ++ (wE ++ (wF ++ r))))) hB
      (fun c hc wi r' hwi => by
        have hc' := hcw c hc
        simp only [CurveWf, Bool.and_eq_true, beq_iff_eq] at hc'
        exact parsePivots_written _ c wi r' hbl hwi hc'.1)
    rwa [hlen] at this
  have hpieces := parseCurvePieces_written h curves wE (wF ++ r) hE hcw
  unfold parseMapping
  simp only [List.append_assoc]
  rw [P.bind_of_ok (readUe_writeUe _ ha1), P.bind_of_ok (readUe_writeUe _ ha2), P.bind_of_ok (readUe_writeUe _ ha3)]
  rw [P.bind_of_ok hpiv]
  cases hcond : (h.rpu_format &&& 0x700 == 0 && !h.disable_residual_flag) with
  | true =>
    simp only [hcond, if_true, Bool.and_eq_true, beq_iff_eq] at hnlq hC ⊢
    obtain ⟨⟨⟨rfl, rfl⟩, hpv⟩, hnq⟩ := hnlq
    cases npv with
    | none => simp at hpv
    | some pv =>
      cases nlq with
      | none => simp at hnq
      | some nq =>
        simp only [beq_iff_eq] at hpv hnq
        simp only [List.singleton_append] at hC hF
        obtain ⟨wc1, wC', hc1, hC', rfl⟩ := wcat_cons_ok hC
        have hF' := wcat_singleton_ok hF
        have hpvr := repeatP_wcat_map (readN (h.bl_bit_depth_minus8 + 8)) (writeN (h.bl_bit_depth_minus8 + 8)) id pv wC'
          (wd1 ++ (wD' ++ (wE ++ (wF ++ r)))) hC' (fun i _ wi r' hwi => readN_writeN hwi)
        rw [hpv, List.map_id] at hpvr
        simp only [List.append_assoc]
        rw [P.bind_of_ok
          (a := ({ vdr_rpu_id := rid, mapping_color_space := cs, mapping_chroma_format_idc := cf,
                   curves := curves.map Curve.strip, nlq_method_idc := some 0, nlq_num_pivots_minus2 := some 0,
                   nlq_pred_pivot_value := some pv } : Mapping))
          (s' := wd1 ++ (wD' ++ (wE ++ (wF ++ r))))
          (by
            rw [P.bind_of_ok (readN_writeN hc1)]
            simp only [beq_self_eq_true]
            rw [P.bind_of_ok (P.ensure_true _), P.bind_of_ok hpvr]
            rfl)]
        rw [P.bind_of_ok (readUe_writeUe _ hd1), P.bind_of_ok (readUe_writeUe _ hd2)]
        rw [P.bind_of_ok (show parseCurvePieces h _ _ = _ from hpieces)]
        simp only [Option.isSome_some, if_true]
        rw [P.bind_of_ok (parseNlq_writeNlq h _ nq wF r rfl hF' hnq)]
        rfl
  | false =>
    simp only [hcond, Bool.false_eq_true, if_false, beq_iff_eq, Bool.and_eq_true] at hnlq hC ⊢
    obtain ⟨⟨⟨rfl, rfl⟩, rfl⟩, rfl⟩ := hnlq
    have := wcat_nil_ok hC; subst this
    have := wcat_nil_ok hF; subst this
    simp only [List.nil_append] at hpieces ⊢
    rw [P.bind_of_ok (pure_ok _ _)]
    rw [P.bind_of_ok (readUe_writeUe _ hd1), P.bind_of_ok (readUe_writeUe _ hd2)]
    rw [P.bind_of_ok (show parseCurvePieces h _ _ = _ from hpieces)]
    simp only [Option.isSome_none, Bool.false_eq_true, if_false]
    rfl


/-- the same, for a writer that is only known to succeed -/
theorem parseMapping_writeMapping_isOk (h : Header) (m : Mapping) (r : Bits)
    (hok : (writeMapping h m).isOk = true) (hwf : MappingWf h m = true) :
    ∃ w, writeMapping h m = .ok w ∧ parseMapping h (w ++ r) = .ok (m, r) := by
  cases hw : writeMapping h m with
  | ok w => exact ⟨w, rfl, parseMapping_writeMapping h m w r hw hwf⟩
  | error => rw [hw] at hok; cases hok
  | panic => rw [hw] at hok; cases hok

/-- every integer coefficient part below 2^52 in magnitude is fine -/
theorem seExact_of_bounds {v : Int} (h1 : -2^52 < v) (h2 : v < 2^52) : seExact v = true :=
  seExact_of_natAbs_lt (by omega)

/-! ## non-vacuity: concrete mappings that are well-formed and that the writer accepts -/

/-- header of a profile 8.1 RPU (no NLQ): `coefficient_data_type = 0`, `coefficient_log2_denom = 23` -/
def exHdr81 : Header :=
  { rpu_type := 2, rpu_format := 18, vdr_rpu_profile := 1, vdr_seq_info_present_flag := true,
    coefficient_data_type := 0, coefficient_log2_denom := 23, coefficient_log2_denom_length := 23,
    vdr_rpu_normalized_idc := 1, bl_bit_depth_minus8 := 2, el_bit_depth_minus8 := 2, vdr_bit_depth_minus8 := 4,
    disable_residual_flag := true, vdr_dm_metadata_present_flag := true }

/-- identity curve: one first-order piece `0 + 1·x` -/
def exIdCurve : Curve :=
  { num_pivots_minus2 := 0, pivots := [0, 1023], mapping_idc := .polynomial,
    polynomial := some { poly_order_minus1 := [0], linear_interp_flag := [false],
                         poly_coef_int := [[0, 1]], poly_coef := [[0, 0]] } }

/-- the default profile 8.1 identity mapping -/
def exMap81 : Mapping := { curves := [exIdCurve, exIdCurve, exIdCurve] }

set_option maxRecDepth 100000 in
theorem exMap81_wf : MappingWf exHdr81 exMap81 = true := by decide
set_option maxRecDepth 100000 in
theorem exMap81_writes : (writeMapping exHdr81 exMap81).isOk = true := by decide

example (r : Bits) : ∃ w, writeMapping exHdr81 exMap81 = .ok w ∧ parseMapping exHdr81 (w ++ r) = .ok (exMap81, r) :=
  parseMapping_writeMapping_isOk _ _ r exMap81_writes exMap81_wf

/-- header of a profile 7 RPU (NLQ present: `rpu_format &&& 0x700 = 0`, residual enabled) -/
def exHdr7 : Header := { exHdr81 with disable_residual_flag := false, el_spatial_resampling_filter_flag := true }

/-- a two-piece polynomial luma curve (second order, then first order, negative integer parts) -/
def exPoly2 : Curve :=
  { num_pivots_minus2 := 1, pivots := [63, 512, 1023], mapping_idc := .polynomial,
    polynomial := some { poly_order_minus1 := [1, 0], linear_interp_flag := [false, false],
                         poly_coef_int := [[-1, 2, -3], [0, 1]],
                         poly_coef := [[8388607, 12345, 1], [0, 4194304]] } }

/-- a one-piece third-order MMR chroma curve -/
def exMmr : Curve :=
  { num_pivots_minus2 := 0, pivots := [0, 1023], mapping_idc := .mmr,
    mmr := some { mmr_order_minus1 := [2], mmr_constant_int := [-4], mmr_constant := [77],
                  mmr_coef_int := [[[1, -1, 0, 2, -2, 3, -3], [0, 0, 0, 0, 0, 0, 0], [5, 4, 3, 2, 1, 0, -1]]],
                  mmr_coef := [[[1, 2, 3, 4, 5, 6, 7], [0, 0, 0, 0, 0, 0, 0], [8388607, 0, 1, 0, 1, 0, 1]]] } }

/-- a mapping with a multi-piece polynomial curve, an MMR curve and NLQ parameters -/
def exMap7 : Mapping :=
  { vdr_rpu_id := 3, num_x_partitions_minus1 := 0, num_y_partitions_minus1 := 0,
    curves := [exPoly2, exMmr, exIdCurve],
    nlq_method_idc := some 0, nlq_num_pivots_minus2 := some 0, nlq_pred_pivot_value := some [0, 1023],
    nlq := some { nlq_offset := [512, 512, 512], vdr_in_max_int := [1, 1, 1], vdr_in_max := [0, 1, 2],
                  linear_deadzone_slope_int := [0, 2, 0], linear_deadzone_slope := [2048, 0, 4],
                  linear_deadzone_threshold_int := [0, 0, 1], linear_deadzone_threshold := [0, 9, 0] } }

set_option maxRecDepth 100000 in
theorem exMap7_wf : MappingWf exHdr7 exMap7 = true := by decide
set_option maxRecDepth 100000 in
theorem exMap7_writes : (writeMapping exHdr7 exMap7).isOk = true := by decide

example (r : Bits) : ∃ w, writeMapping exHdr7 exMap7 = .ok w ∧ parseMapping exHdr7 (w ++ r) = .ok (exMap7, r) :=
  parseMapping_writeMapping_isOk _ _ r exMap7_writes exMap7_wf

/-- `coefficient_data_type = 1` (32-bit fixed fractions, no coded integer parts): integer rows are empty,
NLQ integer parts are zero -/
def exHdrF : Header := { exHdr7 with coefficient_data_type := 1, coefficient_log2_denom := 0,
                                     coefficient_log2_denom_length := 32 }

def exMapF : Mapping :=
  { curves := [{ exIdCurve with polynomial := some { poly_order_minus1 := [0], linear_interp_flag := [false],
                                                     poly_coef_int := [[]], poly_coef := [[0, 4294967295]] } },
               { exMmr with mmr := some { mmr_order_minus1 := [0], mmr_constant_int := [], mmr_constant := [77],
                                          mmr_coef_int := [[[]]], mmr_coef := [[[1, 2, 3, 4, 5, 6, 7]]] } },
               { exIdCurve with polynomial := some { poly_order_minus1 := [1], linear_interp_flag := [false],
                                                     poly_coef_int := [[]], poly_coef := [[0, 1, 2]] } }],
    nlq_method_idc := some 0, nlq_num_pivots_minus2 := some 0, nlq_pred_pivot_value := some [0, 1023],
    nlq := some { nlq_offset := [512, 512, 512], vdr_in_max_int := [0, 0, 0], vdr_in_max := [0, 1, 2],
                  linear_deadzone_slope_int := [0, 0, 0], linear_deadzone_slope := [2048, 0, 4],
                  linear_deadzone_threshold_int := [0, 0, 0], linear_deadzone_threshold := [0, 9, 0] } }

set_option maxRecDepth 100000 in
theorem exMapF_wf : MappingWf exHdrF exMapF = true := by decide
set_option maxRecDepth 100000 in
theorem exMapF_writes : (writeMapping exHdrF exMapF).isOk = true := by decide

/-- `seExact` is strictly more generous than `|v| < 2^52`: e.g. `-2^52` still survives the `f64` round trip
(ties-to-even rounds `2^53 + 1` down), while `-(2^52 + 1)` does not -/
example : seExact (-(2^52)) = true ∧ seExact (-(2^52 + 1)) = false ∧ seExact (2^52) = true := by decide


/-! ## parse → shape

Everything `parseMapping` returns has the shape `MappingShape` (= `MappingWf` without the `seExact` bound),
provided no component mixes polynomial and MMR pieces — which is what `Mapping.validate` (`Curve.piecesOk`)
checks right after the parse. -/

theorem pure_eq_ok {α} {a b : α} {s s' : Bits} (h : (Pure.pure a : P α) s = .ok (b, s')) : a = b ∧ s = s' := by
  cases h; exact ⟨rfl, rfl⟩

theorem ensure_ok {b : Bool} {u : Unit} {s s' : Bits} (h : P.ensure b s = .ok (u, s')) : b = true ∧ s = s' := by
  cases b with
  | true => cases h; exact ⟨rfl, rfl⟩
  | false => cases h

theorem repeatP_ok {α} {p : P α} {n : Nat} {s s' : Bits} {l : List α} (hp : repeatP n p s = .ok (l, s')) :
    l.length = n ∧ ∀ a ∈ l, ∃ s1 s2, p s1 = .ok (a, s2) := by
  induction n generalizing s s' l with
  | zero =>
    obtain ⟨rfl, _⟩ := pure_eq_ok (by simpa only [repeatP] using hp)
    simp
  | succ n ih =>
    simp only [repeatP] at hp
    obtain ⟨a, s1, ha, hp⟩ := P.bind_eq_ok.mp hp
    obtain ⟨as, s2, has, hp⟩ := P.bind_eq_ok.mp hp
    obtain ⟨rfl, _⟩ := pure_eq_ok hp
    obtain ⟨hl, hall⟩ := ih has
    refine ⟨by simp [hl], ?_⟩
    intro x hx
    rcases List.mem_cons.mp hx with rfl | hx
    · exact ⟨s, s1, ha⟩
    · exact hall x hx

theorem parseCoef_ok {h : Header} {s s' : Bits} {c : Option Int × Nat} (hp : parseCoef h s = .ok (c, s')) :
    c.1.isSome = (h.coefficient_data_type == 0) := by
  unfold parseCoef at hp
  obtain ⟨ci, s1, hci, hp⟩ := P.bind_eq_ok.mp hp
  obtain ⟨f, s2, _, hp⟩ := P.bind_eq_ok.mp hp
  obtain ⟨rfl, _⟩ := pure_eq_ok hp
  cases hc : (h.coefficient_data_type == 0) with
  | true =>
    rw [hc, if_pos rfl] at hci
    obtain ⟨v, s3, _, hv⟩ := P.bind_eq_ok.mp hci
    obtain ⟨rfl, _⟩ := pure_eq_ok hv
    rfl
  | false =>
    rw [hc, if_neg (by decide)] at hci
    obtain ⟨rfl, _⟩ := pure_eq_ok hci
    rfl

theorem filterMap_fst_length (l : List (Option Int × Nat)) (h : ∀ c ∈ l, c.1.isSome = true) :
    (l.filterMap (·.1)).length = l.length := by
  induction l with
  | nil => rfl
  | cons c l ih =>
    have hc := h c (by simp)
    cases hc1 : c.1 with
    | none => rw [hc1] at hc; cases hc
    | some v =>
      rw [List.filterMap_cons_some hc1, List.length_cons, List.length_cons, ih (fun x hx => h x (by simp [hx]))]

theorem filterMap_fst_nil (l : List (Option Int × Nat)) (h : ∀ c ∈ l, c.1.isSome = false) :
    l.filterMap (·.1) = [] := by
  induction l with
  | nil => rfl
  | cons c l ih =>
    have hc := h c (by simp)
    cases hc1 : c.1 with
    | some v => rw [hc1] at hc; cases hc
    | none => rw [List.filterMap_cons_none hc1, ih (fun x hx => h x (by simp [hx]))]

section shape
variable (q : Int → Bool) (hq : ∀ v, q v = true)
include hq

theorem optInts_shape (h : Header) (n : Nat) (coefs : List (Option Int × Nat)) (hl : coefs.length = n)
    (hall : ∀ c ∈ coefs, c.1.isSome = (h.coefficient_data_type == 0)) :
    coefIntsOk q h n (optInts coefs) = true := by
  unfold coefIntsOk optInts
  cases hc : (h.coefficient_data_type == 0) with
  | true =>
    rw [hc] at hall
    rw [if_pos rfl, filterMap_fst_length coefs hall, hl, Bool.and_eq_true, beq_iff_eq, List.all_eq_true]
    exact ⟨rfl, fun v _ => hq v⟩
  | false =>
    rw [hc] at hall
    rw [if_neg (by decide), filterMap_fst_nil coefs hall]
    rfl

/-- a row of `n` parsed pairs has the shape of a coefficient row -/
theorem row_shape (h : Header) (n : Nat) (s s' : Bits) (coefs : List (Option Int × Nat))
    (hp : repeatP n (parseCoef h) s = .ok (coefs, s')) :
    coefIntsOk q h n (optInts coefs) = true ∧ (coefs.map (·.2)).length = n := by
  obtain ⟨hl, hall⟩ := repeatP_ok hp
  refine ⟨optInts_shape q hq h n coefs hl ?_, by simp [hl]⟩
  intro c hc
  obtain ⟨s1, s2, h1⟩ := hall c hc
  exact parseCoef_ok h1

end shape

theorem getElem?_snoc_eq {α} (l : List α) (a : α) (k : Nat) (hl : l.length = k) : (l ++ [a])[k]? = some a := by
  subst hl; simp

theorem getElem?_snoc_lt {α} (l : List α) (a : α) (i k : Nat) (hl : l.length = k) (hi : i < k) :
    (l ++ [a])[i]? = l[i]? := List.getElem?_append_left (by omega)

/-! ### polynomial -/

def polySnoc (c : PolyCurve) (order : Nat) (lin : Bool) (ints : List Int) (fracs : List Nat) : PolyCurve :=
  { poly_order_minus1 := c.poly_order_minus1 ++ [order], linear_interp_flag := c.linear_interp_flag ++ [lin],
    poly_coef_int := c.poly_coef_int ++ [ints], poly_coef := c.poly_coef ++ [fracs] }

theorem PolyWf_snoc (q : Int → Bool) (h : Header) (k : Nat) (c : PolyCurve) (order : Nat) (ints : List Int)
    (fracs : List Nat) (hwf : PolyWf q h k c = true) (ho : order ≤ 1) (hf : fracs.length = order + 2)
    (hi : coefIntsOk q h (order + 2) ints = true) :
    PolyWf q h (k + 1) (polySnoc c order false ints fracs) = true := by
  simp only [PolyWf, Bool.and_eq_true, beq_iff_eq, List.all_eq_true, List.mem_range] at hwf ⊢
  obtain ⟨⟨⟨⟨h1, h2⟩, h3⟩, h4⟩, hall⟩ := hwf
  refine ⟨⟨⟨⟨by simp [polySnoc, h1], by simp [polySnoc, h2]⟩, by simp [polySnoc, h3]⟩, by simp [polySnoc, h4]⟩, ?_⟩
  intro i hik
  by_cases hlt : i < k
  · have := hall i hlt
    unfold polyPieceWf at this ⊢
    simp only [polySnoc, getElem?_snoc_lt _ _ i k h1 hlt, getElem?_snoc_lt _ _ i k h2 hlt,
      getElem?_snoc_lt _ _ i k h3 hlt, getElem?_snoc_lt _ _ i k h4 hlt]
    exact this
  · have : i = k := by omega
    subst this
    unfold polyPieceWf
    simp only [polySnoc, getElem?_snoc_eq _ _ i h1, getElem?_snoc_eq _ _ i h2, getElem?_snoc_eq _ _ i h3,
      getElem?_snoc_eq _ _ i h4]
    simp [ho, hf, hi]

theorem parsePolyPiece_ok (q : Int → Bool) (hq : ∀ v, q v = true) (h : Header) (c c' : PolyCurve) (s s' : Bits)
    (hp : parsePolyPiece h c s = .ok (c', s')) :
    ∃ order ints fracs, c' = polySnoc c order false ints fracs ∧ order ≤ 1 ∧ fracs.length = order + 2 ∧
      coefIntsOk q h (order + 2) ints = true := by
  unfold parsePolyPiece at hp
  obtain ⟨order, s1, _, hp⟩ := P.bind_eq_ok.mp hp
  obtain ⟨u, s2, he, hp⟩ := P.bind_eq_ok.mp hp
  obtain ⟨he, _⟩ := ensure_ok he
  obtain ⟨lin, s3, hlin, hp⟩ := P.bind_eq_ok.mp hp
  have ho : order ≤ 1 := by simpa using he
  cases hfl : (order == 0 && lin) with
  | true => rw [hfl, if_pos rfl] at hp; cases hp
  | false =>
    rw [hfl, if_neg (by decide)] at hp
    obtain ⟨coefs, s4, hcoefs, hp⟩ := P.bind_eq_ok.mp hp
    obtain ⟨rfl, _⟩ := pure_eq_ok hp
    have hlf : lin = false := by
      cases ho0 : (order == 0) with
      | true => rw [ho0] at hfl; simpa using hfl
      | false =>
        rw [ho0, if_neg (by decide)] at hlin
        exact (pure_eq_ok hlin).1.symm
    subst hlf
    obtain ⟨h1, h2⟩ := row_shape q hq h _ _ _ _ hcoefs
    exact ⟨order, optInts coefs, coefs.map (·.2), rfl, ho, h2, h1⟩


/-! ### MMR -/

def mmrSnoc (c : MmrCurve) (order : Nat) (ci : Option Int) (cst : Nat) (irows : List (List Int))
    (frows : List (List Nat)) : MmrCurve :=
  { mmr_order_minus1 := c.mmr_order_minus1 ++ [order], mmr_constant_int := c.mmr_constant_int ++ ci.toList,
    mmr_constant := c.mmr_constant ++ [cst], mmr_coef_int := c.mmr_coef_int ++ [irows],
    mmr_coef := c.mmr_coef ++ [frows] }

theorem MmrWf_snoc (q : Int → Bool) (hq : ∀ v, q v = true) (h : Header) (k : Nat) (c : MmrCurve) (order : Nat)
    (ci : Option Int) (cst : Nat) (irows : List (List Int)) (frows : List (List Nat))
    (hwf : MmrWf q h k c = true) (ho : order ≤ 2) (hci : ci.isSome = (h.coefficient_data_type == 0))
    (hfl : frows.length = order + 1) (hfall : frows.all (fun row => row.length == 7) = true)
    (hil : irows.length = order + 1) (hiall : irows.all (coefIntsOk q h 7) = true) :
    MmrWf q h (k + 1) (mmrSnoc c order ci cst irows frows) = true := by
  simp only [MmrWf, Bool.and_eq_true, beq_iff_eq, List.all_eq_true, List.mem_range] at hwf ⊢
  obtain ⟨⟨⟨⟨⟨h1, h2⟩, h3⟩, h4⟩, h5⟩, hall⟩ := hwf
  cases hc : (h.coefficient_data_type == 0) with
  | true =>
    rw [hc] at hci
    have hc0 : h.coefficient_data_type = 0 := by simpa using hc
    rw [if_pos hc0, beq_iff_eq] at h5
    obtain ⟨v, rfl⟩ := Option.isSome_iff_exists.mp hci
    refine ⟨⟨⟨⟨⟨by simp [mmrSnoc, h1], by simp [mmrSnoc, h2]⟩, by simp [mmrSnoc, h3]⟩, by simp [mmrSnoc, h4]⟩,
      by simp [mmrSnoc, h5, hc0]⟩, ?_⟩
    intro i hik
    by_cases hlt : i < k
    · have := hall i hlt
      unfold mmrPieceWf at this ⊢
      simp only [hc, if_true] at this
      simp only [mmrSnoc, Option.toList_some, hc, if_true, getElem?_snoc_lt _ _ i k h1 hlt, getElem?_snoc_lt _ _ i k h2 hlt,
        getElem?_snoc_lt _ _ i k h3 hlt, getElem?_snoc_lt _ _ i k h4 hlt, getElem?_snoc_lt _ _ i k h5 hlt]
      exact this
    · have : i = k := by omega
      subst this
      unfold mmrPieceWf
      simp only [mmrSnoc, Option.toList_some, getElem?_snoc_eq _ _ i h1, getElem?_snoc_eq _ _ i h2,
        getElem?_snoc_eq _ _ i h3, getElem?_snoc_eq _ _ i h4, getElem?_snoc_eq _ _ i h5]
      simp [ho, hfl, hil, hc, hq]
      exact ⟨by simpa using hfall, by simpa using hiall⟩
  | false =>
    rw [hc] at hci
    have hc0 : ¬ h.coefficient_data_type = 0 := by simpa using hc
    rw [if_neg hc0, List.isEmpty_iff] at h5
    have hn : ci = none := by cases ci with | none => rfl | some v => cases hci
    subst hn
    have hci' : (mmrSnoc c order none cst irows frows).mmr_constant_int = [] := by simp [mmrSnoc, h5]
    refine ⟨⟨⟨⟨⟨by simp [mmrSnoc, h1], by simp [mmrSnoc, h2]⟩, by simp [mmrSnoc, h3]⟩, by simp [mmrSnoc, h4]⟩,
      by simp [mmrSnoc, h5, hc0]⟩, ?_⟩
    intro i hik
    by_cases hlt : i < k
    · have := hall i hlt
      unfold mmrPieceWf at this ⊢
      rw [hci']
      rw [h5] at this
      simp only [mmrSnoc, getElem?_snoc_lt _ _ i k h1 hlt, getElem?_snoc_lt _ _ i k h2 hlt,
        getElem?_snoc_lt _ _ i k h3 hlt, getElem?_snoc_lt _ _ i k h4 hlt]
      exact this
    · have : i = k := by omega
      subst this
      unfold mmrPieceWf
      rw [hci']
      simp only [mmrSnoc, getElem?_snoc_eq _ _ i h1, getElem?_snoc_eq _ _ i h2,
        getElem?_snoc_eq _ _ i h3, getElem?_snoc_eq _ _ i h4]
      simp [ho, hfl, hil, hc]
      exact ⟨by simpa using hfall, by simpa using hiall⟩

theorem parseMmrPiece_ok (q : Int → Bool) (hq : ∀ v, q v = true) (h : Header) (c c' : MmrCurve) (s s' : Bits)
    (hp : parseMmrPiece h c s = .ok (c', s')) :
    ∃ order ci cst irows frows, c' = mmrSnoc c order ci cst irows frows ∧ order ≤ 2 ∧
      ci.isSome = (h.coefficient_data_type == 0) ∧
      frows.length = order + 1 ∧ frows.all (fun row => row.length == 7) = true ∧
      irows.length = order + 1 ∧ irows.all (coefIntsOk q h 7) = true := by
  unfold parseMmrPiece at hp
  obtain ⟨order, s1, _, hp⟩ := P.bind_eq_ok.mp hp
  obtain ⟨u, s2, he, hp⟩ := P.bind_eq_ok.mp hp
  obtain ⟨he, _⟩ := ensure_ok he
  obtain ⟨const, s3, hconst, hp⟩ := P.bind_eq_ok.mp hp
  obtain ⟨rows, s4, hrows, hp⟩ := P.bind_eq_ok.mp hp
  obtain ⟨rfl, _⟩ := pure_eq_ok hp
  have ho : order ≤ 2 := by simpa using he
  obtain ⟨hrl, hrall⟩ := repeatP_ok hrows
  refine ⟨order, const.1, const.2, rows.map optInts, rows.map (·.map (·.2)), ?_, ho, parseCoef_ok hconst,
    by simp [hrl], ?_, by simp [hrl], ?_⟩
  · obtain ⟨c1, c2⟩ := const
    cases c1 <;> rfl
  · rw [List.all_eq_true]
    intro row hrow
    obtain ⟨r0, hr0, rfl⟩ := List.mem_map.mp hrow
    obtain ⟨s5, s6, h56⟩ := hrall r0 hr0
    simpa using (row_shape q hq h 7 _ _ _ h56).2
  · rw [List.all_eq_true]
    intro row hrow
    obtain ⟨r0, hr0, rfl⟩ := List.mem_map.mp hrow
    obtain ⟨s5, s6, h56⟩ := hrall r0 hr0
    exact (row_shape q hq h 7 _ _ _ h56).1

/-! ### the pieces loop -/

/-- invariant of the pieces loop: `kp` polynomial pieces and `km` MMR pieces so far -/
structure PiecesInv (q : Int → Bool) (h : Header) (c : Curve) (kp km : Nat) : Prop where
  poly : PolyWf q h kp (c.polynomial.getD {}) = true
  mmr : MmrWf q h km (c.mmr.getD {}) = true
  polyNone : c.polynomial = none ↔ kp = 0
  mmrNone : c.mmr = none ↔ km = 0
  idcPoly : km = 0 → 0 < kp → c.mapping_idc = .polynomial
  idcMmr : kp = 0 → 0 < km → c.mapping_idc = .mmr

theorem PiecesInv_init (q : Int → Bool) (h : Header) (c : Curve) (hp : c.polynomial = none) (hm : c.mmr = none) :
    PiecesInv q h c 0 0 := by
  refine ⟨?_, ?_, by simp [hp], by simp [hm], by omega, by omega⟩
  · rw [hp]; rfl
  · rw [hm]
    simp only [MmrWf, Option.getD_none]
    cases (h.coefficient_data_type == 0) <;> rfl

theorem parsePieces_inv (q : Int → Bool) (hq : ∀ v, q v = true) (h : Header) (n : Nat) :
    ∀ (c c' : Curve) (s s' : Bits) (kp km : Nat), parsePieces h n c s = .ok (c', s') → PiecesInv q h c kp km →
      ∃ kp' km', PiecesInv q h c' kp' km' ∧ kp' + km' = kp + km + n ∧
        c'.num_pivots_minus2 = c.num_pivots_minus2 ∧ c'.pivots = c.pivots := by
  induction n with
  | zero =>
    intro c c' s s' kp km hp inv
    obtain ⟨rfl, _⟩ := pure_eq_ok (by simpa only [parsePieces] using hp)
    exact ⟨kp, km, inv, rfl, rfl, rfl⟩
  | succ n ih =>
    intro c c' s s' kp km hp inv
    simp only [parsePieces] at hp
    obtain ⟨idc, s1, _, hp⟩ := P.bind_eq_ok.mp hp
    obtain ⟨u, s2, _, hp⟩ := P.bind_eq_ok.mp hp
    cases hidc : (idc == 0) with
    | true =>
      rw [hidc, if_pos rfl] at hp
      obtain ⟨pc, s3, hpc, hp⟩ := P.bind_eq_ok.mp hp
      obtain ⟨order, ints, fracs, rfl, ho, hf, hi⟩ := parsePolyPiece_ok q hq h _ _ _ _ hpc
      have inv' : PiecesInv q h
          { c with
            mapping_idc := .polynomial
            polynomial := some (polySnoc (c.polynomial.getD {}) order false ints fracs) } (kp + 1) km :=
        ⟨PolyWf_snoc q h kp _ order ints fracs inv.poly ho hf hi, inv.mmr, by simp, inv.mmrNone,
          fun _ _ => rfl, by omega⟩
      obtain ⟨kp', km', inv'', hk, h1, h2⟩ := ih _ c' s3 s' (kp + 1) km hp inv'
      exact ⟨kp', km', inv'', by omega, h1, h2⟩
    | false =>
      rw [hidc, if_neg (by decide)] at hp
      obtain ⟨mc, s3, hmc, hp⟩ := P.bind_eq_ok.mp hp
      obtain ⟨order, ci, cst, irows, frows, rfl, ho, hci, hfl, hfall, hil, hiall⟩ :=
        parseMmrPiece_ok q hq h _ _ _ _ hmc
      have inv' : PiecesInv q h
          { c with
            mapping_idc := .mmr
            mmr := some (mmrSnoc (c.mmr.getD {}) order ci cst irows frows) } kp (km + 1) :=
        ⟨inv.poly, MmrWf_snoc q hq h km _ order ci cst irows frows inv.mmr ho hci hfl hfall hil hiall,
          inv.polyNone, by simp, by omega, fun _ _ => rfl⟩
      obtain ⟨kp', km', inv'', hk, h1, h2⟩ := ih _ c' s3 s' kp (km + 1) hp inv'
      exact ⟨kp', km', inv'', by omega, h1, h2⟩

/-- a finished component that passes `Curve.piecesOk` (no mixed methods) is well-formed -/
theorem curveWf_of_inv (q : Int → Bool) (h : Header) (c : Curve) (kp km : Nat) (inv : PiecesInv q h c kp km)
    (hk : kp + km = c.num_pivots_minus2 + 1) (hpl : c.pivots.length = c.num_pivots_minus2 + 2)
    (hok : c.piecesOk = true) : CurveWf q h c = true := by
  obtain ⟨n, pv, idc, poly, mmr⟩ := c
  obtain ⟨ipoly, immr, ipn, imn, iip, iim⟩ := inv
  simp only at hk hpl ipoly immr ipn imn iip iim
  simp only [CurveWf, Bool.and_eq_true, beq_iff_eq]
  refine ⟨hpl, ?_⟩
  cases poly with
  | some p =>
    simp only [Curve.piecesOk, beq_iff_eq] at hok
    simp only [Option.getD_some] at ipoly
    have hkp : kp = n + 1 := by
      simp only [PolyWf, Bool.and_eq_true, beq_iff_eq] at ipoly
      omega
    have hkm : km = 0 := by omega
    have hmn : mmr = none := imn.mpr hkm
    have hidc : idc = .polynomial := iip hkm (by omega)
    subst hmn hidc hkp
    exact ipoly
  | none =>
    have hkp : kp = 0 := ipn.mp rfl
    cases mmr with
    | some m =>
      simp only [Curve.piecesOk, beq_iff_eq] at hok
      simp only [Option.getD_some] at immr
      have hkm : km = n + 1 := by omega
      have hidc : idc = .mmr := iim hkp (by omega)
      subst hidc hkm
      exact immr
    | none =>
      have hkm : km = 0 := imn.mp rfl
      omega

theorem parsePivots_ok {bl : Nat} {s s' : Bits} {c : Curve} (hp : parsePivots bl s = .ok (c, s')) :
    c.pivots.length = c.num_pivots_minus2 + 2 ∧ c.polynomial = none ∧ c.mmr = none := by
  unfold parsePivots at hp
  obtain ⟨n, s1, _, hp⟩ := P.bind_eq_ok.mp hp
  obtain ⟨av, s2, _, hp⟩ := P.bind_eq_ok.mp hp
  obtain ⟨u, s3, _, hp⟩ := P.bind_eq_ok.mp hp
  obtain ⟨pv, s4, hpv, hp⟩ := P.bind_eq_ok.mp hp
  obtain ⟨rfl, _⟩ := pure_eq_ok hp
  exact ⟨(repeatP_ok hpv).1, rfl, rfl⟩

theorem parseCurvePieces_ok (q : Int → Bool) (hq : ∀ v, q v = true) (h : Header) :
    ∀ (cs cs' : List Curve) (s s' : Bits), parseCurvePieces h cs s = .ok (cs', s') →
      (∀ c ∈ cs, c.pivots.length = c.num_pivots_minus2 + 2 ∧ c.polynomial = none ∧ c.mmr = none) →
      cs'.length = cs.length ∧ ∀ c' ∈ cs', c'.piecesOk = true → CurveWf q h c' = true := by
  intro cs
  induction cs with
  | nil =>
    intro cs' s s' hp _
    obtain ⟨rfl, _⟩ := pure_eq_ok (by simpa only [parseCurvePieces] using hp)
    simp
  | cons c cs ih =>
    intro cs' s s' hp hall
    simp only [parseCurvePieces] at hp
    obtain ⟨c', s1, hc', hp⟩ := P.bind_eq_ok.mp hp
    obtain ⟨cs1, s2, hcs1, hp⟩ := P.bind_eq_ok.mp hp
    obtain ⟨rfl, _⟩ := pure_eq_ok hp
    obtain ⟨hl, hrest⟩ := ih cs1 s1 s2 hcs1 (fun x hx => hall x (by simp [hx]))
    obtain ⟨hpl, hpn, hmn⟩ := hall c (by simp)
    obtain ⟨kp, km, inv, hk, hn, hpv⟩ := parsePieces_inv q hq h _ c c' s s1 0 0 hc' (PiecesInv_init q h c hpn hmn)
    refine ⟨by simp [hl], ?_⟩
    intro x hx hxok
    rcases List.mem_cons.mp hx with rfl | hx
    · exact curveWf_of_inv q h x kp km inv (by omega) (by rw [hpv, hn]; exact hpl) hxok
    · exact hrest x hx hxok


/-! ### NLQ -/

theorem nlqRd_ok {h : Header} {s s' : Bits} {p : Nat × Nat} (hp : nlqRd h s = .ok (p, s'))
    (hc : (h.coefficient_data_type == 0) = false) : p.1 = 0 := by
  unfold nlqRd at hp
  obtain ⟨i, s1, hi, hp⟩ := P.bind_eq_ok.mp hp
  obtain ⟨f, s2, _, hp⟩ := P.bind_eq_ok.mp hp
  obtain ⟨rfl, _⟩ := pure_eq_ok hp
  rw [hc, if_neg (by decide)] at hi
  exact (pure_eq_ok hi).1.symm

theorem parseNlqComp_ok {h : Header} {s s' : Bits} {l : List Nat} (hp : parseNlqComp h s = .ok (l, s')) :
    ∃ (off : Nat) (a b c : Nat × Nat), l = [off, a.1, a.2, b.1, b.2, c.1, c.2] ∧
      ((h.coefficient_data_type == 0) = false → a.1 = 0 ∧ b.1 = 0 ∧ c.1 = 0) := by
  rw [parseNlqComp_eq] at hp
  obtain ⟨off, s1, _, hp⟩ := P.bind_eq_ok.mp hp
  obtain ⟨a, s2, ha, hp⟩ := P.bind_eq_ok.mp hp
  obtain ⟨b, s3, hb, hp⟩ := P.bind_eq_ok.mp hp
  obtain ⟨c, s4, hc, hp⟩ := P.bind_eq_ok.mp hp
  obtain ⟨rfl, _⟩ := pure_eq_ok hp
  exact ⟨off, a, b, c, rfl, fun h0 => ⟨nlqRd_ok ha h0, nlqRd_ok hb h0, nlqRd_ok hc h0⟩⟩

theorem map_eq_zeros {α} (l : List α) (f : α → Nat) (hl : l.length = 3) (hz : ∀ x ∈ l, f x = 0) :
    l.map f = [0, 0, 0] := by
  match l, hl with
  | [a, b, c], _ => simp [hz a (by simp), hz b (by simp), hz c (by simp)]

theorem nlqIntsOk_col (h : Header) (comps : List (List Nat)) (f : List Nat → Nat) (hl : comps.length = 3)
    (hz : (h.coefficient_data_type == 0) = false → ∀ x ∈ comps, f x = 0) :
    nlqIntsOk h (comps.map f) = true := by
  unfold nlqIntsOk
  cases hc : (h.coefficient_data_type == 0) with
  | true => simp [hl]
  | false => rw [if_neg (by decide), map_eq_zeros comps f hl (hz hc)]; rfl

theorem parseNlq_ok {h : Header} {s s' : Bits} {n : Nlq} (hp : parseNlq h s = .ok (n, s')) : NlqWf h n = true := by
  unfold parseNlq at hp
  obtain ⟨comps, s1, hcomps, hp⟩ := P.bind_eq_ok.mp hp
  obtain ⟨rfl, _⟩ := pure_eq_ok hp
  obtain ⟨hl, hall⟩ := repeatP_ok hcomps
  have hz : ∀ i, i = 1 ∨ i = 3 ∨ i = 5 → (h.coefficient_data_type == 0) = false →
      ∀ x ∈ comps, (fun c : List Nat => c.getD i 0) x = 0 := by
    intro i hi h0 x hx
    obtain ⟨s2, s3, h23⟩ := hall x hx
    obtain ⟨off, a, b, c, rfl, hz⟩ := parseNlqComp_ok h23
    obtain ⟨za, zb, zc⟩ := hz h0
    rcases hi with rfl | rfl | rfl <;> simp [za, zb, zc]
  simp only [NlqWf, Bool.and_eq_true, beq_iff_eq, List.length_map]
  exact ⟨⟨⟨⟨⟨⟨hl, hl⟩, hl⟩, hl⟩, nlqIntsOk_col h comps _ hl (hz 1 (by simp))⟩,
    nlqIntsOk_col h comps _ hl (hz 3 (by simp))⟩, nlqIntsOk_col h comps _ hl (hz 5 (by simp))⟩

/-! ### the whole mapping -/

/-- **parse → shape**: every mapping `parseMapping` returns whose components pass `Curve.piecesOk` (the check
`Mapping.validate` performs: no component mixes polynomial and MMR pieces) has the shape `MappingShape`, i.e.
satisfies `MappingWf` except for the `seExact` bound on the coded integer coefficient parts -/
theorem parseMapping_shape (h : Header) (s s' : Bits) (m : Mapping)
    (hp : parseMapping h s = .ok (m, s')) (hv : m.curves.all Curve.piecesOk = true) :
    MappingShape h m = true := by
  unfold parseMapping at hp
  obtain ⟨rid, s1, _, hp⟩ := P.bind_eq_ok.mp hp
  obtain ⟨cs, s2, _, hp⟩ := P.bind_eq_ok.mp hp
  obtain ⟨cf, s3, _, hp⟩ := P.bind_eq_ok.mp hp
  obtain ⟨curves0, s4, hcurves0, hp⟩ := P.bind_eq_ok.mp hp
  obtain ⟨m1, s5, hm1, hp⟩ := P.bind_eq_ok.mp hp
  obtain ⟨nx, s6, _, hp⟩ := P.bind_eq_ok.mp hp
  obtain ⟨ny, s7, _, hp⟩ := P.bind_eq_ok.mp hp
  obtain ⟨curves1, s8, hcurves1, hp⟩ := P.bind_eq_ok.mp hp
  obtain ⟨hl0, hall0⟩ := repeatP_ok hcurves0
  have hpiv : ∀ c ∈ curves0, c.pivots.length = c.num_pivots_minus2 + 2 ∧ c.polynomial = none ∧ c.mmr = none := by
    intro c hc
    obtain ⟨s9, s10, h910⟩ := hall0 c hc
    exact parsePivots_ok h910
  unfold MappingShape MappingWfG
  cases hcond : (h.rpu_format &&& 0x700 == 0 && !h.disable_residual_flag) with
  | true =>
    rw [hcond, if_pos rfl] at hm1
    obtain ⟨idc, s11, _, hm1⟩ := P.bind_eq_ok.mp hm1
    obtain ⟨u, s12, _, hm1⟩ := P.bind_eq_ok.mp hm1
    obtain ⟨pv, s13, hpv, hm1⟩ := P.bind_eq_ok.mp hm1
    obtain ⟨rfl, _⟩ := pure_eq_ok hm1
    simp only [Option.isSome_some, if_true] at hp
    obtain ⟨nlq, s14, hnlq, hp⟩ := P.bind_eq_ok.mp hp
    obtain ⟨rfl, _⟩ := pure_eq_ok hp
    obtain ⟨hl1, hall1⟩ := parseCurvePieces_ok (fun _ => true) (fun _ => rfl) h _ _ _ _ hcurves1 hpiv
    simp only [if_true, Bool.and_eq_true, beq_iff_eq, List.all_eq_true] at hv ⊢
    exact ⟨⟨by rw [hl1, hl0], fun c hc => hall1 c hc (hv c hc)⟩,
      ⟨⟨⟨trivial, trivial⟩, (repeatP_ok hpv).1⟩, parseNlq_ok hnlq⟩⟩
  | false =>
    rw [hcond, if_neg (by decide)] at hm1
    obtain ⟨rfl, _⟩ := pure_eq_ok hm1
    simp only [Option.isSome_none, Bool.false_eq_true, if_false] at hp
    obtain ⟨rfl, _⟩ := pure_eq_ok hp
    obtain ⟨hl1, hall1⟩ := parseCurvePieces_ok (fun _ => true) (fun _ => rfl) h _ _ _ _ hcurves1 hpiv
    simp only [Bool.false_eq_true, if_false, Bool.and_eq_true, beq_iff_eq, List.all_eq_true] at hv ⊢
    exact ⟨⟨by rw [hl1, hl0], fun c hc => hall1 c hc (hv c hc)⟩, ⟨⟨⟨trivial, trivial⟩, trivial⟩, trivial⟩⟩

/-! ### `MappingWf` = `MappingShape` + `seExact` on the coded integer parts -/

/-- all integer coefficient parts stored in a component -/
def Curve.coefInts (c : Curve) : List Int :=
  (match c.polynomial with | some p => p.poly_coef_int.flatten | none => []) ++
  (match c.mmr with | some m => m.mmr_constant_int ++ m.mmr_coef_int.flatten.flatten | none => [])

def Mapping.coefInts (m : Mapping) : List Int := m.curves.flatMap Curve.coefInts

theorem coefIntsOk_mono (q q' : Int → Bool) (h : Header) (n : Nat) (ints : List Int)
    (hqq : ∀ v ∈ ints, q v = true → q' v = true) (hok : coefIntsOk q h n ints = true) :
    coefIntsOk q' h n ints = true := by
  unfold coefIntsOk at hok ⊢
  split
  · rename_i hc
    rw [if_pos hc] at hok
    simp only [Bool.and_eq_true, List.all_eq_true] at hok ⊢
    exact ⟨hok.1, fun v hv => hqq v hv (hok.2 v hv)⟩
  · rename_i hc
    rw [if_neg hc] at hok
    exact hok

theorem polyPieceWf_mono (q q' : Int → Bool) (h : Header) (p : PolyCurve) (i : Nat)
    (hqq : ∀ row ∈ p.poly_coef_int, ∀ v ∈ row, q v = true → q' v = true)
    (hok : polyPieceWf q h p i = true) : polyPieceWf q' h p i = true := by
  unfold polyPieceWf at hok ⊢
  split at hok
  · rename_i order lin ints fracs ho hl hi hf
    simp only [Bool.and_eq_true] at hok ⊢
    exact ⟨hok.1, coefIntsOk_mono q q' h _ ints (hqq ints (List.mem_of_getElem? hi)) hok.2⟩
  · cases hok

theorem PolyWf_mono (q q' : Int → Bool) (h : Header) (n : Nat) (p : PolyCurve)
    (hqq : ∀ row ∈ p.poly_coef_int, ∀ v ∈ row, q v = true → q' v = true)
    (hok : PolyWf q h n p = true) : PolyWf q' h n p = true := by
  simp only [PolyWf, Bool.and_eq_true, List.all_eq_true] at hok ⊢
  exact ⟨hok.1, fun i hi => polyPieceWf_mono q q' h p i hqq (hok.2 i hi)⟩

theorem mmrPieceWf_mono (q q' : Int → Bool) (h : Header) (m : MmrCurve) (i : Nat)
    (hq1 : ∀ v ∈ m.mmr_constant_int, q v = true → q' v = true)
    (hq2 : ∀ rows ∈ m.mmr_coef_int, ∀ row ∈ rows, ∀ v ∈ row, q v = true → q' v = true)
    (hok : mmrPieceWf q h m i = true) : mmrPieceWf q' h m i = true := by
  unfold mmrPieceWf at hok ⊢
  split at hok
  · rename_i order cst irows frows ho hc hi hf
    simp only [Bool.and_eq_true, List.all_eq_true] at hok ⊢
    obtain ⟨⟨⟨⟨⟨h1, h2⟩, h3⟩, h4⟩, h5⟩, h6⟩ := hok
    refine ⟨⟨⟨⟨⟨h1, ?_⟩, h3⟩, h4⟩, h5⟩, fun row hrow =>
      coefIntsOk_mono q q' h 7 row (hq2 irows (List.mem_of_getElem? hi) row hrow) (h6 row hrow)⟩
    split
    · rename_i hc0
      rw [if_pos hc0] at h2
      split at h2
      · rename_i v hv
        exact hq1 v (List.mem_of_getElem? hv) h2
      · cases h2
    · rename_i hc0
      rw [if_neg hc0] at h2
      exact h2
  · cases hok

theorem MmrWf_mono (q q' : Int → Bool) (h : Header) (n : Nat) (m : MmrCurve)
    (hq1 : ∀ v ∈ m.mmr_constant_int, q v = true → q' v = true)
    (hq2 : ∀ rows ∈ m.mmr_coef_int, ∀ row ∈ rows, ∀ v ∈ row, q v = true → q' v = true)
    (hok : MmrWf q h n m = true) : MmrWf q' h n m = true := by
  simp only [MmrWf, Bool.and_eq_true, List.all_eq_true] at hok ⊢
  exact ⟨hok.1, fun i hi => mmrPieceWf_mono q q' h m i hq1 hq2 (hok.2 i hi)⟩

theorem CurveWf_mono (q q' : Int → Bool) (h : Header) (c : Curve)
    (hqq : ∀ v ∈ c.coefInts, q v = true → q' v = true) (hok : CurveWf q h c = true) : CurveWf q' h c = true := by
  obtain ⟨n, pv, idc, poly, mmr⟩ := c
  simp only [CurveWf, Bool.and_eq_true] at hok ⊢
  obtain ⟨hpl, hok⟩ := hok
  refine ⟨hpl, ?_⟩
  split at hok
  · rename_i p
    apply PolyWf_mono q q' h _ p _ hok
    intro row hrow v hv
    apply hqq
    simp only [Curve.coefInts, List.append_nil, List.mem_flatten]
    exact ⟨row, hrow, hv⟩
  · rename_i m
    apply MmrWf_mono q q' h _ m _ _ hok
    · intro v hv
      apply hqq
      simp only [Curve.coefInts, List.nil_append, List.mem_append]
      exact Or.inl hv
    · intro rows hrows row hrow v hv
      apply hqq
      simp only [Curve.coefInts, List.nil_append, List.mem_append, List.mem_flatten]
      exact Or.inr ⟨row, ⟨rows, hrows, hrow⟩, hv⟩
  · cases hok

theorem MappingWfG_mono (q q' : Int → Bool) (h : Header) (m : Mapping)
    (hqq : ∀ v ∈ m.coefInts, q v = true → q' v = true) (hok : MappingWfG q h m = true) :
    MappingWfG q' h m = true := by
  unfold MappingWfG at hok ⊢
  rw [Bool.and_eq_true, Bool.and_eq_true, List.all_eq_true] at hok ⊢
  refine ⟨⟨hok.1.1, fun c hc => CurveWf_mono q q' h c (fun v hv => hqq v ?_) (hok.1.2 c hc)⟩, hok.2⟩
  exact List.mem_flatMap.mpr ⟨c, hc, hv⟩

/-- `MappingWf` implies the shape -/
theorem MappingShape_of_MappingWf (h : Header) (m : Mapping) (hwf : MappingWf h m = true) :
    MappingShape h m = true :=
  MappingWfG_mono seExact (fun _ => true) h m (fun _ _ _ => rfl) hwf

/-- the shape plus `seExact` on every stored integer coefficient part gives `MappingWf` -/
theorem MappingWf_of_shape (h : Header) (m : Mapping) (hs : MappingShape h m = true)
    (hx : m.coefInts.all seExact = true) : MappingWf h m = true :=
  MappingWfG_mono (fun _ => true) seExact h m (fun v hv _ => List.all_eq_true.mp hx v hv) hs

/-- **parse → write → parse**: a parsed mapping that passes the `Curve.piecesOk` validation and whose integer
coefficient parts survive `get_se` (e.g. all below 2^52 in magnitude) is reproduced exactly by parsing what
the writer emits for it -/
theorem parseMapping_writeMapping_of_parse (h : Header) (s s' : Bits) (m : Mapping) (w r : Bits)
    (hp : parseMapping h s = .ok (m, s')) (hv : m.curves.all Curve.piecesOk = true)
    (hx : m.coefInts.all seExact = true) (hw : writeMapping h m = .ok w) :
    parseMapping h (w ++ r) = .ok (m, r) :=
  parseMapping_writeMapping h m w r hw (MappingWf_of_shape h m (parseMapping_shape h s s' m hp hv) hx)

/-! ### the `Curve.piecesOk` hypothesis is necessary (mixed components)

`parseMapping` itself accepts a component whose pieces switch between polynomial and MMR. Such a parse result
has both `polynomial` and `mmr` set (with fewer entries than pieces), is rejected by `Curve.piecesOk`
(`Mapping.validate`), is not `MappingShape`, and the writer — which writes a polynomial piece for every pivot
index as soon as `polynomial` is present — panics on it (index out of bounds). -/

def exIdPoly : PolyCurve :=
  { poly_order_minus1 := [0], linear_interp_flag := [false], poly_coef_int := [[0, 1]], poly_coef := [[0, 0]] }

def exOneMmr : MmrCurve :=
  { mmr_order_minus1 := [0], mmr_constant_int := [0], mmr_constant := [0],
    mmr_coef_int := [[[1, 0, 0, 0, 0, 0, 0]]], mmr_coef := [[[0, 0, 0, 0, 0, 0, 0]]] }

/-- a bitstream whose first component has a polynomial piece followed by an MMR piece -/
def exMixedBits : Bits :=
  match wcat [writeUe 0, writeUe 0, writeUe 0,
    wcat [writeUe 1, writeN 10 0, writeN 10 512, writeN 10 1023],
    wcat [writeUe 0, writeN 10 0, writeN 10 1023], wcat [writeUe 0, writeN 10 0, writeN 10 1023],
    writeUe 0, writeUe 0,
    writeUe 0, writePolyPiece exHdr81 exIdPoly 0,
    writeUe 1, writeMmrPiece exHdr81 exOneMmr 0,
    writeUe 0, writePolyPiece exHdr81 exIdPoly 0, writeUe 0, writePolyPiece exHdr81 exIdPoly 0] with
  | .ok b => b
  | _ => []

def exMixedMap : Mapping :=
  { curves := [{ num_pivots_minus2 := 1, pivots := [0, 512, 1023], mapping_idc := .mmr,
                 polynomial := some exIdPoly, mmr := some exOneMmr }, exIdCurve, exIdCurve] }

set_option maxRecDepth 1000000 in
theorem exMixed : parseMapping exHdr81 exMixedBits = .ok (exMixedMap, []) ∧
    exMixedMap.curves.all Curve.piecesOk = false ∧ MappingShape exHdr81 exMixedMap = false ∧
    writeMapping exHdr81 exMixedMap = .panic := by decide

end Dovi
