import DoviModel.Proofs.HevcExtract
import DoviModel.Proofs.HevcInject
set_option linter.unusedSimpArgs false
namespace Dovi.Hevc
open Dovi

theorem sortK_length (l : List (Nat × Bytes)) : (sortK l).length = l.length := (sortK_perm l).length_eq

theorem keyed_length (pres : Nat → Nat) (k : Nat) (rs : List Bytes) : (keyed pres k rs).length = rs.length := by
  induction rs generalizing k with
  | nil => rfl
  | cons r rs ih => simp [keyed, ih]

/-- extract-rpu on a stream with one RPU per frame (`rs` in decode order): the file holds, at position
`pres k`, the RPU of the frame decoded k-th -/
theorem extract_of_rpus (pres : Nat → Nat) (n : Nat) (c : Cfg) (conv : Bytes → Option Bytes) (items : List Item)
    (rs : List Bytes) (hsl : c.sl = false) (hdrop : c.drop = false) (hrpu : c.rpu = true)
    (hnd : NoDupFrom 0 (rpuAus items))
    (hrs : optMap (fun it => (rpuConv c.convSet conv it.data).map (fun m => m.drop 2)) (items.filter isRpu) = some rs)
    (hn : n ≠ 0) (hlen : rs.length = n)
    (hperm : ((List.range n).map pres).Perm (List.range n)) :
    ∃ out, extract pres n c conv items = some out ∧ out.length = n ∧
      ∀ k, k < n → out[pres k]? = rs[k]? := by
  have h := run_rpu_spec c conv {} items hsl hdrop hrpu hnd
  rw [hrs] at h
  unfold extract general
  cases hr : run c conv {} items with
  | none => rw [hr] at h; simp at h
  | some s =>
    rw [hr] at h
    simp only [Option.map_some, Option.some.injEq] at h
    simp only [h]
    rw [if_neg (by omega)]
    refine ⟨_, rfl, by simp [sortK_length, keyed_length, hlen], ?_⟩
    intro k hk
    have hk' : k < rs.length := by omega
    rw [List.getElem?_eq_getElem hk']
    exact sortK_display_order pres rs (by rw [hlen]; exact hperm) k _ (List.getElem?_eq_getElem hk')

theorem perm_range_surj (pres : Nat → Nat) (n : Nat) (hperm : ((List.range n).map pres).Perm (List.range n))
    (j : Nat) (hj : j < n) : ∃ k, k < n ∧ pres k = j := by
  have : j ∈ (List.range n).map pres := hperm.mem_iff.mpr (by simpa using hj)
  obtain ⟨k, hk, rfl⟩ := List.mem_map.mp this
  exact ⟨k, by simpa using hk, rfl⟩

theorem perm_range_lt (pres : Nat → Nat) (n : Nat) (hperm : ((List.range n).map pres).Perm (List.range n))
    (k : Nat) (hk : k < n) : pres k < n := by
  have : pres k ∈ List.range n := hperm.mem_iff.mp (List.mem_map.mpr ⟨k, by simpa using hk, rfl⟩)
  simpa using this

theorem filter_isRpu_map (its : List Item) :
    (its.filter isRpu).map (fun it => it.data.drop 2) =
      ((its.map payI).filter (fun x => x.1 == NAL_UNSPEC62)).map (fun x => x.2.drop 2) := by
  induction its with
  | nil => rfl
  | cons it rest ih =>
    by_cases h : it.typ = NAL_UNSPEC62
    · have e : (it.typ == NAL_UNSPEC62) = true := by simpa using h
      simp only [List.filter_cons, isRpu, e, if_true, List.map_cons, payI, ih]
    · have e : (it.typ == NAL_UNSPEC62) = false := by simpa using h
      simp only [List.filter_cons, isRpu, e, Bool.false_eq_true, if_false, List.map_cons, payI]
      simpa [isRpu] using ih

/-- extract-rpu of an injected stream returns the injected list -/
theorem extract_inject_id (c : ICfg) (aud : Nat → Bytes) (pres : Nat → Nat) (n : Nat) (rpus : List Bytes)
    (items : List Item) (out : List Out) (its2 : List Item)
    (hd : c.drop = false) (hn : n ≠ 0) (hi : items ≠ []) (hlen : rpus.length = n)
    (hperm : ((List.range n).map pres).Perm (List.range n))
    (hlab : (frames (keepAud c items)).map (·.1) = List.range n)
    (hb : ∀ fr ∈ frames (keepAud c items), preEos (injBody0 fr) ≠ [])
    (hout : inject c aud pres n rpus items = some out)
    (hits : its2.map payI = out.map pay) (hnd : NoDupFrom 0 (rpuAus its2)) (conv : Bytes → Option Bytes) :
    extract pres n cfgExtract conv its2 = some (rpus.map (fun r => r.drop 2)) := by
  have hfr : ∀ fr ∈ frames (keepAud c items), fr.1 < n := by
    intro fr hfr
    have : fr.1 ∈ (frames (keepAud c items)).map (·.1) := List.mem_map.mpr ⟨fr, hfr, rfl⟩
    rw [hlab] at this; simpa using this
  have hr : ∀ fr ∈ frames (keepAud c items), pres fr.1 < rpus.length := by
    intro fr h; rw [hlen]; exact perm_range_lt pres n hperm _ (hfr fr h)
  rw [inject_matched_frames c aud pres n rpus items hd hn hi hfr hr hb] at hout
  simp only [Option.some.injEq] at hout
  -- the RPUs of the injected stream, decode order
  let rs : List Bytes := (List.range n).map (fun k => (rpus.getD (pres k) []).drop 2)
  have hrs : (its2.filter isRpu).map (fun it => it.data.drop 2) = rs := by
    rw [filter_isRpu_map, hits, ← hout, inject_rpus]
    rw [List.map_map]
    have : (frames (keepAud c items)).map ((fun x : Nat × Bytes => x.2.drop 2) ∘ fun fr => (NAL_UNSPEC62, rpus.getD (pres fr.1) []))
        = ((frames (keepAud c items)).map (·.1)).map (fun k => (rpus.getD (pres k) []).drop 2) := by
      rw [List.map_map]; rfl
    rw [this, hlab]
  have hspec : optMap (fun it => (rpuConv cfgExtract.convSet conv it.data).map (fun m => m.drop 2)) (its2.filter isRpu) = some rs := by
    have : (fun it : Item => (rpuConv cfgExtract.convSet conv it.data).map (fun m => m.drop 2))
        = fun it => some (it.data.drop 2) := by
      funext it; simp [rpuConv, cfgExtract]
    rw [this, optMap_some, hrs]
  obtain ⟨o2, ho2, hl2, hk2⟩ := extract_of_rpus pres n cfgExtract conv its2 rs rfl rfl rfl hnd hspec hn
    (by simp [rs]) hperm
  rw [ho2]
  congr 1
  apply List.ext_getElem?
  intro j
  by_cases hj : j < n
  · obtain ⟨k, hk, rfl⟩ := perm_range_surj pres n hperm j hj
    rw [hk2 k hk]
    have hj' : pres k < rpus.length := by omega
    simp [rs, hk, List.getD, List.getElem?_eq_getElem hj']
  · rw [List.getElem?_eq_none (by omega), List.getElem?_eq_none (by simp; omega)]

end Dovi.Hevc
