import DoviModel.Model.PqTable
/-!
# Kernel evaluation of the PQ certificate checkers (property C19)

Core Lean only.  Every `*_c<i>` theorem here is closed by `decide +kernel`: the kernel evaluates the integer
checkers of `Model/PqTable.lean` (big-integer powers, GMP-accelerated `Nat` arithmetic) on a slice of the table
(slices only keep a single kernel evaluation small, and make a failing certificate name its slice).  The whole file
takes about a minute to check once; it is cached by lake afterwards.  The lifting to statements about the real
function `nitsToPq` is in `Proofs/PqReal.lean`.

What is evaluated: `bndCheck j` for all 4095 tie points (4 big-power inequalities each), `nitsCheck n` and
`minLumCheck k` for all 10001 + 10001 table entries (bracket membership), `thrCheck i` for the 199 rounding
thresholds, `round100Check c` / `round1000Check c` for all 4096 codes.
-/
namespace Dovi.PqTable

/-- `f` holds on `lo, lo+1, .., lo+n-1`.  (Counting down, so that inside the kernel the argument of `f` is the sum
of two literals rather than a tower of `+ 1`.) -/
def allRange (f : Nat → Bool) (lo : Nat) : Nat → Bool
  | 0 => true
  | n + 1 => withNat (lo + n) f && allRange f lo n

theorem allRange_ok {f : Nat → Bool} {lo n j : Nat} (h : allRange f lo n = true) (h1 : lo ≤ j) (h2 : j < lo + n) :
    f j = true := by
  induction n with
  | zero => omega
  | succ n ih =>
    simp only [allRange, withNat_eq, Bool.and_eq_true] at h
    by_cases hj : j = lo + n
    · subst hj; exact h.1
    · exact ih h.2 (by omega)

theorem bnd_c0 : allRange bndCheck 0 342 = true := by decide +kernel
theorem bnd_c1 : allRange bndCheck 342 342 = true := by decide +kernel
theorem bnd_c2 : allRange bndCheck 684 342 = true := by decide +kernel
theorem bnd_c3 : allRange bndCheck 1026 342 = true := by decide +kernel
theorem bnd_c4 : allRange bndCheck 1368 342 = true := by decide +kernel
theorem bnd_c5 : allRange bndCheck 1710 342 = true := by decide +kernel
theorem bnd_c6 : allRange bndCheck 2052 342 = true := by decide +kernel
theorem bnd_c7 : allRange bndCheck 2394 342 = true := by decide +kernel
theorem bnd_c8 : allRange bndCheck 2736 342 = true := by decide +kernel
theorem bnd_c9 : allRange bndCheck 3078 342 = true := by decide +kernel
theorem bnd_c10 : allRange bndCheck 3420 342 = true := by decide +kernel
theorem bnd_c11 : allRange bndCheck 3762 333 = true := by decide +kernel

/-- all 4095 tie-point certificates check -/
theorem bnd_ok {j : Nat} (h0 : 0 ≤ j) (h : j < 4095) : bndCheck j = true := by
  if h0 : j < 342 then exact allRange_ok bnd_c0 (by omega) (by omega) else
  if h1 : j < 684 then exact allRange_ok bnd_c1 (by omega) (by omega) else
  if h2 : j < 1026 then exact allRange_ok bnd_c2 (by omega) (by omega) else
  if h3 : j < 1368 then exact allRange_ok bnd_c3 (by omega) (by omega) else
  if h4 : j < 1710 then exact allRange_ok bnd_c4 (by omega) (by omega) else
  if h5 : j < 2052 then exact allRange_ok bnd_c5 (by omega) (by omega) else
  if h6 : j < 2394 then exact allRange_ok bnd_c6 (by omega) (by omega) else
  if h7 : j < 2736 then exact allRange_ok bnd_c7 (by omega) (by omega) else
  if h8 : j < 3078 then exact allRange_ok bnd_c8 (by omega) (by omega) else
  if h9 : j < 3420 then exact allRange_ok bnd_c9 (by omega) (by omega) else
  if h10 : j < 3762 then exact allRange_ok bnd_c10 (by omega) (by omega) else
  exact allRange_ok bnd_c11 (by omega) (by omega)

theorem nits_c0 : allRange nitsCheck 0 834 = true := by decide +kernel
theorem nits_c1 : allRange nitsCheck 834 834 = true := by decide +kernel
theorem nits_c2 : allRange nitsCheck 1668 834 = true := by decide +kernel
theorem nits_c3 : allRange nitsCheck 2502 834 = true := by decide +kernel
theorem nits_c4 : allRange nitsCheck 3336 834 = true := by decide +kernel
theorem nits_c5 : allRange nitsCheck 4170 834 = true := by decide +kernel
theorem nits_c6 : allRange nitsCheck 5004 834 = true := by decide +kernel
theorem nits_c7 : allRange nitsCheck 5838 834 = true := by decide +kernel
theorem nits_c8 : allRange nitsCheck 6672 834 = true := by decide +kernel
theorem nits_c9 : allRange nitsCheck 7506 834 = true := by decide +kernel
theorem nits_c10 : allRange nitsCheck 8340 834 = true := by decide +kernel
theorem nits_c11 : allRange nitsCheck 9174 827 = true := by decide +kernel

/-- every integer nits value 0..10000 lies in the certified bracket of its table code -/
theorem nits_ok {j : Nat} (h0 : 0 ≤ j) (h : j < 10001) : nitsCheck j = true := by
  if h0 : j < 834 then exact allRange_ok nits_c0 (by omega) (by omega) else
  if h1 : j < 1668 then exact allRange_ok nits_c1 (by omega) (by omega) else
  if h2 : j < 2502 then exact allRange_ok nits_c2 (by omega) (by omega) else
  if h3 : j < 3336 then exact allRange_ok nits_c3 (by omega) (by omega) else
  if h4 : j < 4170 then exact allRange_ok nits_c4 (by omega) (by omega) else
  if h5 : j < 5004 then exact allRange_ok nits_c5 (by omega) (by omega) else
  if h6 : j < 5838 then exact allRange_ok nits_c6 (by omega) (by omega) else
  if h7 : j < 6672 then exact allRange_ok nits_c7 (by omega) (by omega) else
  if h8 : j < 7506 then exact allRange_ok nits_c8 (by omega) (by omega) else
  if h9 : j < 8340 then exact allRange_ok nits_c9 (by omega) (by omega) else
  if h10 : j < 9174 then exact allRange_ok nits_c10 (by omega) (by omega) else
  exact allRange_ok nits_c11 (by omega) (by omega)

theorem minLum_c0 : allRange minLumCheck 0 834 = true := by decide +kernel
theorem minLum_c1 : allRange minLumCheck 834 834 = true := by decide +kernel
theorem minLum_c2 : allRange minLumCheck 1668 834 = true := by decide +kernel
theorem minLum_c3 : allRange minLumCheck 2502 834 = true := by decide +kernel
theorem minLum_c4 : allRange minLumCheck 3336 834 = true := by decide +kernel
theorem minLum_c5 : allRange minLumCheck 4170 834 = true := by decide +kernel
theorem minLum_c6 : allRange minLumCheck 5004 834 = true := by decide +kernel
theorem minLum_c7 : allRange minLumCheck 5838 834 = true := by decide +kernel
theorem minLum_c8 : allRange minLumCheck 6672 834 = true := by decide +kernel
theorem minLum_c9 : allRange minLumCheck 7506 834 = true := by decide +kernel
theorem minLum_c10 : allRange minLumCheck 8340 834 = true := by decide +kernel
theorem minLum_c11 : allRange minLumCheck 9174 827 = true := by decide +kernel

/-- every min-luminance k/10000 nits, k = 0..10000, lies in the certified bracket of its table code -/
theorem minLum_ok {j : Nat} (h0 : 0 ≤ j) (h : j < 10001) : minLumCheck j = true := by
  if h0 : j < 834 then exact allRange_ok minLum_c0 (by omega) (by omega) else
  if h1 : j < 1668 then exact allRange_ok minLum_c1 (by omega) (by omega) else
  if h2 : j < 2502 then exact allRange_ok minLum_c2 (by omega) (by omega) else
  if h3 : j < 3336 then exact allRange_ok minLum_c3 (by omega) (by omega) else
  if h4 : j < 4170 then exact allRange_ok minLum_c4 (by omega) (by omega) else
  if h5 : j < 5004 then exact allRange_ok minLum_c5 (by omega) (by omega) else
  if h6 : j < 5838 then exact allRange_ok minLum_c6 (by omega) (by omega) else
  if h7 : j < 6672 then exact allRange_ok minLum_c7 (by omega) (by omega) else
  if h8 : j < 7506 then exact allRange_ok minLum_c8 (by omega) (by omega) else
  if h9 : j < 8340 then exact allRange_ok minLum_c9 (by omega) (by omega) else
  if h10 : j < 9174 then exact allRange_ok minLum_c10 (by omega) (by omega) else
  exact allRange_ok minLum_c11 (by omega) (by omega)

theorem thr_c0 : allRange thrCheck 1 199 = true := by decide +kernel

/-- the rounding thresholds 50, 100, .., 9950 nits -/
theorem thr_ok {j : Nat} (h0 : 1 ≤ j) (h : j < 200) : thrCheck j = true := by
  exact allRange_ok thr_c0 (by omega) (by omega)

theorem round100_c0 : allRange round100Check 0 2048 = true := by decide +kernel
theorem round100_c1 : allRange round100Check 2048 2048 = true := by decide +kernel

/-- the 100-nits rounding of every code is consistent with the thresholds -/
theorem round100_ok {j : Nat} (h0 : 0 ≤ j) (h : j < 4096) : round100Check j = true := by
  if h0 : j < 2048 then exact allRange_ok round100_c0 (by omega) (by omega) else
  exact allRange_ok round100_c1 (by omega) (by omega)

theorem round1000_c0 : allRange round1000Check 0 2048 = true := by decide +kernel
theorem round1000_c1 : allRange round1000Check 2048 2048 = true := by decide +kernel

/-- the 1000-nits rounding of every code is consistent with the thresholds -/
theorem round1000_ok {j : Nat} (h0 : 0 ≤ j) (h : j < 4096) : round1000Check j = true := by
  if h0 : j < 2048 then exact allRange_ok round1000_c0 (by omega) (by omega) else
  exact allRange_ok round1000_c1 (by omega) (by omega)

end Dovi.PqTable
