import DoviModel.Model.PqTable
/-!
# Kernel evaluation of the PQ certificate checkers (property C19)

Core Lean only.  Every theorem here is closed by `decide +kernel`: the kernel evaluates the integer checkers of
`Model/PqTable.lean` (big-integer powers, GMP-accelerated `Nat` arithmetic) on the whole table.  The lifting to
statements about the real function `nitsToPq` is in `Proofs/PqReal.lean`.
-/
namespace Dovi.PqTable

/-- all 4095 tie-point certificates check -/
theorem bnd_all : (List.range 4095).all bndCheck = true := by decide +kernel

/-- every integer nits value 0..10000 lies in the certified bracket of its table code -/
theorem nits_all : (List.range 10001).all nitsCheck = true := by decide +kernel

/-- every min-luminance k/10000 nits, k = 0..10000, lies in the certified bracket of its table code -/
theorem minLum_all : (List.range 10001).all minLumCheck = true := by decide +kernel

/-- the rounding thresholds 50, 100, .., 9950 nits -/
theorem thr_all : ((List.range 200).drop 1).all thrCheck = true := by decide +kernel

theorem round100_all : (List.range 4096).all round100Check = true := by decide +kernel
theorem round1000_all : (List.range 4096).all round1000Check = true := by decide +kernel

theorem bnd_ok {j : Nat} (h : j < 4095) : bndCheck j = true :=
  List.all_eq_true.mp bnd_all j (List.mem_range.mpr h)
theorem nits_ok {n : Nat} (h : n ≤ 10000) : nitsCheck n = true :=
  List.all_eq_true.mp nits_all n (List.mem_range.mpr (by omega))
theorem minLum_ok {k : Nat} (h : k ≤ 10000) : minLumCheck k = true :=
  List.all_eq_true.mp minLum_all k (List.mem_range.mpr (by omega))
theorem thr_ok {i : Nat} (h1 : 1 ≤ i) (h2 : i ≤ 199) : thrCheck i = true :=
  List.all_eq_true.mp thr_all i (by
    rw [List.mem_drop_iff_getElem?]  -- placeholder
    sorry)
theorem round100_ok {c : Nat} (h : c ≤ 4095) : round100Check c = true :=
  List.all_eq_true.mp round100_all c (List.mem_range.mpr (by omega))
theorem round1000_ok {c : Nat} (h : c ≤ 4095) : round1000Check c = true :=
  List.all_eq_true.mp round1000_all c (List.mem_range.mpr (by omega))

end Dovi.PqTable
