import DoviModel.Proofs.HevcGeneral
import DoviModel.Proofs.HevcInject
set_option linter.unusedSimpArgs false
namespace Dovi.Hevc
open Dovi

theorem eraseP_eq_filter_of_atMostOne {α : Type} (p : α → Bool) (l : List α) (h : (l.filter p).length ≤ 1) :
    l.eraseP p = l.filter (fun x => !p x) := by
  induction l with
  | nil => rfl
  | cons a l ih =>
    by_cases ha : p a = true
    · simp only [List.eraseP_cons_of_pos ha, List.filter_cons, ha, Bool.not_true, Bool.false_eq_true, if_false]
      simp only [List.filter_cons, ha, if_true, List.length_cons] at h
      have hnil : l.filter p = [] := List.eq_nil_of_length_eq_zero (by omega)
      rw [List.filter_eq_nil_iff] at hnil
      symm
      rw [List.filter_eq_self]
      intro x hx
      simpa using hnil x hx
    · have ha' : p a = false := by simpa using ha
      simp only [List.filter_cons, ha', Bool.false_eq_true, if_false] at h
      rw [List.eraseP_cons_of_neg ha, ih h]
      simp [List.filter_cons, ha']

/-- where the prefix SEI NALs of the staged stream come from -/
theorem seiStage_mem (items its : List Item) (h : seiStage true items = some its) :
    ∀ x ∈ its, (x.typ = NAL_SEI_PREFIX → ∃ it ∈ items, it.typ = NAL_SEI_PREFIX ∧ it.au = x.au ∧
        Sei.dropHdr10plus it.data = Sei.Res.keep x.data) ∧
      (x.typ ≠ NAL_SEI_PREFIX → x ∈ items) := by
  induction items generalizing its with
  | nil => simp [seiStage] at h; subst h; simp
  | cons it rest ih =>
    by_cases ht : it.typ = NAL_SEI_PREFIX
    · have e : (it.typ == NAL_SEI_PREFIX) = true := by simpa using ht
      simp only [seiStage, e, Bool.and_self, if_true] at h
      cases hk : Sei.dropHdr10plus it.data with
      | err => simp [hk] at h
      | dropped =>
        simp only [hk] at h
        intro x hx
        have := ih its h x hx
        refine ⟨fun hx39 => ?_, fun hxn => List.mem_cons_of_mem _ (this.2 hxn)⟩
        obtain ⟨i, hi, h3⟩ := this.1 hx39
        exact ⟨i, List.mem_cons_of_mem _ hi, h3⟩
      | keep d =>
        simp only [hk] at h
        cases hs : seiStage true rest with
        | none => simp [hs] at h
        | some r =>
          simp only [hs, Option.some.injEq] at h
          subst h
          intro x hx
          rcases List.mem_cons.mp hx with rfl | hx
          · exact ⟨fun _ => ⟨it, by simp, ht, rfl, hk⟩, fun hn => absurd ht hn⟩
          · have := ih r hs x hx
            refine ⟨fun hx39 => ?_, fun hxn => List.mem_cons_of_mem _ (this.2 hxn)⟩
            obtain ⟨i, hi, h3⟩ := this.1 hx39
            exact ⟨i, List.mem_cons_of_mem _ hi, h3⟩
    · have e : (it.typ == NAL_SEI_PREFIX) = false := by simpa using ht
      simp only [seiStage, e, Bool.and_false, Bool.false_eq_true, if_false] at h
      cases hs : seiStage true rest with
      | none => simp [hs] at h
      | some r =>
        simp only [hs, Option.some.injEq] at h
        subst h
        intro x hx
        rcases List.mem_cons.mp hx with rfl | hx
        · exact ⟨fun h39 => absurd h39 ht, fun _ => by simp⟩
        · have := ih r hs x hx
          refine ⟨fun hx39 => ?_, fun hxn => List.mem_cons_of_mem _ (this.2 hxn)⟩
          obtain ⟨i, hi, h3⟩ := this.1 hx39
          exact ⟨i, List.mem_cons_of_mem _ hi, h3⟩

/-- a stream none of whose prefix SEI NALs is changed by the rewrite passes the stage unchanged -/
theorem seiStage_id (items : List Item)
    (h : ∀ it ∈ items, it.typ = NAL_SEI_PREFIX → Sei.dropHdr10plus it.data = Sei.Res.keep it.data) :
    seiStage true items = some items := by
  induction items with
  | nil => rfl
  | cons it rest ih =>
    have ih' := ih (fun x hx => h x (List.mem_cons_of_mem _ hx))
    by_cases ht : it.typ = NAL_SEI_PREFIX
    · have e : (it.typ == NAL_SEI_PREFIX) = true := by simpa using ht
      simp only [seiStage, e, Bool.and_self, if_true, h it (by simp) ht, ih']
    · have e : (it.typ == NAL_SEI_PREFIX) = false := by simpa using ht
      simp only [seiStage, e, Bool.and_false, Bool.false_eq_true, if_false, ih']

/-- … and the pass-through commands treat it exactly as without the option (start codes included) -/
theorem run_drop_id (c : Cfg) (conv : Bytes → Option Bytes) (st : GState) (items : List Item)
    (h : ∀ it ∈ items, it.typ = NAL_SEI_PREFIX → Sei.dropHdr10plus it.data = Sei.Res.keep it.data) :
    run { c with drop := true } conv st items = run { c with drop := false } conv st items := by
  induction items generalizing st with
  | nil => rfl
  | cons it rest ih =>
    have ih' := fun s => ih s (fun x hx => h x (List.mem_cons_of_mem _ hx))
    have hs : step { c with drop := true } conv st it = step { c with drop := false } conv st it := by
      by_cases ht : it.typ = NAL_SEI_PREFIX
      · rw [step_drop_keep c conv st it it.data ht (h it (by simp) ht)]
      · exact step_drop_other c conv st it ht
    simp only [run, hs]
    cases step { c with drop := false } conv st it with
    | none => rfl
    | some p => simp only [ih']

/-! ### mux / inject-rpu: the option is the SEI stage in front of the same command -/

theorem elFrame_drop (c : MCfg) (b : Bool) (conv : Bytes → Option Bytes) (l : List Item) :
    elFrame { c with drop := b } conv l = elFrame c conv l := by
  induction l with
  | nil => rfl
  | cons it rest ih =>
    simp only [elFrame, ih]
    rfl

theorem elFrames_drop (c : MCfg) (b : Bool) (conv : Bytes → Option Bytes) (l : List (Nat × List Item)) :
    elFrames { c with drop := b } conv l = elFrames c conv l := by
  induction l with
  | nil => rfl
  | cons fr rest ih => simp only [elFrames, ih, elFrame_drop]

theorem muxGo_drop (c : MCfg) (b : Bool) (aud : Nat → Bytes) (n : Nat) (frs : List (Nat × List Item)) (els : List (List Out)) :
    muxGo { c with drop := b } aud n frs els = muxGo c aud n frs els := by
  induction frs generalizing els with
  | nil => rfl
  | cons fr rest ih =>
    cases rest with
    | nil => rfl
    | cons fr2 rest2 =>
      cases els with
      | nil => simp only [muxGo, ih]; rfl
      | cons e els' =>
        cases els' with
        | nil => simp only [muxGo, ih]; rfl
        | cons e2 els'' => simp only [muxGo, ih]; rfl

theorem muxAudFramesOk_drop (c : MCfg) (b : Bool) (n : Nat) (frs : List (Nat × List Item)) :
    muxAudFramesOk { c with drop := b } n frs = muxAudFramesOk c n frs := by
  induction frs with
  | nil => rfl
  | cons fr rest ih =>
    cases rest with
    | nil => rfl
    | cons fr2 rest2 => simp only [muxAudFramesOk, ih]

theorem mux_drop_stage (c : MCfg) (aud : Nat → Bytes) (conv : Bytes → Option Bytes) (n : Nat) (bl el : List Item) :
    mux { c with drop := true } aud conv n bl el =
      (seiStage true bl).bind (fun b => mux { c with drop := false } aud conv n b el) := by
  unfold mux
  simp only [seiStage_false, elFrames_drop, muxGo_drop, muxAudFramesOk_drop]
  cases seiStage true bl <;> rfl

theorem injectGo_drop (c : ICfg) (b : Bool) (aud : Nat → Bytes) (pres : Nat → Nat) (n : Nat) (rpus : List Bytes) (mm : Bool)
    (last : Option Bytes) (frs : List (Nat × List Item)) :
    injectGo { c with drop := b } aud pres n rpus mm last frs = injectGo c aud pres n rpus mm last frs := by
  induction frs generalizing last with
  | nil => rfl
  | cons fr rest ih =>
    cases rest with
    | nil => rfl
    | cons fr2 rest2 =>
      simp only [injectGo]
      have : injectFrame { c with drop := b } aud pres n rpus mm last false fr = injectFrame c aud pres n rpus mm last false fr := rfl
      rw [this]
      cases injectFrame c aud pres n rpus mm last false fr with
      | none => rfl
      | some p => simp only [ih]

theorem inject_drop_stage (c : ICfg) (aud : Nat → Bytes) (pres : Nat → Nat) (n : Nat) (rpus : List Bytes)
    (items : List Item) (hn : n ≠ 0) :
    inject { c with drop := true } aud pres n rpus items =
      (seiStage true items).bind (fun its => inject { c with drop := false } aud pres n rpus its) := by
  unfold inject
  by_cases hi : items = []
  · subst hi; simp [seiStage]
  · rw [if_neg (show ¬ (n = 0 ∨ items = []) by simp [hn, hi])]
    simp only [seiStage_false, injectGo_drop]
    cases hs : seiStage true items with
    | none => rfl
    | some its =>
      simp only [Option.bind_some]
      by_cases hits : its = []
      · subst hits
        simp only [or_true, if_true]
        cases c.noAddAud <;> simp [frames, framesAux, injectGo, injectFrame]
      · rw [if_neg (show ¬ (n = 0 ∨ its = []) by simp [hn, hits])]

end Dovi.Hevc
