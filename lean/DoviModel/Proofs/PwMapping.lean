import DoviModel.Proofs.Mapping
/-!
# rpu_data_mapping + NLQ: parse → write exactness

The bits `parseMapping` consumed are exactly the bits `writeMapping` emits for the parse result
(`writeMapping_parseMapping`), and the writer does succeed on a parse result (`writeMapping_ok_of_parse`),
provided no component mixes polynomial and MMR pieces (`Curve.piecesOk`, checked by `Mapping.validate`) and
`get_se` did not round (`Mapping.seSmall`: every stored integer coefficient part is below 2^52 in magnitude).

Every inverse lemma has the form `P s = .ok (v, t) → … → ∃ w, writer v = .ok w ∧ s = w ++ t`.
-/
namespace Dovi

/-- bound under which `get_se` did not round: every stored integer coefficient part is below 2^52 in magnitude -/
def Mapping.seSmall (m : Mapping) : Bool := m.coefInts.all (fun v => decide (v.natAbs < 2^52))

namespace PwMap

/-! ## `wcat`, forward direction -/

theorem wcat_cons_of_ok {a : Res Bits} {l : List (Res Bits)} {wa wl : Bits} (ha : a = .ok wa)
    (hl : wcat l = .ok wl) : wcat (a :: l) = .ok (wa ++ wl) := by
  subst ha; simp [wcat, hl]

theorem wcat_append_of_ok {l1 l2 : List (Res Bits)} {w1 w2 : Bits} (h1 : wcat l1 = .ok w1)
    (h2 : wcat l2 = .ok w2) : wcat (l1 ++ l2) = .ok (w1 ++ w2) := by
  induction l1 generalizing w1 with
  | nil => have := wcat_nil_ok h1; subst this; simpa using h2
  | cons a l1 ih =>
    obtain ⟨wa, wl, ha, hl, rfl⟩ := wcat_cons_ok h1
    rw [List.cons_append, List.append_assoc]
    exact wcat_cons_of_ok ha (ih hl)

theorem wcat_singleton_of_ok {a : Res Bits} {w : Bits} (h : a = .ok w) : wcat [a] = .ok w := by
  subst h; simp [wcat]

theorem wcat_nil : wcat [] = .ok [] := rfl

theorem wcat_flatMap_of_ok {ι} (l : List ι) (g : ι → List (Res Bits)) {w : Bits}
    (h : wcat (l.map fun j => wcat (g j)) = .ok w) : wcat (l.flatMap g) = .ok w := by
  induction l generalizing w with
  | nil => simpa using h
  | cons a l ih =>
    obtain ⟨wa, wl, ha, hl, rfl⟩ := wcat_cons_ok (by simpa using h)
    rw [List.flatMap_cons]
    exact wcat_append_of_ok ha (ih hl)

/-! ## generic: `repeatP` inverse -/

/-- if every parsed element is the decoding of its encoding `enc`, the whole run is the concatenation -/
theorem repeatP_inv {α} (p : P α) (enc : α → Res Bits) (n : Nat) (s t : Bits) (l : List α)
    (hp : repeatP n p s = .ok (l, t))
    (hstep : ∀ a ∈ l, ∀ s1 s2, p s1 = .ok (a, s2) → ∃ w, enc a = .ok w ∧ s1 = w ++ s2) :
    ∃ w, wcat (l.map enc) = .ok w ∧ s = w ++ t := by
  induction n generalizing s l with
  | zero =>
    obtain ⟨rfl, rfl⟩ := pure_eq_ok (by simpa only [repeatP] using hp)
    exact ⟨[], rfl, rfl⟩
  | succ n ih =>
    simp only [repeatP] at hp
    obtain ⟨a, s1, ha, hp⟩ := P.bind_eq_ok.mp hp
    obtain ⟨as, s2, has, hp⟩ := P.bind_eq_ok.mp hp
    obtain ⟨rfl, rfl⟩ := pure_eq_ok hp
    obtain ⟨wa, hwa, rfl⟩ := hstep a (by simp) s s1 ha
    obtain ⟨wl, hwl, rfl⟩ := ih s1 as has (fun x hx => hstep x (by simp [hx]))
    exact ⟨wa ++ wl, by rw [List.map_cons]; exact wcat_cons_of_ok hwa hwl, by simp⟩

/-- a `List.range`-indexed family of writers that reads element `j` of `l` is `l.map enc` -/
theorem range_map_eq {α β} (l : List α) (n : Nat) (wr : Nat → β) (enc : α → β) (hl : l.length = n)
    (h : ∀ j (hj : j < l.length), wr j = enc l[j]) : (List.range n).map wr = l.map enc := by
  subst hl
  apply List.ext_getElem
  · simp
  · intro j h1 h2
    simp only [List.getElem_map, List.getElem_range]
    exact h j (by simpa using h2)

theorem idx_map {α β} (l : List α) (f : α → β) (j : Nat) (hj : j < l.length) :
    idx (l.map f) j = .ok (f l[j]) := by
  apply idx_of
  simp [List.getElem?_eq_getElem hj]

theorem idx_getElem {α} (l : List α) (j : Nat) (hj : j < l.length) : idx l j = .ok l[j] :=
  idx_of (List.getElem?_eq_getElem hj)

/-! ## primitives -/

theorem readBit_inv {s t : Bits} {b : Bool} (h : readBit s = .ok (b, t)) : s = [b] ++ t := by
  cases s with
  | nil => cases h
  | cons x xs => cases h; rfl

theorem readN_inv {n v : Nat} {s t : Bits} (h : readN n s = .ok (v, t)) :
    ∃ w, writeN n v = .ok w ∧ s = w ++ t := by
  obtain ⟨w, hw, hs⟩ := writeN_of_readN h
  exact ⟨w, hw, hs.symm⟩

theorem readUnary_inv (k0 : Nat) (s t : Bits) (k : Nat) (h : readUnaryAux k0 s = .ok (k, t)) :
    ∃ z, k = k0 + z ∧ s = List.replicate z false ++ true :: t := by
  induction s generalizing k0 with
  | nil => cases h
  | cons b s ih =>
    cases b with
    | true =>
      simp only [readUnaryAux] at h
      cases h
      exact ⟨0, rfl, rfl⟩
    | false =>
      simp only [readUnaryAux] at h
      obtain ⟨z, hz, hs⟩ := ih (k0 + 1) h
      exact ⟨z + 1, by omega, by rw [hs]; rfl⟩

theorem bitLen_unique {v k : Nat} (hlo : 2^k ≤ v) (hhi : v < 2^(k+1)) : bitLen v - 1 = k := by
  have hv : v ≠ 0 := by
    have := Nat.two_pow_pos k
    omega
  obtain ⟨h1, h2⟩ := bitLen_spec hv
  generalize bitLen v - 1 = l at *
  by_cases hlt : l < k
  · have : 2^(l+1) ≤ 2^k := Nat.pow_le_pow_right (by omega) (by omega)
    omega
  · by_cases hgt : k < l
    · have : 2^(k+1) ≤ 2^l := Nat.pow_le_pow_right (by omega) (by omega)
      omega
    · omega

/-- `get_ue` inverse: the bits consumed are exactly `write_ue` of the value (which never panics on it) -/
theorem readUe_inv {s t : Bits} {v : Nat} (h : readUe s = .ok (v, t)) :
    ∃ w, writeUe v = .ok w ∧ s = w ++ t := by
  unfold readUe at h
  obtain ⟨k, s1, hk, h⟩ := P.bind_eq_ok.mp h
  obtain ⟨z, hz, hs⟩ := readUnary_inv 0 s s1 k hk
  rw [Nat.zero_add] at hz
  subst hz
  by_cases hk0 : k = 0
  · rw [if_pos hk0] at h
    obtain ⟨rfl, rfl⟩ := pure_eq_ok h
    subst hk0
    exact ⟨[true], rfl, by rw [hs]; rfl⟩
  · rw [if_neg hk0] at h
    by_cases hk64 : k > 64
    · rw [if_pos hk64] at h; cases h
    · rw [if_neg hk64] at h
      obtain ⟨x, s2, hx, h⟩ := P.bind_eq_ok.mp h
      by_cases hk64' : k = 64
      · rw [if_pos hk64'] at h; cases h
      · rw [if_neg hk64'] at h
        obtain ⟨rfl, rfl⟩ := pure_eq_ok h
        have hxlt := readN_lt hx
        obtain ⟨wx, hwx, hs1⟩ := writeN_of_readN hx
        have hp : 2 ≤ 2^k := by
          have : 2^1 ≤ 2^k := Nat.pow_le_pow_right (by omega) (by omega)
          simpa using this
        have hp64 : 2^(k+1) ≤ 2^64 := Nat.pow_le_pow_right (by omega) (by omega)
        have hsucc : 2^(k+1) = 2 * 2^k := by rw [Nat.pow_succ]; omega
        have hlz : bitLen (x + 2^k - 1 + 1) - 1 = k := bitLen_unique (by omega) (by omega)
        refine ⟨List.replicate k false ++ [true] ++ toBits k x, ?_, ?_⟩
        · unfold writeUe
          rw [if_neg (by omega), if_neg (by omega)]
          simp only [hlz]
          congr 3
          omega
        · unfold writeN at hwx
          rw [if_pos hxlt] at hwx
          injection hwx with hwx
          rw [hs, ← hs1, ← hwx]
          simp

theorem readUe_lt {s t : Bits} {v : Nat} (h : readUe s = .ok (v, t)) : v + 1 < 2^64 := by
  obtain ⟨w, hw, _⟩ := readUe_inv h
  unfold writeUe at hw
  split at hw
  · omega
  · split at hw
    · cases hw
    · omega

/-! ### se(v) -/

theorem roundToF64_bounds {n : Nat} (h53 : 2^53 ≤ n) (h64 : n < 2^64) :
    2^53 ≤ roundToF64 n ∧ roundToF64 n ≤ 2^64 + 2^11 := by
  have hn0 : n ≠ 0 := by omega
  have hlo : 53 ≤ n.log2 := (Nat.le_log2 hn0).mpr h53
  have hhi : n.log2 < 64 := (Nat.log2_lt hn0).mpr h64
  unfold roundToF64
  rw [if_neg (by omega)]
  generalize he : n.log2 + 1 - 53 = e
  have he1 : 1 ≤ e := by omega
  have he11 : e ≤ 11 := by omega
  have hpe : 2^e ≤ 2^11 := Nat.pow_le_pow_right (by omega) he11
  have hpe0 : 0 < 2^e := Nat.two_pow_pos e
  have hself : 2^(n.log2) ≤ n := Nat.log2_self_le hn0
  have hsplit : 2^(n.log2) = 2^52 * 2^e := by
    rw [← Nat.pow_add]; congr 1; omega
  have hq : 2^52 ≤ n / 2^e := by
    apply (Nat.le_div_iff_mul_le hpe0).mpr
    omega
  have hqe : n / 2^e * 2^e ≤ n := Nat.div_mul_le_self n (2^e)
  have h2 : 2^52 * 2^e ≤ n / 2^e * 2^e := Nat.mul_le_mul_right _ hq
  have h3 : 2^52 * 2 ≤ 2^52 * 2^e := by
    apply Nat.mul_le_mul_left
    have : 2^1 ≤ 2^e := Nat.pow_le_pow_right (by omega) he1
    simpa using this
  have hsucc : (n / 2^e + 1) * 2^e = n / 2^e * 2^e + 2^e := Nat.succ_mul _ _
  dsimp only
  split
  · rw [hsucc]; omega
  · omega

theorem roundToF64_small' {n : Nat} (h : n < 2^53) : roundToF64 n = n := roundToF64_small h

/-- `get_se` inverse for values below 2^52 in magnitude (no `f64` rounding happened) -/
theorem readSe_inv {s t : Bits} {v : Int} (h : readSe s = .ok (v, t)) (hv : v.natAbs < 2^52) :
    ∃ w, writeSe v = .ok w ∧ s = w ++ t := by
  unfold readSe at h
  obtain ⟨code, s1, hcode, h⟩ := P.bind_eq_ok.mp h
  have hc64 := readUe_lt hcode
  obtain ⟨w, hw, hs⟩ := readUe_inv hcode
  refine ⟨w, ?_, hs.trans ?_⟩
  · -- the code number is the one `write_se` computes
    by_cases hsm : code + 1 < 2^53
    · rw [roundToF64_small hsm] at h
      by_cases hev : code % 2 = 0
      · rw [if_pos hev] at h
        rw [if_neg (by omega)] at h
        obtain ⟨rfl, _⟩ := pure_eq_ok h
        unfold writeSe
        rw [if_neg (by omega), if_neg (by omega)]
        rw [← hw]; congr 1; omega
      · rw [if_neg hev] at h
        rw [if_neg (by omega)] at h
        obtain ⟨rfl, _⟩ := pure_eq_ok h
        unfold writeSe
        rw [if_pos (by omega), if_neg (by omega)]
        rw [← hw]; congr 1; omega
    · exfalso
      obtain ⟨hb1, hb2⟩ := roundToF64_bounds (n := code + 1) (by omega) (by omega)
      generalize roundToF64 (code + 1) = R at *
      by_cases hev : code % 2 = 0
      · rw [if_pos hev] at h
        split at h
        · cases h
        · obtain ⟨rfl, _⟩ := pure_eq_ok h
          omega
      · rw [if_neg hev] at h
        split at h
        · obtain ⟨rfl, _⟩ := pure_eq_ok h
          omega
        · obtain ⟨rfl, _⟩ := pure_eq_ok h
          omega
  · -- the rest bits
    by_cases hev : code % 2 = 0
    · rw [if_pos hev] at h
      split at h
      · cases h
      · rw [(pure_eq_ok h).2]
    · rw [if_neg hev] at h
      split at h
      · rw [(pure_eq_ok h).2]
      · rw [(pure_eq_ok h).2]

/-! ## coefficients -/

/-- the bits of one parsed `(coef_int, coef)` pair -/
def encCoef (h : Header) (c : Option Int × Nat) : Res Bits :=
  coefW h (c.1.elim (.ok []) writeSe) (writeN h.coefficient_log2_denom_length c.2)

theorem parseCoef_inv {h : Header} {s t : Bits} {c : Option Int × Nat} (hp : parseCoef h s = .ok (c, t))
    (hsm : ∀ v, c.1 = some v → v.natAbs < 2^52) : ∃ w, encCoef h c = .ok w ∧ s = w ++ t := by
  unfold parseCoef at hp
  obtain ⟨ci, s1, hci, hp⟩ := P.bind_eq_ok.mp hp
  obtain ⟨f, s2, hf, hp⟩ := P.bind_eq_ok.mp hp
  obtain ⟨rfl, rfl⟩ := pure_eq_ok hp
  obtain ⟨wf, hwf, rfl⟩ := readN_inv hf
  unfold encCoef coefW
  cases hc : (h.coefficient_data_type == 0) with
  | true =>
    rw [hc, if_pos rfl] at hci
    obtain ⟨v, s3, hv, hci⟩ := P.bind_eq_ok.mp hci
    obtain ⟨rfl, rfl⟩ := pure_eq_ok hci
    obtain ⟨wi, hwi, rfl⟩ := readSe_inv hv (hsm v rfl)
    refine ⟨wi ++ wf, ?_, by simp⟩
    rw [if_pos rfl]
    exact wcat_cons_of_ok hwi (wcat_singleton_of_ok hwf)
  | false =>
    rw [hc, if_neg (by decide)] at hci
    obtain ⟨rfl, rfl⟩ := pure_eq_ok hci
    refine ⟨wf, ?_, rfl⟩
    rw [if_neg (by decide)]
    exact wcat_singleton_of_ok hwf

theorem mem_optInts {coefs : List (Option Int × Nat)} {a : Option Int × Nat} {v : Int} (ha : a ∈ coefs)
    (hv : a.1 = some v) : v ∈ optInts coefs :=
  List.mem_filterMap.mpr ⟨a, ha, hv⟩

theorem row_inv (h : Header) (n : Nat) (s t : Bits) (coefs : List (Option Int × Nat))
    (hp : repeatP n (parseCoef h) s = .ok (coefs, t)) (hsm : ∀ v ∈ optInts coefs, v.natAbs < 2^52) :
    ∃ w, wcat (coefs.map (encCoef h)) = .ok w ∧ s = w ++ t :=
  repeatP_inv _ _ n s t coefs hp
    (fun _ ha _ _ h12 => parseCoef_inv h12 (fun v hv => hsm v (mem_optInts ha hv)))

theorem optInts_getElem? (coefs : List (Option Int × Nat)) (hall : ∀ c ∈ coefs, c.1.isSome = true) (j : Nat) :
    (optInts coefs)[j]? = coefs[j]?.bind (·.1) := by
  induction coefs generalizing j with
  | nil => simp [optInts]
  | cons c cs ih =>
    have hc := hall c (by simp)
    obtain ⟨v, hv⟩ := Option.isSome_iff_exists.mp hc
    have e : optInts (c :: cs) = v :: optInts cs := by
      unfold optInts; rw [List.filterMap_cons_some hv]
    rw [e]
    cases j with
    | zero => simp [hv]
    | succ j => simpa using ih (fun x hx => hall x (by simp [hx])) j

/-- the writer's indexed access to row `coefs` (as stored: integer parts, fractional parts) is `encCoef` -/
theorem coefW_idx_eq (h : Header) (coefs : List (Option Int × Nat))
    (hall : ∀ c ∈ coefs, c.1.isSome = (h.coefficient_data_type == 0)) (j : Nat) (hj : j < coefs.length) :
    coefW h ((idx (optInts coefs) j).bind writeSe)
      ((idx (coefs.map (·.2)) j).bind (writeN h.coefficient_log2_denom_length)) = encCoef h coefs[j] := by
  rw [idx_map _ _ j hj, Res.ok_bind]
  unfold encCoef coefW
  cases hc : (h.coefficient_data_type == 0) with
  | true =>
    rw [hc] at hall
    obtain ⟨v, hv⟩ := Option.isSome_iff_exists.mp (hall coefs[j] (List.getElem_mem hj))
    have : (optInts coefs)[j]? = some v := by
      rw [optInts_getElem? coefs hall j, List.getElem?_eq_getElem hj]; exact hv
    rw [idx_of this, Res.ok_bind, hv]
    rfl
  | false => rfl

theorem row_writer_eq (h : Header) (n : Nat) (coefs : List (Option Int × Nat)) (hl : coefs.length = n)
    (hall : ∀ c ∈ coefs, c.1.isSome = (h.coefficient_data_type == 0)) :
    (List.range n).map (fun j => coefW h ((idx (optInts coefs) j).bind writeSe)
      ((idx (coefs.map (·.2)) j).bind (writeN h.coefficient_log2_denom_length))) = coefs.map (encCoef h) :=
  range_map_eq coefs n _ (encCoef h) hl (fun j hj => coefW_idx_eq h coefs hall j hj)

theorem row_all_some {h : Header} {n : Nat} {s t : Bits} {coefs : List (Option Int × Nat)}
    (hp : repeatP n (parseCoef h) s = .ok (coefs, t)) :
    coefs.length = n ∧ ∀ c ∈ coefs, c.1.isSome = (h.coefficient_data_type == 0) := by
  obtain ⟨hl, hall⟩ := repeatP_ok hp
  refine ⟨hl, fun c hc => ?_⟩
  obtain ⟨s1, s2, h12⟩ := hall c hc
  exact parseCoef_ok h12

/-! ## one polynomial piece -/

theorem polyPiece_inv (h : Header) (c c' : PolyCurve) (s t : Bits) (k : Nat)
    (hp : parsePolyPiece h c s = .ok (c', t))
    (h1 : c.poly_order_minus1.length = k) (h2 : c.linear_interp_flag.length = k)
    (h3 : c.poly_coef_int.length = k) (h4 : c.poly_coef.length = k)
    (hsm : ∀ row, c'.poly_coef_int[k]? = some row → ∀ v ∈ row, v.natAbs < 2^52) :
    ∃ w, writePolyPiece h c' k = .ok w ∧ s = w ++ t := by
  unfold parsePolyPiece at hp
  obtain ⟨order, s1, hord, hp1⟩ := P.bind_eq_ok.mp hp
  obtain ⟨u, s2, he, hp2⟩ := P.bind_eq_ok.mp hp1
  obtain ⟨_, rfl⟩ := ensure_ok he
  obtain ⟨lin, s3, hlin, hp3⟩ := P.bind_eq_ok.mp hp2
  clear hp hp1 hp2 he
  obtain ⟨wu, hwu, rfl⟩ := readUe_inv hord
  cases hfl : (order == 0 && lin) with
  | true => rw [hfl, if_pos rfl] at hp3; cases hp3
  | false =>
    rw [hfl, if_neg (by decide)] at hp3
    obtain ⟨coefs, s4, hcoefs, hp4⟩ := P.bind_eq_ok.mp hp3
    obtain ⟨rfl, rfl⟩ := pure_eq_ok hp4
    clear hp3 hp4
    show ∃ w, writePolyPiece h (polySnoc c order lin (optInts coefs) (coefs.map (·.2))) k = .ok w ∧ _
    have e1 : idx (polySnoc c order lin (optInts coefs) (coefs.map (·.2))).poly_order_minus1 k = .ok order :=
      idx_of (getElem?_snoc_eq _ _ k h1)
    have e2 : idx (polySnoc c order lin (optInts coefs) (coefs.map (·.2))).linear_interp_flag k = .ok lin :=
      idx_of (getElem?_snoc_eq _ _ k h2)
    have e3 : idx (polySnoc c order lin (optInts coefs) (coefs.map (·.2))).poly_coef_int k = .ok (optInts coefs) :=
      idx_of (getElem?_snoc_eq _ _ k h3)
    have e4 : idx (polySnoc c order lin (optInts coefs) (coefs.map (·.2))).poly_coef k = .ok (coefs.map (·.2)) :=
      idx_of (getElem?_snoc_eq _ _ k h4)
    obtain ⟨hcl, hcall⟩ := row_all_some hcoefs
    obtain ⟨wc, hwc, rfl⟩ := row_inv h _ _ _ coefs hcoefs (hsm _ (getElem?_snoc_eq _ _ k h3))
    have hcoefW : (writeCoef h (polySnoc c order lin (optInts coefs) (coefs.map (·.2))).poly_coef_int
          (polySnoc c order lin (optInts coefs) (coefs.map (·.2))).poly_coef k) = fun j =>
        coefW h ((idx (optInts coefs) j).bind writeSe)
          ((idx (coefs.map (·.2)) j).bind (writeN h.coefficient_log2_denom_length)) := by
      funext j; simp only [writeCoef, coefW, e3, e4, Res.ok_bind]
    have hW : wcat ((List.range (order + 2)).map
        (writeCoef h (polySnoc c order lin (optInts coefs) (coefs.map (·.2))).poly_coef_int
          (polySnoc c order lin (optInts coefs) (coefs.map (·.2))).poly_coef k)) = .ok wc := by
      rw [hcoefW, row_writer_eq h _ coefs hcl hcall]; exact hwc
    unfold writePolyPiece
    rw [e1, Res.ok_bind]
    cases hb0 : (order == 0) with
    | true =>
      rw [hb0] at hfl hlin
      have hlf : lin = false := by simpa using hfl
      subst hlf
      rw [if_pos rfl] at hlin
      have hs1 := readBit_inv hlin
      subst hs1
      simp only [if_true, e2, Res.ok_bind, Bool.false_eq_true, if_false]
      exact ⟨_, wcat_cons_of_ok hwu (wcat_cons_of_ok (wa := [false]) rfl (wcat_singleton_of_ok hW)), by simp⟩
    | false =>
      rw [hb0, if_neg (by decide)] at hlin
      obtain ⟨_, rfl⟩ := pure_eq_ok hlin
      simp only [Bool.false_eq_true, if_false]
      exact ⟨_, wcat_cons_of_ok hwu (wcat_singleton_of_ok hW), by simp⟩

/-! ## one MMR piece -/

theorem mmrPiece_inv (h : Header) (c c' : MmrCurve) (s t : Bits) (k : Nat)
    (hp : parseMmrPiece h c s = .ok (c', t))
    (h1 : c.mmr_order_minus1.length = k) (h2 : c.mmr_constant.length = k)
    (h3 : c.mmr_coef_int.length = k) (h4 : c.mmr_coef.length = k)
    (h5 : (h.coefficient_data_type == 0) = true → c.mmr_constant_int.length = k)
    (hsm1 : ∀ v, c'.mmr_constant_int[k]? = some v → v.natAbs < 2^52)
    (hsm2 : ∀ rows, c'.mmr_coef_int[k]? = some rows → ∀ row ∈ rows, ∀ v ∈ row, v.natAbs < 2^52) :
    ∃ w, writeMmrPiece h c' k = .ok w ∧ s = w ++ t := by
  unfold parseMmrPiece at hp
  obtain ⟨order, s1, hord, hp1⟩ := P.bind_eq_ok.mp hp
  obtain ⟨u, s2, he, hp2⟩ := P.bind_eq_ok.mp hp1
  obtain ⟨_, rfl⟩ := ensure_ok he
  obtain ⟨const, s3, hconst, hp3⟩ := P.bind_eq_ok.mp hp2
  obtain ⟨rows, s4, hrows, hp4⟩ := P.bind_eq_ok.mp hp3
  obtain ⟨hrec, rfl⟩ := pure_eq_ok hp4
  clear hp hp1 hp2 hp3 hp4 he
  have hci := parseCoef_ok hconst
  have hC : c' = mmrSnoc c order const.1 const.2 (rows.map optInts) (rows.map (·.map (·.2))) := by
    subst hrec
    rcases const with ⟨_ | v, c2⟩ <;> rfl
  clear hrec
  have e1 : idx c'.mmr_order_minus1 k = .ok order := by
    rw [hC]; exact idx_of (getElem?_snoc_eq _ _ k h1)
  have e2 : idx c'.mmr_constant k = .ok const.2 := by
    rw [hC]; exact idx_of (getElem?_snoc_eq _ _ k h2)
  have e3 : idx c'.mmr_coef_int k = .ok (rows.map optInts) := by
    rw [hC]; exact idx_of (getElem?_snoc_eq _ _ k h3)
  have e4 : idx c'.mmr_coef k = .ok (rows.map (·.map (·.2))) := by
    rw [hC]; exact idx_of (getElem?_snoc_eq _ _ k h4)
  have e5 : ∀ v, const.1 = some v → c'.mmr_constant_int[k]? = some v := by
    intro v hv
    have hk := h5 (by rw [← hci, hv]; rfl)
    rw [hC]
    show (c.mmr_constant_int ++ const.1.toList)[k]? = some v
    rw [hv]
    exact getElem?_snoc_eq _ _ k hk
  clear hC
  -- order
  obtain ⟨wo, hwo, rfl⟩ := readN_inv hord
  -- constant
  obtain ⟨wc, hwc, rfl⟩ := parseCoef_inv hconst (fun v hv => hsm1 v (e5 v hv))
  have hconstW : coefW h ((idx c'.mmr_constant_int k).bind writeSe)
      ((idx c'.mmr_constant k).bind (writeN h.coefficient_log2_denom_length)) = .ok wc := by
    rw [← hwc, e2, Res.ok_bind]
    unfold encCoef coefW
    cases hc : (h.coefficient_data_type == 0) with
    | true =>
      rw [hc] at hci
      obtain ⟨v, hv⟩ := Option.isSome_iff_exists.mp hci
      rw [idx_of (e5 v hv), hv]
      rfl
    | false => rfl
  -- rows
  obtain ⟨hrl, hrall⟩ := repeatP_ok hrows
  obtain ⟨wr, hwr, rfl⟩ := repeatP_inv _ (fun row => wcat (row.map (encCoef h))) _ _ _ rows hrows
    (fun row hrow s5 s6 h56 => row_inv h 7 s5 s6 row h56
      (hsm2 _ (idx_eq_ok e3) _ (List.mem_map.mpr ⟨row, hrow, rfl⟩)))
  have hrowsW : (List.range (order + 1)).map (fun j => wcat ((List.range 7).map fun kk =>
        wcat ((if h.coefficient_data_type == 0 then
                [(idx c'.mmr_coef_int k).bind fun rows => (idx rows j).bind fun row => (idx row kk).bind writeSe]
               else []) ++
              [(idx c'.mmr_coef k).bind fun rows => (idx rows j).bind fun row =>
                (idx row kk).bind (writeN h.coefficient_log2_denom_length)]))) =
      rows.map (fun row => wcat (row.map (encCoef h))) := by
    apply range_map_eq rows (order + 1) _ _ hrl
    intro j hj
    obtain ⟨s5, s6, h56⟩ := hrall rows[j] (List.getElem_mem hj)
    obtain ⟨hl7, hall7⟩ := row_all_some h56
    congr 1
    rw [← row_writer_eq h 7 rows[j] hl7 hall7]
    apply List.map_congr_left
    intro kk _
    simp only [e3, e4, Res.ok_bind, idx_map _ _ j hj, coefW]
  refine ⟨wo ++ wc ++ wr, ?_, by simp⟩
  unfold writeMmrPiece
  rw [e1, Res.ok_bind]
  apply wcat_append_of_ok
  · rw [List.append_assoc, List.singleton_append]
    exact wcat_cons_of_ok hwo hconstW
  · apply wcat_flatMap_of_ok
    rw [hrowsW]
    exact hwr

/-! ## the accumulators only grow: prefixes -/

theorem prefix_getElem? {α} {a b : List α} (h : a <+: b) {j : Nat} (hj : j < a.length) : b[j]? = a[j]? := by
  obtain ⟨r, rfl⟩ := h
  exact List.getElem?_append_left hj

structure PolyPre (a b : PolyCurve) : Prop where
  o : a.poly_order_minus1 <+: b.poly_order_minus1
  l : a.linear_interp_flag <+: b.linear_interp_flag
  i : a.poly_coef_int <+: b.poly_coef_int
  f : a.poly_coef <+: b.poly_coef

structure MmrPre (a b : MmrCurve) : Prop where
  o : a.mmr_order_minus1 <+: b.mmr_order_minus1
  ci : a.mmr_constant_int <+: b.mmr_constant_int
  c : a.mmr_constant <+: b.mmr_constant
  i : a.mmr_coef_int <+: b.mmr_coef_int
  f : a.mmr_coef <+: b.mmr_coef

theorem PolyPre.refl (a : PolyCurve) : PolyPre a a :=
  ⟨List.prefix_refl _, List.prefix_refl _, List.prefix_refl _, List.prefix_refl _⟩
theorem MmrPre.refl (a : MmrCurve) : MmrPre a a :=
  ⟨List.prefix_refl _, List.prefix_refl _, List.prefix_refl _, List.prefix_refl _, List.prefix_refl _⟩
theorem PolyPre.trans {a b c : PolyCurve} (h1 : PolyPre a b) (h2 : PolyPre b c) : PolyPre a c :=
  ⟨h1.o.trans h2.o, h1.l.trans h2.l, h1.i.trans h2.i, h1.f.trans h2.f⟩
theorem MmrPre.trans {a b c : MmrCurve} (h1 : MmrPre a b) (h2 : MmrPre b c) : MmrPre a c :=
  ⟨h1.o.trans h2.o, h1.ci.trans h2.ci, h1.c.trans h2.c, h1.i.trans h2.i, h1.f.trans h2.f⟩

theorem PolyPre_snoc (c : PolyCurve) (order : Nat) (lin : Bool) (ints : List Int) (fracs : List Nat) :
    PolyPre c (polySnoc c order lin ints fracs) :=
  ⟨List.prefix_append _ _, List.prefix_append _ _, List.prefix_append _ _, List.prefix_append _ _⟩
theorem MmrPre_snoc (c : MmrCurve) (order : Nat) (ci : Option Int) (cst : Nat) (irows : List (List Int))
    (frows : List (List Nat)) : MmrPre c (mmrSnoc c order ci cst irows frows) :=
  ⟨List.prefix_append _ _, List.prefix_append _ _, List.prefix_append _ _, List.prefix_append _ _,
    List.prefix_append _ _⟩

/-- the loop only appends to the accumulators, and never clears one -/
theorem parsePieces_pre (h : Header) (n : Nat) : ∀ (c cf : Curve) (s t : Bits),
    parsePieces h n c s = .ok (cf, t) →
    PolyPre (c.polynomial.getD {}) (cf.polynomial.getD {}) ∧ MmrPre (c.mmr.getD {}) (cf.mmr.getD {}) ∧
      (c.polynomial.isSome = true → cf.polynomial.isSome = true) ∧ (c.mmr.isSome = true → cf.mmr.isSome = true) := by
  induction n with
  | zero =>
    intro c cf s t hp
    obtain ⟨rfl, _⟩ := pure_eq_ok (by simpa only [parsePieces] using hp)
    exact ⟨PolyPre.refl _, MmrPre.refl _, id, id⟩
  | succ n ih =>
    intro c cf s t hp
    simp only [parsePieces] at hp
    obtain ⟨idc, s1, _, hp1⟩ := P.bind_eq_ok.mp hp
    obtain ⟨u, s2, _, hp2⟩ := P.bind_eq_ok.mp hp1
    cases hidc : (idc == 0) with
    | true =>
      rw [hidc, if_pos rfl] at hp2
      obtain ⟨pc, s3, hpc, hp3⟩ := P.bind_eq_ok.mp hp2
      obtain ⟨order, ints, fracs, rfl, _⟩ := parsePolyPiece_ok (fun _ => true) (fun _ => rfl) h _ _ _ _ hpc
      obtain ⟨a1, a2, a3, a4⟩ := ih _ cf s3 t hp3
      exact ⟨(PolyPre_snoc _ _ _ _ _).trans a1, a2, fun _ => a3 rfl, a4⟩
    | false =>
      rw [hidc, if_neg (by decide)] at hp2
      obtain ⟨mc, s3, hmc, hp3⟩ := P.bind_eq_ok.mp hp2
      obtain ⟨order, ci, cst, irows, frows, rfl, _⟩ := parseMmrPiece_ok (fun _ => true) (fun _ => rfl) h _ _ _ _ hmc
      obtain ⟨a1, a2, a3, a4⟩ := ih _ cf s3 t hp3
      exact ⟨a1, (MmrPre_snoc _ _ _ _ _ _).trans a2, a3, fun _ => a4 rfl⟩

/-! ## the piece writers only look at index `k` -/

theorem idx_congr {α} {l l' : List α} {k : Nat} (h : l'[k]? = l[k]?) : idx l' k = idx l k := by
  unfold idx; rw [h]

theorem writePolyPiece_congr (h : Header) (p p' : PolyCurve) (k : Nat)
    (e1 : idx p'.poly_order_minus1 k = idx p.poly_order_minus1 k)
    (e2 : idx p'.linear_interp_flag k = idx p.linear_interp_flag k)
    (e3 : idx p'.poly_coef_int k = idx p.poly_coef_int k)
    (e4 : idx p'.poly_coef k = idx p.poly_coef k) : writePolyPiece h p' k = writePolyPiece h p k := by
  have hc : writeCoef h p'.poly_coef_int p'.poly_coef k = writeCoef h p.poly_coef_int p.poly_coef k := by
    funext j; simp only [writeCoef, e3, e4]
  simp only [writePolyPiece, hc, e1, e2]

theorem writeMmrPiece_congr (h : Header) (m m' : MmrCurve) (k : Nat)
    (e1 : idx m'.mmr_order_minus1 k = idx m.mmr_order_minus1 k)
    (e2 : (h.coefficient_data_type == 0) = true → idx m'.mmr_constant_int k = idx m.mmr_constant_int k)
    (e3 : idx m'.mmr_constant k = idx m.mmr_constant k)
    (e4 : idx m'.mmr_coef_int k = idx m.mmr_coef_int k)
    (e5 : idx m'.mmr_coef k = idx m.mmr_coef k) : writeMmrPiece h m' k = writeMmrPiece h m k := by
  cases hc : (h.coefficient_data_type == 0) with
  | true => simp only [writeMmrPiece, hc, e1, e2 hc, e3, e4, e5]
  | false => simp only [writeMmrPiece, hc, e1, e3, e4, e5, Bool.false_eq_true, if_false]

structure PolyLen (p : PolyCurve) (k : Nat) : Prop where
  o : p.poly_order_minus1.length = k
  l : p.linear_interp_flag.length = k
  i : p.poly_coef_int.length = k
  f : p.poly_coef.length = k

structure MmrLen (h : Header) (m : MmrCurve) (k : Nat) : Prop where
  o : m.mmr_order_minus1.length = k
  c : m.mmr_constant.length = k
  i : m.mmr_coef_int.length = k
  f : m.mmr_coef.length = k
  ci : if h.coefficient_data_type == 0 then m.mmr_constant_int.length = k else m.mmr_constant_int = []

theorem PolyLen_snoc {c : PolyCurve} {k : Nat} (hl : PolyLen c k) (order : Nat) (lin : Bool) (ints : List Int)
    (fracs : List Nat) : PolyLen (polySnoc c order lin ints fracs) (k + 1) :=
  ⟨by simp [polySnoc, hl.o], by simp [polySnoc, hl.l], by simp [polySnoc, hl.i], by simp [polySnoc, hl.f]⟩

theorem MmrLen_snoc {h : Header} {c : MmrCurve} {k : Nat} (hl : MmrLen h c k) (order : Nat) (ci : Option Int)
    (cst : Nat) (irows : List (List Int)) (frows : List (List Nat))
    (hci : ci.isSome = (h.coefficient_data_type == 0)) :
    MmrLen h (mmrSnoc c order ci cst irows frows) (k + 1) := by
  refine ⟨by simp [mmrSnoc, hl.o], by simp [mmrSnoc, hl.c], by simp [mmrSnoc, hl.i], by simp [mmrSnoc, hl.f], ?_⟩
  have h5 := hl.ci
  cases hc : (h.coefficient_data_type == 0) with
  | true =>
    rw [hc] at hci h5
    obtain ⟨v, rfl⟩ := Option.isSome_iff_exists.mp hci
    simp only [if_true] at h5 ⊢
    simp [mmrSnoc, h5]
  | false =>
    rw [hc] at hci h5
    have : ci = none := by cases ci with | none => rfl | some v => cases hci
    subst this
    simp only [Bool.false_eq_true, if_false] at h5 ⊢
    simp [mmrSnoc, h5]

/-! ## the pieces loop -/

theorem pieces_poly_inv (h : Header) (n : Nat) : ∀ (k : Nat) (c cf : Curve) (s t : Bits),
    parsePieces h n c s = .ok (cf, t) → cf.mmr = none → PolyLen (c.polynomial.getD {}) k →
    (∀ row ∈ (cf.polynomial.getD {}).poly_coef_int, ∀ v ∈ row, v.natAbs < 2^52) →
    ∃ w, wcat ((List.range' k n).map fun i => wcat [writeUe 0, writePolyPiece h (cf.polynomial.getD {}) i]) = .ok w ∧
      s = w ++ t := by
  induction n with
  | zero =>
    intro k c cf s t hp _ _ _
    obtain ⟨_, rfl⟩ := pure_eq_ok (by simpa only [parsePieces] using hp)
    exact ⟨[], rfl, rfl⟩
  | succ n ih =>
    intro k c cf s t hp hmn hlen hsm
    simp only [parsePieces] at hp
    obtain ⟨idc, s1, hidcr, hp1⟩ := P.bind_eq_ok.mp hp
    obtain ⟨u, s2, he, hp2⟩ := P.bind_eq_ok.mp hp1
    obtain ⟨_, rfl⟩ := ensure_ok he
    clear hp hp1 he
    obtain ⟨wu, hwu, rfl⟩ := readUe_inv hidcr
    cases hidc : (idc == 0) with
    | true =>
      have : idc = 0 := by simpa using hidc
      subst this
      rw [hidc, if_pos rfl] at hp2
      obtain ⟨pc, s3, hpc, hp3⟩ := P.bind_eq_ok.mp hp2
      clear hp2
      obtain ⟨order, ints, fracs, hpceq, _⟩ := parsePolyPiece_ok (fun _ => true) (fun _ => rfl) h _ _ _ _ hpc
      have hlen' : PolyLen pc (k + 1) := by rw [hpceq]; exact PolyLen_snoc hlen _ _ _ _
      obtain ⟨hpre, _, _, _⟩ := parsePieces_pre h n _ cf s3 t hp3
      have hpre : PolyPre pc (cf.polynomial.getD {}) := hpre
      obtain ⟨wl, hwl, hs3⟩ := ih (k + 1) _ cf s3 t hp3 hmn hlen' hsm
      have hcongr : writePolyPiece h (cf.polynomial.getD {}) k = writePolyPiece h pc k :=
        writePolyPiece_congr h pc _ k
          (idx_congr (prefix_getElem? hpre.o (by rw [hlen'.o]; omega)))
          (idx_congr (prefix_getElem? hpre.l (by rw [hlen'.l]; omega)))
          (idx_congr (prefix_getElem? hpre.i (by rw [hlen'.i]; omega)))
          (idx_congr (prefix_getElem? hpre.f (by rw [hlen'.f]; omega)))
      obtain ⟨wp, hwp, hs1⟩ := polyPiece_inv h _ pc s1 s3 k hpc hlen.o hlen.l hlen.i hlen.f
        (fun row hrow v hv => hsm row (List.mem_of_getElem?
          ((prefix_getElem? hpre.i (by rw [hlen'.i]; omega)).trans hrow)) v hv)
      refine ⟨(wu ++ wp) ++ wl, ?_, by rw [hs1, hs3]; simp⟩
      rw [List.range'_succ, List.map_cons]
      refine wcat_cons_of_ok ?_ hwl
      rw [hcongr]
      exact wcat_cons_of_ok hwu (wcat_singleton_of_ok hwp)
    | false =>
      exfalso
      rw [hidc, if_neg (by decide)] at hp2
      obtain ⟨mc, s3, hmc, hp3⟩ := P.bind_eq_ok.mp hp2
      obtain ⟨_, _, _, hsome⟩ := parsePieces_pre h n _ cf s3 t hp3
      have := hsome rfl
      rw [hmn] at this
      cases this

theorem pieces_mmr_inv (h : Header) (n : Nat) : ∀ (k : Nat) (c cf : Curve) (s t : Bits),
    parsePieces h n c s = .ok (cf, t) → cf.polynomial = none → MmrLen h (c.mmr.getD {}) k →
    (∀ v ∈ (cf.mmr.getD {}).mmr_constant_int, v.natAbs < 2^52) →
    (∀ rows ∈ (cf.mmr.getD {}).mmr_coef_int, ∀ row ∈ rows, ∀ v ∈ row, v.natAbs < 2^52) →
    ∃ w, wcat ((List.range' k n).map fun i => wcat [writeUe 1, writeMmrPiece h (cf.mmr.getD {}) i]) = .ok w ∧
      s = w ++ t := by
  induction n with
  | zero =>
    intro k c cf s t hp _ _ _ _
    obtain ⟨_, rfl⟩ := pure_eq_ok (by simpa only [parsePieces] using hp)
    exact ⟨[], rfl, rfl⟩
  | succ n ih =>
    intro k c cf s t hp hpn hlen hsm1 hsm2
    simp only [parsePieces] at hp
    obtain ⟨idc, s1, hidcr, hp1⟩ := P.bind_eq_ok.mp hp
    obtain ⟨u, s2, he, hp2⟩ := P.bind_eq_ok.mp hp1
    obtain ⟨hle, rfl⟩ := ensure_ok he
    clear hp hp1 he
    obtain ⟨wu, hwu, rfl⟩ := readUe_inv hidcr
    cases hidc : (idc == 0) with
    | true =>
      exfalso
      rw [hidc, if_pos rfl] at hp2
      obtain ⟨pc, s3, hpc, hp3⟩ := P.bind_eq_ok.mp hp2
      obtain ⟨_, _, hsome, _⟩ := parsePieces_pre h n _ cf s3 t hp3
      have := hsome rfl
      rw [hpn] at this
      cases this
    | false =>
      have : idc = 1 := by
        have h0 : idc ≠ 0 := by simpa using hidc
        have h1 : idc ≤ 1 := by simpa using hle
        omega
      subst this
      rw [hidc, if_neg (by decide)] at hp2
      obtain ⟨mc, s3, hmc, hp3⟩ := P.bind_eq_ok.mp hp2
      clear hp2
      obtain ⟨order, ci, cst, irows, frows, hmceq, _, hci, _⟩ :=
        parseMmrPiece_ok (fun _ => true) (fun _ => rfl) h _ _ _ _ hmc
      have hlen' : MmrLen h mc (k + 1) := by rw [hmceq]; exact MmrLen_snoc hlen _ _ _ _ _ hci
      obtain ⟨_, hpre, _, _⟩ := parsePieces_pre h n _ cf s3 t hp3
      have hpre : MmrPre mc (cf.mmr.getD {}) := hpre
      obtain ⟨wl, hwl, hs3⟩ := ih (k + 1) _ cf s3 t hp3 hpn hlen' hsm1 hsm2
      have hci5 := hlen'.ci
      have hcongr : writeMmrPiece h (cf.mmr.getD {}) k = writeMmrPiece h mc k :=
        writeMmrPiece_congr h mc _ k
          (idx_congr (prefix_getElem? hpre.o (by rw [hlen'.o]; omega)))
          (fun hc => by
            rw [hc, if_pos rfl] at hci5
            exact idx_congr (prefix_getElem? hpre.ci (by rw [hci5]; omega)))
          (idx_congr (prefix_getElem? hpre.c (by rw [hlen'.c]; omega)))
          (idx_congr (prefix_getElem? hpre.i (by rw [hlen'.i]; omega)))
          (idx_congr (prefix_getElem? hpre.f (by rw [hlen'.f]; omega)))
      have hci0 := hlen.ci
      obtain ⟨wp, hwp, hs1⟩ := mmrPiece_inv h _ mc s1 s3 k hmc hlen.o hlen.c hlen.i hlen.f
        (fun hc => by rw [hc, if_pos rfl] at hci0; exact hci0)
        (fun v hv => hsm1 v (List.mem_of_getElem?
          ((prefix_getElem? hpre.ci (List.getElem?_eq_some_iff.mp hv).1).trans hv)))
        (fun rows hrows => hsm2 rows (List.mem_of_getElem?
          ((prefix_getElem? hpre.i (by rw [hlen'.i]; omega)).trans hrows)))
      refine ⟨(wu ++ wp) ++ wl, ?_, by rw [hs1, hs3]; simp⟩
      rw [List.range'_succ, List.map_cons]
      refine wcat_cons_of_ok ?_ hwl
      rw [hcongr]
      exact wcat_cons_of_ok hwu (wcat_singleton_of_ok hwp)

/-! ## one component, all components -/

theorem curvePieces_inv (h : Header) (c cf : Curve) (s t : Bits)
    (hp : parsePieces h (c.num_pivots_minus2 + 1) c s = .ok (cf, t))
    (hpl : c.pivots.length = c.num_pivots_minus2 + 2) (hpn : c.polynomial = none) (hmn : c.mmr = none)
    (hok : cf.piecesOk = true) (hsm : ∀ v ∈ cf.coefInts, v.natAbs < 2^52) :
    (∃ w, writeCurvePieces h cf = .ok w ∧ s = w ++ t) ∧
      cf.num_pivots_minus2 = c.num_pivots_minus2 ∧ cf.pivots = c.pivots := by
  obtain ⟨kp, km, inv, hk, hn, hpv⟩ :=
    parsePieces_inv (fun _ => true) (fun _ => rfl) h _ c cf s t 0 0 hp (PiecesInv_init _ h c hpn hmn)
  have hwf := curveWf_of_inv _ h cf kp km inv (by omega) (by rw [hpv, hn]; exact hpl) hok
  refine ⟨?_, hn, hpv⟩
  obtain ⟨n, pv, idc, poly, mmr⟩ := cf
  simp only at hn
  subst hn
  simp only [CurveWf, Bool.and_eq_true] at hwf
  obtain ⟨_, hwf⟩ := hwf
  split at hwf
  · rename_i p
    have hlen : PolyLen (c.polynomial.getD {}) 0 := by rw [hpn]; exact ⟨rfl, rfl, rfl, rfl⟩
    obtain ⟨w, hw, hs⟩ := pieces_poly_inv h _ 0 c _ s t hp rfl hlen (by
      intro row hrow v hv
      apply hsm
      simp only [Curve.coefInts, List.append_nil, List.mem_flatten]
      exact ⟨row, hrow, hv⟩)
    refine ⟨w, ?_, hs⟩
    simp only [writeCurvePieces, MappingMethod.toNat]
    rw [List.range_eq_range']
    exact hw
  · rename_i m
    have hlen : MmrLen h (c.mmr.getD {}) 0 := by
      rw [hmn]
      refine ⟨rfl, rfl, rfl, rfl, ?_⟩
      cases (h.coefficient_data_type == 0) <;> simp
    obtain ⟨w, hw, hs⟩ := pieces_mmr_inv h _ 0 c _ s t hp rfl hlen (by
      intro v hv
      apply hsm
      simp only [Curve.coefInts, List.nil_append, List.mem_append]
      exact Or.inl hv) (by
      intro rows hrows row hrow v hv
      apply hsm
      simp only [Curve.coefInts, List.nil_append, List.mem_append, List.mem_flatten]
      exact Or.inr ⟨row, ⟨rows, hrows, hrow⟩, hv⟩)
    refine ⟨w, ?_, hs⟩
    simp only [writeCurvePieces, MappingMethod.toNat]
    rw [List.range_eq_range']
    exact hw
  · cases hwf

/-- what `parsePivots` fixes of a component -/
def key (c : Curve) : Nat × List Nat := (c.num_pivots_minus2, c.pivots)

theorem parseCurvePieces_inv (h : Header) : ∀ (cs cs' : List Curve) (s t : Bits),
    parseCurvePieces h cs s = .ok (cs', t) →
    (∀ c ∈ cs, c.pivots.length = c.num_pivots_minus2 + 2 ∧ c.polynomial = none ∧ c.mmr = none) →
    (∀ c' ∈ cs', c'.piecesOk = true) → (∀ c' ∈ cs', ∀ v ∈ c'.coefInts, v.natAbs < 2^52) →
    (∃ w, wcat (cs'.map (writeCurvePieces h)) = .ok w ∧ s = w ++ t) ∧ cs'.map key = cs.map key := by
  intro cs
  induction cs with
  | nil =>
    intro cs' s t hp _ _ _
    obtain ⟨rfl, rfl⟩ := pure_eq_ok (by simpa only [parseCurvePieces] using hp)
    exact ⟨⟨[], rfl, rfl⟩, rfl⟩
  | cons c cs ih =>
    intro cs' s t hp hall hok hsm
    simp only [parseCurvePieces] at hp
    obtain ⟨c', s1, hc', hp1⟩ := P.bind_eq_ok.mp hp
    obtain ⟨cs1, s2, hcs1, hp2⟩ := P.bind_eq_ok.mp hp1
    obtain ⟨rfl, rfl⟩ := pure_eq_ok hp2
    obtain ⟨hpl, hpn, hmn⟩ := hall c (by simp)
    obtain ⟨⟨wa, hwa, hs⟩, hn, hpv⟩ := curvePieces_inv h c c' s s1 hc' hpl hpn hmn (hok c' (by simp)) (hsm c' (by simp))
    obtain ⟨⟨wl, hwl, hs1⟩, hkeys⟩ := ih cs1 s1 s2 hcs1 (fun x hx => hall x (by simp [hx]))
      (fun x hx => hok x (by simp [hx])) (fun x hx => hsm x (by simp [hx]))
    refine ⟨⟨wa ++ wl, ?_, by rw [hs, hs1]; simp⟩, ?_⟩
    · rw [List.map_cons]; exact wcat_cons_of_ok hwa hwl
    · rw [List.map_cons, List.map_cons, hkeys]
      congr 1
      simp only [key, hn, hpv]

/-! ## pivots -/

def encPivots (bl : Nat) (c : Curve) : Res Bits :=
  wcat ([writeUe c.num_pivots_minus2] ++ c.pivots.map (writeN bl))

theorem parsePivots_inv {bl : Nat} {s t : Bits} {c : Curve} (hp : parsePivots bl s = .ok (c, t)) :
    ∃ w, encPivots bl c = .ok w ∧ s = w ++ t := by
  unfold parsePivots at hp
  obtain ⟨n, s1, hn, hp1⟩ := P.bind_eq_ok.mp hp
  obtain ⟨av, s2, hav, hp2⟩ := P.bind_eq_ok.mp hp1
  obtain ⟨u, s3, he, hp3⟩ := P.bind_eq_ok.mp hp2
  obtain ⟨pv, s4, hpv, hp4⟩ := P.bind_eq_ok.mp hp3
  obtain ⟨rfl, rfl⟩ := pure_eq_ok hp4
  obtain ⟨_, rfl⟩ := ensure_ok he
  have hs12 : s1 = s2 := by cases hav; rfl
  subst hs12
  clear hp hp1 hp2 hp3 hp4 he hav
  obtain ⟨wu, hwu, hs⟩ := readUe_inv hn
  obtain ⟨wp, hwp, hs1⟩ := repeatP_inv (readN bl) (writeN bl) _ _ _ pv hpv (fun a _ _ _ h12 => readN_inv h12)
  refine ⟨wu ++ wp, ?_, by rw [hs, hs1]; simp⟩
  unfold encPivots
  rw [List.singleton_append]
  exact wcat_cons_of_ok hwu hwp

theorem encPivots_key (bl : Nat) (cs cs' : List Curve) (hk : cs'.map key = cs.map key) :
    cs'.map (encPivots bl) = cs.map (encPivots bl) := by
  have : encPivots bl = (fun k : Nat × List Nat => wcat ([writeUe k.1] ++ k.2.map (writeN bl))) ∘ key := rfl
  rw [this, ← List.map_map, ← List.map_map, hk]

/-! ## NLQ -/

theorem nlqRd_inv {h : Header} {s t : Bits} {p : Nat × Nat} (hp : nlqRd h s = .ok (p, t)) :
    ∃ w, coefW h (writeUe p.1) (writeN h.coefficient_log2_denom_length p.2) = .ok w ∧ s = w ++ t := by
  unfold nlqRd at hp
  obtain ⟨i, s1, hi, hp1⟩ := P.bind_eq_ok.mp hp
  obtain ⟨f, s2, hf, hp2⟩ := P.bind_eq_ok.mp hp1
  obtain ⟨rfl, rfl⟩ := pure_eq_ok hp2
  clear hp hp1 hp2
  obtain ⟨wf, hwf, hs1⟩ := readN_inv hf
  unfold coefW
  cases hc : (h.coefficient_data_type == 0) with
  | true =>
    rw [hc, if_pos rfl] at hi
    obtain ⟨wi, hwi, hs⟩ := readUe_inv hi
    refine ⟨wi ++ wf, ?_, by rw [hs, hs1]; simp⟩
    rw [if_pos rfl]
    exact wcat_cons_of_ok hwi (wcat_singleton_of_ok hwf)
  | false =>
    rw [hc, if_neg (by decide)] at hi
    obtain ⟨_, rfl⟩ := pure_eq_ok hi
    refine ⟨wf, ?_, hs1⟩
    rw [if_neg (by decide)]
    exact wcat_singleton_of_ok hwf

/-- the bits of one parsed NLQ component `[off, a.1, a.2, b.1, b.2, c.1, c.2]` -/
def encNlqComp (h : Header) (l : List Nat) : Res Bits :=
  wcat ([writeN (h.el_bit_depth_minus8 + 8) (l.getD 0 0)] ++
    (if h.coefficient_data_type == 0 then [writeUe (l.getD 1 0)] else []) ++
    [writeN h.coefficient_log2_denom_length (l.getD 2 0)] ++
    ((if h.coefficient_data_type == 0 then [writeUe (l.getD 3 0)] else []) ++
     [writeN h.coefficient_log2_denom_length (l.getD 4 0)] ++
     (if h.coefficient_data_type == 0 then [writeUe (l.getD 5 0)] else []) ++
     [writeN h.coefficient_log2_denom_length (l.getD 6 0)]))

theorem parseNlqComp_inv {h : Header} {s t : Bits} {l : List Nat} (hp : parseNlqComp h s = .ok (l, t)) :
    ∃ w, encNlqComp h l = .ok w ∧ s = w ++ t := by
  rw [parseNlqComp_eq] at hp
  obtain ⟨off, s1, hoff, hp1⟩ := P.bind_eq_ok.mp hp
  obtain ⟨a, s2, ha, hp2⟩ := P.bind_eq_ok.mp hp1
  obtain ⟨b, s3, hb, hp3⟩ := P.bind_eq_ok.mp hp2
  obtain ⟨c, s4, hc, hp4⟩ := P.bind_eq_ok.mp hp3
  obtain ⟨rfl, rfl⟩ := pure_eq_ok hp4
  clear hp hp1 hp2 hp3 hp4
  obtain ⟨wo, hwo, hs⟩ := readN_inv hoff
  obtain ⟨wa, hwa, hs1⟩ := nlqRd_inv ha
  obtain ⟨wb, hwb, hs2⟩ := nlqRd_inv hb
  obtain ⟨wc, hwc, hs3⟩ := nlqRd_inv hc
  refine ⟨(wo ++ wa) ++ (wb ++ wc), ?_, by rw [hs, hs1, hs2, hs3]; simp⟩
  unfold encNlqComp
  apply wcat_append_of_ok
  · rw [List.append_assoc, List.singleton_append]
    exact wcat_cons_of_ok hwo hwa
  · rw [List.append_assoc (_ ++ _) _ [_]]
    exact wcat_append_of_ok hwb hwc

theorem parseNlq_inv {h : Header} {s t : Bits} {n : Nlq} (hp : parseNlq h s = .ok (n, t)) :
    ∃ w, s = w ++ t ∧ ∀ m : Mapping, m.nlq_method_idc = some 0 → writeNlq h m n = .ok w := by
  unfold parseNlq at hp
  obtain ⟨comps, s1, hcomps, hp1⟩ := P.bind_eq_ok.mp hp
  obtain ⟨rfl, rfl⟩ := pure_eq_ok hp1
  obtain ⟨hl, _⟩ := repeatP_ok hcomps
  obtain ⟨w, hw, hs⟩ := repeatP_inv (parseNlqComp h) (encNlqComp h) _ _ _ comps hcomps
    (fun a _ _ _ h12 => parseNlqComp_inv h12)
  refine ⟨w, hs, fun m hm => ?_⟩
  rw [writeNlq_eq, range_map_eq comps 3 _ (encNlqComp h) hl]
  · exact hw
  · intro j hj
    simp only [writeNlqComp, encNlqComp, hm, idx_map _ _ j hj, Res.ok_bind, beq_self_eq_true, if_true]

/-! ## the whole mapping -/

/-- parse → write, existence form: the writer succeeds on the parse result and emits the consumed bits -/
theorem writeMapping_of_parse (h : Header) (s t : Bits) (m : Mapping)
    (hp : parseMapping h s = .ok (m, t)) (hv : m.curves.all Curve.piecesOk = true) (hs : m.seSmall = true) :
    ∃ w, writeMapping h m = .ok w ∧ s = w ++ t := by
  unfold parseMapping at hp
  obtain ⟨rid, s1, hrid, hp1⟩ := P.bind_eq_ok.mp hp
  obtain ⟨cs, s2, hcs, hp2⟩ := P.bind_eq_ok.mp hp1
  obtain ⟨cf, s3, hcf, hp3⟩ := P.bind_eq_ok.mp hp2
  obtain ⟨curves0, s4, hcurves0, hp4⟩ := P.bind_eq_ok.mp hp3
  obtain ⟨m1, s5, hm1, hp5⟩ := P.bind_eq_ok.mp hp4
  obtain ⟨nx, s6, hnx, hp6⟩ := P.bind_eq_ok.mp hp5
  obtain ⟨ny, s7, hny, hp7⟩ := P.bind_eq_ok.mp hp6
  obtain ⟨curves1, s8, hcurves1, hp8⟩ := P.bind_eq_ok.mp hp7
  clear hp hp1 hp2 hp3 hp4 hp5 hp6 hp7
  obtain ⟨wa1, hwa1, e0⟩ := readUe_inv hrid
  obtain ⟨wa2, hwa2, e1⟩ := readUe_inv hcs
  obtain ⟨wa3, hwa3, e2⟩ := readUe_inv hcf
  obtain ⟨wd1, hwd1, e5⟩ := readUe_inv hnx
  obtain ⟨wd2, hwd2, e6⟩ := readUe_inv hny
  obtain ⟨hl0, hall0⟩ := repeatP_ok hcurves0
  obtain ⟨wB, hwB, e3⟩ := repeatP_inv _ (encPivots (h.bl_bit_depth_minus8 + 8)) _ _ _ curves0 hcurves0
    (fun a _ _ _ h12 => parsePivots_inv h12)
  have hpiv : ∀ c ∈ curves0, c.pivots.length = c.num_pivots_minus2 + 2 ∧ c.polynomial = none ∧ c.mmr = none := by
    intro c hc
    obtain ⟨s9, s10, h910⟩ := hall0 c hc
    exact parsePivots_ok h910
  cases hcond : (h.rpu_format &&& 0x700 == 0 && !h.disable_residual_flag) with
  | true =>
    rw [hcond, if_pos rfl] at hm1
    obtain ⟨idc, s11, hidc, hq1⟩ := P.bind_eq_ok.mp hm1
    obtain ⟨u, s12, he, hq2⟩ := P.bind_eq_ok.mp hq1
    obtain ⟨pv, s13, hpv, hq3⟩ := P.bind_eq_ok.mp hq2
    obtain ⟨hm1eq, e13⟩ := pure_eq_ok hq3
    obtain ⟨hidc0, e12⟩ := ensure_ok he
    clear hm1 hq1 hq2 hq3 he
    subst hm1eq
    simp only [Option.isSome_some, if_true] at hp8
    obtain ⟨nlq, s14, hnlq, hq4⟩ := P.bind_eq_ok.mp hp8
    obtain ⟨hmeq, e14⟩ := pure_eq_ok hq4
    clear hp8 hq4
    subst hmeq
    have hv' : curves1.all Curve.piecesOk = true := hv
    have hs' : ∀ v ∈ curves1.flatMap Curve.coefInts, v.natAbs < 2^52 := by
      have := hs
      simp only [Mapping.seSmall, Mapping.coefInts, List.all_eq_true, decide_eq_true_eq] at this
      exact this
    obtain ⟨⟨wE, hwE, e7⟩, hkeys⟩ := parseCurvePieces_inv h curves0 curves1 s7 s8 hcurves1 hpiv
      (fun c hc => List.all_eq_true.mp hv' c hc)
      (fun c hc v hv0 => hs' v (List.mem_flatMap.mpr ⟨c, hc, hv0⟩))
    have hlen1 : curves1.length = 3 := by
      have := congrArg List.length hkeys
      simpa [hl0] using this
    obtain ⟨wF, e8, hwF⟩ := parseNlq_inv hnlq
    obtain ⟨wc1, hwc1, e4⟩ := readN_inv hidc
    have hidc1 : idc = 0 := by simpa using hidc0
    subst hidc1
    obtain ⟨wc2, hwc2, e4'⟩ := repeatP_inv (readN (h.bl_bit_depth_minus8 + 8)) (writeN (h.bl_bit_depth_minus8 + 8))
      _ _ _ pv hpv (fun a _ _ _ h12 => readN_inv h12)
    unfold writeMapping
    simp only [hcond, if_true]
    rw [range3_idx_map _ _ hlen1, range3_idx_map _ _ hlen1]
    have hA : wcat [writeUe rid, writeUe cs, writeUe cf] = .ok (wa1 ++ (wa2 ++ wa3)) :=
      wcat_cons_of_ok hwa1 (wcat_cons_of_ok hwa2 (wcat_singleton_of_ok hwa3))
    have hB : wcat (curves1.map fun c => wcat ([writeUe c.num_pivots_minus2] ++
        c.pivots.map (writeN (h.bl_bit_depth_minus8 + 8)))) = .ok wB := by
      have := encPivots_key (h.bl_bit_depth_minus8 + 8) curves0 curves1 hkeys
      rw [← this] at hwB
      exact hwB
    have hC : wcat ([writeN 3 0] ++ pv.map (writeN (h.bl_bit_depth_minus8 + 8))) = .ok (wc1 ++ wc2) := by
      rw [List.singleton_append]; exact wcat_cons_of_ok hwc1 hwc2
    have hD : wcat [writeUe nx, writeUe ny] = .ok (wd1 ++ wd2) :=
      wcat_cons_of_ok hwd1 (wcat_singleton_of_ok hwd2)
    refine ⟨_, wcat_append_of_ok (wcat_append_of_ok (wcat_append_of_ok (wcat_append_of_ok
      (wcat_append_of_ok hA hB) hC) hD) hwE) (wcat_singleton_of_ok (hwF _ rfl)), ?_⟩
    rw [e0, e1, e2, e3, e4, e12, e4', e13, e5, e6, e7, e8, e14]
    simp
  | false =>
    rw [hcond, if_neg (by decide)] at hm1
    obtain ⟨hm1eq, e4⟩ := pure_eq_ok hm1
    clear hm1
    subst hm1eq
    simp only [Option.isSome_none, Bool.false_eq_true, if_false] at hp8
    obtain ⟨hmeq, e8⟩ := pure_eq_ok hp8
    clear hp8
    subst hmeq
    have hv' : curves1.all Curve.piecesOk = true := hv
    have hs' : ∀ v ∈ curves1.flatMap Curve.coefInts, v.natAbs < 2^52 := by
      have := hs
      simp only [Mapping.seSmall, Mapping.coefInts, List.all_eq_true, decide_eq_true_eq] at this
      exact this
    obtain ⟨⟨wE, hwE, e7⟩, hkeys⟩ := parseCurvePieces_inv h curves0 curves1 s7 s8 hcurves1 hpiv
      (fun c hc => List.all_eq_true.mp hv' c hc)
      (fun c hc v hv0 => hs' v (List.mem_flatMap.mpr ⟨c, hc, hv0⟩))
    have hlen1 : curves1.length = 3 := by
      have := congrArg List.length hkeys
      simpa [hl0] using this
    unfold writeMapping
    simp only [hcond, Bool.false_eq_true, if_false]
    rw [range3_idx_map _ _ hlen1, range3_idx_map _ _ hlen1]
    have hA : wcat [writeUe rid, writeUe cs, writeUe cf] = .ok (wa1 ++ (wa2 ++ wa3)) :=
      wcat_cons_of_ok hwa1 (wcat_cons_of_ok hwa2 (wcat_singleton_of_ok hwa3))
    have hB : wcat (curves1.map fun c => wcat ([writeUe c.num_pivots_minus2] ++
        c.pivots.map (writeN (h.bl_bit_depth_minus8 + 8)))) = .ok wB := by
      have := encPivots_key (h.bl_bit_depth_minus8 + 8) curves0 curves1 hkeys
      rw [← this] at hwB
      exact hwB
    have hD : wcat [writeUe nx, writeUe ny] = .ok (wd1 ++ wd2) :=
      wcat_cons_of_ok hwd1 (wcat_singleton_of_ok hwd2)
    refine ⟨_, wcat_append_of_ok (wcat_append_of_ok (wcat_append_of_ok (wcat_append_of_ok
      (wcat_append_of_ok hA hB) wcat_nil) hD) hwE) wcat_nil, ?_⟩
    rw [e0, e1, e2, e3, e4, e5, e6, e7, e8]
    simp

/-- the bound on `se` values matters: a code number that `get_se` rounds (`2^53 + 2`, read as `-(2^52 + 2)`)
is re-encoded by `write_se` as a different code number (`2^53 + 4`) -/
theorem readSe_rounding_witness :
    ∃ s w : Bits, readSe s = .ok (-(2^52 + 2), []) ∧ writeSe (-(2^52 + 2)) = .ok w ∧ s ≠ w := by
  refine ⟨(match writeUe (2^53 + 2) with | .ok b => b | _ => []),
          (match writeUe (2^53 + 4) with | .ok b => b | _ => []), ?_, ?_, ?_⟩ <;> decide

end PwMap

/-- **the writer succeeds on a parse result** (validated by `Curve.piecesOk`, integer parts below 2^52) -/
theorem writeMapping_ok_of_parse (h : Header) (s t : Bits) (m : Mapping)
    (hp : parseMapping h s = .ok (m, t)) (hv : m.curves.all Curve.piecesOk = true) (hs : m.seSmall = true) :
    ∃ w, writeMapping h m = .ok w := by
  obtain ⟨w, hw, _⟩ := PwMap.writeMapping_of_parse h s t m hp hv hs
  exact ⟨w, hw⟩

/-- **parse → write exactness for `rpu_data_mapping` + NLQ**: the bits the parser consumed are exactly the
bits the writer emits for the parse result -/
theorem writeMapping_parseMapping (h : Header) (s t : Bits) (m : Mapping)
    (hp : parseMapping h s = .ok (m, t)) (hv : m.curves.all Curve.piecesOk = true) (hs : m.seSmall = true)
    (w : Bits) (hw : writeMapping h m = .ok w) : s = w ++ t := by
  obtain ⟨w', hw', hs'⟩ := PwMap.writeMapping_of_parse h s t m hp hv hs
  rw [hw] at hw'
  injection hw' with hw'
  rw [hw']; exact hs'

/-- both in one statement -/
theorem writeMapping_of_parseMapping (h : Header) (s t : Bits) (m : Mapping)
    (hp : parseMapping h s = .ok (m, t)) (hv : m.curves.all Curve.piecesOk = true) (hs : m.seSmall = true) :
    ∃ w, writeMapping h m = .ok w ∧ s = w ++ t :=
  PwMap.writeMapping_of_parse h s t m hp hv hs

end Dovi
