import DoviModel.Proofs.NoPanic
import DoviModel.Model.Av1
import DoviModel.Model.RpuFile
import DoviModel.Model.Nalu
import DoviModel.Model.St2094
/-!
# No-panic theorems for the other parsing entry points (AV1 T.35 OBU, HEVC NAL, RPU file)
-/
namespace Dovi

/-- a parser that never panics, on any input -/
def NeverPanics {α} (p : P α) : Prop := ∀ s, p s ≠ .panic

namespace NeverPanics

theorem pure' {α} (a : α) : NeverPanics (Pure.pure a : P α) := by
  intro s h; cases h

theorem fail' {α} : NeverPanics (P.fail : P α) := by
  intro s h; cases h

theorem ensure' (c : Bool) : NeverPanics (P.ensure c) := by
  intro s h
  cases c <;> cases h

theorem available' : NeverPanics P.available := by
  intro s h; cases h

theorem bind' {α β} {x : P α} {f : α → P β} (hx : NeverPanics x) (hf : ∀ a, NeverPanics (f a)) :
    NeverPanics (x >>= f) := by
  intro s h
  have h' : P.bind x f s = .panic := h
  unfold P.bind at h'
  cases hxs : x s with
  | ok v =>
    obtain ⟨a, s'⟩ := v
    rw [hxs] at h'
    exact hf a s' h'
  | error => rw [hxs] at h'; cases h'
  | panic => exact hx s hxs

theorem readN' (n : Nat) : NeverPanics (readN n) := by
  intro s h
  unfold Dovi.readN at h
  split at h <;> cases h

theorem readBit' : NeverPanics readBit := by
  intro s h
  cases s <;> cases h

theorem ite' {α} (c : Prop) [Decidable c] {p q : P α} (hp : NeverPanics p) (hq : NeverPanics q) :
    NeverPanics (if c then p else q) := by
  split <;> assumption

theorem repeatP' {α} (n : Nat) {p : P α} (hp : NeverPanics p) : NeverPanics (repeatP n p) := by
  induction n with
  | zero => exact pure' _
  | succ n ih =>
    exact bind' hp fun _ => bind' ih fun _ => pure' _

theorem parseVB' (n fuel value : Nat) : NeverPanics (Av1.parseVB n fuel value) := by
  induction fuel generalizing value with
  | zero => exact fail'
  | succ f ih =>
    unfold Av1.parseVB
    refine bind' (readN' n) fun tmp => bind' (ensure' _) fun _ => bind' readBit' fun more => ?_
    cases more with
    | false => exact pure' _
    | true => exact bind' (ensure' _) fun _ => ih _

theorem parseEmdf' : NeverPanics Av1.parseEmdf := by
  unfold Av1.parseEmdf
  refine bind' (readN' _) fun _ => bind' (ensure' _) fun _ => bind' (readN' _) fun _ => bind' (ensure' _) fun _ =>
    bind' (readN' _) fun _ => bind' (ensure' _) fun _ => bind' available' fun _ => bind' (parseVB' _ _ _) fun _ =>
    bind' (ensure' _) fun _ => bind' readBit' fun _ => bind' (ensure' _) fun _ => bind' readBit' fun _ =>
    bind' (ensure' _) fun _ => bind' readBit' fun _ => bind' (ensure' _) fun _ => bind' readBit' fun _ =>
    bind' (ensure' _) fun _ => bind' readBit' fun _ => bind' (ensure' _) fun _ => bind' available' fun _ =>
    parseVB' _ _ _

theorem unwrapBits' : NeverPanics Av1.unwrapBits := by
  unfold Av1.unwrapBits
  exact bind' (readN' _) fun _ => bind' (ensure' _) fun _ => bind' (readN' _) fun _ => bind' (ensure' _) fun _ =>
    bind' parseEmdf' fun _ => bind' available' fun _ => bind' (ensure' _) fun _ =>
    bind' (repeatP' _ (readN' 8)) fun _ => pure' _

end NeverPanics

/-- unwrapping an AV1 T.35 OBU payload (EMDF container) never panics, whatever the bytes -/
theorem Av1.unwrap_never_panics (data : Bytes) : Av1.unwrap data ≠ .panic := by
  unfold Av1.unwrap
  cases ht : Av1.trim data with
  | error => simp [Res.bind]
  | panic =>
    unfold Av1.trim at ht
    split at ht
    · cases ht
    · dsimp only at ht
      split at ht
      · split at ht <;> cases ht
      · split at ht <;> cases ht
  | ok d =>
    simp only [Res.bind]
    have := NeverPanics.unwrapBits' (bytesToBits d)
    cases hu : Av1.unwrapBits (bytesToBits d) with
    | ok v => simp
    | error => simp
    | panic => exact absurd hu this

/-- the AV1 entry point panics only where the RPU parser itself does -/
theorem Av1.parseObu_no_panic (data : Bytes)
    (hg : ∀ b, Av1.unwrap data = .ok b → Good (bytesToBits (b.take (b.length - trailingZeroes b)))) :
    Av1.parseObu data ≠ .panic := by
  unfold Av1.parseObu
  cases hu : Av1.unwrap data with
  | error => simp [Res.bind]
  | panic => exact absurd hu (Av1.unwrap_never_panics data)
  | ok b =>
    simp only [Res.bind]
    exact parseRpu_no_panic b (hg b hu)

/-- the HEVC NAL entry point: prefix trimming and emulation-prevention removal cannot panic -/
theorem parseNalu_no_panic (d : Bytes)
    (hg : ∀ t, trimPrefix d = .ok t →
      Good (bytesToBits ((Esc.unescape t).take ((Esc.unescape t).length - trailingZeroes (Esc.unescape t))))) :
    parseNalu d ≠ .panic := by
  unfold parseNalu
  cases ht : trimPrefix d with
  | error => simp [Res.bind]
  | panic =>
    unfold trimPrefix at ht
    split at ht
    · cases ht
    · split at ht <;> cases ht
  | ok t =>
    simp only [Res.bind]
    exact parseRpu_no_panic _ (hg t ht)

end Dovi

namespace Dovi.RpuFile
open Dovi

theorem parseSlices_no_panic (ds : List Bytes) (h : ∀ d ∈ ds, parseNalu d ≠ .panic) :
    (parseSlices ds).2.2 = false := by
  induction ds with
  | nil => rfl
  | cons d ds ih =>
    have ih' := ih (fun x hx => h x (by simp [hx]))
    have hd := h d (by simp)
    simp only [parseSlices]
    cases hp : parseNalu d with
    | ok r => simpa using ih'
    | error => simpa using ih'
    | panic => exact absurd hp hd

theorem infix_drop_take (l : Bytes) (a n : Nat) : (l.drop a).take n <:+: l := by
  exact (List.take_prefix n (l.drop a)).isInfix.trans (List.drop_suffix a l).isInfix

/-- the slices handed to the NAL parser in one iteration are infixes of `chunk ++ read` -/
theorem slices_infix (chunk : Bytes) (offs bounds : List Nat) :
    ∀ d ∈ (offs.zip bounds).map (fun (p : Nat × Nat) => (chunk.drop p.1).take (p.2 - p.1)), d <:+: chunk := by
  intro d hd
  obtain ⟨p, _, rfl⟩ := List.mem_map.mp hd
  exact infix_drop_take _ _ _

/-- one iteration does not panic when no slice of the file panics, and keeps `chunk ++ rest` a suffix of the file -/
theorem step_inv (c : Nat) (file : Bytes) (s : St)
    (hnp : ∀ d, d <:+: file → parseNalu d ≠ .panic) (hinv : s.chunk ++ s.rest <:+ file) :
    step c s ≠ .panic ∧ ∀ s', step c s = .continue_ s' → s'.chunk ++ s'.rest <:+ file := by
  have hpre : s.chunk ++ s.rest.take c <:+: file := by
    have h1 : s.chunk ++ s.rest.take c <+: s.chunk ++ s.rest :=
      (List.prefix_append_right_inj _).mpr (List.take_prefix c s.rest)
    exact h1.isInfix.trans hinv.isInfix
  have hnps : ∀ (offs bounds : List Nat), (parseSlices ((offs.zip bounds).map (fun (p : Nat × Nat) =>
      ((s.chunk ++ s.rest.take c).drop p.1).take (p.2 - p.1)))).2.2 = false := by
    intro offs bounds
    apply parseSlices_no_panic
    intro d hd
    exact hnp d ((slices_infix _ offs bounds d hd).trans hpre)
  have hsuf : ∀ lastOff, (s.chunk ++ s.rest.take c).drop lastOff ++ s.rest.drop c <:+ file := by
    intro lastOff
    have h2 : (s.chunk ++ s.rest.take c).drop lastOff ++ s.rest.drop c <:+
        (s.chunk ++ s.rest.take c) ++ s.rest.drop c := by
      obtain ⟨t, ht⟩ := List.drop_suffix lastOff (s.chunk ++ s.rest.take c)
      exact ⟨t, by rw [← List.append_assoc, ht]⟩
    have h3 : (s.chunk ++ s.rest.take c) ++ s.rest.drop c = s.chunk ++ s.rest := by
      rw [List.append_assoc, List.take_append_drop]
    rw [h3] at h2
    exact h2.trans hinv
  constructor
  · intro hstep
    unfold step at hstep
    dsimp only at hstep
    simp only [hnps, Bool.false_eq_true, if_false] at hstep
    repeat' (split at hstep)
    all_goals (first | cases hstep | simp at hstep)
  · intro s' hstep
    unfold step at hstep
    dsimp only at hstep
    simp only [hnps, Bool.false_eq_true, if_false] at hstep
    repeat' (split at hstep)
    all_goals (first
      | (cases hstep; done)
      | (injection hstep with hstep
         subst hstep
         dsimp only
         first
           | exact hsuf _
           | (have hd : s.rest.drop c = [] := by
                apply List.drop_eq_nil_of_le
                have := @List.length_take _ c s.rest
                omega
              rw [hd]
              exact List.nil_suffix)))

/-- the chunk loop does not panic when no slice of the file makes the NAL parser panic -/
theorem loop_no_panic (c : Nat) (file : Bytes) (hnp : ∀ d, d <:+: file → parseNalu d ≠ .panic) :
    ∀ (fuel : Nat) (s : St), s.chunk ++ s.rest <:+ file → loop c fuel s ≠ .panic := by
  intro fuel
  induction fuel with
  | zero => intro s _ h; cases h
  | succ f ih =>
    intro s hinv
    obtain ⟨h1, h2⟩ := step_inv c file s hnp hinv
    unfold loop
    cases hs : step c s with
    | continue_ s' => exact ih s' (h2 s' hs)
    | done s' => simp
    | bail => simp
    | panic => exact absurd hs h1

/-- **`parse_rpu_file` panics only if the NAL parser panics on one of the file's slices**, for every read chunk size -/
theorem parseRpuFile_no_panic (c : Nat) (file : Bytes) (hnp : ∀ d, d <:+: file → parseNalu d ≠ .panic) :
    parseRpuFile c file ≠ .panic := by
  unfold parseRpuFile
  have := loop_no_panic c file hnp (file.length + 3)
    { rest := file, chunk := [], rpus := [], offsetsCount := 0, warned := false } (by simp)
  cases hl : loop c (file.length + 3) { rest := file, chunk := [], rpus := [], offsetsCount := 0, warned := false } with
  | ok s => simp only; split <;> simp
  | error => simp
  | panic => exact absurd hl this

end Dovi.RpuFile

namespace Dovi.St2094
open Dovi Dovi.NoPanicP

theorem np_readWide (n : Nat) : NoPanicP (readWide n) := by
  unfold readWide
  np

theorem np_coefPair (len : Nat) : NoPanicP (coefPair len) := by
  unfold coefPair
  repeat' (first | exact np_readWide _ | np_step)

theorem np_parsePiece (len : Nat) : NoPanicP (parsePiece len) := by
  unfold parsePiece
  repeat' (first
    | exact np_readWide _
    | exact NoPanicP.repeatP _ (np_coefPair _)
    | exact NoPanicP.repeatP _ (NoPanicP.repeatP _ (np_coefPair _))
    | np_step)

theorem np_parsePivotsSt (elBits : Nat) : NoPanicP (parsePivotsSt elBits) := by
  unfold parsePivotsSt
  repeat' (first | exact NoPanicP.repeatP _ (NoPanicP.readN _) | np_step)

theorem np_parsePiecesOf (len : Nat) (ns : List Nat) : NoPanicP (parsePiecesOf len ns) := by
  induction ns with
  | nil => unfold parsePiecesOf; np
  | cons n ns ih =>
    unfold parsePiecesOf
    repeat' (first | exact ih | exact NoPanicP.repeatP _ (np_parsePiece _) | np_step)

theorem np_nlqComp (elBits len : Nat) : NoPanicP (nlqComp elBits len) := by
  unfold nlqComp
  repeat' (first | exact np_readWide _ | np_step)

theorem np_parseCm : NoPanicP parseCm := by
  unfold parseCm
  repeat' (first
    | exact NoPanicP.repeatP _ (np_parsePivotsSt _)
    | exact np_parsePiecesOf _ _
    | exact NoPanicP.repeatP _ (np_nlqComp _ _)
    | np_step)

theorem np_parseDm : NoPanicP parseDm := by
  unfold parseDm
  repeat' (first | exact NoPanicP.parseContainer _ _ (Or.inl rfl) | np_step)

theorem np_parseBits : NoPanicP parseBits := by
  unfold parseBits
  repeat' (first | exact np_parseCm | exact np_parseDm | np_step)

/-- **the ST 2094-10 SEI parser panics only at the third-party exp-Golomb sites** (which need a run of 63 zero
bits in the unescaped payload) -/
theorem parse_no_panic (data : Bytes)
    (hg : ∀ t, trim data = .ok t → Good (bytesToBits (Esc.unescape t))) : parse data ≠ .panic := by
  unfold parse
  cases ht : trim data with
  | error => simp [Res.bind]
  | panic =>
    unfold trim at ht
    split at ht
    · cases ht
    · split at ht <;> cases ht
  | ok t =>
    simp only [Res.bind]
    have := (np_parseBits.h _ (hg t ht)).1
    cases hp : parseBits (bytesToBits (Esc.unescape t)) with
    | ok v => simp
    | error => simp
    | panic => exact absurd hp this

end Dovi.St2094
