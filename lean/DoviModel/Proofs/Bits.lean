import DoviModel.Model.Rpu
/-! Primitive codec lemmas of M1: both round-trip directions with their exact side conditions. -/
namespace Dovi

@[simp] theorem toBits_length (n v : Nat) : (toBits n v).length = n := by
  induction n generalizing v with
  | zero => rfl
  | succ n ih => simp [toBits, ih]

theorem ofBits_lt (bs : Bits) : ofBits bs < 2 ^ bs.length := by
  induction bs with
  | nil => simp [ofBits]
  | cons b bs ih =>
    simp only [ofBits, List.length_cons, Nat.pow_succ]
    split <;> omega

theorem ofBits_toBits (n v : Nat) (h : v < 2^n) : ofBits (toBits n v) = v := by
  induction n generalizing v with
  | zero => simp [toBits, ofBits]; simp at h; omega
  | succ n ih =>
    have hp : 0 < 2^n := Nat.two_pow_pos n
    have hlt : v % 2^n < 2^n := Nat.mod_lt _ hp
    simp only [toBits, ofBits, toBits_length, ih _ hlt]
    rw [Nat.pow_succ] at h
    have h2 : v / 2^n < 2 := Nat.div_lt_of_lt_mul (by omega)
    have hdm := Nat.div_add_mod v (2^n)
    generalize v / 2^n = q at *
    generalize v % 2^n = m at *
    generalize 2^n = p at *
    have : q = 0 ∨ q = 1 := by omega
    rcases this with h0 | h1
    · subst h0; simp; omega
    · subst h1; simp; omega

theorem toBits_ofBits (bs : Bits) : toBits bs.length (ofBits bs) = bs := by
  induction bs with
  | nil => rfl
  | cons b bs ih =>
    have hlt := ofBits_lt bs
    have hp : 0 < 2 ^ bs.length := Nat.two_pow_pos _
    simp only [List.length_cons, toBits, ofBits]
    cases b with
    | false =>
      simp only [Bool.false_eq_true, if_false, Nat.zero_add]
      rw [Nat.div_eq_of_lt hlt, Nat.mod_eq_of_lt hlt, ih]; simp
    | true =>
      simp only [if_true]
      have h1 : (2 ^ bs.length + ofBits bs) / 2 ^ bs.length = 1 := by
        rw [Nat.add_div_left _ hp, Nat.div_eq_of_lt hlt]
      have h2 : (2 ^ bs.length + ofBits bs) % 2 ^ bs.length = ofBits bs := by
        rw [Nat.add_mod_left, Nat.mod_eq_of_lt hlt]
      rw [h1, h2, ih]; simp

/-! ### u(n) -/

theorem readN_toBits (n v : Nat) (r : Bits) (h : v < 2^n) : readN n (toBits n v ++ r) = .ok (v, r) := by
  have hl : hasAtLeast n (toBits n v ++ r) = true := (hasAtLeast_iff _ _).mpr (by simp)
  simp [readN, hl, ofBits_toBits _ _ h]

theorem readN_writeN {n v : Nat} {w r : Bits} (h : writeN n v = .ok w) :
    readN n (w ++ r) = .ok (v, r) := by
  unfold writeN at h
  split at h
  · rename_i hv
    injection h with h; subst h
    exact readN_toBits n v r hv
  · cases h

theorem writeN_of_readN {n v : Nat} {bs r : Bits} (h : readN n bs = .ok (v, r)) :
    ∃ w, writeN n v = .ok w ∧ w ++ r = bs := by
  unfold readN at h
  split at h
  · rename_i hn
    have hn := (hasAtLeast_iff _ _).mp hn
    injection h with h
    injection h with h1 h2
    subst h1 h2
    have hl : (bs.take n).length = n := by simp [List.length_take]; omega
    have hlt := ofBits_lt (bs.take n)
    rw [hl] at hlt
    refine ⟨toBits n (ofBits (bs.take n)), ?_, ?_⟩
    · simp [writeN, hlt]
    · have := toBits_ofBits (bs.take n)
      rw [hl] at this
      rw [this, List.take_append_drop]
  · cases h

theorem readN_lt {n v : Nat} {bs r : Bits} (h : readN n bs = .ok (v, r)) : v < 2^n := by
  obtain ⟨w, hw, _⟩ := writeN_of_readN h
  unfold writeN at hw
  split at hw
  · assumption
  · cases hw

theorem readBit_cons (b : Bool) (r : Bits) : readBit (b :: r) = .ok (b, r) := rfl

/-! ### bytes -/

theorem bitsToBytes_bytesToBits (q : Bytes) : bitsToBytes (bytesToBits q) = q := by
  induction q with
  | nil => rfl
  | cons b q ih =>
    have hb : b.toNat < 2^8 := b.toNat_lt
    have e : bytesToBits (b :: q) = toBits 8 b.toNat ++ bytesToBits q := by
      simp [bytesToBits]
    rw [e]
    have hl : (toBits 8 b.toNat).length = 8 := toBits_length _ _
    match hx : toBits 8 b.toNat, hl with
    | [b0, b1, b2, b3, b4, b5, b6, b7], _ =>
      simp only [List.cons_append, List.nil_append, bitsToBytes]
      rw [← hx, ofBits_toBits _ _ hb, ih]
      simp

theorem bytesToBits_length (q : Bytes) : (bytesToBits q).length = 8 * q.length := by
  induction q with
  | nil => rfl
  | cons b q ih =>
    have e : bytesToBits (b :: q) = toBits 8 b.toNat ++ bytesToBits q := by simp [bytesToBits]
    rw [e, List.length_append, toBits_length, ih, List.length_cons]; omega

theorem bytesToBits_append (a b : Bytes) : bytesToBits (a ++ b) = bytesToBits a ++ bytesToBits b := by
  simp [bytesToBits]

/-! ### unary / ue(v) -/

theorem readUnary_replicate (k z : Nat) (r : Bits) :
    readUnary k (List.replicate z false ++ true :: r) = .ok (k + z, r) := by
  show readUnaryAux k _ = _
  induction z generalizing k with
  | zero => simp [readUnaryAux]
  | succ z ih =>
    simp only [List.replicate_succ, List.cons_append, readUnaryAux]
    rw [ih]; congr 2; omega

theorem bitLen_spec {v : Nat} (hv : v ≠ 0) : 2 ^ (bitLen v - 1) ≤ v ∧ v < 2 ^ (bitLen v - 1 + 1) := by
  unfold bitLen
  simp only [hv, if_false, Nat.add_sub_cancel]
  exact ⟨Nat.log2_self_le hv, Nat.lt_log2_self⟩

/-- write → read for ue(v), for every value `write_ue` accepts without panicking (`v + 1 < 2^64`) -/
theorem readUe_writeUe {v : Nat} {w : Bits} (r : Bits) (h : writeUe v = .ok w) :
    readUe (w ++ r) = .ok (v, r) := by
  unfold writeUe at h
  split at h
  · rename_i h0
    injection h with h; subst h; subst h0
    simp [readUe, readUnary, readUnaryAux, bind, P.bind, pure, P.pure]
  · rename_i h0
    split at h
    · cases h
    · rename_i hlt
      injection h with h; subst h
      obtain ⟨hlo, hhi⟩ := bitLen_spec (v := v + 1) (by omega)
      generalize hk : bitLen (v + 1) - 1 = k at *
      have hk0 : k ≠ 0 := by
        intro hz; subst hz; simp at hhi; omega
      have hk64 : k < 64 := by
        have : 2 ^ k < 2 ^ 64 := by omega
        exact (Nat.pow_lt_pow_iff_right (by omega)).mp this
      have hrest : v + 1 - 2 ^ k < 2 ^ k := by
        rw [Nat.pow_succ] at hhi; omega
      have e : (List.replicate k false ++ [true] ++ toBits k (v + 1 - 2 ^ k)) ++ r =
          List.replicate k false ++ true :: (toBits k (v + 1 - 2 ^ k) ++ r) := by simp
      rw [e]
      show P.bind (readUnary 0) _ _ = _
      simp only [P.bind, readUnary_replicate, Nat.zero_add]
      simp only [hk0, if_false]
      have hng : ¬ k > 64 := by omega
      simp only [hng, if_false]
      show P.bind (readN k) _ _ = _
      simp only [P.bind, readN_toBits _ _ _ hrest]
      have hne : ¬ k = 64 := by omega
      simp only [hne, if_false, pure, P.pure]
      congr 2
      omega

end Dovi

namespace Dovi

/-! ### stepping through `do` blocks of `P` -/

theorem P.bind_of_ok {α β} {x : P α} {f : α → P β} {s s' : Bits} {a : α} (h : x s = .ok (a, s')) :
    (x >>= f) s = f a s' := by
  show P.bind x f s = _
  simp [P.bind, h]

@[simp] theorem P.pure_apply {α} (a : α) (s : Bits) : (pure a : P α) s = .ok (a, s) := rfl
@[simp] theorem P.ensure_true (s : Bits) : P.ensure true s = .ok ((), s) := rfl
@[simp] theorem P.ensure_false (s : Bits) : P.ensure false s = .error := rfl
@[simp] theorem P.available_apply (s : Bits) : P.available s = .ok (s.length, s) := rfl
@[simp] theorem P.fail_apply {α} (s : Bits) : (P.fail : P α) s = .error := rfl

theorem P.bind_apply {α β} (x : P α) (f : α → P β) (s : Bits) :
    (x >>= f) s = match x s with
      | .ok (a, s') => f a s'
      | .error => .error
      | .panic => .panic := rfl

/-- reading `q.length` bytes back from their bits -/
theorem repeatP_readN8 (q : Bytes) (r : Bits) :
    repeatP q.length (readN 8) (bytesToBits q ++ r) = .ok (q.map (·.toNat), r) := by
  induction q with
  | nil => rfl
  | cons b q ih =>
    have hb : b.toNat < 2^8 := b.toNat_lt
    have e : bytesToBits (b :: q) ++ r = toBits 8 b.toNat ++ (bytesToBits q ++ r) := by
      simp [bytesToBits]
    rw [e]
    simp only [List.length_cons, repeatP]
    rw [P.bind_of_ok (readN_toBits 8 b.toNat _ hb)]
    rw [P.bind_of_ok ih]
    rfl

end Dovi
