import DoviModel.Proofs.HevcDemuxMux
set_option linter.unusedSimpArgs false
namespace Dovi.Hevc
open Dovi

/-- **mux(demux(s)) = s.**  A dual-layer stream whose access units have the layout [BL NALs][EL NALs + RPU]
[EOS/EOB] (each with at least one BL NAL and one EL-bound NAL, numbered from 0, adjacent numbers distinct):
muxing its BL half with its EL half (as demux writes them: UNSPEC63 header stripped) under --no-add-aud gives
back the original NAL sequence, every NAL with its bytes, and no error. -/
theorem demux_mux_core (c : MCfg) (aud : Nat → Bytes) (conv : Bytes → Option Bytes) (nFrames : Nat) (f0 : DlFrame) (rest : List DlFrame)
    (heos : c.eosBeforeEl = false) (hd : c.discard = false) (hcs : c.convSet = false)
    (hdrop : c.drop = false) (h0 : f0.au = 0)
    (hl : LabelsOk f0.au rest) (hwf : ∀ f ∈ f0 :: rest, f.Wf)
    (hfr : ∀ it ∈ (f0 :: rest).flatMap DlFrame.all, it.au < nFrames)
    (hmb : ∀ f ∈ f0 :: rest, muxBody c aud (f.au, f.b ++ f.t) = (f.b ++ f.t).map payI)
    (hnb : ∀ f ∈ f0 :: rest, blBody c (f.b ++ f.t) ≠ []) :
    ∃ out, mux c aud conv nFrames (((f0 :: rest).flatMap DlFrame.all).filter isBl)
        ((((f0 :: rest).flatMap DlFrame.all).filter isEl).map unwrapItem) = some (out, false) ∧
      out.map pay = ((f0 :: rest).flatMap DlFrame.all).map payI := by
  have hw0 := hwf f0 (by simp)
  have hwr : ∀ f ∈ rest, f.Wf := fun f hf => hwf f (by simp [hf])
  -- the two layers, frame by frame
  have hbl : ((f0 :: rest).flatMap DlFrame.all).filter isBl = (f0 :: rest).flatMap (fun f => f.b ++ f.t) :=
    flatMap_filter isBl _ _ _ (fun f hf => wf_filter_bl f (hwf f hf))
  have hel : ((f0 :: rest).flatMap DlFrame.all).filter isEl = (f0 :: rest).flatMap (fun f => f.e) :=
    flatMap_filter isEl _ _ _ (fun f hf => wf_filter_el f (hwf f hf))
  have hframes : frames (((f0 :: rest).flatMap DlFrame.all).filter isBl) = (f0 :: rest).map (fun f => (f.au, f.b ++ f.t)) := by
    rw [hbl]
    have e : (f0 :: rest).flatMap (fun f => f.b ++ f.t) =
        (f0.b ++ f0.t) ++ (rest.map (fun f => (f.au, f.b ++ f.t))).flatMap (·.2) := by
      simp [List.flatMap_cons, List.flatMap_map]
    rw [e, frames_groups _ _ ?_ (by rw [← h0]; exact chain_bl f0.au rest hl hwr)]
    · simp [h0]
    · intro it hit
      rw [← h0]; apply hw0.2.2.1
      simp only [DlFrame.all]
      rcases List.mem_append.mp hit with h | h
      · exact List.mem_append_left _ (List.mem_append_left _ h)
      · exact List.mem_append_right _ h
  have hruns : runs ((((f0 :: rest).flatMap DlFrame.all).filter isEl).map unwrapItem) =
      (f0 :: rest).map (fun f => (f.au, f.e.map unwrapItem)) := by
    rw [hel]
    have e : ((f0 :: rest).flatMap (fun f => f.e)).map unwrapItem =
        (f0.au, f0.e.map unwrapItem).2 ++ (rest.map (fun f => (f.au, f.e.map unwrapItem))).flatMap (·.2) := by
      simp [List.flatMap_cons, List.flatMap_map, List.map_flatMap]
    rw [e, runs_groups _ _ (by simp [hw0.2.1]) ?_ (chain_el f0.au rest hl hwr)]
    · simp
    · intro it hit
      obtain ⟨x, hx, rfl⟩ := List.mem_map.mp hit
      rw [unwrapItem_au]; apply hw0.2.2.1
      simp only [DlFrame.all]
      exact List.mem_append_left _ (List.mem_append_right _ hx)
  -- the EL frames as mux buffers them
  have hp := elFrames_plain c conv (runs ((((f0 :: rest).flatMap DlFrame.all).filter isEl).map unwrapItem)) hd hcs
  cases hels : elFrames c conv (runs ((((f0 :: rest).flatMap DlFrame.all).filter isEl).map unwrapItem)) with
  | none => rw [hels] at hp; cases hp
  | some els =>
    rw [hels] at hp
    simp only [Option.map_some, Option.some.injEq] at hp
    have hlen : (frames (((f0 :: rest).flatMap DlFrame.all).filter isBl)).length =
        (runs ((((f0 :: rest).flatMap DlFrame.all).filter isEl).map unwrapItem)).length := by
      rw [hframes, hruns]; simp
    have hlast : ∀ fr, (frames (((f0 :: rest).flatMap DlFrame.all).filter isBl)).getLast? = some fr → blBody c fr.2 ≠ [] := by
      intro fr hfr
      rw [hframes] at hfr
      have hmem : fr ∈ (f0 :: rest).map (fun f => (f.au, f.b ++ f.t)) := List.mem_of_getLast? hfr
      obtain ⟨f, hf, rfl⟩ := List.mem_map.mp hmem
      exact hnb f hf
    refine ⟨_, mux_aligned c aud conv nFrames _ _ els hdrop hels hlen
      (fun it h => hfr it (List.mem_filter.mp h).1) hlast, ?_⟩
    rw [zip_muxFrame_pay, hp, hframes, hruns, List.map_map, List.zip_map']
    rw [List.flatMap_map, List.map_flatMap]
    apply flatMap_congr'
    intro f hf
    have hw := hwf f hf
    simp only [Function.comp, muxFramePay, heos, Bool.false_eq_true, if_false]
    rw [hmb f hf]
    have hbf : (f.b.map payI).filter (fun x => !isEos x.1) = f.b.map payI :=
      filter_eq_self_of_all_true _ _ (fun x hx => by
        obtain ⟨it, hit, rfl⟩ := List.mem_map.mp hx
        simp [payI, (hw.2.2.2.1 it hit).2])
    have hbe : (f.b.map payI).filter (fun x => isEos x.1) = [] :=
      filter_eq_nil_of_all_false _ _ (fun x hx => by
        obtain ⟨it, hit, rfl⟩ := List.mem_map.mp hx
        simp [payI, (hw.2.2.2.1 it hit).2])
    have htf : (f.t.map payI).filter (fun x => !isEos x.1) = [] :=
      filter_eq_nil_of_all_false _ _ (fun x hx => by
        obtain ⟨it, hit, rfl⟩ := List.mem_map.mp hx
        simp [payI, hw.2.2.2.2.1 it hit])
    have hte : (f.t.map payI).filter (fun x => isEos x.1) = f.t.map payI :=
      filter_eq_self_of_all_true _ _ (fun x hx => by
        obtain ⟨it, hit, rfl⟩ := List.mem_map.mp hx
        simp [payI, hw.2.2.2.2.1 it hit])
    have hwrap : (f.e.map unwrapItem).map wrapEl = f.e.map payI := by
      rw [List.map_map]
      apply List.map_congr_left
      intro it hit
      exact wrap_unwrap it (hw.2.2.2.2.2 it hit).1 (hw.2.2.2.2.2 it hit).2
    simp only [List.map_append, List.filter_append, hbf, hbe, htf, hte, hwrap, DlFrame.all, List.append_nil, List.nil_append,
      List.append_assoc]


theorem blBody_of_kept (c : MCfg) (l : List Item)
    (h : ∀ it ∈ l, isBl it = true ∧ (c.noAddAud = true ∨ it.typ ≠ NAL_AUD)) : blBody c l = l.map payI := by
  unfold blBody
  rw [filter_eq_self_of_all_true]
  intro x hx
  obtain ⟨hb, ha⟩ := h x hx
  simp only [isBl, Bool.not_eq_true', Bool.or_eq_false_iff, beq_eq_false_iff_ne] at hb
  simp [hb.1, hb.2, ha]

theorem blBody_drop_aud (c : MCfg) (a0 : Item) (l : List Item) (hna : c.noAddAud = false) (ha : a0.typ = NAL_AUD) :
    blBody c (a0 :: l) = blBody c l := by
  unfold blBody
  simp [List.filter_cons, ha, hna]

/-- the frame's BL NALs in the layout of a canonical source when AUDs are regenerated: the AUD the tool itself
would write first, then at least one more NAL, no further AUD -/
def DlFrame.CanonAud (aud : Nat → Bytes) (f : DlFrame) : Prop :=
  ∃ a0 b', f.b = a0 :: b' ∧ a0.typ = NAL_AUD ∧ a0.data = aud f.au ∧ b' ≠ [] ∧ ∀ it ∈ b' ++ f.t, it.typ ≠ NAL_AUD

/-- **mux(demux(s)) = s, AUDs regenerated.**  The same for a source in canonical form — every access unit led by
the AUD the tool regenerates for it — without --no-add-aud. -/
theorem demux_mux_id_canonical (c : MCfg) (aud : Nat → Bytes) (conv : Bytes → Option Bytes) (nFrames : Nat) (f0 : DlFrame) (rest : List DlFrame)
    (hna : c.noAddAud = false) (heos : c.eosBeforeEl = false) (hd : c.discard = false) (hcs : c.convSet = false)
    (hdrop : c.drop = false) (h0 : f0.au = 0) (hl : LabelsOk f0.au rest) (hwf : ∀ f ∈ f0 :: rest, f.Wf)
    (hfr : ∀ it ∈ (f0 :: rest).flatMap DlFrame.all, it.au < nFrames)
    (hca : ∀ f ∈ f0 :: rest, f.CanonAud aud) :
    ∃ out, mux c aud conv nFrames (((f0 :: rest).flatMap DlFrame.all).filter isBl)
        ((((f0 :: rest).flatMap DlFrame.all).filter isEl).map unwrapItem) = some (out, false) ∧
      out.map pay = ((f0 :: rest).flatMap DlFrame.all).map payI := by
  have key : ∀ f ∈ f0 :: rest, blBody c (f.b ++ f.t) ≠ [] ∧
      muxBody c aud (f.au, f.b ++ f.t) = (f.b ++ f.t).map payI := by
    intro f hf
    obtain ⟨a0, b', hb, hat, had, hne, hno⟩ := hca f hf
    have hw := hwf f hf
    have hkept : ∀ it ∈ b' ++ f.t, isBl it = true ∧ (c.noAddAud = true ∨ it.typ ≠ NAL_AUD) := by
      intro it hit
      refine ⟨?_, Or.inr (hno it hit)⟩
      rcases List.mem_append.mp hit with h | h
      · exact (hw.2.2.2.1 it (by rw [hb]; exact List.mem_cons_of_mem _ h)).1
      · exact isEos_isBl it (hw.2.2.2.2.1 it h)
    have e : blBody c (f.b ++ f.t) = (b' ++ f.t).map payI := by
      rw [hb, List.cons_append, blBody_drop_aud c a0 _ hna hat, blBody_of_kept c _ hkept]
    constructor
    · rw [e]; cases b' with
      | nil => exact absurd rfl hne
      | cons x xs => simp
    · simp only [muxBody, hna, Bool.false_eq_true, if_false, e]
      rw [hb]
      simp [payI, hat, had]
  exact demux_mux_core c aud conv nFrames f0 rest heos hd hcs hdrop h0 hl hwf hfr (fun f hf => (key f hf).2) (fun f hf => (key f hf).1)

/-- with the preset `four` (the default) every NAL mux writes is behind a 4-byte start code -/
theorem scLen_four (t : Nat) (b : Bool) : scLen false t b = 4 := rfl

def AllFour (l : List Out) : Prop := ∀ o ∈ l, o.sc = 4

theorem allFour_append {a b : List Out} (ha : AllFour a) (hb : AllFour b) : AllFour (a ++ b) := by
  intro o ho; rcases List.mem_append.mp ho with h | h
  · exact ha o h
  · exact hb o h

theorem withSc_four (l : List (Nat × Bytes)) : AllFour (withSc false l) := by
  cases l with
  | nil => intro o ho; simp [withSc] at ho
  | cons x xs =>
    intro o ho
    simp only [withSc, List.mem_cons, List.mem_map] at ho
    rcases ho with rfl | ⟨y, _, rfl⟩ <;> rfl

theorem noFirst_four (l : List (Nat × Bytes)) : AllFour (noFirst false l) := by
  intro o ho
  simp only [noFirst, List.mem_map] at ho
  obtain ⟨y, _, rfl⟩ := ho; rfl

theorem blSplit_four (c : MCfg) (aud : Nat → Bytes) (fr : Nat × List Item) (h : c.annexb = false) :
    AllFour (blSplit c aud fr).1 ∧ AllFour (blSplit c aud fr).2 := by
  unfold blSplit
  rw [h]
  dsimp only
  generalize (if c.noAddAud = true then blBody c fr.2 else (NAL_AUD, aud fr.1) :: blBody c fr.2) = body
  cases c.eosBeforeEl
  · exact ⟨withSc_four _, noFirst_four _⟩
  · exact ⟨withSc_four _, by intro o ho; simp at ho⟩

theorem elFrame_four (c : MCfg) (conv : Bytes → Option Bytes) (l : List Item) (e : List Out) (h : c.annexb = false)
    (he : elFrame c conv l = some e) : AllFour e := by
  induction l generalizing e with
  | nil => simp [elFrame] at he; subst he; intro o ho; simp at ho
  | cons it rest ih =>
    simp only [elFrame] at he
    cases hn : elNal c conv it with
    | none => simp [hn] at he
    | some oo =>
      cases hr : elFrame c conv rest with
      | none => cases oo <;> simp [hn, hr] at he
      | some os =>
        cases oo with
        | none => simp [hn, hr] at he; subst he; exact ih os hr
        | some o =>
          simp [hn, hr] at he; subst he
          intro x hx
          rcases List.mem_cons.mp hx with rfl | hx
          · unfold elNal at hn
            rw [h] at hn
            split at hn
            · cases hn
            · split at hn
              · simp only [Option.some.injEq] at hn; subst hn; rfl
              · cases hc : (if c.convSet = true then conv it.data else some it.data) with
                | none => simp [hc] at hn
                | some m => simp only [hc, Option.some.injEq] at hn; subst hn; rfl
          · exact ih os hr x hx

theorem elFrames_four (c : MCfg) (conv : Bytes → Option Bytes) (gs : List (Nat × List Item)) (els : List (List Out))
    (h : c.annexb = false) (he : elFrames c conv gs = some els) : ∀ e ∈ els, AllFour e := by
  induction gs generalizing els with
  | nil => simp [elFrames] at he; subst he; simp
  | cons g rest ih =>
    simp only [elFrames] at he
    cases hf : elFrame c conv g.2 with
    | none => simp [hf] at he
    | some f =>
      cases hr : elFrames c conv rest with
      | none => simp [hf, hr] at he
      | some fs =>
        simp [hf, hr] at he; subst he
        intro e hm
        rcases List.mem_cons.mp hm with rfl | hm
        · exact elFrame_four c conv g.2 _ h hf
        · exact ih fs hr e hm

theorem muxGo_four (c : MCfg) (aud : Nat → Bytes) (nFrames : Nat) (frs : List (Nat × List Item)) (els : List (List Out))
    (h : c.annexb = false) (hels : ∀ e ∈ els, AllFour e) : AllFour (muxGo c aud nFrames frs els).1 := by
  induction frs generalizing els with
  | nil => intro o ho; simp [muxGo] at ho
  | cons fr rest ih =>
    have hb := blSplit_four c aud fr h
    cases rest with
    | nil =>
      simp only [muxGo]
      split
      · intro o ho; simp at ho
      · apply allFour_append
        · apply allFour_append hb.1
          cases els with
          | nil => intro o ho; simp at ho
          | cons e _ => simpa using hels e (by simp)
        · exact hb.2
    | cons fr2 rest2 =>
      cases els with
      | nil =>
        simp only [muxGo]
        exact allFour_append (allFour_append hb.1 hb.2) (ih [] (by simp))
      | cons e els' =>
        cases els' with
        | nil =>
          simp only [muxGo]
          exact allFour_append (allFour_append hb.1 hb.2) (ih [e] hels)
        | cons e2 els'' =>
          simp only [muxGo]
          refine allFour_append (allFour_append (allFour_append hb.1 (hels e (by simp))) hb.2) ?_
          exact ih (e2 :: els'') (fun x hx => hels x (by simp [hx]))

/-- with the start-code preset `four` (the default) every NAL mux writes is behind a 4-byte start code: together
with `demux_mux_id_canonical` this is the byte identity of mux(demux(s)) for a canonical source -/
theorem mux_four (c : MCfg) (aud : Nat → Bytes) (conv : Bytes → Option Bytes) (nFrames : Nat) (bl el : List Item) (out : List Out)
    (e : Bool) (h : c.annexb = false) (hm : mux c aud conv nFrames bl el = some (out, e)) : AllFour out := by
  unfold mux at hm
  cases hs : seiStage c.drop bl with
  | none => simp [hs] at hm
  | some b =>
    cases he : elFrames c conv (runs el) with
    | none => simp [hs, he] at hm
    | some es =>
      simp only [hs, he] at hm
      split at hm
      · simp only [Option.some.injEq] at hm
        have := muxGo_four c aud nFrames (frames b) es h (elFrames_four c conv _ es h he)
        rw [hm] at this
        exact this
      · cases hm

end Dovi.Hevc
