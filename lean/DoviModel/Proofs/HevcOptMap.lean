import DoviModel.Proofs.HevcGeneral
set_option linter.unusedSimpArgs false
namespace Dovi.Hevc
open Dovi

theorem optMap_cons_some {α β : Type} (f : α → Option β) (a : α) (l : List α) (out : List β)
    (h : optMap f (a :: l) = some out) : ∃ b bs, f a = some b ∧ optMap f l = some bs ∧ out = b :: bs := by
  simp only [optMap] at h
  cases hf : f a with
  | none => simp [hf] at h
  | some b =>
    cases hl : optMap f l with
    | none => simp [hf, hl] at h
    | some bs => simp [hf, hl] at h; exact ⟨b, bs, rfl, rfl, h.symm⟩

theorem optMap_length {α β : Type} (f : α → Option β) (l : List α) (out : List β) (h : optMap f l = some out) :
    out.length = l.length := by
  induction l generalizing out with
  | nil => simp [optMap] at h; subst h; rfl
  | cons a l ih =>
    obtain ⟨b, bs, _, hl, rfl⟩ := optMap_cons_some f a l out h
    simp [ih bs hl]

theorem optMap_getElem {α β : Type} (f : α → Option β) (l : List α) (out : List β) (h : optMap f l = some out)
    (i : Nat) (hi : i < l.length) : f l[i] = out[i]? := by
  induction l generalizing out i with
  | nil => simp at hi
  | cons a l ih =>
    obtain ⟨b, bs, hf, hl, rfl⟩ := optMap_cons_some f a l out h
    cases i with
    | zero => simpa using hf
    | succ i => simpa using ih bs hl i (by simpa using hi)

theorem optMap_eq_none_iff {α β : Type} (f : α → Option β) (l : List α) :
    optMap f l = none ↔ ∃ a ∈ l, f a = none := by
  induction l with
  | nil => simp [optMap]
  | cons a l ih =>
    simp only [optMap]
    cases hf : f a with
    | none => simp [hf]
    | some b =>
      cases hl : optMap f l with
      | none =>
        simp only [List.mem_cons, true_iff]
        obtain ⟨x, hx, hxn⟩ := ih.mp hl
        exact ⟨x, Or.inr hx, hxn⟩
      | some bs =>
        simp only [List.mem_cons, false_iff, reduceCtorEq]
        rintro ⟨x, hx | hx, hxn⟩
        · subst hx; rw [hf] at hxn; cases hxn
        · have := ih.mpr ⟨x, hx, hxn⟩; rw [hl] at this; cases this

/-- what convert wrote, RPUs aside, is the input, RPUs aside -/
theorem slSpec_filter (cs : Bool) (conv : Bytes → Option Bytes) (l : List Item) (out : List (Nat × Bytes))
    (h : optMap (slSpec cs conv) l = some out) :
    out.filter (fun x => x.1 ≠ NAL_UNSPEC62) = (l.map payI).filter (fun x => x.1 ≠ NAL_UNSPEC62) := by
  induction l generalizing out with
  | nil => simp [optMap] at h; subst h; rfl
  | cons it l ih =>
    obtain ⟨b, bs, hf, hl, rfl⟩ := optMap_cons_some _ it l out h
    simp only [List.map_cons, List.filter_cons, ih bs hl]
    unfold slSpec at hf
    split at hf
    · rename_i hc
      cases hcv : conv it.data with
      | none => simp [hcv] at hf
      | some m =>
        simp only [hcv, Option.map_some, Option.some.injEq] at hf
        subst hf
        simp [payI, hc.1]
    · simp only [Option.some.injEq] at hf
      subst hf; rfl

/-- … and the types stay where they were -/
theorem slSpec_types (cs : Bool) (conv : Bytes → Option Bytes) (l : List Item) (out : List (Nat × Bytes))
    (h : optMap (slSpec cs conv) l = some out) : out.map Prod.fst = l.map (·.typ) := by
  induction l generalizing out with
  | nil => simp [optMap] at h; subst h; rfl
  | cons it l ih =>
    obtain ⟨b, bs, hf, hl, rfl⟩ := optMap_cons_some _ it l out h
    simp only [List.map_cons, ih bs hl]
    unfold slSpec at hf
    split at hf
    · cases hcv : conv it.data with
      | none => simp [hcv] at hf
      | some m => simp only [hcv, Option.map_some, Option.some.injEq] at hf; subst hf; rfl
    · simp only [Option.some.injEq] at hf; subst hf; rfl

end Dovi.Hevc
