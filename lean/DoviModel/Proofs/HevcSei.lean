import DoviModel.Model.Hevc
import DoviModel.Proofs.Esc
/-! SEI walker and `--drop-hdr10plus` on one NAL unit: helper lemmas for Props/C18.lean -/
set_option linter.unusedSimpArgs false
namespace Dovi.Hevc.Sei
open Dovi Dovi.Hevc

theorem readFF_replicate (k : Nat) (b : UInt8) (hb : b ≠ 0xFF) (rest : Bytes) :
    readFF (List.replicate k 0xFF ++ b :: rest) = some (k, b.toNat, rest) := by
  induction k with
  | zero => simp [readFF, hb]
  | succ k ih => simp [List.replicate_succ, readFF, ih]

theorem ofNat_mod_ne (n : Nat) : UInt8.ofNat (n % 255) ≠ 0xFF := by
  intro h
  have := congrArg UInt8.toNat h
  simp at this
  omega

theorem ofNat_mod_toNat (n : Nat) : (UInt8.ofNat (n % 255)).toNat = n % 255 := by
  simp; omega

theorem readFF_encFF (n : Nat) (rest : Bytes) :
    readFF (encFF n ++ rest) = some (n / 255, n % 255, rest) := by
  unfold encFF
  rw [List.append_assoc, List.singleton_append, readFF_replicate _ _ (ofNat_mod_ne n), ofNat_mod_toNat]

theorem encFF_length (n : Nat) : (encFF n).length = n / 255 + 1 := by simp [encFF]

/-- bytes of type and size coding in front of the payload -/
def hdrLen (m : Nat × Bytes) : Nat := m.1 / 255 + m.2.length / 255 + 2

theorem encMsg_length (m : Nat × Bytes) : (encMsg m).length = hdrLen m + m.2.length := by
  simp [encMsg, encFF_length, hdrLen]; omega

theorem parseMsg_enc (pos : Nat) (m : Nat × Bytes) (rest : Bytes) (ht : m.1 ≤ 255) :
    parseMsg pos (encMsg m ++ rest) =
      some ({ off := pos, ptype := m.1, poff := pos + hdrLen m, psize := m.2.length }, rest) := by
  unfold parseMsg encMsg
  simp only [List.append_assoc, readFF_encFF]
  have e1 : 255 * (m.1 / 255) + m.1 % 255 = m.1 := Nat.div_add_mod m.1 255
  have e2 : 255 * (m.2.length / 255) + m.2.length % 255 = m.2.length := Nat.div_add_mod _ 255
  simp only [e1, e2]
  have : ¬ m.1 > 255 := by omega
  simp only [this, if_false]
  have : ¬ m.2.length > (m.2 ++ rest).length := by simp
  simp only [this, if_false, hdrLen]
  simp
  omega

/-- the `SeiMessage` list hevc_parser reports for the coded messages `ms` starting at byte `pos` -/
def layout (pos : Nat) : List (Nat × Bytes) → List Msg
  | [] => []
  | m :: ms => { off := pos, ptype := m.1, poff := pos + hdrLen m, psize := m.2.length } ::
      layout (pos + (encMsg m).length) ms

theorem encMsgs_cons (m : Nat × Bytes) (ms : List (Nat × Bytes)) : encMsgs (m :: ms) = encMsg m ++ encMsgs ms := by
  simp [encMsgs]

theorem encMsgs_length_ge (ms : List (Nat × Bytes)) (h : ms ≠ []) : (encMsgs ms).length ≥ 2 := by
  cases ms with
  | nil => exact absurd rfl h
  | cons m ms => simp [encMsgs_cons, encMsg_length, hdrLen]; omega

theorem walkFrom_enc (fuel pos : Nat) (ms : List (Nat × Bytes)) (tr : Bytes) (hne : ms ≠ [])
    (htr : tr.length ≤ 1) (ht : ∀ m ∈ ms, m.1 ≤ 255) (hf : ms.length ≤ fuel) :
    walkFrom fuel pos (encMsgs ms ++ tr) = some (layout pos ms) := by
  induction ms generalizing fuel pos with
  | nil => exact absurd rfl hne
  | cons m ms ih =>
    cases fuel with
    | zero => simp at hf
    | succ fuel =>
      simp only [walkFrom, encMsgs_cons, List.append_assoc]
      rw [parseMsg_enc _ _ _ (ht m (by simp))]
      simp only
      by_cases hms : ms = []
      · subst hms
        simp [encMsgs, htr, layout]
      · have hl := encMsgs_length_ge ms hms
        have : ¬ (encMsgs ms ++ tr).length ≤ 1 := by simp; omega
        simp only [this, if_false]
        rw [ih (fuel := fuel) (pos := pos + hdrLen m + m.2.length) hms (fun x hx => ht x (by simp [hx])) (by simpa using hf)]
        simp [layout, encMsg_length, Nat.add_assoc]

def isSeiHdr (h0 : UInt8) : Prop := nalType [h0] = 39 ∨ nalType [h0] = 40

instance (h0 : UInt8) : Decidable (isSeiHdr h0) := by unfold isSeiHdr; exact inferInstance

theorem walk_enc (h0 h1 : UInt8) (ms : List (Nat × Bytes)) (tr : Bytes) (hh : isSeiHdr h0) (hne : ms ≠ [])
    (htr : tr.length ≤ 1) (ht : ∀ m ∈ ms, m.1 ≤ 255) :
    walk (h0 :: h1 :: (encMsgs ms ++ tr)) = some (layout 2 ms) := by
  unfold walk
  simp only
  have hh' : nalType [h0] = 39 ∨ nalType [h0] = 40 := hh
  rw [if_pos hh']
  apply walkFrom_enc _ _ _ _ hne htr ht
  have := encMsgs_length_ge ms hne
  have h2 : ∀ l : List (Nat × Bytes), l.length * 2 ≤ (encMsgs l).length := by
    intro l; induction l with
    | nil => simp [encMsgs]
    | cons m l ih => simp [encMsgs_cons, encMsg_length, hdrLen]; omega
  have := h2 ms
  simp; omega

/-- payload of every laid-out message, read back from the bytes -/
theorem layout_msgBytes (pre : Bytes) (ms : List (Nat × Bytes)) (tr : Bytes) :
    (layout pre.length ms).map (msgBytes (pre ++ encMsgs ms ++ tr)) = ms := by
  induction ms generalizing pre with
  | nil => simp [layout]
  | cons m ms ih =>
    simp only [layout, List.map_cons, encMsgs_cons]
    congr 1
    · simp only [msgBytes]
      have : pre ++ (encMsg m ++ encMsgs ms) ++ tr
          = (pre ++ encFF m.1 ++ encFF m.2.length) ++ (m.2 ++ (encMsgs ms ++ tr)) := by
        simp [encMsg, List.append_assoc]
      rw [this]
      have hl : (pre ++ encFF m.1 ++ encFF m.2.length).length = pre.length + hdrLen m := by
        simp [encFF_length, hdrLen]; omega
      rw [← hl, List.drop_left, List.take_left]
    · have := ih (pre ++ encMsg m)
      simp only [List.length_append, List.append_assoc] at this ⊢
      exact this

theorem isHdr_head (pre : Bytes) (m : Nat × Bytes) (rest : Bytes) :
    isHdr (pre ++ encMsg m ++ rest)
      { off := pre.length, ptype := m.1, poff := pre.length + hdrLen m, psize := m.2.length } = isHdrMsg m := by
  have e : pre ++ encMsg m ++ rest = (pre ++ encFF m.1 ++ encFF m.2.length) ++ (m.2 ++ rest) := by
    simp [encMsg, List.append_assoc]
  have hl : (pre ++ encFF m.1 ++ encFF m.2.length).length = pre.length + hdrLen m := by
    simp [encFF_length, hdrLen]; omega
  simp only [isHdr, isHdrMsg]
  rw [e, ← hl, List.drop_left]
  by_cases h7 : m.2.length ≥ 7
  · rw [List.take_append_of_le_length h7]
  · simp [h7]

/-- locating the first ST 2094-40 message in the walker's list = locating it in the message list; cutting
`[msg_offset, payload_offset + payload_size)` out of the bytes = coding the list without that message -/
theorem find_layout (pre : Bytes) (ms : List (Nat × Bytes)) (tr : Bytes) :
    match (layout pre.length ms).find? (isHdr (pre ++ encMsgs ms ++ tr)) with
    | none => (∀ m ∈ ms, isHdrMsg m = false)
    | some m' => (∃ m ∈ ms, isHdrMsg m = true) ∧
        (pre ++ encMsgs ms ++ tr).take m'.off ++ (pre ++ encMsgs ms ++ tr).drop (m'.poff + m'.psize)
          = pre ++ encMsgs (ms.eraseP isHdrMsg) ++ tr := by
  induction ms generalizing pre with
  | nil => simp [layout]
  | cons m ms ih =>
    simp only [layout, encMsgs_cons]
    rw [List.find?_cons]
    have e0 : pre ++ (encMsg m ++ encMsgs ms) ++ tr = pre ++ encMsg m ++ (encMsgs ms ++ tr) := by
      simp [List.append_assoc]
    rw [e0, isHdr_head]
    by_cases hm : isHdrMsg m = true
    · simp only [hm]
      refine ⟨⟨m, by simp, hm⟩, ?_⟩
      simp only [List.eraseP_cons_of_pos hm]
      have e1 : pre ++ encMsg m ++ (encMsgs ms ++ tr) = pre ++ (encMsg m ++ (encMsgs ms ++ tr)) := by
        simp [List.append_assoc]
      rw [e1, List.take_left]
      have e2 : pre.length + hdrLen m + m.2.length = (pre ++ encMsg m).length := by
        simp [encMsg_length]; omega
      rw [← List.append_assoc, e2, List.drop_left]
      simp [List.append_assoc]
    · have hm' : isHdrMsg m = false := by simpa using hm
      simp only [hm']
      have := ih (pre ++ encMsg m)
      have e3 : pre ++ encMsg m ++ encMsgs ms ++ tr = pre ++ encMsg m ++ (encMsgs ms ++ tr) := by
        simp [List.append_assoc]
      have e4 : (pre ++ encMsg m).length = pre.length + (encMsg m).length := by simp
      rw [e3, e4] at this
      split at this
      · rename_i hnone
        rw [hnone]
        intro x hx
        rcases List.mem_cons.mp hx with rfl | hx
        · exact hm'
        · exact this x hx
      · rename_i m' hsome
        rw [hsome]
        obtain ⟨⟨x, hx, hxh⟩, hcut⟩ := this
        refine ⟨⟨x, by simp [hx], hxh⟩, ?_⟩
        rw [hcut, List.eraseP_cons_of_neg (by simpa using hm')]
        simp [encMsgs_cons, List.append_assoc]

theorem layout_length (pos : Nat) (ms : List (Nat × Bytes)) : (layout pos ms).length = ms.length := by
  induction ms generalizing pos with
  | nil => simp [layout]
  | cons m ms ih => simp [layout, ih]

/-- an unescaped prefix/suffix SEI NAL unit as H.265 7.3.5 writes it: 2-byte header, the coded messages,
rbsp trailing bits -/
def seiRbsp (h0 h1 : UInt8) (ms : List (Nat × Bytes)) : Bytes := h0 :: h1 :: (encMsgs ms ++ [0x80])

theorem seiRbsp_eq (h0 h1 : UInt8) (ms : List (Nat × Bytes)) :
    seiRbsp h0 h1 ms = [h0, h1] ++ encMsgs ms ++ [0x80] := by simp [seiRbsp]

theorem seiRbsp_length (h0 h1 : UInt8) (ms : List (Nat × Bytes)) (hne : ms ≠ []) : (seiRbsp h0 h1 ms).length ≥ 5 := by
  have := encMsgs_length_ge ms hne
  simp [seiRbsp]; omega

/-- what `prefix_sei_removed_hdr10plus_nalu` does to every well-formed SEI NAL unit -/
theorem drop_spec (d : Bytes) (h0 h1 : UInt8) (ms : List (Nat × Bytes))
    (hp : stripZeros (Esc.unescape d) = seiRbsp h0 h1 ms) (hh : isSeiHdr h0) (hne : ms ≠ [])
    (ht : ∀ m ∈ ms, m.1 ≤ 255) :
    dropHdr10plus d =
      if (∀ m ∈ ms, isHdrMsg m = false) then Res.keep d
      else if ms.length > 1 then Res.keep (Esc.escape (seiRbsp h0 h1 (ms.eraseP isHdrMsg)))
      else Res.dropped := by
  unfold dropHdr10plus
  simp only [hp]
  have hlen := seiRbsp_length h0 h1 ms hne
  rw [if_neg (by omega)]
  have hw : walk (seiRbsp h0 h1 ms) = some (layout 2 ms) := walk_enc h0 h1 ms [0x80] hh hne (by simp) ht
  rw [hw]
  simp only
  have hf := find_layout [h0, h1] ms [0x80]
  rw [← seiRbsp_eq] at hf
  simp only [List.length_cons, List.length_nil] at hf
  split at hf
  · rename_i hnone
    rw [hnone]
    simp only [if_pos hf]
  · rename_i m' hsome
    rw [hsome]
    obtain ⟨⟨x, hx, hxh⟩, hcut⟩ := hf
    have : ¬ (∀ m ∈ ms, isHdrMsg m = false) := by
      intro h; have := h x hx; simp [this] at hxh
    simp only [if_neg this, layout_length, hcut, ← seiRbsp_eq]

theorem isSeiHdr_ne_zero (h0 : UInt8) (hh : isSeiHdr h0) : h0 ≠ 0 := by
  intro h; subst h; rcases hh with h | h <;> simp [nalType] at h

theorem stripZeros_rbsp (h0 h1 : UInt8) (ms : List (Nat × Bytes)) :
    stripZeros (seiRbsp h0 h1 ms) = seiRbsp h0 h1 ms := by
  have : seiRbsp h0 h1 ms = (h0 :: h1 :: encMsgs ms) ++ [0x80] := by simp [seiRbsp]
  rw [this]
  simp [stripZeros]

theorem unescape_escape_rbsp (h0 h1 : UInt8) (ms : List (Nat × Bytes)) (hh : isSeiHdr h0) :
    Esc.unescape (Esc.escape (seiRbsp h0 h1 ms)) = seiRbsp h0 h1 ms := by
  have h0' := isSeiHdr_ne_zero h0 hh
  simp only [seiRbsp, Esc.escape, Esc.unescape]
  simp [Esc.esc, Esc.unesc, h0']
  exact Esc.unesc_esc 2 _ _ (by split <;> omega)

theorem messages_of_rbsp (d : Bytes) (h0 h1 : UInt8) (ms : List (Nat × Bytes))
    (hp : stripZeros (Esc.unescape d) = seiRbsp h0 h1 ms) (hh : isSeiHdr h0) (hne : ms ≠ [])
    (ht : ∀ m ∈ ms, m.1 ≤ 255) : messages d = some ms := by
  unfold messages
  simp only [hp]
  have hw : walk (seiRbsp h0 h1 ms) = some (layout 2 ms) := walk_enc h0 h1 ms [0x80] hh hne (by simp) ht
  rw [hw]
  simp only [Option.map_some]
  have := layout_msgBytes [h0, h1] ms [0x80]
  rw [← seiRbsp_eq] at this
  simpa using this

/-- the messages of a NAL the tool wrote for a message list -/
theorem messages_escape_rbsp (h0 h1 : UInt8) (ms : List (Nat × Bytes)) (hh : isSeiHdr h0) (hne : ms ≠ [])
    (ht : ∀ m ∈ ms, m.1 ≤ 255) : messages (Esc.escape (seiRbsp h0 h1 ms)) = some ms :=
  messages_of_rbsp _ h0 h1 ms (by rw [unescape_escape_rbsp _ _ _ hh, stripZeros_rbsp]) hh hne ht

end Dovi.Hevc.Sei
