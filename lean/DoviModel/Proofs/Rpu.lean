import DoviModel.Proofs.Header
/-!
# write → parse for the whole RPU (`write_rpu_data` then `DoviRpu::parse`)
-/
namespace Dovi

/-! ## bytes and bits -/

theorem bytesToBits_bitsToBytes : ∀ (n : Nat) (bs : Bits), bs.length = 8 * n → bytesToBits (bitsToBytes bs) = bs
  | 0, bs, h => by
    have : bs = [] := List.eq_nil_of_length_eq_zero (by omega)
    subst this; rfl
  | n+1, bs, h => by
    match bs, h with
    | b0 :: b1 :: b2 :: b3 :: b4 :: b5 :: b6 :: b7 :: rest, h =>
      have hr : rest.length = 8 * n := by simp only [List.length_cons] at h; omega
      have ih := bytesToBits_bitsToBytes n rest hr
      have hlt : ofBits [b0, b1, b2, b3, b4, b5, b6, b7] < 256 := by
        have := ofBits_lt [b0, b1, b2, b3, b4, b5, b6, b7]
        simpa using this
      have e : bytesToBits (UInt8.ofNat (ofBits [b0, b1, b2, b3, b4, b5, b6, b7]) :: bitsToBytes rest)
          = toBits 8 (UInt8.ofNat (ofBits [b0, b1, b2, b3, b4, b5, b6, b7])).toNat ++ bytesToBits (bitsToBytes rest) := by
        simp [bytesToBits]
      show bytesToBits (UInt8.ofNat (ofBits [b0, b1, b2, b3, b4, b5, b6, b7]) :: bitsToBytes rest) = _
      rw [e, ih]
      have hn : (UInt8.ofNat (ofBits [b0, b1, b2, b3, b4, b5, b6, b7])).toNat = ofBits [b0, b1, b2, b3, b4, b5, b6, b7] := by
        simp only [UInt8.toNat_ofNat']
        omega
      rw [hn]
      have := toBits_ofBits [b0, b1, b2, b3, b4, b5, b6, b7]
      simp only [List.length_cons, List.length_nil] at this
      rw [this]
      rfl

theorem bitsToBytes_length : ∀ (n : Nat) (bs : Bits), bs.length = 8 * n → (bitsToBytes bs).length = n
  | 0, bs, h => by
    have : bs = [] := List.eq_nil_of_length_eq_zero (by omega)
    subst this; rfl
  | n+1, bs, h => by
    match bs, h with
    | b0 :: b1 :: b2 :: b3 :: b4 :: b5 :: b6 :: b7 :: rest, h =>
      have hr : rest.length = 8 * n := by simp only [List.length_cons] at h; omega
      simp only [bitsToBytes, List.length_cons, bitsToBytes_length n rest hr]

theorem crcStep1_lt (c : Nat) : crcStep1 c < 2^32 := by
  unfold crcStep1
  split
  · exact Nat.xor_lt_two_pow (Nat.mod_lt _ (by decide)) (by decide)
  · exact Nat.mod_lt _ (by decide)

theorem crcByte_lt (c : Nat) (b : UInt8) : crcByte c b < 2^32 := by
  unfold crcByte; exact crcStep1_lt _

theorem crc32_lt (bs : Bytes) : crc32 bs < 2^32 := by
  unfold crc32
  have : ∀ (l : Bytes) (init : Nat), init < 2^32 → l.foldl crcByte init < 2^32 := by
    intro l
    induction l with
    | nil => intro init h; exact h
    | cons b l ih => intro init _; exact ih _ (crcByte_lt _ _)
  exact this bs _ (by decide)

theorem trailingZeroes_tail (xs : Bytes) (n : Nat) :
    trailingZeroes (xs ++ [0x80] ++ List.replicate n 0) = n := by
  unfold trailingZeroes
  simp only [List.reverse_append, List.reverse_replicate, List.reverse_cons, List.reverse_nil, List.nil_append,
    List.append_assoc, List.singleton_append]
  have : ∀ (k : Nat) (rest : Bytes), ((List.replicate k (0 : UInt8) ++ (0x80 : UInt8) :: rest).takeWhile (· == 0)).length = k := by
    intro k rest
    induction k with
    | zero => simp [List.takeWhile]
    | succ k ih => simp [List.replicate_succ, List.takeWhile, ih]
  exact this n _

end Dovi

namespace Dovi

/-! ## shape of an in-memory RPU -/

/-- shape of the DM payload of `r` (what the parser produces; `normal` says that every stored value is in the
wire-normal form of its field, i.e. re-reading the written field gives the stored value back — characterised by
`zip_decode_id`, `reparsedVals_eq`, `reparsedVals_l2`, `reparsedVals_l11`) -/
structure DmWf (r : Rpu) (d : DmData) : Prop where
  comp : (r.header.reserved_zero_3bits == 1) = d.compressed
  c29 : ∃ c, d.cmv29 = some c ∧ ContainerOk cmv29Levels cmv40Levels c
  c40 : ∀ c, d.cmv40 = some c → ContainerOk cmv40Levels cmv29Levels c ∧ c.blocks ≠ []
  /-- without CM v4.0 at most one byte may precede the CRC (otherwise the parser takes it for a CM v4.0
  container: finding F16) -/
  no40 : d.cmv40 = none → (r.remaining.getD []).length ≤ 8
  main : d.main.length = 32
  normal : d.reparsed = d

/-- shape of an in-memory RPU as the parser builds it -/
structure RpuWf (r : Rpu) : Prop where
  hdr : r.header.Wf = true
  pfx : r.header.rpu_nal_prefix = 25
  profile : r.dovi_profile = r.header.getDoviProfile
  elType : r.el_type = r.rpu_data_mapping.bind Mapping.elType
  mapping : if r.header.use_prev_vdr_rpu_flag = true then r.rpu_data_mapping = none
            else ∃ m, r.rpu_data_mapping = some m ∧ MappingWf r.header m = true
  dm : if r.header.vdr_dm_metadata_present_flag = true then ∃ d, r.vdr_dm_data = some d ∧ DmWf r d
       else r.vdr_dm_data = none
  remaining : ∀ rem, r.remaining = some rem → rem ≠ [] ∧ rem.length % 8 = 0

theorem Header.Wf_type {h : Header} (hw : h.Wf = true) : h.rpu_type = 2 := by
  simp only [Header.Wf, Bool.and_eq_true, beq_iff_eq] at hw
  exact hw.1.1

theorem alignPad_length (n : Nat) : (alignPad n).length = (8 - n % 8) % 8 := by
  simp [alignPad]

theorem alignPad_aligned (n : Nat) : (n + (alignPad n).length) % 8 = 0 := by
  rw [alignPad_length]; omega

/-- the pieces of `writeBody` -/
theorem writeBody_parts (r : Rpu) (body : Bits) (hwf : RpuWf r) (hb : writeBody r = .ok body) :
    ∃ hbits mbits dbits : Bits,
      writeHeader r.header = .ok hbits ∧
      (if r.header.use_prev_vdr_rpu_flag = true then mbits = []
       else ∃ m, r.rpu_data_mapping = some m ∧ writeMapping r.header m = .ok mbits) ∧
      (if r.header.vdr_dm_metadata_present_flag = true then
         ∃ d, r.vdr_dm_data = some d ∧ writeDmData (8 + hbits.length + mbits.length) d = .ok dbits
       else dbits = []) ∧
      body = toBits 8 25 ++ hbits ++ (mbits ++ dbits) := by
  unfold writeBody at hb
  cases ha : wcat [writeN 8 0x19, writeHeader r.header] with
  | error => rw [ha] at hb; simp [Res.bind] at hb
  | panic => rw [ha] at hb; simp [Res.bind] at hb
  | ok a =>
    rw [ha] at hb
    obtain ⟨p0, o0, h0, ha1, rfl⟩ := wcat_cons_ok ha
    have hh := wcat_singleton_ok ha1
    have hp0 : p0 = toBits 8 25 := by
      simp only [writeN] at h0
      split at h0
      · injection h0 with h0; exact h0.symm
      · cases h0
    subst hp0
    simp only [Res.bind, Header.Wf_type hwf.hdr, beq_self_eq_true, if_true] at hb
    have hm := hwf.mapping
    have hd := hwf.dm
    cases hup : r.header.use_prev_vdr_rpu_flag with
    | true =>
      simp only [hup, Bool.not_true, Bool.false_eq_true, if_false, if_true] at hb hm ⊢
      cases hdp : r.header.vdr_dm_metadata_present_flag with
      | false =>
        simp only [hdp, Bool.false_eq_true, if_false] at hb hd ⊢
        injection hb with hb
        exact ⟨o0, [], [], hh, rfl, rfl, by rw [← hb]⟩
      | true =>
        simp only [hdp, if_true] at hb hd ⊢
        obtain ⟨d, hdd, _⟩ := hd
        simp only [hdd] at hb
        cases hwd : writeDmData ((toBits 8 25 ++ o0).length + ([] : Bits).length) d with
        | error => rw [hwd] at hb; simp at hb
        | panic => rw [hwd] at hb; simp at hb
        | ok db =>
          rw [hwd] at hb
          injection hb with hb
          refine ⟨o0, [], db, hh, rfl, ⟨d, hdd, ?_⟩, by rw [← hb]⟩
          simpa [toBits_length] using hwd
    | false =>
      simp only [hup, Bool.not_false, if_true, Bool.false_eq_true, if_false] at hb hm ⊢
      obtain ⟨m, hmm, _⟩ := hm
      simp only [hmm] at hb
      cases hwm : writeMapping r.header m with
      | error => rw [hwm] at hb; simp at hb
      | panic => rw [hwm] at hb; simp at hb
      | ok mb =>
        rw [hwm] at hb
        cases hdp : r.header.vdr_dm_metadata_present_flag with
        | false =>
          simp only [hdp, Bool.false_eq_true, if_false] at hb hd ⊢
          injection hb with hb
          exact ⟨o0, mb, [], hh, ⟨m, hmm, hwm⟩, rfl, by rw [← hb]⟩
        | true =>
          simp only [hdp, if_true] at hb hd ⊢
          obtain ⟨d, hdd, _⟩ := hd
          simp only [hdd] at hb
          cases hwd : writeDmData ((toBits 8 25 ++ o0).length + mb.length) d with
          | error => rw [hwd] at hb; simp at hb
          | panic => rw [hwd] at hb; simp at hb
          | ok db =>
            rw [hwd] at hb
            injection hb with hb
            refine ⟨o0, mb, db, hh, ⟨m, hmm, hwm⟩, ⟨d, hdd, ?_⟩, by rw [← hb]⟩
            simpa [toBits_length] using hwd

end Dovi

namespace Dovi

theorem header_prefix_eta (h : Header) (hp : h.rpu_nal_prefix = 25) :
    ({ ({ h with rpu_nal_prefix := 0 } : Header) with rpu_nal_prefix := 25 } : Header) = h := by
  cases h; simp_all

theorem writeDmData_length_mod (pos : Nat) (d : DmData) (w : Bits) (hw : writeDmData pos d = .ok w) : True := trivial

/-- `read_rpu_data` on what `write_rpu_data` assembled (before the bytes are formed) -/
theorem readRpuData_written (r : Rpu) (body : Bits) (crc : Nat) (hwf : RpuWf r)
    (hval : r.header.validate r.dovi_profile = true) (hb : writeBody r = .ok body) (hcrc : crc < 2^32) :
    readRpuData (body ++ alignPad body.length ++ r.remaining.getD [] ++ toBits 32 crc ++ toBits 8 0x80) =
      .ok ({ r with rpu_data_crc32 := crc, modified := false, trailing_zeroes := 0 }, []) := by
  obtain ⟨hbits, mbits, dbits, hwh, hwm, hwd, rfl⟩ := writeBody_parts r body hwf hb
  have hremlen : (r.remaining.getD []).length % 8 = 0 := by
    cases hr : r.remaining with
    | none => rfl
    | some rem => exact (hwf.remaining rem hr).2
  generalize hpad : alignPad (toBits 8 25 ++ hbits ++ (mbits ++ dbits)).length = pad
  have hpadlen : ((toBits 8 25 ++ hbits ++ (mbits ++ dbits)).length + pad.length) % 8 = 0 := by
    rw [← hpad]; exact alignPad_aligned _
  unfold readRpuData
  simp only [List.append_assoc]
  rw [P.bind_of_ok (readN_toBits 8 25 _ (by decide))]
  have e25 : ∀ s : Bits, P.ensure (25 == 25) s = .ok ((), s) := fun _ => rfl
  rw [P.bind_of_ok (e25 _)]
  rw [P.bind_of_ok (parseHeader_writeHeader r.header hbits _ hwh hwf.hdr)]
  simp only [header_prefix_eta r.header hwf.pfx]
  rw [← hwf.profile, hval, P.bind_of_ok (P.ensure_true _)]
  -- mapping
  rw [P.bind_of_ok (a := r.rpu_data_mapping)
    (s' := dbits ++ (pad ++ (r.remaining.getD [] ++ (toBits 32 crc ++ toBits 8 128)))) ?hmap]
  case hmap =>
    have hm := hwf.mapping
    cases hup : r.header.use_prev_vdr_rpu_flag with
    | true =>
      simp only [hup, if_true, Bool.not_true, Bool.false_eq_true, if_false] at hwm hm ⊢
      subst hwm
      rw [hm]; rfl
    | false =>
      simp only [hup, Bool.false_eq_true, if_false, Bool.not_false, if_true] at hwm hm ⊢
      obtain ⟨m, hmm, hwmm⟩ := hwm
      obtain ⟨m', hmm', hmwf⟩ := hm
      rw [hmm] at hmm'
      injection hmm' with hmm'
      subst hmm'
      rw [P.bind_of_ok (parseMapping_writeMapping r.header m mbits _ hwmm hmwf), hmm]
      rfl
  -- DM data
  rw [P.bind_of_ok (a := r.vdr_dm_data)
    (s' := pad ++ (r.remaining.getD [] ++ (toBits 32 crc ++ toBits 8 128))) ?hdm]
  case hdm =>
    have hd := hwf.dm
    cases hdp : r.header.vdr_dm_metadata_present_flag with
    | false =>
      simp only [hdp, Bool.false_eq_true, if_false] at hwd hd ⊢
      subst hwd
      rw [hd]; rfl
    | true =>
      simp only [hdp, if_true] at hwd hd ⊢
      obtain ⟨d, hdd, hwdd⟩ := hwd
      obtain ⟨d', hdd', hdwf⟩ := hd
      rw [hdd] at hdd'
      injection hdd' with hdd'
      subst hdd'
      obtain ⟨c29, h29, hok29⟩ := hdwf.c29
      have hparse := parseDmData_writeDmData r.header (8 + hbits.length + mbits.length) d c29 dbits
        (pad ++ (r.remaining.getD [] ++ (toBits 32 crc ++ toBits 8 128))) hwdd hdwf.comp h29 hok29
        (by
          intro c40 h40
          obtain ⟨ha, hb'⟩ := hdwf.c40 c40 h40
          refine ⟨ha, hb', ?_⟩
          simp only [List.length_append, toBits_length]; omega)
        (by
          intro h40
          have := hdwf.no40 h40
          have hp : pad.length < 8 := by rw [← hpad, alignPad_length]; omega
          simp only [List.length_append, toBits_length]; omega)
        hdwf.main
        (by
          simp only [List.length_append, toBits_length] at hpadlen ⊢
          omega)
      rw [P.bind_of_ok hparse, hdwf.normal, hdd]
      rfl
  -- alignment, data before the CRC, CRC, terminator
  obtain ⟨k, hk8, rfl⟩ : ∃ k, k < 8 ∧ pad = List.replicate k false := by
    refine ⟨(8 - (toBits 8 25 ++ hbits ++ (mbits ++ dbits)).length % 8) % 8, by omega, ?_⟩
    rw [← hpad]; rfl
  rw [P.bind_of_ok (readAlignZero_pad k _ hk8 (Or.inr trivial) (by
    simp only [List.length_append, List.length_replicate, toBits_length]; omega))]
  rw [P.bind_of_ok (P.available_apply _)]
  have h8 := readN_toBits 8 128 [] (by decide)
  rw [List.append_nil] at h8
  cases hr : r.remaining with
  | none =>
    simp only [Option.getD, List.nil_append, List.length_append, toBits_length]
    rw [if_neg (by omega), pure_bind_P, P.bind_of_ok (readN_toBits 32 crc _ hcrc), P.bind_of_ok h8]
    rw [hwf.elType]
    rfl
  | some rem =>
    obtain ⟨hne, _⟩ := hwf.remaining rem hr
    have hpos : 0 < rem.length := List.length_pos_iff.mpr hne
    simp only [Option.getD, List.length_append, toBits_length]
    rw [if_pos (by omega)]
    have hrb : readBits (rem.length + (32 + 8) - 40) (rem ++ (toBits 32 crc ++ toBits 8 128)) =
        .ok (rem, toBits 32 crc ++ toBits 8 128) := by
      have e : rem.length + (32 + 8) - 40 = rem.length := by omega
      rw [e]
      unfold readBits
      rw [if_pos ((hasAtLeast_iff _ _).mpr (by simp))]
      simp
    simp only [P.bind_assoc]
    rw [P.bind_of_ok hrb, pure_bind_P, P.bind_of_ok (readN_toBits 32 crc _ hcrc), P.bind_of_ok h8]
    rw [hwf.elType]
    rfl

end Dovi

namespace Dovi

theorem alignPad_of_aligned (n : Nat) (h : n % 8 = 0) : alignPad n = [] := by
  simp [alignPad, h]

theorem writeBody_length_ge (r : Rpu) (body : Bits) (hwf : RpuWf r) (hb : writeBody r = .ok body) :
    8 ≤ body.length := by
  obtain ⟨hbits, mbits, dbits, _, _, _, rfl⟩ := writeBody_parts r body hwf hb
  simp only [List.length_append, toBits_length]; omega

/-- **write → parse for the whole RPU**: whatever `write_rpu_data` emits for an RPU of the shape the parser
builds (`RpuWf`) is accepted by `DoviRpu::parse` and decodes to exactly the RPU that was written — every header,
mapping, NLQ and DM field, every extension block, the data before the CRC and the trailing zero bytes — with
the CRC-32 that the parser recomputes over the payload (for an unmodified RPU: the stored one). -/
theorem parseRpu_writeRpu (r : Rpu) (bytes : Bytes) (hw : writeRpu r = .ok bytes) (hwf : RpuWf r) :
    ∃ crc, parseRpu bytes = .ok { r with rpu_data_crc32 := crc, modified := false } ∧
      (r.modified = false → crc = r.rpu_data_crc32) := by
  unfold writeRpu at hw
  cases hv : r.validate with
  | false => simp [hv] at hw
  | true =>
    simp only [hv, Bool.not_true, Bool.false_eq_true, if_false] at hw
    cases hb : writeBody r with
    | error => simp [hb, Res.bind] at hw
    | panic => simp [hb, Res.bind] at hw
    | ok body =>
      simp only [hb, Res.bind] at hw
      have hremlen : (r.remaining.getD []).length % 8 = 0 := by
        cases hr : r.remaining with
        | none => rfl
        | some rem => exact (hwf.remaining rem hr).2
      have hal1 : (body ++ alignPad body.length ++ r.remaining.getD []).length % 8 = 0 := by
        have := alignPad_aligned body.length
        simp only [List.length_append] at this ⊢
        omega
      rw [alignPad_of_aligned _ hal1, List.append_nil] at hw
      generalize hA : body ++ alignPad body.length ++ r.remaining.getD [] = A at hw hal1
      obtain ⟨n, hn⟩ : ∃ n, A.length = 8 * n := ⟨A.length / 8, by omega⟩
      have hn1 : 1 ≤ n := by
        have := writeBody_length_ge r body hwf hb
        rw [← hA] at hn
        simp only [List.length_append] at hn
        omega
      generalize hM : bitsToBytes A = M at hw
      have hMlen : M.length = n := by rw [← hM]; exact bitsToBytes_length n A hn
      have hMbits : bytesToBits M = A := by rw [← hM]; exact bytesToBits_bitsToBytes n A hn
      generalize hcrc : crc32 (M.drop 1) = crc at hw
      have hcrclt : crc < 2^32 := by rw [← hcrc]; exact crc32_lt _
      generalize hC : bitsToBytes (toBits 32 crc) = C at hw
      have hClen : C.length = 4 := by
        rw [← hC]; exact bitsToBytes_length 4 _ (by rw [toBits_length])
      have hCbits : bytesToBits C = toBits 32 crc := by
        rw [← hC]; exact bytesToBits_bitsToBytes 4 _ (by rw [toBits_length])
      refine ⟨crc, ?_, ?_⟩
      · -- the parse
        have hbytes : bytes = (M ++ C) ++ [0x80] ++ List.replicate r.trailing_zeroes 0 := by
          split at hw
          · cases hw
          · injection hw with hw; rw [← hw]
        subst hbytes
        unfold parseRpu
        simp only [trailingZeroes_tail]
        have hlen : ((M ++ C) ++ [0x80] ++ List.replicate r.trailing_zeroes (0 : UInt8)).length - r.trailing_zeroes = n + 5 := by
          simp only [List.length_append, List.length_replicate, List.length_cons, List.length_nil, hMlen, hClen]
          omega
        rw [hlen]
        have htake : ((M ++ C) ++ [0x80] ++ List.replicate r.trailing_zeroes (0 : UInt8)).take (n + 5) = M ++ C ++ [0x80] := by
          rw [List.take_left']
          simp only [List.length_append, List.length_cons, List.length_nil, hMlen, hClen]
        simp only [htake]
        rw [if_neg (by omega)]
        have hlast : ((M ++ C ++ [0x80]).getLast?.getD 0 != 0x80) = false := by simp
        simp only [hlast, Bool.false_eq_true, if_false]
        have hdrop : ((M ++ C ++ [0x80]).drop 1).take (n + 5 - 6) = M.drop 1 := by
          have e1 : (M ++ C ++ [0x80]).drop 1 = M.drop 1 ++ (C ++ [0x80]) := by
            rw [List.append_assoc, List.drop_append_of_le_length (by omega)]
          rw [e1, List.take_left']
          simp only [List.length_drop, hMlen]; omega
        rw [hdrop, hcrc]
        have hbits : bytesToBits (M ++ C ++ [0x80]) =
            body ++ alignPad body.length ++ r.remaining.getD [] ++ toBits 32 crc ++ toBits 8 0x80 := by
          rw [bytesToBits_append, bytesToBits_append, hMbits, hCbits, hA]
          rfl
        rw [hbits]
        have hhv : r.header.validate r.dovi_profile = true := by
          simp only [Rpu.validate, Bool.and_eq_true] at hv
          exact hv.1.1
        rw [readRpuData_written r body crc hwf hhv hb hcrclt]
        simp only [bne_self_eq_false, Bool.false_eq_true, if_false]
        have hv' : ({ ({ r with rpu_data_crc32 := crc, modified := false, trailing_zeroes := 0 } : Rpu) with
            trailing_zeroes := r.trailing_zeroes } : Rpu).validate = true := by
          rw [← hv]; rfl
        rw [if_pos hv']
      · intro hmod
        split at hw
        · cases hw
        · rename_i hc
          simp only [hmod, Bool.not_false, Bool.true_and, bne_iff_ne, ne_eq, Decidable.not_not] at hc
          exact hc.symm

end Dovi

namespace Dovi

/-! ## executable versions of the shape predicates (evaluated by the driver on real parse results) -/

def BlockFitsB (allowed other : List Nat) (b : Block) : Bool :=
  allowed.contains b.level && !other.contains b.level && b.level != 0 &&
  (match blockWriteLayout b.level b.length with
   | some ws => decide (ws.length ≤ (blockWriteVals b).length)
   | none => true)

theorem BlockFits_of_B (allowed other : List Nat) (b : Block) (h : BlockFitsB allowed other b = true) :
    BlockFits allowed other b := by
  simp only [BlockFitsB, Bool.and_eq_true, Bool.not_eq_true', bne_iff_ne, ne_eq] at h
  obtain ⟨⟨⟨h1, h2⟩, h3⟩, h4⟩ := h
  refine ⟨h1, h2, h3, ?_⟩
  intro ws hws
  rw [hws] at h4
  simpa using h4

def ContainerOkB (allowed other : List Nat) (c : Container) : Bool :=
  c.num_ext_blocks == c.blocks.length && c.blocks.all (BlockFitsB allowed other)

theorem ContainerOk_of_B (allowed other : List Nat) (c : Container) (h : ContainerOkB allowed other c = true) :
    ContainerOk allowed other c := by
  simp only [ContainerOkB, Bool.and_eq_true, beq_iff_eq, List.all_eq_true] at h
  exact ⟨h.1, fun b hb => BlockFits_of_B _ _ _ (h.2 b hb)⟩

def DmWfB (r : Rpu) (d : DmData) : Bool :=
  ((r.header.reserved_zero_3bits == 1) == d.compressed) &&
  (match d.cmv29 with | some c => ContainerOkB cmv29Levels cmv40Levels c | none => false) &&
  (match d.cmv40 with
   | some c => ContainerOkB cmv40Levels cmv29Levels c && !c.blocks.isEmpty
   | none => decide ((r.remaining.getD []).length ≤ 8)) &&
  d.main.length == 32 && decide (d.reparsed = d)

theorem DmWf_of_B (r : Rpu) (d : DmData) (h : DmWfB r d = true) : DmWf r d := by
  simp only [DmWfB, Bool.and_eq_true, beq_iff_eq, decide_eq_true_eq] at h
  obtain ⟨⟨⟨⟨h1, h2⟩, h3⟩, h4⟩, h5⟩ := h
  refine ⟨h1, ?_, ?_, ?_, h4, h5⟩
  · cases hc : d.cmv29 with
    | none => simp [hc] at h2
    | some c => rw [hc] at h2; exact ⟨c, rfl, ContainerOk_of_B _ _ _ h2⟩
  · intro c hc
    rw [hc] at h3
    simp only [Bool.and_eq_true, Bool.not_eq_true', List.isEmpty_eq_false_iff] at h3
    exact ⟨ContainerOk_of_B _ _ _ h3.1, h3.2⟩
  · intro hc
    rw [hc] at h3
    simpa using h3

def RpuWfB (r : Rpu) : Bool :=
  r.header.Wf && r.header.rpu_nal_prefix == 25 && r.dovi_profile == r.header.getDoviProfile &&
  decide (r.el_type = r.rpu_data_mapping.bind Mapping.elType) &&
  (if r.header.use_prev_vdr_rpu_flag then r.rpu_data_mapping.isNone
   else match r.rpu_data_mapping with | some m => MappingWf r.header m | none => false) &&
  (if r.header.vdr_dm_metadata_present_flag then
     match r.vdr_dm_data with | some d => DmWfB r d | none => false
   else r.vdr_dm_data.isNone) &&
  (match r.remaining with | some rem => !rem.isEmpty && rem.length % 8 == 0 | none => true)

theorem RpuWf_of_B (r : Rpu) (h : RpuWfB r = true) : RpuWf r := by
  simp only [RpuWfB, Bool.and_eq_true, beq_iff_eq, decide_eq_true_eq] at h
  obtain ⟨⟨⟨⟨⟨⟨h1, h2⟩, h3⟩, h4⟩, h5⟩, h6⟩, h7⟩ := h
  refine ⟨h1, h2, h3, h4, ?_, ?_, ?_⟩
  · cases hu : r.header.use_prev_vdr_rpu_flag with
    | true => simp only [hu, if_true, Option.isNone_iff_eq_none] at h5 ⊢; exact h5
    | false =>
      simp only [hu, Bool.false_eq_true, if_false] at h5 ⊢
      cases hm : r.rpu_data_mapping with
      | none => simp [hm] at h5
      | some m => rw [hm] at h5; exact ⟨m, rfl, h5⟩
  · cases hu : r.header.vdr_dm_metadata_present_flag with
    | false => simp only [hu, Bool.false_eq_true, if_false, Option.isNone_iff_eq_none] at h6 ⊢; exact h6
    | true =>
      simp only [hu, if_true] at h6 ⊢
      cases hd : r.vdr_dm_data with
      | none => simp [hd] at h6
      | some d => rw [hd] at h6; exact ⟨d, rfl, DmWf_of_B r d h6⟩
  · intro rem hr
    rw [hr] at h7
    simp only [Bool.and_eq_true, Bool.not_eq_true', List.isEmpty_eq_false_iff, beq_iff_eq] at h7
    exact h7

/-- the executable form of the main theorem's hypothesis: whenever the decidable shape check passes and the
write succeeds, the written bytes parse back to the RPU -/
theorem parseRpu_writeRpu_dec (r : Rpu) (bytes : Bytes) (hw : writeRpu r = .ok bytes) (hwf : RpuWfB r = true) :
    ∃ crc, parseRpu bytes = .ok { r with rpu_data_crc32 := crc, modified := false } ∧
      (r.modified = false → crc = r.rpu_data_crc32) :=
  parseRpu_writeRpu r bytes hw (RpuWf_of_B r hwf)

end Dovi
