import DoviModel.Model.GenSources
import DoviModel.Proofs.GenerateEntryProof
/-!
# Helper lemmas for C10 — the HDR10+ / madVR source paths (`Model/GenSources.lean`)
-/
namespace Dovi.GenSourcesProof
open Dovi Dovi.Gen Dovi.EditGenProof.Gen Dovi.GenerateEntryProof

/-! ## small list facts -/

theorem find?_congr' {α} (p q : α → Bool) (l : List α) (h : ∀ a ∈ l, p a = q a) : l.find? p = l.find? q := by
  induction l with
  | nil => rfl
  | cons a t ih =>
    simp only [List.find?_cons]
    rw [h a (List.mem_cons_self), ih (fun b hb => h b (List.mem_cons_of_mem _ hb))]

theorem all_congr' {α} (p q : α → Bool) (l : List α) (h : ∀ a ∈ l, p a = q a) : l.all p = l.all q := by
  induction l with
  | nil => rfl
  | cons a t ih =>
    simp only [List.all_cons]
    rw [h a (List.mem_cons_self), ih (fun b hb => h b (List.mem_cons_of_mem _ hb))]

/-! ## `generateFrom` and `generate` -/

/-- the tail of `execute` that the source paths take is `generate` whenever `generate`'s own length defaulting does not
fire, i.e. unless the config has `length = 0` together with shots -/
theorem generateFrom_eq_generate (c : Config) (po : Option Profile) (lo : Option Bool)
    (h : c.length = 0 → c.shots.isEmpty = true) : generateFrom c po lo = generate c po lo := by
  have hc : (if (c.length == 0 && !c.shots.isEmpty) = true then
      { c with length := (c.shots.map (·.duration)).foldl (· + ·) 0 } else c) = c := by
    by_cases hl : c.length = 0
    · have hs := h hl
      simp [hs]
    · simp [hl]
  unfold generate
  simp only [hc]
  rfl

/-! ## `clampL1` -/

theorem clampL1_idem (cm : Bool) (b : Block) : clampL1 cm (clampL1 cm b) = clampL1 cm b := by
  unfold clampL1
  by_cases h : b.level = 1
  · simp only [h, beq_self_eq_true, if_true, List.getD_cons_zero, List.getD_cons_succ]
    congr 1
    cases cm <;> simp <;> omega
  · simp [h]

theorem l1Block_level (cm : Bool) (a b : Nat) : (l1Block cm a b).level = 1 := by
  unfold l1Block; rw [clampL1_level]

theorem clamp_l1Block (cm : Bool) (a b : Nat) : clampL1 cm (l1Block cm a b) = l1Block cm a b := by
  unfold l1Block; exact clampL1_idem cm _

theorem clampL1_ne (cm : Bool) (b : Block) (h : b.level ≠ 1) : clampL1 cm b = b := by
  simp [clampL1, h]

/-- the values of a source L1 block: min 0, the clamped max, the clamped average -/
theorem l1Block_vals (cm : Bool) (mx av : Nat) :
    (l1Block cm mx av).vals =
      [0, min (max (mx : Int) 2081) 4095,
       min (max (av : Int) (if cm then 1229 else 819)) (min (max (mx : Int) 2081) 4095 - 1)] := by
  unfold l1Block clampL1
  simp only [beq_self_eq_true, if_true, List.getD_cons_zero, List.getD_cons_succ]
  have : min (0 : Int) 12 = 0 := by decide
  simp [this]

/-! ## `sameKey` against blocks of another level -/

theorem sameKey_clamp_right (cm : Bool) (x b : Block) (hx : x.level ≠ 1) :
    sameKey x (clampL1 cm b) = sameKey x b := by
  by_cases hb : b.level = 1
  · have h1 : sameKey x (clampL1 cm b) = false := by
      simp only [sameKey, clampL1_level, hb, Bool.and_eq_false_imp, beq_iff_eq]
      intro h; exact absurd h hx
    have h2 : sameKey x b = false := by
      simp only [sameKey, hb, Bool.and_eq_false_imp, beq_iff_eq]
      intro h; exact absurd h hx
    rw [h1, h2]
  · rw [clampL1_ne cm b hb]

theorem sameKey_clamp_left (cm : Bool) (x b : Block) (hx : x.level ≠ 1) :
    sameKey (clampL1 cm b) x = sameKey b x := by
  rw [sameKey_symm, sameKey_clamp_right cm x b hx, sameKey_symm]

theorem sameKey_l1_right (x b : Block) (hx : x.level ≠ 1) (hb : b.level = 1) : sameKey x b = false := by
  simp only [sameKey, hb, Bool.and_eq_false_imp, beq_iff_eq]
  intro h; exact absurd h hx

/-- `x` (not L1) is found in the clamped list exactly where it is found in the list -/
theorem find_map_clamp (cm : Bool) (x : Block) (hx : x.level ≠ 1) (l : List Block) :
    (l.map (clampL1 cm)).find? (sameKey x) = l.find? (sameKey x) := by
  induction l with
  | nil => rfl
  | cons b t ih =>
    simp only [List.map_cons, List.find?_cons, sameKey_clamp_right cm x b hx, ih]
    cases hs : sameKey x b with
    | false => rfl
    | true =>
      have : b.level ≠ 1 := by rw [← sameKey_level hs]; exact hx
      simp [clampL1_ne cm b this]

theorem all_map_clamp (cm : Bool) (x : Block) (hx : x.level ≠ 1) (l : List Block) :
    (l.map (clampL1 cm)).all (fun b => !sameKey b x) = l.all (fun b => !sameKey b x) := by
  rw [List.all_map]
  exact all_congr' _ _ l (fun b _ => by simp [sameKey_clamp_left cm x b hx])

/-- the not-L1 filter (`copy_metadata_from_shot(.., Some(&[1]))`) is invisible to a block of another level -/
theorem keep1 (b : Block) : keepBlock (some [1]) b = (b.level != 1) := by
  by_cases h : b.level = 1 <;> simp [keepBlock, h]

theorem find_filter_keep (x : Block) (hx : x.level ≠ 1) (l : List Block) :
    (l.filter (keepBlock (some [1]))).find? (sameKey x) = l.find? (sameKey x) := by
  rw [List.find?_filter]
  refine find?_congr' _ _ l (fun b _ => ?_)
  cases hs : sameKey x b with
  | false => simp
  | true =>
    have : b.level ≠ 1 := by rw [← sameKey_level hs]; exact hx
    simp [keep1, this]

theorem all_filter_keep (x : Block) (hx : x.level ≠ 1) (l : List Block) :
    (l.filter (keepBlock (some [1]))).all (fun b => !sameKey b x) = l.all (fun b => !sameKey b x) := by
  rw [List.all_filter]
  refine all_congr' _ _ l (fun b _ => ?_)
  by_cases hb : b.level = 1
  · have : sameKey b x = false := by rw [sameKey_symm]; exact sameKey_l1_right x b hx hb
    simp [this]
  · simp [keep1, hb]

theorem filter_keep_level (l : List Block) : ∀ b ∈ l.filter (keepBlock (some [1])), b.level ≠ 1 := by
  intro b hb
  have := (List.mem_filter.1 hb).2
  simpa [keep1] using this

/-! ## `editBlocks` of a merged / clamped shot -/

theorem editBlocks_clampShot (cm : Bool) (s : Shot) (i : Nat) :
    editBlocks (clampShot cm s) i = (editBlocks s i).map (clampL1 cm) := by
  unfold editBlocks clampShot
  simp only [List.find?_map]
  have : ((fun (e : FrameEdit) => e.offset == i) ∘ fun (e : FrameEdit) => ({ e with blocks := e.blocks.map (clampL1 cm) } : FrameEdit))
      = fun (e : FrameEdit) => e.offset == i := rfl
  rw [this]
  cases s.edits.find? (fun (e : FrameEdit) => e.offset == i) <;> rfl

/-- **`copy_metadata_from_shot`, per offset**: the blocks that apply at offset `i` of the merged shot are those of the
shot's own (first) edit at `i` followed by the kept blocks of `other`'s first edit at `i`; an offset without an own edit
gets the kept blocks of `other`'s first edit at `i` -/
theorem mergeEdit_offset (other : Shot) (excl : Option (List Nat)) (e : FrameEdit) :
    (mergeEdit other excl e).offset = e.offset := by
  unfold mergeEdit; split <;> rfl

theorem editBlocks_copy (self other : Shot) (excl : Option (List Nat)) (i : Nat) :
    editBlocks (copyMetadataFromShot self other excl) i =
      editBlocks self i ++ (editBlocks other i).filter (keepBlock excl) := by
  unfold editBlocks copyMetadataFromShot
  simp only [List.find?_append, List.find?_map]
  have hcomp : ((fun (e : FrameEdit) => e.offset == i) ∘ mergeEdit other excl) = fun (e : FrameEdit) => e.offset == i := by
    funext e
    simp only [Function.comp, mergeEdit_offset]
  have hcomp2 : ((fun (e : FrameEdit) => e.offset == i) ∘ keepEdit excl) = fun (e : FrameEdit) => e.offset == i := rfl
  rw [hcomp, hcomp2]
  cases hs : self.edits.find? (fun (e : FrameEdit) => e.offset == i) with
  | some e =>
    have he : e.offset = i := by simpa using List.find?_some hs
    simp only [Option.map_some, Option.some_or]
    unfold mergeEdit
    rw [he]
    cases other.edits.find? (fun (o : FrameEdit) => o.offset == i) <;> simp
  | none =>
    simp only [Option.map_none, Option.none_or, List.nil_append]
    rw [List.find?_filter]
    have hnone := List.find?_eq_none.1 hs
    have hfind : other.edits.find? (fun (a : FrameEdit) =>
          decide ((!((self.edits.map (mergeEdit other excl)).map (·.offset)).contains a.offset) = true ∧ (a.offset == i) = true))
        = other.edits.find? (fun (a : FrameEdit) => a.offset == i) := by
      refine find?_congr' _ _ _ (fun a _ => ?_)
      by_cases ha : a.offset = i
      · subst ha
        have : ((self.edits.map (mergeEdit other excl)).map (·.offset)).contains a.offset = false := by
          rw [List.contains_eq_mem, decide_eq_false_iff_not]
          intro hm
          simp only [List.map_map, List.mem_map, Function.comp, mergeEdit_offset] at hm
          obtain ⟨e, he, heq⟩ := hm
          exact hnone e he (by simp [heq])
        rw [this]; simp
      · simp [ha]
    rw [hfind]
    cases other.edits.find? (fun (o : FrameEdit) => o.offset == i) <;> rfl

theorem copy_blocks (self other : Shot) (excl : Option (List Nat)) :
    (copyMetadataFromShot self other excl).blocks = self.blocks ++ other.blocks.filter (keepBlock excl) := rfl

theorem copy_duration (self other : Shot) (excl : Option (List Nat)) :
    (copyMetadataFromShot self other excl).duration = self.duration := rfl

theorem copy_start (self other : Shot) (excl : Option (List Nat)) :
    (copyMetadataFromShot self other excl).start = self.start := rfl

/-- the config's blocks for scene `k` that survive the merge: those of its shot `k` that are not L1 (none when the
config has fewer shots) -/
def cfgBlocks (cfgShots : List Shot) (k : Nat) : List Block :=
  match cfgShots[k]? with
  | some o => o.blocks.filter (keepBlock (some [1]))
  | none => []

/-- … and of its first frame edit at offset `i` -/
def cfgEditBlocks (cfgShots : List Shot) (k i : Nat) : List Block :=
  match cfgShots[k]? with
  | some o => (editBlocks o i).filter (keepBlock (some [1]))
  | none => []

theorem mergeShot_blocks (cs : List Shot) (k : Nat) (s : Shot) :
    (mergeShot cs k s).blocks = s.blocks ++ cfgBlocks cs k := by
  unfold mergeShot cfgBlocks
  cases cs[k]? <;> simp [copy_blocks]

theorem mergeShot_duration (cs : List Shot) (k : Nat) (s : Shot) : (mergeShot cs k s).duration = s.duration := by
  unfold mergeShot; cases cs[k]? <;> rfl

theorem mergeShot_start (cs : List Shot) (k : Nat) (s : Shot) : (mergeShot cs k s).start = s.start := by
  unfold mergeShot; cases cs[k]? <;> rfl

theorem mergeShot_editBlocks (cs : List Shot) (k : Nat) (s : Shot) (i : Nat) :
    editBlocks (mergeShot cs k s) i = editBlocks s i ++ cfgEditBlocks cs k i := by
  unfold mergeShot cfgEditBlocks
  cases cs[k]? with
  | none => simp
  | some o => exact editBlocks_copy s o _ i

theorem map_clamp_keep (cm : Bool) (l : List Block) :
    (l.filter (keepBlock (some [1]))).map (clampL1 cm) = l.filter (keepBlock (some [1])) := by
  have : ∀ b ∈ l.filter (keepBlock (some [1])), clampL1 cm b = id b := fun b hb =>
    clampL1_ne cm b (filter_keep_level l b hb)
  rw [List.map_congr_left this, List.map_id]

theorem cfgBlocks_level (cs : List Shot) (k : Nat) : ∀ b ∈ cfgBlocks cs k, b.level ≠ 1 := by
  unfold cfgBlocks
  cases cs[k]? with
  | none => simp
  | some o => exact filter_keep_level _

theorem cfgEditBlocks_level (cs : List Shot) (k i : Nat) : ∀ b ∈ cfgEditBlocks cs k i, b.level ≠ 1 := by
  unfold cfgEditBlocks
  cases cs[k]? with
  | none => simp
  | some o => exact filter_keep_level _

theorem cfgBlocks_clamp (cm : Bool) (cs : List Shot) (k : Nat) : (cfgBlocks cs k).map (clampL1 cm) = cfgBlocks cs k := by
  unfold cfgBlocks
  cases cs[k]? with
  | none => rfl
  | some o => exact map_clamp_keep cm _

theorem cfgEditBlocks_clamp (cm : Bool) (cs : List Shot) (k i : Nat) :
    (cfgEditBlocks cs k i).map (clampL1 cm) = cfgEditBlocks cs k i := by
  unfold cfgEditBlocks
  cases cs[k]? with
  | none => rfl
  | some o => exact map_clamp_keep cm _

theorem cfgBlocks_beyond (cs : List Shot) (k : Nat) (h : cs.length ≤ k) : cfgBlocks cs k = [] := by
  unfold cfgBlocks; rw [List.getElem?_eq_none h]

theorem cfgEditBlocks_beyond (cs : List Shot) (k i : Nat) (h : cs.length ≤ k) : cfgEditBlocks cs k i = [] := by
  unfold cfgEditBlocks; rw [List.getElem?_eq_none h]

/-! ## blocks of level 1 in front of blocks of other levels -/

theorem find_last_l1 (b : Block) (hb : b.level = 1) (rest : List Block) (hr : ∀ y ∈ rest, y.level ≠ 1) :
    (b :: rest).reverse.find? (sameKey b) = some b := by
  rw [List.reverse_cons, List.find?_append]
  have : rest.reverse.find? (sameKey b) = none := by
    rw [List.find?_eq_none]
    intro y hy hs
    exact hr y (List.mem_reverse.1 hy) (by rw [← sameKey_level hs]; exact hb)
  rw [this]
  simp [sameKey_refl]

theorem all_not_l1 (b : Block) (hb : b.level = 1) (rest : List Block) (hr : ∀ y ∈ rest, y.level ≠ 1) :
    rest.all (fun y => !sameKey y b) = true := by
  rw [List.all_eq_true]
  intro y hy
  have : sameKey y b = false := sameKey_l1_right y b (hr y hy) hb
  simp [this]

theorem find_skip_l1 (x : Block) (hx : x.level ≠ 1) (b : Block) (hb : b.level = 1) (rest : List Block) :
    (b :: rest).reverse.find? (sameKey x) = rest.reverse.find? (sameKey x) := by
  rw [List.reverse_cons, List.find?_append]
  cases rest.reverse.find? (sameKey x) with
  | some y => rfl
  | none => simp [sameKey_l1_right x b hx hb]

theorem all_skip_l1 (x : Block) (hx : x.level ≠ 1) (b : Block) (hb : b.level = 1) (rest : List Block) :
    (b :: rest).all (fun y => !sameKey y x) = rest.all (fun y => !sameKey y x) := by
  have : sameKey b x = false := by rw [sameKey_symm]; exact sameKey_l1_right x b hx hb
  simp [this]

/-! ## madVR -/

theorem find?_range_eq (n i : Nat) : (List.range n).find? (fun j => j == i) = if i < n then some i else none := by
  induction n with
  | zero => simp
  | succ n ih =>
    rw [List.range_succ, List.find?_append, ih]
    by_cases h : i < n
    · simp [h, Nat.lt_succ_of_lt h]
    · by_cases h2 : i = n
      · subst h2; simp
      · have : ¬ i < n + 1 := by omega
        have h3 : (n == i) = false := by simp; omega
        simp [h, this, h3]

/-- the per-frame L1 of `--use-custom-targets` for frame `i` of scene `s` (none when custom targets are off, or
beyond the scene) -/
def customL1 (cm : Bool) (customOn : Bool) (targets : List Nat) (s : MadvrScene) (i : Nat) : Option Block :=
  if customOn = true ∧ i < s.length then some (l1Block cm (targets.getD (s.start + i) 0) s.avgCode) else none

theorem editBlocks_sceneShot (cm : Bool) (on : Bool) (targets : List Nat) (s : MadvrScene) (i : Nat) :
    editBlocks (madvrSceneShot cm on targets s) i = (customL1 cm on targets s i).toList := by
  unfold editBlocks madvrSceneShot customL1
  cases on with
  | false => simp
  | true =>
    simp only [if_true, List.find?_map, true_and]
    have : ((fun (e : FrameEdit) => e.offset == i) ∘ fun j =>
        ({ offset := j, blocks := [l1Block cm (targets.getD (s.start + j) 0) s.avgCode] } : FrameEdit)) = fun j => j == i := rfl
    rw [this, find?_range_eq]
    by_cases h : i < s.length <;> simp [h]

/-- the shots `generate_metadata_from_madvr` puts into the config -/
def madvrShots (c : Config) (src : MadvrSource) (custom : Bool) : List Shot :=
  (List.range src.scenes.length).map fun i =>
    mergeShot c.shots i (madvrSceneShot (clampMode c) (custom && src.flags == 3) src.targets (src.scenes.getD i default))

/-- the config after `generate_metadata_from_madvr` -/
def madvrResult (c : Config) (src : MadvrSource) (custom : Bool) : Config :=
  { c with shots := madvrShots c src custom, level6 := c.level6.map (fillL6 src.maxcll src.maxfall),
           length := src.frameCount }

/-- no scene makes the reader's `u32` arithmetic wrap -/
def ScenesDefined (src : MadvrSource) : Prop := ∀ s ∈ src.scenes, s.endRaw ≠ 0 ∧ s.start ≤ s.endRaw - 1

/-- every scene ends inside the frames -/
def ScenesInRange (src : MadvrSource) : Prop := ∀ s ∈ src.scenes, s.endRaw - 1 < src.frameCount

theorem madvrConfig_cases (c : Config) (src : MadvrSource) (custom : Bool) :
    (madvrConfig c src custom = .panic ∧ ¬ ScenesDefined src) ∨
    (madvrConfig c src custom = .error ∧ ScenesDefined src ∧ ¬ ScenesInRange src) ∨
    (madvrConfig c src custom = .ok (madvrResult c src custom) ∧ ScenesDefined src ∧ ScenesInRange src) := by
  unfold madvrConfig
  by_cases h1 : src.scenes.any (fun s => s.endRaw == 0 || decide (s.endRaw - 1 < s.start)) = true
  · left
    rw [if_pos h1]
    refine ⟨rfl, ?_⟩
    intro hd
    rw [List.any_eq_true] at h1
    obtain ⟨s, hs, hb⟩ := h1
    have := hd s hs
    simp only [Bool.or_eq_true, beq_iff_eq, decide_eq_true_eq] at hb
    omega
  · right
    rw [if_neg h1]
    have hd : ScenesDefined src := by
      intro s hs
      have : ¬ ((s.endRaw == 0 || decide (s.endRaw - 1 < s.start)) = true) := fun hb =>
        h1 (List.any_eq_true.2 ⟨s, hs, hb⟩)
      simp only [Bool.or_eq_true, beq_iff_eq, decide_eq_true_eq, not_or] at this
      omega
    by_cases h2 : src.scenes.all (fun s => decide (s.endRaw - 1 < src.frameCount)) = true
    · right
      simp only [h2, Bool.not_true, Bool.false_eq_true, if_false]
      refine ⟨rfl, hd, ?_⟩
      intro s hs
      have := List.all_eq_true.1 h2 s hs
      simpa using this
    · left
      have h2' : src.scenes.all (fun s => decide (s.endRaw - 1 < src.frameCount)) = false := by
        simpa using h2
      simp only [h2', Bool.not_false, if_true]
      refine ⟨trivial, hd, ?_⟩
      intro hr
      apply h2
      rw [List.all_eq_true]
      intro s hs
      simpa using hr s hs

theorem madvrShots_length (c : Config) (src : MadvrSource) (custom : Bool) :
    (madvrShots c src custom).length = src.scenes.length := by
  simp [madvrShots]

theorem madvrShots_getElem (c : Config) (src : MadvrSource) (custom : Bool) (k : Nat) (hk : k < src.scenes.length) :
    (madvrShots c src custom)[k]'(by rw [madvrShots_length]; exact hk) =
      mergeShot c.shots k (madvrSceneShot (clampMode c) (custom && src.flags == 3) src.targets src.scenes[k]) := by
  unfold madvrShots
  rw [List.getElem_map, List.getElem_range, List.getD_eq_getElem?_getD, List.getElem?_eq_getElem hk]
  rfl

theorem madvrShots_durations (c : Config) (src : MadvrSource) (custom : Bool) :
    (madvrShots c src custom).map (·.duration) = src.scenes.map (·.length) := by
  apply List.ext_getElem
  · simp [madvrShots_length]
  · intro i h1 h2
    have hk : i < src.scenes.length := by simpa using h2
    rw [List.getElem_map, List.getElem_map, madvrShots_getElem c src custom i hk, mergeShot_duration]
    rfl

/-! ## HDR10+ -/

/-- the shots `parse_hdr10plus_for_l1` puts into the config, `f0` being the first entry of `SceneFirstFrameIndex` -/
def hdrShots (c : Config) (src : HdrSource) (f0 : Nat) : List Shot :=
  (List.range (hdrFirstFrames src f0).length).map fun k =>
    mergeShot c.shots k
      { start := (hdrFirstFrames src f0).getD k 0, duration := src.lengths.getD k 0,
        blocks := [l1Block (clampMode c) ((src.frames.getD ((hdrFirstFrames src f0).getD k 0) none).getD (0, 0)).1
                     ((src.frames.getD ((hdrFirstFrames src f0).getD k 0) none).getD (0, 0)).2],
        edits := [] }

def hdrResult (c : Config) (src : HdrSource) (f0 : Nat) : Config :=
  { c with shots := hdrShots c src f0, length := src.frames.length }

/-- the summary arrays fit the frames: the first-frame list is not empty and none of its entries lies below its first
one, every visited frame has a peak value, and there is a scene length for every visited frame -/
def HdrFits (src : HdrSource) (f0 : Nat) : Prop :=
  src.firsts.head? = some f0 ∧ (∀ n ∈ src.firsts, f0 ≤ n) ∧
  (∀ n ∈ hdrFirstFrames src f0, (src.frames.getD n none).isSome = true) ∧
  (hdrFirstFrames src f0).length ≤ src.lengths.length

theorem hdr10plusConfig_cases (c : Config) (src : HdrSource) :
    (hdr10plusConfig c src = .error ∧ ¬ ∃ f0, HdrFits src f0) ∨
    (∃ f0, hdr10plusConfig c src = .ok (hdrResult c src f0) ∧ HdrFits src f0) := by
  unfold hdr10plusConfig
  cases hf : src.firsts with
  | nil =>
    left
    refine ⟨rfl, ?_⟩
    rintro ⟨f0, h, _⟩
    rw [hf] at h; cases h
  | cons f0 rest =>
    simp only []
    have huniq : ∀ g, HdrFits src g → g = f0 := by
      intro g hg
      have := hg.1
      rw [hf] at this
      simpa using this.symm
    by_cases h1 : (f0 :: rest).any (fun x => decide (x < f0)) = true
    · left
      rw [if_pos h1]
      refine ⟨rfl, ?_⟩
      rintro ⟨g, hg⟩
      have := huniq g hg
      subst this
      rw [List.any_eq_true] at h1
      obtain ⟨n, hn, hb⟩ := h1
      have := hg.2.1 n (by rw [hf]; exact hn)
      simp only [decide_eq_true_eq] at hb
      omega
    · rw [if_neg h1]
      have hge : ∀ n ∈ src.firsts, f0 ≤ n := by
        intro n hn
        rw [hf] at hn
        have : ¬ (decide (n < f0) = true) := fun hb => h1 (List.any_eq_true.2 ⟨n, hn, hb⟩)
        simp only [decide_eq_true_eq] at this
        omega
      by_cases h2 : ((hdrFirstFrames src f0).any (fun n => (src.frames.getD n none).isNone) ||
          decide (src.lengths.length < (hdrFirstFrames src f0).length)) = true
      · left
        rw [if_pos h2]
        refine ⟨rfl, ?_⟩
        rintro ⟨g, hg⟩
        have := huniq g hg
        subst this
        simp only [Bool.or_eq_true, List.any_eq_true, decide_eq_true_eq] at h2
        rcases h2 with ⟨n, hn, hb⟩ | hlt
        · have := hg.2.2.1 n hn
          cases hx : src.frames.getD n none with
          | none => rw [hx] at this; cases this
          | some v => rw [hx] at hb; cases hb
        · have := hg.2.2.2
          omega
      · right
        rw [if_neg h2]
        refine ⟨f0, rfl, ?_, hge, ?_, ?_⟩
        · rw [hf]; rfl
        · intro n hn
          cases hx : (src.frames.getD n none).isSome with
          | true => rfl
          | false =>
            exfalso; apply h2
            simp only [Bool.or_eq_true, List.any_eq_true]
            left
            refine ⟨n, hn, ?_⟩
            cases hy : src.frames.getD n none with
            | none => rfl
            | some v => rw [hy] at hx; cases hx
        · cases hx : decide (src.lengths.length < (hdrFirstFrames src f0).length) with
          | true => exfalso; apply h2; simp [hx]
          | false => simp only [decide_eq_false_iff_not] at hx; omega

theorem hdrShots_length (c : Config) (src : HdrSource) (f0 : Nat) :
    (hdrShots c src f0).length = (hdrFirstFrames src f0).length := by
  simp [hdrShots]

theorem hdrShots_getElem (c : Config) (src : HdrSource) (f0 : Nat) (k : Nat) (hk : k < (hdrFirstFrames src f0).length) :
    (hdrShots c src f0)[k]'(by rw [hdrShots_length]; exact hk) =
      mergeShot c.shots k
        { start := (hdrFirstFrames src f0).getD k 0, duration := src.lengths.getD k 0,
          blocks := [l1Block (clampMode c) ((src.frames.getD ((hdrFirstFrames src f0).getD k 0) none).getD (0, 0)).1
                       ((src.frames.getD ((hdrFirstFrames src f0).getD k 0) none).getD (0, 0)).2],
          edits := [] } := by
  unfold hdrShots
  rw [List.getElem_map, List.getElem_range]

theorem hdrShots_durations (c : Config) (src : HdrSource) (f0 : Nat)
    (hle : (hdrFirstFrames src f0).length ≤ src.lengths.length) :
    (hdrShots c src f0).map (·.duration) = src.lengths.take (hdrFirstFrames src f0).length := by
  apply List.ext_getElem
  · simp [hdrShots_length]
    omega
  · intro i h1 h2
    have hk : i < (hdrFirstFrames src f0).length := by simpa [hdrShots_length] using h1
    rw [List.getElem_map, hdrShots_getElem c src f0 i hk, mergeShot_duration, List.getElem_take]
    have : i < src.lengths.length := by
      have := h2; simp at this; omega
    simp [List.getD_eq_getElem?_getD, List.getElem?_eq_getElem this]

/-! ## glue used by Props/C10.lean -/

theorem durSum_eq_sum (shots : List Shot) : durSum shots = (shots.map (·.duration)).sum := by
  unfold durSum; rw [List.sum_eq_foldl]

/-- a successful madVR step returns `madvrResult`, and then no scene's arithmetic wraps and every scene ends inside
the frames -/
theorem madvr_ok (c : Config) (src : MadvrSource) (custom : Bool) (c' : Config)
    (h : madvrConfig c src custom = .ok c') :
    c' = madvrResult c src custom ∧ ScenesDefined src ∧ ScenesInRange src := by
  rcases madvrConfig_cases c src custom with ⟨h1, _⟩ | ⟨h1, _⟩ | ⟨h1, h2, h3⟩
  · rw [h1] at h; cases h
  · rw [h1] at h; cases h
  · rw [h1] at h; cases h; exact ⟨rfl, h2, h3⟩

/-- the madVR config never has `length = 0` together with shots, so the rest of `execute` is `generate` on it -/
theorem madvr_generateFrom (c : Config) (src : MadvrSource) (custom : Bool) (po : Option Profile) (lo : Option Bool)
    (hr : ScenesInRange src) :
    generateFrom (madvrResult c src custom) po lo = generate (madvrResult c src custom) po lo := by
  apply generateFrom_eq_generate
  intro h0
  have h0' : src.frameCount = 0 := h0
  show (madvrShots c src custom).isEmpty = true
  cases hs : src.scenes with
  | nil => simp [madvrShots, hs]
  | cons s t =>
    have := hr s (by rw [hs]; exact List.mem_cons_self)
    omega

theorem madvr_shots_nonempty (c : Config) (src : MadvrSource) (custom : Bool) (hne : src.scenes ≠ []) :
    baseShots (madvrResult c src custom) = madvrShots c src custom := by
  unfold baseShots
  have : (madvrResult c src custom).shots.isEmpty = false := by
    show (madvrShots c src custom).isEmpty = false
    cases hs : src.scenes with
    | nil => exact absurd hs hne
    | cons a t => simp [madvrShots, hs, List.range_succ_eq_map]
  rw [this]; rfl

theorem hdr_generateFrom (c : Config) (src : HdrSource) (f0 : Nat) (po : Option Profile) (lo : Option Bool) :
    generateFrom (hdrResult c src f0) po lo = generate (hdrResult c src f0) po lo := by
  apply generateFrom_eq_generate
  intro h0
  have h0' : src.frames.length = 0 := h0
  show (hdrShots c src f0).isEmpty = true
  simp [hdrShots, hdrFirstFrames, h0']

theorem hdr_shots_nonempty (c : Config) (src : HdrSource) (f0 : Nat) (hne : hdrFirstFrames src f0 ≠ []) :
    baseShots (hdrResult c src f0) = hdrShots c src f0 := by
  unfold baseShots
  have : (hdrResult c src f0).shots.isEmpty = false := by
    show (hdrShots c src f0).isEmpty = false
    cases hs : hdrFirstFrames src f0 with
    | nil => exact absurd hs hne
    | cons a t => simp [hdrShots, hs, List.range_succ_eq_map]
  rw [this]; rfl


end Dovi.GenSourcesProof
