import DoviModel.Proofs.PwRpu
/-!
# Every parse result has the shape the write → parse theorem assumes

`parseRpu bytes = .ok r` implies `RpuWf r` (the hypothesis of `parseRpu_writeRpu` / `C03.write_parse_sound`),
up to the `seExact` part of `MappingWf`, which is discharged from `Mapping.seSmall` (all integer coefficient
parts below 2^52 in magnitude — the third-party `get_se` goes through `f64`).

Bottom-up: header, extension blocks, containers, `vdr_dm_data`, `read_rpu_data`, `DoviRpu::parse`.
-/
namespace Dovi.ParseWf
open Dovi Dovi.PwDm Dovi.PwHdr

/-! ## header -/

/-- the last three syntax elements: `prev_vdr_rpu_id` stays 0 unless `use_prev_vdr_rpu_flag` -/
theorem tail_prev {usep : Bool} {prev : Nat} {s t : Bits}
    (e : (if usep = true then readUe else pure 0) s = .ok (prev, t)) : (usep || prev == 0) = true := by
  cases usep with
  | true => rfl
  | false =>
    simp only [Bool.false_eq_true, if_false] at e
    obtain ⟨rfl, _⟩ := pure_inv e
    rfl

theorem Wf_tail (h : Header) (a b : Bool) (c : Nat) :
    ({ h with vdr_dm_metadata_present_flag := a, use_prev_vdr_rpu_flag := b, prev_vdr_rpu_id := c } : Header).Wf =
      ((h.rpu_type == 2 &&
        (if h.vdr_seq_info_present_flag then
           ((h.coefficient_data_type == 0 && h.coefficient_log2_denom_length == h.coefficient_log2_denom % 2^32) ||
            (h.coefficient_data_type == 1 && h.coefficient_log2_denom == 0 && h.coefficient_log2_denom_length == 32)) &&
           (if h.rpu_format &&& 0x700 == 0 then
              h.el_bit_depth_minus8 < 256 && h.ext_mapping_idc_0_4 < 32 && h.ext_mapping_idc_5_7 < 8
            else h.fmtDefaults)
         else h.seqDefaults && h.fmtDefaults)) && (b || c == 0)) := rfl

/-- **every parsed header is `Header.Wf`** -/
theorem parseHeader_wf {s t : Bits} {h : Header} (hp : parseHeader s = .ok (h, t)) : h.Wf = true := by
  unfold parseHeader at hp
  obtain ⟨ty, s1, e1, q1⟩ := P.bind_eq_ok.mp hp
  clear hp
  obtain ⟨u, s1', e1', q2⟩ := P.bind_eq_ok.mp q1
  clear q1
  obtain ⟨hty, _⟩ := ensure_inv e1'
  have hty' : ty = 2 := by simpa using hty
  subst hty'
  obtain ⟨fmt, s2, e2, q3⟩ := P.bind_eq_ok.mp q2
  clear q2
  obtain ⟨prof, s3, e3, q4⟩ := P.bind_eq_ok.mp q3
  clear q3
  obtain ⟨lvl, s4, e4, q5⟩ := P.bind_eq_ok.mp q4
  clear q4
  obtain ⟨seq, s5, e5, q6⟩ := P.bind_eq_ok.mp q5
  clear q5
  obtain ⟨hh, s6, e6, q7⟩ := P.bind_eq_ok.mp q6
  clear q6
  obtain ⟨dmp, s7, e7, q8⟩ := P.bind_eq_ok.mp q7
  clear q7
  obtain ⟨usep, s8, e8, q9⟩ := P.bind_eq_ok.mp q8
  clear q8
  obtain ⟨prev, s9, e9, q10⟩ := P.bind_eq_ok.mp q9
  clear q9
  obtain ⟨hfin, _⟩ := pure_inv q10
  clear q10
  subst hfin
  have hprev := tail_prev e9
  cases seq with
  | false =>
    simp only [Bool.false_eq_true, if_false] at e6
    obtain ⟨rfl, _⟩ := pure_inv e6
    simp [Header.Wf, Header.seqDefaults, Header.fmtDefaults, hprev]
  | true =>
    simp only [if_true] at e6
    obtain ⟨chroma, a1, f1, g1⟩ := P.bind_eq_ok.mp e6
    clear e6
    obtain ⟨cdt, a2, f2, g2⟩ := P.bind_eq_ok.mp g1
    clear g1
    obtain ⟨den, a3, f3, g3⟩ := P.bind_eq_ok.mp g2
    clear g2
    obtain ⟨norm, a4, f4, g4⟩ := P.bind_eq_ok.mp g3
    clear g3
    obtain ⟨full, a5, f5, g5⟩ := P.bind_eq_ok.mp g4
    clear g4
    obtain ⟨hx, a6, f6, g6⟩ := P.bind_eq_ok.mp g5
    clear g5
    -- the denominator is 0 unless coefficient_data_type = 0
    have hden : cdt = 0 ∨ den = 0 := by
      by_cases hc : (cdt == 0) = true
      · exact Or.inl (by simpa using hc)
      · simp only [hc] at f3
        obtain ⟨rfl, _⟩ := pure_inv f3
        exact Or.inr rfl
    -- the format-dependent block
    have hfmt : hx.rpu_type = 2 ∧ hx.rpu_format = fmt ∧ hx.vdr_seq_info_present_flag = true ∧
        hx.coefficient_data_type = cdt ∧ hx.coefficient_log2_denom = den ∧
        (if (fmt &&& 0x700 == 0) = true then
           (decide (hx.el_bit_depth_minus8 < 256) && decide (hx.ext_mapping_idc_0_4 < 32) &&
             decide (hx.ext_mapping_idc_5_7 < 8)) = true
         else hx.fmtDefaults = true) := by
      by_cases hc : (fmt &&& 0x700 == 0) = true
      · simp only [hc, if_true] at f6 ⊢
        obtain ⟨bl, b1, k1, m1⟩ := P.bind_eq_ok.mp f6
        clear f6
        obtain ⟨el, b2, k2, m2⟩ := P.bind_eq_ok.mp m1
        clear m1
        obtain ⟨u2, b2', k2', m3⟩ := P.bind_eq_ok.mp m2
        clear m2
        obtain ⟨vdr, b3, k3, m4⟩ := P.bind_eq_ok.mp m3
        clear m3
        obtain ⟨spat, b4, k4, m5⟩ := P.bind_eq_ok.mp m4
        clear m4
        obtain ⟨res3, b5, k5, m6⟩ := P.bind_eq_ok.mp m5
        clear m5
        obtain ⟨elsp, b6, k6, m7⟩ := P.bind_eq_ok.mp m6
        clear m6
        obtain ⟨dis, b7, k7, m8⟩ := P.bind_eq_ok.mp m7
        clear m7
        obtain ⟨rfl, _⟩ := pure_inv m8
        refine ⟨rfl, rfl, rfl, rfl, rfl, ?_⟩
        dsimp only
        simp only [Bool.and_eq_true, decide_eq_true_eq]
        refine ⟨⟨?_, ?_⟩, ?_⟩ <;> omega
      · simp only [hc] at f6
        rw [if_neg hc]
        obtain ⟨rfl, _⟩ := pure_inv f6
        exact ⟨rfl, rfl, rfl, rfl, rfl, by simp [Header.fmtDefaults]⟩
    obtain ⟨x1, x2, x3, x4, x5, x6⟩ := hfmt
    -- the derived length
    have hfinal : hh.rpu_type = 2 ∧ hh.rpu_format = fmt ∧ hh.vdr_seq_info_present_flag = true ∧
        hh.coefficient_data_type = cdt ∧ hh.coefficient_log2_denom = den ∧
        hh.el_bit_depth_minus8 = hx.el_bit_depth_minus8 ∧ hh.ext_mapping_idc_0_4 = hx.ext_mapping_idc_0_4 ∧
        hh.ext_mapping_idc_5_7 = hx.ext_mapping_idc_5_7 ∧ hh.fmtDefaults = hx.fmtDefaults ∧
        ((cdt = 0 ∧ hh.coefficient_log2_denom_length = den % 2^32) ∨
         (cdt = 1 ∧ hh.coefficient_log2_denom_length = 32)) := by
      by_cases hc : (cdt == 0) = true
      · simp only [hc, if_true] at g6
        obtain ⟨rfl, _⟩ := pure_inv g6
        exact ⟨x1, x2, x3, x4, x5, rfl, rfl, rfl, rfl, Or.inl ⟨by simpa using hc, by rw [x5]⟩⟩
      · simp only [hc] at g6
        by_cases hc1 : (cdt == 1) = true
        · simp only [hc1, if_true] at g6
          obtain ⟨rfl, _⟩ := pure_inv g6
          exact ⟨x1, x2, x3, x4, x5, rfl, rfl, rfl, rfl, Or.inr ⟨by simpa using hc1, rfl⟩⟩
        · simp [hc1] at g6
    obtain ⟨y1, y2, y3, y4, y5, y6, y7, y8, y9, y10⟩ := hfinal
    rw [Wf_tail, hprev, Bool.and_true]
    simp only [y1, y3, y4, y5, y2, beq_self_eq_true, if_true, Bool.true_and]
    have hA : ((cdt == 0 && hh.coefficient_log2_denom_length == den % 2^32) ||
        (cdt == 1 && den == 0 && hh.coefficient_log2_denom_length == 32)) = true := by
      rcases y10 with ⟨rfl, hl⟩ | ⟨rfl, hl⟩
      · simp [hl]
      · rcases hden with h0 | rfl
        · cases h0
        · simp [hl]
    rw [hA, Bool.true_and]
    by_cases hc : (fmt &&& 0x700 == 0) = true
    · rw [if_pos hc] at x6 ⊢
      rw [y6, y7, y8]
      exact x6
    · rw [if_neg hc] at x6 ⊢
      rw [y9]; exact x6

/-! ## extension blocks -/

/-- the level of a parsed block is one of the container's own levels -/
theorem parseBlock_levels {allowed other : List Nat} {s t : Bits} {b : Block}
    (hp : parseBlock allowed other s = .ok (b, t)) :
    allowed.contains b.level = true ∧ other.contains b.level = false := by
  unfold parseBlock at hp
  obtain ⟨len, s1, hlen, hp1⟩ := P.bind_eq_ok.mp hp
  clear hp
  obtain ⟨level, s2, hlevel, hp2⟩ := P.bind_eq_ok.mp hp1
  clear hp1
  split at hp2
  · simp at hp2
  rename_i hother
  split at hp2
  · simp at hp2
  rename_i hallowed
  obtain ⟨u1, s3, he1, hp3⟩ := P.bind_eq_ok.mp hp2
  clear hp2
  rcases hlay : blockParseLayout level len with _ | widths
  · rw [hlay] at hp3; simp at hp3
  rw [hlay] at hp3
  dsimp only at hp3
  obtain ⟨raw, s4, hraw, hp4⟩ := P.bind_eq_ok.mp hp3
  clear hp3
  obtain ⟨u2, s5, he2, hp5⟩ := P.bind_eq_ok.mp hp4
  clear hp4
  rcases hreq : blockRequiredBits level len with _ | req
  · rw [hreq] at hp5; simp [P.panic] at hp5
  rw [hreq] at hp5
  dsimp only at hp5
  obtain ⟨pad, s6, hpad, hp6⟩ := P.bind_eq_ok.mp hp5
  clear hp5
  obtain ⟨u3, s7, he3, hp7⟩ := P.bind_eq_ok.mp hp6
  clear hp6
  obtain ⟨hb, _⟩ := pure_inv hp7
  subst hb
  exact ⟨by simpa using hallowed, by simpa using hother⟩

theorem defaults_nonneg (level : Nat) : ∀ v ∈ blockDefaults level, 0 ≤ v := by
  unfold blockDefaults
  split <;> decide

/-- L2: the 13-bit two's complement `ms_weight` (any of the 8192 codes) survives re-encoding -/
theorem reparsed_l2 (len : Nat) (a c d e f g ms : Nat) (hms : ms < 2 ^ 13) :
    reparsedVals { level := 2, length := len, vals := parsedVals 2 [a, c, d, e, f, g, ms] } =
      parsedVals 2 [a, c, d, e, f, g, ms] := by
  simp only [parsedVals, List.map_cons, List.map_nil, blockPostParse, blockDefaults, List.drop_nil, List.append_nil,
    reparsedVals, blockWriteLayout, blockWriteVals, List.zip_cons_cons, List.zip_nil_right, rawOf]
  simp only [show (2 == 2 && 12 == 13) = false by decide, show (2 == 2 && 13 == 13) = true by decide,
    Bool.false_eq_true, if_false, if_true, Int.toNat_natCast]
  by_cases hbig : (ms : Int) > 4095
  · simp only [hbig, if_true]
    have hneg : (ms : Int) - 8192 < 0 := by omega
    simp only [hneg, if_true]
    have e : ((((ms : Int) - 8192 + 8192).toNat : Nat) : Int) = ms := by omega
    rw [e]
    simp [hbig]
  · simp only [hbig, if_false]
    have hneg : ¬ ((ms : Int) < 0) := by omega
    simp only [hneg, if_false, Int.toNat_natCast, hbig]

/-- L11: the whitepoint byte (any of the 256 values) survives unfolding into whitepoint + flag and back -/
theorem reparsed_l11 (len : Nat) (ct wp r2 r3 : Nat) (hwp : wp < 2 ^ 8) :
    reparsedVals { level := 11, length := len, vals := parsedVals 11 [ct, wp, r2, r3] } =
      parsedVals 11 [ct, wp, r2, r3] := by
  simp only [parsedVals, List.map_cons, List.map_nil, blockPostParse]
  by_cases hbig : (wp : Int) > 15
  · simp only [hbig, if_true, blockDefaults, List.drop_nil, List.append_nil,
      reparsedVals, blockWriteLayout, blockWriteVals, List.zip_cons_cons, List.zip_nil_right, List.map_cons,
      List.map_nil, rawOf, blockPostParse]
    simp only [show (11 == 2 && 8 == 13) = false by decide, Bool.false_eq_true, if_false, Int.toNat_natCast,
      show ((1 : Int) != 0) = true by decide, if_true]
    have e : (((((((wp : Int) - 16).toNat : Nat) : Int) + 16) % 256).toNat : Int) = wp := by omega
    rw [e]
    simp [hbig]
  · simp only [hbig, if_false, blockDefaults, List.drop_nil, List.append_nil,
      reparsedVals, blockWriteLayout, blockWriteVals, List.zip_cons_cons, List.zip_nil_right, List.map_cons,
      List.map_nil, rawOf, blockPostParse]
    simp only [show (11 == 2 && 8 == 13) = false by decide, Bool.false_eq_true, if_false, Int.toNat_natCast,
      show ((0 : Int) != 0) = false by decide]
    have e : ((((wp : Int) + 0) % 256).toNat : Int) = wp := by omega
    rw [e]
    simp [hbig]

/-- the values of a block of a level other than L2/L11 are re-read unchanged -/
theorem reparsed_generic (level len : Nat) (ws ns : List Nat) (h2 : level ≠ 2) (h11 : level ≠ 11)
    (hlay : blockParseLayout level len = some ws) (hnl : ns.length = ws.length) :
    reparsedVals { level := level, length := len, vals := parsedVals level ns } = parsedVals level ns := by
  have hpv : parsedVals level ns =
      ns.map (Nat.cast : Nat → Int) ++ (blockDefaults level).drop (ns.map (Nat.cast : Nat → Int)).length := by
    unfold parsedVals
    rw [blockPostParse_generic h2 h11]
  have hl : (ns.map (Nat.cast : Nat → Int)).length = ws.length := by simp [hnl]
  apply reparsedVals_eq { level := level, length := len, vals := parsedVals level ns } ws
    (by rw [← layouts_agree]; exact hlay) h2 h11
  · show ws.length ≤ (parsedVals level ns).length
    rw [hpv, List.length_append]; omega
  · intro v hv
    have hv' : v ∈ parsedVals level ns := hv
    rw [hpv] at hv'
    rcases List.mem_append.mp hv' with hm | hm
    · obtain ⟨n, _, rfl⟩ := List.mem_map.mp hm
      exact Int.natCast_nonneg n
    · exact defaults_nonneg level v (List.mem_of_mem_drop hm)
  · show (blockDefaults level).drop ws.length = (parsedVals level ns).drop ws.length
    rw [hpv, hl, List.drop_left' hl]

/-- **every parsed block fits its container and is in wire-normal form** -/
theorem parseBlock_wf {allowed other : List Nat} {s t : Bits} {b : Block}
    (hp : parseBlock allowed other s = .ok (b, t)) : BlockFits allowed other b ∧ b.reparsed = b := by
  obtain ⟨hal, hot⟩ := parseBlock_levels hp
  obtain ⟨wl, ws, ns, req, hwl, hlt, hvl, hlay, hnl, hbd, hvals, hbytes, hreq, hs⟩ := parseBlock_inv hp
  obtain ⟨level, len, vals⟩ := b
  dsimp only at hal hot hlay hvals hbytes
  have hvals' : vals = parsedVals level ns := hvals
  subst hvals'
  have h0 : level ≠ 0 := by
    intro h0; subst h0
    simp [blockParseLayout] at hlay
  have hrep : reparsedVals { level := level, length := len, vals := parsedVals level ns } = parsedVals level ns ∧
      ws.length ≤ (blockWriteVals { level := level, length := len, vals := parsedVals level ns }).length := by
    by_cases h2 : level = 2
    · subst h2
      simp only [blockParseLayout, Option.some.injEq] at hlay
      subst hlay
      obtain ⟨a, c, d, e, f, g, ms, rfl⟩ := len7 hnl
      simp only [bounded] at hbd
      refine ⟨reparsed_l2 len a c d e f g ms hbd.2.2.2.2.2.2.1, ?_⟩
      simp [parsedVals, blockPostParse, blockDefaults, blockWriteVals]
    by_cases h11 : level = 11
    · subst h11
      simp only [blockParseLayout, Option.some.injEq] at hlay
      subst hlay
      obtain ⟨ct, wp, r2, r3, rfl⟩ := len4 hnl
      simp only [bounded] at hbd
      refine ⟨reparsed_l11 len ct wp r2 r3 hbd.2.1, ?_⟩
      simp only [parsedVals, List.map_cons, List.map_nil, blockPostParse]
      by_cases hbig : (wp : Int) > 15
      · simp [hbig, blockDefaults, blockWriteVals]
      · simp [hbig, blockDefaults, blockWriteVals]
    · refine ⟨reparsed_generic level len ws ns h2 h11 hlay hnl, ?_⟩
      rw [blockWriteVals_generic _ _ _ h11]
      unfold parsedVals
      rw [blockPostParse_generic h2 h11, List.length_append, List.length_map]
      omega
  refine ⟨⟨hal, hot, h0, ?_⟩, ?_⟩
  · intro ws' hws'
    rw [← layouts_agree] at hws'
    dsimp only at hws'
    rw [hlay] at hws'
    injection hws' with hws'
    subst hws'
    exact hrep.2
  · show ({ level := level, length := blockBytes level len,
            vals := reparsedVals { level := level, length := len, vals := parsedVals level ns } } : Block) = _
    rw [hrep.1, ← hbytes]

/-! ## containers -/

/-- **every parsed container is `ContainerOk` and in wire-normal form** -/
theorem parseContainer_wf {allowed other : List Nat} {s t : Bits} {c : Container}
    (hp : parseContainer allowed other s = .ok (c, t)) : ContainerOk allowed other c ∧ c.reparsed = c := by
  unfold parseContainer at hp
  obtain ⟨n, s1, hn, hp1⟩ := P.bind_eq_ok.mp hp
  clear hp
  obtain ⟨avail, s2, hav, hp2⟩ := P.bind_eq_ok.mp hp1
  clear hp1
  obtain ⟨u1, s3, he, hp3⟩ := P.bind_eq_ok.mp hp2
  clear hp2
  obtain ⟨u2, s4, hal, hp4⟩ := P.bind_eq_ok.mp hp3
  clear hp3
  obtain ⟨bs, s5, hbs, hp5⟩ := P.bind_eq_ok.mp hp4
  clear hp4
  obtain ⟨hc, _⟩ := pure_inv hp5
  subst hc
  obtain ⟨hlen, hall⟩ := repeatP_ok hbs
  have hwf : ∀ b ∈ bs, BlockFits allowed other b ∧ b.reparsed = b := by
    intro b hb
    obtain ⟨s6, s7, hpb⟩ := hall b hb
    exact parseBlock_wf hpb
  refine ⟨⟨hlen.symm, fun b hb => (hwf b hb).1⟩, ?_⟩
  show ({ num_ext_blocks := bs.length, blocks := bs.map Block.reparsed } : Container) = _
  have hmap : bs.map Block.reparsed = bs := by
    have : bs.map Block.reparsed = bs.map id := List.map_congr_left (fun b hb => (hwf b hb).2)
    rw [this, List.map_id]
  rw [hmap, hlen]

/-! ## vdr_dm_data -/

theorem decode_range (f : Fld) (n : Nat) (hn : n < 2 ^ f.width) : fldInRange f (f.decode n) := by
  cases f with
  | u w => exact Int.natCast_nonneg n
  | s16 =>
    have hn' : n < 65536 := hn
    show -32768 ≤ (if n ≥ 32768 then (n : Int) - 65536 else (n : Int)) ∧
      (if n ≥ 32768 then (n : Int) - 65536 else (n : Int)) < 32768
    split <;> omega

/-- the values `readFlds` returns: one per field, each in the range of its coding -/
theorem readFlds_range (fs : List Fld) {s t : Bits} {vs : List Int} (h : readFlds fs s = .ok (vs, t)) :
    vs.length = fs.length ∧ ∀ p ∈ fs.zip vs, fldInRange p.1 p.2 := by
  induction fs generalizing s vs with
  | nil =>
    obtain ⟨rfl, _⟩ := pure_inv (show (pure [] : P (List Int)) s = .ok (vs, t) from h)
    exact ⟨rfl, by simp⟩
  | cons f fs ih =>
    simp only [readFlds] at h
    obtain ⟨v, s1, hv, h1⟩ := P.bind_eq_ok.mp h
    obtain ⟨vs', s2, hvs, h2⟩ := P.bind_eq_ok.mp h1
    obtain ⟨hvs', ht⟩ := pure_inv h2
    subst hvs'
    subst ht
    obtain ⟨n, hlt, hvd, _⟩ := readFld_inv hv
    subst hvd
    obtain ⟨hl, hr⟩ := ih hvs
    refine ⟨by simp [hl], ?_⟩
    intro p hp
    simp only [List.zip_cons_cons, List.mem_cons] at hp
    rcases hp with rfl | hp
    · exact decode_range f n hlt
    · exact hr p hp

/-- **every parsed `vdr_dm_data` payload** has the compressed flag of the header, 32 main values, the CM v2.9
container, is in wire-normal form, and — when the parser did not read a CM v4.0 container — is followed by
fewer than 56 bits -/
theorem parseDmData_wf {h : Header} {s t : Bits} {d : DmData} (hp : parseDmData h s = .ok (d, t)) :
    (h.reserved_zero_3bits == 1) = d.compressed ∧ d.main.length = 32 ∧ d.reparsed = d ∧
    (∃ c, d.cmv29 = some c ∧ ContainerOk cmv29Levels cmv40Levels c) ∧
    (∀ c, d.cmv40 = some c → ContainerOk cmv40Levels cmv29Levels c) ∧
    (d.cmv40 = none → t.length < 56) := by
  unfold parseDmData at hp
  obtain ⟨aff, s1, haff, hp1⟩ := P.bind_eq_ok.mp hp
  clear hp
  obtain ⟨cur, s2, hcur, hp2⟩ := P.bind_eq_ok.mp hp1
  clear hp1
  obtain ⟨scn, s3, hscn, hp3⟩ := P.bind_eq_ok.mp hp2
  clear hp2
  obtain ⟨main, s4, hmain, hp4⟩ := P.bind_eq_ok.mp hp3
  clear hp3
  obtain ⟨c29, s5, h29, hp5⟩ := P.bind_eq_ok.mp hp4
  clear hp4
  obtain ⟨avail, s6, hav, hp6⟩ := P.bind_eq_ok.mp hp5
  clear hp5
  obtain ⟨havail, hs6⟩ := available_inv hav
  subst havail hs6
  obtain ⟨c40, s7, h40, hp7⟩ := P.bind_eq_ok.mp hp6
  clear hp6
  obtain ⟨hd, ht⟩ := pure_inv hp7
  subst hd
  subst ht
  obtain ⟨hok29, hrep29⟩ := parseContainer_wf h29
  -- the main payload
  have hm : main.length = 32 ∧
      (if (h.reserved_zero_3bits == 1) = true then List.replicate 32 (0 : Int)
       else (dmMainWriteLayout.zip main).map (fun p => p.1.decode (fldRaw p.1 p.2))) = main := by
    cases hcmp : (h.reserved_zero_3bits == 1) with
    | true =>
      simp only [hcmp, if_true] at hmain ⊢
      obtain ⟨rfl, _⟩ := pure_inv hmain
      exact ⟨by simp, rfl⟩
    | false =>
      simp only [hcmp, Bool.false_eq_true, if_false] at hmain ⊢
      rw [main_layouts_agree] at hmain
      obtain ⟨hl, hr⟩ := readFlds_range dmMainWriteLayout hmain
      exact ⟨by rw [hl]; rfl, zip_decode_id dmMainWriteLayout main hl hr⟩
  -- CM v4.0
  have h40' : (∀ c, c40 = some c → ContainerOk cmv40Levels cmv29Levels c ∧ c.reparsed = c) ∧
      (c40 = none → t.length < 56) := by
    split at h40
    · obtain ⟨c, s8, hc8, hp8⟩ := P.bind_eq_ok.mp h40
      obtain ⟨hc40, ht⟩ := pure_inv hp8
      subst hc40
      refine ⟨?_, fun hn => (by cases hn)⟩
      intro c' hc'
      injection hc' with hc'
      subst hc'
      exact parseContainer_wf hc8
    · rename_i hlt
      obtain ⟨hc40, ht⟩ := pure_inv h40
      subst hc40
      subst ht
      exact ⟨fun c hc => (by cases hc), fun _ => (by omega)⟩
  refine ⟨rfl, hm.1, ?_, ⟨c29, rfl, hok29⟩, fun c hc => (h40'.1 c hc).1, h40'.2⟩
  show ({ compressed := (h.reserved_zero_3bits == 1), affected_dm_metadata_id := aff, current_dm_metadata_id := cur,
          scene_refresh_flag := scn,
          main := if (h.reserved_zero_3bits == 1) = true then List.replicate 32 0
                  else (dmMainWriteLayout.zip main).map (fun p => p.1.decode (fldRaw p.1 p.2)),
          cmv29 := (some c29).map Container.reparsed, cmv40 := c40.map Container.reparsed } : DmData) = _
  rw [hm.2]
  have e29 : (some c29).map Container.reparsed = some c29 := by rw [Option.map_some, hrep29]
  have e40 : c40.map Container.reparsed = c40 := by
    cases c40 with
    | none => rfl
    | some c => rw [Option.map_some, (h40'.1 c rfl).2]
  rw [e29, e40]

/-! ## the whole RPU -/

theorem Wf_prefix (h : Header) (p : Nat) : ({ h with rpu_nal_prefix := p } : Header).Wf = h.Wf := rfl

/-- `validate40` demands exactly one L254 block, so a validated CM v4.0 container is not empty -/
theorem validate40_ne_nil (c : Container) (h : c.validate40 = true) : c.blocks ≠ [] := by
  intro hn
  simp [Container.validate40, hn, countLevel] at h

theorem seExact_of_seSmall (m : Mapping) (h : m.seSmall = true) : m.coefInts.all seExact = true := by
  unfold Mapping.seSmall at h
  rw [List.all_eq_true] at h ⊢
  intro v hv
  exact seExact_of_natAbs_lt (by simpa using h v hv)

/-- **every result of `read_rpu_data` that passes `validate` is `RpuWf`** (up to the `f64` bound on the integer
coefficient parts). No assumption on the input length: "aligned" is relative to the end of the input. -/
theorem readRpuData_wf {bits rest : Bits} {r : Rpu} (hp : readRpuData bits = .ok (r, rest))
    (hval : r.validate = true)
    (hs : ∀ m, r.rpu_data_mapping = some m → m.seSmall = true) : RpuWf r := by
  unfold readRpuData at hp
  obtain ⟨pfx, s1, e1, q1⟩ := P.bind_eq_ok.mp hp
  clear hp
  obtain ⟨u1, s1', e1', q2⟩ := P.bind_eq_ok.mp q1
  clear q1
  obtain ⟨hpfx, _⟩ := ensure_inv e1'
  have hpfx' : pfx = 25 := by simpa using hpfx
  subst hpfx'
  obtain ⟨h0, s2, e2, q3⟩ := P.bind_eq_ok.mp q2
  clear q2
  obtain ⟨u2, s2', e2', q4⟩ := P.bind_eq_ok.mp q3
  clear q3
  obtain ⟨mp, s3, e3, q5⟩ := P.bind_eq_ok.mp q4
  clear q4
  obtain ⟨dm, s4, e4, q6⟩ := P.bind_eq_ok.mp q5
  clear q5
  obtain ⟨u3, s5x, e5, q7⟩ := P.bind_eq_ok.mp q6
  clear q6
  obtain ⟨avail, s5, e5', q8⟩ := P.bind_eq_ok.mp q7
  clear q7
  obtain ⟨hav, hs5'⟩ := available_inv e5'
  subst hs5'
  subst hav
  obtain ⟨rem, s6, e6, q9⟩ := P.bind_eq_ok.mp q8
  clear q8
  obtain ⟨crc, s7, e7, q10⟩ := P.bind_eq_ok.mp q9
  clear q9
  obtain ⟨last, s8, e8, q11⟩ := P.bind_eq_ok.mp q10
  clear q10
  obtain ⟨u4, s8', e8', q12⟩ := P.bind_eq_ok.mp q11
  clear q11
  obtain ⟨hr, _⟩ := pure_inv q12
  clear q12
  subst hr
  have hhwf : ({ h0 with rpu_nal_prefix := 25 } : Header).Wf = true := by
    rw [Wf_prefix]; exact parseHeader_wf e2
  have hHp : ({ h0 with rpu_nal_prefix := 25 } : Header).rpu_nal_prefix = 25 := rfl
  generalize hH : ({ h0 with rpu_nal_prefix := 25 } : Header) = H at *
  dsimp only at hs hval
  simp only [Rpu.validate, Bool.and_eq_true] at hval
  obtain ⟨⟨_, hvm⟩, hvd⟩ := hval
  -- the bits after the DM payload
  have b5 := readAlignZero_inv e5
  have hl5 : s4.length = s4.length % 8 + s5.length := by
    have := congrArg List.length b5
    simpa using this
  have hrem : (∀ rb, rem = some rb → rb ≠ [] ∧ rb.length % 8 = 0) ∧ (rem.getD []).length = s5.length - 40 := by
    by_cases hgt : s5.length > 40
    · simp only [hgt, if_true] at e6
      obtain ⟨rb, s6', erb, prb⟩ := P.bind_eq_ok.mp e6
      obtain ⟨rfl, _⟩ := pure_inv prb
      obtain ⟨hrl, _⟩ := readBits_inv erb
      refine ⟨?_, hrl⟩
      intro rb' hrb'
      injection hrb' with hrb'
      subst hrb'
      refine ⟨?_, by omega⟩
      intro hnil
      rw [hnil] at hrl
      simp at hrl
      omega
    · simp only [hgt, if_false] at e6
      obtain ⟨rfl, _⟩ := pure_inv e6
      exact ⟨fun rb hrb => (by cases hrb), by simp only [Option.getD, List.length_nil]; omega⟩
  refine ⟨hhwf, hHp, rfl, rfl, ?_, ?_, hrem.1⟩
  · -- mapping
    dsimp only
    cases hup : H.use_prev_vdr_rpu_flag with
    | true =>
      simp only [hup, Bool.not_true, Bool.false_eq_true, if_false] at e3 ⊢
      obtain ⟨rfl, _⟩ := pure_inv e3
      trivial
    | false =>
      simp only [hup, Bool.not_false, if_true, Bool.false_eq_true, if_false] at e3 ⊢
      obtain ⟨m, s3', em, pm⟩ := P.bind_eq_ok.mp e3
      obtain ⟨rfl, _⟩ := pure_inv pm
      refine ⟨m, rfl, ?_⟩
      have hv : m.curves.all Curve.piecesOk = true := by
        dsimp only at hvm
        simp only [Mapping.validate, Bool.and_eq_true] at hvm
        exact hvm.1.1.2
      exact MappingWf_of_shape H m (parseMapping_shape H _ _ m em hv) (seExact_of_seSmall m (hs m rfl))
  · -- DM data
    dsimp only
    cases hdp : H.vdr_dm_metadata_present_flag with
    | false =>
      simp only [hdp, Bool.false_eq_true, if_false] at e4 ⊢
      obtain ⟨rfl, _⟩ := pure_inv e4
      trivial
    | true =>
      simp only [hdp, if_true] at e4 ⊢
      obtain ⟨d, s4', ed, pd⟩ := P.bind_eq_ok.mp e4
      obtain ⟨hdm, hs4⟩ := pure_inv pd
      subst hdm
      subst hs4
      obtain ⟨hcomp, hmain, hnorm, hc29, hc40, hno40⟩ := parseDmData_wf ed
      refine ⟨d, rfl, ⟨hcomp, hc29, ?_, ?_, hmain, hnorm⟩⟩
      · intro c hc
        refine ⟨hc40 c hc, ?_⟩
        dsimp only at hvd
        simp only [DmData.validate, hc, Bool.and_eq_true] at hvd
        exact validate40_ne_nil c hvd.2
      · intro hn
        have := hno40 hn
        show (rem.getD []).length ≤ 8
        rw [hrem.2]
        omega

/-- `RpuWf` does not look at the trailing zero count -/
theorem RpuWf_tz {r : Rpu} (tz : Nat) (h : RpuWf r) : RpuWf { r with trailing_zeroes := tz } := by
  refine ⟨h.hdr, h.pfx, h.profile, h.elType, h.mapping, ?_, h.remaining⟩
  have hd := h.dm
  show if r.header.vdr_dm_metadata_present_flag = true then
      ∃ d, r.vdr_dm_data = some d ∧ DmWf { r with trailing_zeroes := tz } d else r.vdr_dm_data = none
  split
  · rename_i hf
    rw [if_pos hf] at hd
    obtain ⟨d, hdd, hw⟩ := hd
    exact ⟨d, hdd, ⟨hw.comp, hw.c29, hw.c40, hw.no40, hw.main, hw.normal⟩⟩
  · rename_i hf
    rw [if_neg hf] at hd
    exact hd

end Dovi.ParseWf

namespace Dovi
open Dovi.ParseWf

/-- **every RPU `DoviRpu::parse` returns has the shape `RpuWf`** — the hypothesis of the write → parse theorem
`parseRpu_writeRpu` — provided the integer coefficient parts of its mapping are below 2^52 in magnitude (needed
only for the `seExact` part of `MappingWf`: the third-party `get_se` goes through `f64`). -/
theorem parseRpu_wf (bytes : Bytes) (r : Rpu) (hp : parseRpu bytes = .ok r)
    (hs : ∀ m, r.rpu_data_mapping = some m → m.seSmall = true) : RpuWf r := by
  unfold parseRpu at hp
  dsimp only at hp
  split at hp
  · cases hp
  · split at hp
    · cases hp
    · split at hp
      · cases hp
      · cases hp
      · rename_i r0 rest hrd
        split at hp
        · cases hp
        · split at hp
          · rename_i hval
            injection hp with hp
            subst hp
            exact RpuWf_tz _ (readRpuData_wf hrd (by rw [← validate_tz r0]; exact hval) hs)
          · cases hp

end Dovi
