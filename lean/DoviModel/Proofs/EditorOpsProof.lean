import DoviModel.Proofs.EditGenProof
/-!
# Editor per-frame operations: what a touched frame keeps (C09), and `execute` with `source_rpu`

`DmKept d d' lv`: `d'` is `d` except for the blocks of level `lv` — same non-block fields, same containers present,
and for every other level the same blocks (as a multiset: a touched container is re-sorted).
`RpuKept r r'`: `r'` is `r` except for `modified` and the DM data.
-/
namespace Dovi.EditorOpsProof
open Dovi Dovi.Editor Dovi.EditGenProof

/-! ## DM data -/

/-- the non-block part of the DM data is the same, and the same containers are present -/
structure DmSame (d d' : DmData) : Prop where
  main : d'.main = d.main
  flag : d'.scene_refresh_flag = d.scene_refresh_flag
  compressed : d'.compressed = d.compressed
  affected : d'.affected_dm_metadata_id = d.affected_dm_metadata_id
  current : d'.current_dm_metadata_id = d.current_dm_metadata_id
  c29 : d'.cmv29.isSome = d.cmv29.isSome
  c40 : d'.cmv40.isSome = d.cmv40.isSome

/-- `d'` is `d` except for the blocks of level `lv` -/
structure DmKept (d d' : DmData) (lv : Nat) : Prop where
  same : DmSame d d'
  others : ∀ lv', lv' ≠ lv → (d'.levelBlocks lv').Perm (d.levelBlocks lv')

theorem DmSame.refl (d : DmData) : DmSame d d := ⟨rfl, rfl, rfl, rfl, rfl, rfl, rfl⟩
theorem DmKept.refl (d : DmData) (lv : Nat) : DmKept d d lv := ⟨DmSame.refl d, fun _ _ => List.Perm.refl _⟩

theorem DmSame.set (d : DmData) (w : Which) (c c0 : Container) (h : d.get w = some c0) : DmSame d (d.set w c) := by
  cases w <;> simp only [DmData.get] at h <;> exact ⟨rfl, rfl, rfl, rfl, rfl, by simp [DmData.set, h], by simp [DmData.set, h]⟩

/-- replacing the contents of container `w` by a list that agrees with the old one on every level but `lv` -/
theorem DmKept.set (d : DmData) (w : Which) (c c0 : Container) (lv : Nat) (h : d.get w = some c0)
    (hp : ∀ lv', lv' ≠ lv → (c.blocks.filter (fun b => b.level == lv')).Perm (c0.blocks.filter (fun b => b.level == lv'))) :
    DmKept d (d.set w c) lv := by
  refine ⟨DmSame.set d w c c0 h, ?_⟩
  intro lv' hne
  unfold DmData.levelBlocks
  cases hw : whichContainer lv' with
  | none => exact List.Perm.refl _
  | some w' =>
    simp only [Gen.get_set]
    by_cases hww : w' = w
    · subst hww; simp only [if_true, h]; exact hp lv' hne
    · simp only [hww, if_false]; exact List.Perm.refl _

theorem filter_rfop (p q : Block → Bool) (b : Block) (l : List Block) (hb : q b = false)
    (hpq : ∀ x, p x = true → q x = false) : (replaceFirstOrPush p b l).filter q = l.filter q := by
  induction l with
  | nil => simp [replaceFirstOrPush, hb]
  | cons x xs ih =>
    simp only [replaceFirstOrPush]
    split
    · rename_i hx; simp [List.filter_cons, hb, hpq x hx]
    · simp [List.filter_cons, ih]

/-- **`replace_metadata_block` touches only its own level** -/
theorem replaceBlock_kept (d d' : DmData) (b : Block) (h : d.replaceBlock b = .ok d') : DmKept d d' b.level := by
  unfold DmData.replaceBlock at h
  split at h
  · split at h
    · cases h
    · rename_i w hw
      split at h
      · cases h
      · rename_i c hc
        injection h with h; subst h
        apply DmKept.set d w _ c b.level hc
        intro lv' hne
        simp only [Container.replaceKeyed, Container.update]
        refine ((C12.sortBlocks_perm _).filter _).trans ?_
        rw [filter_rfop]
        · have : ¬ b.level = lv' := fun h => hne h.symm
          simp [this]
        · intro x hx
          simp only [Bool.and_eq_true, beq_iff_eq] at hx
          have : ¬ x.level = lv' := fun h => hne (by rw [← h, hx.1])
          simp [this]
  · split at h
    · cases h
    · unfold DmData.replaceLevel DmData.removeLevel DmData.addBlock at h
      cases hw : whichContainer b.level with
      | none => simp only [hw] at h; injection h with h; subst h; exact DmKept.refl _ _
      | some w =>
        simp only [hw] at h
        cases hc : d.get w with
        | none => simp only [hc] at h; injection h with h; subst h; exact DmKept.refl _ _
        | some c =>
          simp only [hc, Gen.get_set, if_true, Container.addBlock, Gen.which_allowed hw, Res.bind, Gen.set_set] at h
          injection h with h; subst h
          apply DmKept.set d w _ c b.level hc
          intro lv' hne
          simp only [Container.update, Container.removeLevel]
          refine ((C12.sortBlocks_perm _).filter _).trans ?_
          rw [List.filter_append]
          have hb : ¬ b.level = lv' := fun h => hne h.symm
          simp only [List.filter_cons, beq_iff_eq, hb, if_false, List.filter_nil, List.append_nil]
          refine ((C12.sortBlocks_perm _).filter _).trans ?_
          rw [List.filter_filter]
          apply List.Perm.of_eq
          apply List.filter_congr
          intro x _
          by_cases hx : x.level = lv'
          · have : ¬ x.level = b.level := fun h => hne (by rw [← hx, h])
            simp [hx, this]; exact fun h => absurd (hx ▸ h) (fun h' => hne h')
          · simp [hx]

/-- **`remove_metadata_level`** keeps everything but that level, and afterwards the level is empty -/
theorem removeLevel_kept (d : DmData) (lv : Nat) :
    DmKept d (d.removeLevel lv) lv ∧ (d.removeLevel lv).levelBlocks lv = [] := by
  cases hw : whichContainer lv with
  | none => simp only [DmData.removeLevel, hw]; exact ⟨DmKept.refl _ _, by simp [DmData.levelBlocks, hw]⟩
  | some w =>
    cases hc : d.get w with
    | none => simp only [DmData.removeLevel, hw, hc]; exact ⟨DmKept.refl _ _, by simp [DmData.levelBlocks, hw, hc]⟩
    | some c =>
      simp only [DmData.removeLevel, hw, hc]
      constructor
      · apply DmKept.set d w _ c lv hc
        intro lv' hne
        simp only [Container.update, Container.removeLevel]
        refine ((C12.sortBlocks_perm _).filter _).trans ?_
        rw [List.filter_filter]
        apply List.Perm.of_eq
        apply List.filter_congr
        intro x _
        by_cases hx : x.level = lv'
        · have : ¬ x.level = lv := fun h => hne (by rw [← hx, h])
          simp [hx]
          exact fun h => absurd h hne
        · simp [hx]
      · simp only [DmData.levelBlocks, hw, Gen.get_set, if_true, List.filter_eq_nil_iff]
        intro x hx
        have := (C12.removeLevel_spec c lv x hx).2
        simpa using this

/-! ## RPU level -/

/-- `r'` is `r` except for the `modified` marker and the DM data -/
structure RpuKept (r r' : Rpu) : Prop where
  profile : r'.dovi_profile = r.dovi_profile
  elType : r'.el_type = r.el_type
  header : r'.header = r.header
  mapping : r'.rpu_data_mapping = r.rpu_data_mapping
  remaining : r'.remaining = r.remaining
  crc : r'.rpu_data_crc32 = r.rpu_data_crc32
  trailing : r'.trailing_zeroes = r.trailing_zeroes

/-- the DM data of `r'` is that of `r` up to the blocks of level `lv` (and absent iff absent) -/
def DmOfKept (r r' : Rpu) (lv : Nat) : Prop :=
  match r.vdr_dm_data with
  | none => r'.vdr_dm_data = none
  | some d => ∃ d', r'.vdr_dm_data = some d' ∧ DmKept d d' lv

/-- **level6 / level9 / level11 / level255** (`replaceIfDm r b _`): only the blocks of `b.level` can change; a frame
without DM data is untouched (except `modified`) -/
theorem replaceIfDm_kept (r r' : Rpu) (b : Block) (a : Bool) (h : replaceIfDm r b a = .ok r') :
    RpuKept r r' ∧ DmOfKept r r' b.level := by
  unfold replaceIfDm at h
  unfold DmOfKept
  cases hd : r.vdr_dm_data with
  | none =>
    simp only [hd] at h
    injection h with h; subst h
    cases a <;> exact ⟨⟨rfl, rfl, rfl, rfl, rfl, rfl, rfl⟩, by simp [hd]⟩
  | some d =>
    simp only [hd, bind_ok_iff] at h
    obtain ⟨d', hd', h2⟩ := h
    injection h2 with h2; subst h2
    exact ⟨⟨rfl, rfl, rfl, rfl, rfl, rfl, rfl⟩, d', rfl, replaceBlock_kept d d' b hd'⟩

/-- … and when the level's container exists the new block is stored -/
theorem replaceIfDm_stored (r r' : Rpu) (b : Block) (a : Bool) (h : replaceIfDm r b a = .ok r') (d : DmData)
    (hd : r.vdr_dm_data = some d) (hk : Gen.keyed b.level = false) (hh : Gen.holds d b.level) :
    ∃ d', r'.vdr_dm_data = some d' ∧ d'.levelBlocks b.level = [b] := by
  unfold replaceIfDm at h
  simp only [hd, bind_ok_iff] at h
  obtain ⟨d', hd', h2⟩ := h
  injection h2 with h2; subst h2
  refine ⟨d', rfl, ?_⟩
  obtain ⟨w, c, hw, hc⟩ := hh
  have hk' : (b.level == 2 || b.level == 8 || b.level == 10) = false := hk
  unfold DmData.replaceBlock at hd'
  simp only [hk', Bool.false_eq_true, if_false] at hd'
  split at hd'
  · cases hd'
  · unfold DmData.replaceLevel DmData.removeLevel DmData.addBlock at hd'
    simp only [hw, hc, Gen.get_set, if_true, Container.addBlock, Gen.which_allowed hw, Res.bind, Gen.set_set] at hd'
    injection hd' with hd'; subst hd'
    simp only [DmData.levelBlocks, hw, Gen.get_set, if_true, Container.update, Container.removeLevel]
    apply List.perm_singleton.mp
    refine ((C12.sortBlocks_perm _).filter _).trans ?_
    rw [List.filter_append]
    have h1 : List.filter (fun x => x.level == b.level) (sortBlocks (List.filter (fun x => x.level != b.level) c.blocks)) = [] := by
      rw [List.filter_eq_nil_iff]
      intro x hx
      rw [C12.mem_sortBlocks, List.mem_filter] at hx
      simpa using hx.2
    rw [h1]; simp

/-- **crop / active-area presets** (`setOffsets`, `crop`): only the L5 block can change -/
theorem setOffsets_kept (r r' : Rpu) (p : Preset) (h : setOffsets r p = .ok r') :
    RpuKept r r' ∧ DmOfKept r r' 5 := by
  unfold setOffsets withDm at h
  unfold DmOfKept
  cases hd : r.vdr_dm_data with
  | none =>
    simp only [hd] at h
    injection h with h; subst h
    exact ⟨⟨rfl, rfl, rfl, rfl, rfl, rfl, rfl⟩, by simp [hd]⟩
  | some d =>
    simp only [hd, bind_ok_iff] at h
    obtain ⟨d', hd', h2⟩ := h
    injection h2 with h2; subst h2
    exact ⟨⟨rfl, rfl, rfl, rfl, rfl, rfl, rfl⟩, d', rfl, replaceBlock_kept d d' _ hd'⟩

theorem crop_kept (r r' : Rpu) (h : r.crop = .ok r') : RpuKept r r' ∧ DmOfKept r r' 5 := by
  rw [crop_eq_setOffsets] at h; exact setOffsets_kept r r' _ h

/-- **drop_l5**: only the L5 blocks go -/
theorem dropL5_kept (r : Rpu) (d : DmData) (hd : r.vdr_dm_data = some d) :
    let r' : Rpu := { r with modified := true, vdr_dm_data := some (d.removeLevel 5) }
    RpuKept r r' ∧ DmOfKept r r' 5 ∧ (d.removeLevel 5).levelBlocks 5 = [] := by
  refine ⟨⟨rfl, rfl, rfl, rfl, rfl, rfl, rfl⟩, ?_, (removeLevel_kept d 5).2⟩
  unfold DmOfKept
  simp only [hd]
  exact ⟨_, rfl, (removeLevel_kept d 5).1⟩

/-- **min_pq / max_pq** (`change_source_levels`): every block, every container and every DM field other than
`source_min_pq` / `source_max_pq` (entries 29 and 30 of `main`) is kept -/
theorem changeSourceLevels_kept (d : DmData) (a b : Option Nat) :
    (d.changeSourceLevels a b).cmv29 = d.cmv29 ∧ (d.changeSourceLevels a b).cmv40 = d.cmv40 ∧
    (d.changeSourceLevels a b).scene_refresh_flag = d.scene_refresh_flag ∧
    (d.changeSourceLevels a b).compressed = d.compressed ∧
    (d.changeSourceLevels a b).affected_dm_metadata_id = d.affected_dm_metadata_id ∧
    (d.changeSourceLevels a b).current_dm_metadata_id = d.current_dm_metadata_id ∧
    (d.changeSourceLevels a b).main.length = d.main.length ∧
    ∀ j, j ≠ 29 → j ≠ 30 → (d.changeSourceLevels a b).main[j]? = d.main[j]? := by
  refine ⟨?_, ?_, ?_, ?_, ?_, ?_, Gen.csl_length d a b, Gen.csl_other d a b⟩ <;>
    (rw [Gen.csl_eq])

/-- **remove_mapping**: the DM data, the header and everything else but the mapping is kept -/
theorem removeMapping_kept (r : Rpu) :
    r.removeMapping.vdr_dm_data = r.vdr_dm_data ∧ r.removeMapping.header = r.header ∧
    r.removeMapping.dovi_profile = r.dovi_profile ∧ r.removeMapping.el_type = r.el_type ∧
    r.removeMapping.remaining = r.remaining ∧ r.removeMapping.trailing_zeroes = r.trailing_zeroes ∧
    r.removeMapping.rpu_data_mapping.isSome = r.rpu_data_mapping.isSome := by
  refine ⟨rfl, rfl, rfl, rfl, rfl, rfl, ?_⟩
  simp [Rpu.removeMapping]

/-- **remove_cmv4**: only the CM v4.0 container goes -/
theorem removeCmv40_kept (r : Rpu) :
    RpuKept r r.removeCmv40 ∧
    match r.vdr_dm_data with
    | none => r.removeCmv40.vdr_dm_data = none
    | some d => r.removeCmv40.vdr_dm_data = some { d with cmv40 := none } := by
  unfold Rpu.removeCmv40
  cases hd : r.vdr_dm_data with
  | none => exact ⟨⟨rfl, rfl, rfl, rfl, rfl, rfl, rfl⟩, by simp [hd]⟩
  | some d =>
    simp only
    split
    · exact ⟨⟨rfl, rfl, rfl, rfl, rfl, rfl, rfl⟩, rfl⟩
    · rename_i hc
      refine ⟨⟨rfl, rfl, rfl, rfl, rfl, rfl, rfl⟩, ?_⟩
      have : d.cmv40 = none := by simpa using hc
      simp only [hd]
      cases d; simp_all

/-- the block containers, the scene flag and the ids of the DM data are identical; of `main` the entries from
`signal_eotf` on (index ≥ 21) other than `signal_color_space` (26) are kept -/
structure DmBlocksSame (d d' : DmData) : Prop where
  c29 : d'.cmv29 = d.cmv29
  c40 : d'.cmv40 = d.cmv40
  flag : d'.scene_refresh_flag = d.scene_refresh_flag
  compressed : d'.compressed = d.compressed
  affected : d'.affected_dm_metadata_id = d.affected_dm_metadata_id
  current : d'.current_dm_metadata_id = d.current_dm_metadata_id
  main : ∀ j, 21 ≤ j → j ≠ 26 → d'.main[j]? = d.main[j]?

theorem DmBlocksSame.refl (d : DmData) : DmBlocksSame d d := ⟨rfl, rfl, rfl, rfl, rfl, rfl, fun _ _ _ => rfl⟩

theorem setP81Coeffs_same (d : DmData) : DmBlocksSame d d.setP81Coeffs := by
  refine ⟨rfl, rfl, rfl, rfl, rfl, rfl, ?_⟩
  intro j h1 h2
  have h2' : ¬ 26 = j := fun h => h2 h.symm
  simp only [DmData.setP81Coeffs, List.getElem?_set, h2', if_false]
  rw [List.getElem?_append_right (by simpa using h1)]
  simp only [List.length_cons, List.length_nil, List.getElem?_drop]
  congr 1; omega

theorem DmBlocksSame.trans {a b c : DmData} (h1 : DmBlocksSame a b) (h2 : DmBlocksSame b c) : DmBlocksSame a c :=
  ⟨h2.c29.trans h1.c29, h2.c40.trans h1.c40, h2.flag.trans h1.flag, h2.compressed.trans h1.compressed,
   h2.affected.trans h1.affected, h2.current.trans h1.current, fun j a1 a2 => (h2.main j a1 a2).trans (h1.main j a1 a2)⟩

/-- what a conversion keeps of the frame -/
def ModeKept (r r' : Rpu) : Prop :=
  r'.remaining = r.remaining ∧ r'.rpu_data_crc32 = r.rpu_data_crc32 ∧ r'.trailing_zeroes = r.trailing_zeroes ∧
  match r.vdr_dm_data with
  | none => r'.vdr_dm_data = none
  | some d => ∃ d', r'.vdr_dm_data = some d' ∧ DmBlocksSame d d'

theorem modeKept_of (r r' : Rpu) (h1 : r'.remaining = r.remaining) (h2 : r'.rpu_data_crc32 = r.rpu_data_crc32)
    (h3 : r'.trailing_zeroes = r.trailing_zeroes)
    (h4 : r'.vdr_dm_data = r.vdr_dm_data ∨ r'.vdr_dm_data = r.vdr_dm_data.map DmData.setP81Coeffs ∨
          r'.vdr_dm_data = (r.vdr_dm_data.map DmData.setP81Coeffs).map DmData.setP81Coeffs) : ModeKept r r' := by
  refine ⟨h1, h2, h3, ?_⟩
  cases hd : r.vdr_dm_data with
  | none => rcases h4 with h | h | h <;> simpa [hd] using h
  | some d =>
    rcases h4 with h | h | h
    · exact ⟨d, by rw [h, hd], DmBlocksSame.refl d⟩
    · exact ⟨_, by rw [h, hd]; rfl, setP81Coeffs_same d⟩
    · exact ⟨_, by rw [h, hd]; rfl, (setP81Coeffs_same d).trans (setP81Coeffs_same _)⟩

theorem convertToMel_kept (r r' : Rpu) (h : r.convertToMel = .ok r') :
    r'.remaining = r.remaining ∧ r'.rpu_data_crc32 = r.rpu_data_crc32 ∧ r'.trailing_zeroes = r.trailing_zeroes ∧
    r'.vdr_dm_data = r.vdr_dm_data := by
  unfold Rpu.convertToMel at h
  simp only at h
  (repeat' split at h) <;> first | (injection h with h; subst h; exact ⟨rfl, rfl, rfl, rfl⟩) | cases h

/-- **mode** (`convert_with_mode`, any mode): the extension blocks, the scene flag, the DM ids, the source levels
(`main` from index 21 on, except the colour-space entry), and the unparsed remainder are kept -/
theorem convertWithMode_kept (r r' : Rpu) (m : Mode) (h : r.convertWithMode m = .ok r') : ModeKept r r' := by
  unfold Rpu.convertWithMode at h
  have e0 : (Mode.lossless != Mode.lossless) = false := by decide
  have e1 : (Mode.toMel != Mode.lossless) = true := by decide
  have e2 : (Mode.to81 != Mode.lossless) = true := by decide
  have e3 : (Mode.to84 != Mode.lossless) = true := by decide
  have e4 : (Mode.to81MappingPreserved != Mode.lossless) = true := by decide
  cases m <;> simp only [e0, e1, e2, e3, e4, if_true, Bool.false_eq_true, if_false] at h
  · injection h with h; subst h
    exact modeKept_of _ _ rfl rfl rfl (Or.inl rfl)
  · split at h
    · rw [bind_ok_iff] at h
      obtain ⟨r1, h1, h2⟩ := h
      injection h2 with h2; subst h2
      obtain ⟨a1, a2, a3, a4⟩ := convertToMel_kept _ _ h1
      exact modeKept_of _ _ a1 a2 a3 (Or.inl a4)
    · cases h
  · split at h
    · injection h with h; subst h
      split <;> exact modeKept_of _ _ rfl rfl rfl (Or.inr (Or.inl rfl))
    · split at h
      · injection h with h; subst h
        exact modeKept_of _ _ rfl rfl rfl (Or.inr (Or.inr rfl))
      · cases h
  · injection h with h; subst h
    exact modeKept_of _ _ rfl rfl rfl (Or.inr (Or.inl rfl))
  · split at h
    · injection h with h; subst h
      exact modeKept_of _ _ rfl rfl rfl (Or.inr (Or.inl rfl))
    · cases h

/-! ## `execute` with `source_rpu` -/

/-- the config without its `source_rpu` -/
def noSource (c : Config) : Config := { c with source := none }

theorem executeSingle_noSource (c : Config) (r : Rpu) : executeSingle (noSource c) r = executeSingle c r := rfl
theorem frameSem_noSource (c : Config) (j : Nat) (r : Rpu) : frameSem (noSource c) j r = frameSem c j r := rfl

/-- `execute` with a source list = `execute` without it, then the length check on the frames that remain, then
`replace_from_rpus` -/
theorem execute_source_split (c : Config) (src : List Rpu) (hs : c.source = some src) (l out : List (Option Rpu)) :
    execute c l = .ok out ↔
      ∃ mid lv, execute (noSource c) l = .ok mid ∧ mid.countP Option.isSome = src.length ∧ c.levels = some lv ∧
        replaceFromSource lv mid src = .ok out := by
  have hfun : (fun r => executeSingle (noSource c) r) = fun r => executeSingle c r := rfl
  unfold execute
  simp only [bind_ok_iff, hs]
  show _ ↔ ∃ mid lv, (∃ l1, _ ∧ ∃ l2, mapSome (executeSingle (noSource c)) l1 = _ ∧ _) ∧ _
  constructor
  · rintro ⟨l1, h1, l2, h2, l3, h3, l4, h4, h5⟩
    split at h5
    · cases h5
    · rename_i hlen
      split at h5
      · cases h5
      · rename_i lv hlv
        refine ⟨l4, lv, ⟨l1, h1, l2, h2, l3, h3, l4, h4, rfl⟩, by simpa using hlen, hlv, h5⟩
  · rintro ⟨mid, lv, ⟨l1, h1, l2, h2, l3, h3, l4, h4, h5⟩, hlen, hlv, hr⟩
    injection h5 with h5; subst h5
    refine ⟨l1, h1, l2, h2, l3, h3, l4, h4, ?_⟩
    simp [hlen, hlv, hr]

/-- number of positions before `j` that hold a frame and are not listed in `remove` -/
def keptBefore (rs : List String) (l : List (Option Rpu)) (j : Nat) : Nat :=
  ((List.range j).filter fun i => (l[i]?.bind id).isSome && !removed rs i).length

theorem countP_take_kept (rs : List String) (l mid : List (Option Rpu))
    (h : PW (fun j x y => y.isSome = (x.isSome && !removed rs j)) l mid) (j : Nat) (hj : j ≤ l.length) :
    (mid.take j).countP Option.isSome = keptBefore rs l j := by
  have hmap : (mid.take j).map Option.isSome =
      (List.range j).map (fun i => (l[i]?.bind id).isSome && !removed rs i) := by
    apply List.ext_getElem?
    intro i
    by_cases hi : i < j
    · have hil : i < l.length := by omega
      obtain ⟨y, hy, hs⟩ := h.2 i l[i] (by simp [hil])
      simp only [Nat.zero_add] at hs
      simp [hi, hy, hs, hil]
    · have h1 : (mid.take j).length ≤ i := by simp; omega
      simp [hi]; omega
  have := congrArg (List.countP (fun b => b)) hmap
  simp only [List.countP_map, Function.comp_def] at this
  rw [keptBefore, ← List.countP_eq_length_filter]
  simpa using this

theorem countP_take_lt (l : List (Option Rpu)) (j : Nat) (r : Rpu) (h : l[j]? = some (some r)) :
    (l.take j).countP Option.isSome < l.countP Option.isSome := by
  have hj : j < l.length := (List.getElem?_eq_some_iff.mp h).1
  have hl : l[j] = some r := (List.getElem?_eq_some_iff.mp h).2
  have : l = l.take j ++ l[j] :: l.drop (j + 1) := by simp
  conv => rhs; rw [this]
  rw [List.countP_append, List.countP_cons, hl]
  simp

/-- **execute_with_source** — `execute` of a config with `source_rpu = src`, frame by frame: it succeeds only with a
level list, and only when the number of frames that remain (present and not removed) equals `src.length`; position
`j` is empty iff it was empty or removed; otherwise it holds `frameSem c j r` (per-frame operations, scene cuts,
active area) with the listed levels replaced from source entry `keptBefore … j` — the number of remaining frames
before `j` -/
theorem execute_with_source (c : Config) (src : List Rpu) (hs : c.source = some src) (l out : List (Option Rpu))
    (h : execute c l = .ok out) :
    ∃ lv, c.levels = some lv ∧ out.length = l.length ∧
      keptBefore (c.remove.getD []) l l.length = src.length ∧
      ∀ (j : Nat) (x : Option Rpu), l[j]? = some x →
        (removed (c.remove.getD []) j = true → out[j]? = some none) ∧
        (x = none → out[j]? = some none) ∧
        (removed (c.remove.getD []) j = false → ∀ r, x = some r →
           ∃ r1 s r', frameSem c j r = .ok r1 ∧ src[keptBefore (c.remove.getD []) l j]? = some s ∧
             r1.replaceLevelsFrom s lv = .ok r' ∧ out[j]? = some (some r')) := by
  obtain ⟨mid, lv, hmid, hlen, hlv, hrep⟩ := (execute_source_split c src hs l out).mp h
  have hshape := execute_shape (noSource c) l mid hmid
  have hframe := execute_frame (noSource c) rfl l mid hmid
  have hsrc := replaceFromSource_spec lv mid out src hrep
  have hrem : (noSource c).remove = c.remove := rfl
  rw [hrem] at hshape hframe
  have hml : mid.length = l.length := hshape.1
  refine ⟨lv, hlv, by rw [hsrc.1, hml], ?_, ?_⟩
  · rw [← countP_take_kept _ l mid hshape l.length (Nat.le_refl _), ← hml, List.take_length, hlen]
  · intro j x hx
    have hj : j < l.length := (List.getElem?_eq_some_iff.mp hx).1
    obtain ⟨y, hy, hl⟩ := hframe.2 j x hx
    simp only [Nat.zero_add] at hl
    obtain ⟨s1, s2⟩ := hsrc.2 j y hy
    refine ⟨?_, ?_, ?_⟩
    · intro hr
      simp only [hr, if_true] at hl
      exact s1 hl
    · intro hx0; subst hx0
      by_cases hr : removed (c.remove.getD []) j = true
      · simp only [hr, if_true] at hl; exact s1 hl
      · simp only [hr, Bool.false_eq_true, if_false, Lift] at hl; exact s1 hl
    · intro hr r hxr; subst hxr
      simp only [hr, Bool.false_eq_true, if_false] at hl
      obtain ⟨r1, hr1, rfl⟩ := hl
      obtain ⟨r', ho, hm⟩ := s2 r1 rfl
      have hk := countP_take_kept _ l mid hshape j (by omega)
      have hlt := countP_take_lt mid j r1 hy
      rw [hk, hlen] at hlt
      rw [hk] at hm
      cases hsj : src[keptBefore (c.remove.getD []) l j]? with
      | none =>
        have := List.getElem?_eq_none_iff.mp hsj
        omega
      | some s =>
        rw [hsj] at hm
        exact ⟨r1, s, r', hr1, rfl, hm, ho⟩

/-! ## the whole per-frame pass -/

/-- no per-frame operation creates or deletes the DM data or touches the unparsed remainder / CRC field /
trailing zeroes -/
structure Skeleton (r r' : Rpu) : Prop where
  remaining : r'.remaining = r.remaining
  crc : r'.rpu_data_crc32 = r.rpu_data_crc32
  trailing : r'.trailing_zeroes = r.trailing_zeroes
  dm : r'.vdr_dm_data.isSome = r.vdr_dm_data.isSome

theorem Skeleton.refl (r : Rpu) : Skeleton r r := ⟨rfl, rfl, rfl, rfl⟩
theorem Skeleton.trans {a b c : Rpu} (h1 : Skeleton a b) (h2 : Skeleton b c) : Skeleton a c :=
  ⟨h2.remaining.trans h1.remaining, h2.crc.trans h1.crc, h2.trailing.trans h1.trailing, h2.dm.trans h1.dm⟩

theorem Skeleton.of_kept {r r' : Rpu} {lv : Nat} (h : RpuKept r r' ∧ DmOfKept r r' lv) : Skeleton r r' := by
  obtain ⟨h1, h2⟩ := h
  refine ⟨h1.remaining, h1.crc, h1.trailing, ?_⟩
  unfold DmOfKept at h2
  cases hd : r.vdr_dm_data with
  | none => simp only [hd] at h2; simp [h2]
  | some d => simp only [hd] at h2; obtain ⟨d', hd', _⟩ := h2; simp [hd']

theorem Skeleton.of_mode {r r' : Rpu} (h : ModeKept r r') : Skeleton r r' := by
  obtain ⟨h1, h2, h3, h4⟩ := h
  refine ⟨h1, h2, h3, ?_⟩
  cases hd : r.vdr_dm_data with
  | none => simp only [hd] at h4; simp [h4]
  | some d => simp only [hd] at h4; obtain ⟨d', hd', _⟩ := h4; simp [hd']

theorem skeleton_go (ps : List Preset) (edits : List (String × Nat)) (r r' : Rpu)
    (h : activeAreaSingle.go ps r edits = .ok r') : Skeleton r r' := by
  induction edits generalizing r with
  | nil => simp [activeAreaSingle.go] at h; subst h; exact Skeleton.refl _
  | cons kv rest ih =>
    obtain ⟨k, id⟩ := kv
    simp only [activeAreaSingle.go] at h
    split at h
    · split at h
      · rw [bind_ok_iff] at h
        obtain ⟨r1, h1, h2⟩ := h
        exact (Skeleton.of_kept (setOffsets_kept _ _ _ h1)).trans (ih _ h2)
      · cases h
    · exact ih _ h

theorem skeleton_activeAreaSingle (c : Config) (r r' : Rpu) (h : activeAreaSingle c r = .ok r') : Skeleton r r' := by
  unfold activeAreaSingle at h
  simp only [bind_ok_iff] at h
  obtain ⟨r1, h1, r2, h2, h3⟩ := h
  have s1 : Skeleton r r1 := by
    split at h1
    · exact Skeleton.of_kept (crop_kept _ _ h1)
    · injection h1 with h1; subst h1; exact Skeleton.refl _
  have s2 : Skeleton r1 r2 := by
    (repeat' split at h2) <;> (injection h2 with h2; subst h2) <;>
      first
      | exact Skeleton.refl _
      | (refine ⟨rfl, rfl, rfl, ?_⟩; simp_all)
  have s3 : Skeleton r2 r' := by
    split at h3
    · exact skeleton_go _ _ _ _ h3
    · injection h3 with h3; subst h3; exact Skeleton.refl _
  exact (s1.trans s2).trans s3

theorem skeleton_foldl {β} (f : Rpu → β → Rpu) (hf : ∀ r e, Skeleton r (f r e)) (es : List β) (r : Rpu) :
    Skeleton r (es.foldl f r) := by
  induction es generalizing r with
  | nil => exact Skeleton.refl _
  | cons e es ih => exact (hf r e).trans (ih _)

/-- **the per-frame pass as a whole** (`execute_single_rpu`, every config): the frame keeps its unparsed remainder,
CRC field and trailing zeroes, and it has DM data afterwards iff it had before -/
theorem executeSingle_skeleton (c : Config) (r r' : Rpu) (h : executeSingle c r = .ok r') : Skeleton r r' := by
  unfold executeSingle at h
  simp only [bind_ok_iff] at h
  obtain ⟨r1, h1, r2, h2, r3, h3, r4, h4, r5, h5, r6, h6, r7, h7, r8, h8, r9, h9, h10⟩ := h
  have hrefl : ∀ {a b : Rpu}, Res.ok a = Res.ok b → Skeleton a b := by
    intro a b hab; injection hab with hab; subst hab; exact Skeleton.refl _
  have s1 : Skeleton r r1 := by
    split at h1
    · injection h1 with h1; subst h1
      obtain ⟨k, hk⟩ := removeCmv40_kept r
      refine ⟨k.remaining, k.crc, k.trailing, ?_⟩
      cases hd : r.vdr_dm_data with
      | none => simp only [hd] at hk; simp [hk]
      | some d => simp only [hd] at hk; simp [hk]
    · exact hrefl h1
  have s2 : Skeleton r1 r2 := by
    split at h2
    · exact Skeleton.of_mode (convertWithMode_kept _ _ _ h2)
    · exact hrefl h2
  have s3 : Skeleton r2 r3 := by
    split at h3
    · injection h3 with h3; subst h3; exact ⟨rfl, rfl, rfl, by simp⟩
    · exact hrefl h3
  have s4 : Skeleton r3 r4 := by
    split at h4
    · injection h4 with h4; subst h4; exact ⟨rfl, rfl, rfl, rfl⟩
    · exact hrefl h4
  have s5 : Skeleton r4 r5 := by
    split at h5
    · exact Skeleton.of_kept (replaceIfDm_kept _ _ _ _ h5)
    · exact hrefl h5
  have s6 : Skeleton r5 r6 := by
    split at h6
    · exact Skeleton.of_kept (replaceIfDm_kept _ _ _ _ h6)
    · exact hrefl h6
  have s7 : Skeleton r6 r7 := by
    split at h7
    · exact Skeleton.of_kept (replaceIfDm_kept _ _ _ _ h7)
    · exact hrefl h7
  have s8 : Skeleton r7 r8 := by
    split at h8
    · exact Skeleton.of_kept (replaceIfDm_kept _ _ _ _ h8)
    · exact hrefl h8
  have s9 : Skeleton r8 r9 := by
    split at h9
    · injection h9 with h9; subst h9
      apply skeleton_foldl
      intro a e
      split
      · split
        · rename_i d hd; exact ⟨rfl, rfl, rfl, by simp [hd]⟩
        · exact Skeleton.refl _
      · exact Skeleton.refl _
    · exact hrefl h9
  have s10 : Skeleton r9 r' := by
    split at h10
    · exact skeleton_activeAreaSingle c _ _ h10
    · exact hrefl h10
  exact ((((((((s1.trans s2).trans s3).trans s4).trans s5).trans s6).trans s7).trans s8).trans s9).trans s10

end Dovi.EditorOpsProof
