import DoviModel.Model.Esc
namespace Dovi.Esc

theorem unesc_esc (n z : Nat) (xs : Bytes) (h : z + 1 ≤ n) :
    unesc z (esc n z xs) = xs := by
  induction xs generalizing n z with
  | nil => simp [esc, unesc]
  | cons b bs ih =>
    unfold esc
    split
    · rename_i hc
      obtain ⟨h1, h2, h3⟩ := hc
      simp only [unesc, h2, true_and, if_true]
      by_cases hb : b = 0
      · subst hb
        simp
        exact ih _ _ (by omega)
      · simp [hb]
        exact ih _ _ (by omega)
    · rename_i hc
      by_cases hz : z ≥ 2
      · have hn : n > 2 := by omega
        have hb : ¬ b ≤ 3 := by
          intro hb; exact hc ⟨hn, hz, hb⟩
        have hb3 : b ≠ 3 := by
          intro e; subst e; exact hb (by decide)
        have hb0 : b ≠ 0 := by
          intro e; subst e; exact hb (by decide)
        simp [unesc, hb3, hb0]
        exact ih _ _ (by omega)
      · have : ¬ (z ≥ 2 ∧ b = 3) := fun h => hz h.1
        simp only [unesc, this, if_false]
        congr 1
        by_cases hb0 : b = 0
        · simp [hb0]; exact ih _ _ (by omega)
        · simp [hb0]; exact ih _ _ (by omega)

/-- `esc` with every emitted byte tagged: `true` = inserted emulation-prevention byte -/
def escM (n z : Nat) : Bytes → List (UInt8 × Bool)
  | [] => []
  | b :: bs =>
    if n > 2 ∧ z ≥ 2 ∧ b ≤ 3 then
      (3, true) :: (b, false) :: escM (n+2) (if b = 0 then 1 else 0) bs
    else
      (b, false) :: escM (n+1) (if b = 0 then z+1 else 0) bs

theorem escM_fst (n z : Nat) (xs : Bytes) : (escM n z xs).map Prod.fst = esc n z xs := by
  induction xs generalizing n z with
  | nil => simp [escM, esc]
  | cons b bs ih =>
    unfold escM esc
    split <;> simp [ih]

/-- the payload bytes (untagged ones) of the tagged output are the input, in order -/
theorem escM_payload (n z : Nat) (xs : Bytes) :
    ((escM n z xs).filter (fun p => !p.2)).map Prod.fst = xs := by
  induction xs generalizing n z with
  | nil => simp [escM]
  | cons b bs ih =>
    unfold escM
    split <;> simp [ih]

/-- No emulation in a tagged byte string, scanning with `z` = zero bytes immediately before:
after two zero bytes the next byte is > 3, or it is an *inserted* 3. -/
def OkM (z : Nat) : List (UInt8 × Bool) → Prop
  | [] => True
  | (b, ins) :: rest =>
    (z ≥ 2 → (b > 3 ∨ (b = 3 ∧ ins = true))) ∧ OkM (if b = 0 then z+1 else 0) rest

theorem esc_okM (n z : Nat) (xs : Bytes) (h : z + 1 ≤ n) : OkM z (escM n z xs) := by
  induction xs generalizing n z with
  | nil => simp [escM, OkM]
  | cons b bs ih =>
    unfold escM
    split
    · rename_i hc
      obtain ⟨h1, h2, h3⟩ := hc
      refine ⟨fun _ => Or.inr ⟨rfl, rfl⟩, ?_⟩
      have h30 : ((3 : UInt8) = 0) = False := by decide
      simp only [h30, if_false]
      refine ⟨fun hz => by omega, ?_⟩
      by_cases hb : b = 0
      · simp only [hb, if_true]; exact ih _ _ (by omega)
      · simp only [hb, if_false]; exact ih _ _ (by omega)
    · rename_i hc
      refine ⟨fun hz => ?_, ?_⟩
      · have hn : n > 2 := by omega
        have hb : ¬ b ≤ 3 := fun hb => hc ⟨hn, hz, hb⟩
        exact Or.inl (UInt8.not_le.mp hb)
      · by_cases hb : b = 0
        · simp only [hb, if_true]; exact ih _ _ (by omega)
        · simp only [hb, if_false]; exact ih _ _ (by omega)

/-- the same fact on plain bytes: after two zero bytes the next byte is ≥ 3 -/
def NoEmul (z : Nat) : Bytes → Prop
  | [] => True
  | b :: rest => (z ≥ 2 → b ≥ 3) ∧ NoEmul (if b = 0 then z+1 else 0) rest

theorem okM_noEmul (z : Nat) (l : List (UInt8 × Bool)) (h : OkM z l) : NoEmul z (l.map Prod.fst) := by
  induction l generalizing z with
  | nil => simp [NoEmul]
  | cons p rest ih =>
    obtain ⟨b, ins⟩ := p
    obtain ⟨h1, h2⟩ := h
    refine ⟨fun hz => ?_, ih _ h2⟩
    rcases h1 hz with hgt | ⟨rfl, _⟩
    · exact UInt8.le_of_lt hgt
    · exact UInt8.le_refl _

theorem esc_noEmul (n z : Nat) (xs : Bytes) (h : z + 1 ≤ n) : NoEmul z (esc n z xs) := by
  rw [← escM_fst]; exact okM_noEmul _ _ (esc_okM n z xs h)

end Dovi.Esc

namespace Dovi.Esc

/-- index form of `NoEmul`: two consecutive zero bytes are never followed by a byte below 3 -/
theorem noEmul_index (z : Nat) (l : Bytes) (h : NoEmul z l) (i : Nat) (b : UInt8)
    (h0 : l[i]? = some 0) (h1 : l[i+1]? = some 0) (h2 : l[i+2]? = some b) : b ≥ 3 := by
  induction i generalizing z l with
  | zero =>
    match l, h0, h1, h2 with
    | x :: y :: w :: rest, h0, h1, h2 =>
      simp at h0 h1 h2
      subst h0 h1 h2
      simp only [NoEmul, if_true] at h
      exact h.2.2.1 (by omega)
  | succ i ih =>
    match l, h with
    | [], _ => simp at h0
    | x :: rest, h =>
      simp only [List.getElem?_cons_succ] at h0 h1 h2
      exact ih _ rest h.2 h0 (by simpa using h1) (by simpa using h2)

end Dovi.Esc
