import DoviModel.Proofs.HevcSei
import DoviModel.Proofs.HevcGeneral
import DoviModel.Proofs.HevcExtract
import DoviModel.Proofs.HevcInject
import DoviModel.Proofs.HevcRoundTrip
import DoviModel.Proofs.HevcStage
import DoviModel.Proofs.HevcOptMap
import DoviModel.Proofs.HevcMux
import DoviModel.Proofs.HevcDemuxMux
import DoviModel.Proofs.HevcCanonical
/-! helper lemmas about the stream-command model (Model/Hevc.lean), by topic -/
