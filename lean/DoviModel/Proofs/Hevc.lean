import DoviModel.Proofs.HevcSei
import DoviModel.Proofs.HevcGeneral
/-! helper lemmas about the stream-command model (Model/Hevc.lean), by topic -/
