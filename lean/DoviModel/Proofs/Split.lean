import DoviModel.Model.Split
import DoviModel.Model.Esc
import DoviModel.Proofs.Esc
namespace Dovi.Split

theorem split_sc (rest : Bytes) : split (0 :: 0 :: 1 :: rest) = ([], (split rest).1 :: (split rest).2) := by
  simp [split]

theorem split_cons_of_not_sc (a b c : UInt8) (rest : Bytes) (h : ¬ (a = 0 ∧ b = 0 ∧ c = 1)) :
    split (a :: b :: c :: rest) = (a :: (split (b :: c :: rest)).1, (split (b :: c :: rest)).2) := by
  simp [split, h]

/-- a buffer without any start code is its own prefix -/
theorem split_nil_snd {x : Bytes} (h : (split x).2 = []) : (split x).1 = x := by
  induction x using split.induct with
  | case1 => simp [split]
  | case2 a => simp [split]
  | case3 a b => simp [split]
  | case4 a b c rest hc ih =>
    obtain ⟨rfl, rfl, rfl⟩ := hc
    rw [split_sc] at h; simp at h
  | case5 a b c rest hc ih =>
    rw [split_cons_of_not_sc _ _ _ _ hc] at h ⊢
    simp at h ⊢
    exact ih h

/-- Appending more input only affects the last segment. -/
theorem split_append (x rest : Bytes) :
    split (x ++ rest) =
      if (split x).2 = [] then split (x ++ rest)
      else ((split x).1,
            (split x).2.dropLast ++
              ((split ((split x).2.getLast?.getD []  ++ rest)).1 ::
               (split ((split x).2.getLast?.getD [] ++ rest)).2)) := by
  induction x using split.induct with
  | case1 => simp [split]
  | case2 a => simp [split]
  | case3 a b => simp [split]
  | case4 a b c x' hc ih =>
    obtain ⟨rfl, rfl, rfl⟩ := hc
    simp only [List.cons_append, split_sc]
    simp only [List.cons_ne_nil, if_false]
    by_cases hn : (split x').2 = []
    · have hx := split_nil_snd hn
      simp [hn, hx]
    · rw [ih]; simp only [hn, if_false]
      cases hs : (split x').2 with
      | nil => exact absurd hs hn
      | cons n ns =>
        simp [List.dropLast, List.getLast?_cons_cons]
  | case5 a b c x' hc ih =>
    by_cases hn : (split (b :: c :: x')).2 = []
    · simp [split_cons_of_not_sc _ _ _ _ hc, hn]
    · have e1 : split (a :: b :: c :: x') = (a :: (split (b :: c :: x')).1, (split (b :: c :: x')).2) :=
        split_cons_of_not_sc _ _ _ _ hc
      have e2 : split (a :: b :: c :: (x' ++ rest)) =
          (a :: (split (b :: c :: (x' ++ rest))).1, (split (b :: c :: (x' ++ rest))).2) :=
        split_cons_of_not_sc _ _ _ _ hc
      have ih' := ih
      simp only [hn, if_false, List.cons_append] at ih'
      simp only [List.cons_append, e1, e2, hn, if_false]
      rw [ih']

theorem run_eq_split (carry : Bytes) (cs : List Bytes) (l : Bytes) :
    run carry cs l = (split (carry ++ cs.flatten ++ l)).2 := by
  induction cs generalizing carry with
  | nil => simp [run]
  | cons c cs ih =>
    simp only [run, List.flatten_cons]
    rw [ih]
    unfold stepNonFinal
    by_cases hn : (split (carry ++ c)).2 = []
    · simp [hn, List.append_assoc]
    · simp only [hn, if_false]
      have hA := split_append (carry ++ c) (cs.flatten ++ l)
      simp only [hn, if_false] at hA
      have e : carry ++ (c ++ cs.flatten) ++ l = (carry ++ c) ++ (cs.flatten ++ l) := by
        simp [List.append_assoc]
      rw [e, hA]
      simp only [SC, List.cons_append, List.nil_append, List.append_assoc, split_sc]

/-! ### what is written re-splits to what was written -/

/-- a buffer free of start codes, followed by a start code: the prefix is exactly the buffer -/
theorem split_noSC_append_sc {p : Bytes} (h : (split p).2 = []) (rest : Bytes) :
    split (p ++ 0 :: 0 :: 1 :: rest) = (p, (split rest).1 :: (split rest).2) := by
  induction p using split.induct with
  | case1 => simp [split]
  | case2 a => simp [split]
  | case3 a b => simp [split]
  | case4 a b c x' hc ih =>
    obtain ⟨rfl, rfl, rfl⟩ := hc
    rw [split_sc] at h; simp at h
  | case5 a b c x' hc ih =>
    rw [split_cons_of_not_sc _ _ _ _ hc] at h
    simp only at h
    have := ih h
    simp only [List.cons_append] at this ⊢
    rw [split_cons_of_not_sc _ _ _ _ hc, this]

theorem split_noSC_snoc_zero {p : Bytes} (h : (split p).2 = []) : (split (p ++ [0])).2 = [] := by
  induction p using split.induct with
  | case1 => simp [split]
  | case2 a => simp [split]
  | case3 a b => simp [split]
  | case4 a b c x' hc ih =>
    obtain ⟨rfl, rfl, rfl⟩ := hc
    rw [split_sc] at h; simp at h
  | case5 a b c x' hc ih =>
    rw [split_cons_of_not_sc _ _ _ _ hc] at h
    simp only at h
    have := ih h
    simp only [List.cons_append] at this ⊢
    rw [split_cons_of_not_sc _ _ _ _ hc]; exact this

/-- a written unit: `four` = written with a 4-byte start code, then the payload -/
abbrev Unit := Bool × Bytes

def lead (four : Bool) : Bytes := if four then [0] else []

/-- the file: every unit as start code ++ payload -/
def render : List Unit → Bytes
  | [] => []
  | (four, p) :: rest => lead four ++ SC ++ p ++ render rest

/-- what the scan returns: each payload, plus the leading zero of a following 4-byte start code -/
def expectSegs : List Unit → List Bytes
  | [] => []
  | [(_, p)] => [p]
  | (_, p) :: (f2, p2) :: rest => (p ++ lead f2) :: expectSegs ((f2, p2) :: rest)

theorem lead_noSC (f : Bool) : (split (lead f)).2 = [] := by
  cases f <;> simp [lead, split]

theorem split_render_cons (four : Bool) (p : Bytes) (rest : List Unit) :
    split (render ((four, p) :: rest)) =
      (lead four, (split (p ++ render rest)).1 :: (split (p ++ render rest)).2) := by
  simp only [render, SC, List.append_assoc, List.cons_append, List.nil_append]
  exact split_noSC_append_sc (lead_noSC four) _

theorem split_render (fs : List Unit) (h : ∀ u ∈ fs, (split u.2).2 = []) :
    (split (render fs)).2 = expectSegs fs := by
  induction fs with
  | nil => simp [render, split, expectSegs]
  | cons u rest ih =>
    obtain ⟨four, p⟩ := u
    rw [split_render_cons]
    have hp : (split p).2 = [] := h (four, p) (by simp)
    cases rest with
    | nil =>
      simp [render, expectSegs, hp, split_nil_snd hp]
    | cons u2 rest2 =>
      obtain ⟨f2, p2⟩ := u2
      have ih' := ih (fun u hu => h u (by simp [hu]))
      rw [split_render_cons] at ih'
      have hpl : (split (p ++ lead f2)).2 = [] := by
        cases f2
        · simpa [lead] using hp
        · simpa [lead] using split_noSC_snoc_zero hp
      have e : p ++ render ((f2, p2) :: rest2) =
          (p ++ lead f2) ++ 0 :: 0 :: 1 :: (p2 ++ render rest2) := by
        simp [render, SC, List.append_assoc]
      rw [e, split_noSC_append_sc hpl]
      simp only [expectSegs]
      simp only at ih'
      rw [← ih']

/-! ### `NoEmul` (what `esc` guarantees) implies "contains no start code" -/

open Dovi.Esc in
theorem noEmul_noSC (z : Nat) (xs : Bytes) (h : NoEmul z xs) : (split xs).2 = [] := by
  induction xs using split.induct generalizing z with
  | case1 => simp [split]
  | case2 a => simp [split]
  | case3 a b => simp [split]
  | case4 a b c rest hc ih =>
    obtain ⟨rfl, rfl, rfl⟩ := hc
    simp only [NoEmul, if_true] at h
    obtain ⟨_, _, h3, _⟩ := h
    have : (1:UInt8) ≥ 3 := h3 (by omega)
    exact absurd this (by decide)
  | case5 a b c rest hc ih =>
    rw [split_cons_of_not_sc _ _ _ _ hc]
    simp only
    obtain ⟨_, h2⟩ := h
    exact ih _ h2

end Dovi.Split
