import DoviModel.Model.RpuWrite
import DoviModel.Model.Esc
/-!
# The HEVC UNSPEC62 NAL entry points (`parse_unspec62_nalu`, `write_hevc_unspec62_nalu`)
-/
namespace Dovi

/-- `DoviRpu::parse_unspec62_nalu`: strip one of the accepted prefixes, remove emulation prevention, parse -/
def parseNalu (d : Bytes) : Res Rpu :=
  (trimPrefix d).bind fun t => parseRpu (Esc.unescape t)

/-- `write_hevc_unspec62_nalu`: `7C 01` + the escaped RPU -/
def writeNalu (r : Rpu) : Res Bytes :=
  (writeRpu r).bind fun o => .ok (0x7C :: 0x01 :: Esc.escape o)

end Dovi
