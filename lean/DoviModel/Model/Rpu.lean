import DoviModel.Model.Bits
/-!
# M3 — the RPU structures and their parser (transliteration of `dolby_vision/src/rpu/*`)

Field names are the Rust field names. `Block.vals` holds the fields of the Rust block struct in declaration
order (without `length`); `DmData.main` holds the 32 fields of the uncompressed `vdr_dm_data` payload in
syntax order. Parse-side only in this file; the writer is in `RpuWrite.lean` (transliterated separately).
-/
namespace Dovi

structure Header where
  rpu_nal_prefix : Nat := 0
  rpu_type : Nat := 0
  rpu_format : Nat := 0
  vdr_rpu_profile : Nat := 0
  vdr_rpu_level : Nat := 0
  vdr_seq_info_present_flag : Bool := false
  chroma_resampling_explicit_filter_flag : Bool := false
  coefficient_data_type : Nat := 0
  coefficient_log2_denom : Nat := 0
  coefficient_log2_denom_length : Nat := 0
  vdr_rpu_normalized_idc : Nat := 0
  bl_video_full_range_flag : Bool := false
  bl_bit_depth_minus8 : Nat := 0
  el_bit_depth_minus8 : Nat := 0
  ext_mapping_idc_0_4 : Nat := 0
  ext_mapping_idc_5_7 : Nat := 0
  vdr_bit_depth_minus8 : Nat := 0
  spatial_resampling_filter_flag : Bool := false
  reserved_zero_3bits : Nat := 0
  el_spatial_resampling_filter_flag : Bool := false
  disable_residual_flag : Bool := false
  vdr_dm_metadata_present_flag : Bool := false
  use_prev_vdr_rpu_flag : Bool := false
  prev_vdr_rpu_id : Nat := 0
deriving Repr, DecidableEq, Inhabited

structure PolyCurve where
  poly_order_minus1 : List Nat := []
  linear_interp_flag : List Bool := []
  poly_coef_int : List (List Int) := []
  poly_coef : List (List Nat) := []
deriving Repr, DecidableEq, Inhabited

structure MmrCurve where
  mmr_order_minus1 : List Nat := []
  mmr_constant_int : List Int := []
  mmr_constant : List Nat := []
  mmr_coef_int : List (List (List Int)) := []
  mmr_coef : List (List (List Nat)) := []
deriving Repr, DecidableEq, Inhabited

inductive MappingMethod where
  | invalid | polynomial | mmr
deriving Repr, DecidableEq, Inhabited

structure Curve where
  num_pivots_minus2 : Nat := 0
  pivots : List Nat := []
  mapping_idc : MappingMethod := .invalid
  polynomial : Option PolyCurve := none
  mmr : Option MmrCurve := none
deriving Repr, DecidableEq, Inhabited

structure Nlq where
  nlq_offset : List Nat := [0, 0, 0]
  vdr_in_max_int : List Nat := [0, 0, 0]
  vdr_in_max : List Nat := [0, 0, 0]
  linear_deadzone_slope_int : List Nat := [0, 0, 0]
  linear_deadzone_slope : List Nat := [0, 0, 0]
  linear_deadzone_threshold_int : List Nat := [0, 0, 0]
  linear_deadzone_threshold : List Nat := [0, 0, 0]
deriving Repr, DecidableEq, Inhabited

structure Mapping where
  vdr_rpu_id : Nat := 0
  mapping_color_space : Nat := 0
  mapping_chroma_format_idc : Nat := 0
  num_x_partitions_minus1 : Nat := 0
  num_y_partitions_minus1 : Nat := 0
  curves : List Curve := [{}, {}, {}]
  nlq_method_idc : Option Nat := none
  nlq_num_pivots_minus2 : Option Nat := none
  nlq_pred_pivot_value : Option (List Nat) := none
  nlq : Option Nlq := none
deriving Repr, DecidableEq, Inhabited

/-- an extension metadata block: `vals` = the struct's fields in declaration order (booleans as 0/1) -/
structure Block where
  level : Nat
  length : Nat
  vals : List Int
deriving Repr, DecidableEq, Inhabited

structure Container where
  num_ext_blocks : Nat := 0
  blocks : List Block := []
deriving Repr, DecidableEq, Inhabited

structure DmData where
  compressed : Bool := false
  affected_dm_metadata_id : Nat := 0
  current_dm_metadata_id : Nat := 0
  scene_refresh_flag : Nat := 0
  /-- ycc_to_rgb_coef0..8, ycc_to_rgb_offset0..2, rgb_to_lms_coef0..8, signal_eotf, signal_eotf_param0..2,
  signal_bit_depth, signal_color_space, signal_chroma_format, signal_full_range_flag, source_min_pq,
  source_max_pq, source_diagonal -/
  main : List Int := List.replicate 32 0
  cmv29 : Option Container := none
  cmv40 : Option Container := none
deriving Repr, DecidableEq, Inhabited

inductive ElType where
  | mel | fel
deriving Repr, DecidableEq, Inhabited

structure Rpu where
  dovi_profile : Nat := 0
  el_type : Option ElType := none
  header : Header := {}
  rpu_data_mapping : Option Mapping := none
  vdr_dm_data : Option DmData := none
  remaining : Option Bits := none
  rpu_data_crc32 : Nat := 0
  modified : Bool := false
  trailing_zeroes : Nat := 0
deriving Repr, DecidableEq, Inhabited

/-! ## field layouts -/

/-- coding of one fixed-width field of a flat layout -/
inductive Fld where
  | u (n : Nat)      -- unsigned, n bits
  | s16              -- 16 bits read as u16, reinterpreted as i16
deriving Repr, DecidableEq

def Fld.width : Fld → Nat
  | .u n => n
  | .s16 => 16

def Fld.decode : Fld → Nat → Int
  | .u _, v => v
  | .s16, v => if v ≥ 32768 then (v : Int) - 65536 else v

def readFld (f : Fld) : P Int := do
  let v ← readN f.width
  pure (f.decode v)

def readFlds : List Fld → P (List Int)
  | [] => pure []
  | f :: fs => do
    let v ← readFld f
    let vs ← readFlds fs
    pure (v :: vs)

/-- the uncompressed `vdr_dm_data` payload after the three ids, as read by `VdrDmData::parse` -/
def dmMainParseLayout : List Fld :=
  List.replicate 9 .s16 ++ [.u 32, .u 32, .u 32] ++ List.replicate 9 .s16 ++
  [.u 16, .u 16, .u 16, .u 32, .u 5, .u 2, .u 2, .u 2, .u 12, .u 12, .u 10]

/-! ## header (rpu_data_header.rs:57-128, 130-194) -/

def parseHeader : P Header := do
  let rpu_type ← readN 6
  P.ensure (rpu_type == 2)
  let rpu_format ← readN 11
  let vdr_rpu_profile ← readN 4
  let vdr_rpu_level ← readN 4
  let seq ← readBit
  let h : Header := { rpu_type, rpu_format, vdr_rpu_profile, vdr_rpu_level, vdr_seq_info_present_flag := seq }
  let h ← (if seq then do
      let chroma ← readBit
      let cdt ← readN 2
      let denom ← (if cdt == 0 then readUe else pure 0)
      let norm ← readN 2
      let full ← readBit
      let h : Header := { h with chroma_resampling_explicit_filter_flag := chroma, coefficient_data_type := cdt,
                                 coefficient_log2_denom := denom, vdr_rpu_normalized_idc := norm,
                                 bl_video_full_range_flag := full }
      let h ← (if rpu_format &&& 0x700 == 0 then do
          let bl ← readUe
          let el ← readUe
          P.ensure (el ≤ 0xFFFF)
          let ext := (el / 256) % 256
          let vdr ← readUe
          let spatial ← readBit
          let reserved ← readN 3
          let elSpatial ← readBit
          let disableRes ← readBit
          pure { h with bl_bit_depth_minus8 := bl, el_bit_depth_minus8 := el % 256,
                        ext_mapping_idc_0_4 := ext % 32, ext_mapping_idc_5_7 := ext / 32,
                        vdr_bit_depth_minus8 := vdr, spatial_resampling_filter_flag := spatial,
                        reserved_zero_3bits := reserved, el_spatial_resampling_filter_flag := elSpatial,
                        disable_residual_flag := disableRes }
        else pure h)
      -- `coefficient_log2_denom as u32`
      if cdt == 0 then pure { h with coefficient_log2_denom_length := h.coefficient_log2_denom % 2^32 }
      else if cdt == 1 then pure { h with coefficient_log2_denom_length := 32 }
      else P.fail
    else pure h)
  let dmPresent ← readBit
  let usePrev ← readBit
  let prevId ← (if usePrev then readUe else pure 0)
  pure { h with vdr_dm_metadata_present_flag := dmPresent, use_prev_vdr_rpu_flag := usePrev, prev_vdr_rpu_id := prevId }

def Header.getDoviProfile (h : Header) : Nat :=
  if h.vdr_rpu_profile == 0 then (if h.bl_video_full_range_flag then 5 else 0)
  else if h.vdr_rpu_profile == 1 then
    (if h.el_spatial_resampling_filter_flag && !h.disable_residual_flag then
      (if h.vdr_bit_depth_minus8 == 4 then 7 else 4)
    else 8)
  else 0

def Header.validate (h : Header) (profile : Nat) : Bool :=
  (if profile == 5 then h.vdr_rpu_profile == 0 && h.bl_video_full_range_flag
   else if profile == 7 then h.vdr_rpu_profile == 1
   else if profile == 8 then h.vdr_rpu_profile == 1
   else true) &&
  h.vdr_rpu_level == 0 && h.bl_bit_depth_minus8 == 2 && h.el_bit_depth_minus8 == 2 &&
  h.vdr_bit_depth_minus8 ≤ 6 && h.coefficient_log2_denom ≤ 23

/-! ## mapping (rpu_data_mapping.rs:100-177, 383-518) -/

def repeatP {α} : Nat → P α → P (List α)
  | 0, _ => pure []
  | n+1, p => do
    let a ← p
    let as ← repeatP n p
    pure (a :: as)

/-- one `(coef_int, coef)` pair: `se` integer part only for coefficient_data_type 0 -/
def parseCoef (h : Header) : P (Option Int × Nat) := do
  let ci ← (if h.coefficient_data_type == 0 then do let v ← readSe; pure (some v) else pure none)
  let c ← readN h.coefficient_log2_denom_length
  pure (ci, c)

def optInts (l : List (Option Int × Nat)) : List Int := l.filterMap (·.1)

/-- `DoviPolynomialCurve::parse`: one piece appended -/
def parsePolyPiece (h : Header) (c : PolyCurve) : P PolyCurve := do
  let order ← readUe
  P.ensure (order ≤ 1)
  let lin ← (if order == 0 then readBit else pure false)
  let c := { c with poly_order_minus1 := c.poly_order_minus1 ++ [order],
                    linear_interp_flag := c.linear_interp_flag ++ [lin] }
  if order == 0 && lin then P.fail
  else do
    let coefs ← repeatP (order + 2) (parseCoef h)
    pure { c with poly_coef_int := c.poly_coef_int ++ [optInts coefs],
                  poly_coef := c.poly_coef ++ [coefs.map (·.2)] }

/-- `DoviMMRCurve::parse`: one piece appended -/
def parseMmrPiece (h : Header) (c : MmrCurve) : P MmrCurve := do
  let order ← readN 2
  P.ensure (order ≤ 2)
  let const ← parseCoef h
  let rows ← repeatP (order + 1) (repeatP 7 (parseCoef h))
  pure { mmr_order_minus1 := c.mmr_order_minus1 ++ [order],
         mmr_constant_int := c.mmr_constant_int ++ (match const.1 with | some v => [v] | none => []),
         mmr_constant := c.mmr_constant ++ [const.2],
         mmr_coef_int := c.mmr_coef_int ++ [rows.map optInts],
         mmr_coef := c.mmr_coef ++ [rows.map (·.map (·.2))] }

/-- the pieces loop of one component -/
def parsePieces (h : Header) : Nat → Curve → P Curve
  | 0, c => pure c
  | n+1, c => do
    let idc ← readUe
    P.ensure (idc ≤ 1)
    if idc == 0 then do
      let pc ← parsePolyPiece h (c.polynomial.getD {})
      parsePieces h n { c with mapping_idc := .polynomial, polynomial := some pc }
    else do
      let mc ← parseMmrPiece h (c.mmr.getD {})
      parsePieces h n { c with mapping_idc := .mmr, mmr := some mc }

def parsePivots (blBitDepth : Nat) : P Curve := do
  let n ← readUe
  let avail ← P.available
  P.ensure (n < avail / blBitDepth)
  let pivots ← repeatP (n + 2) (readN blBitDepth)
  pure { num_pivots_minus2 := n, pivots }

def parseCurvePieces (h : Header) : List Curve → P (List Curve)
  | [] => pure []
  | c :: cs => do
    let c' ← parsePieces h (c.num_pivots_minus2 + 1) c
    let cs' ← parseCurvePieces h cs
    pure (c' :: cs')

/-- per component: offset, vdr_in_max, slope, threshold (each an optional `ue` integer part + `u(len)`) -/
def parseNlqComp (h : Header) : P (List Nat) := do
  let off ← readN (h.el_bit_depth_minus8 + 8)
  let rd : P (Nat × Nat) := do
    let i ← (if h.coefficient_data_type == 0 then readUe else pure 0)
    let f ← readN h.coefficient_log2_denom_length
    pure (i, f)
  let a ← rd
  let b ← rd
  let c ← rd
  pure [off, a.1, a.2, b.1, b.2, c.1, c.2]

def parseNlq (h : Header) : P Nlq := do
  let comps ← repeatP 3 (parseNlqComp h)
  let col (i : Nat) : List Nat := comps.map fun c => c.getD i 0
  pure { nlq_offset := col 0, vdr_in_max_int := col 1, vdr_in_max := col 2,
         linear_deadzone_slope_int := col 3, linear_deadzone_slope := col 4,
         linear_deadzone_threshold_int := col 5, linear_deadzone_threshold := col 6 }

def parseMapping (h : Header) : P Mapping := do
  let vdr_rpu_id ← readUe
  let mapping_color_space ← readUe
  let mapping_chroma_format_idc ← readUe
  let bl := h.bl_bit_depth_minus8 + 8
  let curves ← repeatP 3 (parsePivots bl)
  let m : Mapping := { vdr_rpu_id, mapping_color_space, mapping_chroma_format_idc, curves }
  let m ← (if h.rpu_format &&& 0x700 == 0 && !h.disable_residual_flag then do
      let idc ← readN 3
      P.ensure (idc == 0)
      let pv ← repeatP 2 (readN bl)
      pure { m with nlq_method_idc := some 0, nlq_num_pivots_minus2 := some 0, nlq_pred_pivot_value := some pv }
    else pure m)
  let nx ← readUe
  let ny ← readUe
  let curves ← parseCurvePieces h m.curves
  let m := { m with num_x_partitions_minus1 := nx, num_y_partitions_minus1 := ny, curves }
  if m.nlq_method_idc.isSome then do
    let nlq ← parseNlq h
    pure { m with nlq := some nlq }
  else pure m

def Nlq.isMel (n : Nlq) : Bool :=
  n.nlq_offset.all (· == 0) && n.vdr_in_max_int.all (· == 1) && n.vdr_in_max.all (· == 0) &&
  n.linear_deadzone_slope_int.all (· == 0) && n.linear_deadzone_slope.all (· == 0) &&
  n.linear_deadzone_threshold_int.all (· == 0) && n.linear_deadzone_threshold.all (· == 0)

def Mapping.elType (m : Mapping) : Option ElType :=
  m.nlq.map fun n => if n.isMel then .mel else .fel

def Curve.piecesOk (c : Curve) : Bool :=
  match c.polynomial, c.mmr with
  | some p, _ => p.poly_order_minus1.length == c.num_pivots_minus2 + 1
  | none, some m => m.mmr_order_minus1.length == c.num_pivots_minus2 + 1
  | none, none => true

def Mapping.validate (m : Mapping) (profile : Nat) : Bool :=
  (if profile == 5 || profile == 8 then
      m.nlq_method_idc.isNone && m.nlq_num_pivots_minus2.isNone && m.nlq_pred_pivot_value.isNone
   else if profile == 7 then
      (match m.nlq_pred_pivot_value with
       | some pv => (pv.foldl (· + ·) 0) % 65536 == 1023
       | none => false)
   else true) &&
  m.curves.all Curve.piecesOk &&
  m.mapping_color_space == 0 && m.mapping_chroma_format_idc == 0

/-! ## extension blocks (extension_metadata/blocks/*.rs) -/

/-- widths read by each level's `parse`, in order (thresholds `length > k` as in the Rust code) -/
def blockParseLayout (level length : Nat) : Option (List Nat) :=
  match level with
  | 1 => some [12, 12, 12]
  | 2 => some [12, 12, 12, 12, 12, 12, 13]
  | 3 => some [12, 12, 12]
  | 4 => some [12, 12]
  | 5 => some [13, 13, 13, 13]
  | 6 => some [16, 16, 16, 16]
  | 8 => some ([8, 12, 12, 12, 12, 12, 12] ++ (if length > 10 then [12] else []) ++
               (if length > 12 then [12] else []) ++ (if length > 13 then [8, 8, 8, 8, 8, 8] else []) ++
               (if length > 19 then [8, 8, 8, 8, 8, 8] else []))
  | 9 => some ([8] ++ (if length > 1 then [16, 16, 16, 16, 16, 16, 16, 16] else []))
  | 10 => some ([8, 12, 12, 8] ++ (if length > 5 then [16, 16, 16, 16, 16, 16, 16, 16] else []))
  | 11 => some [8, 8, 8, 8]
  | 254 => some [8, 8]
  | 255 => some [8, 8, 8, 8, 8, 8]
  | _ => none

/-- defaults of the struct fields that a short variable-length block does not carry (`..Default::default()`) -/
def blockDefaults (level : Nat) : List Int :=
  match level with
  | 8 => [1, 2048, 2048, 2048, 2048, 2048, 2048, 2048, 2048, 128, 128, 128, 128, 128, 128, 128, 128, 128, 128, 128, 128]
  | 9 => [0, 0, 0, 0, 0, 0, 0, 0, 0]
  | 10 => [20, 2081, 0, 2, 0, 0, 0, 0, 0, 0, 0, 0]
  | _ => []

/-- `bytes_size()` -/
def blockBytes (level length : Nat) : Nat :=
  match level with
  | 1 => 5 | 2 => 11 | 3 => 5 | 4 => 3 | 5 => 7 | 6 => 8 | 11 => 4 | 254 => 2 | 255 => 6
  | _ => length

/-- `required_bits()`; `none` where the Rust code hits `unreachable!()` -/
def blockRequiredBits (level length : Nat) : Option Nat :=
  match level with
  | 1 => some 36 | 2 => some 85 | 3 => some 36 | 4 => some 24 | 5 => some 52 | 6 => some 64
  | 11 => some 32 | 254 => some 16 | 255 => some 48
  | 0 => some 0        -- Reserved block created through the API: `data.len()` of an empty bit vector
  | 8 => (match length with | 25 => some 200 | 19 => some 152 | 13 => some 104 | 12 => some 92 | 10 => some 80 | _ => none)
  | 9 => (match length with | 1 => some 8 | 17 => some 136 | _ => none)
  | 10 => (match length with | 5 => some 40 | 21 => some 168 | _ => none)
  | _ => none

def validBlockLength (level length : Nat) : Bool :=
  match level with
  | 8 => length == 10 || length == 12 || length == 13 || length == 19 || length == 25
  | 9 => length == 1 || length == 17
  | 10 => length == 5 || length == 21
  | _ => true

def cmv29Levels : List Nat := [1, 2, 4, 5, 6, 255]
def cmv40Levels : List Nat := [3, 8, 9, 10, 11, 254]

/-- post-processing of the raw values done by the level's `parse` -/
def blockPostParse (level : Nat) (raw : List Int) : List Int :=
  match level, raw with
  | 2, [a, b, c, d, e, f, ms] => [a, b, c, d, e, f, if ms > 4095 then ms - 8192 else ms]
  | 11, [ct, wp, r2, r3] => if wp > 15 then [ct, wp - 16, 1, r2, r3] else [ct, wp, 0, r2, r3]
  | _, raw => raw

/-- `parse_block` of a container (`allowed` = its ALLOWED_BLOCK_LEVELS, `other` = the other container's) -/
def parseBlock (allowed other : List Nat) : P Block := do
  let len ← readUe
  let level ← readN 8
  if other.contains level then P.fail
  else if !allowed.contains level then P.fail      -- unknown level: `ensure!(false, …)`
  else do
    P.ensure (validBlockLength level len)           -- L8/L9/L10 `parse`: length must be a known one
    match blockParseLayout level len with
    | none => P.fail
    | some widths => do
      let raw ← readFlds (widths.map Fld.u)
      let vals := blockPostParse level raw
      let vals := vals ++ (blockDefaults level).drop vals.length
      -- validate_and_read_remaining
      P.ensure (len == blockBytes level len)
      match blockRequiredBits level len with
      | none => P.panic
      | some req => do
        let pad ← readBits (blockBytes level len * 8 - req)
        P.ensure (pad.all (· == false))
        pure { level, length := len, vals }

/-- `DmData::parse` -/
def parseContainer (allowed other : List Nat) : P Container := do
  let n ← readUe
  let avail ← P.available
  P.ensure (n ≤ avail / 16)
  readAlignZero
  let blocks ← repeatP n (parseBlock allowed other)
  pure { num_ext_blocks := n, blocks }

def countLevel (bs : List Block) (l : Nat) : Nat := (bs.filter (·.level == l)).length

def Container.validate29 (c : Container) : Bool :=
  c.blocks.all (fun b => cmv29Levels.contains b.level) &&
  countLevel c.blocks 1 ≤ 1 && countLevel c.blocks 2 ≤ 8 && countLevel c.blocks 255 ≤ 1 &&
  countLevel c.blocks 4 ≤ 1 && countLevel c.blocks 5 ≤ 1 && countLevel c.blocks 6 ≤ 1

def Container.validate40 (c : Container) : Bool :=
  c.blocks.all (fun b => cmv40Levels.contains b.level) &&
  countLevel c.blocks 254 == 1 && countLevel c.blocks 3 ≤ 1 && countLevel c.blocks 8 ≤ 5 &&
  countLevel c.blocks 9 ≤ 1 && countLevel c.blocks 10 ≤ 4 && countLevel c.blocks 11 ≤ 1

/-! ## vdr_dm_data (vdr_dm_data.rs:80-189) -/

def parseDmData (h : Header) : P DmData := do
  let affected ← readUe
  let current ← readUe
  let scene ← readUe
  let compressed := h.reserved_zero_3bits == 1
  let main ← (if compressed then pure (List.replicate 32 (0 : Int)) else readFlds dmMainParseLayout)
  let c29 ← parseContainer cmv29Levels cmv40Levels
  let avail ← P.available
  let c40 ← (if avail ≥ 56 then do
      let c ← parseContainer cmv40Levels cmv29Levels
      pure (some c)
    else pure none)
  pure { compressed, affected_dm_metadata_id := affected, current_dm_metadata_id := current,
         scene_refresh_flag := scene, main, cmv29 := some c29, cmv40 := c40 }

def DmData.signalBitDepth (d : DmData) : Int := d.main.getD 25 0
def DmData.validate (d : DmData) : Bool :=
  d.affected_dm_metadata_id ≤ 15 &&
  (d.compressed ||
    (d.main.getD 25 0 ≥ 8 && d.main.getD 25 0 ≤ 16 &&
     (!(d.main.getD 22 0 == 0 && d.main.getD 23 0 == 0 && d.main.getD 24 0 == 0) || d.main.getD 21 0 == 65535))) &&
  (match d.cmv29 with | some c => c.validate29 | none => true) &&
  (match d.cmv40 with | some c => c.validate40 | none => true)

/-! ## the whole RPU (dovi_rpu.rs:113-216, 312-324) -/

def Rpu.validate (r : Rpu) : Bool :=
  r.header.validate r.dovi_profile &&
  (match r.rpu_data_mapping with | some m => m.validate r.dovi_profile | none => true) &&
  (match r.vdr_dm_data with | some d => d.validate | none => true)

/-- `read_rpu_data` on the bits of `data[..rpu_end]` -/
def readRpuData : P Rpu := do
  let prefix_ ← readN 8
  P.ensure (prefix_ == 25)
  let h ← parseHeader
  let h := { h with rpu_nal_prefix := prefix_ }
  let profile := h.getDoviProfile
  P.ensure (h.validate profile)
  let mapping ← (if !h.use_prev_vdr_rpu_flag then do let m ← parseMapping h; pure (some m) else pure none)
  let elType := mapping.bind Mapping.elType
  let dm ← (if h.vdr_dm_metadata_present_flag then do let d ← parseDmData h; pure (some d) else pure none)
  readAlignZero
  let avail ← P.available
  let remaining ← (if avail > 40 then do let r ← readBits (avail - 40); pure (some r) else pure none)
  let crc ← readN 32
  let last ← readN 8
  P.ensure (last == 0x80)
  pure { dovi_profile := profile, el_type := elType, header := h, rpu_data_mapping := mapping,
         vdr_dm_data := dm, remaining, rpu_data_crc32 := crc }

def trailingZeroes (data : Bytes) : Nat := (data.reverse.takeWhile (· == 0)).length

/-- `DoviRpu::parse` on prefix-less, unescaped data -/
def parseRpu (data : Bytes) : Res Rpu :=
  let tz := trailingZeroes data
  let rpuEnd := data.length - tz
  if rpuEnd ≤ 5 then .error
  else
    let body := data.take rpuEnd
    let lastByte := body.getLast?.getD 0
    let received := crc32 ((body.drop 1).take (rpuEnd - 6))
    if lastByte != 0x80 then .error
    else
      match readRpuData (bytesToBits body) with
      | .error => .error
      | .panic => .panic
      | .ok (r, _) =>
        if received != r.rpu_data_crc32 then .error
        else
          let r := { r with trailing_zeroes := tz }
          if r.validate then .ok r else .error

/-- `validated_trimmed_data`: strip one of the accepted prefixes -/
def trimPrefix (data : Bytes) : Res Bytes :=
  if data.length < 25 then .error
  else match data.take 5 with
    | [0, 0, 0, 1, 25] => .ok (data.drop 4)
    | [0, 0, 1, 25, 8] => .ok (data.drop 3)
    | [0, 1, 25, 8, 9] => .ok (data.drop 2)
    | [124, 1, 25, 8, 9] => .ok (data.drop 2)
    | [1, 25, 8, 9, _] => .ok (data.drop 1)
    | [25, 8, 9, _, _] => .ok data
    | _ => .error

/-- `DoviRpu::parse_rpu` -/
def parseRpuEntry (data : Bytes) : Res Rpu := (trimPrefix data).bind parseRpu

end Dovi
