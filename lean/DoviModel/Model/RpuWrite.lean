import DoviModel.Model.Rpu
/-!
# M3 — the RPU writer (transliteration of the `write` functions of `dolby_vision/src/rpu/*`)

Written by reading the Rust writers only; agreement with the parser is *proved* (Proofs/), not assumed.
A writer returns the bits it emits; writers whose output depends on the absolute bit position
(byte alignment) take the number of bits written before them.
-/
namespace Dovi

def wbool (b : Bool) : Res Bits := .ok [b]

/-- index into a list the way Rust does: out of bounds is a panic -/
def idx {α} (l : List α) (i : Nat) : Res α :=
  match l[i]? with
  | some a => .ok a
  | none => .panic

/-! ## header (rpu_data_header.rs:196-239) -/

def writeHeader (h : Header) : Res Bits :=
  wcat ([writeN 6 h.rpu_type, writeN 11 h.rpu_format, writeN 4 h.vdr_rpu_profile, writeN 4 h.vdr_rpu_level,
         wbool h.vdr_seq_info_present_flag] ++
    (if h.vdr_seq_info_present_flag then
      [wbool h.chroma_resampling_explicit_filter_flag, writeN 2 h.coefficient_data_type] ++
      (if h.coefficient_data_type == 0 then [writeUe h.coefficient_log2_denom] else []) ++
      [writeN 2 h.vdr_rpu_normalized_idc, wbool h.bl_video_full_range_flag] ++
      (if h.rpu_format &&& 0x700 == 0 then
        [writeUe h.bl_bit_depth_minus8,
         -- `((idc_5_7 << 5) | idc_0_4) as u64` computed in u8, then `(ext << 8) | el`
         writeUe ((((h.ext_mapping_idc_5_7 * 32) % 256) ||| h.ext_mapping_idc_0_4) * 256 ||| h.el_bit_depth_minus8),
         writeUe h.vdr_bit_depth_minus8, wbool h.spatial_resampling_filter_flag,
         writeN 3 h.reserved_zero_3bits, wbool h.el_spatial_resampling_filter_flag,
         wbool h.disable_residual_flag]
       else [])
     else []) ++
    [wbool h.vdr_dm_metadata_present_flag, wbool h.use_prev_vdr_rpu_flag] ++
    (if h.use_prev_vdr_rpu_flag then [writeUe h.prev_vdr_rpu_id] else []))

/-! ## mapping (rpu_data_mapping.rs:179-304), NLQ (rpu_data_nlq.rs:105-152) -/

/-- `(coef_int, coef)` pair `j` of piece `i`: indexing as in the Rust code (out of bounds panics) -/
def writeCoef (h : Header) (ints : List (List Int)) (fracs : List (List Nat)) (i j : Nat) : Res Bits :=
  wcat ((if h.coefficient_data_type == 0 then
          [(idx ints i).bind fun row => (idx row j).bind writeSe] else []) ++
        [(idx fracs i).bind fun row => (idx row j).bind (writeN h.coefficient_log2_denom_length)])

def writePolyPiece (h : Header) (p : PolyCurve) (i : Nat) : Res Bits :=
  (idx p.poly_order_minus1 i).bind fun order =>
  wcat ([writeUe order] ++
    (if order == 0 then [(idx p.linear_interp_flag i).bind wbool] else []) ++
    [if order == 0 then
        (idx p.linear_interp_flag i).bind fun lin =>
          if lin then .panic       -- unimplemented!()
          else wcat ((List.range (order + 2)).map (writeCoef h p.poly_coef_int p.poly_coef i))
     else wcat ((List.range (order + 2)).map (writeCoef h p.poly_coef_int p.poly_coef i))])

def writeMmrPiece (h : Header) (m : MmrCurve) (i : Nat) : Res Bits :=
  (idx m.mmr_order_minus1 i).bind fun order =>
  wcat ([writeN 2 order] ++
    (if h.coefficient_data_type == 0 then [(idx m.mmr_constant_int i).bind writeSe] else []) ++
    [(idx m.mmr_constant i).bind (writeN h.coefficient_log2_denom_length)] ++
    ((List.range (order + 1)).flatMap fun j => (List.range 7).map fun k =>
      wcat ((if h.coefficient_data_type == 0 then
              [(idx m.mmr_coef_int i).bind fun rows => (idx rows j).bind fun row => (idx row k).bind writeSe]
             else []) ++
            [(idx m.mmr_coef i).bind fun rows => (idx rows j).bind fun row =>
              (idx row k).bind (writeN h.coefficient_log2_denom_length)])))

def MappingMethod.toNat : MappingMethod → Nat
  | .polynomial => 0
  | .mmr => 1
  | .invalid => 255

def writeCurvePieces (h : Header) (c : Curve) : Res Bits :=
  wcat ((List.range (c.num_pivots_minus2 + 1)).map fun i =>
    wcat [writeUe c.mapping_idc.toNat,
          match c.polynomial, c.mmr with
          | some p, _ => writePolyPiece h p i
          | none, some m => writeMmrPiece h m i
          | none, none => .error])           -- bail!("Missing mapping method")

def writeNlq (h : Header) (m : Mapping) (n : Nlq) : Res Bits :=
  wcat ((List.range 3).map fun cmp =>
    wcat ([(idx n.nlq_offset cmp).bind (writeN (h.el_bit_depth_minus8 + 8))] ++
      (if h.coefficient_data_type == 0 then [(idx n.vdr_in_max_int cmp).bind writeUe] else []) ++
      [(idx n.vdr_in_max cmp).bind (writeN h.coefficient_log2_denom_length)] ++
      (if m.nlq_method_idc == some 0 then
        (if h.coefficient_data_type == 0 then [(idx n.linear_deadzone_slope_int cmp).bind writeUe] else []) ++
        [(idx n.linear_deadzone_slope cmp).bind (writeN h.coefficient_log2_denom_length)] ++
        (if h.coefficient_data_type == 0 then [(idx n.linear_deadzone_threshold_int cmp).bind writeUe] else []) ++
        [(idx n.linear_deadzone_threshold cmp).bind (writeN h.coefficient_log2_denom_length)]
       else [])))

def writeMapping (h : Header) (m : Mapping) : Res Bits :=
  let bl := h.bl_bit_depth_minus8 + 8
  wcat ([writeUe m.vdr_rpu_id, writeUe m.mapping_color_space, writeUe m.mapping_chroma_format_idc] ++
    ((List.range 3).map fun cmp => (idx m.curves cmp).bind fun c =>
      wcat ([writeUe c.num_pivots_minus2] ++ c.pivots.map (writeN bl))) ++
    (if h.rpu_format &&& 0x700 == 0 && !h.disable_residual_flag then
      (match m.nlq_method_idc with | some v => [writeN 3 v] | none => []) ++
      (match m.nlq_pred_pivot_value with | some pv => pv.map (writeN bl) | none => [])
     else []) ++
    [writeUe m.num_x_partitions_minus1, writeUe m.num_y_partitions_minus1] ++
    ((List.range 3).map fun cmp => (idx m.curves cmp).bind (writeCurvePieces h)) ++
    (match m.nlq with | some n => [writeNlq h m n] | none => []))

/-! ## extension blocks -/

/-- block-level `validate()` (runs only on write) -/
def blockValidate (b : Block) : Bool :=
  let v (i : Nat) : Int := b.vals.getD i 0
  match b.level with
  | 1 => v 0 ≤ 4095 && v 1 ≤ 4095 && v 2 ≤ 4095
  | 2 => v 0 ≤ 4095 && v 1 ≤ 4095 && v 2 ≤ 4095 && v 3 ≤ 4095 && v 4 ≤ 4095 && v 5 ≤ 4095 && v 6 ≥ -1 && v 6 ≤ 4095
  | 3 => v 0 ≤ 4095 && v 1 ≤ 4095 && v 2 ≤ 4095
  | 4 => v 0 ≤ 4095 && v 1 ≤ 4095
  | 5 => v 0 ≤ 8191 && v 1 ≤ 8191 && v 2 ≤ 8191 && v 3 ≤ 8191
  | 6 => v 0 ≤ 10000 && v 1 ≤ 10000 && v 2 ≤ 10000 && v 3 ≤ 10000
  | 8 => validBlockLength 8 b.length &&
         v 1 ≤ 4095 && v 2 ≤ 4095 && v 3 ≤ 4095 && v 4 ≤ 4095 && v 5 ≤ 4095 && v 6 ≤ 4095 && v 7 ≤ 4095 && v 8 ≤ 4095
  | 9 => validBlockLength 9 b.length &&
         (if b.length > 1 then v 0 == 255 && (List.range 8).all (fun i => v (i+1) > 0) else v 0 != 255)
  | 10 => validBlockLength 10 b.length &&
          !([1, 16, 18, 21, 27, 28, 37, 38, 42, 48, 49] : List Int).contains (v 0) && v 1 ≤ 10000 && v 2 ≤ 10000 &&
          (if b.length > 5 then v 3 == 255 && (List.range 8).all (fun i => v (i+4) > 0) else v 3 != 255)
  | 11 => v 0 ≤ 15 && v 1 ≤ 15 && v 3 == 0 && v 4 == 0
  | _ => true

/-- widths emitted by each level's `write`, in order (transliterated from the `write` functions: note the
`self.length > k` thresholds of L8/L9/L10); `none` = Reserved ("Cannot write reserved block") -/
def blockWriteLayout (level length : Nat) : Option (List Nat) :=
  match level with
  | 1 => some [12, 12, 12]
  | 2 => some [12, 12, 12, 12, 12, 12, 13]
  | 3 => some [12, 12, 12]
  | 4 => some [12, 12]
  | 5 => some [13, 13, 13, 13]
  | 6 => some [16, 16, 16, 16]
  | 8 => some ([8, 12, 12, 12, 12, 12, 12] ++ (if length > 10 then [12] else []) ++
               (if length > 12 then [12] else []) ++ (if length > 13 then [8, 8, 8, 8, 8, 8] else []) ++
               (if length > 19 then [8, 8, 8, 8, 8, 8] else []))
  | 9 => some ([8] ++ (if length > 1 then [16, 16, 16, 16, 16, 16, 16, 16] else []))
  | 10 => some ([8, 12, 12, 8] ++ (if length > 5 then [16, 16, 16, 16, 16, 16, 16, 16] else []))
  | 11 => some [8, 8, 8, 8]
  | 254 => some [8, 8]
  | 255 => some [8, 8, 8, 8, 8, 8]
  | _ => none

/-- the values a level's `write` emits, in order, before they are width-encoded: the struct fields, except
L11 which folds `reference_mode_flag` into the whitepoint byte (`wp += 16`) -/
def blockWriteVals (b : Block) : List Int :=
  match b.level, b.vals with
  | 11, [ct, wp, ref, r2, r3] => [ct, (wp.toNat + (if ref != 0 then 16 else 0)) % 256, r2, r3]
  | _, vals => vals

/-- one emitted field: `write_n`, except L2's `ms_weight` which is `write_signed_n(…, 13)` -/
def writeBlockField (level : Nat) (w : Nat) (v : Int) : Res Bits :=
  if level == 2 && w == 13 then writeSigned16 13 v else writeN w v.toNat

/-- the fields a level's `write` emits (a short variable-length block emits a prefix of its struct) -/
def blockWriteFields (b : Block) : List (Res Bits) :=
  match blockWriteLayout b.level b.length with
  | some ws => (ws.zip (blockWriteVals b)).map fun (w, v) => writeBlockField b.level w v
  | none => [.error]

/-- one block inside `WithExtMetadataBlocks::write` -/
def writeBlock (b : Block) : Res Bits :=
  -- validate_length() for L8/L9/L10 runs first (so `required_bits` cannot be reached with a bad length)
  if (b.level == 8 || b.level == 9 || b.level == 10) && !blockValidate b then .error
  else match blockRequiredBits b.level b.length with
    | none => .panic
    | some req =>
      let lenBits := blockBytes b.level b.length * 8
      if lenBits < req then .panic      -- u64 subtraction overflow
      else
        wcat [writeUe (blockBytes b.level b.length), writeN 8 b.level,
              (if blockValidate b then wcat (blockWriteFields b) else .error),
              .ok (List.replicate (lenBits - req) false)]

/-- `WithExtMetadataBlocks::write`; `pos` = bits written before the container -/
def writeContainer (pos : Nat) (c : Container) : Res Bits :=
  (writeUe c.num_ext_blocks).bind fun n =>
  (wcat (c.blocks.map writeBlock)).bind fun bs =>
  .ok (n ++ alignPad (pos + n.length) ++ bs)

/-! ## vdr_dm_data (vdr_dm_data.rs:191-245) -/

/-- field codings emitted by `VdrDmData::write` for the uncompressed payload, in order (transliterated from
the writer: `write_signed_n(…, 16)` for the two 3×3 matrices, `write_n` for the rest) -/
def dmMainWriteLayout : List Fld :=
  [.s16, .s16, .s16, .s16, .s16, .s16, .s16, .s16, .s16, .u 32, .u 32, .u 32,
   .s16, .s16, .s16, .s16, .s16, .s16, .s16, .s16, .s16,
   .u 16, .u 16, .u 16, .u 32, .u 5, .u 2, .u 2, .u 2, .u 12, .u 12, .u 10]

/-- one emitted field -/
def writeFld (f : Fld) (v : Int) : Res Bits :=
  match f with
  | .u n => writeN n v.toNat
  | .s16 => writeSigned16 16 v

def dmMainWriteFields (d : DmData) : List (Res Bits) :=
  (dmMainWriteLayout.zip d.main).map fun (f, v) => writeFld f v

def writeDmData (pos : Nat) (d : DmData) : Res Bits :=
  (wcat ([writeUe d.affected_dm_metadata_id, writeUe d.current_dm_metadata_id, writeUe d.scene_refresh_flag] ++
         (if !d.compressed then dmMainWriteFields d else []))).bind fun a =>
  (match d.cmv29 with | some c => writeContainer (pos + a.length) c | none => .ok []).bind fun b =>
  (match d.cmv40 with | some c => writeContainer (pos + a.length + b.length) c | none => .ok []).bind fun c =>
  .ok (a ++ b ++ c)

/-! ## the whole RPU (dovi_rpu.rs:241-310) -/

/-- the syntax up to (not including) the alignment bits -/
def writeBody (r : Rpu) : Res Bits :=
  (wcat [writeN 8 0x19, writeHeader r.header]).bind fun a =>
  (if r.header.rpu_type == 2 then
    (if !r.header.use_prev_vdr_rpu_flag then
       (match r.rpu_data_mapping with | some m => writeMapping r.header m | none => .ok [])
     else .ok []).bind fun b =>
    (if r.header.vdr_dm_metadata_present_flag then
       (match r.vdr_dm_data with | some d => writeDmData (a.length + b.length) d | none => .ok [])
     else .ok []).bind fun c => .ok (b ++ c)
   else .ok []).bind fun bc =>
  .ok (a ++ bc)

/-- `write_rpu_data` -/
def writeRpu (r : Rpu) : Res Bytes :=
  if !r.validate then .error
  else
    (writeBody r).bind fun body =>
    let aligned := body ++ alignPad body.length ++ (r.remaining.getD [])
    let aligned := aligned ++ alignPad aligned.length
    let bytes := bitsToBytes aligned
    let crc := crc32 (bytes.drop 1)
    if !r.modified && r.rpu_data_crc32 != crc then .error
    else .ok (bytes ++ bitsToBytes (toBits 32 crc) ++ [0x80] ++ List.replicate r.trailing_zeroes 0)

end Dovi
