import DoviModel.Model.Generate
/-!
# GenSources — the HDR10+ and madVR source paths of `dovi_tool generate`

`src/dovi/generator.rs`: `parse_hdr10plus_for_l1`, `generate_metadata_from_madvr`;
`dolby_vision/src/rpu/generate.rs`: `VideoShot::copy_metadata_from_shot`.

Both functions turn a source file into the config's `shots` (one shot per scene, carrying one L1 block), merge the
non-L1 metadata of the config's own shots into them, and set `config.length` to the source's frame count.

**What is an input here (the named parameter `PqCode`).** Everything that the Rust code computes in `f64` stays
OUTSIDE this model and enters it as already decoded integers — the *PQ codes before clamping*:

* madVR: `PqCode(scene.max_pq) = (nits_to_pq(peak_nits) * 4095.0).round() as u16`,
  `PqCode(scene.avg_pq) = (max over the scene's frames of the histogram average * 4095.0).round() as u16`,
  `PqCode(frame.target_pq) = (nits_to_pq(target_nits) * 4095.0).round() as u16`;
* HDR10+: `PqCode(max) = (nits_to_pq(peak_brightness_nits(peak_source).round()) * 4095.0).round() as u16`,
  `PqCode(avg) = (nits_to_pq((AverageRGB / 10.0).round()) * 4095.0).round() as u16`.

The byte-level reader of the measurement file (magic, header words, histograms, the `remaining / 2 == frames` test
for flags 3, end of file) and the JSON reader of the HDR10+ file are also outside; `vlib/madvrgen.py` decodes the
bytes independently and feeds the integers. The integer fields that take part in the Rust code's *control flow* are
inputs in their raw form so that its panics and errors are part of the model: the scenes' `start` and stored
`end + 1` words (`u32` subtraction), `frame_count`, `flags`, `maxcll`, `maxfall`, and for HDR10+ the two summary
arrays and, per frame, whether a peak value exists.

Arithmetic is that of the dev profile (overflow checks on): a `u32` subtraction of the madVR reader that would wrap is
`.panic` (the HDR10+ function uses `checked_sub` since /repo 3502e27: an `Err`).
-/
namespace Dovi.Gen
open Dovi

/-! ## `VideoShot::copy_metadata_from_shot` -/

/-- `!block_list.contains(&b.level())` — with no list every block is kept -/
def keepBlock (excl : Option (List Nat)) (b : Block) : Bool :=
  match excl with
  | some l => !l.contains b.level
  | none => true

/-- step 2 of `copy_metadata_from_shot` for one existing frame edit `e`: the kept blocks of the FIRST edit of `other`
with `e`'s offset are appended -/
def mergeEdit (other : Shot) (excl : Option (List Nat)) (e : FrameEdit) : FrameEdit :=
  match other.edits.find? (fun (o : FrameEdit) => o.offset == e.offset) with
  | some o => { e with blocks := e.blocks ++ o.blocks.filter (keepBlock excl) }
  | none => e

/-- step 3 for one added edit: reduced to its kept blocks (`retain`) -/
def keepEdit (excl : Option (List Nat)) (o : FrameEdit) : FrameEdit :=
  { o with blocks := o.blocks.filter (keepBlock excl) }

/-- `self.copy_metadata_from_shot(other, level_block_list)`:
1. the kept blocks of `other` are appended to the shot's blocks;
2. every EXISTING frame edit gets the kept blocks of the FIRST edit of `other` with the same offset appended;
3. the edits of `other` whose offset has no existing edit are appended (all of them, also several with one offset),
   reduced to their kept blocks — existing edits are never replaced. -/
def copyMetadataFromShot (self other : Shot) (excl : Option (List Nat)) : Shot :=
  let edits1 := self.edits.map (mergeEdit other excl)
  let existing := edits1.map (·.offset)
  let added := (other.edits.filter fun (o : FrameEdit) => !existing.contains o.offset).map (keepEdit excl)
  { self with blocks := self.blocks ++ other.blocks.filter (keepBlock excl), edits := edits1 ++ added }

/-- `ExtMetadataBlockLevel1::from_stats_cm_version(0, max_pq, avg_pq, cm)` as a block: min 0, clamped -/
def l1Block (cm : Bool) (maxCode avgCode : Nat) : Block :=
  clampL1 cm { level := 1, length := 5, vals := [0, Int.ofNat maxCode, Int.ofNat avgCode] }

/-- the source's shot for scene `k`, merged with the config's shot `k` when there is one:
`shot.copy_metadata_from_shot(override_shot, Some(&[1]))` — L1 is never taken from the config -/
def mergeShot (cfgShots : List Shot) (k : Nat) (s : Shot) : Shot :=
  match cfgShots[k]? with
  | some o => copyMetadataFromShot s o (some [1])
  | none => s

/-! ## madVR: `generate_metadata_from_madvr` (with the scene arithmetic of `madvr_parse`) -/

structure MadvrScene where
  /-- `start`: first frame (u32 as stored) -/
  start : Nat
  /-- the stored end word: index of the last frame + 1 (u32 as stored) -/
  endRaw : Nat
  /-- `PqCode(scene.max_pq)`, before clamping (0..65535) -/
  maxCode : Nat
  /-- `PqCode(scene.avg_pq)`, before clamping; only meaningful when the scene lies inside the frames -/
  avgCode : Nat
deriving Repr, Inhabited

/-- `scene.length = end - start + 1` with `end = endRaw - 1` (defined when neither subtraction wraps) -/
def MadvrScene.length (s : MadvrScene) : Nat := s.endRaw - 1 - s.start + 1

structure MadvrSource where
  /-- the header's `flags` word. Precondition of the whole structure: `flags ≠ 0` — the reader rejects a file with
  `flags = 0` ("incomplete measurement file") before any scene arithmetic, so such a source never reaches this model
  (`vlib/madvrgen.py` decides that case at the byte level) -/
  flags : Nat
  maxcll : Nat
  maxfall : Nat
  /-- `header.frame_count` = `frames.len()` (the reader fails otherwise) -/
  frameCount : Nat
  scenes : List MadvrScene
  /-- flags = 3: `PqCode(frame.target_pq)` per frame — `frameCount` of them: the reader rejects a flags-3 file whose
  trailing bytes are not one `u16` per frame before this function is reached, so a shorter list is outside the model
  (a missing entry reads as code 0 here); otherwise unused -/
  targets : List Nat := []
deriving Repr

/-- `MaxCLL` / `MaxFALL` of the config's L6 `[max_mdl, min_mdl, max_cll, max_fall]` are filled in from the header words
(`as u16`: the low 16 bits) when they are 0 -/
def fillL6 (maxcll maxfall : Nat) (v : List Nat) : List Nat :=
  let v := if v.getD 2 0 == 0 then v.set 2 (maxcll % 65536) else v
  if v.getD 3 0 == 0 then v.set 3 (maxfall % 65536) else v

/-- the shot built for scene `s`: one L1 block (scene peak, scene average); with `--use-custom-targets` on a flags-3
file one frame edit per frame of the scene, `edit_offset = j`, L1 from frame `start + j`'s target and the scene
average -/
def madvrSceneShot (cm : Bool) (customOn : Bool) (targets : List Nat) (s : MadvrScene) : Shot :=
  { start := s.start, duration := s.length, blocks := [l1Block cm s.maxCode s.avgCode],
    edits := if customOn then
        (List.range s.length).map fun j =>
          { offset := j, blocks := [l1Block cm (targets.getD (s.start + j) 0) s.avgCode] }
      else [] }

/-- `MadVRMeasurements::parse_measurements` (scene arithmetic only) followed by `generate_metadata_from_madvr`:
* `.panic` when a scene's `end + 1` word is 0 or its end lies before its start (`u32` subtraction, dev profile);
* `.error` when a scene ends at or after `frame_count` ("scene end higher than frame count", `get_frames`);
* else the config with the scenes' shots (merged with the config's shots by index), L6 filled in, `length = frame_count`. -/
def madvrConfig (c : Config) (src : MadvrSource) (custom : Bool) : Res Config :=
  if src.scenes.any (fun s => s.endRaw == 0 || s.endRaw - 1 < s.start) then .panic
  else if !src.scenes.all (fun s => s.endRaw - 1 < src.frameCount) then .error
  else
    let cm := c.l1AvgCmv40.getD c.cmv40
    let customOn := custom && src.flags == 3
    .ok { c with
      shots := (List.range src.scenes.length).map fun i =>
        mergeShot c.shots i (madvrSceneShot cm customOn src.targets (src.scenes.getD i default)),
      level6 := c.level6.map (fillL6 src.maxcll src.maxfall),
      length := src.frameCount }

/-! ## HDR10+: `parse_hdr10plus_for_l1` -/

structure HdrSource where
  /-- `SceneInfoSummary.SceneFirstFrameIndex` -/
  firsts : List Nat
  /-- `SceneInfoSummary.SceneFrameNumbers` -/
  lengths : List Nat
  /-- per entry of `SceneInfo`: `some (PqCode(max), PqCode(avg))`, or `none` when `peak_brightness_nits` has no value
  for the chosen peak source (empty `DistributionValues` / `MaxScl`, `MaxScl` not of length 3 for `max-scl-luminance`) -/
  frames : List (Option (Nat × Nat))
deriving Repr

/-- the frame numbers the loop visits: those contained in the first-frame list after it was rebased to start at 0 -/
def hdrFirstFrames (src : HdrSource) (f0 : Nat) : List Nat :=
  (List.range src.frames.length).filter fun n => (src.firsts.map (· - f0)).contains n

/-- `parse_hdr10plus_for_l1` (as repaired by /repo 3502e27 — every malformed summary is an `Err`, the function has no
panic site left: `l1_avg_pq_cm_version.unwrap()` is `Some` since `execute` filled it in, `contains` / `get` / `checked_sub`
do not panic):
* `.error` when `SceneFirstFrameIndex` is empty ("missing SceneFirstFrameIndex array"), when one of its entries is below
  the first one (`checked_sub`), when a visited frame has no peak value ("no peak brightness value for frame n"), or when
  more frames are visited than `SceneFrameNumbers` has entries ("missing SceneFrameNumbers entry for scene k") — in the
  Rust code the last two are interleaved per visited frame; they are of one class, so the order is not observable;
* else one shot per visited frame: `start` = the frame number, `duration` = the `k`-th scene length, L1 from that frame,
  merged with the config's shot `k`; `length = SceneInfo.len()`. There is no `.panic` case. -/
def hdr10plusConfig (c : Config) (src : HdrSource) : Res Config :=
  match src.firsts with
  | [] => .error
  | f0 :: _ =>
    if src.firsts.any (· < f0) then .error
    else
      let ns := hdrFirstFrames src f0
      if ns.any (fun n => (src.frames.getD n none).isNone) || src.lengths.length < ns.length then .error
      else
        let cm := c.l1AvgCmv40.getD c.cmv40
        .ok { c with
          shots := (List.range ns.length).map fun k =>
            let n := ns.getD k 0
            let codes := (src.frames.getD n none).getD (0, 0)
            mergeShot c.shots k
              { start := n, duration := src.lengths.getD k 0, blocks := [l1Block cm codes.1 codes.2], edits := [] },
          length := src.frames.length }

/-! ## the rest of `Generator::execute` -/

/-- `Generator::execute` after a source function has replaced the shots and set `length`: the input check, the default
shot, the `-p` / `--long-play-mode` overrides, `fixup_l1`, `write_rpus`. (The length-from-shots defaulting of the plain
JSON path is in the `else` branch the source paths do not take.) -/
def generateFrom (c : Config) (profOverride : Option Profile) (lpOverride : Option Bool) : Res (List Bytes) :=
  if !(c.length > 0 || !c.shots.isEmpty) then .error
  else
    let c := if c.shots.isEmpty then { c with shots := [{ start := 0, duration := c.length }] } else c
    let c := match profOverride with | some p => { c with profile := p } | none => c
    let c := match lpOverride with | some b => { c with longPlay := b } | none => c
    let c := { c with l1AvgCmv40 := some (c.l1AvgCmv40.getD c.cmv40) }
    let c := fixupL1 c
    (generateList c).bind writeAll

/-- `dovi_tool generate -j cfg --madvr-file m [--use-custom-targets] [-p ..] [--long-play-mode ..]` -/
def generateMadvr (c : Config) (src : MadvrSource) (custom : Bool) (po : Option Profile) (lo : Option Bool) :
    Res (List Bytes) :=
  (madvrConfig c src custom).bind fun c' => generateFrom c' po lo

/-- `dovi_tool generate -j cfg --hdr10plus-json h --hdr10plus-peak-source ..` -/
def generateHdr10plus (c : Config) (src : HdrSource) (po : Option Profile) (lo : Option Bool) : Res (List Bytes) :=
  (hdr10plusConfig c src).bind fun c' => generateFrom c' po lo

end Dovi.Gen
