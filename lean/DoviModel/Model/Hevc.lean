import DoviModel.Model.Basic
import DoviModel.Model.Esc
/-!
# M7 / M8 / SeiModel — the stream commands on NAL lists

Functional mirror of the NAL-level behaviour of

* `src/dovi/general_read_write.rs` `DoviProcessor::write_nals` / `flush_writer`
  (convert, demux, remove, extract-rpu),
* `src/dovi/rpu_injector.rs` (second pass of inject-rpu),
* `src/dovi/muxer.rs` (BL frame buffer, EL frame queue),
* `src/dovi/hdr10plus_utils.rs` + `hevc_parser::hevc::sei::SeiMessage::parse_sei_rbsp`
  (`--drop-hdr10plus`).

A stream is the list of its NAL units in stream order (the chunked reader below this level is model M6,
`Model/Split.lean`, proved chunking-independent in `Props/C05.lean`).  What the third-party parser
(`hevc_parser`) contributes is a *parameter* of the model:

* `Item.au` — `NALUnit::decoded_frame_index`, the access unit (decode index) a NAL was attributed to,
* `pres`    — `Frame::presentation_number` of the frame with a given decode index,
* `aud`     — the bytes `hevc_parser::utils::aud_for_frame` produces for a frame,
* `nFrames` — `parser.ordered_frames().len()`.

What the Dolby Vision library contributes (re-encoding one RPU NAL under `-m` / `--crop` / `--edit-config`)
is the parameter `conv : Bytes → Option Bytes` (`none` = the library refuses).

Frames are numbered `0 .. nFrames-1` in decode order (`Frame::decoded_number`); hevc_parser's labels are
non-decreasing and at most `nFrames`.  The label `nFrames` is what it gives the NALs that follow the last slice of
the stream and would open a new access unit (an AUD, a prefix SEI, VPS/SPS/PPS, … after the last slice): no frame
has that number, and `finalize` of inject-rpu and of mux does not write a last frame buffer with that number
(`frame_buffer.frame_number != total_frames`) — those NALs are silently dropped.  The lookups of a frame by its
decode number that the tool performs for the AUD / RPU of a frame buffer succeed exactly for labels below
`nFrames` (inject-rpu, second pass: the frame list is complete); for mux, which looks the frame up in the parser's
state at that moment, a label below `nFrames` is assumed to be the number of a frame parsed by then (true of
hevc_parser: the label of a closed buffer is below the label of the NAL closing it).

Not modelled (never reached by the checks' inputs): Matroska input, `--limit`, progress output.

A result `none` always means: the command ends with an error status (a `bail!`, a propagated `Err`, or a
panic) — whatever was written before is not described.
-/
namespace Dovi.Hevc
open Dovi

def NAL_VPS : Nat := 32
def NAL_SPS : Nat := 33
def NAL_PPS : Nat := 34
def NAL_AUD : Nat := 35
def NAL_EOS : Nat := 36
def NAL_EOB : Nat := 37
def NAL_SEI_PREFIX : Nat := 39
def NAL_SEI_SUFFIX : Nat := 40
def NAL_UNSPEC62 : Nat := 62
def NAL_UNSPEC63 : Nat := 63

/-- one input NAL unit: type, bytes (2-byte header + escaped payload, no start code, no trailing zero
bytes), and the decode index of the access unit hevc_parser attributes it to -/
structure Item where
  typ : Nat
  data : Bytes
  au : Nat
deriving Repr, DecidableEq

/-- one written NAL unit: start-code length (3 or 4), type, bytes -/
structure Out where
  sc : Nat
  typ : Nat
  data : Bytes
deriving Repr, DecidableEq

/-- `(data[0] >> 1) & 0x3F` -/
def nalType : Bytes → Nat
  | [] => 0
  | b :: _ => (b.toNat / 2) % 64

/-- `FOUR_SIZED_NALU_TYPES` of hevc_parser -/
def fourSized (t : Nat) : Bool := t == 32 || t == 33 || t == 34 || t == 35 || t == 62

/-- `NALUnit::write_with_preset`: `annexb = false` is the preset `Four` -/
def scLen (annexb : Bool) (t : Nat) (first : Bool) : Nat :=
  if annexb then (if fourSized t || first then 4 else 3) else 4

def isEos (t : Nat) : Bool := t == 36 || t == 37

/-- the (type, bytes) view of an output list: what C05/C06/C07/C18 speak about -/
def pay (o : Out) : Nat × Bytes := (o.typ, o.data)
def payI (i : Item) : Nat × Bytes := (i.typ, i.data)

/-! ## SEI: the message walker of hevc_parser and `prefix_sei_removed_hdr10plus_nalu` -/
namespace Sei

/-- `SeiMessage`: byte offsets are relative to the start of the unescaped NAL unit -/
structure Msg where
  off : Nat
  ptype : Nat
  poff : Nat
  psize : Nat
deriving Repr, DecidableEq

/-- the `0xFF`-extended value coding of payload type and size: (number of FF bytes, last byte, rest);
`none` = out of data -/
def readFF : Bytes → Option (Nat × Nat × Bytes)
  | [] => none
  | b :: rest =>
    if b = 0xFF then
      match readFF rest with
      | none => none
      | some (n, l, r) => some (n + 1, l, r)
    else some (0, b.toNat, rest)

/-- `parse_sei_message` at byte position `pos`, `bs` = the bytes from there on.  `payload_type` is a `u8`
in hevc_parser 0.6.8: a type above 255 overflows (a panic in the dev profile the checks build) — modelled
as failure, like running out of data or a payload reaching beyond the NAL unit. -/
def parseMsg (pos : Nat) (bs : Bytes) : Option (Msg × Bytes) :=
  match readFF bs with
  | none => none
  | some (n1, l1, r1) =>
    if 255 * n1 + l1 > 255 then none
    else
      match readFF r1 with
      | none => none
      | some (n2, l2, r2) =>
        if 255 * n2 + l2 > r2.length then none
        else some ({ off := pos, ptype := 255 * n1 + l1, poff := pos + n1 + n2 + 2, psize := 255 * n2 + l2 },
                   r2.drop (255 * n2 + l2))

/-- the `loop { push(parse_sei_message); if available <= 8 { break } }` of `parse_sei_rbsp`: at least one
message is parsed, the loop ends when at most one byte (the rbsp trailing bits) is left -/
def walkFrom : Nat → Nat → Bytes → Option (List Msg)
  | 0, _, _ => none
  | fuel + 1, pos, bs =>
    match parseMsg pos bs with
    | none => none
    | some (m, rest) =>
      if rest.length ≤ 1 then some [m]
      else
        match walkFrom fuel (m.poff + m.psize) rest with
        | none => none
        | some ms => some (m :: ms)

/-- `SeiMessage::parse_sei_rbsp` on an unescaped NAL unit (2-byte header included) -/
def walk (p : Bytes) : Option (List Msg) :=
  match p with
  | h0 :: _ :: body =>
    if nalType [h0] = 39 ∨ nalType [h0] = 40 then walkFrom (body.length + 1) 2 body else none
  | _ => none

/-- country code B5, provider 003C, provider oriented code 0001, application identifier 4, version 1 -/
def hdrHead : Bytes := [0xB5, 0x00, 0x3C, 0x00, 0x01, 0x04, 0x01]

/-- the test inside `st2094_40_sei_msg` -/
def isHdr (p : Bytes) (m : Msg) : Bool :=
  m.ptype == 4 && decide (m.psize ≥ 7) && ((p.drop m.poff).take 7 == hdrHead)

/-- `while sei_payload.last() == Some(&0) { pop }` -/
def stripZeros (n : Bytes) : Bytes := (n.reverse.dropWhile (· == 0)).reverse

inductive Res where
  | err                 -- the SEI does not parse: the command fails
  | dropped             -- the NAL held only the ST 2094-40 message
  | keep (d : Bytes)    -- the NAL to write (the input bytes when nothing was found)
deriving Repr, DecidableEq

/-- `prefix_sei_removed_hdr10plus_nalu` on the bytes of a prefix SEI NAL unit -/
def dropHdr10plus (d : Bytes) : Res :=
  let p := stripZeros (Esc.unescape d)
  if p.length < 4 then .keep d
  else
    match walk p with
    | none => .err
    | some msgs =>
      match msgs.find? (isHdr p) with
      | none => .keep d
      | some m =>
        if msgs.length > 1 then .keep (Esc.escape (p.take m.off ++ p.drop (m.poff + m.psize)))
        else .dropped

/-- the messages of an escaped SEI NAL as (payload type, payload bytes): the observation the property
speaks about -/
def msgBytes (p : Bytes) (m : Msg) : Nat × Bytes := (m.ptype, (p.drop m.poff).take m.psize)

def messages (d : Bytes) : Option (List (Nat × Bytes)) :=
  let p := stripZeros (Esc.unescape d)
  (walk p).map (fun ms => ms.map (msgBytes p))

/-- is this (type, payload) an ST 2094-40 message -/
def isHdrMsg (m : Nat × Bytes) : Bool := m.1 == 4 && decide (m.2.length ≥ 7) && (m.2.take 7 == hdrHead)

/-! the syntax of H.265 7.3.5, as a generator: used to state the theorems over *all* message lists -/

/-- `ff_byte* last_byte` coding of a value -/
def encFF (n : Nat) : Bytes := List.replicate (n / 255) 0xFF ++ [UInt8.ofNat (n % 255)]

def encMsg (m : Nat × Bytes) : Bytes := encFF m.1 ++ encFF m.2.length ++ m.2

def encMsgs (ms : List (Nat × Bytes)) : Bytes := (ms.map encMsg).flatten

end Sei

/-- the `--drop-hdr10plus` step every NAL processor performs first on each NAL, as a pass over the list
(it reads and changes nothing but the NAL itself) -/
def seiStage (drop : Bool) : List Item → Option (List Item)
  | [] => some []
  | it :: rest =>
    if drop && it.typ == NAL_SEI_PREFIX then
      match Sei.dropHdr10plus it.data with
      | .err => none
      | .dropped => seiStage drop rest
      | .keep d =>
        match seiStage drop rest with
        | none => none
        | some r => some ({ it with data := d } :: r)
    else
      match seiStage drop rest with
      | none => none
      | some r => some (it :: r)

/-! ## convert / demux / remove / extract-rpu: `DoviProcessor::write_nals` -/

/-- which writers exist and which options are set -/
structure Cfg where
  sl : Bool := false        -- single-layer writer (convert)
  bl : Bool := false
  el : Bool := false
  rpu : Bool := false       -- RPU list (extract-rpu)
  convSet : Bool := false   -- `mode.is_some() || edit_config.is_some()`
  discard : Bool := false
  drop : Bool := false
  annexb : Bool := false
deriving Repr, DecidableEq

def cfgConvert : Cfg := { sl := true }
def cfgDemux (elOnly : Bool) : Cfg := { bl := !elOnly, el := true }
def cfgRemove : Cfg := { bl := true }
def cfgExtract : Cfg := { rpu := true }

/-- `payload_count == 0 && i == 0` is `idx = 0`; `previous_frame_index`; `previous_rpu_index` -/
structure GState where
  idx : Nat := 0
  prevFrame : Nat := 0
  prevRpu : Nat := 0
deriving Repr, DecidableEq

structure Sinks where
  sl : List Out := []
  bl : List Out := []
  el : List Out := []
  rpu : List Bytes := []    -- payloads without the `7C 01` header, decode order
deriving Repr, DecidableEq

def Sinks.append (a b : Sinks) : Sinks :=
  { sl := a.sl ++ b.sl, bl := a.bl ++ b.bl, el := a.el ++ b.el, rpu := a.rpu ++ b.rpu }

/-- the first-NAL-of-frame test and its state update -/
def firstFlag (st : GState) (au : Nat) : Bool × Nat :=
  if st.idx = 0 ∧ st.prevFrame = 0 then (true, st.prevFrame)
  else if st.prevFrame ≠ au then (true, au)
  else (false, st.prevFrame)

/-- one iteration of the loop in `write_nals`; `none` = the command fails -/
def step (c : Cfg) (conv : Bytes → Option Bytes) (st : GState) (it : Item) : Option (GState × Sinks) :=
  let st1 : GState := { st with idx := st.idx + 1 }
  -- 1. --drop-hdr10plus
  match (if c.drop && it.typ == NAL_SEI_PREFIX then Sei.dropHdr10plus it.data else Sei.Res.keep it.data) with
  | .err => none
  | .dropped => some (st1, {})
  | .keep d =>
    -- 2. a second RPU attributed to the frame of the previous RPU is discarded (never for frame 0, never
    --    in convert, which does not record the index)
    if st.prevRpu > 0 ∧ it.typ = NAL_UNSPEC62 ∧ it.au = st.prevRpu then some (st1, {})
    else
      -- 3. first NAL of the stream / of a frame
      let ff := firstFlag st it.au
      let st2 : GState := { st1 with prevFrame := ff.2 }
      if c.sl then
        if it.typ = NAL_UNSPEC63 ∧ c.discard then some (st2, {})
        else if it.typ = NAL_UNSPEC62 ∧ c.convSet then
          match conv it.data with
          | none => none
          | some m => some (st2, { sl := [⟨scLen c.annexb it.typ ff.1, it.typ, m⟩] })
        else some (st2, { sl := [⟨scLen c.annexb it.typ ff.1, it.typ, d⟩] })
      else if it.typ = NAL_UNSPEC63 then
        -- EL NAL: the 2-byte UNSPEC63 header is stripped, always a 4-byte start code
        some (st2, if c.el then { el := [⟨4, nalType (it.data.drop 2), it.data.drop 2⟩] } else {})
      else if it.typ = NAL_UNSPEC62 then
        let st3 : GState := { st2 with prevRpu := it.au }
        match (if c.convSet then conv it.data else some it.data) with
        | none => none
        | some m =>
          if c.rpu then some (st3, { rpu := [m.drop 2] })
          else if c.el then some (st3, { el := [⟨scLen c.annexb it.typ false, it.typ, m⟩] })
          else some (st3, {})
      else
        some (st2, if c.bl then { bl := [⟨scLen c.annexb it.typ ff.1, it.typ, d⟩] } else {})

def run (c : Cfg) (conv : Bytes → Option Bytes) : GState → List Item → Option Sinks
  | _, [] => some {}
  | st, it :: rest =>
    match step c conv st it with
    | none => none
    | some (st', s) =>
      match run c conv st' rest with
      | none => none
      | some s' => some (s.append s')

/-- convert / demux / remove on a whole stream -/
def general (c : Cfg) (conv : Bytes → Option Bytes) (items : List Item) : Option Sinks :=
  run c conv {} items

/-- The one place where the read schedule below this level shows: when the first read chunk holds a single
start code (the first NAL unit is not shorter than the chunk: ≥ 100 kB in the unhooked tool), hevc_parser hands
over an empty NAL list first, `payload_count` is 1 when the first NAL arrives, and no NAL is "the first of the
stream" (`late = true`).  Only the start-code length of that NAL under `--start-code annex-b` can differ
(`Props/C05.lean: late_first_nal_same_bytes`). -/
def generalFrom (late : Bool) (c : Cfg) (conv : Bytes → Option Bytes) (items : List Item) : Option Sinks :=
  run c conv { idx := if late then 1 else 0 } items

/-! ### extract-rpu: `flush_writer` -/

/-- stable insertion by key (`sort_by_cached_key` is a stable sort) -/
def insertK (x : Nat × Bytes) : List (Nat × Bytes) → List (Nat × Bytes)
  | [] => [x]
  | y :: ys => if x.1 ≤ y.1 then x :: y :: ys else y :: insertK x ys

def sortK : List (Nat × Bytes) → List (Nat × Bytes)
  | [] => []
  | x :: xs => insertK x (sortK xs)

/-- `rpu_nals[k].decoded_index = k` (the position among the collected RPUs), key = presentation number of
the frame with that decode index -/
def keyed (pres : Nat → Nat) (k : Nat) : List Bytes → List (Nat × Bytes)
  | [] => []
  | r :: rs => (pres k, r) :: keyed pres (k + 1) rs

/-- extract-rpu: the RPU payloads in the order of the file written (each behind `00 00 00 01`).
`none`: an RPU conversion failed, no frame was parsed ("No frames parsed!"), or more RPUs than frames
("Missing frame/slices for metadata") -/
def extract (pres : Nat → Nat) (nFrames : Nat) (c : Cfg) (conv : Bytes → Option Bytes) (items : List Item) :
    Option (List Bytes) :=
  match general c conv items with
  | none => none
  | some s =>
    if nFrames = 0 ∨ s.rpu.length > nFrames then none
    else some ((sortK (keyed pres 0 s.rpu)).map Prod.snd)

/-! ## frames: the frame buffer shared by inject-rpu and mux -/

/-- `frame_buffer` starts as frame number 0 with no NALs; a NAL of another frame closes the buffer.  The
result lists the buffers in the order they are closed; the last entry is the buffer left for `finalize`. -/
def framesAux (cur : Nat) (acc : List Item) : List Item → List (Nat × List Item)
  | [] => [(cur, acc.reverse)]
  | it :: rest =>
    if it.au = cur then framesAux cur (it :: acc) rest
    else (cur, acc.reverse) :: framesAux it.au [it] rest

def frames (items : List Item) : List (Nat × List Item) := framesAux 0 [] items

/-- start codes of one written frame: `first_nal = (i == 0)` -/
def withSc (annexb : Bool) : List (Nat × Bytes) → List Out
  | [] => []
  | x :: xs => ⟨scLen annexb x.1 true, x.1, x.2⟩ :: xs.map (fun y => ⟨scLen annexb y.1 false, y.1, y.2⟩)

def noFirst (annexb : Bool) (l : List (Nat × Bytes)) : List Out :=
  l.map (fun y => ⟨scLen annexb y.1 false, y.1, y.2⟩)

/-! ## inject-rpu (second pass) -/

structure ICfg where
  noAddAud : Bool := false
  annexb : Bool := false
  drop : Bool := false
deriving Repr, DecidableEq

/-- the NALs of a frame buffer in front of its trailing EOS/EOB run … -/
def preEos (body : List (Nat × Bytes)) : List (Nat × Bytes) :=
  (body.reverse.dropWhile (fun x => isEos x.1)).reverse
/-- … and that run: `rposition(|nb| !EOS/EOB) + 1` splits the buffer here -/
def postEos (body : List (Nat × Bytes)) : List (Nat × Bytes) :=
  (body.reverse.takeWhile (fun x => isEos x.1)).reverse

/-- one closed frame buffer `(frame number, NALs)`; `last` = `last_metadata_written`.
Returns the written NALs and the new `last`.

* `final` (the buffer left for `finalize`): nothing is written when its number equals the frame count or it holds
  no NAL (`frame_number != total_frames && !nals.is_empty()`).
* The AUD is made for `frames.find(decoded_number == frame_number).unwrap()`: a panic when no frame has the
  number (`nFrames ≤ fr.1`), unless --no-add-aud.
* `get_rpu_and_index_to_insert`: the RPU is `rpus[presentation_number]` of that frame; without such an entry, or
  without such a frame, `last_metadata_written` when the lengths differ, else the command fails. -/
def injectFrame (c : ICfg) (aud : Nat → Bytes) (pres : Nat → Nat) (nFrames : Nat) (rpus : List Bytes)
    (mismatched : Bool) (last : Option Bytes) (final : Bool) (fr : Nat × List Item) :
    Option (List Out × Option Bytes) :=
  let body0 := (fr.2.filter (fun it => it.typ ≠ NAL_UNSPEC62)).map payI
  if final ∧ (fr.1 = nFrames ∨ body0 = []) then some ([], last)
  else if c.noAddAud = false ∧ nFrames ≤ fr.1 then none
  else
    let body := if c.noAddAud then body0 else (NAL_AUD, aud fr.1) :: body0
    match (match (if fr.1 < nFrames then rpus[pres fr.1]? else none) with
           | some r => some r
           | none => if mismatched then last else none) with
    | none => none
    | some r =>
      if preEos body = [] then none
      else some (withSc c.annexb (preEos body ++ (NAL_UNSPEC62, r) :: postEos body), some r)

def injectGo (c : ICfg) (aud : Nat → Bytes) (pres : Nat → Nat) (nFrames : Nat) (rpus : List Bytes)
    (mismatched : Bool) : Option Bytes → List (Nat × List Item) → Option (List Out)
  | _, [] => some []
  | last, [fr] =>
    match injectFrame c aud pres nFrames rpus mismatched last true fr with
    | none => none
    | some (o, _) => some o
  | last, fr :: rest =>
    match injectFrame c aud pres nFrames rpus mismatched last false fr with
    | none => none
    | some (o, last') =>
      match injectGo c aud pres nFrames rpus mismatched last' rest with
      | none => none
      | some os => some (o ++ os)

/-- inject-rpu.  `rpus` = the NAL units (`7C 01 …`) the library writes for the entries of the RPU file,
in file order.  Existing AUDs are ignored altogether when AUDs are added.  A list shorter than the video:
frames whose presentation number lies beyond the list receive the RPU written last (in decode order), and
the command fails when there is none yet.  NALs labelled `nFrames` (behind the last slice of the stream) form
the last frame buffer, which `finalize` does not write: they are dropped, no RPU is written for them. -/
def inject (c : ICfg) (aud : Nat → Bytes) (pres : Nat → Nat) (nFrames : Nat) (rpus : List Bytes)
    (items : List Item) : Option (List Out) :=
  if nFrames = 0 ∨ items = [] then some []
  else
    match seiStage c.drop items with
    | none => none
    | some its =>
      let its' := if c.noAddAud then its else its.filter (fun it => it.typ ≠ NAL_AUD)
      injectGo c aud pres nFrames rpus (decide (nFrames ≠ rpus.length)) none (frames its')

/-! ## mux -/

structure MCfg where
  noAddAud : Bool := false
  eosBeforeEl : Bool := false
  discard : Bool := false
  convSet : Bool := false
  annexb : Bool := false
  drop : Bool := false
deriving Repr, DecidableEq

def EL_PREFIX : Bytes := [0x7E, 0x01]

/-- `ElHandler::process_nals` for one NAL: `some none` = filtered by --discard; `none` = the conversion
`unwrap()` panics -/
def elNal (c : MCfg) (conv : Bytes → Option Bytes) (it : Item) : Option (Option Out) :=
  if c.discard ∧ it.typ ≠ NAL_UNSPEC62 then some none
  else if it.typ ≠ NAL_UNSPEC62 then
    some (some ⟨scLen c.annexb NAL_UNSPEC63 false, NAL_UNSPEC63, EL_PREFIX ++ it.data⟩)
  else
    match (if c.convSet then conv it.data else some it.data) with
    | none => none
    | some m => some (some ⟨scLen c.annexb NAL_UNSPEC62 false, NAL_UNSPEC62, m⟩)

def elFrame (c : MCfg) (conv : Bytes → Option Bytes) : List Item → Option (List Out)
  | [] => some []
  | it :: rest =>
    match elNal c conv it, elFrame c conv rest with
    | some (some o), some os => some (o :: os)
    | some none, some os => some os
    | _, _ => none

/-- the EL file as frames (runs of equal frame index; the EL handler has no initial empty buffer) -/
def runs : List Item → List (Nat × List Item)
  | [] => []
  | it :: rest => framesAux it.au [it] rest

def elFrames (c : MCfg) (conv : Bytes → Option Bytes) : List (Nat × List Item) → Option (List (List Out))
  | [] => some []
  | fr :: rest =>
    match elFrame c conv fr.2, elFrames c conv rest with
    | some f, some fs => some (f :: fs)
    | _, _ => none

/-- the buffered NALs of one BL frame: no UNSPEC62/63, no AUD when AUDs are added -/
def blBody (c : MCfg) (nals : List Item) : List (Nat × Bytes) :=
  (nals.filter (fun it => it.typ ≠ NAL_UNSPEC62 ∧ it.typ ≠ NAL_UNSPEC63 ∧ (c.noAddAud ∨ it.typ ≠ NAL_AUD))).map payI

/-- `write_bl_frame`: (written before the EL, held back until after the EL) -/
def blSplit (c : MCfg) (aud : Nat → Bytes) (fr : Nat × List Item) : List Out × List Out :=
  let body0 := blBody c fr.2
  let body := if c.noAddAud then body0 else (NAL_AUD, aud fr.1) :: body0
  if c.eosBeforeEl then (withSc c.annexb body, [])
  else (withSc c.annexb (body.filter (fun x => !isEos x.1)), noFirst c.annexb (body.filter (fun x => isEos x.1)))

/-- BL frame buffers against the queue of EL frames.  A closed (non-final) BL frame takes the front EL
frame only when another EL frame is queued behind it (`buffered_frames.len() > 1`, after reading on);
`finalize` writes the last BL frame — unless its number is the frame count or its buffer is empty
(`frame_number != total_frames && !nals.is_empty()`) — with the then-front EL frame and reports an error when EL
frames remain; when it does not write the last BL frame, it neither writes an EL frame nor looks for remaining
ones.  Result: the written NALs and the error flag. -/
def muxGo (c : MCfg) (aud : Nat → Bytes) (nFrames : Nat) :
    List (Nat × List Item) → List (List Out) → List Out × Bool
  | [], _ => ([], false)
  | [fr], els =>
    if fr.1 = nFrames ∨ blBody c fr.2 = [] then ([], false)
    else ((blSplit c aud fr).1 ++ els.head?.getD [] ++ (blSplit c aud fr).2, decide (els.length > 1))
  | fr :: rest, els =>
    match els with
    | e :: e2 :: els' =>
      let r := muxGo c aud nFrames rest (e2 :: els')
      ((blSplit c aud fr).1 ++ e ++ (blSplit c aud fr).2 ++ r.1, r.2)
    | _ =>
      let r := muxGo c aud nFrames rest els
      ((blSplit c aud fr).1 ++ (blSplit c aud fr).2 ++ r.1, r.2)

/-- the frame lookups for the regenerated AUDs (none with --no-add-aud): a buffer closed in `process_nals` whose
number is not that of a frame ends the command ("No previous frame found"); in `finalize` the lookup
(`.unwrap()`) is made only when the buffer is written. -/
def muxAudFramesOk (c : MCfg) (nFrames : Nat) : List (Nat × List Item) → Bool
  | [] => true
  | [fr] => c.noAddAud || decide (fr.1 ≤ nFrames) || decide (blBody c fr.2 = [])
  | fr :: rest => (c.noAddAud || decide (fr.1 < nFrames)) && muxAudFramesOk c nFrames rest

/-- mux.  `nFrames` = the frame count of the BL (`parser.ordered_frames().len()` in `Muxer::finalize`).
Assumptions on the labels (true of hevc_parser's on every stream generated): they are non-decreasing within each
layer (the EL handler's merge of a NAL into an already buffered frame of the same number is not modelled).  BL NALs
labelled `nFrames` (behind the last slice of the BL: e.g. an AUD, a prefix SEI, parameter sets) close the buffer of
the last frame like any NAL of a new frame and are themselves left to `finalize`, which does not write them — nor
the EL frame that was held back for the last BL frame.  RPU conversions are modelled eagerly: the tool converts an
EL RPU when it reads it, so an unconvertible RPU in EL frames that are never read (EL much longer than BL) does not
make it panic.
`none`: an SEI does not parse, an RPU conversion panics, or no frame is found for an AUD; `some (out, true)`: the EL
has more frames than the BL — the output is trimmed to the BL length and the exit status is an error. -/
def mux (c : MCfg) (aud : Nat → Bytes) (conv : Bytes → Option Bytes) (nFrames : Nat) (bl el : List Item) :
    Option (List Out × Bool) :=
  match seiStage c.drop bl, elFrames c conv (runs el) with
  | some b, some es =>
    if muxAudFramesOk c nFrames (frames b) then some (muxGo c aud nFrames (frames b) es) else none
  | _, _ => none

end Dovi.Hevc
