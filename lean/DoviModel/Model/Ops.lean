import DoviModel.Model.RpuWrite
/-!
# M4 / M5 — extension-block container operations and RPU-level edits / conversions

Transliteration of `extension_metadata/mod.rs` (`WithExtMetadataBlocks`), `cmv29.rs`, `cmv40.rs`,
`vdr_dm_data.rs` (block routing and replacement) and `dovi_rpu.rs` (`convert_with_mode`, `crop`, …).
-/
namespace Dovi

/-! ## M4 containers -/

/-- `sort_key()`: (level, target) — L2 by target_max_pq, L8/L10 by display index, L9 by primary index -/
def Block.sortKey (b : Block) : Nat × Nat :=
  (b.level, if b.level == 2 || b.level == 8 || b.level == 9 || b.level == 10 then (b.vals.getD 0 0).toNat else 0)

def keyLe (a b : Block) : Bool :=
  a.sortKey.1 < b.sortKey.1 || (a.sortKey.1 == b.sortKey.1 && a.sortKey.2 ≤ b.sortKey.2)

def keyLt (a b : Block) : Bool :=
  a.sortKey.1 < b.sortKey.1 || (a.sortKey.1 == b.sortKey.1 && a.sortKey.2 < b.sortKey.2)

/-- stable insertion of an element that preceded all of the list: before the first element that is
not strictly smaller (so it stays in front of equal keys) -/
def insertSorted (b : Block) : List Block → List Block
  | [] => [b]
  | x :: xs => if keyLt x b then x :: insertSorted b xs else b :: x :: xs

/-- `sort_by_key` (stable) -/
def sortBlocks (bs : List Block) : List Block := bs.foldr insertSorted []

/-- `update_extension_block_info` -/
def Container.update (c : Container) : Container :=
  { num_ext_blocks := c.blocks.length, blocks := sortBlocks c.blocks }

/-- `add_block` -/
def Container.addBlock (allowed : List Nat) (c : Container) (b : Block) : Res Container :=
  if allowed.contains b.level then .ok ({ c with blocks := c.blocks ++ [b] }).update else .error

/-- `remove_level` -/
def Container.removeLevel (c : Container) (level : Nat) : Container :=
  ({ c with blocks := c.blocks.filter (fun b => b.level != level) }).update

/-- replace the first element satisfying `p`, or append -/
def replaceFirstOrPush (p : Block → Bool) (b : Block) : List Block → List Block
  | [] => [b]
  | x :: xs => if p x then b :: xs else x :: replaceFirstOrPush p b xs

/-- `replace_level2_block` / `replace_level8_block` / `replace_level10_block`: upsert keyed by (level, target) -/
def Container.replaceKeyed (c : Container) (b : Block) : Container :=
  ({ c with blocks := replaceFirstOrPush (fun x => x.level == b.level && x.vals.getD 0 0 == b.vals.getD 0 0) b c.blocks }).update

/-! ## routing by level (vdr_dm_data.rs) -/

inductive Which where | v29 | v40
deriving DecidableEq, Repr

def whichContainer (level : Nat) : Option Which :=
  if cmv29Levels.contains level then some .v29
  else if cmv40Levels.contains level then some .v40
  else none

def DmData.get (d : DmData) : Which → Option Container
  | .v29 => d.cmv29
  | .v40 => d.cmv40

def DmData.set (d : DmData) (w : Which) (c : Container) : DmData :=
  match w with
  | .v29 => { d with cmv29 := some c }
  | .v40 => { d with cmv40 := some c }

def allowedOf : Which → List Nat
  | .v29 => cmv29Levels
  | .v40 => cmv40Levels

/-- `add_metadata_block`: no-op when the level's container is absent -/
def DmData.addBlock (d : DmData) (b : Block) : Res DmData :=
  match whichContainer b.level with
  | none => .ok d
  | some w =>
    match d.get w with
    | none => .ok d
    | some c => (c.addBlock (allowedOf w) b).bind fun c' => .ok (d.set w c')

/-- `remove_metadata_level` -/
def DmData.removeLevel (d : DmData) (level : Nat) : DmData :=
  match whichContainer level with
  | none => d
  | some w =>
    match d.get w with
    | none => d
    | some c => d.set w (c.removeLevel level)

/-- `replace_metadata_level` -/
def DmData.replaceLevel (d : DmData) (b : Block) : Res DmData :=
  (d.removeLevel b.level).addBlock b

/-- `replace_metadata_block` -/
def DmData.replaceBlock (d : DmData) (b : Block) : Res DmData :=
  if b.level == 2 || b.level == 8 || b.level == 10 then
    match whichContainer b.level with
    | none => .error
    | some w =>
      match d.get w with
      | none => .error                      -- "Cannot replace L… metadata, no CM v… DM data"
      | some c => .ok (d.set w (c.replaceKeyed b))
  else if b.level == 0 then .error          -- Reserved
  else d.replaceLevel b

/-- `replace_metadata_blocks` -/
def DmData.replaceBlocks (d : DmData) : List Block → Res DmData
  | [] => .ok d
  | b :: bs => (d.replaceBlock b).bind fun d' => d'.replaceBlocks bs

/-- `level_blocks_iter(level)` -/
def DmData.levelBlocks (d : DmData) (level : Nat) : List Block :=
  match whichContainer level with
  | none => []
  | some w =>
    match d.get w with
    | none => []
    | some c => c.blocks.filter (fun b => b.level == level)

def DmData.getBlock (d : DmData) (level : Nat) : Option Block := (d.levelBlocks level).head?

/-! ## M5 edits and conversions (dovi_rpu.rs) -/

def l5Block (l r t b : Nat) : Block := { level := 5, length := 7, vals := [l, r, t, b] }

def setList {α} (l : List α) (i : Nat) (v : α) : List α := l.set i v

/-- `set_p81_coeffs` -/
def DmData.setP81Coeffs (d : DmData) : DmData :=
  let vals : List Int := [9574, 0, 13802, 9574, -1540, -5348, 9574, 17610, 0, 16777216, 134217728, 134217728,
                          7222, 8771, 390, 2654, 12430, 1300, 0, 422, 15962]
  let main := vals ++ d.main.drop 21
  { d with main := main.set 26 0 }          -- signal_color_space = 0

/-- `source_meta_from_l6` -/
def sourceMetaFromL6 (b : Block) : Nat × Nat :=
  let mdlMax := b.vals.getD 0 0
  let mdlMin := b.vals.getD 1 0
  ((if mdlMin ≤ 10 then 7 else if mdlMin == 50 then 62 else 0),
   (if mdlMax == 1000 then 3079 else if mdlMax == 2000 then 3388 else if mdlMax == 4000 then 3696
    else if mdlMax == 10000 then 4095 else 3079))

/-- `change_source_levels` -/
def DmData.changeSourceLevels (d : DmData) (minPq maxPq : Option Nat) : DmData :=
  let main := match minPq with | some v => d.main.set 29 v | none => d.main
  let main := match maxPq with | some v => main.set 30 v | none => main
  let d := { d with main }
  match d.getBlock 6 with
  | none => d
  | some l6 =>
    let (dmin, dmax) := sourceMetaFromL6 l6
    let main := if minPq.isNone && d.main.getD 29 0 == 0 then d.main.set 29 dmin else d.main
    let main := if maxPq.isNone && main.getD 30 0 == 0 then main.set 30 dmax else main
    { d with main }

def p81PolyCurve : PolyCurve :=
  { poly_order_minus1 := [0], linear_interp_flag := [false], poly_coef_int := [[0, 1]], poly_coef := [[0, 0]] }

/-- `set_empty_p81_mapping` -/
def Mapping.setEmptyP81 (m : Mapping) : Mapping :=
  { m with curves := m.curves.map fun _ =>
      { num_pivots_minus2 := 0, pivots := [0, 1023], mapping_idc := .polynomial,
        polynomial := some p81PolyCurve, mmr := none } }

def Nlq.melDefault : Nlq :=
  { nlq_offset := [0, 0, 0], vdr_in_max_int := [1, 1, 1], vdr_in_max := [0, 0, 0],
    linear_deadzone_slope_int := [0, 0, 0], linear_deadzone_slope := [0, 0, 0],
    linear_deadzone_threshold_int := [0, 0, 0], linear_deadzone_threshold := [0, 0, 0] }

def Rpu.crop (r : Rpu) : Res Rpu :=
  let r := { r with modified := true }
  match r.vdr_dm_data with
  | none => .ok r
  | some d => (d.replaceBlock (l5Block 0 0 0 0)).bind fun d' => .ok { r with vdr_dm_data := some d' }

def Rpu.setActiveAreaOffsets (r : Rpu) (l rr t b : Nat) : Res Rpu :=
  let r := { r with modified := true }
  match r.vdr_dm_data with
  | none => .ok r
  | some d => (d.replaceBlock (l5Block l rr t b)).bind fun d' => .ok { r with vdr_dm_data := some d' }

def Rpu.removeMapping (r : Rpu) : Rpu :=
  { r with modified := true, rpu_data_mapping := r.rpu_data_mapping.map Mapping.setEmptyP81 }

def Rpu.removeCmv40 (r : Rpu) : Rpu :=
  match r.vdr_dm_data with
  | some d => if d.cmv40.isSome then { r with modified := true, vdr_dm_data := some { d with cmv40 := none } } else r
  | none => r

/-- `replace_levels_from_rpu` -/
def Rpu.replaceLevelsFrom (r src : Rpu) (levels : List Nat) : Res Rpu :=
  if levels.isEmpty then .error
  else match r.vdr_dm_data, src.vdr_dm_data with
    | some d, some sd =>
      let rec go (d : DmData) : List Nat → Res DmData
        | [] => .ok d
        | l :: ls => (d.replaceBlocks (sd.levelBlocks l)).bind fun d' => go d' ls
      (go d levels).bind fun d' => .ok { r with modified := true, vdr_dm_data := some d' }
    | _, _ => .ok r

/-- `convert_to_p81` -/
def Rpu.convertToP81 (r : Rpu) : Rpu :=
  let h := { r.header with el_spatial_resampling_filter_flag := false, disable_residual_flag := true }
  let m := r.rpu_data_mapping.map fun m =>
    { m with nlq_method_idc := none, nlq_num_pivots_minus2 := none, nlq_pred_pivot_value := none,
             num_x_partitions_minus1 := 0, num_y_partitions_minus1 := 0, nlq := none }
  { r with modified := true, header := h, rpu_data_mapping := m, vdr_dm_data := r.vdr_dm_data.map DmData.setP81Coeffs }

/-- `convert_to_mel` -/
def Rpu.convertToMel (r : Rpu) : Res Rpu :=
  let h := { r.header with el_spatial_resampling_filter_flag := true, disable_residual_flag := false }
  match r.rpu_data_mapping with
  | none => .ok { r with header := h }
  | some m =>
    let m := { m with nlq_method_idc := some 0, nlq_num_pivots_minus2 := some 0, nlq_pred_pivot_value := some [0, 1023] }
    match m.nlq with
    | some _ => .ok { r with header := h, rpu_data_mapping := some { m with nlq := some Nlq.melDefault } }
    | none =>
      if r.dovi_profile == 8 then .ok { r with header := h, rpu_data_mapping := some { m with nlq := some Nlq.melDefault } }
      else .error

def p8DefaultHeader : Header :=
  { rpu_nal_prefix := 25, rpu_type := 2, rpu_format := 18, vdr_rpu_profile := 1, vdr_rpu_level := 0,
    vdr_seq_info_present_flag := true, chroma_resampling_explicit_filter_flag := false,
    coefficient_data_type := 0, coefficient_log2_denom := 23, coefficient_log2_denom_length := 23,
    vdr_rpu_normalized_idc := 1, bl_video_full_range_flag := false, bl_bit_depth_minus8 := 2,
    el_bit_depth_minus8 := 2, vdr_bit_depth_minus8 := 4, spatial_resampling_filter_flag := false,
    reserved_zero_3bits := 0, el_spatial_resampling_filter_flag := false, disable_residual_flag := true,
    vdr_dm_metadata_present_flag := true, use_prev_vdr_rpu_flag := false, prev_vdr_rpu_id := 0 }

/-- `Profile84::rpu_data_mapping()` (static iPhone 13 polynomial + MMR) -/
def p84Poly : PolyCurve where
  poly_order_minus1 := [1, 1, 1, 1, 1, 1, 1, 1]
  linear_interp_flag := []
  poly_coef_int := [[-1, 1, -3], [-1, 1, -2], [0, 0, -1], [0, 0, 0], [0, -2, 1], [6, -14, 8], [13, -30, 16], [28, -62, 34]]
  poly_coef := [[7978928, 8332855, 4889184], [8269552, 5186604, 3909327], [1317527, 5338528, 7440486],
                [2119979, 2065496, 2288524], [7982780, 5409990, 1585336], [3460436, 3197328, 615464],
                [3921968, 6820672, 5546752], [1947392, 1244640, 6094272]]

def p84Mmr1 : MmrCurve where
  mmr_order_minus1 := [2]
  mmr_constant_int := [1]
  mmr_constant := [1150183]
  mmr_coef_int := [[[-1, -2, -5, 2, 5, 9, -12], [-1, -1, 3, -1, -5, -12, 18], [-1, 0, -2, 0, 2, 7, -19]]]
  mmr_coef := [[[87355, 6228986, 642500, 1023296, 6569512, 5128216, 4317296],
                [8299905, 5819931, 2324124, 7273546, 1562484, 3679480, 6357360],
                [8172981, 3261951, 5970055, 927142, 3525840, 5110348, 6236848]]]

def p84Mmr2 : MmrCurve where
  mmr_order_minus1 := [2]
  mmr_constant_int := [-2]
  mmr_constant := [6266112]
  mmr_coef_int := [[[4, 0, 5, -2, -8, -1, 1], [-4, -1, -6, 1, 12, 0, -4], [1, 0, 2, -1, -8, -1, 4]]]
  mmr_coef := [[[193104, 5369128, 2553116, 8009648, 2772020, 3122453, 2961581],
                [6769788, 2565605, 7864496, 4777288, 649616, 7036536, 1666406],
                [406265, 2901521, 2680224, 146340, 1008052, 4366810, 5080852]]]

def profile84Mapping : Mapping where
  curves := [
    { num_pivots_minus2 := 7, pivots := [63, 69, 230, 256, 256, 37, 16, 8, 7], mapping_idc := .polynomial,
      polynomial := some p84Poly, mmr := none },
    { num_pivots_minus2 := 0, pivots := [0, 1023], mapping_idc := .mmr, polynomial := none, mmr := some p84Mmr1 },
    { num_pivots_minus2 := 0, pivots := [0, 1023], mapping_idc := .mmr, polynomial := none, mmr := some p84Mmr2 }]

/-- `convert_to_p84` (with the DM signaling bits kept) -/
def Rpu.convertToP84 (r : Rpu) : Rpu :=
  let r := r.convertToP81
  let h := { p8DefaultHeader with vdr_dm_metadata_present_flag := r.header.vdr_dm_metadata_present_flag,
                                  reserved_zero_3bits := r.header.reserved_zero_3bits }
  { r with header := h, rpu_data_mapping := some profile84Mapping }

/-- the conversion modes -/
inductive Mode where
  | lossless | toMel | to81 | to84 | to81MappingPreserved
deriving DecidableEq, Repr

/-- `From<u8> for ConversionMode` (library raw integer, editor `mode`, C API) -/
def modeOfU8 (n : Nat) : Mode :=
  match n with
  | 0 => .lossless | 1 => .toMel | 2 => .to81 | 3 => .to81 | 4 => .to84 | 5 => .to81MappingPreserved
  | _ => .lossless

/-- `ConversionModeCli` (`-m N`; other numbers are rejected by clap) -/
def modeOfCli (n : Nat) : Option Mode :=
  match n with
  | 0 => some .lossless | 1 => some .toMel | 2 => some .to81 | 3 => some .to81 | 4 => some .to84
  | 5 => some .to81MappingPreserved
  | _ => none

/-- `convert_with_mode` -/
def Rpu.convertWithMode (r : Rpu) (mode : Mode) : Res Rpu :=
  let r := if mode != .lossless then { r with modified := true } else r
  let done (r : Rpu) : Res Rpu :=
    .ok { r with dovi_profile := r.header.getDoviProfile, el_type := r.rpu_data_mapping.bind Mapping.elType }
  match mode with
  | .lossless => done r
  | .toMel => if r.dovi_profile == 7 || r.dovi_profile == 8 then r.convertToMel.bind done else .error
  | .to81 =>
    if r.dovi_profile == 7 || r.dovi_profile == 8 then
      let r' := r.convertToP81
      -- `el_type` is still the value before the conversion
      done (if r'.el_type == some .fel then r'.removeMapping else r')
    else if r.dovi_profile == 5 then
      let r' := r.convertToP81
      let r' := { r' with dovi_profile := 8,
                          header := { r'.header with vdr_rpu_profile := 1, bl_video_full_range_flag := false } }
      let r' := r'.removeMapping
      done { r' with vdr_dm_data := r'.vdr_dm_data.map DmData.setP81Coeffs }
    else .error
  | .to84 => done r.convertToP84
  | .to81MappingPreserved =>
    if r.dovi_profile == 7 || r.dovi_profile == 8 then done r.convertToP81 else .error

/-- the state a *failed* `convert_with_mode` leaves in the value (the Rust function mutates before it bails):
`modified` is set for every mode but Lossless; a failure inside `convert_to_mel` (no NLQ on a value still classed
profile 7) has already set the two header flags and the three NLQ fields of the mapping -/
def Rpu.afterFailedConvert (r : Rpu) (mode : Mode) : Rpu :=
  let r := if mode != .lossless then { r with modified := true } else r
  match mode with
  | .toMel =>
    if r.dovi_profile == 7 || r.dovi_profile == 8 then
      { r with header := { r.header with el_spatial_resampling_filter_flag := true, disable_residual_flag := false },
               rpu_data_mapping := r.rpu_data_mapping.map fun m =>
                 { m with nlq_method_idc := some 0, nlq_num_pivots_minus2 := some 0,
                          nlq_pred_pivot_value := some [0, 1023] } }
    else r
  | _ => r

/-- after a failed `set_active_area_offsets` (the block is rejected): only `modified` is set -/
def Rpu.afterFailedOffsets (r : Rpu) : Rpu := { r with modified := true }

end Dovi
