import DoviModel.Model.Ops
import DoviModel.Model.Esc
/-!
# EditorModel — `src/dovi/editor.rs` (`Editor::edit`, `EditConfig::execute`, `execute_single_rpu`, …)

`edit : Config → List Rpu → Res (List Bytes)`: remove → per-frame operations → scene-cut ranges → active-area
ranges → level replacement from a source list → encode → duplicate. Map-typed config entries (`scene_cuts`,
`active_area.edits`) are applied in key order (`BTreeMap`).
-/
namespace Dovi.Editor
open Dovi

structure Preset where
  id : Nat
  left : Nat
  right : Nat
  top : Nat
  bottom : Nat
deriving Repr, DecidableEq

structure Config where
  mode : Nat := 0
  removeCmv4 : Bool := false
  removeMapping : Bool := false
  minPq : Option Nat := none
  maxPq : Option Nat := none
  hasActiveArea : Bool := false
  crop : Bool := false
  dropL5 : Option String := none
  presets : Option (List Preset) := none
  aaEdits : Option (List (String × Nat)) := none
  remove : Option (List String) := none
  duplicate : Option (List (Nat × Nat × Nat)) := none      -- (source, offset, length)
  sceneCuts : Option (List (String × Bool)) := none
  level6 : Option (List Nat) := none
  level9 : Option Nat := none
  level11 : Option (List Nat) := none                        -- content_type, whitepoint, reference_mode_flag, reserved2, reserved3
  level255 : Option (List Nat) := none
  source : Option (List Rpu) := none
  levels : Option (List Nat) := none

/-- `str::parse::<usize>()`: optional leading `+`, ASCII digits, must fit 64 bits -/
def parseUsize (s : String) : Option Nat :=
  let cs := s.toList
  let cs := match cs with | '+' :: rest => rest | _ => cs
  if cs.isEmpty || !cs.all Char.isDigit then none
  else
    let v := cs.foldl (fun acc c => acc * 10 + (c.toNat - '0'.toNat)) 0
    if v < 2^64 then some v else none

/-- `range_string_to_tuple`: `none` = "Invalid edit range" (no `-`); an unparsable half counts as 0 -/
def rangeTuple (range : String) : Option (Nat × Nat) :=
  if !range.toList.contains '-' then none
  else
    let parts := range.splitOn "-"
    let a := (parseUsize (parts.getD 0 "")).getD 0
    let b := (parseUsize (parts.getD 1 "")).getD 0
    some (a, b)

/-- insertion sort of map entries by key (byte order of ASCII keys = `BTreeMap<String, _>` order) -/
def insertByKey {α} (e : String × α) : List (String × α) → List (String × α)
  | [] => [e]
  | x :: xs => if e.1 < x.1 then e :: x :: xs else if e.1 == x.1 then e :: xs else x :: insertByKey e xs

/-- a JSON object's entries as the map the tool holds: later duplicates replace earlier ones, key order -/
def asMap {α} (l : List (String × α)) : List (String × α) := l.foldl (fun acc e => insertByKey e acc) []

def setNone (l : List (Option Rpu)) (a b : Nat) : List (Option Rpu) :=
  (List.range l.length).zip l |>.map fun (i, x) => if a ≤ i && i ≤ b then none else x

/-- `remove_frames` -/
def removeFrames (ranges : List String) (rpus : List (Option Rpu)) : Res (List (Option Rpu)) :=
  match ranges with
  | [] => .ok rpus
  | r :: rest =>
    if r.toList.contains '-' then
      match rangeTuple r with
      | none => .error
      | some (s, e) =>
        if !(e < rpus.length) then .error
        else if !(s ≤ e) then .error
        else removeFrames rest (setNone rpus s e)
    else match parseUsize r with
      | some i => if i < rpus.length then removeFrames rest (setNone rpus i i) else .error
      | none => removeFrames rest rpus

def withDm (r : Rpu) (f : DmData → Res DmData) : Res Rpu :=
  match r.vdr_dm_data with
  | none => .ok r
  | some d => (f d).bind fun d' => .ok { r with vdr_dm_data := some d' }

def setOffsets (r : Rpu) (p : Preset) : Res Rpu :=
  withDm { r with modified := true } fun d => d.replaceBlock (l5Block p.left p.right p.top p.bottom)

/-- `ActiveArea::execute_single_rpu` -/
def activeAreaSingle (c : Config) (r : Rpu) : Res Rpu :=
  (if c.crop then r.crop else (Res.ok r : Res Rpu)).bind fun r =>
  ((match c.dropL5 with
   | none => Res.ok r
   | some opt =>
     let p := opt.toLower
     match r.vdr_dm_data with
     | none => Res.ok r
     | some d =>
       let dropIt :=
         if p == "zeroes" then
           (match d.getBlock 5 with
            | some b => b.vals.all (· == 0)
            | none => false)
         else p == "all"
       if dropIt then Res.ok { r with modified := true, vdr_dm_data := some (d.removeLevel 5) } else Res.ok r) : Res Rpu).bind fun r =>
  match c.presets, c.aaEdits with
  | some presets, some edits =>
    let rec go (r : Rpu) : List (String × Nat) → Res Rpu
      | [] => .ok r
      | (k, id) :: rest =>
        if k.toLower == "all" then
          match presets.find? (fun (p : Preset) => p.id == id) with
          | some p => (setOffsets r p).bind fun r' => go r' rest
          | none => .error
        else go r rest
    go r (asMap edits)
  | _, _ => .ok r

def replaceIfDm (r : Rpu) (b : Block) (alwaysModified : Bool) : Res Rpu :=
  match r.vdr_dm_data with
  | none => .ok (if alwaysModified then { r with modified := true } else r)
  | some d => (d.replaceBlock b).bind fun d' => .ok { r with modified := true, vdr_dm_data := some d' }

/-- `execute_single_rpu` -/
def executeSingle (c : Config) (r : Rpu) : Res Rpu :=
  ((if c.removeCmv4 then Res.ok r.removeCmv40 else Res.ok r) : Res Rpu).bind fun r =>
  ((if c.mode > 0 then r.convertWithMode (modeOfU8 c.mode) else Res.ok r) : Res Rpu).bind fun r =>
  ((if c.minPq.isSome || c.maxPq.isSome then
     Res.ok { r with modified := true, vdr_dm_data := r.vdr_dm_data.map fun d => d.changeSourceLevels c.minPq c.maxPq }
   else Res.ok r) : Res Rpu).bind fun r =>
  ((if c.removeMapping then Res.ok r.removeMapping else Res.ok r) : Res Rpu).bind fun r =>
  ((match c.level6 with
   | some v => replaceIfDm r { level := 6, length := 8, vals := v.map Int.ofNat } true
   | none => Res.ok r) : Res Rpu).bind fun r =>
  ((match c.level9 with
   | some idx => replaceIfDm r { level := 9, length := 1, vals := [(idx : Int), 0, 0, 0, 0, 0, 0, 0, 0] } false
   | none => Res.ok r) : Res Rpu).bind fun r =>
  ((match c.level11 with
   | some v => replaceIfDm r { level := 11, length := 4, vals := v.map Int.ofNat } false
   | none => Res.ok r) : Res Rpu).bind fun r =>
  ((match c.level255 with
   | some v => replaceIfDm r { level := 255, length := 6, vals := v.map Int.ofNat } true
   | none => Res.ok r) : Res Rpu).bind fun r =>
  ((match c.sceneCuts with
   | some edits =>
     Res.ok ((asMap edits).foldl (fun r (e : String × Bool) =>
       if e.1.toLower == "all" then
         match r.vdr_dm_data with
         | some d => { r with modified := true, vdr_dm_data := some { d with scene_refresh_flag := if e.2 then 1 else 0 } }
         | none => r
       else r) r)
   | none => Res.ok r) : Res Rpu).bind fun r =>
  if c.hasActiveArea then activeAreaSingle c r else .ok r

def mapSome (f : Rpu → Res Rpu) : List (Option Rpu) → Res (List (Option Rpu))
  | [] => .ok []
  | none :: rest => (mapSome f rest).bind fun t => .ok (none :: t)
  | some r :: rest => (f r).bind fun r' => (mapSome f rest).bind fun t => .ok (some r' :: t)

/-- apply `f` to the present entries with index in `[a, b]` -/
def mapRange (f : Rpu → Res Rpu) (a b : Nat) (l : List (Option Rpu)) : Res (List (Option Rpu)) :=
  let rec go (i : Nat) : List (Option Rpu) → Res (List (Option Rpu))
    | [] => .ok []
    | x :: rest =>
      (match x with
       | some r => if a ≤ i && i ≤ b then (f r).bind fun r' => .ok (some r') else .ok x
       | none => .ok x).bind fun x' => (go (i+1) rest).bind fun t => .ok (x' :: t)
  go 0 l

/-- `set_scene_cuts` (list-wide pass) -/
def sceneCutRanges (edits : List (String × Bool)) (rpus : List (Option Rpu)) : Res (List (Option Rpu)) :=
  match edits with
  | [] => .ok rpus
  | (k, v) :: rest =>
    if k.toLower == "all" then sceneCutRanges rest rpus
    else match rangeTuple k with
      | none => .error
      | some (s, e) =>
        if e ≥ rpus.length then .error
        else if !(s ≤ e) then .error
        else (mapRange (fun (r : Rpu) =>
                match r.vdr_dm_data with
                | some d => Res.ok { r with modified := true,
                                            vdr_dm_data := some { d with scene_refresh_flag := if v then 1 else 0 } }
                | none => Res.ok r) s e rpus).bind
             (sceneCutRanges rest)

/-- `ActiveArea::do_edits` (list-wide pass) -/
def activeAreaRanges (presets : List Preset) (edits : List (String × Nat)) (rpus : List (Option Rpu)) :
    Res (List (Option Rpu)) :=
  match edits with
  | [] => .ok rpus
  | (k, id) :: rest =>
    if k.toLower == "all" then activeAreaRanges presets rest rpus
    else match rangeTuple k with
      | none => .error
      | some (s, e) =>
        if e ≥ rpus.length then .error
        else if !(s ≤ e) then .error
        else match presets.find? (fun p => p.id == id) with
          | none => .error
          | some p => (mapRange (fun r => setOffsets r p) s e rpus).bind (activeAreaRanges presets rest)

/-- `replace_from_rpus`: the remaining entries are zipped with the source list from its start -/
def replaceFromSource (levels : List Nat) : List (Option Rpu) → List Rpu → Res (List (Option Rpu))
  | [], _ => .ok []
  | none :: rest, src => (replaceFromSource levels rest src).bind fun t => .ok (none :: t)
  | some r :: rest, s :: src =>
    (r.replaceLevelsFrom s levels).bind fun r' => (replaceFromSource levels rest src).bind fun t => .ok (some r' :: t)
  | some r :: rest, [] => (replaceFromSource levels rest []).bind fun t => .ok (some r :: t)

/-- `EditConfig::execute` -/
def execute (c : Config) (rpus : List (Option Rpu)) : Res (List (Option Rpu)) :=
  (match c.remove with | some rs => removeFrames rs rpus | none => .ok rpus).bind fun rpus =>
  (mapSome (executeSingle c) rpus).bind fun rpus =>
  (match c.sceneCuts with | some e => sceneCutRanges (asMap e) rpus | none => .ok rpus).bind fun rpus =>
  ((if c.hasActiveArea then
     match c.aaEdits with
     | some e =>
       if e.isEmpty then Res.ok rpus
       else match c.presets with
         | some ps => activeAreaRanges ps (asMap e) rpus
         | none => Res.ok rpus
     | none => Res.ok rpus
   else Res.ok rpus) : Res (List (Option Rpu))).bind fun rpus =>
  match c.source with
  | none => .ok rpus
  | some src =>
    -- `ensure!(rpus.iter().flatten().count() == source_rpus.len())`: the frames that remain after `remove`
    if rpus.countP Option.isSome != src.length then .error
    else match c.levels with
      | none => .error
      | some lv => replaceFromSource lv rpus src

def encodeAll : List (Option Rpu) → Res (List Bytes)
  | [] => .ok []
  | none :: rest => encodeAll rest
  | some r :: rest =>
    (writeRpu r).bind fun o => (encodeAll rest).bind fun t => .ok ((0x7C :: 0x01 :: Esc.escape o) :: t)

/-- stable sort by offset, then reversed (`sort_by_key` + `reverse`) -/
def insertDup (d : Nat × Nat × Nat) : List (Nat × Nat × Nat) → List (Nat × Nat × Nat)
  | [] => [d]
  | x :: xs => if x.2.1 < d.2.1 then x :: insertDup d xs else d :: x :: xs

def sortDups (l : List (Nat × Nat × Nat)) : List (Nat × Nat × Nat) := (l.foldr insertDup []).reverse

/-- `duplicate_metadata` -/
def duplicateAll (dups : List (Nat × Nat × Nat)) (data : List Bytes) : Res (List Bytes) :=
  match dups with
  | [] => .ok data
  | (src, off, len) :: rest =>
    if !(src < data.length && off ≤ data.length) then .error
    else
      let s := data.getD src []
      duplicateAll rest (data.take off ++ List.replicate len s ++ data.drop off)

/-- `Editor::edit`: the list of encoded NALs written to the output file -/
def edit (c : Config) (rpus : List Rpu) : Res (List Bytes) :=
  (execute c (rpus.map some)).bind fun out =>
  (encodeAll out).bind fun data =>
  match c.duplicate with
  | some d => duplicateAll (sortDups d) data
  | none => .ok data

end Dovi.Editor
