import DoviModel.Model.Basic
/-!
# M1 — bit-level reader / writer primitives

Transliteration of what dovi_tool uses from `bitvec_helpers 3.1.6` (`BsIoSliceReader`, `BitstreamIoWriter`)
on top of `bitstream-io 2.6.0` (big-endian). Third-party quirks are modelled, not idealised:

* `get_n(n)`  : error when fewer than `n` bits are available;
* `get_ue`    : `k` zero bits, a one, `k` bits; `k > 64` error, `k = 64` **panics** (`1 << 64` in the dev
                profile); running out of input is an error;
* `get_se`    : goes through `f64` (`((code+1) as f64 / 2.0).floor()`), exact only below 2^53;
                `code = 2^64-2 … ` gives `m = 2^63` and `-(m as i64)` **panics** (negation overflow);
* `write_n`   : error when the value needs more than `n` bits;
* `write_ue`  : `v + 1` **panics** for `v = u64::MAX`;
* `write_se`  : `signed_to_unsigned` **panics** on overflow of `v * 2` / `-2 * v`;
* `write_signed_n` : two's complement, sign bit then `n-1` bits (`n` = type width: raw big-endian bytes).
-/
namespace Dovi

/-- three-valued outcome: a value, an error (`Err`), or a panic/abort of the process -/
inductive Res (α : Type) where
  | ok (a : α)
  | error
  | panic
deriving Repr, DecidableEq

namespace Res
@[inline] def bind {α β} (x : Res α) (f : α → Res β) : Res β :=
  match x with
  | .ok a => f a
  | .error => .error
  | .panic => .panic

instance : Monad Res where
  pure := .ok
  bind := Res.bind

def isOk {α} : Res α → Bool
  | .ok _ => true
  | _ => false

@[simp] theorem bind_ok {α β} (a : α) (f : α → Res β) : (Res.ok a >>= f) = f a := rfl
@[simp] theorem bind_error {α β} (f : α → Res β) : ((Res.error : Res α) >>= f) = .error := rfl
@[simp] theorem bind_panic {α β} (f : α → Res β) : ((Res.panic : Res α) >>= f) = .panic := rfl
@[simp] theorem pure_eq {α} (a : α) : (pure a : Res α) = .ok a := rfl

theorem bind_eq_ok {α β} {x : Res α} {f : α → Res β} {b : β} :
    (x >>= f) = .ok b ↔ ∃ a, x = .ok a ∧ f a = .ok b := by
  cases x <;> simp

/-- `ensure!` -/
@[inline] def ensure (c : Bool) : Res Unit := if c then .ok () else .error
end Res

/-! ### values of bit strings -/

/-- value of an MSB-first bit list -/
def ofBits : Bits → Nat
  | [] => 0
  | b :: bs => (if b then 2 ^ bs.length else 0) + ofBits bs

/-- tail-recursive evaluation used by the executable driver (proved equal to `ofBits`) -/
def ofBitsAcc (acc : Nat) : Bits → Nat
  | [] => acc
  | b :: bs => ofBitsAcc (2 * acc + (if b then 1 else 0)) bs

/-- MSB-first `n`-bit encoding of `v` (the low `n` bits) -/
def toBits : Nat → Nat → Bits
  | 0, _ => []
  | n+1, v => (v / 2^n % 2 == 1) :: toBits n (v % 2^n)

def bytesToBits (bs : Bytes) : Bits := bs.flatMap fun b => toBits 8 b.toNat

def bitsToBytes : Bits → Bytes
  | b0 :: b1 :: b2 :: b3 :: b4 :: b5 :: b6 :: b7 :: rest =>
    UInt8.ofNat (ofBits [b0, b1, b2, b3, b4, b5, b6, b7]) :: bitsToBytes rest
  | _ => []

/-! ### reader -/

/-- a parser over the remaining bits -/
def P (α : Type) := Bits → Res (α × Bits)

namespace P
@[inline] def pure {α} (a : α) : P α := fun s => .ok (a, s)
@[inline] def bind {α β} (x : P α) (f : α → P β) : P β := fun s =>
  match x s with
  | .ok (a, s') => f a s'
  | .error => .error
  | .panic => .panic
instance : Monad P where
  pure := P.pure
  bind := P.bind
@[inline] def fail {α} : P α := fun _ => .error
@[inline] def panic {α} : P α := fun _ => .panic
@[inline] def ensure (c : Bool) : P Unit := fun s => if c then .ok ((), s) else .error
/-- number of bits still available -/
@[inline] def available : P Nat := fun s => .ok (s.length, s)

theorem bind_eq_ok {α β} {x : P α} {f : α → P β} {s : Bits} {b : β} {s' : Bits} :
    (x >>= f) s = .ok (b, s') ↔ ∃ a s1, x s = .ok (a, s1) ∧ f a s1 = .ok (b, s') := by
  show P.bind x f s = _ ↔ _
  unfold P.bind
  cases h : x s with
  | ok p =>
    obtain ⟨a, s1⟩ := p
    constructor
    · intro hf; exact ⟨a, s1, rfl, hf⟩
    · rintro ⟨a', s1', h1, h2⟩
      cases h1; exact h2
  | error => simp
  | panic => simp
end P

/-- `n ≤ s.length`, computed without traversing the whole of `s` -/
def hasAtLeast : Nat → Bits → Bool
  | 0, _ => true
  | _+1, [] => false
  | n+1, _ :: t => hasAtLeast n t

theorem hasAtLeast_iff (n : Nat) (s : Bits) : hasAtLeast n s = true ↔ n ≤ s.length := by
  induction n generalizing s with
  | zero => simp [hasAtLeast]
  | succ n ih =>
    cases s with
    | nil => simp [hasAtLeast]
    | cons b t => simp [hasAtLeast, ih]

/-- `get_n(n)` (the result type is wide enough at every call site) -/
def readN (n : Nat) : P Nat := fun s =>
  if hasAtLeast n s then .ok (ofBits (s.take n), s.drop n) else .error

/-- `get()` -/
def readBit : P Bool := fun s =>
  match s with
  | b :: rest => .ok (b, rest)
  | [] => .error

/-- count leading zero bits up to and including the terminating one (`read_unary1`) -/
def readUnaryAux (k : Nat) : Bits → Res (Nat × Bits)
  | [] => .error
  | true :: rest => .ok (k, rest)
  | false :: rest => readUnaryAux (k+1) rest

def readUnary (k : Nat) : P Nat := readUnaryAux k

/-- `get_ue` -/
def readUe : P Nat := do
  let k ← readUnary 0
  if k = 0 then pure 0
  else if k > 64 then P.fail           -- bitstream-io: "excessive bits for type read"
  else do
    let v ← readN k
    if k = 64 then P.panic              -- `1 << 64` overflows (dev profile)
    else pure (v + 2^k - 1)

/-- nearest-even rounding of a natural number to a 53-bit mantissa (`u64 as f64`) -/
def roundToF64 (n : Nat) : Nat :=
  if n < 2^53 then n else
    let e := n.log2 + 1 - 53
    let q := n / 2^e
    let r := n % 2^e
    let half := 2^(e-1)
    let q' := if r > half ∨ (r = half ∧ q % 2 = 1) then q + 1 else q
    q' * 2^e

/-- `get_se` -/
def readSe : P Int := do
  let code ← readUe
  -- `code + 1` cannot overflow: k = 64 already panicked, so code ≤ 2^64 - 2
  let m := roundToF64 (code + 1) / 2
  if code % 2 = 0 then
    if m ≥ 2^63 then P.panic           -- `-(m as i64)` with m = 2^63: negation overflow
    else pure (-(m : Int))
  else
    -- `m as i64` wraps for m = 2^63 (cannot happen for odd codes below 2^64 - 1 … kept exact)
    if m ≥ 2^63 then pure ((m : Int) - 2^64) else pure (m : Int)

/-- skip zero bits up to the next byte boundary (`while !is_aligned { ensure!(!get()) }`);
the input is whole bytes, so "aligned" is "remaining length divisible by 8" -/
def readAlignZero : P Unit := fun s =>
  let k := s.length % 8
  if (s.take k).all (· == false) then .ok ((), s.drop k) else .error

/-- read exactly `n` raw bits -/
def readBits (n : Nat) : P Bits := fun s =>
  if hasAtLeast n s then .ok (s.take n, s.drop n) else .error

/-! ### writer -/

/-- `write_n(v, n)` for a type at least `n` bits wide (every call site) -/
def writeN (n v : Nat) : Res Bits :=
  if v < 2^n then .ok (toBits n v) else .error

def writeBit (b : Bool) : Res Bits := .ok [b]

/-- number of bits of `v` (0 for 0) -/
def bitLen (v : Nat) : Nat := if v = 0 then 0 else v.log2 + 1

/-- `write_ue(v)` for `v : u64` -/
def writeUe (v : Nat) : Res Bits :=
  if v = 0 then .ok [true]
  else if v + 1 ≥ 2^64 then .panic      -- `v + 1` overflows
  else
    let lz := bitLen (v + 1) - 1
    .ok (List.replicate lz false ++ [true] ++ toBits lz (v + 1 - 2^lz))

/-- `signed_to_unsigned` + `write_ue` for `v : i64` -/
def writeSe (v : Int) : Res Bits :=
  if v > 0 then
    if 2 * v ≥ 2^63 then .panic else writeUe (2 * v - 1).toNat
  else
    if -2 * v ≥ 2^63 then .panic else writeUe (-2 * v).toNat

/-- `write_signed_n(v, n)` for an `i16` value: `n = 16` raw bytes; otherwise sign bit + `n-1` bits -/
def writeSigned16 (n : Nat) (v : Int) : Res Bits :=
  if n = 16 then .ok (toBits 16 (v % 65536).toNat)
  else if v < 0 then
    -- `as_unsigned(bits)`: v + 2^(n-1) as unsigned; must fit n-1 bits
    let u := v + 2^(n-1)
    if u < 0 then .error else (writeN (n-1) u.toNat).bind fun w => .ok (true :: w)
  else (writeN (n-1) v.toNat).bind fun w => .ok (false :: w)

/-- concatenate the outputs of a sequence of writes, stopping at the first failure -/
def wcat : List (Res Bits) → Res Bits
  | [] => .ok []
  | w :: ws =>
    match w with
    | .ok b => (wcat ws).bind fun rest => .ok (b ++ rest)
    | .error => .error
    | .panic => .panic

/-- zero padding to the next multiple of 8 given the number of bits already written -/
def alignPad (written : Nat) : Bits := List.replicate ((8 - written % 8) % 8) false

/-! ### CRC-32/MPEG-2 -/

def crcStep1 (crc : Nat) : Nat :=
  if crc / 2^31 % 2 == 1 then ((crc * 2) % 2^32) ^^^ 0x04C11DB7 else (crc * 2) % 2^32

def crcByte (crc : Nat) (b : UInt8) : Nat :=
  crcStep1 (crcStep1 (crcStep1 (crcStep1 (crcStep1 (crcStep1 (crcStep1 (crcStep1 (crc ^^^ (b.toNat * 2^24)))))))))

/-- CRC-32/MPEG-2 (poly 04C11DB7, init FFFFFFFF, no reflection, no final xor) -/
def crc32 (bs : Bytes) : Nat := bs.foldl crcByte 0xFFFFFFFF

end Dovi
