import DoviModel.Model.Editor
/-!
# ExportModel — `src/dovi/exporter.rs` (scenes, level5 config) and the integer part of `info --summary`
-/
namespace Dovi.Export
open Dovi

/-- `export -d scenes`: 0-based indices of frames whose scene_refresh_flag is 1 -/
def scenes (l : List Rpu) : List Nat :=
  ((List.range l.length).zip l).filterMap fun (i, r) =>
    match r.vdr_dm_data with
    | some d => if d.scene_refresh_flag == 1 then some i else none
    | none => none

/-- the L5 offsets of a frame (zero offsets when there is no L5 block or no DM data) -/
def l5Of (r : Rpu) : List Int :=
  match r.vdr_dm_data with
  | some d => (match d.getBlock 5 with | some b => b.vals | none => [0, 0, 0, 0])
  | none => [0, 0, 0, 0]

/-- run-length groups of equal consecutive keys: (key, start index) -/
def groupsFrom (i : Nat) : List (List Int) → List (List Int × Nat)
  | [] => []
  | [k] => [(k, i)]
  | k :: k2 :: rest =>
    let g := groupsFrom (i+1) (k2 :: rest)
    if k == k2 then
      match g with
      | (_, _) :: gt => (k, i) :: gt
      | [] => [(k, i)]
    else (k, i) :: g

def dedup (ks : List (List Int)) : List (List Int) :=
  ks.foldl (fun acc k => if acc.contains k then acc else acc ++ [k]) []

/-- `export -d level5`: (presets in first-appearance order, edits (start, end, preset id)) -/
def level5Config (l : List Rpu) : List (List Int) × List (Nat × Nat × Nat) :=
  let gs := groupsFrom 0 (l.map l5Of)
  let presets := dedup (gs.map (·.1))
  let starts := gs.map (·.2)
  let ends := (starts.drop 1).map (· - 1) ++ [l.length - 1]
  (presets, (gs.zip ends).map fun ((k, s), e) => (s, e, (presets.idxOf k)))

/-- sorted, de-duplicated list of naturals -/
def uniqSorted (l : List Nat) : List Nat :=
  (l.foldl (fun acc x => if acc.contains x then acc else acc ++ [x]) []).mergeSort (· ≤ ·)

def joinComma (l : List String) : String := ", ".intercalate l

/-- the profile line of the summary -/
def profilesStr (l : List Rpu) : String :=
  let ps := joinComma ((uniqSorted (l.map (·.dovi_profile))).map toString)
  let base := (if (ps.splitOn ", ").length > 1 then "Profiles: " else "Profile: ") ++ ps
  if ps.toList.contains '7' then
    let subs := (l.filterMap fun r => r.el_type.map fun e => match e with | .mel => "MEL" | .fel => "FEL")
    let subsU := (subs.foldl (fun acc x => if acc.contains x then acc else acc ++ [x]) []).mergeSort (· ≤ ·)
    -- inserted right after the first '7' of the whole line
    let cs := base.toList
    let idx := cs.idxOf '7'
    String.ofList (cs.take (idx + 1)) ++ " (" ++ joinComma subsU ++ ")" ++ String.ofList (cs.drop (idx + 1))
  else base

structure Summary where
  count : Nat
  profiles : String
  dmVersion : String
  dmCounts : Option (Nat × Nat)
  sceneCount : Nat
  l6 : List (List Int)            -- distinct L6 blocks in first-appearance order
  l2Targets : List Int            -- distinct L2 target_max_pq codes in first-appearance order
  sourcePq : List (Int × Int)     -- distinct (source_min_pq, source_max_pq), sorted
  maxL1 : Int × Int × Int         -- max over frames of (min_pq, max_pq, avg_pq)
deriving Repr

def l1Of (cmv40 : Bool) (r : Rpu) : List Int :=
  -- frames without L1 count as the clamped zero block: min 0, max 2081, avg 819 / 1229
  let dflt : List Int := [0, 2081, if cmv40 then 1229 else 819]
  match r.vdr_dm_data with
  | some d => (match d.getBlock 1 with | some b => b.vals | none => dflt)
  | none => dflt

def maxOf (l : List Int) : Int := l.foldl max (l.headD 0)

def summary (l : List Rpu) : Summary :=
  let v1 := (l.filter fun r => (r.vdr_dm_data.bind (·.cmv29)).isSome).length
  let v2 := (l.filter fun r => (r.vdr_dm_data.bind (·.cmv40)).isSome).length
  let (counts, ver) :=
    if v2 == v1 then (none, "2 (CM v4.0)")
    else if v2 == 0 then (none, "1 (CM v2.9)")
    else (some (v1, v2), "1 + 2 (CM 2.9 and 4.0)")
  let l6s := l.filterMap fun r => r.vdr_dm_data.bind fun d => (d.getBlock 6).map (·.vals)
  let l2s := (l.filterMap fun r => r.vdr_dm_data.map fun d => (d.levelBlocks 2).map fun b => b.vals.getD 0 0).flatten
  let src := l.filterMap fun r => r.vdr_dm_data.map fun d => (d.main.getD 29 0, d.main.getD 30 0)
  let srcU := src.foldl (fun acc x => if acc.contains x then acc else acc ++ [x]) []
  let srcS := srcU.mergeSort (fun a b => a.1 < b.1 || (a.1 == b.1 && a.2 ≤ b.2))
  let l1 := l.map (l1Of (v2 > 0))
  { count := l.length, profiles := profilesStr l, dmVersion := ver, dmCounts := counts,
    sceneCount := (scenes l).length,
    l6 := l6s.foldl (fun acc x => if acc.contains x then acc else acc ++ [x]) [],
    l2Targets := l2s.foldl (fun acc x => if acc.contains x then acc else acc ++ [x]) [],
    sourcePq := srcS,
    maxL1 := (maxOf (l1.map (·.getD 0 0)), maxOf (l1.map (·.getD 1 0)), maxOf (l1.map (·.getD 2 0))) }

end Dovi.Export
