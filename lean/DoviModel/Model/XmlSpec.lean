import DoviModel.Model.Generate
/-!
# XmlSpec — the documented integer encodings of Dolby CM XML values, and the XML generation path

`dolby_vision/src/xml/parser.rs` + `src/dovi/generator.rs::config_from_xml`.

Decimal inputs are *scaled integers*: a document value `x` with at most six fractional digits is the
integer `x · 10^6` (`M`), so every documented formula is an exact rational `num / den` with integer
`num` and positive `den`, and `roundHalfAway num den` is the exact half-away-from-zero rounding.
No floating point appears anywhere: this is the specification the real `f32`/`f64` code is compared
against (off rounding ties) by `vlib/c11.py`.
-/
namespace Dovi.Xml
open Dovi Dovi.Gen

/-- the decimal scale: six fractional digits -/
def M : Nat := 1000000

/-- nearest integer to `num / den` for naturals, ties up: `⌊(2·num + den) / (2·den)⌋` -/
def roundDivNat (num den : Nat) : Nat := (2 * num + den) / (2 * den)

/-- `f32::round` / `f64::round` of the exact rational `num / den` (`den > 0`): half away from zero -/
def roundHalfAway (num : Int) (den : Nat) : Int :=
  if num < 0 then -((roundDivNat num.natAbs den : Nat) : Int) else ((roundDivNat num.natAbs den : Nat) : Int)

/-- `as u16` / `as u8` of a float holding the integer `z`: saturating -/
def satTo (hi : Nat) (z : Int) : Nat := min z.toNat hi

/-- chroma weight, saturation gain, ms weight, mid-contrast bias, highlight clipping:
`min(4095, round(v·2048 + 2048))` -/
def lin12 (v : Int) : Nat := min 4095 (satTo 65535 (roundHalfAway (v * 2048 + 2048 * M) M))

/-- `trim_slope = min(4095, round(((gain+2)(1 − lift/2) − 2)·2048 + 2048))`, over the denominator `2·M²` -/
def slope12 (lift gain : Int) : Nat :=
  min 4095 (satTo 65535 (roundHalfAway
    (((gain + 2 * M) * (2 * M - lift) - 4 * M * M) * 2048 + 2048 * (2 * M * M)) (2 * M * M)))

/-- `trim_offset = min(4095, round((gain+2)(lift/2)·2048 + 2048))` -/
def offset12 (lift gain : Int) : Nat :=
  min 4095 (satTo 65535 (roundHalfAway ((gain + 2 * M) * lift * 2048 + 2048 * (2 * M * M)) (2 * M * M)))

/-- `gamma.clamp(-1, 1)` -/
def clampGamma (g : Int) : Int := max (-(M : Int)) (min (M : Int) g)

/-- `trim_power = min(4095, round((2/(1 + γ/2) − 2)·2048 + 2048))` with γ clamped to [−1, 1];
`(2/(1+γ/2) − 2)·2048 + 2048 = 2048·(2 − γ)/(2 + γ)` -/
def power12 (gamma : Int) : Nat :=
  let c := clampGamma gamma
  min 4095 (satTo 65535 (roundHalfAway (2048 * (2 * M - c)) (2 * M + c).toNat))

/-- saturation / hue vector field entries: `min(255, round(v·128 + 128))` -/
def vec8 (v : Int) : Nat := min 255 (satTo 255 (roundHalfAway (v * 128 + 128 * M) M))

/-- L1 value: `round(4095·x)` as a 12-bit PQ code (clamped afterwards by `clampL1`) -/
def pq12 (v : Int) : Nat := satTo 65535 (roundHalfAway (v * 4095) M)

/-- L3 offset: `round(v·2048 + 2048)` (no clamp in the documented formula) -/
def l3off (v : Int) : Nat := satTo 65535 (roundHalfAway (v * 2048 + 2048 * M) M)

/-- custom primaries: `round(v · 32767)` -/
def prim16 (v : Int) : Nat := satTo 65535 (roundHalfAway (v * 32767) M)

/-- the L1 block of an `ImageCharacter` node (XML order: min, avg, max), clamped like `from_stats_cm_version` -/
def l1Block (cmv40 : Bool) (mn av mx : Int) : Block :=
  clampL1 cmv40 { level := 1, length := 5, vals := [(pq12 mn : Int), (pq12 mx : Int), (pq12 av : Int)] }

/-- the L3 block of an `L1Offset` node (XML order: min, avg, max) -/
def l3Block (mn av mx : Int) : Block :=
  { level := 3, length := 5, vals := [(l3off mn : Int), (l3off mx : Int), (l3off av : Int)] }

/-! ## L5 from the canvas size and the two aspect ratios -/

/-- `calculate_level5_metadata`: (left, right, top, bottom); `c`, `i` = canvas / image aspect ratio (scaled, positive) -/
def l5Offsets (cw ch c i : Nat) : List Nat :=
  if c = i then [0, 0, 0, 0]
  else if i > c then
    let imageH := roundDivNat (ch * c) i
    let diff := ch - imageH
    [0, 0, diff / 2, diff - diff / 2]
  else
    let imageW := roundDivNat (cw * i) c
    let diff := cw - imageW
    [diff / 2, diff - diff / 2, 0, 0]

/-- canvas size absent (either option missing): zero offsets -/
def l5OfXml (canvas : Option (Nat × Nat)) (c i : Nat) : Block :=
  match canvas with
  | none => { level := 5, length := 7, vals := [0, 0, 0, 0] }
  | some (cw, ch) => { level := 5, length := 7, vals := (l5Offsets cw ch c i).map Int.ofNat }

/-! ## L8: trims and the shortest length that holds the non-default fields -/

/-- the integer fields of an L8 block -/
structure L8 where
  tid : Nat
  slope : Nat
  offset : Nat
  power : Nat
  chroma : Nat
  satGain : Nat
  ms : Nat
  mid : Nat
  clip : Nat
  s0 : Nat
  s1 : Nat
  s2 : Nat
  s3 : Nat
  s4 : Nat
  s5 : Nat
  h0 : Nat
  h1 : Nat
  h2 : Nat
  h3 : Nat
  h4 : Nat
  h5 : Nat
deriving Repr, DecidableEq

def L8.hueDefault (b : L8) : Bool :=
  b.h0 == 128 && b.h1 == 128 && b.h2 == 128 && b.h3 == 128 && b.h4 == 128 && b.h5 == 128

def L8.satDefault (b : L8) : Bool :=
  b.s0 == 128 && b.s1 == 128 && b.s2 == 128 && b.s3 == 128 && b.s4 == 128 && b.s5 == 128

/-- "Only write trims which were modified" -/
def l8Length (b : L8) : Nat :=
  if !b.hueDefault then 25
  else if !b.satDefault then 19
  else if b.clip != 2048 then 13
  else if b.mid != 2048 then 12
  else 10

/-- struct fields in declaration order -/
def L8.vals (b : L8) : List Int :=
  [b.tid, b.slope, b.offset, b.power, b.chroma, b.satGain, b.ms, b.mid, b.clip,
   b.s0, b.s1, b.s2, b.s3, b.s4, b.s5, b.h0, b.h1, b.h2, b.h3, b.h4, b.h5]

def L8.block (b : L8) : Block := { level := 8, length := l8Length b, vals := b.vals }

/-- what a reader recovers from an L8 block written with byte length `len`: the fields the syntax carries
at that length, then the defaults (`parseBlock`: `vals ++ (blockDefaults 8).drop vals.length`) -/
def l8DecodeAt (len : Nat) (vals : List Int) : List Int :=
  match blockParseLayout 8 len with
  | some widths => vals.take widths.length ++ (blockDefaults 8).drop widths.length
  | none => []

/-- the L8 block of an XML `Level8` node: lift, gain, gamma, chroma, saturation, ms weight; mid-contrast bias;
highlight clipping; six saturation and six hue vector entries (all scaled decimals) -/
def l8OfXml (tid : Nat) (lift gain gamma chroma sat ms mid clip : Int) (sv hv : List Int) : L8 :=
  { tid, slope := slope12 lift gain, offset := offset12 lift gain, power := power12 gamma,
    chroma := lin12 chroma, satGain := lin12 sat, ms := lin12 ms, mid := lin12 mid, clip := lin12 clip,
    s0 := vec8 (sv.getD 0 0), s1 := vec8 (sv.getD 1 0), s2 := vec8 (sv.getD 2 0),
    s3 := vec8 (sv.getD 3 0), s4 := vec8 (sv.getD 4 0), s5 := vec8 (sv.getD 5 0),
    h0 := vec8 (hv.getD 0 0), h1 := vec8 (hv.getD 1 0), h2 := vec8 (hv.getD 2 0),
    h3 := vec8 (hv.getD 3 0), h4 := vec8 (hv.getD 4 0), h5 := vec8 (hv.getD 5 0) }

/-- the L2 block of an XML `Level2` node (the target's PQ code is computed from its peak nits) -/
def l2OfXml (targetMaxPq : Nat) (lift gain gamma chroma sat ms : Int) : Block :=
  { level := 2, length := 11,
    vals := [(targetMaxPq : Int), (slope12 lift gain : Int), (offset12 lift gain : Int), (power12 gamma : Int),
             (lin12 chroma : Int), (lin12 sat : Int), (lin12 ms : Int)] }

/-! ## primaries: preset index or custom values; L9 and L10 -/

/-- `PRESET_TARGET_DISPLAYS` -/
def presetTargets : List Nat := [1, 16, 18, 21, 27, 28, 37, 38, 42, 48, 49]

/-- `PREDEFINED_COLORSPACE_PRIMARIES` (scaled by 10^6) -/
def colorspacePrimaries : List (List Int) :=
  [[680000, 320000, 265000, 690000, 150000, 60000, 312700, 329000],
   [640000, 330000, 300000, 600000, 150000, 60000, 312700, 329000],
   [708000, 292000, 170000, 797000, 131000, 46000, 312700, 329000],
   [630000, 340000, 310000, 595000, 155000, 70000, 312700, 329000],
   [640000, 330000, 290000, 600000, 150000, 60000, 312700, 329000],
   [680000, 320000, 265000, 690000, 150000, 60000, 314000, 351000],
   [734700, 265300, 0, 1000000, 100, -77000, 321680, 337670],
   [730000, 280000, 140000, 855000, 100000, -50000, 312700, 329000],
   [766000, 275000, 225000, 800000, 89000, -87000, 312700, 329000]]

/-- `PREDEFINED_REALDEVICE_PRIMARIES` (scaled by 10^6) -/
def realdevicePrimaries : List (List Int) :=
  [[693000, 304000, 208000, 761000, 146700, 52700, 312700, 329000],
   [686700, 308500, 231000, 690000, 148900, 63800, 312700, 329000],
   [678100, 318900, 236500, 704800, 141000, 48900, 312700, 329000],
   [680000, 320000, 265000, 690000, 150000, 60000, 312700, 329000],
   [704200, 294000, 227100, 725000, 141600, 51600, 312700, 329000],
   [674500, 310000, 221200, 710900, 152000, 61900, 312700, 329000],
   [680500, 319100, 252200, 670200, 139700, 55400, 312700, 329000],
   [683800, 308500, 270900, 637800, 147800, 58900, 312700, 329000],
   [675300, 319300, 263600, 683500, 152100, 62700, 312700, 329000],
   [698100, 289800, 181400, 718900, 151700, 56700, 312700, 329000]]

/-- `find_primary_index`: exact match against the colour-space presets, then (L9 only) the real-device
presets offset by the number of colour spaces; 255 = custom -/
def primaryIndex (realdevice : Bool) (p : List Int) : Nat :=
  match colorspacePrimaries.findIdx? (· == p) with
  | some k => k
  | none =>
    if realdevice then
      match realdevicePrimaries.findIdx? (· == p) with
      | some k => k + colorspacePrimaries.length
      | none => 255
    else 255

/-- `parse_level9_trim`: preset → length 1, custom → length 17 with `round(v·32767)` -/
def l9OfXml (p : List Int) : Block :=
  let idx := primaryIndex true p
  if idx == 255 then { level := 9, length := 17, vals := (255 : Int) :: p.map fun v => (prim16 v : Int) }
  else { level := 9, length := 1, vals := (idx : Int) :: List.replicate 8 0 }

/-- the L10 block of a target display (PQ codes computed from its nits) -/
def l10OfXml (tid maxPq minPq : Nat) (p : List Int) : Block :=
  let idx := primaryIndex false p
  if idx == 255 then { level := 10, length := 21, vals := [(tid : Int), (maxPq : Int), (minPq : Int), 255] ++ p.map fun v => (prim16 v : Int) }
  else { level := 10, length := 5, vals := [(tid : Int), (maxPq : Int), (minPq : Int), (idx : Int)] ++ List.replicate 8 0 }

/-- `parse_global_level10_targets`: "Only allow custom L10" — targets are (id, max PQ, min PQ, primaries) -/
def l10Defaults (targets : List (Nat × Nat × Nat × List Int)) : List Block :=
  (targets.filter fun t => !presetTargets.contains t.1).map fun t => l10OfXml t.1 t.2.1 t.2.2.1 t.2.2.2

/-! ## shots: stable sort by start -/

/-- stable insertion: before the first element whose start is not strictly smaller -/
def insertShot (s : Shot) : List Shot → List Shot
  | [] => [s]
  | x :: xs => if x.start < s.start then x :: insertShot s xs else s :: x :: xs

/-- `shots.sort_by_key(|s| s.start)` (stable) -/
def sortShots : List Shot → List Shot
  | [] => []
  | s :: rest => insertShot s (sortShots rest)

def sumDurations : List Shot → Nat
  | [] => 0
  | s :: rest => s.duration + sumDurations rest

/-! ## generation from an XML-derived config -/

/-- `from_generate_config` with `config.level254` (XML path): `new_with_custom_l254` / `new_with_l254_402` -/
def dmFromXmlConfig (c : Config) (l254 : Option (Nat × Nat)) : Res DmData :=
  let l254vals : List Int := match l254 with | some (m, v) => [(m : Int), (v : Int)] | none => [0, 2]
  let d : DmData := { main := dmMainOf c.profile, cmv29 := some {},
                      cmv40 := if c.cmv40 then some { num_ext_blocks := 1, blocks := [{ level := 254, length := 2, vals := l254vals }] } else none }
  (d.replaceBlock { level := 5, length := 7, vals := c.level5.map Int.ofNat }).bind fun d =>
  (match c.level6 with
   | some v => d.replaceBlock { level := 6, length := 8, vals := v.map Int.ofNat }
   | none => .ok d).bind fun d =>
  (d.replaceBlock { level := 9, length := 1, vals := [0, 0, 0, 0, 0, 0, 0, 0, 0] }).bind fun d =>
  (d.replaceBlock { level := 11, length := 4, vals := [1, 0, 1, 0, 0] }).bind fun d =>
  (d.replaceBlocks (c.defaults.filter fun b => b.level != 5 && b.level != 6)).bind fun d =>
  .ok (d.changeSourceLevels c.sourceMinPq c.sourceMaxPq)

/-- `DoviRpu::profile81_config` -/
def baseRpuXml (c : Config) (l254 : Option (Nat × Nat)) : Res Rpu :=
  (dmFromXmlConfig c l254).bind fun d =>
  .ok { dovi_profile := 8, modified := true, header := p8DefaultHeader,
        rpu_data_mapping := some p81Mapping, vdr_dm_data := some d }

/-- `CmXmlParser::new` (shots sorted by start, length = sum of durations) followed by `generate_rpu_list`;
`fixup_l1` is not applied on this path -/
def generateListXml (c : Config) (l254 : Option (Nat × Nat)) : Res (List Rpu) :=
  (baseRpuXml c l254).bind fun base => allFrames c base (sortShots c.shots)

/-- `generate --xml`: the RPU payloads written to the output file -/
def generateXml (c : Config) (l254 : Option (Nat × Nat)) : Res (List Bytes) :=
  (generateListXml c l254).bind writeAll

end Dovi.Xml
