import DoviModel.Model.Ops
import DoviModel.Model.Esc
/-!
# GenModel — `dolby_vision/src/rpu/generate.rs`, `vdr_dm_data.rs::from_generate_config`, `src/dovi/generator.rs` (JSON path)
-/
namespace Dovi.Gen
open Dovi

inductive Profile where | p5 | p81 | p84
deriving DecidableEq, Repr

structure FrameEdit where
  offset : Nat
  blocks : List Block
deriving Repr

structure Shot where
  start : Nat := 0
  duration : Nat := 0
  blocks : List Block := []
  edits : List FrameEdit := []
deriving Repr

structure Config where
  cmv40 : Bool := true
  profile : Profile := .p81
  longPlay : Bool := false
  length : Nat := 0
  sourceMinPq : Option Nat := none
  sourceMaxPq : Option Nat := none
  l1AvgCmv40 : Option Bool := none
  level5 : List Nat := [0, 0, 0, 0]
  level6 : Option (List Nat) := none
  defaults : List Block := []
  shots : List Shot := []
deriving Repr

def defaultPqMain : List Int :=
  (List.replicate 32 (0 : Int)) |>.set 21 65535 |>.set 25 12 |>.set 28 1 |>.set 31 42

def p81Main : List Int :=
  ([9574, 0, 13802, 9574, -1540, -5348, 9574, 17610, 0, 16777216, 134217728, 134217728,
    7222, 8771, 390, 2654, 12430, 1300, 0, 422, 15962] : List Int) ++ defaultPqMain.drop 21

def p5Main : List Int :=
  (([8192, 799, 1681, 8192, -933, 1091, 8192, 267, -5545, 0, 134217728, 134217728,
     17081, -349, -349, -349, 17081, -349, -349, -349, 17081] : List Int) ++ defaultPqMain.drop 21).set 26 2

def dmMainOf : Profile → List Int
  | .p5 => p5Main
  | .p81 => p81Main
  | .p84 => (p81Main.set 29 62).set 30 3079

def p81Mapping : Mapping :=
  { curves := List.replicate 3 { num_pivots_minus2 := 0, pivots := [0, 1023], mapping_idc := .polynomial,
                                 polynomial := some p81PolyCurve, mmr := none } }

/-- `clamp_values_int` -/
def clampL1 (cmv40 : Bool) (b : Block) : Block :=
  if b.level == 1 then
    let mn := min (max (b.vals.getD 0 0) 0) 12
    let mx := min (max (b.vals.getD 1 0) 2081) 4095
    let avgMin : Int := if cmv40 then 1229 else 819
    let av := min (max (b.vals.getD 2 0) avgMin) (mx - 1)
    { b with vals := [mn, mx, av] }
  else b

/-- `fixup_l1` -/
def fixupL1 (c : Config) : Config :=
  let cm := c.l1AvgCmv40.getD c.cmv40
  { c with defaults := c.defaults.map (clampL1 cm),
           shots := c.shots.map fun s => { s with blocks := s.blocks.map (clampL1 cm),
                                                  edits := s.edits.map fun e => { e with blocks := e.blocks.map (clampL1 cm) } } }

/-- `VdrDmData::from_generate_config` -/
def dmFromConfig (c : Config) : Res DmData :=
  let d : DmData := { main := dmMainOf c.profile, cmv29 := some {},
                      cmv40 := if c.cmv40 then some { num_ext_blocks := 1, blocks := [{ level := 254, length := 2, vals := [0, 2] }] } else none }
  -- set_static_metadata
  (d.replaceBlock { level := 5, length := 7, vals := c.level5.map Int.ofNat }).bind fun d =>
  (match c.level6 with
   | some v => d.replaceBlock { level := 6, length := 8, vals := v.map Int.ofNat }
   | none => .ok d).bind fun d =>
  (d.replaceBlock { level := 9, length := 1, vals := [0, 0, 0, 0, 0, 0, 0, 0, 0] }).bind fun d =>
  (d.replaceBlock { level := 11, length := 4, vals := [1, 0, 1, 0, 0] }).bind fun d =>
  (d.replaceBlocks (c.defaults.filter fun b => b.level != 5 && b.level != 6)).bind fun d =>
  .ok (d.changeSourceLevels c.sourceMinPq c.sourceMaxPq)

def baseRpu (c : Config) : Res Rpu :=
  (dmFromConfig c).bind fun d =>
  .ok (match c.profile with
    | .p5 => { dovi_profile := 5, modified := true,
               header := { p8DefaultHeader with vdr_rpu_profile := 0, bl_video_full_range_flag := true },
               rpu_data_mapping := some p81Mapping, vdr_dm_data := some d }
    | .p81 => { dovi_profile := 8, modified := true, header := p8DefaultHeader,
                rpu_data_mapping := some p81Mapping, vdr_dm_data := some d }
    | .p84 => { dovi_profile := 8, modified := true, header := p8DefaultHeader,
                rpu_data_mapping := some profile84Mapping, vdr_dm_data := some d })

def frameRpu (c : Config) (base : Rpu) (s : Shot) (i : Nat) : Res Rpu :=
  match base.vdr_dm_data with
  | none => .ok base
  | some d =>
    let d := if i == 0 || c.longPlay then { d with scene_refresh_flag := 1 } else d
    (d.replaceBlocks s.blocks).bind fun d =>
    (match s.edits.find? (fun (e : FrameEdit) => e.offset == i) with
     | some e => d.replaceBlocks e.blocks
     | none => .ok d).bind fun d =>
    .ok { base with vdr_dm_data := some d }

def shotFrames (c : Config) (base : Rpu) (s : Shot) : Nat → Nat → Res (List Rpu)
  | 0, _ => .ok []
  | n+1, i => (frameRpu c base s i).bind fun r => (shotFrames c base s n (i+1)).bind fun t => .ok (r :: t)

def allFrames (c : Config) (base : Rpu) : List Shot → Res (List Rpu)
  | [] => .ok []
  | s :: rest => (shotFrames c base s s.duration 0).bind fun a => (allFrames c base rest).bind fun b => .ok (a ++ b)

/-- `generate_rpu_list` -/
def generateList (c : Config) : Res (List Rpu) :=
  (baseRpu c).bind fun base =>
  if c.length != (c.shots.map (·.duration)).foldl (· + ·) 0 then .error
  else allFrames c base c.shots

def writeAll : List Rpu → Res (List Bytes)
  | [] => .ok []
  | r :: rest => (writeRpu r).bind fun o => (writeAll rest).bind fun t => .ok (o :: t)

/-- `Generator::execute` (JSON config, optional `-p` / `--long-play-mode` overrides) followed by `write_rpus` -/
def generate (c : Config) (profOverride : Option Profile) (lpOverride : Option Bool) : Res (List Bytes) :=
  let c := if c.length == 0 && !c.shots.isEmpty then { c with length := (c.shots.map (·.duration)).foldl (· + ·) 0 } else c
  if !(c.length > 0 || !c.shots.isEmpty) then .error
  else
    let c := if c.shots.isEmpty then { c with shots := [{ start := 0, duration := c.length }] } else c
    let c := match profOverride with | some p => { c with profile := p } | none => c
    let c := match lpOverride with | some b => { c with longPlay := b } | none => c
    let c := { c with l1AvgCmv40 := some (c.l1AvgCmv40.getD c.cmv40) }
    let c := fixupL1 c
    (generateList c).bind writeAll

end Dovi.Gen
