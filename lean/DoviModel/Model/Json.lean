import DoviModel.Model.RpuWrite
/-!
# JSON view of the model structures

Mirrors the serde serialisation of `DoviRpu` (what `info -f` and `export` print): same field names,
same order, `skip_serializing_if` rules, flattened curves, custom serialisers of L8/L9/L10.
-/
namespace Dovi

inductive Json where
  | num (n : Int)
  | bool (b : Bool)
  | str (s : String)
  | arr (l : List Json)
  | obj (l : List (String × Json))
deriving Repr, Inhabited

partial def Json.render : Json → String
  | .num n => toString n
  | .bool b => if b then "true" else "false"
  | .str s => "\"" ++ s ++ "\""
  | .arr l => "[" ++ ",".intercalate (l.map Json.render) ++ "]"
  | .obj l => "{" ++ ",".intercalate (l.map fun (k, v) => "\"" ++ k ++ "\":" ++ v.render) ++ "}"

def jn (n : Nat) : Json := .num n
def jns (l : List Nat) : Json := .arr (l.map jn)
def jis (l : List Int) : Json := .arr (l.map Json.num)

def Header.toJson (h : Header) : Json := .obj [
  ("rpu_nal_prefix", jn h.rpu_nal_prefix), ("rpu_type", jn h.rpu_type), ("rpu_format", jn h.rpu_format),
  ("vdr_rpu_profile", jn h.vdr_rpu_profile), ("vdr_rpu_level", jn h.vdr_rpu_level),
  ("vdr_seq_info_present_flag", .bool h.vdr_seq_info_present_flag),
  ("chroma_resampling_explicit_filter_flag", .bool h.chroma_resampling_explicit_filter_flag),
  ("coefficient_data_type", jn h.coefficient_data_type), ("coefficient_log2_denom", jn h.coefficient_log2_denom),
  ("coefficient_log2_denom_length", jn h.coefficient_log2_denom_length),
  ("vdr_rpu_normalized_idc", jn h.vdr_rpu_normalized_idc),
  ("bl_video_full_range_flag", .bool h.bl_video_full_range_flag),
  ("bl_bit_depth_minus8", jn h.bl_bit_depth_minus8), ("el_bit_depth_minus8", jn h.el_bit_depth_minus8),
  ("ext_mapping_idc_0_4", jn h.ext_mapping_idc_0_4), ("ext_mapping_idc_5_7", jn h.ext_mapping_idc_5_7),
  ("vdr_bit_depth_minus8", jn h.vdr_bit_depth_minus8),
  ("spatial_resampling_filter_flag", .bool h.spatial_resampling_filter_flag),
  ("reserved_zero_3bits", jn h.reserved_zero_3bits),
  ("el_spatial_resampling_filter_flag", .bool h.el_spatial_resampling_filter_flag),
  ("disable_residual_flag", .bool h.disable_residual_flag),
  ("vdr_dm_metadata_present_flag", .bool h.vdr_dm_metadata_present_flag),
  ("use_prev_vdr_rpu_flag", .bool h.use_prev_vdr_rpu_flag), ("prev_vdr_rpu_id", jn h.prev_vdr_rpu_id)]

def Curve.toJson (c : Curve) : Json := .obj (
  [("num_pivots_minus2", jn c.num_pivots_minus2), ("pivots", jns c.pivots),
   ("mapping_idc", .str (match c.mapping_idc with | .polynomial => "Polynomial" | .mmr => "MMR" | .invalid => "Invalid"))] ++
  (match c.polynomial with
   | some p => [("poly_order_minus1", jns p.poly_order_minus1),
                ("linear_interp_flag", .arr (p.linear_interp_flag.map Json.bool)),
                ("poly_coef_int", .arr (p.poly_coef_int.map jis)), ("poly_coef", .arr (p.poly_coef.map jns))]
   | none => []) ++
  (match c.mmr with
   | some m => [("mmr_order_minus1", jns m.mmr_order_minus1), ("mmr_constant_int", jis m.mmr_constant_int),
                ("mmr_constant", jns m.mmr_constant),
                ("mmr_coef_int", .arr (m.mmr_coef_int.map fun r => .arr (r.map jis))),
                ("mmr_coef", .arr (m.mmr_coef.map fun r => .arr (r.map jns)))]
   | none => []))

def Nlq.toJson (n : Nlq) : Json := .obj [
  ("nlq_offset", jns n.nlq_offset), ("vdr_in_max_int", jns n.vdr_in_max_int), ("vdr_in_max", jns n.vdr_in_max),
  ("linear_deadzone_slope_int", jns n.linear_deadzone_slope_int), ("linear_deadzone_slope", jns n.linear_deadzone_slope),
  ("linear_deadzone_threshold_int", jns n.linear_deadzone_threshold_int),
  ("linear_deadzone_threshold", jns n.linear_deadzone_threshold)]

def Mapping.toJson (m : Mapping) : Json := .obj (
  [("vdr_rpu_id", jn m.vdr_rpu_id), ("mapping_color_space", jn m.mapping_color_space),
   ("mapping_chroma_format_idc", jn m.mapping_chroma_format_idc),
   ("num_x_partitions_minus1", jn m.num_x_partitions_minus1), ("num_y_partitions_minus1", jn m.num_y_partitions_minus1),
   ("curves", .arr (m.curves.map Curve.toJson))] ++
  (match m.nlq_method_idc with | some _ => [("nlq_method_idc", Json.str "LinearDeadzone")] | none => []) ++
  (match m.nlq_num_pivots_minus2 with | some v => [("nlq_num_pivots_minus2", jn v)] | none => []) ++
  (match m.nlq_pred_pivot_value with | some v => [("nlq_pred_pivot_value", jns v)] | none => []) ++
  (match m.nlq with | some n => [("nlq", n.toJson)] | none => []))

/-- struct field names per level, in declaration order (without `length`) -/
def blockFieldNames (level : Nat) : List String :=
  match level with
  | 1 => ["min_pq", "max_pq", "avg_pq"]
  | 2 => ["target_max_pq", "trim_slope", "trim_offset", "trim_power", "trim_chroma_weight", "trim_saturation_gain", "ms_weight"]
  | 3 => ["min_pq_offset", "max_pq_offset", "avg_pq_offset"]
  | 4 => ["anchor_pq", "anchor_power"]
  | 5 => ["active_area_left_offset", "active_area_right_offset", "active_area_top_offset", "active_area_bottom_offset"]
  | 6 => ["max_display_mastering_luminance", "min_display_mastering_luminance", "max_content_light_level", "max_frame_average_light_level"]
  | 8 => ["target_display_index", "trim_slope", "trim_offset", "trim_power", "trim_chroma_weight", "trim_saturation_gain",
          "ms_weight", "target_mid_contrast", "clip_trim", "saturation_vector_field0", "saturation_vector_field1",
          "saturation_vector_field2", "saturation_vector_field3", "saturation_vector_field4", "saturation_vector_field5",
          "hue_vector_field0", "hue_vector_field1", "hue_vector_field2", "hue_vector_field3", "hue_vector_field4", "hue_vector_field5"]
  | 9 => ["source_primary_index", "source_primary_red_x", "source_primary_red_y", "source_primary_green_x",
          "source_primary_green_y", "source_primary_blue_x", "source_primary_blue_y", "source_primary_white_x", "source_primary_white_y"]
  | 10 => ["target_display_index", "target_max_pq", "target_min_pq", "target_primary_index", "target_primary_red_x",
           "target_primary_red_y", "target_primary_green_x", "target_primary_green_y", "target_primary_blue_x",
           "target_primary_blue_y", "target_primary_white_x", "target_primary_white_y"]
  | 11 => ["content_type", "whitepoint", "reference_mode_flag", "reserved_byte2", "reserved_byte3"]
  | 254 => ["dm_mode", "dm_version_index"]
  | 255 => ["dm_run_mode", "dm_run_version", "dm_debug0", "dm_debug1", "dm_debug2", "dm_debug3"]
  | _ => []

/-- how many struct fields the (custom) serialiser prints for this level and length -/
def blockSerializedCount (level length : Nat) : Nat :=
  match level with
  | 8 => 7 + (if length > 10 then 1 else 0) + (if length > 12 then 1 else 0) + (if length > 13 then 6 else 0) + (if length > 19 then 6 else 0)
  | 9 => 1 + (if length > 1 then 8 else 0)
  | 10 => 4 + (if length > 5 then 8 else 0)
  | l => (blockFieldNames l).length

def Block.toJson (b : Block) : Json :=
  let names := (blockFieldNames b.level).take (blockSerializedCount b.level b.length)
  let fields := (names.zip b.vals).map fun (n, v) =>
    (n, if n == "reference_mode_flag" then Json.bool (v != 0) else Json.num v)
  let fields := if b.level == 8 || b.level == 9 || b.level == 10 then ("length", jn b.length) :: fields else fields
  .obj [("Level" ++ toString b.level, .obj fields)]

def Container.toJson (c : Container) : Json := .obj [
  ("num_ext_blocks", jn c.num_ext_blocks), ("ext_metadata_blocks", .arr (c.blocks.map Block.toJson))]

def dmMainNames : List String :=
  (List.range 9).map (fun i => "ycc_to_rgb_coef" ++ toString i) ++
  (List.range 3).map (fun i => "ycc_to_rgb_offset" ++ toString i) ++
  (List.range 9).map (fun i => "rgb_to_lms_coef" ++ toString i) ++
  ["signal_eotf", "signal_eotf_param0", "signal_eotf_param1", "signal_eotf_param2", "signal_bit_depth",
   "signal_color_space", "signal_chroma_format", "signal_full_range_flag", "source_min_pq", "source_max_pq", "source_diagonal"]

def DmData.toJson (d : DmData) : Json := .obj (
  [("compressed", .bool d.compressed), ("affected_dm_metadata_id", jn d.affected_dm_metadata_id),
   ("current_dm_metadata_id", jn d.current_dm_metadata_id), ("scene_refresh_flag", jn d.scene_refresh_flag)] ++
  (dmMainNames.zip d.main).map (fun (n, v) => (n, Json.num v)) ++
  (match d.cmv29 with | some c => [("cmv29_metadata", c.toJson)] | none => []) ++
  (match d.cmv40 with | some c => [("cmv40_metadata", c.toJson)] | none => []))

def Rpu.toJson (r : Rpu) : Json := .obj (
  [("dovi_profile", jn r.dovi_profile)] ++
  (match r.el_type with | some .mel => [("el_type", Json.str "MEL")] | some .fel => [("el_type", Json.str "FEL")] | none => []) ++
  [("header", r.header.toJson)] ++
  (match r.rpu_data_mapping with | some m => [("rpu_data_mapping", m.toJson)] | none => []) ++
  (match r.vdr_dm_data with | some d => [("vdr_dm_data", d.toJson)] | none => []) ++
  (match r.remaining with | some b => [("remaining", Json.arr (b.map fun x => Json.num (if x then 1 else 0)))] | none => []) ++
  [("rpu_data_crc32", jn r.rpu_data_crc32)])

end Dovi
