import DoviModel.Model.XmlSpec
import DoviModel.Proofs.XmlMoreProof
/-!
# XmlDoc — `CmXmlParser::new` on an already tokenised document: `Doc → GenerateConfig → RPUs`

`dolby_vision/src/xml/parser.rs` line by line, with the XML *text* layer (roxmltree: element lookup by tag
name, attribute lookup, `text()`, splitting a text node at the version's separator, decimal → `f32`/`f64`)
left outside as the tokeniser that produces a `Doc`:

* every decimal is a *scaled integer* (value · 10^6, at most six fractional digits) like in `Model/XmlSpec.lean`;
* a node the parser looks up with `find(..)` is the FIRST such node in document order; an `Option` field is
  `none` when the node is missing or has no text (both are read as "absent" by the parser);
* children the parser `unwrap()`s without a default (`UniqueID`, `In`, `Duration`, `EditOffset`, `ID`,
  `PeakBrightness`, `ImageCharacter`, `Trim`, `MidContrastBias`, …) are mandatory fields here: a document that
  lacks one makes the tool panic when it reaches that node (unless an earlier `Err` — unsupported version, a wrong
  number of primaries — ends the run first) and has no `Doc`;
* target display ids and `TID`s are decimal numerals in canonical form (the parser compares the strings).

What the parser does with the tokens — version classification, which nodes are read, which target displays are
kept (`ApplicationType == "HOME"` from XML 5.0 on), which trims are kept (`trim_target_is_known`), block order,
defaults, `bail!` / `ensure!` / `?` (→ `.error`) and the integer conversions that `unwrap()` (→ `.panic`), in the
order the parser evaluates them — is `configOfDoc`.  `generateDoc` composes it with `Xml.generateXml`.
-/
namespace Dovi.XmlDoc
open Dovi Dovi.Gen Dovi.Xml Dovi.XmlMore Dovi.PqTable

/-! ## the tokenised document -/

/-- one child with a `level` attribute of a dynamic-data node (`DVDynamicData` from XML 4.0.2 on, `PluginNode`
with `DolbyEDR` children in XML 2.0.5), its text nodes split at the separator -/
inductive LevelNode where
  /-- `level="1"`: `ImageCharacter` (min, avg, max) -/
  | l1 (vals : List Int)
  /-- `level="2"`: `TID` (absent: `none`), `Trim` (9 values; lift, gain, gamma, chroma, saturation, ms weight
  are entries 3..8) -/
  | l2 (tid : Option Nat) (trim : List Int)
  /-- `level="3"`: `L1Offset` (min, avg, max) -/
  | l3 (vals : List Int)
  /-- `level="5"`: `AspectRatios` (canvas, image) -/
  | l5 (ratios : List Nat)
  /-- `level="8"`: `TID`, `L8Trim` (6), `MidContrastBias`, `HighlightClipping`, `SaturationVectorField` (6),
  `HueVectorField` (6) -/
  | l8 (tid : Option Nat) (trim : List Int) (mid clip : Int) (sat hue : List Int)
  /-- `level="9"`: `SourceColorPrimary` (8) -/
  | l9 (prim : List Int)
  /-- any other `level` value: not read -/
  | other
deriving Repr, DecidableEq

/-- a `TargetDisplay` node; `prim` = `Red`, `Green`, `Blue`, `WhitePoint` joined and split at the separator;
`home` = `ApplicationType` (`none`: no such child, `some true`: the text is `HOME`) -/
structure Target where
  id : Nat
  peak : Nat
  minNits : Nat
  prim : List Int
  home : Option Bool := some true
deriving Repr, DecidableEq

/-- a `Frame` child of a `Shot`: `EditOffset` and its own dynamic-data node (`none`: it has none) -/
structure FrameNode where
  offset : Nat
  levels : Option (List LevelNode) := none
deriving Repr, DecidableEq

/-- a `Shot` node: `Record/In`, `Record/Duration` (`none`: no `Record` child), the first dynamic-data node
that is not below a `Frame` (`none`: there is none), the `Frame` children in document order -/
structure ShotNode where
  record : Option (Nat × Nat) := none
  levels : Option (List LevelNode) := none
  frames : List FrameNode := []
deriving Repr, DecidableEq

/-- the `Video` node -/
structure Video where
  /-- `Level6`: (`MaxFALL`, `MaxCLL`) -/
  level6 : Option (Option Int × Option Int) := none
  /-- `MasteringDisplay`: (`MinimumBrightness`, `PeakBrightness`); its primaries are not read by the parser -/
  mastering : Option (Option Int × Option Nat) := none
  /-- `Level254`: (`DMMode`, `DMVersion`) -/
  level254 : Option (Option Nat × Option Nat) := none
  /-- `Level11`: (`ContentType`, `IntendedWhitePoint`) -/
  level11 : Option (Option Nat × Option Nat) := none
  /-- every `TargetDisplay` below `Video`, document order -/
  targets : List Target := []
  /-- every `Shot` below `Video`, document order -/
  shots : List ShotNode := []
deriving Repr, DecidableEq

/-- the `Output` node: `CanvasAspectRatio`, `ImageAspectRatio` (`none`: absent or not a number), `Video` -/
structure Output where
  canvasAr : Option Nat := none
  imageAr : Option Nat := none
  video : Option Video := none
deriving Repr, DecidableEq

/-- the document: the version text (`DolbyLabsMDF@version`, else `DolbyLabsMDF/Version`) split at the dots
(`none`: no root node or no version), the first `Output` node -/
structure Doc where
  version : Option (List Nat) := none
  output : Option Output := none
deriving Repr, DecidableEq

/-- `XmlParserOpts`: `--canvas-width`, `--canvas-height` -/
structure Opts where
  canvasWidth : Option Nat := none
  canvasHeight : Option Nat := none
deriving Repr, DecidableEq

def ShotNode.start (s : ShotNode) : Nat := (s.record.map (·.1)).getD 0
def ShotNode.duration (s : ShotNode) : Nat := (s.record.map (·.2)).getD 0

/-- the `Video` node the parser reads (an empty one when `Output` or `Video` is missing: the parser then fails) -/
def Doc.video (d : Doc) : Video := (d.output.bind (·.video)).getD {}

/-- the `Shot` nodes the parser reads -/
def Doc.shotNodes (d : Doc) : List ShotNode := d.video.shots

/-- the `TargetDisplay` nodes the parser reads -/
def Doc.targetNodes (d : Doc) : List Target := d.video.targets

/-! ## version detection (`parse_xml_version`, parser.rs:116-166) -/

/-- the fold over the reversed components: `rev + (v.parse::<u16>().unwrap() << (i * 4))` in `u16` with the dev
profile's overflow checks: a component above 65535 does not parse, a shift by 16 or more and an overflowing
addition panic; bits shifted out of the 16 are lost silently -/
def versionFold : List Nat → Nat → Nat → Res Nat
  | [], _, rev => .ok rev
  | v :: rest, i, rev =>
    if v > 65535 then .panic
    else if 16 ≤ 4 * i then .panic
    else if rev + (v <<< (4 * i)) % 65536 > 65535 then .panic
    else versionFold rest (i + 1) (rev + (v <<< (4 * i)) % 65536)

/-- `2.0.5 ↦ 0x205`, `4.0.2 ↦ 0x402`, `5.1.0 ↦ 0x510` -/
def versionRev (comps : List Nat) : Res Nat := versionFold comps.reverse 0 0

/-- the `match rev` of `parse_xml_version`: 4.0.2, 5.0.0, 5.1.0 and everything above 5.1.0 (with a warning);
2.0.5; every other value is rejected -/
def versionSupported (rev : Nat) : Bool :=
  if rev ≥ 0x402 then rev == 0x402 || rev == 0x500 || rev ≥ 0x510 else rev == 0x205

/-- `is_cmv4()`: separator `' '`, `DVDynamicData` nodes, CM v4.0 (else `','`, `PluginNode`, CM v2.9) -/
def isCmv4 (rev : Nat) : Bool := decide (rev ≥ 0x402)

/-- `xml_version >= 0x500`: target displays carry an `ApplicationType` -/
def isV5 (rev : Nat) : Bool := decide (rev ≥ 0x500)

/-- the version as the parser classifies it (0 when there is none / the fold panics: the parser then fails) -/
def Doc.rev (d : Doc) : Nat :=
  match d.version with
  | some comps => (match versionRev comps with | .ok r => r | _ => 0)
  | none => 0

/-! ## PQ codes -/

/-- `(nits_to_pq(n) * 4095.0).round() as u16` WITHOUT the `min(4095, ·)` (`ExtMetadataBlockLevel2::from_nits`,
`source_max_pq`): the certified table up to 10000 nits.  Above 10000 nits the value is outside the table:
`4095·PQ(n)` stays below 4095.5 up to 10011 nits and exceeds it from 10012 nits on (numerically; not
certified); every value above 4095 is rejected by the writer alike, `4096` stands for all of them -/
def pqOfNitsRaw (n : Nat) : Nat := if n ≤ 10000 then codeOfNits n else if n ≤ 10011 then 4095 else 4096

/-- `min(4095, round(4095·PQ(x)))` for `x = mn · 10⁻⁶` nits as a total function: the candidate of the certified
search.  Wherever `XmlMore.pqOfDecimal` decides (everywhere but inside the 6·10⁻⁶ code units wide gaps around the
rounding ties) it is that value (`minPqOfDecimal_certified`); inside a gap it is one of the two neighbours; above
10000 nits it is 4095 -/
def minPqOfDecimal (mn : Nat) : Nat := searchGo mn (10000 * M) 13 0 4095

/-! ## target displays (`parse_target_displays`, parser.rs:223-327) -/

/-- the loop over the `TargetDisplay` nodes, in document order: `PeakBrightness` is a `u16` (else the `unwrap`
panics), the joined primaries must be 8 values, from XML 5.0 on `ApplicationType` must exist and only `HOME`
targets are kept.  Result: the kept targets in document order (the parser's `HashMap` is keyed by id: of several
kept targets with one id the last is the one found, see `lookup`) -/
def parseTargets (v5 : Bool) : List Target → Res (List Target)
  | [] => .ok []
  | t :: rest =>
    if t.peak > 65535 then .panic
    else if t.prim.length != 8 then .error
    else if v5 && t.home.isNone then .error
    else (parseTargets v5 rest).bind fun m => .ok (if !v5 || t.home == some true then t :: m else m)

/-- `target_displays.get(id)`: the last kept target with this id -/
def lookup (ts : List Target) (id : Nat) : Option Target := ts.reverse.find? fun t => t.id == id

/-- `trim_target_is_known`: a `TID` child with text that is the id of a kept target -/
def knownTarget (ts : List Target) (tid : Option Nat) : Option Target := tid.bind (lookup ts)

/-- the entries of the `HashMap`: per id the last kept target (listed in the order of these last occurrences;
the parser's iteration order is unspecified, and the generated RPUs do not depend on it:
`C17.sortBlocks_order_independent`) -/
def lastOcc : List Target → List Target
  | [] => []
  | t :: rest => if rest.any (fun u => u.id == t.id) then lastOcc rest else t :: lastOcc rest

/-- the L10 block of a target display (`parse_global_level10_targets`) -/
def l10OfTarget (t : Target) : Block := l10OfXml t.id (pqOfNits t.peak) (minPqOfDecimal t.minNits) t.prim

/-- `parse_global_level10_targets` (CM v4.0 only): `id.parse::<u8>().unwrap()` for every kept target, one L10
block per target whose id is not one of `PRESET_TARGET_DISPLAYS` -/
def l10Blocks (ts : List Target) : Res (List Block) :=
  if (lastOcc ts).any (fun t => t.id > 255) then .panic
  else .ok (l10Defaults ((lastOcc ts).map fun t => (t.id, pqOfNits t.peak, minPqOfDecimal t.minNits, t.prim)))

/-! ## trims (`parse_shot_trims`, `parse_trim_levels`, `parse_level*_trim`, parser.rs:448-961) -/

/-- what the trim parsers need to know about the document -/
structure Ctx where
  /-- `config.cm_version == V40` (the L1 clamp) -/
  cm40 : Bool
  /-- canvas size, when both options were given -/
  canvas : Option (Nat × Nat)
  /-- the kept target displays -/
  targets : List Target
deriving Repr

/-- `calculate_level5_metadata(..).ok().unwrap_or_default()` as (left, right, top, bottom) -/
def l5Nat (canvas : Option (Nat × Nat)) (c i : Nat) : List Nat :=
  match canvas with
  | none => [0, 0, 0, 0]
  | some (cw, ch) => l5Offsets cw ch c i

/-- the `ensure!` / `?` of the node's parser: `false` ⇒ `parse_shots` returns the error.
A trim whose target is not known is skipped before anything of it is checked -/
def nodeOk (cx : Ctx) : LevelNode → Bool
  | .l1 vals => vals.length == 3
  | .l2 tid trim => (knownTarget cx.targets tid).isNone || trim.length == 9
  | .l3 vals => vals.length == 3
  | .l5 ratios => ratios.length == 2
  | .l8 tid trim _ _ sat hue =>
    match knownTarget cx.targets tid with
    | none => true
    | some t => trim.length == 6 && sat.length == 6 && hue.length == 6 && decide (t.id ≤ 255)
  | .l9 prim => prim.length == 8
  | .other => true

/-- the block `parse_trim_levels` pushes for the node (`none`: nothing is pushed) -/
def nodeBlock (cx : Ctx) : LevelNode → Option Block
  | .l1 vals => some (l1Block cx.cm40 (vals.getD 0 0) (vals.getD 1 0) (vals.getD 2 0))
  | .l2 tid trim =>
    (knownTarget cx.targets tid).map fun t =>
      l2OfXml (pqOfNitsRaw t.peak) (trim.getD 3 0) (trim.getD 4 0) (trim.getD 5 0) (trim.getD 6 0) (trim.getD 7 0) (trim.getD 8 0)
  | .l3 vals => some (l3Block (vals.getD 0 0) (vals.getD 1 0) (vals.getD 2 0))
  | .l5 ratios => some { level := 5, length := 7, vals := (l5Nat cx.canvas (ratios.getD 0 0) (ratios.getD 1 0)).map Int.ofNat }
  | .l8 tid trim mid clip sat hue =>
    (knownTarget cx.targets tid).map fun t =>
      (l8OfXml t.id (trim.getD 0 0) (trim.getD 1 0) (trim.getD 2 0) (trim.getD 3 0) (trim.getD 4 0) (trim.getD 5 0)
        mid clip sat hue).block
  | .l9 prim => some (l9OfXml prim)
  | .other => none

/-- `parse_shot_trims` of a node with / without a dynamic-data node: no error -/
def trimsOk (cx : Ctx) (l : Option (List LevelNode)) : Bool := (l.getD []).all (nodeOk cx)

/-- `parse_shot_trims`: the blocks in document order -/
def trimsOf (cx : Ctx) (l : Option (List LevelNode)) : List Block := (l.getD []).filterMap (nodeBlock cx)

/-! ## shots (`parse_shots`, parser.rs:386-446) -/

def shotOk (cx : Ctx) (s : ShotNode) : Bool := trimsOk cx s.levels && s.frames.all fun f => trimsOk cx f.levels

/-- the `VideoShot`: start and duration from `Record` (0 without one), the shot's own trims, one
`ShotFrameEdit` per `Frame` child -/
def shotOf (cx : Ctx) (s : ShotNode) : Shot :=
  { start := s.start, duration := s.duration, blocks := trimsOf cx s.levels,
    edits := s.frames.map fun f => { offset := f.offset, blocks := trimsOf cx f.levels } }

/-! ## the global values -/

/-- the canvas size, when both `--canvas-width` and `--canvas-height` were given -/
def canvasOf (o : Opts) : Option (Nat × Nat) :=
  match o.canvasWidth, o.canvasHeight with
  | some w, some h => some (w, h)
  | _, _ => none

/-- `parse_global_level5`: both aspect ratios present → offsets from the canvas size (zero without it) -/
def level5OfOutput (o : Opts) (out : Output) : List Nat :=
  match out.canvasAr, out.imageAr with
  | some c, some i => l5Nat (canvasOf o) c i
  | _, _ => [0, 0, 0, 0]

/-- `MasteringDisplay/PeakBrightness` (0 without the node) -/
def masteringPeak (v : Video) : Nat := ((v.mastering.bind (·.2))).getD 0

/-- `MasteringDisplay/MinimumBrightness` in 1/10000 nit: `(v * 10000.0).round() as u16` (0 without the node) -/
def masteringMin (v : Video) : Nat := ((v.mastering.bind (·.1)).map l6MinLum).getD 0

/-- `config.level6`: max / min mastering luminance, MaxCLL, MaxFALL -/
def level6OfVideo (v : Video) : List Nat :=
  [masteringPeak v, masteringMin v, ((v.level6.bind (·.2)).map l6Light).getD 0, ((v.level6.bind (·.1)).map l6Light).getD 0]

/-- `config.level254`: `DMMode` (default 0), `DMVersion` (default 2) of the `Level254` node; `none` without one
(the generator then writes `(0, 2)` for CM v4.0) -/
def level254OfVideo (v : Video) : Option (Nat × Nat) := v.level254.map fun p => (p.1.getD 0, p.2.getD 2)

/-- `add_level11`: one default block when the node has both values -/
def level11OfVideo (v : Video) : List Block :=
  match v.level11 with
  | some (some ct, some wp) => [l11OfXml ct wp]
  | _ => []

/-- the `u8` / `u16` conversions of the global nodes that `unwrap()`, in the parser's order:
mastering peak (`u16`), `DMMode`, `DMVersion`, `ContentType`, `IntendedWhitePoint` (`u8`) -/
def globalsFit (v : Video) : Bool :=
  decide (masteringPeak v ≤ 65535) &&
  (match v.level254 with | some (m, w) => decide (m.getD 0 ≤ 255) && decide (w.getD 0 ≤ 255) | none => true) &&
  (match v.level11 with | some (ct, wp) => decide (ct.getD 0 ≤ 255) && decide (wp.getD 0 ≤ 255) | none => true)

/-! ## `CmXmlParser::new` -/

def ctxOf (o : Opts) (rev : Nat) (ts : List Target) : Ctx := { cm40 := isCmv4 rev, canvas := canvasOf o, targets := ts }

/-- the target displays the parser keeps: all of them before XML 5.0, the `HOME` ones from 5.0 on -/
def Doc.kept (d : Doc) : List Target := d.targetNodes.filter fun t => !isV5 d.rev || t.home == some true

/-- the context of the document's trim parsers -/
def Doc.ctx (o : Opts) (d : Doc) : Ctx := ctxOf o d.rev d.kept

/-- the body of `new` below the `Video` node -/
def configOfVideo (o : Opts) (rev : Nat) (out : Output) (v : Video) : Res Config :=
  if !globalsFit v then .panic
  else
    (parseTargets (isV5 rev) v.targets).bind fun ts =>
    if !v.shots.all (shotOk (ctxOf o rev ts)) then .error
    else
      (if isCmv4 rev then l10Blocks ts else .ok []).bind fun l10 =>
      .ok { cmv40 := isCmv4 rev,
            length := sumDurations (v.shots.map (shotOf (ctxOf o rev ts))),
            sourceMinPq := some (minPqOfDecimal (masteringMin v * 100)),
            sourceMaxPq := some (pqOfNitsRaw (masteringPeak v)),
            level5 := level5OfOutput o out,
            level6 := some (level6OfVideo v),
            defaults := level11OfVideo v ++ l10,
            shots := sortShots (v.shots.map (shotOf (ctxOf o rev ts))) }

/-- `CmXmlParser::new` (after `roxmltree::Document::parse`): the `GenerateConfig` of a tokenised document -/
def configOfDoc (o : Opts) (d : Doc) : Res Config :=
  match d.version with
  | none => .error
  | some comps =>
    (versionRev comps).bind fun rev =>
    if !versionSupported rev then .error
    else
      match d.output with
      | none => .error
      | some out =>
        match out.video with
        | none => .error
        | some v => configOfVideo o rev out v

/-- `config.level254` of the document -/
def l254OfDoc (d : Doc) : Option (Nat × Nat) := level254OfVideo d.video

/-- `generate --xml`: the RPU list of a tokenised document -/
def generateListDoc (o : Opts) (d : Doc) : Res (List Rpu) :=
  (configOfDoc o d).bind fun c => generateListXml c (l254OfDoc d)

/-- `generate --xml [--canvas-width W --canvas-height H]`: the RPU payloads written to the output file -/
def generateDoc (o : Opts) (d : Doc) : Res (List Bytes) :=
  (configOfDoc o d).bind fun c => generateXml c (l254OfDoc d)

end Dovi.XmlDoc
