import DoviModel.Model.Basic
/-!
# M2 — start-code emulation prevention

Functional mirrors of `dolby_vision/src/utils.rs`
`add_start_code_emulation_prevention_3_byte` and `clear_start_code_emulation_prevention_3_byte`
(the copy in `hevc_parser/src/utils.rs` is the same algorithm and is tied to the same model).
-/
namespace Dovi.Esc
open Dovi


/-- `add_start_code_emulation_prevention_3_byte` as a single pass.
`n` = number of bytes already emitted (the index `i` of the Rust loop, in the growing vector),
`z` = number of zero bytes at the end of what was emitted (capped semantics are not needed: only `z ≥ 2`
is ever tested). The Rust guard is `i > 2 && data[i-2] == 0 && data[i-1] == 0 && data[i] <= 3`. -/
def esc (n z : Nat) : Bytes → Bytes
  | [] => []
  | b :: bs =>
    if n > 2 ∧ z ≥ 2 ∧ b ≤ 3 then
      3 :: b :: esc (n+2) (if b = 0 then 1 else 0) bs
    else
      b :: esc (n+1) (if b = 0 then z+1 else 0) bs

/-- `clear_start_code_emulation_prevention_3_byte`: byte `i ≥ 2` is dropped iff
`data[i-2] == 0 && data[i-1] == 0 && data[i] == 3` (tested on the *input*). `z` = zero bytes
immediately preceding in the input. -/
def unesc (z : Nat) : Bytes → Bytes
  | [] => []
  | b :: bs =>
    if z ≥ 2 ∧ b = 3 then unesc 0 bs
    else b :: unesc (if b = 0 then z+1 else 0) bs

/-- top-level entry points -/
def escape (xs : Bytes) : Bytes := esc 0 0 xs
def unescape (xs : Bytes) : Bytes := unesc 0 xs

end Dovi.Esc
