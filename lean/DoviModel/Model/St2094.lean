import DoviModel.Model.Rpu
import DoviModel.Model.Esc
/-!
# ST 2094-10 ITU-T T.35 SEI (`dolby_vision/src/st2094_10/itu_t35/*.rs`) — parse outcome model

Only the control flow and the consumed bits are modelled (the parsed values are not used by any command): the
result is `ok`, `error` or `panic`, which is what C08 speaks about.
-/
namespace Dovi.St2094
open Dovi

/-- `reader.get_n::<u64>(n)` for a width computed at run time: bitstream-io rejects more than 64 bits -/
def readWide (n : Nat) : P Nat := if n > 64 then P.fail else readN n

/-- `validated_trimmed_data` -/
def trim (data : Bytes) : Res Bytes :=
  if data.length < 7 then .error
  else match data.take 7 with
    | [0x4E, 0x01, 0x04, _, 0xB5, 0x00, 0x31] => .ok (data.drop 4)
    | [0xB5, 0x00, 0x31, 0x47, 0x41, 0x39, 0x34] => .ok data
    | _ => .error

/-- one `(se integer part, fraction)` pair -/
def coefPair (len : Nat) : P Unit := do
  let _ ← readSe
  let _ ← readWide len
  pure ()

/-- one piece of one component -/
def parsePiece (len : Nat) : P Unit := do
  let idc ← readUe
  if idc == 0 then do
    let order ← readUe
    let avail ← P.available
    P.ensure (order < avail)
    let _ ← repeatP (order + 2) (coefPair len)
    pure ()
  else if idc == 1 then do
    let order ← readN 2
    let _ ← readSe
    let _ ← readWide len
    let _ ← repeatP (order + 1) (repeatP 7 (coefPair len))
    pure ()
  else pure ()

/-- pivots of one component; returns `num_pivots_minus2` -/
def parsePivotsSt (elBits : Nat) : P Nat := do
  let n ← readUe
  let avail ← P.available
  P.ensure (n < avail / 8)
  let _ ← repeatP (n + 2) (readN elBits)
  pure n

def parsePiecesOf (len : Nat) : List Nat → P Unit
  | [] => pure ()
  | n :: ns => do
    let _ ← repeatP (n + 1) (parsePiece len)
    parsePiecesOf len ns

def nlqComp (elBits len : Nat) : P Unit := do
  let _ ← readN elBits
  let _ ← readUe
  let _ ← readWide len
  let _ ← readUe
  let _ ← readWide len
  let _ ← readUe
  let _ ← readWide len
  pure ()

/-- `ST2094_10CmData::parse` -/
def parseCm : P Unit := do
  let _ ← readN 4
  let _ ← readN 4
  let denom ← readUe
  let bl ← readUe
  let el ← readUe
  let hdr ← readUe
  let disableRes ← readBit
  let len := denom % 2^32            -- `as u32`
  P.ensure (bl ≤ 8)
  P.ensure (el ≤ 8)
  P.ensure (hdr ≤ 8)
  let ns ← repeatP 3 (parsePivotsSt (el + 8))
  parsePiecesOf len ns
  if !disableRes then do
    let _ ← repeatP 3 (nlqComp (el + 8) len)
    pure ()
  else pure ()

/-- `ST2094_10DmData::parse` -/
def parseDm : P Unit := do
  let _ ← readUe
  let _ ← readUe
  let refresh ← readBit
  if refresh then do
    let _ ← parseContainer cmv29Levels cmv40Levels
    pure ()
  else pure ()

def parseBits : P Unit := do
  let cc ← readN 8
  let pc ← readN 16
  P.ensure (cc == 0xB5)
  P.ensure (pc == 0x31)
  let uid ← readN 32
  P.ensure (uid == 0x47413934)
  let code ← readN 8
  if code == 0x08 then parseCm
  else if code == 0x09 then parseDm
  else P.fail

/-- `ST2094_10ItuT35::parse_itu_t35_dashif` (outcome only) -/
def parse (data : Bytes) : Res Unit :=
  (trim data).bind fun t =>
    match parseBits (bytesToBits (Esc.unescape t)) with
    | .ok _ => .ok ()
    | .error => .error
    | .panic => .panic

end Dovi.St2094
