import DoviModel.Model.Basic
/-!
# M6 — start-code splitting and the chunked read loop

`split` is the left-to-right non-overlapping scan for `00 00 01` of hevc_parser `get_offsets`
(and, with the prefix byte handled by the caller, of `dolby_vision::rpu::utils::parse_rpu_file`).
-/
namespace Dovi.Split
open Dovi

def SC : Bytes := [0, 0, 1]

/-- (bytes before the first `00 00 01`, the segment after each `00 00 01`) -/
def split : Bytes → Bytes × List Bytes
  | [] => ([], [])
  | [a] => ([a], [])
  | [a, b] => ([a, b], [])
  | a :: tl@(b :: c :: rest) =>
    if a = 0 ∧ b = 0 ∧ c = 1 then
      let r := split rest; ([], r.1 :: r.2)
    else
      let r := split tl; (a :: r.1, r.2)

/-- one non-final iteration of the chunk loop (`buf = carry ++ chunk`): returns (emitted segments, new carry).
No start code in the buffer: keep accumulating. Otherwise emit all but the last segment and carry
`SC ++ last`. -/
def stepNonFinal (carry chunk : Bytes) : List Bytes × Bytes :=
  let buf := carry ++ chunk
  if (split buf).2 = [] then ([], buf)
  else ((split buf).2.dropLast, SC ++ (split buf).2.getLast?.getD [])

/-- the chunk loop: full chunks `cs`, then the short (possibly empty) last read `l` -/
def run (carry : Bytes) : List Bytes → Bytes → List Bytes
  | [], l => (split (carry ++ l)).2
  | c :: cs, l => (stepNonFinal carry c).1 ++ run (stepNonFinal carry c).2 cs l

/-- `split_nals`' `size − 1` rule: a segment that is followed by another start code loses one trailing zero
(the first byte of a four-byte start code). -/
def fixTrail (n : Bytes) : Bytes :=
  if n.getLast? = some 0 then n.dropLast else n

def fixAll : List Bytes → List Bytes
  | [] => []
  | [n] => [n]
  | n :: rest => fixTrail n :: fixAll rest

/-- strip all trailing zero bytes (Annex B does not attribute them to the NAL) -/
def stripZeros (n : Bytes) : Bytes := (n.reverse.dropWhile (· = 0)).reverse

end Dovi.Split
