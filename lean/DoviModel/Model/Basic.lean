/-! Shared basic definitions of the dovi_tool model. Core Lean only (the driver links against this). -/
namespace Dovi

abbrev Bytes := List UInt8
abbrev Bits := List Bool

end Dovi
