import DoviModel.Model.Rpu
import DoviModel.Model.Esc
/-!
# RPU .bin file reader (`dolby_vision/src/rpu/utils.rs::parse_rpu_file`)

Reads of a regular file are modelled as full chunks of `c` bytes until the end of the file (the read
chunk size exceeds `BufReader`'s capacity, so every read goes to the file directly).
-/
namespace Dovi.RpuFile
open Dovi

/-- positions `i` with `chunk[i..i+4] = 00 00 00 01` (`windows(4)` scan) -/
def findSC4 : Nat → Bytes → List Nat
  | i, 0 :: 0 :: 0 :: 1 :: rest => i :: findSC4 (i+1) (0 :: 0 :: 1 :: rest)
  | i, _ :: rest => findSC4 (i+1) rest
  | _, [] => []
termination_by _ l => l.length

/-- `DoviRpu::parse_unspec62_nalu` -/
def parseNalu (d : Bytes) : Res Rpu :=
  (trimPrefix d).bind fun t => parseRpu (Esc.unescape t)

structure St where
  rest : Bytes            -- unread part of the file
  chunk : Bytes
  rpus : List Rpu
  offsetsCount : Nat
  warned : Bool           -- `warning_error.is_some()`

inductive Step where
  | continue_ (s : St)
  | done (s : St)          -- left the loop (`break`)
  | bail                   -- `bail!` inside the loop
  | panic

/-- parse the listed slices; returns (parsed RPUs in order, any failed, any panicked) -/
def parseSlices : List Bytes → List Rpu × Bool × Bool
  | [] => ([], false, false)
  | d :: ds =>
    let (rs, failed, pan) := parseSlices ds
    match parseNalu d with
    | .ok r => (r :: rs, failed, pan)
    | .error => (rs, true, pan)
    | .panic => (rs, failed, true)

/-- one iteration of the `while let Ok(n) = reader.read(…)` loop -/
def step (c : Nat) (s : St) : Step :=
  let read := s.rest.take c
  let readBytes := read.length
  if readBytes == 0 && s.chunk.isEmpty then .done s        -- (`end` is empty between iterations)
  else
    let chunk := s.chunk ++ read
    let offsets := findSC4 0 chunk
    match offsets.getLast? with
    | none => .bail                                          -- "No NALU start codes found in chunk"
    | some lastOff =>
      let final := readBytes < c
      let offs := if final then offsets else offsets.dropLast
      let endBuf := if final then [] else chunk.drop lastOff
      -- slice of each offset: up to the next offset, the last listed one up to `last`,
      -- and the very last offset (final read only) up to the end of the chunk
      let bounds := offs ++ (if final then [chunk.length] else [lastOff])
      let slices := (offs.zip (bounds.drop 1)).map fun (a, b) => (chunk.drop a).take (b - a)
      let (rs, failed, pan) := parseSlices slices
      if pan then .panic
      else
        let rpus := s.rpus ++ rs
        if failed then .done { s with rpus, offsetsCount := s.offsetsCount + offs.length, warned := true }
        else if rpus.isEmpty then .bail                      -- "No valid RPUs parsed for chunk"
        else .continue_ { rest := s.rest.drop c, chunk := endBuf, rpus,
                          offsetsCount := s.offsetsCount + offs.length, warned := false }

def loop (c : Nat) : Nat → St → Res St
  | 0, s => .ok s
  | fuel+1, s =>
    match step c s with
    | .continue_ s' => loop c fuel s'
    | .done s' => .ok s'
    | .bail => .error
    | .panic => .panic

/-- `parse_rpu_file` with read chunk size `c` on a file with the given content -/
def parseRpuFile (c : Nat) (file : Bytes) : Res (List Rpu) :=
  match loop c (file.length + 3) { rest := file, chunk := [], rpus := [], offsetsCount := 0, warned := false } with
  | .ok s =>
    if s.offsetsCount > 0 && s.rpus.length == s.offsetsCount then .ok s.rpus else .error
  | .error => .error
  | .panic => .panic

end Dovi.RpuFile
